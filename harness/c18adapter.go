package main

// The cloud adapter (pmtiles.BucketAdapter) driven through a real gocloud *blob.Bucket whose driver is an in-process stand-in for a
// provider: it honours the If-Match condition the adapter installs before the read, answers a failed precondition / a range past the
// end / a missing object with the provider's own error type (which gocloud wraps before the adapter sees it), and exposes the
// provider's ETag through As.  Two flavours: Azure blob and S3.

import (
	"bytes"
	"context"
	"fmt"
	"io"
	"net/http"

	"github.com/Azure/azure-sdk-for-go/sdk/azcore"
	"github.com/Azure/azure-sdk-for-go/sdk/storage/azblob"
	"github.com/aws/aws-sdk-go-v2/service/s3"
	smithyhttp "github.com/aws/smithy-go/transport/http"
	"github.com/protomaps/go-pmtiles/pmtiles"
	"gocloud.dev/blob"
	"gocloud.dev/blob/driver"
	"gocloud.dev/gcerrors"
)

type fakeCloud struct {
	driver.Bucket
	flavour string // "az" | "s3"
	objects map[string][]byte
	version map[string]int
}

func (d *fakeCloud) put(key string, data []byte)            { d.objects[key] = data; d.version[key]++ }
func (d *fakeCloud) tag(key string) string                  { return fmt.Sprintf(`"0x%08X"`, d.version[key]) }
func (d *fakeCloud) ErrorCode(err error) gcerrors.ErrorCode { return gcerrors.Unknown }
func (d *fakeCloud) ErrorAs(err error, i interface{}) bool  { return false }
func (d *fakeCloud) Close() error                           { return nil }
func (d *fakeCloud) fail(code int) error {
	if d.flavour == "az" {
		return &azcore.ResponseError{StatusCode: code, ErrorCode: "x"}
	}
	return &smithyhttp.ResponseError{Response: &smithyhttp.Response{Response: &http.Response{StatusCode: code}}, Err: fmt.Errorf("s3 status %d", code)}
}

func (d *fakeCloud) NewRangeReader(_ context.Context, key string, offset, length int64, opts *driver.ReaderOptions) (driver.Reader, error) {
	azOpts := &azblob.DownloadStreamOptions{}
	s3In := &s3.GetObjectInput{}
	if opts != nil && opts.BeforeRead != nil {
		asFunc := func(i interface{}) bool {
			switch p := i.(type) {
			case **azblob.DownloadStreamOptions:
				if d.flavour == "az" {
					*p = azOpts
					return true
				}
			case **s3.GetObjectInput:
				if d.flavour == "s3" {
					*p = s3In
					return true
				}
			}
			return false
		}
		if err := opts.BeforeRead(asFunc); err != nil {
			return nil, err
		}
	}
	data, ok := d.objects[key]
	if !ok {
		return nil, d.fail(404)
	}
	want := ""
	if ac := azOpts.AccessConditions; ac != nil && ac.ModifiedAccessConditions != nil && ac.ModifiedAccessConditions.IfMatch != nil {
		want = string(*ac.ModifiedAccessConditions.IfMatch)
	}
	if s3In.IfMatch != nil {
		want = *s3In.IfMatch
	}
	if want != "" && want != d.tag(key) {
		return nil, d.fail(412)
	}
	if offset >= int64(len(data)) {
		return nil, d.fail(416)
	}
	end := offset + length
	if end > int64(len(data)) || length < 0 {
		end = int64(len(data))
	}
	return &fakeCloudReader{Reader: bytes.NewReader(data[offset:end]), tag: d.tag(key), size: int64(len(data)), flavour: d.flavour}, nil
}

type fakeCloudReader struct {
	*bytes.Reader
	tag     string
	size    int64
	flavour string
}

func (r *fakeCloudReader) Close() error { return nil }
func (r *fakeCloudReader) Attributes() *driver.ReaderAttributes {
	return &driver.ReaderAttributes{ContentType: "application/octet-stream", Size: r.size}
}
func (r *fakeCloudReader) As(i interface{}) bool {
	switch p := i.(type) {
	case *azblob.DownloadStreamResponse:
		if r.flavour == "az" {
			t := azcore.ETag(r.tag)
			p.ETag = &t
			return true
		}
	case *s3.GetObjectOutput:
		if r.flavour == "s3" {
			t := r.tag
			p.ETag = &t
			return true
		}
	}
	return false
}

// adapter <az|s3> <objhex|missing> <off> <len> <n|c|s>: one read through the adapter; c = conditioned on the current tag, s = on the
// tag of the version that was replaced.   -> ok <hex> | refresh <status> | err <status> | crash       (judged by the oracle below)
func c18adapter(flavour, objt string, off, l int64, cond string) (string, []string) {
	ctx := context.Background()
	d := &fakeCloud{flavour: flavour, objects: map[string][]byte{}, version: map[string]int{}}
	ad := pmtiles.BucketAdapter{Bucket: blob.NewBucket(d)}
	defer ad.Close()
	var viol []string
	var obj []byte
	tag := ""
	if objt != "missing" {
		obj = unhx(objt)
		old := append([]byte{0xEE}, obj...)
		d.put("a.pmtiles", old)
		_, oldTag, _, err := ad.NewRangeReaderEtag(ctx, "a.pmtiles", 0, 1, "")
		if err != nil || oldTag == "" {
			viol = append(viol, fmt.Sprintf("cloud adapter (%s): an unconditioned read of an existing object fails or carries no tag (err=%v)", flavour, err))
		}
		d.put("a.pmtiles", obj)
		_, curTag, _, _ := ad.NewRangeReaderEtag(ctx, "a.pmtiles", 0, 1, "")
		if curTag == oldTag && len(obj) > 0 {
			viol = append(viol, fmt.Sprintf("cloud adapter (%s): the tag did not change when the object was replaced", flavour))
		}
		switch cond {
		case "c":
			tag = curTag
		case "s":
			tag = oldTag
		}
	}
	res := guarded(func() string {
		r, _, status, err := ad.NewRangeReaderEtag(ctx, "a.pmtiles", off, l, tag)
		return classifyRead(r, status, err)
	})
	inside := objt != "missing" && off < int64(len(obj))
	switch {
	case res == "crash":
		viol = append(viol, fmt.Sprintf("cloud adapter (%s): the read panics", flavour))
	case objt == "missing":
		if len(res) < 3 || res[:3] != "err" {
			viol = append(viol, fmt.Sprintf("cloud adapter (%s): a missing object is answered %q instead of an ordinary error", flavour, res))
		}
	case cond == "s" && tag != "":
		if len(res) < 7 || res[:7] != "refresh" {
			viol = append(viol, fmt.Sprintf("cloud adapter (%s): a read conditioned on an outdated tag did not fail with the refresh-required class: %s", flavour, trunc(res)))
		}
	case inside:
		end := off + l
		if end > int64(len(obj)) {
			end = int64(len(obj))
		}
		if want := "ok " + hx(obj[off:end]); res != want {
			viol = append(viol, fmt.Sprintf("cloud adapter (%s): read(%d,%d) inside the object answered %s, the object has %s", flavour, off, l, trunc(res), trunc(want)))
		}
	}
	_ = io.EOF
	return res, viol
}
