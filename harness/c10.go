package main

import (
	"bufio"
	"fmt"
	"os"
	"os/exec"
	"path/filepath"
	"strconv"
	"strings"
	"sync"
	"time"

	"github.com/protomaps/go-pmtiles/pmtiles"
)

func init() {
	props["C10"] = c10
	replays["C10"] = c10replay
}

var faultKinds = []string{"error", "notfound", "refresh412", "refresh416", "canceled", "midstream", "short", "empty", "garbage", "cutoff"}

// one fault schedule: a fault of kind k at the p-th bucket call of a script of requests, then recovery requests
// for the same and for another archive once the fault is gone.
func c10schedule(seed uint64, idx int) *srvRun {
	r := &rng{s: seed*1000003 + uint64(idx)*7919 + 17}
	cacheMB := []int{64, 64, 1, 0}[r.intn(4)]
	sr := newSrvRun(cacheMB)
	v0 := genVersion(r, 0, 0, 1, false)
	v1 := genVersion(r, 1, 1, 2, false)
	sr.versions = append(sr.versions, v0, v1)
	sr.install(v0)
	sr.install(v1)
	kind := faultKinds[idx%len(faultKinds)]
	pos := (idx / len(faultKinds)) % 7
	calls := 0
	nreq := 1 + r.intn(3)
	started := 0
	faulted := false
	for guard := 0; guard < 200; guard++ {
		pend := sr.gate.pendingList()
		alldone := started == nreq
		for _, q := range sr.reqs {
			if !q.done {
				alldone = false
			}
		}
		if alldone && len(pend) == 0 {
			break
		}
		if started < nreq && (len(pend) == 0 || r.chance(40)) {
			z, x, y, ext := pickQuery(r, v0)
			sr.start(0, z, x, y, ext)
			started++
			continue
		}
		if len(pend) == 0 {
			sr.viol = append(sr.viol, "requests outstanding but no bucket call is pending (a request can never complete)")
			break
		}
		c := pend[r.intn(len(pend))]
		outcome := "ok"
		if calls == pos && !faulted {
			outcome = kind
			// wrong bytes returned as success by a tile read cannot be detected by the server: only for fetches
			p := strings.Split(c, "/")
			off, _ := strconv.Atoi(p[2])
			if (kind == "short" || kind == "empty" || kind == "garbage") && p[1] != "" && uint64(off) >= v0.arch.H.DataOff {
				outcome = "error"
			}
			faulted = true
		}
		calls++
		sr.release(c, outcome)
	}
	// the fault is gone: the same archive and another archive must be served correctly
	for _, name := range []int{0, 1, 0} {
		v := sr.current[name]
		z, x, y, ext := pickQuery(r, v)
		sr.start(name, z, x, y, ext)
		for g := 0; g < 30; g++ {
			pend := sr.gate.pendingList()
			if len(pend) == 0 {
				break
			}
			sr.release(pend[0], "ok")
		}
		last := sr.reqs[len(sr.reqs)-1]
		if !last.done {
			sr.viol = append(sr.viol, fmt.Sprintf("after the fault (%s at call %d) a request for archive a%d does not complete", kind, pos, name))
		} else if st, body := v.answerOf(last.z, last.x, last.y, last.ext); st != last.status || (st == 200 && string(body) != string(last.body)) {
			sr.viol = append(sr.viol, fmt.Sprintf("after the fault (%s at call %d) archive a%d is answered %d instead of %d", kind, pos, name, last.status, st))
		}
	}
	sr.gate.releaseAll()
	// no lie: a 2xx must be the answer of the (only) version; never 204 for a stored tile
	sr.checkResponses(true)
	pmtiles.VerifSetTraceSink(nil)
	return sr
}

// malformed objects: truncations, header-field corruptions, garbage. Oracle only (they are not versions the model knows).
func c10malformed(seed uint64, idx int) (string, string, []string) {
	r := &rng{s: seed*999983 + uint64(idx)*104729 + 5}
	good := genVersion(r, 0, 0, 1, false)
	file := append([]byte(nil), good.arch.Bytes...)
	desc := ""
	switch idx % 8 {
	case 0:
		n := r.intn(len(file))
		file = file[:n]
		desc = fmt.Sprintf("truncated to %d of %d bytes", n, len(good.arch.Bytes))
	case 1:
		f := []int{8, 16, 24, 32, 40, 48, 56, 64, 97, 98, 99, 100, 101}[r.intn(13)]
		w := 8
		if f >= 96 {
			w = 1
		}
		for i := 0; i < w; i++ {
			file[f+i] = byte(r.next())
		}
		if r.chance(40) && w == 8 { // values near 2^64: offset+length wrap-around
			copy(file[f:], []byte{0xf0, 0xff, 0xff, 0xff, 0xff, 0xff, 0xff, 0xff})
		}
		desc = fmt.Sprintf("header field at byte %d corrupted", f)
	case 2:
		file = r.bytes(r.intn(400))
		desc = "random bytes"
	case 3:
		file[r.intn(7)] ^= 0x20
		desc = "magic number corrupted"
	case 4:
		i := 127 + r.intn(len(file)-127)
		file[i] ^= byte(1 + r.intn(255))
		desc = fmt.Sprintf("byte %d flipped (directories/metadata/tile data)", i)
	case 5:
		file = file[:127+r.intn(int(good.arch.H.RootLen)+1)]
		desc = "cut inside the root directory"
	case 6, 7:
		// a well-formed header over a root directory that announces far more entries than it holds
		// (uncompressed internals, so that the count is read as written; also behind a gzip wrapper)
		count := []uint64{1 << 62, 1 << 48, 1 << 40, 1<<64 - 1, 1 << 36}[r.intn(5)]
		dirb := specPutUvarint(nil, count)
		dirb = append(dirb, r.bytes(r.intn(6))...)
		h := good.arch.H
		h.IntComp = 1
		if idx%8 == 7 {
			dirb = gz(dirb)
			h.IntComp = 2
		}
		h.RootOff, h.RootLen = 127, uint64(len(dirb))
		file = append(append(specEncodeHeader(h), dirb...), file[127:]...)
		desc = fmt.Sprintf("root directory announcing %d entries in %d bytes", count, len(dirb))
	}
	cacheMB := []int{64, 1, 0}[r.intn(3)]
	sr := newSrvRun(cacheMB)
	sr.gate.mu.Lock()
	sr.gate.objs["a0.pmtiles"] = gateVer{file, "v1"}
	sr.gate.mu.Unlock()
	other := genVersion(r, 1, 1, 2, false)
	sr.versions = append(sr.versions, good, other)
	sr.gate.mu.Lock()
	sr.gate.objs["a1.pmtiles"] = gateVer{other.arch.Bytes, "v2"}
	sr.gate.mu.Unlock()
	sr.current[1] = other
	var viol []string
	run := func(v *srvVersion, name int, strict bool) {
		z, x, y, ext := pickQuery(r, v)
		sr.start(name, z, x, y, ext)
		for g := 0; g < 40; g++ {
			pend := sr.gate.pendingList()
			if len(pend) == 0 {
				break
			}
			sr.release(pend[0], "ok")
		}
		q := sr.reqs[len(sr.reqs)-1]
		if !q.done {
			viol = append(viol, fmt.Sprintf("malformed object (%s): the request never completes", desc))
			return
		}
		st, body := v.answerOf(q.z, q.x, q.y, q.ext)
		switch {
		case strict && q.status == st && (st != 200 || string(body) == string(q.body)):
			// the well-formed archive is answered correctly
		case q.status >= 400:
			if strict {
				viol = append(viol, fmt.Sprintf("a well-formed archive is answered %d instead of %d while another object is malformed (%s)", q.status, st, desc))
			}
		case q.status == 204 && st == 200 && idx%8 != 4 && idx%8 != 1: // a flipped directory byte or a redirected section offset can yield a different, parsable directory
			viol = append(viol, fmt.Sprintf("malformed object (%s): 204 No Content for a tile the archive stores", desc))
		case strict && (q.status != st || (st == 200 && string(body) != string(q.body))):
			viol = append(viol, fmt.Sprintf("a well-formed archive is answered %d instead of %d while another object is malformed (%s)", q.status, st, desc))
		}
	}
	run(good, 0, false)
	run(good, 0, false)
	run(other, 1, true)
	sr.gate.releaseAll()
	viol = append(viol, sr.viol...)
	return fmt.Sprintf("malformed %d %d", seed, idx), "ok", viol
}

// Every schedule runs in a child process so that a panic in a server goroutine (which kills the process) or a
// spinning event loop is an observable outcome of that schedule, not the end of the check.
func c10(r *rng, tier string, o *out) {
	nfault, nmal := 10*7*2, 150
	if tier == "thorough" {
		nfault, nmal = 10*7*60, 6000
	}
	seed := r.next() % 100000
	self, _ := os.Executable()
	type rec struct {
		line, impl string
		viol       []string
	}
	// one chunk of schedules in child processes (restarted after a crash or hang); results in order
	runChunk := func(kind string, from, to int) []rec {
		var out []rec
		for from < to {
			dir, _ := os.MkdirTemp("", "vh-c10")
			cmd := exec.Command(self, "C10child", kind, fmt.Sprint(seed), fmt.Sprint(from), fmt.Sprint(to), dir)
			cmd.Stderr = nil
			done := make(chan error, 1)
			cmd.Start()
			go func() { done <- cmd.Wait() }()
			var err error
			timedOut := false
			select {
			case err = <-done:
			case <-time.After(time.Duration(60+to-from) * time.Second):
				cmd.Process.Kill()
				timedOut = true
				<-done
			}
			// collect what the child completed
			completed := 0
			if f, e := os.Open(filepath.Join(dir, "results.txt")); e == nil {
				sc := bufio.NewScanner(f)
				sc.Buffer(make([]byte, 1<<20), 1<<28)
				for sc.Scan() {
					parts := strings.SplitN(sc.Text(), "\t", 4)
					if len(parts) < 4 {
						continue
					}
					rc := rec{line: parts[1], impl: parts[2]}
					if parts[3] != "" {
						rc.viol = strings.Split(parts[3], "\x1f")
					}
					out = append(out, rc)
					completed++
				}
				f.Close()
			}
			os.RemoveAll(dir)
			if err == nil && !timedOut {
				break
			}
			// the schedule after the last completed one killed (or hung) the process
			bad := from + completed
			what := "the server process crashed (panic in a goroutine)"
			if timedOut {
				what = "the server process hung (no progress)"
			}
			out = append(out, rec{line: fmt.Sprintf("%s %d %d", kind, seed, bad), impl: "crash",
				viol: []string{fmt.Sprintf("%s during %s schedule %d of seed %d", what, kind, bad, seed)}})
			from = bad + 1
		}
		return out
	}
	// chunks of 120 schedules, eight child processes at a time: a process that has started hundreds of servers carries their
	// event-loop goroutines along, which slows the quiescence test down and finally overflows its goroutine dump
	runAll := func(kind string, n int) {
		const chunk = 120
		nchunks := (n + chunk - 1) / chunk
		results := make([][]rec, nchunks)
		sem := make(chan bool, 8)
		var wg sync.WaitGroup
		for c := 0; c < nchunks; c++ {
			wg.Add(1)
			sem <- true
			go func(c int) {
				defer wg.Done()
				hi := (c + 1) * chunk
				if hi > n {
					hi = n
				}
				results[c] = runChunk(kind, c*chunk, hi)
				<-sem
			}(c)
		}
		wg.Wait()
		for _, rs := range results {
			for _, rc := range rs {
				idx := o.emit(rc.line, rc.impl, true)
				o.count(kind)
				for _, v := range rc.viol {
					o.violation(idx, v)
				}
			}
		}
	}
	runAll("sched", nfault)
	runAll("malformed", nmal)
}

func c10child() {
	kind := os.Args[2]
	seed, _ := strconv.ParseUint(os.Args[3], 10, 64)
	from, _ := strconv.Atoi(os.Args[4])
	to, _ := strconv.Atoi(os.Args[5])
	f, _ := os.Create(filepath.Join(os.Args[6], "results.txt"))
	for i := from; i < to; i++ {
		var line, impl string
		var viol []string
		if kind == "sched" {
			sr := c10schedule(seed, i)
			line, impl, viol = sr.caseLine(sr.cacheMB), sr.implLine(), sr.viol
		} else {
			line, impl, viol = c10malformed(seed, i)
		}
		fmt.Fprintf(f, "%d\t%s\t%s\t%s\n", i, line, impl, strings.Join(viol, "\x1f"))
		f.Sync()
	}
	f.Close()
}

func c10replay(line string) (string, []string) {
	f := strings.Fields(line)
	switch f[0] {
	case "srv":
		return srvReplay(line)
	case "sched", "malformed":
		// re-run the schedule in a child: a crash is the expected reproduction
		self, _ := os.Executable()
		dir, _ := os.MkdirTemp("", "vh-c10r")
		defer os.RemoveAll(dir)
		i, _ := strconv.Atoi(f[2])
		cmd := exec.Command(self, "C10child", f[0], f[1], fmt.Sprint(i), fmt.Sprint(i+1), dir)
		if err := cmd.Run(); err != nil {
			return "crash", []string{"the server process crashed or was killed: " + err.Error()}
		}
		b, _ := os.ReadFile(filepath.Join(dir, "results.txt"))
		parts := strings.SplitN(strings.TrimSpace(string(b)), "\t", 4)
		if len(parts) == 4 {
			var v []string
			if parts[3] != "" {
				v = strings.Split(parts[3], "\x1f")
			}
			return parts[2], v
		}
	}
	return "unknown", nil
}
