package main

import (
	"bytes"
	"fmt"
	"os"
	"path/filepath"

	"github.com/protomaps/go-pmtiles/pmtiles"
)

func init() {
	props["C15"] = c15
	replays["C15"] = c15run
}

// case: verify <expect ok|bad|any> <filesize> <depth> <fan> <gzip> <pad> <25 header fields> <ents>   ->  ok | err
// The harness writes a file whose directories hold exactly <ents> (tree shape from depth/fan/gzip, <pad> zero bytes
// after the root), whose header is exactly the 25 fields except for the section offsets/lengths of the directories
// and metadata (taken from what was written, then the case's data_len/meta_len deltas applied), and whose size is
// <filesize>; then runs the real Verify.
func c15run(line string) (string, []string) {
	t := newToks(line)
	if k := t.s(); k == "written" {
		return c15written(t)
	}
	expect := t.s()
	fsize := t.n()
	depth, fan, gzipped, pad := t.n(), t.n(), t.n() == 1, t.n()
	f := make([]string, 25)
	for i := range f {
		f[i] = t.s()
	}
	h := hdrParse(f)
	es := t.ents()
	rr := &rng{s: uint64(len(es))*31 + uint64(depth)}
	// data section: as long as the header says (capped), content irrelevant to verify
	dl := h.DataLen
	if dl > 1<<20 {
		dl = 1 << 20
	}
	a := buildArchive(rr, es, make([]byte, dl), archOpts{tree: treeOpts{depth: depth, fan: fan, gzip: gzipped, shorthand: true}, meta: "{}", pad: pad})
	// the case line's header is authoritative for every field; the directory sections keep the written geometry
	w := a.H
	w2 := h
	w2.RootOff, w2.RootLen, w2.LeafOff, w2.LeafLen = w.RootOff, w.RootLen, w.LeafOff, w.LeafLen
	if h.RootOff == 0 { // "offset set to 0" corruptions are kept
		w2.RootOff = 0
	}
	if h.LeafOff == 0 {
		w2.LeafOff = 0
	}
	file := append([]byte(nil), a.Bytes...)
	copy(file, specEncodeHeader(w2))
	if fsize < len(file) {
		file = file[:fsize]
	} else {
		file = append(file, make([]byte, fsize-len(file))...)
	}
	dir, _ := os.MkdirTemp("", "vh-c15")
	defer os.RemoveAll(dir)
	p := filepath.Join(dir, "a.pmtiles")
	os.WriteFile(p, file, 0o644)
	restore := silence()
	err := pmtiles.Verify(quietLogger, p)
	restore()
	res := "ok"
	if err != nil {
		res = "err"
	}
	var viol []string
	if expect == "ok" && err != nil {
		viol = append(viol, "verify rejects a consistent archive: "+err.Error())
	}
	if expect == "bad" && err == nil {
		viol = append(viol, "verify accepts an inconsistent archive")
	}
	return res, viol
}

// c15geom computes the geometry the writer will produce for these entries (so that case lines can carry the
// true section lengths and file size).
func c15geom(es []Ent, dl uint64, depth, fan int, gzipped bool, pad int) Hdr {
	rr := &rng{s: uint64(len(es))*31 + uint64(depth)}
	if dl > 1<<20 {
		dl = 1 << 20
	}
	a := buildArchive(rr, es, make([]byte, dl), archOpts{tree: treeOpts{depth: depth, fan: fan, gzip: gzipped, shorthand: true}, meta: "{}", pad: pad})
	return a.H
}

// case: written <cluster|convert> <dedup> <n> (<tile id> <content index>)*  -> ok | err
// A consistent input (tiles with contents from a small pool, so that runs form and may cross zoom boundaries, incl. at the very
// end) is written by the real Cluster or Convert; the property says Verify accepts what they write.
func c15written(t *toks) (string, []string) {
	writer, dedup, n := t.s(), t.n() == 1, t.n()
	pool := [][]byte{[]byte("ocean-ocean"), []byte("land"), []byte("coast-line-x")}
	if n > 0 && n%7 == 3 { // real archives hold tiles of tens of kilobytes next to tiny ones
		pool[1] = bytes.Repeat([]byte("big-tile-"), 8000) // 72,000 bytes
	}
	var tiles []tileKV
	for i := 0; i < n; i++ {
		id, c := t.u(), t.n()
		tiles = append(tiles, tileKV{id, pool[c%len(pool)]})
	}
	dir, _ := os.MkdirTemp("", "vh-c15w")
	defer os.RemoveAll(dir)
	p := filepath.Join(dir, "a.pmtiles")
	var err error
	if writer == "cluster" {
		// an unclustered, non-deduplicated, consistent input: contents in reverse order
		var es []Ent
		var data []byte
		for i := len(tiles) - 1; i >= 0; i-- {
			es = append([]Ent{{ID: tiles[i].id, Off: uint64(len(data)), Len: uint32(len(tiles[i].data)), Run: 1}}, es...)
			data = append(data, tiles[i].data...)
		}
		zmin, _, _ := pmtiles.IDToZxy(es[0].ID)
		zmax, _, _ := pmtiles.IDToZxy(es[len(es)-1].ID)
		a := buildArchive(&rng{s: 3}, es, data, archOpts{tree: treeOpts{depth: 0, fan: 4, gzip: true, shorthand: true}, tileType: 1, tileComp: 2, meta: "{}", minZoom: zmin, maxZoom: zmax})
		a.H.CenterZoom = zmin
		copy(a.Bytes, specEncodeHeader(a.H))
		os.WriteFile(p, a.Bytes, 0o644)
		restore := silence()
		if verr := pmtiles.Verify(quietLogger, p); verr != nil {
			restore()
			return "harness", []string{"harness: the input archive is not consistent: " + verr.Error()}
		}
		err = pmtiles.Cluster(quietLogger, p, dedup)
		restore()
	} else {
		var rows []mbRow
		for _, tl := range tiles {
			z, x, y := pmtiles.IDToZxy(tl.id)
			rows = append(rows, mbRow{z, x, (uint32(1) << z) - 1 - y, tl.data})
		}
		in := filepath.Join(dir, "in.mbtiles")
		if werr := writeMBTiles(in, []metaRow{{k: "format", v: "png"}}, rows); werr != nil {
			return "harness", []string{"harness: " + werr.Error()}
		}
		tmp, _ := os.CreateTemp(dir, "tmp")
		defer tmp.Close()
		restore := silence()
		err = pmtiles.Convert(quietLogger, in, p, dedup, tmp)
		restore()
	}
	if err != nil {
		return "err", []string{writer + " failed on a consistent input: " + err.Error()}
	}
	restore := silence()
	verr := pmtiles.Verify(quietLogger, p)
	restore()
	if verr != nil {
		return "err", []string{"verify rejects an archive written by " + writer + " from a consistent input: " + verr.Error()}
	}
	return "ok", nil
}

func c15(r *rng, tier string, o *out) {
	n := 60
	if tier == "thorough" {
		n = 4000
	}
	for c := 0; c < n/2; c++ {
		// tiles around a zoom boundary: the Hilbert end of zoom z and the start of zoom z+1
		z := uint(r.intn(5))
		end := hilBase(z + 1) // first id of zoom z+1
		var ids []uint64
		lo := end - uint64(1+r.intn(3))
		if lo > end {
			lo = 0
		}
		if r.chance(50) && lo > 2 {
			ids = append(ids, uint64(r.intn(int(lo)-1)))
		}
		for id := lo; id < end+uint64(1+r.intn(3)); id++ {
			ids = append(ids, id)
		}
		var sb []string
		same := r.intn(3)
		for i, id := range ids {
			ci := same
			if i == 0 && len(ids) > 3 || r.chance(15) {
				ci = r.intn(3)
			}
			sb = append(sb, fmt.Sprintf("%d %d", id, ci))
		}
		if r.chance(30) { // something different after the run
			sb = append(sb, fmt.Sprintf("%d %d", ids[len(ids)-1]+1+uint64(r.intn(3)), (same+1)%3))
		}
		line := fmt.Sprintf("written %s %d %d %s", []string{"cluster", "convert"}[r.intn(2)], r.intn(2), len(sb), joinStr(sb))
		impl, viol := runCase("C15", line)
		idx := o.emit(line, impl, true)
		o.count("written_then_verified")
		for _, v := range viol {
			o.violation(idx, v)
		}
	}
	emit := func(expect string, fsize uint64, depth, fan int, gz bool, pad int, h Hdr, es []Ent, tag string) {
		line := fmt.Sprintf("verify %s %d %d %d %d %d %s %s", expect, fsize, depth, fan, b2i(gz), pad, hdrStr(h), entsStr(es))
		impl, viol := runCase("C15", line)
		idx := o.emit(line, impl, true)
		o.count(tag)
		for _, v := range viol {
			o.violation(idx, v)
		}
	}
	for c := 0; c < n; c++ {
		ne := 2 + r.intn(12)
		eo := entOpts{n: ne, maxGapLog: 10, runs: true, shared: r.chance(50)}
		if c%6 == 5 { // the smallest archives: one entry addressing one tile (every count is 1)
			eo = entOpts{n: 1, maxGapLog: 10}
		}
		es, dl := genEntries(r, eo)
		if c%6 == 4 { // fully deduplicated: every entry points at the first content
			for i := range es {
				es[i].Off, es[i].Len = es[0].Off, es[0].Len
			}
			dl = uint64(es[0].Len)
		}
		clustered := r.chance(60)
		if !clustered && len(es) > 1 { // an unordered layout: swap the offsets of the first two distinct contents
			for i := 1; i < len(es); i++ {
				if es[i].Off != es[0].Off {
					es[0].Off, es[i].Off = es[i].Off, es[0].Off
					es[0].Len, es[i].Len = es[i].Len, es[0].Len
					break
				}
			}
		}
		depth, fan, gz := r.intn(3), 1+r.intn(5), r.chance(50)
		pad := 0
		zmin, _, _ := pmtiles.IDToZxy(es[0].ID)
		zmax, _, _ := pmtiles.IDToZxy(es[len(es)-1].ID)
		g := c15geom(es, dl, depth, fan, gz, pad)
		h := g
		h.MinZoom, h.MaxZoom, h.CenterZoom = zmin, zmax, zmin
		h.MinLon, h.MinLat, h.MaxLon, h.MaxLat = -100, -100, 100, 100
		h.Clustered = 0
		ordered := isClustered(es)
		if clustered && ordered {
			h.Clustered = 1
		}
		size := g.DataOff + g.DataLen
		emit("ok", size, depth, fan, gz, pad, h, es, "valid")
		// every single-field corruption
		bad := func(tag string, mut func(h *Hdr)) {
			hh := h
			mut(&hh)
			emit("bad", size, depth, fan, gz, pad, hh, es, tag)
		}
		bad("addressed+1", func(h *Hdr) { h.Addressed++ })
		bad("addressed-1", func(h *Hdr) { h.Addressed-- })
		bad("entries+1", func(h *Hdr) { h.Entries++ })
		bad("entries-1", func(h *Hdr) { h.Entries-- })
		bad("contents+1", func(h *Hdr) { h.Contents++ })
		bad("contents-1", func(h *Hdr) { h.Contents-- })
		bad("addressed=0", func(h *Hdr) { h.Addressed = 0 })
		bad("entries=0", func(h *Hdr) { h.Entries = 0 })
		bad("contents=0", func(h *Hdr) { h.Contents = 0 })
		bad("minzoom", func(h *Hdr) { h.MinZoom++; h.CenterZoom = h.MinZoom })
		bad("maxzoom", func(h *Hdr) { h.MaxZoom++ })
		bad("centerzoom", func(h *Hdr) { h.CenterZoom = h.MaxZoom + 1 })
		bad("bounds-lon", func(h *Hdr) { h.MaxLon = h.MinLon })
		bad("bounds-lat", func(h *Hdr) { h.MinLat = h.MaxLat + 1 })
		bad("datalen+1", func(h *Hdr) { h.DataLen++ })
		bad("datalen-1", func(h *Hdr) { h.DataLen-- })
		bad("metalen+1", func(h *Hdr) { h.MetaLen++ })
		bad("dataoff0", func(h *Hdr) { h.DataOff = 0 })
		bad("metaoff0", func(h *Hdr) { h.MetaOff = 0 })
		bad("rootoff0", func(h *Hdr) { h.RootOff = 0 })
		bad("leafoff0", func(h *Hdr) { h.LeafOff = 0 })
		// file size
		emit("bad", size-1, depth, fan, gz, pad, h, es, "truncated")
		emit("bad", size+uint64(1+r.intn(9)), depth, fan, gz, pad, h, es, "extended")
		// entry-level corruptions (counts stay those of the original entries)
		if !ordered || h.Clustered == 0 {
			hh := h
			hh.Clustered = 1
			if !ordered {
				emit("bad", size, depth, fan, gz, pad, hh, es, "clustered-flag-on-unordered")
			}
		}
		{ // one entry shifted beyond the tile data section
			es2 := append([]Ent(nil), es...)
			i := r.intn(len(es2))
			es2[i].Off = dl + uint64(r.intn(5))
			g2 := c15geom(es2, dl, depth, fan, gz, pad)
			hh := h
			hh.RootLen, hh.LeafLen, hh.MetaOff, hh.LeafOff, hh.DataOff = g2.RootLen, g2.LeafLen, g2.MetaOff, g2.LeafOff, g2.DataOff
			hh.Contents = distinctOffs(es2)
			hh.Clustered = 0
			emit("bad", g2.DataOff+g2.DataLen, depth, fan, gz, pad, hh, es2, "entry-outside")
		}
		if ordered && len(es) > 2 { // ordered archive, offset of one later entry shifted backwards to an unused value
			es2 := append([]Ent(nil), es...)
			i := len(es2) - 1
			if es2[i].Off > 3 && !offUsed(es2[:i], es2[i].Off-3) && firstUse(es2, i) {
				es2[i].Off -= 3
				g2 := c15geom(es2, dl, depth, fan, gz, pad)
				hh := h
				hh.Clustered = 1
				hh.RootLen, hh.LeafLen, hh.MetaOff, hh.LeafOff, hh.DataOff = g2.RootLen, g2.LeafLen, g2.MetaOff, g2.LeafOff, g2.DataOff
				hh.Contents = distinctOffs(es2)
				emit("bad", g2.DataOff+g2.DataLen, depth, fan, gz, pad, hh, es2, "entry-shifted-back")
			}
		}
		// padded layout: root section padded so that the metadata starts at byte 16384
		if c%5 == 0 {
			gp := c15geom(es, dl, depth, fan, gz, 16384-127-int(g.RootLen))
			hp := h
			hp.RootLen, hp.LeafLen, hp.MetaOff, hp.LeafOff, hp.DataOff = gp.RootLen, gp.LeafLen, gp.MetaOff, gp.LeafOff, gp.DataOff
			emit("ok", gp.DataOff+gp.DataLen, depth, fan, gz, 16384-127-int(g.RootLen), hp, es, "valid-padded")
		}
	}
}

func isClustered(es []Ent) bool {
	seen := map[uint64]bool{}
	var cur uint64
	for _, e := range es {
		if !seen[e.Off] {
			if e.Off != cur {
				return false
			}
			cur += uint64(e.Len)
			seen[e.Off] = true
		}
	}
	return true
}
func distinctOffs(es []Ent) uint64 {
	m := map[uint64]bool{}
	for _, e := range es {
		m[e.Off] = true
	}
	return uint64(len(m))
}
func offUsed(es []Ent, o uint64) bool {
	for _, e := range es {
		if e.Off == o {
			return true
		}
	}
	return false
}
func firstUse(es []Ent, i int) bool { return !offUsed(es[:i], es[i].Off) }

func joinStr(v []string) string {
	out := ""
	for i, x := range v {
		if i > 0 {
			out += " "
		}
		out += x
	}
	return out
}
