package main

import (
	"bytes"
	"fmt"
	"strconv"
	"strings"

	"github.com/protomaps/go-pmtiles/pmtiles"
)

func init() {
	props["C02"] = c02
	replays["C02"] = c02run
}

func hdrToImpl(h Hdr) pmtiles.HeaderV3 {
	return pmtiles.HeaderV3{SpecVersion: h.Version, RootOffset: h.RootOff, RootLength: h.RootLen, MetadataOffset: h.MetaOff, MetadataLength: h.MetaLen,
		LeafDirectoryOffset: h.LeafOff, LeafDirectoryLength: h.LeafLen, TileDataOffset: h.DataOff, TileDataLength: h.DataLen,
		AddressedTilesCount: h.Addressed, TileEntriesCount: h.Entries, TileContentsCount: h.Contents, Clustered: h.Clustered == 1,
		InternalCompression: pmtiles.Compression(h.IntComp), TileCompression: pmtiles.Compression(h.TileComp), TileType: pmtiles.TileType(h.TileType),
		MinZoom: h.MinZoom, MaxZoom: h.MaxZoom, MinLonE7: h.MinLon, MinLatE7: h.MinLat, MaxLonE7: h.MaxLon, MaxLatE7: h.MaxLat,
		CenterZoom: h.CenterZoom, CenterLonE7: h.CenterLon, CenterLatE7: h.CenterLat}
}
func hdrFromImpl(h pmtiles.HeaderV3) Hdr {
	c := uint8(0)
	if h.Clustered {
		c = 1
	}
	return Hdr{Version: h.SpecVersion, RootOff: h.RootOffset, RootLen: h.RootLength, MetaOff: h.MetadataOffset, MetaLen: h.MetadataLength,
		LeafOff: h.LeafDirectoryOffset, LeafLen: h.LeafDirectoryLength, DataOff: h.TileDataOffset, DataLen: h.TileDataLength,
		Addressed: h.AddressedTilesCount, Entries: h.TileEntriesCount, Contents: h.TileContentsCount, Clustered: c,
		IntComp: uint8(h.InternalCompression), TileComp: uint8(h.TileCompression), TileType: uint8(h.TileType),
		MinZoom: h.MinZoom, MaxZoom: h.MaxZoom, MinLon: h.MinLonE7, MinLat: h.MinLatE7, MaxLon: h.MaxLonE7, MaxLat: h.MaxLatE7,
		CenterZoom: h.CenterZoom, CenterLon: h.CenterLonE7, CenterLat: h.CenterLatE7}
}

// the 25 fields in Go struct order, as decimal integers
func hdrStr(h Hdr) string {
	return fmt.Sprintf("%d %d %d %d %d %d %d %d %d %d %d %d %d %d %d %d %d %d %d %d %d %d %d %d %d",
		h.Version, h.RootOff, h.RootLen, h.MetaOff, h.MetaLen, h.LeafOff, h.LeafLen, h.DataOff, h.DataLen, h.Addressed, h.Entries, h.Contents,
		h.Clustered, h.IntComp, h.TileComp, h.TileType, h.MinZoom, h.MaxZoom, h.MinLon, h.MinLat, h.MaxLon, h.MaxLat, h.CenterZoom, h.CenterLon, h.CenterLat)
}
func hdrParse(f []string) Hdr {
	u := func(i int) uint64 { v, _ := strconv.ParseUint(f[i], 10, 64); return v }
	s := func(i int) int32 { v, _ := strconv.ParseInt(f[i], 10, 64); return int32(v) }
	return Hdr{Version: uint8(u(0)), RootOff: u(1), RootLen: u(2), MetaOff: u(3), MetaLen: u(4), LeafOff: u(5), LeafLen: u(6), DataOff: u(7), DataLen: u(8),
		Addressed: u(9), Entries: u(10), Contents: u(11), Clustered: uint8(u(12)), IntComp: uint8(u(13)), TileComp: uint8(u(14)), TileType: uint8(u(15)),
		MinZoom: uint8(u(16)), MaxZoom: uint8(u(17)), MinLon: s(18), MinLat: s(19), MaxLon: s(20), MaxLat: s(21), CenterZoom: uint8(u(22)), CenterLon: s(23), CenterLat: s(24)}
}

// cases: hdr_ser <25 fields> -> ok <hex>;  hdr_deser <hex> -> ok <25 fields> | err | crash
func c02run(line string) (string, []string) {
	f := strings.Fields(line)
	var viol []string
	switch f[0] {
	case "hdr_ser":
		h := hdrParse(f[1:])
		b := pmtiles.SerializeHeader(hdrToImpl(h))
		want := h
		want.Version = 3
		if !bytes.Equal(b, specEncodeHeader(want)) {
			viol = append(viol, "SerializeHeader output differs from the v3 specification layout: got "+hx(b)+" want "+hx(specEncodeHeader(want)))
		}
		if len(b) != 127 {
			viol = append(viol, fmt.Sprintf("SerializeHeader wrote %d bytes", len(b)))
		}
		res := guarded(func() string {
			back, err := pmtiles.DeserializeHeader(b)
			if err != nil || hdrStr(hdrFromImpl(back)) != hdrStr(want) {
				viol = append(viol, fmt.Sprintf("header round trip lost a field: got %s want %s err=%v", hdrStr(hdrFromImpl(back)), hdrStr(want), err))
			}
			return ""
		})
		if res == "crash" {
			viol = append(viol, "DeserializeHeader panicked on SerializeHeader's output")
		}
		return "ok " + hx(b), viol
	case "hdr_deser":
		raw := unhx(f[1])
		res := guarded(func() string {
			h, err := pmtiles.DeserializeHeader(raw)
			if err != nil {
				return "err"
			}
			return "ok " + hdrStr(hdrFromImpl(h))
		})
		if len(raw) >= 127 {
			sh, serr := specDecodeHeader(raw)
			switch {
			case serr != nil && res != "err":
				viol = append(viol, "input with a wrong magic number or version > 3 was not rejected: "+res)
			case serr == nil && raw[7] == 3 && res != "ok "+hdrStr(normBool(sh)):
				viol = append(viol, "a v3 header is decoded differently from the specification: got "+res+" want ok "+hdrStr(normBool(sh)))
			case serr == nil && sh.Version == 3 && sh.Clustered <= 1 && len(raw) == 127:
				h, _ := pmtiles.DeserializeHeader(raw)
				if back := pmtiles.SerializeHeader(h); !bytes.Equal(back, raw) {
					viol = append(viol, "bytes -> header -> bytes does not reproduce the input: "+hx(back))
				}
			}
		}
		return res, viol
	}
	return "unknown-op", nil
}

// the Go struct holds Clustered as a bool: any byte other than 1 reads as false
func normBool(h Hdr) Hdr {
	if h.Clustered != 1 {
		h.Clustered = 0
	}
	return h
}

func c02(r *rng, tier string, o *out) {
	n := 1500
	if tier == "thorough" {
		n = 150000
	}
	emit := func(line string, nt bool, tag string) {
		impl, viol := runCase("C02", line)
		idx := o.emit(line, impl, nt)
		o.count(tag)
		for _, v := range viol {
			o.violation(idx, v)
		}
		if f := strings.Fields(line); f[0] == "hdr_deser" {
			raw := unhx(f[1])
			if len(raw) != 127 || (string(raw[:7]) == "PMTiles" && raw[7] < 3) {
				o.outside(idx, "not a 127-byte string, or a header of spec version 0..2: the property speaks of v3 headers and of rejecting wrong magic / version above 3")
			}
		}
	}
	u64 := func() uint64 {
		switch r.intn(6) {
		case 0:
			return 0
		case 1:
			return ^uint64(0)
		case 2:
			return uint64(1) << uint(r.intn(64))
		case 3:
			return r.next() >> uint(r.intn(64))
		}
		return r.next()
	}
	i32 := func() int32 {
		switch r.intn(7) {
		case 0:
			return 0
		case 1:
			return -1
		case 2:
			return -2147483648
		case 3:
			return 2147483647
		case 4:
			return int32(r.intn(1800000000)) * int32(1-2*r.intn(2))
		}
		return int32(r.next())
	}
	u8 := func() uint8 {
		if r.chance(30) {
			return []uint8{0, 1, 2, 3, 4, 5, 127, 128, 255}[r.intn(9)]
		}
		return uint8(r.next())
	}
	randHdr := func() Hdr {
		return Hdr{Version: u8(), RootOff: u64(), RootLen: u64(), MetaOff: u64(), MetaLen: u64(), LeafOff: u64(), LeafLen: u64(), DataOff: u64(), DataLen: u64(),
			Addressed: u64(), Entries: u64(), Contents: u64(), Clustered: uint8(r.intn(2)), IntComp: u8(), TileComp: u8(), TileType: u8(), MinZoom: u8(), MaxZoom: u8(),
			MinLon: i32(), MinLat: i32(), MaxLon: i32(), MaxLat: i32(), CenterZoom: u8(), CenterLon: i32(), CenterLat: i32()}
	}
	// a header with pairwise distinct field values (detects swapped fields at once)
	d := Hdr{3, 0x0101010101010101, 0x0202020202020202, 0x0303030303030303, 0x0404040404040404, 0x0505050505050505, 0x0606060606060606, 0x0707070707070707,
		0x0808080808080808, 0x0909090909090909, 0x0a0a0a0a0a0a0a0a, 0x0b0b0b0b0b0b0b0b, 1, 13, 14, 15, 16, 17, 18, -19, 20, -21, 22, -23, 24}
	emit("hdr_ser "+hdrStr(d), true, "distinct")
	emit("hdr_deser "+hx(specEncodeHeader(d)), true, "distinct")
	for c := 0; c < n; c++ {
		h := randHdr()
		emit("hdr_ser "+hdrStr(h), true, "ser")
		h.Version = 3
		if r.chance(20) {
			h.Version = uint8(r.intn(4))
		}
		b := specEncodeHeader(h)
		emit("hdr_deser "+hx(b), true, "deser_valid")
		switch r.intn(6) {
		case 0: // random 127-byte string with a valid magic
			m := append([]byte("PMTiles"), r.bytes(120)...)
			emit("hdr_deser "+hx(m), true, "deser_random_magic_ok")
		case 1: // single byte corruption (magic, version, clustered, anything)
			m := append([]byte(nil), b...)
			pos := []int{r.intn(7), 7, 96, r.intn(127)}[r.intn(4)]
			m[pos] = byte(r.next())
			emit("hdr_deser "+hx(m), true, "deser_corrupt")
		case 2: // version above 3
			m := append([]byte(nil), b...)
			m[7] = byte(4 + r.intn(252))
			emit("hdr_deser "+hx(m), true, "deser_version")
		case 3: // arbitrary bytes
			emit("hdr_deser "+hx(r.bytes(127)), true, "deser_garbage")
		case 4: // shorter than a header: the Go reader slices, i.e. panics, unless the magic/version gate fires first
			emit("hdr_deser "+hx(b[:r.intn(127)]), true, "deser_short")
		case 5: // longer input: trailing bytes are ignored
			emit("hdr_deser "+hx(append(append([]byte(nil), b...), r.bytes(1+r.intn(20))...)), true, "deser_long")
		}
	}
}
