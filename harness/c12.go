package main

import (
	"bytes"
	"encoding/json"
	"fmt"
	"math"
	"net/http/httptest"
	"net/url"
	"strings"

	"github.com/protomaps/go-pmtiles/pmtiles"
)

func init() {
	props["C12"] = c12
	replays["C12"] = func(line string) (string, []string) { r, v, _, _ := c12exec(line); return r, v }
}

var methods = map[string]string{"G": "GET", "H": "HEAD", "P": "POST", "D": "DELETE", "O": "OPTIONS", "U": "PUT"}

// case: http <publichex> <method> <pathhex> <cond> <depth> <gzip> <arch>
//
//	cond: n none | ins If-None-Match: <etag of the resource> | ino If-None-Match: "other" | inx If-None-Match: * | ims If-Match: <etag> | imo If-Match: "other"
//
// result: <status> <content-type|-|?> <content-encoding|-> <etag 0|1> <body: hex | tj ... | ->
func c12exec(line string) (string, []string, string, string) {
	t := newToks(line)
	t.s()
	public := string(unhx(t.s()))
	method := methods[t.s()]
	path := string(unhx(t.s()))
	cond := t.s()
	depth, gzipped := t.n(), t.n() == 1
	h, es, data, meta := parseArch(t)
	rr := &rng{s: 99}
	a := buildArchive(rr, es, data, archOpts{tree: treeOpts{depth: depth, fan: 3, gzip: gzipped, shorthand: true}, tileType: h.TileType, tileComp: h.TileComp,
		meta: string(meta), minZoom: h.MinZoom, maxZoom: h.MaxZoom, clustered: true})
	a.H.MinLon, a.H.MinLat, a.H.MaxLon, a.H.MaxLat = h.MinLon, h.MinLat, h.MaxLon, h.MaxLat
	a.H.CenterZoom, a.H.CenterLon, a.H.CenterLat = h.CenterZoom, h.CenterLon, h.CenterLat
	copy(a.Bytes, specEncodeHeader(a.H))
	bk := newMemBucket()
	bk.put("a.pmtiles", a.Bytes, "v1")
	srv, _ := pmtiles.NewServerWithBucket(bk, "", quietLogger, 64, public)
	srv.Start()
	do := func(m string, hdr map[string]string) *httptest.ResponseRecorder {
		rec := httptest.NewRecorder()
		req := httptest.NewRequest(m, "http://x/", nil)
		req.URL = &url.URL{Path: path}
		for k, v := range hdr {
			req.Header.Set(k, v)
		}
		srv.ServeHTTP(rec, req)
		return rec
	}
	hdr := map[string]string{}
	if cond != "n" {
		first := do("GET", nil)
		et := first.Header().Get("ETag")
		switch cond {
		case "ins":
			hdr["If-None-Match"] = et
		case "ino":
			hdr["If-None-Match"] = `"ffffffffffffffff"`
		case "inx":
			hdr["If-None-Match"] = "*"
		case "ims":
			hdr["If-Match"] = et
		case "imo":
			hdr["If-Match"] = `"ffffffffffffffff"`
		}
		if et == "" && (cond == "ins" || cond == "ims") {
			delete(hdr, "If-None-Match")
			delete(hdr, "If-Match")
		}
	}
	rec := do(method, hdr)
	st := rec.Code
	var viol []string
	if method == "HEAD" { // HEAD must answer like GET, without body
		g := do("GET", hdr)
		if g.Code != rec.Code || g.Header().Get("ETag") != rec.Header().Get("ETag") || (g.Code == 200 && (g.Header().Get("Content-Type") != rec.Header().Get("Content-Type") || g.Header().Get("Content-Encoding") != rec.Header().Get("Content-Encoding"))) {
			viol = append(viol, fmt.Sprintf("HEAD answers %d etag=%s but GET with the same headers answers %d etag=%s", rec.Code, rec.Header().Get("ETag"), g.Code, g.Header().Get("ETag")))
		}
	}
	if (method == "GET" || method == "HEAD") && cond == "ins" && hdr["If-None-Match"] != "" && rec.Code != 304 {
		viol = append(viol, fmt.Sprintf("a conditional request presenting the resource's own ETag got %d instead of 304", rec.Code))
	}
	if method != "GET" && method != "HEAD" && rec.Code != 405 {
		viol = append(viol, fmt.Sprintf("method %s answered %d instead of 405", method, rec.Code))
	}
	ct, ce, et := rec.Header().Get("Content-Type"), rec.Header().Get("Content-Encoding"), rec.Header().Get("ETag")
	body := rec.Body.Bytes()
	dash := func(s string) string {
		if s == "" {
			return "-"
		}
		return strings.ReplaceAll(s, " ", "")
	}
	res := ""
	switch {
	case st == 200:
		bodyStr := "-"
		if method == "GET" {
			bodyStr = hx(body)
			if strings.HasSuffix(path, ".json") && ct == "application/json" {
				bodyStr = tilejsonProjection(body, meta, &viol, public, strings.TrimSuffix(strings.TrimPrefix(path, "/"), ".json"), h)
			}
			if strings.HasSuffix(path, "/metadata") && ct == "application/json" && !bytes.Equal(body, meta) {
				viol = append(viol, fmt.Sprintf("the metadata endpoint does not return the archive's JSON metadata unchanged: got %s, stored %s", trunc(string(body)), trunc(string(meta))))
			}
		} else if len(body) != 0 {
			viol = append(viol, "HEAD response carries a body")
		}
		if isTile := !strings.HasSuffix(path, ".json") && !strings.HasSuffix(path, "/metadata"); isTile {
			// the property's mapping, written down independently of the code: tile type -> Content-Type, tile compression -> Content-Encoding
			wantCT := map[uint8]string{1: "application/x-protobuf", 2: "image/png", 3: "image/jpeg", 4: "image/webp", 5: "image/avif"}
			wantCE := map[uint8]string{1: "", 2: "gzip", 3: "br", 4: "zstd"}
			if w, ok := wantCT[h.TileType]; ok && ct != w {
				viol = append(viol, fmt.Sprintf("tile response has Content-Type %q, the archive's tile type %d means %q", ct, h.TileType, w))
			}
			if w, ok := wantCE[h.TileComp]; ok && ce != w {
				viol = append(viol, fmt.Sprintf("tile response has Content-Encoding %q, the archive's tile compression %d means %q (internal compression gzip=%v)", ce, h.TileComp, w, gzipped))
			}
		}
		if (h.TileType == 0 || h.TileType > 5) && !strings.HasSuffix(path, ".json") && !strings.HasSuffix(path, "/metadata") {
			ct = "?" // unknown tile type: net/http sniffs a content type from the bytes
		}
		res = fmt.Sprintf("200 %s %s %d %s", dash(ct), dash(ce), b2i(et != ""), bodyStr)
	case st == 304:
		res = fmt.Sprintf("304 - - %d -", b2i(et != ""))
		if len(body) != 0 {
			viol = append(viol, "304 response carries a body")
		}
	default:
		res = fmt.Sprintf("%d - - 0 -", st)
	}
	return res, viol, et, string(body)
}

func tilejsonProjection(body, meta []byte, viol *[]string, public, name string, h Hdr) string {
	var tj map[string]interface{}
	if err := json.Unmarshal(body, &tj); err != nil {
		*viol = append(*viol, "TileJSON is not valid JSON")
		return "tj invalid"
	}
	num := func(v interface{}) float64 { f, _ := v.(float64); return f }
	e7 := func(v interface{}) int64 { return int64(math.Round(num(v) * 1e7)) }
	tiles, _ := tj["tiles"].([]interface{})
	tmpl := ""
	if len(tiles) == 1 {
		tmpl, _ = tiles[0].(string)
	}
	b, _ := tj["bounds"].([]interface{})
	c, _ := tj["center"].([]interface{})
	for len(b) < 4 {
		b = append(b, 0.0)
	}
	for len(c) < 3 {
		c = append(c, 0.0)
	}
	// descriptive fields come from the metadata
	var md map[string]interface{}
	json.Unmarshal(meta, &md)
	for _, k := range []string{"name", "description", "attribution", "version", "vector_layers"} {
		want, has := md[k]
		got, hasGot := tj[k]
		wj, _ := json.Marshal(want)
		gj, _ := json.Marshal(got)
		if has && (!hasGot || !bytes.Equal(wj, gj)) {
			*viol = append(*viol, fmt.Sprintf("TileJSON field %q is %s, metadata has %s", k, gj, wj))
		}
	}
	// the property's clauses on the header-derived fields, independently of the model: tiles template = public URL / archive name /
	// {z}/{x}/{y}.<tile-type extension>; bounds, center and zooms are the header's
	if ext, known := extOf[h.TileType]; known {
		if want := public + "/" + name + "/{z}/{x}/{y}." + ext; tmpl != want {
			*viol = append(*viol, fmt.Sprintf("TileJSON tiles template is %q, the public URL, archive name and tile type give %q", tmpl, want))
		}
	}
	if int64(num(tj["minzoom"])) != int64(h.MinZoom) || int64(num(tj["maxzoom"])) != int64(h.MaxZoom) {
		*viol = append(*viol, fmt.Sprintf("TileJSON zooms %v..%v, header has %d..%d", tj["minzoom"], tj["maxzoom"], h.MinZoom, h.MaxZoom))
	}
	if e7(b[0]) != int64(h.MinLon) || e7(b[1]) != int64(h.MinLat) || e7(b[2]) != int64(h.MaxLon) || e7(b[3]) != int64(h.MaxLat) {
		*viol = append(*viol, fmt.Sprintf("TileJSON bounds %v differ from the header's (E7) %d %d %d %d", b, h.MinLon, h.MinLat, h.MaxLon, h.MaxLat))
	}
	if e7(c[0]) != int64(h.CenterLon) || e7(c[1]) != int64(h.CenterLat) || int64(num(c[2])) != int64(h.CenterZoom) {
		*viol = append(*viol, fmt.Sprintf("TileJSON center %v differs from the header's (E7) %d %d zoom %d", c, h.CenterLon, h.CenterLat, h.CenterZoom))
	}
	if tj["tilejson"] != "3.0.0" || tj["scheme"] != "xyz" {
		*viol = append(*viol, "TileJSON version/scheme fields wrong")
	}
	return fmt.Sprintf("tj %s %d %d %d %d %d %d %d %d %d", hx([]byte(tmpl)), int64(num(tj["minzoom"])), int64(num(tj["maxzoom"])),
		e7(b[0]), e7(b[1]), e7(b[2]), e7(b[3]), e7(c[0]), e7(c[1]), int64(num(c[2])))
}

func c12(r *rng, tier string, o *out) {
	n := 60
	if tier == "thorough" {
		n = 3000
	}
	etagOf := map[string]string{} // body -> etag
	bodyOf := map[string]string{} // etag -> body
	for c := 0; c < n; c++ {
		tt := uint8(1 + r.intn(5))
		if r.chance(8) {
			tt = []uint8{0, 6, 255}[r.intn(3)]
		}
		tc := uint8(1 + r.intn(4))
		if r.chance(8) {
			tc = []uint8{0, 5}[r.intn(2)]
		}
		minz := uint8(r.intn(3))
		maxz := minz + uint8(r.intn(3))
		// entries inside the zoom range
		var es []Ent
		var data []byte
		id := hilBase(uint(minz))
		for id < hilBase(uint(maxz)+1) && len(es) < 12 {
			l := uint32(1 + r.intn(6))
			run := uint32(1 + r.intn(2))
			off := uint64(len(data))
			if len(es) > 0 && r.chance(25) { // shared content: equal bodies for different tiles
				p := es[r.intn(len(es))]
				off, l = p.Off, p.Len
			} else {
				data = append(data, r.bytes(int(l))...)
			}
			es = append(es, Ent{ID: id, Off: off, Len: l, Run: run})
			id += uint64(run) + uint64(r.intn(3))
		}
		h := Hdr{Version: 3, TileType: tt, TileComp: tc, MinZoom: minz, MaxZoom: maxz, MinLon: -int32(r.intn(1800000000)), MinLat: -int32(r.intn(850000000)),
			MaxLon: int32(r.intn(1800000000)), MaxLat: int32(r.intn(850000000)), CenterZoom: minz, CenterLon: int32(r.intn(2000)) - 1000, CenterLat: -int32(r.intn(100000000))}
		meta := canonJSON([]byte(fmt.Sprintf(`{"name":"n%d é","description":"d <x>","attribution":"© a","version":"1.%d","vector_layers":[{"id":"l","fields":{"a":"String"}}],"extra":{"k":[1,2,{"z":null}]}}`, c, c)))
		if c%3 == 1 { // as a third-party writer may store it: keys unsorted, whitespace, HTML characters, an integer beyond 2^53, exponent notation
			meta = []byte(fmt.Sprintf("{ \"zeta\": 1e2,\n  \"name\": \"n%d <b>&amp;</b>\", \"big\": 9007199254740993, \"attribution\": \"\u00a9 x\", \"vector_layers\": [ ] }", c))
		}
		if r.chance(20) {
			meta = []byte(`{}`)
		}
		public := "https://tiles.example.com/base"
		if r.chance(10) {
			public = ""
		}
		ext := extOf[tt]
		if ext == "" {
			ext = "bin"
		}
		paths := []string{}
		for k := 0; k < 4 && len(es) > 0; k++ {
			e := es[r.intn(len(es))]
			tid := e.ID + uint64(r.intn(int(e.Run)+1)) // sometimes one past the run
			z, x, y := pmtiles.IDToZxy(tid)
			paths = append(paths, fmt.Sprintf("/a/%d/%d/%d.%s", z, x, y, ext))
		}
		paths = append(paths, fmt.Sprintf("/a/%d/0/0.%s", maxz+1, ext), "/a/0/0/0.xyz", fmt.Sprintf("/a/%d/0/0.%s", minz, "png"), fmt.Sprintf("/a/%d/0/0.%s", minz, "mvt"),
			"/b/0/0/0."+ext, "/a/metadata", "/a.json", "/b/metadata", "/b.json", "/", "/nothing", "/a/0/0", "/a/metadata/x")
		for _, p := range paths {
			for _, m := range []string{"G", "H", []string{"P", "D", "O", "U"}[r.intn(4)]} {
				conds := []string{"n"}
				if m != "P" && r.chance(50) {
					conds = []string{"n", "ins", "ino", "inx", "ims", "imo"}
				}
				for _, cd := range conds {
					line := fmt.Sprintf("http %s %s %s %s %d %d %s", hx([]byte(public)), m, hx([]byte(p)), cd, r.intn(2), r.intn(2), archStr(h, es, data, meta))
					impl, viol, et, body := c12exec(line)
					if strings.HasPrefix(impl, "200") && m == "G" && et != "" {
						if prev, ok := etagOf[body]; ok && prev != et {
							viol = append(viol, "equal bodies got different ETags")
						}
						if prev, ok := bodyOf[et]; ok && prev != body {
							viol = append(viol, "different bodies got the same ETag "+et)
						}
						etagOf[body], bodyOf[et] = et, body
					}
					if strings.HasPrefix(impl, "200") && et == "" {
						viol = append(viol, "200 response without ETag")
					}
					idx := o.emit(line, impl, true)
					o.count("status=" + strings.Fields(impl)[0])
					for _, v := range viol {
						o.violation(idx, v)
					}
				}
			}
		}
	}
}
