package main

// C20: makesync + sync. Cases
//   sync <bsKb> <dry> <gmp> <fault> <ldoff> <rmoff> <rmlen> <rloff> <rllen> <rdoff> <entsA> <entsB> <Ahex> <Bhex>
//     -> <ok|err> <len:md5 of the local file afterwards> tmp=<0|1> blocks <n> (<start> <len>)* reqs <r>|<r>|...      (fault = none)
//     -> safe | unsafe                                                                                                (fault != none)
//   multirange <base> <maxbytes> <n> (<src> <len>)*  -> <k> (<range string> <n_i>)*        (makeMultiRanges through the verif export)
// Each sync case runs in a child process (makesync on B, a loopback origin over the scratch directory, sync of A):
// a panic or log.Fatal in the code under test is an outcome, not the end of the run.

import (
	"bufio"
	"bytes"
	"encoding/binary"
	"encoding/json"
	"fmt"
	"net"
	"net/http"
	"os"
	"os/exec"
	"path/filepath"
	"runtime"
	"sort"
	"strings"
	"sync"
	"time"

	"github.com/cespare/xxhash/v2"
	"github.com/protomaps/go-pmtiles/pmtiles"
)

func init() {
	props["C20"] = c20
	replays["C20"] = c20run
}

type tileKV struct {
	id   uint64
	data []byte
}

// clustered archive contents from a tile list in tile-ID order: optional de-duplication (back references) and run-length merging
func clusteredFromTiles(tiles []tileKV, dedup bool) ([]Ent, []byte) {
	var es []Ent
	var data []byte
	seen := map[string]Ent{}
	for _, t := range tiles {
		if p, ok := seen[string(t.data)]; ok && dedup {
			if n := len(es); n > 0 && es[n-1].Off == p.Off && es[n-1].ID+uint64(es[n-1].Run) == t.id {
				es[n-1].Run++
			} else {
				es = append(es, Ent{ID: t.id, Off: p.Off, Len: p.Len, Run: 1})
			}
			continue
		}
		e := Ent{ID: t.id, Off: uint64(len(data)), Len: uint32(len(t.data)), Run: 1}
		data = append(data, t.data...)
		seen[string(t.data)] = e
		es = append(es, e)
	}
	return es, data
}

func c20archive(r *rng, tiles []tileKV, dedup bool, depth int, gzipped bool, pad bool) *Archive {
	es, data := clusteredFromTiles(tiles, dedup)
	zmax := uint8(0)
	if len(es) > 0 {
		zmax, _, _ = pmtiles.IDToZxy(es[len(es)-1].ID)
	}
	rr := &rng{s: uint64(len(es))*31 + uint64(depth)}
	a := buildArchive(rr, es, data, archOpts{tree: treeOpts{depth: depth, fan: 3, gzip: gzipped, shorthand: true}, tileType: 1, tileComp: 2,
		meta: fmt.Sprintf(`{"name":"v%d"}`, len(data)), maxZoom: zmax, clustered: true})
	return a
}

type syncObs struct {
	status string
	after  []byte
	tmp    bool
	blocks [][3]uint64 // start, len, hash
	reqs   []string
	died   bool
}

func c20child() {
	dir := os.Args[2]
	var bsKb, dry, gmp int
	fmt.Sscan(os.Args[3], &bsKb)
	fmt.Sscan(os.Args[4], &dry)
	fmt.Sscan(os.Args[5], &gmp)
	fault := os.Args[6]
	runtime.GOMAXPROCS(gmp)
	restore := silence()
	defer restore()
	bp, ap := filepath.Join(dir, "B.pmtiles"), filepath.Join(dir, "A.pmtiles")
	if err := pmtiles.Makesync(quietLogger, "v", bp, bsKb); err != nil {
		os.WriteFile(filepath.Join(dir, "status.txt"), []byte("makesync-err "+err.Error()), 0o644)
		return
	}
	var mu sync.Mutex
	var reqs []string
	h := http.HandlerFunc(func(w http.ResponseWriter, q *http.Request) {
		rg := q.Header.Get("Range")
		mu.Lock()
		reqs = append(reqs, q.Method+" "+filepath.Base(q.URL.Path)+" "+rg)
		mu.Unlock()
		if fault == "nosync" && strings.HasSuffix(q.URL.Path, ".sync") {
			http.NotFound(w, q)
			return
		}
		multi := strings.Contains(rg, ",") || (strings.HasPrefix(rg, "bytes=") && !strings.HasPrefix(rg, "bytes=0-16383") && len(reqs) > 5)
		if fault == "norange" && multi {
			q.Header.Del("Range")
		}
		f, err := os.Open(filepath.Join(dir, filepath.Base(q.URL.Path)))
		if err != nil {
			http.NotFound(w, q)
			return
		}
		defer f.Close()
		if fault == "cut" && multi {
			http.ServeContent(&cutWriter{ResponseWriter: w, left: 40}, q, "B.pmtiles", time.Time{}, f)
			return
		}
		http.ServeContent(w, q, "B.pmtiles", time.Time{}, f)
	})
	ln, _ := net.Listen("tcp", "127.0.0.1:0")
	srv := &http.Server{Handler: h}
	go srv.Serve(ln)
	url := "http://" + ln.Addr().String() + "/B.pmtiles"
	err := pmtiles.Sync(quietLogger, ap, url, dry == 1)
	st := "ok"
	if err != nil {
		st = "err " + strings.ReplaceAll(err.Error(), "\n", " ")
	}
	mu.Lock()
	os.WriteFile(filepath.Join(dir, "reqs.txt"), []byte(strings.Join(reqs, "\n")), 0o644)
	mu.Unlock()
	os.WriteFile(filepath.Join(dir, "status.txt"), []byte(st), 0o644)
}

// cutWriter aborts the connection after a few body bytes
type cutWriter struct {
	http.ResponseWriter
	left int
}

func (c *cutWriter) Write(b []byte) (int, error) {
	if len(b) > c.left {
		c.ResponseWriter.Write(b[:c.left])
		if f, ok := c.ResponseWriter.(http.Flusher); ok {
			f.Flush()
		}
		panic(http.ErrAbortHandler)
	}
	c.left -= len(b)
	return c.ResponseWriter.Write(b)
}

func parseSyncFile(b []byte) (blocks [][3]uint64, ok bool) {
	i := bytes.IndexByte(b, '\n')
	if i < 0 {
		return nil, false
	}
	var hd struct {
		NumBlocks int    `json:"num_blocks"`
		HashType  string `json:"hash_type"`
	}
	if json.Unmarshal(b[:i], &hd) != nil {
		return nil, false
	}
	rd := bufio.NewReader(bytes.NewReader(b[i+1:]))
	var last uint64
	for k := 0; k < hd.NumBlocks; k++ {
		s, e1 := binary.ReadUvarint(rd)
		l, e2 := binary.ReadUvarint(rd)
		hb := make([]byte, 8)
		n, _ := rd.Read(hb)
		if e1 != nil || e2 != nil || n != 8 {
			return blocks, false
		}
		last += s
		blocks = append(blocks, [3]uint64{last, l, binary.LittleEndian.Uint64(hb)})
	}
	return blocks, true
}

func c20exec(a, b []byte, bsKb int, dry bool, gmp int, fault string) syncObs {
	dir, _ := os.MkdirTemp("", "vh-c20")
	defer os.RemoveAll(dir)
	os.WriteFile(filepath.Join(dir, "A.pmtiles"), a, 0o644)
	os.WriteFile(filepath.Join(dir, "B.pmtiles"), b, 0o644)
	self, _ := os.Executable()
	d := 0
	if dry {
		d = 1
	}
	cmd := exec.Command(self, "C20child", dir, fmt.Sprint(bsKb), fmt.Sprint(d), fmt.Sprint(gmp), fault)
	done := make(chan error, 1)
	cmd.Start()
	go func() { done <- cmd.Wait() }()
	var o syncObs
	select {
	case <-done:
	case <-time.After(60 * time.Second):
		cmd.Process.Kill()
		<-done
		o.status = "hang"
	}
	st, err := os.ReadFile(filepath.Join(dir, "status.txt"))
	if err != nil && o.status == "" {
		o.died = true
		o.status = "died"
	} else if o.status == "" {
		o.status = string(st)
	}
	o.after, _ = os.ReadFile(filepath.Join(dir, "A.pmtiles"))
	_, terr := os.Stat(filepath.Join(dir, "A.pmtiles.tmp"))
	o.tmp = terr == nil
	if sb, err := os.ReadFile(filepath.Join(dir, "B.pmtiles.sync")); err == nil {
		o.blocks, _ = parseSyncFile(sb)
	}
	if rb, err := os.ReadFile(filepath.Join(dir, "reqs.txt")); err == nil && len(rb) > 0 {
		o.reqs = strings.Split(string(rb), "\n")
	}
	return o
}

func c20run(line string) (string, []string) {
	t := newToks(line)
	switch t.s() {
	case "sync":
		return c20sync(t)
	case "multirange":
		return c20multi(t)
	}
	return "unknown", nil
}

func c20multi(t *toks) (string, []string) {
	base, maxb, n := int64(t.u()), t.n(), t.n()
	rs := make([]pmtiles.VerifRange, n)
	for i := range rs {
		rs[i].Src = t.u()
		rs[i].Dst = rs[i].Src
		rs[i].Len = t.u()
	}
	out := pmtiles.VerifMakeMultiRanges(rs, base, maxb)
	var sb strings.Builder
	fmt.Fprintf(&sb, "%d", len(out))
	var viol []string
	k := 0
	for _, m := range out {
		fmt.Fprintf(&sb, " %s %d", m.Str, len(m.Ranges))
		if len(m.Str) > maxb && len(m.Ranges) > 1 {
			viol = append(viol, "a batch exceeds the header budget")
		}
		for _, x := range m.Ranges {
			if k >= n || x != rs[k] {
				viol = append(viol, fmt.Sprintf("batched range %d is %+v, not the %d-th input range", k, x, k))
				break
			}
			k++
		}
	}
	if k != n && len(viol) == 0 {
		viol = append(viol, "ranges lost or duplicated by batching")
	}
	return sb.String(), viol
}

func c20sync(t *toks) (string, []string) {
	bsKb, dry, gmp, fault := t.n(), t.n() == 1, t.n(), t.s()
	for i := 0; i < 6; i++ {
		t.u()
	}
	esA, esB := t.ents(), t.ents()
	a, b := unhx(t.s()), unhx(t.s())
	_, _ = esA, esB
	o := c20exec(a, b, bsKb, dry, gmp, fault)
	var viol []string
	if o.died || o.status == "hang" {
		viol = append(viol, "the makesync/sync process "+o.status+" (runtime panic, log.Fatal or hang)")
	}
	hb, _ := specDecodeHeader(b)
	// the .sync blocks: hashes of a partition of B's tile data, starting at tile IDs of B
	var sum uint64
	for i, bl := range o.blocks {
		if sum+bl[1] > hb.DataLen {
			viol = append(viol, fmt.Sprintf("block %d ends beyond the tile data", i))
			break
		}
		if xxhash.Sum64(b[hb.DataOff+sum:hb.DataOff+sum+bl[1]]) != bl[2] {
			viol = append(viol, fmt.Sprintf("block %d: hash is not the xxhash64 of bytes [%d,%d) of the tile data", i, sum, sum+bl[1]))
			break
		}
		sum += bl[1]
	}
	if len(o.blocks) > 0 && sum != hb.DataLen && len(viol) == 0 {
		viol = append(viol, fmt.Sprintf("the blocks cover %d of %d tile-data bytes", sum, hb.DataLen))
	}
	if len(o.blocks) == 0 && !strings.HasPrefix(o.status, "makesync-err") && !o.died {
		viol = append(viol, "makesync wrote a syncfile with 0 blocks")
	}
	ok := o.status == "ok"
	state := "damaged"
	switch {
	case bytes.Equal(o.after, b):
		state = "new"
	case bytes.Equal(o.after, a):
		state = "old"
	}
	if bytes.Equal(a, b) && state == "new" {
		state = "old=new"
	}
	tileReqs := 0
	for _, q := range o.reqs {
		f := strings.SplitN(q, " ", 3)
		if len(f) == 3 && strings.HasPrefix(f[2], "bytes=") && f[1] == "B.pmtiles" {
			// any requested range that reaches into the tile data
			for _, part := range strings.Split(strings.TrimPrefix(f[2], "bytes="), ",") {
				var x, y uint64
				fmt.Sscanf(part, "%d-%d", &x, &y)
				if y >= hb.DataOff && x != 0 && x >= hb.LeafOff+hb.LeafLen && y >= x {
					tileReqs++
				}
			}
		}
	}
	if fault == "none" {
		switch {
		case dry && state != "old" && state != "old=new":
			viol = append(viol, "a dry run changed the local archive")
		case dry && o.tmp:
			viol = append(viol, "a dry run left FILE.tmp")
		case !dry && ok && state != "new" && state != "old=new":
			viol = append(viol, fmt.Sprintf("sync reported success but the local file is not byte-identical to the remote archive (%d bytes, remote %d, first difference at %d)", len(o.after), len(b), firstDiff(o.after, b)))
		case !dry && !ok && !o.died && o.status != "hang":
			viol = append(viol, "sync of two valid clustered archives failed: "+o.status)
		}
		if bytes.Equal(a, b) && tileReqs > 0 {
			viol = append(viol, fmt.Sprintf("local equals remote but %d tile-data range(s) were requested", tileReqs))
		}
		if !ok && state == "damaged" {
			viol = append(viol, "a failed sync left the local archive neither old nor new")
		}
		var sb strings.Builder
		st := "err"
		if ok {
			st = "ok"
		}
		fmt.Fprintf(&sb, "%s %s tmp=%d blocks %d", st, dg(o.after, true), b2n(o.tmp), len(o.blocks))
		for _, bl := range o.blocks {
			fmt.Fprintf(&sb, " %d %d", bl[0], bl[1])
		}
		var rq []string
		for _, q := range o.reqs {
			f := strings.SplitN(q, " ", 3)
			r := f[0] + ":" + f[2]
			if strings.HasSuffix(f[1], ".sync") {
				r = "SYNCFILE"
			}
			rq = append(rq, r)
		}
		// the first five requests are sequential, the multi-range ones are issued by four threads
		if len(rq) > 5 {
			sort.Strings(rq[5:])
		}
		sb.WriteString(" reqs " + strings.Join(rq, "|"))
		return sb.String(), viol
	}
	safe := (dry && (state == "old" || state == "old=new") && !o.died) || (ok && (state == "new" || state == "old=new")) || (!ok && !o.died && o.status != "hang" && state != "damaged")
	if !safe {
		viol = append(viol, fmt.Sprintf("origin fault %q: sync status %q, local archive is %s", fault, o.status, state))
		return "unsafe", viol
	}
	return "safe", viol
}

func firstDiff(a, b []byte) int {
	for i := 0; i < len(a) && i < len(b); i++ {
		if a[i] != b[i] {
			return i
		}
	}
	if len(a) < len(b) {
		return len(a)
	}
	return len(b)
}
func b2n(b bool) int {
	if b {
		return 1
	}
	return 0
}

func c20(r *rng, tier string, o *out) {
	nPairs, nMulti := 96, 150
	if tier == "thorough" {
		nPairs, nMulti = 4000, 8000
	}
	for c := 0; c < nMulti; c++ {
		n := 1 + r.intn(12)
		base := r.u64n(1 << uint(1+r.intn(40)))
		maxb := []int{1, 10, 24, 25, 40, 64, 100, 1048376}[r.intn(8)]
		var sb strings.Builder
		var off uint64
		for i := 0; i < n; i++ {
			off += r.u64n(1 << uint(1+r.intn(20)))
			l := 1 + r.u64n(1<<uint(1+r.intn(16)))
			fmt.Fprintf(&sb, " %d %d", off, l)
			off += l
		}
		line := fmt.Sprintf("multirange %d %d %d%s", base, maxb, n, sb.String())
		impl, viol := runCase("C20", line)
		idx := o.emit(line, impl, true)
		o.count("multirange")
		for _, v := range viol {
			o.violation(idx, v)
		}
	}
	type job struct {
		line string
		kind string
	}
	var jobs []job
	for c := 0; c < nPairs; c++ {
		// world A
		nt := 1 + r.intn(40)
		blocky := (c/12)%2 == 1 // tiles of 600..900 bytes: with 1 kB blocks every tile is a block of its own, so inserting or removing a tile inserts or removes a whole block
		tsize := func() int {
			if blocky {
				return 600 + r.intn(300)
			}
			return 40 + r.intn(360)
		}
		if blocky {
			nt = 3 + r.intn(10)
		}
		id := uint64(r.intn(4))
		var ta []tileKV
		pool := [][]byte{r.bytes(60 + r.intn(300)), r.bytes(60 + r.intn(300))}
		tiny := c%9 == 8 // very small archives: sections shorter than any error body an origin might send
		if tiny {
			nt = 1 + r.intn(2)
		}
		for i := 0; i < nt; i++ {
			d := r.bytes(tsize())
			if tiny {
				d = r.bytes(1 + r.intn(4))
			}
			if r.chance(15) {
				d = pool[r.intn(2)]
			}
			ta = append(ta, tileKV{id, d})
			id += 1 + uint64(r.intn(3))
		}
		// world B: a mutation of A
		tb := append([]tileKV{}, ta...)
		kind := []string{"identical", "change_first", "change_last", "change_middle", "insert_front", "insert_end", "insert_middle", "remove_first", "remove_last", "remove_middle", "all_new", "many"}[c%12]
		newTile := func(id uint64) tileKV {
			if tiny {
				return tileKV{id, r.bytes(1 + r.intn(4))}
			}
			return tileKV{id, r.bytes(tsize())}
		}
		mid := len(tb) / 2
		switch kind {
		case "change_first":
			tb[0] = newTile(tb[0].id)
		case "change_last":
			tb[len(tb)-1] = newTile(tb[len(tb)-1].id)
		case "change_middle":
			tb[mid] = newTile(tb[mid].id)
		case "insert_front":
			if tb[0].id > 0 {
				tb = append([]tileKV{newTile(tb[0].id - 1)}, tb...)
			} else {
				tb[0] = newTile(0)
			}
		case "insert_end":
			for k := 0; k < 1+r.intn(4); k++ {
				tb = append(tb, newTile(tb[len(tb)-1].id+1+uint64(r.intn(2))))
			}
		case "insert_middle":
			if mid+1 < len(tb) && tb[mid+1].id > tb[mid].id+1 {
				x := newTile(tb[mid].id + 1)
				tb = append(tb[:mid+1], append([]tileKV{x}, tb[mid+1:]...)...)
			} else {
				tb[mid] = newTile(tb[mid].id)
			}
		case "remove_first":
			if len(tb) > 1 {
				tb = tb[1:]
			}
		case "remove_last":
			if len(tb) > 1 {
				tb = tb[:len(tb)-1]
			}
		case "remove_middle":
			if len(tb) > 2 {
				tb = append(tb[:mid], tb[mid+1:]...)
			}
		case "all_new":
			for i := range tb {
				tb[i] = newTile(tb[i].id)
			}
		case "many":
			for i := range tb {
				if r.chance(30) {
					tb[i] = newTile(tb[i].id)
				}
			}
			if r.chance(50) {
				tb = append(tb, newTile(tb[len(tb)-1].id+1))
			}
		}
		dedup := r.chance(60)
		a := c20archive(r, ta, dedup, r.intn(2), r.chance(50), false)
		b := c20archive(r, tb, dedup, r.intn(2), r.chance(50), false)
		if kind == "identical" {
			b = a
		}
		bsKb := []int{0, 1, 2, 5}[(c/24)%4] // every kind of change meets every block size
		if blocky {
			bsKb = []int{1, 0}[(c/24)%2]
		}
		dry := r.chance(12)
		fault := "none"
		if r.chance(15) {
			fault = []string{"nosync", "norange", "cut"}[r.intn(3)]
		}
		gmp := []int{1, 2, 4, 16}[r.intn(4)]
		line := fmt.Sprintf("sync %d %d %d %s %d %d %d %d %d %d %s %s %s %s", bsKb, b2n(dry), gmp, fault, a.H.DataOff, b.H.MetaOff, b.H.MetaLen, b.H.LeafOff, b.H.LeafLen, b.H.DataOff,
			entsStr(a.Ents), entsStr(b.Ents), hx(a.Bytes), hx(b.Bytes))
		jobs = append(jobs, job{line, kind + "_" + fault})
	}
	// child processes, 8 at a time
	type res struct {
		impl string
		viol []string
	}
	results := make([]res, len(jobs))
	sem := make(chan bool, 8)
	var wg sync.WaitGroup
	for i := range jobs {
		wg.Add(1)
		sem <- true
		go func(i int) {
			defer wg.Done()
			impl, viol := runCase("C20", jobs[i].line)
			results[i] = res{impl, viol}
			<-sem
		}(i)
	}
	wg.Wait()
	for i, j := range jobs {
		idx := o.emit(j.line, results[i].impl, true)
		o.count("sync_" + j.kind)
		for _, v := range results[i].viol {
			o.violation(idx, v)
		}
	}
}
