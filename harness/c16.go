package main

// C16: region extracts. Cases
//   fill <minz> <z> <nb> <boundary ids...> <np> (<probe id> <inside 0|1>)*  -> <k> (<a> <b>)* rel <count> <md5>
//       the boundary cover is the one the real code computed (orb tilecover); the probe answers come from the harness's
//       own point-in-polygon test in Web-Mercator; the model recomputes the interior ranges and the relevance set.
//   regionhdr <k> <n> (<lon> <lat>)*                                         -> <6 E7 values: bounds, centre>
//       end to end: a full source pyramid, Extract with the region; the addressed set is checked against the
//       exported region -> tile-ID-set computation, the header against the model.
// Independent oracles (own Mercator geometry) over every tile of every zoom in range: the property's two metric clauses,
// completeness of the boundary cover, parent closure.

import (
	"crypto/md5"
	"encoding/json"
	"fmt"
	"math"
	"os"
	"path/filepath"
	"sort"
	"strings"

	"github.com/protomaps/go-pmtiles/pmtiles"
)

func init() {
	props["C16"] = c16
	replays["C16"] = c16run
}

type pt struct{ x, y float64 } // Web-Mercator, world = [0,1)^2, y down
type ring []pt                 // closed: last = first
type poly []ring               // outer ring, then holes
type region struct {
	polys []poly
	lons  [][]int64 // decimal coordinates (scale 4) per ring, for JSON and the header model
}

func merc(lon, lat float64) pt {
	s := math.Sin(lat * math.Pi / 180)
	return pt{(lon + 180) / 360, 0.5 - math.Log((1+s)/(1-s))/(4*math.Pi)}
}
func ringContains(r ring, p pt) bool {
	in := false
	for i := 0; i+1 < len(r); i++ {
		a, b := r[i], r[i+1]
		if (a.y > p.y) != (b.y > p.y) && p.x < (b.x-a.x)*(p.y-a.y)/(b.y-a.y)+a.x {
			in = !in
		}
	}
	return in
}
func (g *region) contains(p pt) bool {
	for _, pl := range g.polys {
		if len(pl) == 0 || !ringContains(pl[0], p) {
			continue
		}
		hole := false
		for _, h := range pl[1:] {
			if ringContains(h, p) {
				hole = true
			}
		}
		if !hole {
			return true
		}
	}
	return false
}
func segDist(p, a, b pt) float64 {
	dx, dy := b.x-a.x, b.y-a.y
	l2 := dx*dx + dy*dy
	t := 0.0
	if l2 > 0 {
		t = ((p.x-a.x)*dx + (p.y-a.y)*dy) / l2
	}
	t = math.Max(0, math.Min(1, t))
	return math.Hypot(p.x-(a.x+t*dx), p.y-(a.y+t*dy))
}

// Chebyshev-free, plain Euclidean distance from p to the region's boundary (all rings), in world units
func (g *region) boundaryDist(p pt) float64 {
	d := math.Inf(1)
	for _, pl := range g.polys {
		for _, r := range pl {
			for i := 0; i+1 < len(r); i++ {
				d = math.Min(d, segDist(p, r[i], r[i+1]))
			}
		}
	}
	return d
}

// rings as decimal lon/lat (scale 1e4)
type dring [][2]int64

func (g *region) fromDecimal(ps [][]dring) {
	g.polys = nil
	for _, p := range ps {
		var pl poly
		for _, r := range p {
			var rr ring
			for _, c := range r {
				rr = append(rr, merc(float64(c[0])/1e4, float64(c[1])/1e4))
			}
			pl = append(pl, rr)
		}
		g.polys = append(g.polys, pl)
	}
}
func dec4(v int64) string { return jnum{v, 4}.text() }
func geoJSON(ps [][]dring, wrapper int) []byte {
	coords := func(p []dring) string {
		var rs []string
		for _, r := range p {
			var cs []string
			for _, c := range r {
				cs = append(cs, "["+dec4(c[0])+","+dec4(c[1])+"]")
			}
			rs = append(rs, "["+strings.Join(cs, ",")+"]")
		}
		return "[" + strings.Join(rs, ",") + "]"
	}
	var geom string
	if len(ps) == 1 && wrapper%2 == 0 {
		geom = `{"type":"Polygon","coordinates":` + coords(ps[0]) + `}`
	} else {
		var pp []string
		for _, p := range ps {
			pp = append(pp, coords(p))
		}
		geom = `{"type":"MultiPolygon","coordinates":[` + strings.Join(pp, ",") + `]}`
	}
	switch wrapper / 2 {
	case 0:
		return []byte(geom)
	case 1:
		return []byte(`{"type":"Feature","properties":{},"geometry":` + geom + `}`)
	}
	// a collection: one feature per polygon
	var fs []string
	for _, p := range ps {
		fs = append(fs, `{"type":"Feature","properties":{},"geometry":{"type":"Polygon","coordinates":`+coords(p)+`}}`)
	}
	return []byte(`{"type":"FeatureCollection","features":[` + strings.Join(fs, ",") + `]}`)
}

func idsDigest(ids []uint64) string {
	var sb strings.Builder
	for _, v := range ids {
		fmt.Fprintf(&sb, "%d ", v)
	}
	return fmt.Sprintf("%d %x", len(ids), md5.Sum([]byte(sb.String())))
}
func runsStr(ids []uint64) string {
	var parts []string
	for i := 0; i < len(ids); {
		j := i
		for j+1 < len(ids) && ids[j+1] == ids[j]+1 {
			j++
		}
		parts = append(parts, fmt.Sprintf("%d %d", ids[i], ids[j]+1))
		i = j + 1
	}
	return fmt.Sprintf("%d %s", len(parts), strings.Join(parts, " "))
}
func tileCenter(id uint64) (uint8, pt) {
	z, x, y := pmtiles.IDToZxy(id)
	n := float64(uint64(1) << z)
	return z, pt{(float64(x) + 0.5) / n, (float64(y) + 0.5) / n}
}

// replay: the case line is self-contained for the model; the implementation side needs the region, kept as a trailing comment token
func c16run(line string) (string, []string) {
	f := strings.Fields(line)
	switch f[0] {
	case "fill":
		// ... # <isbbox> <regionhex> <minz> <z>
		i := indexOf(f, "#")
		if i < 0 {
			return "unknown", nil
		}
		var minz, z int
		fmt.Sscan(f[i+3], &minz)
		fmt.Sscan(f[i+4], &z)
		_, interior, rel, err := pmtiles.VerifRegionBitmaps(unhx(f[i+2]), f[i+1] == "1", uint8(minz), uint8(z))
		if err != nil {
			return "err", nil
		}
		return strings.TrimSpace(runsStr(interior)) + " rel " + idsDigest(rel), nil
	case "regionhdr":
		i := indexOf(f, "#")
		if i < 0 {
			return "unknown", nil
		}
		// every other case: the source archive declares regional bounds that lie inside the region's bounding box (archives of one
		// country extracted with a larger polygon), not the whole world
		var src *[4]int32
		var k, n int
		fmt.Sscan(f[1], &k)
		fmt.Sscan(f[2], &n)
		if n > 0 && len(f[i+2])%2 == 0 && (len(f[i+2])/2)%2 == 1 {
			scale := int64(1)
			for j := k; j < 7; j++ {
				scale *= 10
			}
			var lo0, lo1, la0, la1 int64
			for j := 0; j < n; j++ {
				var lo, la int64
				fmt.Sscan(f[3+2*j], &lo)
				fmt.Sscan(f[4+2*j], &la)
				if j == 0 || lo < lo0 {
					lo0 = lo
				}
				if j == 0 || lo > lo1 {
					lo1 = lo
				}
				if j == 0 || la < la0 {
					la0 = la
				}
				if j == 0 || la > la1 {
					la1 = la
				}
			}
			w, h := (lo1-lo0)/5, (la1-la0)/5
			if w > 0 && h > 0 {
				src = &[4]int32{int32((lo0 + w) * scale), int32((la0 + h) * scale), int32((lo1 - w) * scale), int32((la1 - h) * scale)}
			}
		}
		res, viol := c16extractB(f[i+1] == "1", unhx(f[i+2]), src)
		return c16canonHdr(f, res), viol
	}
	return "unknown", nil
}

// c16canonHdr: the property wants the header's bounds and centre to BE the region's bounding box and its centre; a float64 -> E7
// conversion (truncating or rounding) lands within one unit. The compared observable therefore is: per field, the exact value when the
// stored one is within one unit of it (centre: within one unit of the exact midpoint), the stored value otherwise.
func c16canonHdr(f []string, res string) string {
	v := strings.Fields(res)
	if len(v) != 6 {
		return res
	}
	var k, n int
	fmt.Sscan(f[1], &k)
	fmt.Sscan(f[2], &n)
	scale := int64(1)
	for i := k; i < 7; i++ {
		scale *= 10
	}
	var minLo, maxLo, minLa, maxLa int64
	for i := 0; i < n; i++ {
		var lo, la int64
		fmt.Sscan(f[3+2*i], &lo)
		fmt.Sscan(f[4+2*i], &la)
		if i == 0 || lo < minLo {
			minLo = lo
		}
		if i == 0 || lo > maxLo {
			maxLo = lo
		}
		if i == 0 || la < minLa {
			minLa = la
		}
		if i == 0 || la > maxLa {
			maxLa = la
		}
	}
	exact := []int64{minLo * scale, minLa * scale, maxLo * scale, maxLa * scale}
	out := make([]string, 6)
	for i := 0; i < 4; i++ {
		var x int64
		fmt.Sscan(v[i], &x)
		if d := x - exact[i]; d >= -1 && d <= 1 {
			x = exact[i]
		}
		out[i] = fmt.Sprint(x)
	}
	for i, sum := range []int64{(minLo + maxLo) * scale, (minLa + maxLa) * scale} {
		var x int64
		fmt.Sscan(v[4+i], &x)
		if d := 2*x - sum; d >= -2 && d <= 2 {
			out[4+i] = "mid"
		} else {
			out[4+i] = fmt.Sprint(x)
		}
	}
	return strings.Join(out, " ")
}
func indexOf(f []string, s string) int {
	for i, x := range f {
		if x == s {
			return i
		}
	}
	return -1
}

// end to end: a full pyramid z0..5 as source (deep enough for tiles whose whole neighbourhood is interior), Extract with the region
func c16extract(isBbox bool, regionText []byte, g *region) (string, []string) {
	return c16extractB(isBbox, regionText, nil)
}
func c16extractB(isBbox bool, regionText []byte, srcBounds *[4]int32) (string, []string) {
	var es []Ent
	var data []byte
	for id := uint64(0); id < 1365; id++ {
		c := []byte(fmt.Sprintf("tile-%d;", id))
		es = append(es, Ent{ID: id, Off: uint64(len(data)), Len: uint32(len(c)), Run: 1})
		data = append(data, c...)
	}
	rr := &rng{s: 5}
	a := buildArchive(rr, es, data, archOpts{tree: treeOpts{depth: 1, fan: 60, gzip: true, shorthand: true}, tileType: 1, tileComp: 1, meta: `{"name":"src"}`, minZoom: 0, maxZoom: 5, clustered: true})
	if srcBounds != nil {
		a.H.MinLon, a.H.MinLat, a.H.MaxLon, a.H.MaxLat = srcBounds[0], srcBounds[1], srcBounds[2], srcBounds[3]
		copy(a.Bytes, specEncodeHeader(a.H))
	}
	dir, _ := os.MkdirTemp("", "vh-c16")
	defer os.RemoveAll(dir)
	src, out := filepath.Join(dir, "src.pmtiles"), filepath.Join(dir, "out.pmtiles")
	os.WriteFile(src, a.Bytes, 0o644)
	regionFile, bbox := "", ""
	if isBbox {
		bbox = string(regionText)
	} else {
		regionFile = filepath.Join(dir, "region.json")
		os.WriteFile(regionFile, regionText, 0o644)
	}
	restore := silence()
	err := pmtiles.Extract(quietLogger, "", src, -1, -1, regionFile, bbox, out, 2, 0.05, false)
	restore()
	if err != nil {
		return "err", nil
	}
	f, _ := os.ReadFile(out)
	h2, es2, _, _, rerr := readArch(f)
	if rerr != nil {
		return "ok unreadable", []string{"the extract cannot be read back: " + rerr.Error()}
	}
	var viol []string
	var got []uint64
	for _, e := range es2 {
		for k := uint64(0); k < uint64(e.Run); k++ {
			got = append(got, e.ID+k)
		}
	}
	_, _, rel, herr := pmtiles.VerifRegionBitmaps(regionText, isBbox, 0, 5)
	if herr == nil {
		var want []uint64
		for _, id := range rel {
			if id < 1365 {
				want = append(want, id)
			}
		}
		if fmt.Sprint(want) != fmt.Sprint(got) {
			viol = append(viol, fmt.Sprintf("the extract addresses %v, the relevance set within the source is %v", got, want))
		}
	}
	// parents present (the source has every tile)
	have := map[uint64]bool{}
	for _, id := range got {
		have[id] = true
	}
	for _, id := range got {
		if id > 0 && !have[pmtiles.ParentID(id)] {
			viol = append(viol, fmt.Sprintf("tile %d is extracted but its parent %d is not", id, pmtiles.ParentID(id)))
			break
		}
	}
	return fmt.Sprintf("%d %d %d %d %d %d", h2.MinLon, h2.MinLat, h2.MaxLon, h2.MaxLat, h2.CenterLon, h2.CenterLat), viol
}

func c16(r *rng, tier string, o *out) {
	n, ne := 140, 40
	if tier == "thorough" {
		n, ne = 8000, 1500
	}
	randRing := func(cx, cy, rad int64, nv int, concave bool) dring {
		var rg dring
		for i := 0; i < nv; i++ {
			ang := 2 * math.Pi * float64(i) / float64(nv)
			rr := float64(rad)
			if concave {
				rr *= 0.35 + 0.65*float64(r.intn(1000))/1000
			} else {
				rr *= 0.9 + 0.1*float64(r.intn(1000))/1000
			}
			lon := cx + int64(rr*math.Cos(ang))
			lat := cy + int64(rr*math.Sin(ang)*0.5)
			if lon < -1799999 {
				lon = -1799999
			}
			if lon > 1799999 {
				lon = 1799999
			}
			if lat < -840000 {
				lat = -840000
			}
			if lat > 840000 {
				lat = 840000
			}
			rg = append(rg, [2]int64{lon, lat})
		}
		rg = append(rg, rg[0])
		return rg
	}
	genRegion := func() ([][]dring, bool, []byte, string) {
		kind := []string{"bbox", "bbox_aligned", "convex", "concave", "hole", "multi_disjoint", "multi_overlap", "oblique"}[r.intn(8)]
		cx, cy := int64(r.intn(3000000))-1500000, int64(r.intn(1200000))-600000
		rad := int64(20000 + r.intn(900000))
		var ps [][]dring
		switch kind {
		case "bbox", "bbox_aligned":
			w, h := int64(1000+r.intn(1500000)), int64(1000+r.intn(500000))
			l, b := cx-w/2, cy-h/2
			if kind == "bbox_aligned" { // on tile edges of zoom 2..5 in longitude, the equator in latitude
				step := int64(3600000) >> uint(2+r.intn(4))
				l = -1800000 + step*int64(r.intn(int(3600000/step)-1))
				w = step * int64(1+r.intn(3))
				b = 0
				if r.chance(50) {
					b = -h
				}
			}
			rt, t := l+w, b+h
			if l < -1799999 {
				l = -1799999
			}
			if rt > 1799999 {
				rt = 1799999
			}
			if b < -840000 {
				b = -840000
			}
			if t > 840000 {
				t = 840000
			}
			ps = [][]dring{{{{l, t}, {rt, t}, {rt, b}, {l, b}, {l, t}}}}
			txt := fmt.Sprintf("%s,%s,%s,%s", dec4(l), dec4(b), dec4(rt), dec4(t))
			return ps, true, []byte(txt), kind
		case "convex":
			ps = [][]dring{{randRing(cx, cy, rad, 3+r.intn(9), false)}}
		case "concave":
			ps = [][]dring{{randRing(cx, cy, rad, 5+r.intn(12), true)}}
		case "hole":
			ps = [][]dring{{randRing(cx, cy, rad, 6+r.intn(8), false), randRing(cx, cy, rad/3, 4+r.intn(5), false)}}
		case "multi_disjoint":
			ps = [][]dring{{randRing(cx, cy, rad/2, 4+r.intn(6), false)}, {randRing(cx+2*rad, cy, rad/2, 4+r.intn(6), r.chance(50))}}
		case "multi_overlap":
			ps = [][]dring{{randRing(cx, cy, rad, 4+r.intn(6), false)}, {randRing(cx+rad/2, cy+rad/4, rad, 4+r.intn(6), false)}}
		case "oblique": // long oblique edges spanning much latitude, where Mercator-straight and lon/lat-straight edges differ most
			l, rt := cx-int64(200000+r.intn(600000)), cx+int64(200000+r.intn(600000))
			ps = [][]dring{{{{l, -700000 + int64(r.intn(200000))}, {rt, 500000 + int64(r.intn(300000))}, {rt + 100000, 500000}, {l + 150000, -750000}, {l, -700000 + 0}}}}
			ps[0][0][4] = ps[0][0][0]
		}
		// clamp multipolygon longitudes
		for _, p := range ps {
			for _, rg := range p {
				for i := range rg {
					if rg[i][0] > 1799999 {
						rg[i][0] = 1799999
					}
					if rg[i][0] < -1799999 {
						rg[i][0] = -1799999
					}
				}
				rg[len(rg)-1] = rg[0]
			}
		}
		return ps, false, geoJSON(ps, r.intn(6)), kind
	}
	for c := 0; c < n; c++ {
		ps, isBbox, text, kind := genRegion()
		var g region
		g.fromDecimal(ps)
		z := uint8(2 + r.intn(6))
		minz := uint8(r.intn(int(z) + 1))
		boundary, interior, rel, err := pmtiles.VerifRegionBitmaps(text, isBbox, minz, z)
		if err != nil {
			idx := o.emit("fill 0 0 0 0", "0  rel 0 d41d8cd98f00b204e9800998ecf8427e", false)
			o.violation(idx, "the region was refused: "+err.Error()+" "+trunc(string(text)))
			continue
		}
		inB := map[uint64]bool{}
		for _, b := range boundary {
			inB[b] = true
		}
		var sb strings.Builder
		fmt.Fprintf(&sb, "fill %d %d %d", minz, z, len(boundary))
		for _, b := range boundary {
			fmt.Fprintf(&sb, " %d", b)
		}
		var probes []string
		for i := 0; i+1 < len(boundary); i++ {
			if !inB[boundary[i]+1] {
				_, ctr := tileCenter(boundary[i] + 1)
				probes = append(probes, fmt.Sprintf("%d %d", boundary[i]+1, b2n(g.contains(ctr))))
			}
		}
		fmt.Fprintf(&sb, " %d %s # %d %s %d %d", len(probes), strings.Join(probes, " "), b2n(isBbox), hx(text), minz, z)
		line := strings.Join(strings.Fields(sb.String()), " ")
		impl := strings.TrimSpace(runsStr(interior)) + " rel " + idsDigest(rel)
		idx := o.emit(line, impl, true)
		o.count("fill_" + kind)
		// ---- independent oracles
		relSet := map[uint64]bool{}
		for _, id := range rel {
			relSet[id] = true
		}
		// (a) the boundary cover contains every tile an edge passes through (sampled at 1/16 tile)
		nz := float64(uint64(1) << z)
		missing := 0
		for _, pl := range g.polys {
			for _, rg := range pl {
				for i := 0; i+1 < len(rg); i++ {
					a, b := rg[i], rg[i+1]
					steps := int(math.Hypot(b.x-a.x, b.y-a.y)*nz*16) + 1
					for s := 0; s <= steps; s++ {
						t := float64(s) / float64(steps)
						x, y := (a.x+t*(b.x-a.x))*nz, (a.y+t*(b.y-a.y))*nz
						fx, fy := x-math.Floor(x), y-math.Floor(y)
						if fx < 1e-6 || fx > 1-1e-6 || fy < 1e-6 || fy > 1-1e-6 || x < 0 || y < 0 || x >= nz || y >= nz {
							continue // on a tile edge: either neighbour is acceptable
						}
						if !inB[pmtiles.ZxyToID(z, uint32(x), uint32(y))] {
							missing++
						}
					}
				}
			}
		}
		if missing > 0 {
			o.violation(idx, fmt.Sprintf("%d sampled points of the region's boundary lie in tiles that are not in the boundary cover at zoom %d", missing, z))
		}
		// (b) the two metric clauses, over every tile of every zoom in range
		fine := 1 / nz
		done := false
		for zz := minz; zz <= z && !done; zz++ {
			lo, hi := pmtiles.ZxyToID(zz, 0, 0), pmtiles.ZxyToID(zz+1, 0, 0)
			for id := lo; id < hi; id++ {
				_, ctr := tileCenter(id)
				in := g.contains(ctr)
				d := g.boundaryDist(ctr)
				w := 1 / float64(uint64(1)<<zz)
				if in && d > fine*1.0001 && !relSet[id] {
					o.violation(idx, fmt.Sprintf("tile %d (zoom %d) has its centre inside the region, %.2f finest-zoom tiles from the boundary, and is not relevant", id, zz, d/fine))
					done = true
					break
				}
				if !in && d > w*1.0001 && relSet[id] {
					o.violation(idx, fmt.Sprintf("tile %d (zoom %d) is relevant but its centre is outside the region, %.2f tile widths from the boundary", id, zz, d/w))
					done = true
					break
				}
			}
		}
		// (c) parent closure above the minimum zoom
		for _, id := range rel {
			zz, _, _ := pmtiles.IDToZxy(id)
			if zz > minz && !relSet[pmtiles.ParentID(id)] {
				o.violation(idx, fmt.Sprintf("tile %d (zoom %d) is relevant but its parent is not", id, zz))
				break
			}
		}
	}
	// end to end
	for c := 0; c < ne; c++ {
		ps, isBbox, text, kind := genRegion()
		var lons, lats []int64
		for _, p := range ps {
			for _, rg := range p {
				for _, cc := range rg {
					lons = append(lons, cc[0])
					lats = append(lats, cc[1])
				}
			}
		}
		var sb strings.Builder
		fmt.Fprintf(&sb, "regionhdr 4 %d", len(lons))
		for i := range lons {
			fmt.Fprintf(&sb, " %d %d", lons[i], lats[i])
		}
		fmt.Fprintf(&sb, " # %d %s", b2n(isBbox), hx(text))
		line := sb.String()
		impl, viol := runCase("C16", line)
		idx := o.emit(line, impl, true)
		o.count("extract_" + kind)
		for _, v := range viol {
			o.violation(idx, v)
		}
		// header = bounding box and its centre, to within one E7 unit of the exact values
		if tk := strings.Fields(impl); len(tk) == 6 { // canonical form: exact value / "mid" when within one unit, the stored value otherwise
			sort.Slice(lons, func(i, j int) bool { return lons[i] < lons[j] })
			sort.Slice(lats, func(i, j int) bool { return lats[i] < lats[j] })
			want := [6]string{fmt.Sprint(lons[0] * 1000), fmt.Sprint(lats[0] * 1000), fmt.Sprint(lons[len(lons)-1] * 1000), fmt.Sprint(lats[len(lats)-1] * 1000), "mid", "mid"}
			for i := range want {
				if tk[i] != want[i] {
					o.violation(idx, fmt.Sprintf("header bounds/centre field %d is %s, more than one E7 unit from what the region's bounding box gives (%s; centre %d / %d)", i, tk[i], want[i],
						(lons[0]+lons[len(lons)-1])*500, (lats[0]+lats[len(lats)-1])*500))
					break
				}
			}
		}
	}
	var _ = json.Marshal
}
