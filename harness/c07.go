package main

import (
	"bytes"
	"crypto/sha256"
	"fmt"
	"math"
	"os"
	"path/filepath"
	"sort"
	"strings"

	"github.com/RoaringBitmap/roaring/roaring64"
	"github.com/protomaps/go-pmtiles/pmtiles"
)

func init() {
	props["C07"] = c07
	replays["C07"] = c07run
	props["C19"] = c19
	replays["C19"] = c07run
}

type ival struct{ lo, hi uint64 }

func bitmapOf(iv []ival) *roaring64.Bitmap {
	b := roaring64.New()
	for _, i := range iv {
		b.AddRange(i.lo, i.hi)
	}
	return b
}
func ivalsStr(iv []ival) string {
	var sb strings.Builder
	fmt.Fprintf(&sb, "%d", len(iv))
	for _, i := range iv {
		fmt.Fprintf(&sb, " %d %d", i.lo, i.hi)
	}
	return sb.String()
}
func (t *toks) ivals() []ival {
	n := t.n()
	out := make([]ival, n)
	for i := range out {
		out[i] = ival{t.u(), t.u()}
	}
	return out
}
func rangesStr(rs []pmtiles.VerifRange) string {
	var sb strings.Builder
	fmt.Fprintf(&sb, "%d", len(rs))
	for _, r := range rs {
		fmt.Fprintf(&sb, " %d %d %d", r.Src, r.Dst, r.Len)
	}
	return sb.String()
}
func plansStr(ps []pmtiles.VerifPlan) string {
	sort.Slice(ps, func(i, j int) bool { return ps[i].Rng.Dst < ps[j].Rng.Dst })
	var sb strings.Builder
	fmt.Fprintf(&sb, "%d", len(ps))
	for _, p := range ps {
		fmt.Fprintf(&sb, " %d %d %d %d", p.Rng.Src, p.Rng.Dst, p.Rng.Len, len(p.CDs))
		for _, c := range p.CDs {
			fmt.Fprintf(&sb, " %d %d", c[0], c[1])
		}
	}
	return sb.String()
}

// mergeOracle: the C19 clauses evaluated on the plans the implementation produced
func mergeOracle(rs []pmtiles.VerifRange, ps []pmtiles.VerifPlan, overfetch float32) []string {
	var viol []string
	var total, req uint64
	for _, r := range rs {
		total += r.Len
	}
	monotone := true
	for i := 1; i < len(rs); i++ {
		if rs[i].Src < rs[i-1].Src+rs[i-1].Len {
			monotone = false
		}
	}
	type iv struct{ lo, hi uint64 }
	var ivs []iv
	for _, p := range ps {
		req += p.Rng.Len
		ivs = append(ivs, iv{p.Rng.Src, p.Rng.Src + p.Rng.Len})
	}
	if overfetch == 0 && req != total {
		viol = append(viol, fmt.Sprintf("overfetch 0 but %d bytes requested for %d needed", req, total))
	}
	if float64(req) > float64(total)*(1+float64(overfetch)) {
		what := "requested bytes exceed (1+overfetch) x needed"
		if total >= 1<<24 && float64(req) <= float64(total)*(1+float64(overfetch))*(1+1.0/(1<<23))+1 {
			what += " only by the float32 budget rounding"
		}
		viol = append(viol, fmt.Sprintf("%s: %d > (1+%v) x %d", what, req, overfetch, total))
	}
	sort.Slice(ivs, func(i, j int) bool { return ivs[i].lo < ivs[j].lo })
	for i := 1; i < len(ivs); i++ {
		if ivs[i].lo < ivs[i-1].hi {
			how := "monotone source offsets"
			if !monotone {
				how = "non-monotone source offsets"
			}
			viol = append(viol, fmt.Sprintf("source bytes [%d,%d) requested twice (%s)", ivs[i].lo, minU(ivs[i].hi, ivs[i-1].hi), how))
			break
		}
	}
	return viol
}
func minU(a, b uint64) uint64 {
	if a < b {
		return a
	}
	return b
}

// cases:
//
//	relevant <maxzoom> <ivals> <ents>          -> tiles <ents> leaves <ents>
//	reencode <ents>                            -> <ents> ranges <ranges> <total> <addressed> <contents>
//	merge <overfetch float32 bits> <ranges>    -> <plans in destination order>           (generated with pairwise distinct gaps)
//	mergechk <bits> <ranges> PLANS <plans>     -> planok true                             (the implementation's plans, any tie-breaking, through plan_ok)
//	extract <minz> <maxz> <ivals|none> <bits> <threads> <f|h> <depth> <gzip> <arch> -> ok <projected header> <ents> <datahex> <metahex>
func c07run(line string) (string, []string) {
	t := newToks(line)
	switch t.s() {
	case "relevant":
		mz := uint8(t.u())
		iv := t.ivals()
		es := t.ents()
		tiles, leaves := pmtiles.RelevantEntries(bitmapOf(iv), mz, toImpl(es))
		return "tiles " + entsStr(fromImpl(tiles)) + " leaves " + entsStr(fromImpl(leaves)), nil
	case "reencode":
		es := t.ents()
		re, rs, total, addr, cont := pmtiles.VerifReencodeEntries(toImpl(es))
		var viol []string
		// each distinct source content is fetched once: ranges disjoint in the source, total = sum of distinct contents
		type iv struct{ lo, hi uint64 }
		var ivs []iv
		for _, x := range rs {
			ivs = append(ivs, iv{x.Src, x.Src + x.Len})
		}
		sort.Slice(ivs, func(i, j int) bool { return ivs[i].lo < ivs[j].lo })
		for i := 1; i < len(ivs); i++ {
			if ivs[i].lo < ivs[i-1].hi {
				viol = append(viol, fmt.Sprintf("re-encoding lists source bytes [%d,%d) in two ranges: they would be requested twice even at overfetch 0", ivs[i].lo, minU(ivs[i].hi, ivs[i-1].hi)))
				break
			}
		}
		distinct := map[uint64]uint64{}
		for _, e := range es {
			distinct[e.Off] = uint64(e.Len)
		}
		var want uint64
		for _, l := range distinct {
			want += l
		}
		overl := false
		for _, a := range es {
			for _, b := range es {
				if a.Off != b.Off && a.Off < b.Off+uint64(b.Len) && b.Off < a.Off+uint64(a.Len) {
					overl = true
				}
			}
		}
		if !overl && total != want {
			viol = append(viol, fmt.Sprintf("tile data of the result is %d bytes but the distinct contents add up to %d", total, want))
		}
		// copying the listed source ranges to their destinations puts every tile's source bytes where its new entry points
		if !overl && len(re) == len(es) {
			srcOf := map[uint64]uint64{} // destination byte -> source byte
			for _, x := range rs {
				for k := uint64(0); k < x.Len && x.Len < 1<<20; k++ {
					srcOf[x.Dst+k] = x.Src + k
				}
			}
		scan:
			for i, e := range es {
				ne := re[i]
				if ne.TileID != e.ID || ne.RunLength != e.Run || ne.Length != e.Len {
					viol = append(viol, fmt.Sprintf("re-encoded entry %d is %+v, the source entry %+v", i, ne, e))
					break
				}
				for k := uint64(0); k < uint64(e.Len) && e.Len < 1<<20; k++ {
					if sp, ok := srcOf[ne.Offset+k]; !ok || sp != e.Off+k {
						viol = append(viol, fmt.Sprintf("tile id %d: byte %d of its new content comes from source byte %d (present=%v), its content in the source starts at %d", e.ID, k, sp, ok, e.Off))
						break scan
					}
				}
			}
		}
		return fmt.Sprintf("%s ranges %s %d %d %d", entsStr(fromImpl(re)), rangesStr(rs), total, addr, cont), viol
	case "merge", "mergechk":
		bits := uint32(t.u())
		n := t.n()
		rs := make([]pmtiles.VerifRange, n)
		for i := range rs {
			rs[i] = pmtiles.VerifRange{Src: t.u(), Dst: t.u(), Len: t.u()}
		}
		of := math.Float32frombits(bits)
		ps, _ := pmtiles.VerifMergeRanges(rs, of)
		if v := planExecViolations(rs, ps); v != "" {
			return plansStr(ps), []string{v}
		}
		if strings.HasPrefix(line, "mergechk") { // C19: the transfer clauses on the implementation's own plans
			return "planok true", mergeOracle(rs, ps, of)
		}
		return plansStr(ps), nil
	case "extract":
		return c07extract(t, false)
	case "extracth": // the same run judged by the transfer clauses of C19 (Range log of the origin)
		return c07extract(t, true)
	}
	return "unknown-op", nil
}

func c07extract(t *toks, transfer bool) (string, []string) {
	minz, maxz := int8(t.z()), int8(t.z())
	var iv []ival
	if t.t[t.i] == "none" {
		t.s()
	} else {
		iv = t.ivals()
	}
	bits := uint32(t.u())
	threads := t.n()
	src := t.s()
	depth, gzipped := t.n(), t.n() == 1
	h, es, data, meta := parseArch(t)
	rr := &rng{s: uint64(len(es)) + 3}
	a := buildArchive(rr, es, data, archOpts{tree: treeOpts{depth: depth, fan: 3, gzip: gzipped, shorthand: true}, tileType: h.TileType, tileComp: h.TileComp,
		meta: string(meta), minZoom: h.MinZoom, maxZoom: h.MaxZoom, clustered: true})
	a.H.MinLon, a.H.MinLat, a.H.MaxLon, a.H.MaxLat = h.MinLon, h.MinLat, h.MaxLon, h.MaxLat
	a.H.CenterZoom, a.H.CenterLon, a.H.CenterLat = h.CenterZoom, h.CenterLon, h.CenterLat
	copy(a.Bytes, specEncodeHeader(a.H))
	dir, _ := os.MkdirTemp("", "vh-c07")
	defer os.RemoveAll(dir)
	srcPath := filepath.Join(dir, "src.pmtiles")
	os.WriteFile(srcPath, a.Bytes, 0o644)
	c18once.Do(func() { c18orig = newOrigin() })
	c18orig.mu.Lock()
	c18orig.fault = ""
	c18orig.objs["src.pmtiles"] = a.Bytes
	c18orig.mu.Unlock()
	_ = iv
	run := func(out string, source string, threads int, of float32) ([]byte, []string, error) {
		c18orig.mu.Lock()
		c18orig.log = nil
		c18orig.mu.Unlock()
		restore := silence()
		var err error
		if source == "f" {
			err = pmtiles.Extract(quietLogger, "", srcPath, minz, maxz, "", "", out, threads, of, false)
		} else {
			err = pmtiles.Extract(quietLogger, c18orig.srv.URL, "src.pmtiles", minz, maxz, "", "", out, threads, of, false)
		}
		restore()
		c18orig.mu.Lock()
		lg := append([]string(nil), c18orig.log...)
		c18orig.mu.Unlock()
		if err != nil {
			return nil, lg, err
		}
		b, _ := os.ReadFile(out)
		return b, lg, nil
	}
	of := math.Float32frombits(bits)
	out, reqlog, err := run(filepath.Join(dir, "out.pmtiles"), src, threads, of)
	if err != nil {
		return "err", nil
	}
	h2, es2, data2, meta2, rerr := readArch(out)
	if rerr != nil {
		return "ok unreadable", []string{"the extract cannot be read back with the declared internal compression: " + rerr.Error()}
	}
	var viol []string
	viol = append(viol, structureViolations(out, h2, es2)...)
	// restriction: inside the clamped zoom range the content map equals the source's, outside nothing is addressed
	lo, hi := int(minz), int(maxz)
	if lo < 0 || lo < int(h.MinZoom) {
		lo = int(h.MinZoom)
	}
	if hi < 0 || hi > int(h.MaxZoom) {
		hi = int(h.MaxZoom)
	}
	var want []Ent
	for _, e := range es {
		s, eend := e.ID, e.ID+uint64(e.Run)
		b0, b1 := hilBase(uint(lo)), hilBase(uint(hi)+1)
		if s < b0 {
			s = b0
		}
		if eend > b1 {
			eend = b1
		}
		if s < eend {
			want = append(want, Ent{ID: s, Off: e.Off, Len: e.Len, Run: uint32(eend - s)})
		}
	}
	viol = append(viol, contentMapViolations(want, data, es2, data2, "extract")...)
	// are the first uses of contents, in tile-ID order, ascending in the source? (otherwise: known finding D15)
	monotone := true
	{
		seen := map[uint64]bool{}
		var last uint64
		for _, e := range want {
			if !seen[e.Off] {
				seen[e.Off] = true
				if e.Off < last {
					monotone = false
				}
				last = e.Off
			}
		}
	}
	if int(h2.MinZoom) != lo || int(h2.MaxZoom) != hi {
		viol = append(viol, fmt.Sprintf("zoom range of the extract is %d..%d, requested %d..%d clamped to the source's %d..%d", h2.MinZoom, h2.MaxZoom, minz, maxz, h.MinZoom, h.MaxZoom))
	}
	if h2.TileType != h.TileType || h2.TileComp != h.TileComp || !bytes.Equal(canonJSON(meta2), canonJSON(meta)) {
		viol = append(viol, "tile type / tile compression / metadata not copied truthfully")
	}
	if h2.Clustered != 1 {
		viol = append(viol, "extract not marked clustered")
	}
	// configuration independence: other thread counts, overfetch ratios and source kinds give the same bytes
	sum := sha256.Sum256(out)
	for _, cfg := range []struct {
		s  string
		th int
		of float32
	}{{"f", 1, 0}, {"h", 4, 0.05}, {"f", 3, 10}, {"h", 2, 1}, {"hs", 4, 0}, {"hs", 2, 0.01}} {
		if cfg.s == "hs" { // the origin completes concurrent downloads out of order
			c18orig.mu.Lock()
			c18orig.stagger = true
			c18orig.mu.Unlock()
			cfg.s = "h"
		}
		o2, lg, err2 := run(filepath.Join(dir, "out2.pmtiles"), cfg.s, cfg.th, cfg.of)
		c18orig.mu.Lock()
		staggered := c18orig.stagger
		c18orig.stagger = false
		c18orig.mu.Unlock()
		if staggered {
			cfg.s = "h(out-of-order completion)"
		}
		if err2 != nil || sha256.Sum256(o2) != sum {
			viol = append(viol, fmt.Sprintf("output differs for source=%s threads=%d overfetch=%v (err=%v)", cfg.s, cfg.th, cfg.of, err2))
		}
		if cfg.s == "h" && transfer {
			viol = append(viol, rangeLogViolations(lg, a, h2, cfg.of, monotone)...)
		}
	}
	if src == "h" && transfer {
		viol = append(viol, rangeLogViolations(reqlog, a, h2, of, monotone)...)
	}
	return "ok " + projStr(h2) + " " + entsStr(es2) + " " + hx(data2) + " " + hx(canonJSON(meta2)), viol
}

// rangeLogViolations: the Range requests the origin received (C19): inside their sections, tile bytes at most
// (1+overfetch) x needed, nothing twice.
func rangeLogViolations(lg []string, a *Archive, outH Hdr, of float32, monotone bool) []string {
	var viol []string
	type iv struct{ lo, hi uint64 }
	var tileReq []iv
	var tileBytes uint64
	for _, l := range lg {
		f := strings.Fields(l)
		if len(f) < 3 || !strings.HasPrefix(f[2], "bytes=") {
			continue
		}
		var lo, hi uint64
		if _, err := fmt.Sscanf(f[2], "bytes=%d-%d", &lo, &hi); err != nil {
			continue
		}
		hi++
		h := a.H
		switch {
		case lo >= h.DataOff:
			if hi > h.DataOff+h.DataLen {
				viol = append(viol, fmt.Sprintf("tile-data request [%d,%d) leaves the tile-data section", lo, hi))
			}
			tileReq = append(tileReq, iv{lo, hi})
			tileBytes += hi - lo
		case lo >= h.LeafOff && h.LeafLen > 0 && lo < h.LeafOff+h.LeafLen:
			if hi > h.LeafOff+h.LeafLen {
				viol = append(viol, fmt.Sprintf("leaf-directory request [%d,%d) leaves the leaf section", lo, hi))
			}
		case lo >= h.MetaOff && lo < h.MetaOff+h.MetaLen:
			if hi > h.MetaOff+h.MetaLen {
				viol = append(viol, fmt.Sprintf("metadata request [%d,%d) leaves the metadata section", lo, hi))
			}
		}
	}
	if float64(tileBytes) > float64(outH.DataLen)*(1+float64(of))+0.5 {
		viol = append(viol, fmt.Sprintf("%d tile-data bytes requested for an extract of %d tile bytes, overfetch %v", tileBytes, outH.DataLen, of))
	}
	if of == 0 && tileBytes != outH.DataLen {
		viol = append(viol, fmt.Sprintf("overfetch 0 but %d tile bytes requested for %d needed", tileBytes, outH.DataLen))
	}
	sort.Slice(tileReq, func(i, j int) bool { return tileReq[i].lo < tileReq[j].lo })
	for i := 1; i < len(tileReq); i++ {
		if tileReq[i].lo < tileReq[i-1].hi {
			how := "monotone source offsets"
			if !monotone {
				how = "non-monotone source offsets"
			}
			viol = append(viol, fmt.Sprintf("source bytes [%d,%d) requested twice (%s; end to end)", tileReq[i].lo, minU(tileReq[i].hi, tileReq[i-1].hi), how))
			break
		}
	}
	return viol
}

// planExecViolations executes the plans against a synthetic source (byte a of the source is a function of a) and
// compares the destination with what one request per range writes.
func planExecViolations(rs []pmtiles.VerifRange, ps []pmtiles.VerifPlan) string {
	var size uint64
	for _, r := range rs {
		if r.Dst+r.Len > size {
			size = r.Dst + r.Len
		}
	}
	if size > 1<<22 {
		return ""
	}
	srcByte := func(a uint64) byte { return byte(a*2654435761>>7) | 1 }
	want := make([]byte, size)
	got := make([]byte, size)
	for _, r := range rs {
		for i := uint64(0); i < r.Len; i++ {
			want[r.Dst+i] = srcByte(r.Src + i)
		}
	}
	for _, p := range ps {
		sp, dp := p.Rng.Src, p.Rng.Dst
		for _, cd := range p.CDs {
			for i := uint64(0); i < cd[0] && dp+i < size; i++ {
				got[dp+i] = srcByte(sp + i)
			}
			sp += cd[0] + cd[1]
			dp += cd[0]
		}
	}
	for i := range want {
		if want[i] != got[i] {
			return fmt.Sprintf("executing the merged plans leaves destination byte %d different from the source range it belongs to (never written or wrong)", i)
		}
	}
	return ""
}

// dropSome removes a random subset of entries: what a zoom range or region does to a de-duplicated directory
// (the first user of a shared content may be gone, so first uses are no longer ascending in the source).
func dropSome(r *rng, es []Ent) []Ent {
	if r.chance(30) {
		return es
	}
	var out []Ent
	for _, e := range es {
		if !r.chance(35) {
			out = append(out, e)
		}
	}
	return out
}

func genRanges(r *rng, n int, monotone bool, distinctGaps bool) []pmtiles.VerifRange {
	rs := make([]pmtiles.VerifRange, n)
	var src, dst uint64
	src = uint64(r.intn(50))
	used := map[uint64]bool{}
	for i := range rs {
		l := uint64(1 + r.intn(200))
		if r.chance(5) {
			l = uint64(1<<24) + r.u64n(1<<20)
		}
		rs[i] = pmtiles.VerifRange{Src: src, Dst: dst, Len: l}
		dst += l
		gap := uint64(1 + r.intn(300))
		if distinctGaps {
			for used[gap] {
				gap++
			}
			used[gap] = true
		} else if r.chance(40) {
			gap = uint64(10 * (1 + r.intn(3)))
		}
		if !monotone && r.chance(25) && src > 500 {
			src = r.u64n(src - 300) // a jump backwards in the source (shared content whose first user is not in the extract)
		} else {
			src += l + gap
		}
	}
	return rs
}

func c07emit(o *out, prop, line string, nt bool, tag string) {
	impl, viol := runCase(prop, line)
	idx := o.emit(line, impl, nt)
	o.count(tag)
	for _, v := range viol {
		o.violation(idx, v)
	}
}

var overfetches = []float32{0, 0.05, 0.1, 0.125, 0.2, 0.33, 1, 2.5, 10}

func c07(r *rng, tier string, o *out) {
	nf, ne := 300, 25
	if tier == "thorough" {
		nf, ne = 20000, 1200
	}
	for c := 0; c < nf; c++ {
		es, _ := genEntries(r, entOpts{n: r.intn(14), maxGapLog: 5, runs: true, shared: true})
		for i := range es {
			if r.chance(12) {
				es[i].Run = 0 // leaf pointer
			}
			if r.chance(10) {
				es[i].Run = uint32(2 + r.intn(12))
			}
		}
		// fix overlaps introduced by the longer runs
		for i := 1; i < len(es); i++ {
			if es[i].ID < es[i-1].ID+uint64(es[i-1].Run) {
				es[i].ID = es[i-1].ID + uint64(es[i-1].Run) + uint64(r.intn(2))
			}
		}
		var iv []ival
		pos := uint64(r.intn(4))
		for k := 0; k < 1+r.intn(5); k++ {
			l := uint64(1 + r.intn(9))
			iv = append(iv, ival{pos, pos + l})
			pos += l + uint64(1+r.intn(6))
		}
		if r.chance(15) { // intervals that start exactly on / end exactly at entry boundaries
			iv = nil
			for _, e := range es {
				if r.chance(50) {
					iv = append(iv, ival{e.ID, e.ID + 1})
				}
				if e.Run > 1 && r.chance(50) {
					iv = append(iv, ival{e.ID + uint64(e.Run) - 1, e.ID + uint64(e.Run)})
				}
			}
			sort.Slice(iv, func(i, j int) bool { return iv[i].lo < iv[j].lo })
		}
		c07emit(o, "C07", fmt.Sprintf("relevant %d %s %s", r.intn(4), ivalsStr(iv), entsStr(es)), len(es) > 2, "relevant")
		tiles, _ := genEntries(r, entOpts{n: r.intn(14), maxGapLog: 5, runs: true, shared: true})
		c07emit(o, "C07", "reencode "+entsStr(dropSome(r, tiles)), len(tiles) > 2, "reencode")
		// heavily shared contents (a pool of a few), clustered in first-use order, then thinned as a region does: later users survive
		// their content's first user, back references are followed by contents seen for the first time, in every order
		{
			k := 2 + r.intn(4)
			lens := make([]uint32, k)
			offs := make([]uint64, k)
			seen := make([]bool, k)
			for i := range lens {
				lens[i] = uint32(1 + r.intn(30))
			}
			var pe []Ent
			var next uint64
			id := uint64(r.intn(3))
			for i := 0; i < 4+r.intn(14); i++ {
				c := r.intn(k)
				if !seen[c] {
					seen[c], offs[c] = true, next
					next += uint64(lens[c])
				}
				pe = append(pe, Ent{ID: id, Off: offs[c], Len: lens[c], Run: 1})
				id += 1 + uint64(r.intn(3))
			}
			var kept []Ent
			for _, e := range pe {
				if !r.chance(40) {
					kept = append(kept, e)
				}
			}
			c07emit(o, "C07", "reencode "+entsStr(kept), len(kept) > 2, "reencode_pool")
		}
		rs := genRanges(r, 1+r.intn(9), r.chance(70), true)
		of := overfetches[r.intn(len(overfetches))]
		c07emit(o, "C07", fmt.Sprintf("merge %d %s", math.Float32bits(of), rangesStr(rs)), len(rs) > 2, "merge")
	}
	for c := 0; c < ne; c++ {
		line := genExtractCase(r)
		c07emit(o, "C07", line, true, "extract")
		c07emit(o, "C07", genExtractCaseK(r, true), true, "extract-scattered-ranges")
	}
}

func genExtractCase(r *rng) string { return genExtractCaseK(r, false) }

// scattered: contents of the lowest zooms are reused higher up and the request leaves the lowest zooms out, so the source ranges
// needed are many and far apart (several requests even with a generous overfetch)
func genExtractCaseK(r *rng, scattered bool) string {
	maxz := uint8(1 + r.intn(3))
	if scattered {
		maxz = uint8(2 + r.intn(2))
	}
	var es []Ent
	var data []byte
	id := hilBase(uint(r.intn(2)))
	for id < hilBase(uint(maxz)+1) && (len(es) < 25 || scattered && len(es) < 60) {
		run := uint32(1 + r.intn(3))
		if r.chance(15) {
			run = uint32(3 + r.intn(8)) // may cross a zoom boundary
		}
		l := uint32(1 + r.intn(12))
		off := uint64(len(data))
		if scattered {
			l = uint32(8 + r.intn(60))
		}
		if len(es) > 1 && (r.chance(25) || scattered && id >= hilBase(2) && r.chance(30)) {
			p := es[r.intn(len(es))]
			if scattered {
				p = es[r.intn(minInt(len(es), 5))]
			}
			off, l = p.Off, p.Len
		} else {
			data = append(data, r.bytes(int(l))...)
		}
		es = append(es, Ent{ID: id, Off: off, Len: l, Run: run})
		id += uint64(run) + uint64(r.intn(3))
	}
	zmin, _, _ := pmtiles.IDToZxy(es[0].ID)
	zmax, _, _ := pmtiles.IDToZxy(es[len(es)-1].ID + uint64(es[len(es)-1].Run) - 1)
	gzi := r.intn(2)
	h := Hdr{Version: 3, TileType: uint8(1 + r.intn(5)), TileComp: uint8(1 + r.intn(2)), MinZoom: zmin, MaxZoom: zmax, MinLon: -100, MinLat: -100, MaxLon: 100, MaxLat: 100, CenterZoom: zmin, Clustered: 1, IntComp: uint8(1 + gzi)}
	minz, maxzReq := -1, -1
	if r.chance(60) {
		minz = r.intn(int(zmax) + 2)
	}
	if r.chance(60) {
		maxzReq = minz + r.intn(3)
		if maxzReq < 0 {
			maxzReq = r.intn(int(zmax) + 2)
		}
	}
	of := overfetches[r.intn(len(overfetches))]
	if scattered {
		minz, maxzReq = 2, -1
		of = overfetches[r.intn(3)]
	}
	meta := canonJSON([]byte(fmt.Sprintf(`{"name":"x%d","k":[1,2]}`, r.intn(100))))
	return fmt.Sprintf("extract %d %d none %d %d %s %d %d %s", minz, maxzReq, math.Float32bits(of), 1+r.intn(4), []string{"f", "h"}[r.intn(2)], r.intn(2), gzi, archStr(h, es, data, meta))
}

func c19(r *rng, tier string, o *out) {
	nf, ne := 500, 12
	if tier == "thorough" {
		nf, ne = 40000, 600
	}
	for c := 0; c < nf; c++ {
		rs := genRanges(r, 1+r.intn(10), r.chance(85), false)
		of := overfetches[r.intn(len(overfetches))]
		if r.chance(10) {
			of = float32(r.intn(1000)) / 997
		}
		ps, _ := pmtiles.VerifMergeRanges(rs, of)
		c07emit(o, "C19", fmt.Sprintf("mergechk %d %s PLANS %s", math.Float32bits(of), rangesStr(rs), plansStr(ps)), len(rs) > 2, "mergechk")
		if c%2 == 0 { // contents referenced backwards, then repeated: what re-encoding must still fetch once
			tiles, _ := genEntries(r, entOpts{n: 2 + r.intn(12), maxGapLog: 4, runs: true, shared: true})
			c07emit(o, "C19", "reencode "+entsStr(dropSome(r, tiles)), len(tiles) > 2, "reencode")
		}
		if c%3 == 0 {
			rs2 := genRanges(r, 1+r.intn(10), true, true)
			c07emit(o, "C19", fmt.Sprintf("merge %d %s", math.Float32bits(of), rangesStr(rs2)), len(rs2) > 2, "merge")
		}
	}
	for c := 0; c < ne; c++ {
		line := genExtractCase(r)
		line = strings.Replace(line, " f ", " h ", 1)
		line = "extracth" + strings.TrimPrefix(line, "extract")
		c07emit(o, "C19", line, true, "extract-http")
		line = strings.Replace(genExtractCaseK(r, true), " f ", " h ", 1)
		if c%2 == 1 { // far-apart ranges under a generous overfetch: which gaps are bridged depends on the budget to the byte
			f := strings.Fields(line)
			f[4] = fmt.Sprint(math.Float32bits([]float32{0.2, 0.33, 0.5, 0.9, 1, 2.5}[r.intn(6)]))
			line = strings.Join(f, " ")
		}
		c07emit(o, "C19", "extracth"+strings.TrimPrefix(line, "extract"), true, "extract-http-scattered-ranges")
	}
}

func minInt(a, b int) int {
	if a < b {
		return a
	}
	return b
}
