package main

// Independent implementation of the PMTiles v3 wire formats, written from the specification
// (https://github.com/protomaps/PMTiles/blob/main/spec/v3/spec.md), not from /repo's code.
// Used to build inputs, to read outputs, and as the oracle of several properties.

import (
	"bytes"
	"compress/gzip"
	"encoding/hex"
	"errors"
	"fmt"
	"io"
	"strconv"
	"strings"
)

type Ent struct {
	ID, Off  uint64
	Len, Run uint32
}

func specPutUvarint(b []byte, v uint64) []byte {
	for v >= 0x80 {
		b = append(b, byte(v)|0x80)
		v >>= 7
	}
	return append(b, byte(v))
}

var errVarint = errors.New("bad varint")

func specReadUvarint(b []byte, pos *int) (uint64, error) {
	var x uint64
	var s uint
	for i := 0; ; i++ {
		if *pos >= len(b) {
			return 0, errVarint
		}
		c := b[*pos]
		*pos++
		if c < 0x80 {
			if i > 9 || i == 9 && c > 1 {
				return 0, errVarint
			}
			return x | uint64(c)<<s, nil
		}
		x |= uint64(c&0x7f) << s
		s += 7
	}
}

// specEncodeDir writes a directory; with shorthand the offset column uses 0 for
// "directly after the previous entry", without it always offset+1.
func specEncodeDir(es []Ent, shorthand bool) []byte {
	b := specPutUvarint(nil, uint64(len(es)))
	last := uint64(0)
	for _, e := range es {
		b = specPutUvarint(b, e.ID-last)
		last = e.ID
	}
	for _, e := range es {
		b = specPutUvarint(b, uint64(e.Run))
	}
	for _, e := range es {
		b = specPutUvarint(b, uint64(e.Len))
	}
	for i, e := range es {
		if shorthand && i > 0 && e.Off == es[i-1].Off+uint64(es[i-1].Len) {
			b = specPutUvarint(b, 0)
		} else {
			b = specPutUvarint(b, e.Off+1)
		}
	}
	return b
}

func specDecodeDir(b []byte) ([]Ent, error) {
	pos := 0
	n, err := specReadUvarint(b, &pos)
	if err != nil {
		return nil, err
	}
	if n > uint64(len(b)) {
		return nil, fmt.Errorf("count %d exceeds input", n)
	}
	es := make([]Ent, n)
	last := uint64(0)
	for i := range es {
		d, err := specReadUvarint(b, &pos)
		if err != nil {
			return nil, err
		}
		last += d
		es[i].ID = last
	}
	for i := range es {
		v, err := specReadUvarint(b, &pos)
		if err != nil {
			return nil, err
		}
		es[i].Run = uint32(v)
	}
	for i := range es {
		v, err := specReadUvarint(b, &pos)
		if err != nil {
			return nil, err
		}
		es[i].Len = uint32(v)
	}
	for i := range es {
		v, err := specReadUvarint(b, &pos)
		if err != nil {
			return nil, err
		}
		if v == 0 && i > 0 {
			es[i].Off = es[i-1].Off + uint64(es[i-1].Len)
		} else {
			es[i].Off = v - 1
		}
	}
	if pos != len(b) {
		return es, fmt.Errorf("trailing bytes")
	}
	return es, nil
}

func gz(b []byte) []byte {
	var buf bytes.Buffer
	w, _ := gzip.NewWriterLevel(&buf, gzip.BestSpeed)
	w.Write(b)
	w.Close()
	return buf.Bytes()
}
func gunz(b []byte) ([]byte, error) {
	r, err := gzip.NewReader(bytes.NewReader(b))
	if err != nil {
		return nil, err
	}
	return io.ReadAll(r)
}

// Hdr is the v3 header as the specification lays it out.
type Hdr struct {
	Version                                                   uint8
	RootOff, RootLen, MetaOff, MetaLen, LeafOff, LeafLen      uint64
	DataOff, DataLen, Addressed, Entries, Contents            uint64
	Clustered                                                 uint8 // raw byte
	IntComp, TileComp, TileType, MinZoom, MaxZoom, CenterZoom uint8
	MinLon, MinLat, MaxLon, MaxLat, CenterLon, CenterLat      int32
}

func le(b []byte, v uint64, w int) []byte {
	for i := 0; i < w; i++ {
		b = append(b, byte(v>>(8*i)))
	}
	return b
}
func rdle(b []byte, off, w int) uint64 {
	var v uint64
	for i := 0; i < w; i++ {
		v |= uint64(b[off+i]) << (8 * i)
	}
	return v
}

func specEncodeHeader(h Hdr) []byte {
	b := []byte("PMTiles")
	b = append(b, h.Version)
	for _, v := range []uint64{h.RootOff, h.RootLen, h.MetaOff, h.MetaLen, h.LeafOff, h.LeafLen, h.DataOff, h.DataLen, h.Addressed, h.Entries, h.Contents} {
		b = le(b, v, 8)
	}
	b = append(b, h.Clustered, h.IntComp, h.TileComp, h.TileType, h.MinZoom, h.MaxZoom)
	for _, v := range []int32{h.MinLon, h.MinLat, h.MaxLon, h.MaxLat} {
		b = le(b, uint64(uint32(v)), 4)
	}
	b = append(b, h.CenterZoom)
	b = le(b, uint64(uint32(h.CenterLon)), 4)
	b = le(b, uint64(uint32(h.CenterLat)), 4)
	return b
}

func specDecodeHeader(b []byte) (Hdr, error) {
	var h Hdr
	if len(b) < 127 {
		return h, errors.New("short")
	}
	if string(b[0:7]) != "PMTiles" {
		return h, errors.New("magic")
	}
	h.Version = b[7]
	if h.Version > 3 {
		return h, errors.New("version")
	}
	p := []*uint64{&h.RootOff, &h.RootLen, &h.MetaOff, &h.MetaLen, &h.LeafOff, &h.LeafLen, &h.DataOff, &h.DataLen, &h.Addressed, &h.Entries, &h.Contents}
	for i, q := range p {
		*q = rdle(b, 8+8*i, 8)
	}
	h.Clustered, h.IntComp, h.TileComp, h.TileType, h.MinZoom, h.MaxZoom = b[96], b[97], b[98], b[99], b[100], b[101]
	h.MinLon, h.MinLat, h.MaxLon, h.MaxLat = int32(rdle(b, 102, 4)), int32(rdle(b, 106, 4)), int32(rdle(b, 110, 4)), int32(rdle(b, 114, 4))
	h.CenterZoom = b[118]
	h.CenterLon, h.CenterLat = int32(rdle(b, 119, 4)), int32(rdle(b, 123, 4))
	return h, nil
}

// ---- directory trees

// dirRec describes one directory of a built archive: where it lives and what it holds.
type dirRec struct {
	AbsOff, Len uint64
	Raw         []byte // uncompressed wire form
	Ents        []Ent
	Depth       int
}

type treeOpts struct {
	depth     int  // leaf levels below the root: 0..3
	fan       int  // max chunk size per directory (>= 1)
	gzip      bool // internal compression
	shorthand bool
	chunk     int  // when > 0: exactly this many entries per directory instead of a random 1..fan
	mixed     bool // directories may mix tile entries and leaf pointers; sub-trees of uneven depth
}

// buildTree lays the tile entries out as a directory tree. It returns the root directory's wire
// bytes (compressed as requested), the leaf section, and a record of every directory with offsets
// relative to the leaf section (AbsOff is filled in by the caller for leaves; root has Depth 0).
func buildTree(r *rng, es []Ent, o treeOpts) (root []byte, leaves []byte, dirs []dirRec) {
	enc := func(d []Ent) (raw, wire []byte) {
		raw = specEncodeDir(d, o.shorthand)
		wire = raw
		if o.gzip {
			wire = gz(raw)
		}
		return
	}
	var build func(es []Ent, depth int, level int) []Ent // returns the entries of the directory at this level
	build = func(es []Ent, depth int, level int) []Ent {
		if depth == 0 || len(es) == 0 {
			return es
		}
		var ptrs []Ent
		for i := 0; i < len(es); {
			n := o.chunk
			if n <= 0 {
				n = 1 + r.intn(o.fan)
			}
			if i+n > len(es) {
				n = len(es) - i
			}
			if o.mixed && r.chance(30) { // keep these tile entries in this directory, between pointers
				ptrs = append(ptrs, es[i:i+n]...)
				i += n
				continue
			}
			subDepth := depth - 1
			if o.mixed && subDepth > 0 && r.chance(40) {
				subDepth = r.intn(subDepth)
			}
			sub := build(es[i:i+n], subDepth, level+1)
			raw, wire := enc(sub)
			ptrs = append(ptrs, Ent{ID: es[i].ID, Off: uint64(len(leaves)), Len: uint32(len(wire)), Run: 0})
			dirs = append(dirs, dirRec{AbsOff: uint64(len(leaves)), Len: uint64(len(wire)), Raw: raw, Ents: sub, Depth: level + 1})
			leaves = append(leaves, wire...)
			i += n
		}
		return ptrs
	}
	rootEnts := build(es, o.depth, 0)
	raw, wire := enc(rootEnts)
	dirs = append(dirs, dirRec{Raw: raw, Ents: rootEnts, Depth: 0, Len: uint64(len(wire))})
	return wire, leaves, dirs
}

// ---- small helpers for case lines

func hx(b []byte) string {
	if len(b) == 0 {
		return "-"
	}
	return hex.EncodeToString(b)
}
func unhx(s string) []byte {
	if s == "-" {
		return nil
	}
	b, err := hex.DecodeString(s)
	if err != nil {
		panic(err)
	}
	return b
}
func entsStr(es []Ent) string {
	var sb strings.Builder
	sb.WriteString(strconv.Itoa(len(es)))
	for _, e := range es {
		fmt.Fprintf(&sb, " %d %d %d %d", e.ID, e.Off, e.Len, e.Run)
	}
	return sb.String()
}

type toks struct {
	t []string
	i int
}

func newToks(line string) *toks { return &toks{t: strings.Fields(line)} }
func (t *toks) s() string       { v := t.t[t.i]; t.i++; return v }
func (t *toks) u() uint64 {
	v, err := strconv.ParseUint(t.s(), 10, 64)
	if err != nil {
		panic(err)
	}
	return v
}
func (t *toks) n() int { return int(t.u()) }
func (t *toks) z() int {
	v, err := strconv.Atoi(t.s())
	if err != nil {
		panic(err)
	}
	return v
}
func (t *toks) ents() []Ent {
	n := t.n()
	es := make([]Ent, n)
	for i := range es {
		es[i] = Ent{t.u(), t.u(), uint32(t.u()), uint32(t.u())}
	}
	return es
}

// specReadArchive reads a whole archive with the independent decoders: header, then the directory tree
// from the root, returning the tile entries in tree order.
func specReadArchive(b []byte) (Hdr, []Ent, error) {
	h, err := specDecodeHeader(b)
	if err != nil {
		return h, nil, err
	}
	dec := func(off, l uint64) ([]Ent, error) {
		if off+l > uint64(len(b)) || off+l < off {
			return nil, fmt.Errorf("directory [%d,+%d) outside the file", off, l)
		}
		raw := b[off : off+l]
		if h.IntComp == 2 {
			if raw, err = gunz(raw); err != nil {
				return nil, err
			}
		}
		return specDecodeDir(raw)
	}
	var out []Ent
	var walk func(off, l uint64, depth int) error
	walk = func(off, l uint64, depth int) error {
		if depth > 4 {
			return errors.New("too deep")
		}
		es, err := dec(off, l)
		if err != nil {
			return err
		}
		for _, e := range es {
			if e.Run > 0 {
				out = append(out, e)
			} else if err := walk(h.LeafOff+e.Off, uint64(e.Len), depth+1); err != nil {
				return err
			}
		}
		return nil
	}
	err = walk(h.RootOff, h.RootLen, 0)
	return h, out, err
}
