package main

// C14: Edit. Cases
//   edit <depth> <fan> <gzip> <hj> [<tcomphex> <ttypehex> <minz> <maxz> <nb> (<m> <k>)* <nc> (<m> <k>)*] <newmetahex|-> <metalen> <arch>
//        -> ok <25 header fields> <ents> <datahex> <metahex> | err
//   showedit <depth> <fan> <gzip> <arch>        -> same | differs | err     (show --header-json fed back to edit)
//   limit <L> <archive> <tmp> <oldhex> <hdrhex> <roothex> <metahex> <leaveshex> <tileshex>
//        -> <len md5 of the archive path> <len md5 of the .tmp path | none>   (metadata edit under an output-size limit L)
//   kill <path: header|metadata> <usec>         -> safe | damaged            (SIGKILL at a sampled instant)
// The real Edit runs on files in a scratch directory; results are read back with the harness's own reader.

import (
	"bytes"
	"compress/gzip"
	"crypto/md5"
	"encoding/json"
	"fmt"
	"math/big"
	"os"
	"os/exec"
	"os/signal"
	"path/filepath"
	"strings"
	"syscall"
	"time"

	"github.com/protomaps/go-pmtiles/pmtiles"
)

func init() {
	props["C14"] = c14
	replays["C14"] = c14run
}

type jnum struct {
	m int64
	k int
}

// decimal literal m / 10^k as a user would type it
func (j jnum) text() string {
	neg := j.m < 0
	a := j.m
	if neg {
		a = -a
	}
	s := fmt.Sprint(a)
	if j.k > 0 {
		for len(s) <= j.k {
			s = "0" + s
		}
		s = s[:len(s)-j.k] + "." + s[len(s)-j.k:]
	}
	if neg {
		s = "-" + s
	}
	return s
}

type hjson struct {
	tcomp, ttype string
	minz, maxz   int
	bounds       []jnum
	center       []jnum
}

func (h hjson) text() string {
	nums := func(v []jnum) string {
		p := make([]string, len(v))
		for i, x := range v {
			p[i] = x.text()
		}
		return "[" + strings.Join(p, ",") + "]"
	}
	tc, _ := json.Marshal(h.tcomp)
	tt, _ := json.Marshal(h.ttype)
	return fmt.Sprintf(`{"tile_compression":%s,"tile_type":%s,"minzoom":%d,"maxzoom":%d,"bounds":%s,"center":%s}`, tc, tt, h.minz, h.maxz, nums(h.bounds), nums(h.center))
}
func (h hjson) tokens() string {
	nums := func(v []jnum) string {
		s := fmt.Sprint(len(v))
		for _, x := range v {
			s += fmt.Sprintf(" %d %d", x.m, x.k)
		}
		return s
	}
	return fmt.Sprintf("%s %s %d %d %s %s", hx([]byte(h.tcomp)), hx([]byte(h.ttype)), h.minz, h.maxz, nums(h.bounds), nums(h.center))
}
func parseHJ(t *toks) hjson {
	var h hjson
	h.tcomp, h.ttype = string(unhx(t.s())), string(unhx(t.s()))
	h.minz, h.maxz = t.z(), t.z()
	nums := func() []jnum {
		n := t.n()
		v := make([]jnum, n)
		for i := range v {
			v[i] = jnum{int64(t.z()), 0}
			v[i].k = t.n()
		}
		return v
	}
	h.bounds, h.center = nums(), nums()
	return h
}

// the archive of a case: built by the harness's writer from the abstract tokens
// gaps between the sections (the spec allows them; go-pmtiles never writes them): taken from a case line's header
func c14gaps(h Hdr) (int, int) {
	pl, pd := h.LeafOff-h.MetaOff-h.MetaLen, h.DataOff-h.LeafOff-h.LeafLen
	if h.LeafOff == 0 || pl > 1<<12 || pd > 1<<12 {
		return 0, 0
	}
	return int(pl), int(pd)
}

func c14build(depth, fan int, gzipped bool, h Hdr, es []Ent, data, meta []byte, padLeaf, padData int) *Archive {
	rr := &rng{s: uint64(len(es))*977 + uint64(depth)}
	a := buildArchive(rr, es, data, archOpts{tree: treeOpts{depth: depth, fan: fan, gzip: gzipped, shorthand: true}, tileType: h.TileType, tileComp: h.TileComp,
		meta: string(meta), minZoom: h.MinZoom, maxZoom: h.MaxZoom, clustered: h.Clustered == 1, padLeaf: padLeaf, padData: padData})
	a.H.MinLon, a.H.MinLat, a.H.MaxLon, a.H.MaxLat = h.MinLon, h.MinLat, h.MaxLon, h.MaxLat
	a.H.CenterZoom, a.H.CenterLon, a.H.CenterLat = h.CenterZoom, h.CenterLon, h.CenterLat
	a.H.Addressed, a.H.Entries, a.H.Contents = h.Addressed, h.Entries, h.Contents
	copy(a.Bytes, specEncodeHeader(a.H))
	return a
}

// what Edit stores for new metadata: the JSON object re-marshalled by encoding/json, compressed as the archive's internal compression
func storedMeta(newMeta []byte, gzipped bool) []byte {
	var v map[string]interface{}
	json.Unmarshal(newMeta, &v)
	b, _ := json.Marshal(v)
	if gzipped {
		var buf bytes.Buffer
		w, _ := gzip.NewWriterLevel(&buf, gzip.BestCompression)
		w.Write(b)
		w.Close()
		return buf.Bytes()
	}
	return b
}

func runEdit(p, hjPath, metaPath string) error {
	restore := silence()
	defer restore()
	return pmtiles.Edit(quietLogger, p, hjPath, metaPath)
}

func c14run(line string) (string, []string) {
	t := newToks(line)
	switch t.s() {
	case "edit":
		return c14edit(t)
	case "showedit":
		return c14showedit(t)
	case "limit":
		return c14limitReplay(line)
	case "kill":
		return "safe", nil // kill instants are not reproducible; the run that found one reports the observed file
	case "note":
		return "-", nil
	}
	return "unknown", nil
}

func c14edit(t *toks) (string, []string) {
	depth, fan, gzipped := t.n(), t.n(), t.n() == 1
	var hj *hjson
	if t.n() == 1 {
		v := parseHJ(t)
		hj = &v
	}
	mt := t.s()
	t.u() // metalen: for the model
	h, es, data, meta := parseArch(t)
	gl, gd := c14gaps(h)
	a := c14build(depth, fan, gzipped, h, es, data, meta, gl, gd)
	if a.H != h {
		return "harness", []string{"harness: the case line's header is not the header of the rebuilt archive"}
	}
	dir, _ := os.MkdirTemp("", "vh-c14")
	defer os.RemoveAll(dir)
	p := filepath.Join(dir, "a.pmtiles")
	os.WriteFile(p, a.Bytes, 0o644)
	hjPath, metaPath := "", ""
	if hj != nil {
		hjPath = filepath.Join(dir, "h.json")
		os.WriteFile(hjPath, []byte(hj.text()), 0o644)
	}
	var newMeta []byte
	if strings.HasPrefix(mt, "bad:") {
		metaPath = filepath.Join(dir, "m.json")
		os.WriteFile(metaPath, unhx(mt[4:]), 0o644)
		if err := runEdit(p, hjPath, metaPath); err == nil {
			return "ok", []string{"edit accepted metadata that is not a JSON object"}
		}
		if out, _ := os.ReadFile(p); !bytes.Equal(out, a.Bytes) {
			return "err", []string{"edit refused the metadata and the archive path no longer holds the original"}
		}
		return "err", nil
	}
	if mt != "-" {
		newMeta = unhx(mt)
		metaPath = filepath.Join(dir, "m.json")
		os.WriteFile(metaPath, newMeta, 0o644)
	}
	if err := runEdit(p, hjPath, metaPath); err != nil {
		out, _ := os.ReadFile(p)
		if !bytes.Equal(out, a.Bytes) {
			return "err", []string{"edit returned an error (" + err.Error() + ") and the archive path no longer holds the original"}
		}
		return "err", nil
	}
	out, _ := os.ReadFile(p)
	h2, es2, data2, meta2, rerr := readArch(out)
	if rerr != nil {
		return "ok unreadable", []string{"the edited archive cannot be read back: " + rerr.Error()}
	}
	var viol []string
	for _, v := range structureViolations(out, h2, es2) {
		// a header-only edit is an in-place header write: an archive that came with gaps between its sections keeps them
		// (every byte after the header is compared below); only a rewritten file must be chained
		if mt == "-" && (gl != 0 || gd != 0) && strings.HasPrefix(v, "sections are not chained") {
			continue
		}
		viol = append(viol, v)
	}
	viol = append(viol, contentMapViolations(es, data, es2, data2, "edit")...)
	sec := func(f []byte, off, n uint64) []byte {
		if off+n > uint64(len(f)) {
			return nil
		}
		return f[off : off+n]
	}
	if !bytes.Equal(sec(out, h2.RootOff, h2.RootLen), sec(a.Bytes, h.RootOff, h.RootLen)) {
		viol = append(viol, "the root directory bytes changed")
	}
	if !bytes.Equal(sec(out, h2.LeafOff, h2.LeafLen), sec(a.Bytes, h.LeafOff, h.LeafLen)) {
		viol = append(viol, "the leaf directory bytes changed")
	}
	if !bytes.Equal(sec(out, h2.DataOff, h2.DataLen), sec(a.Bytes, h.DataOff, h.DataLen)) {
		viol = append(viol, "the tile data bytes changed")
	}
	// non-editable header fields
	k1, k2 := h, h2
	for _, x := range []*Hdr{&k1, &k2} {
		x.TileType, x.TileComp, x.MinZoom, x.MaxZoom, x.CenterZoom = 0, 0, 0, 0, 0
		x.MinLon, x.MinLat, x.MaxLon, x.MaxLat, x.CenterLon, x.CenterLat = 0, 0, 0, 0, 0, 0
		if mt != "-" {
			x.MetaOff, x.MetaLen, x.LeafOff, x.DataOff = 0, 0, 0, 0
		}
	}
	if k1 != k2 {
		viol = append(viol, fmt.Sprintf("a non-editable header field changed: %+v -> %+v", h, h2))
	}
	if hj == nil {
		e1, e2 := h, h2
		e1.MetaOff, e1.MetaLen, e1.LeafOff, e1.DataOff, e2.MetaOff, e2.MetaLen, e2.LeafOff, e2.DataOff = 0, 0, 0, 0, 0, 0, 0, 0
		if e1 != e2 {
			viol = append(viol, "a metadata-only edit changed an editable header field")
		}
	} else if len(hj.bounds) == 4 && len(hj.center) == 3 {
		got := []int32{h2.MinLon, h2.MinLat, h2.MaxLon, h2.MaxLat, h2.CenterLon, h2.CenterLat}
		for i, c := range append(append([]jnum{}, hj.bounds...), hj.center[:2]...) {
			if c.k <= 7 {
				want := new(big.Int).Mul(big.NewInt(c.m), new(big.Int).Exp(big.NewInt(10), big.NewInt(int64(7-c.k)), nil))
				if want.IsInt64() && want.Int64() >= -1<<31 && want.Int64() < 1<<31 && int64(got[i]) != want.Int64() {
					viol = append(viol, fmt.Sprintf("coordinate %s (%d decimals) stored as %d, not exactly %d", c.text(), c.k, got[i], want.Int64()))
				}
			}
		}
		if int(h2.MinZoom) != hj.minz&255 || int(h2.MaxZoom) != hj.maxz&255 {
			viol = append(viol, "zooms not set to the supplied values")
		}
	}
	if mt != "-" {
		if !bytes.Equal(canonJSON(meta2), canonJSON(newMeta)) {
			viol = append(viol, fmt.Sprintf("the new metadata does not read back JSON-equal: %q", trunc(string(meta2))))
		}
	} else {
		if !bytes.Equal(out[127:], a.Bytes[127:]) {
			viol = append(viol, "a header-only edit changed bytes after the header")
		}
	}
	if _, err := os.Stat(p + ".tmp"); err == nil {
		viol = append(viol, "a successful edit left FILE.tmp behind")
	}
	return "ok " + hdrStr(h2) + " " + entsStr(es2) + " " + hx(data2) + " " + hx(canonJSON(meta2)), viol
}

func c14showedit(t *toks) (string, []string) {
	depth, fan, gzipped := t.n(), t.n(), t.n() == 1
	h, es, data, meta := parseArch(t)
	gl, gd := c14gaps(h)
	a := c14build(depth, fan, gzipped, h, es, data, meta, gl, gd)
	if a.H != h {
		return "harness", []string{"harness: the case line's header is not the header of the rebuilt archive"}
	}
	dir, _ := os.MkdirTemp("", "vh-c14")
	defer os.RemoveAll(dir)
	p := filepath.Join(dir, "a.pmtiles")
	os.WriteFile(p, a.Bytes, 0o644)
	var buf bytes.Buffer
	restore := silence()
	err := pmtiles.Show(quietLogger, &buf, "", p, true, false, false, "", false, 0, 0, 0)
	restore()
	if err != nil {
		return "err", []string{"show --header-json failed: " + err.Error()}
	}
	hjPath := filepath.Join(dir, "h.json")
	os.WriteFile(hjPath, buf.Bytes(), 0o644)
	if err := runEdit(p, hjPath, ""); err != nil {
		return "err", []string{"edit rejected the header JSON printed by show: " + err.Error() + " " + trunc(buf.String())}
	}
	out, _ := os.ReadFile(p)
	if !bytes.Equal(out, a.Bytes) {
		h2, _ := specDecodeHeader(out)
		return "differs", []string{fmt.Sprintf("show --header-json fed back to edit changed the archive: header %s -> %s (JSON %s)", hdrStr(h), hdrStr(h2), strings.Join(strings.Fields(buf.String()), ""))}
	}
	return "same", nil
}

func dg(b []byte, present bool) string {
	if !present {
		return "none"
	}
	return fmt.Sprintf("%d:%x", len(b), md5.Sum(b))
}

// ---- child process: output-size limits and kills
//
//	vh C14child sweep <dir> <from> <to>   for every limit L in [from,to): restore a.pmtiles, RLIMIT_FSIZE=L, Edit, record the two files
//	vh C14child once <dir>                print "ready", run Edit once
func c14child() {
	mode, dir := os.Args[2], os.Args[3]
	p := filepath.Join(dir, "a.pmtiles")
	hjPath, metaPath := filepath.Join(dir, "h.json"), filepath.Join(dir, "m.json")
	if _, err := os.Stat(hjPath); err != nil {
		hjPath = ""
	}
	if _, err := os.Stat(metaPath); err != nil {
		metaPath = ""
	}
	if mode == "once" {
		fmt.Println("ready")
		os.Stdout.Sync()
		if err := runEdit(p, hjPath, metaPath); err != nil {
			os.Exit(3)
		}
		return
	}
	var from, to int
	fmt.Sscan(os.Args[4], &from)
	fmt.Sscan(os.Args[5], &to)
	orig, _ := os.ReadFile(filepath.Join(dir, "orig.pmtiles"))
	var lim syscall.Rlimit
	syscall.Getrlimit(syscall.RLIMIT_FSIZE, &lim)
	full := lim
	// SIGXFSZ would kill the process; ignored, the write fails with EFBIG instead
	signal.Ignore(syscall.SIGXFSZ)
	res, _ := os.Create(filepath.Join(dir, fmt.Sprintf("results-%d.txt", from)))
	for L := from; L < to; L++ {
		os.Remove(p + ".tmp")
		os.WriteFile(p, orig, 0o644)
		lim.Cur = uint64(L)
		syscall.Setrlimit(syscall.RLIMIT_FSIZE, &lim)
		err := runEdit(p, hjPath, metaPath)
		syscall.Setrlimit(syscall.RLIMIT_FSIZE, &full)
		ab, aerr := os.ReadFile(p)
		tb, terr := os.ReadFile(p + ".tmp")
		fmt.Fprintf(res, "%d\t%s\t%s\t%v\n", L, dg(ab, aerr == nil), dg(tb, terr == nil), err != nil)
	}
	res.Close()
}

// sections of an edited file, by its own header
func splitSections(f []byte) (hdr, root, meta, leaves, tiles []byte, ok bool) {
	h, err := specDecodeHeader(f)
	if err != nil || h.DataOff+h.DataLen > uint64(len(f)) || h.RootOff != 127 || h.MetaOff != 127+h.RootLen || h.LeafOff != h.MetaOff+h.MetaLen || h.DataOff != h.LeafOff+h.LeafLen {
		return nil, nil, nil, nil, nil, false
	}
	return f[:127], f[127:h.MetaOff], f[h.MetaOff:h.LeafOff], f[h.LeafOff:h.DataOff], f[h.DataOff : h.DataOff+h.DataLen], true
}

func c14limitReplay(line string) (string, []string) {
	f := strings.Fields(line)
	var L int
	fmt.Sscan(f[1], &L)
	old := unhx(f[4])
	// the edited file's metadata section as stored: recover the JSON (possibly gzipped) for the metadata file
	meta := unhx(f[7])
	if len(meta) > 2 && meta[0] == 0x1f && meta[1] == 0x8b {
		meta, _ = gunz(meta)
	}
	dir, _ := os.MkdirTemp("", "vh-c14l")
	defer os.RemoveAll(dir)
	os.WriteFile(filepath.Join(dir, "orig.pmtiles"), old, 0o644)
	os.WriteFile(filepath.Join(dir, "m.json"), meta, 0o644)
	edited := append(append(append(append(append([]byte{}, unhx(f[5])...), unhx(f[6])...), unhx(f[7])...), unhx(f[8])...), unhx(f[9])...)
	rs := c14sweep(dir, L, L+1)
	if len(rs) != 1 {
		return "crash", []string{"the edit process crashed under the output-size limit"}
	}
	return rs[0].impl, c14limitViol(rs[0], old, edited)
}

type limitRes struct {
	L      int
	impl   string
	a, t   string
	failed bool
}

func c14limitViol(r limitRes, old, edited []byte) []string {
	if r.a != dg(old, true) && r.a != dg(edited, true) {
		return []string{fmt.Sprintf("with the output limited to %d bytes (edit returned error=%v) the archive path holds neither the original nor the fully edited archive: %s (original %s, edited %s)", r.L, r.failed, r.a, dg(old, true), dg(edited, true))}
	}
	if r.failed && r.a != dg(old, true) {
		return []string{fmt.Sprintf("with the output limited to %d bytes edit reported failure but replaced the archive", r.L)}
	}
	return nil
}

// run the sweep over [from,to) in child processes (16 at a time); dir holds orig.pmtiles and h.json / m.json
func c14sweep(dir string, from, to int) []limitRes {
	self, _ := os.Executable()
	n := to - from
	workers := 16
	if n < workers {
		workers = n
	}
	type job struct{ a, b int }
	var jobs []job
	per := (n + workers - 1) / workers
	for a := from; a < to; a += per {
		b := a + per
		if b > to {
			b = to
		}
		jobs = append(jobs, job{a, b})
	}
	done := make(chan []limitRes, len(jobs))
	for _, j := range jobs {
		go func(j job) {
			// every worker needs its own archive path
			wd, _ := os.MkdirTemp("", "vh-c14w")
			defer os.RemoveAll(wd)
			for _, f := range []string{"orig.pmtiles", "h.json", "m.json"} {
				if b, err := os.ReadFile(filepath.Join(dir, f)); err == nil {
					os.WriteFile(filepath.Join(wd, f), b, 0o644)
				}
			}
			cmd := exec.Command(self, "C14child", "sweep", wd, fmt.Sprint(j.a), fmt.Sprint(j.b))
			cmd.Run()
			var out []limitRes
			b, _ := os.ReadFile(filepath.Join(wd, fmt.Sprintf("results-%d.txt", j.a)))
			for _, l := range strings.Split(strings.TrimSpace(string(b)), "\n") {
				p := strings.Split(l, "\t")
				if len(p) == 4 {
					var r limitRes
					fmt.Sscan(p[0], &r.L)
					r.a, r.t, r.failed = p[1], p[2], p[3] == "true"
					r.impl = r.a // the state of the archive path; what is left of FILE.tmp is not part of the property
					out = append(out, r)
				}
			}
			done <- out
		}(j)
	}
	var all []limitRes
	for range jobs {
		all = append(all, <-done...)
	}
	return all
}

func c14(r *rng, tier string, o *out) {
	nEdit, nShow, nSweep, nKill := 220, 150, 2, 12
	if tier == "thorough" {
		nEdit, nShow, nSweep, nKill = 6000, 4000, 12, 200
	}
	ttypes := []string{"mvt", "png", "jpg", "webp", "avif", "", "pbf", "MVT"}
	tcomps := []string{"none", "gzip", "br", "zstd", "unknown", "", "deflate"}
	coord := func(maxAbsE7 int64) jnum {
		k := r.intn(8)
		if r.chance(12) {
			k = 8 + r.intn(5) // more than seven decimals: not exact, still compared with the model
		}
		p := int64(1)
		for i := 0; i < 7-k; i++ {
			p *= 10
		}
		var m int64
		if k <= 7 {
			m = int64(r.u64n(uint64(maxAbsE7/p) + 1))
		} else {
			q := int64(1)
			for i := 0; i < k-7; i++ {
				q *= 10
			}
			m = int64(r.u64n(uint64(maxAbsE7)))*q + int64(r.u64n(uint64(q)))
		}
		if r.chance(50) {
			m = -m
		}
		return jnum{m, k}
	}
	gapsOn := false // edit and showedit cases: sections separated by padding in a share of the archives
	genArch := func(c int, withLeaves bool) (int, int, bool, *Archive, []byte) {
		ne := 1 + r.intn(12)
		es, dl := genEntries(r, entOpts{n: ne, maxGapLog: 8, runs: true, shared: r.chance(50)})
		data := r.bytes(int(dl))
		h := Hdr{Version: 3, TileType: uint8(r.intn(6)), TileComp: uint8(1 + r.intn(4)), MinZoom: uint8(r.intn(5)), MaxZoom: uint8(5 + r.intn(20)),
			Clustered: uint8(r.intn(2))}
		e7 := func() int32 {
			switch r.intn(6) {
			case 0:
				return []int32{-1 << 31, 1<<31 - 1, 0, -1, 1, -1799809944, 1799809944, -1800000000, 1800000000, 850511287, -850511287}[r.intn(11)]
			case 1:
				return int32(r.next()) // any int32
			default:
				return int32(int64(r.u64n(3600000001)) - 1800000000)
			}
		}
		h.MinLon, h.MinLat, h.MaxLon, h.MaxLat, h.CenterLon, h.CenterLat = e7(), e7(), e7(), e7(), e7(), e7()
		h.CenterZoom = uint8(r.intn(256))
		seen := map[uint64]bool{}
		for _, e := range es {
			h.Addressed += uint64(e.Run)
			seen[e.Off] = true
		}
		h.Entries, h.Contents = uint64(len(es)), uint64(len(seen))
		meta := canonJSON([]byte(fmt.Sprintf(`{"name":"t%d","vector_layers":[{"id":"a<b"}],"n":%d.5}`, c, r.intn(100))))
		depth, fan, gzipped := r.intn(3), 1+r.intn(5), r.chance(50)
		if withLeaves && depth == 0 {
			depth = 1
		}
		gl, gd := 0, 0
		if gapsOn && r.chance(35) {
			gl, gd = r.intn(3)*r.intn(20), 1+r.intn(40)
			o.count("archive_with_gaps_between_sections")
		}
		a := c14build(depth, fan, gzipped, h, es, data, meta, gl, gd)
		return depth, fan, gzipped, a, meta
	}
	archTokens := func(a *Archive, meta []byte) string { return archStr(a.H, a.Ents, a.Data, meta) }
	b2i := func(b bool) int {
		if b {
			return 1
		}
		return 0
	}
	newMetaFor := func(c int) []byte {
		// different lengths so that every later section moves; keys out of order, HTML characters, nested values
		pad := strings.Repeat("x", r.intn(300))
		return []byte(fmt.Sprintf(`{ "zz": [1, 2.50, {"k": null}], "name": "edited %d <&>", "pad": "%s", "attribution": "é", "n": %d }`, c, pad, r.intn(1000)))
	}
	gapsOn = true
	for c := 0; c < nEdit; c++ {
		depth, fan, gzipped, a, meta := genArch(c, r.chance(70))
		var hjTok = "0"
		mode := r.intn(3) // 0 header only, 1 metadata only, 2 both
		if mode != 1 {
			hj := hjson{tcomp: tcomps[r.intn(len(tcomps))], ttype: ttypes[r.intn(len(ttypes))], minz: r.intn(30), maxz: r.intn(30)}
			if r.chance(10) {
				hj.minz, hj.maxz = 250+r.intn(300), -r.intn(5)
			}
			hj.bounds = []jnum{coord(1800000000), coord(900000000), coord(1800000000), coord(900000000)}
			hj.center = []jnum{coord(1800000000), coord(900000000), {int64(r.intn(2560)), 1}}
			if r.chance(20) {
				hj.bounds[r.intn(4)] = coord(2147483647)
			}
			if r.chance(4) {
				hj.bounds = hj.bounds[:3]
			}
			if r.chance(4) {
				hj.center = hj.center[:2]
			}
			hjTok = "1 " + hj.tokens()
		}
		mt, ml := "-", 0
		if mode != 0 {
			nm := newMetaFor(c)
			mt, ml = hx(canonJSON(nm)), len(storedMeta(nm, gzipped))
			if r.chance(5) {
				mt = "bad:" + hx([]byte([]string{`[1,2]`, `"s"`, `{"a":`, `7`}[r.intn(4)])) // not a JSON object: Edit must refuse and leave the archive alone
				o.count("edit_non_object_metadata")
			}
		}
		line := fmt.Sprintf("edit %d %d %d %s %s %d %s", depth, fan, b2i(gzipped), hjTok, mt, ml, archTokens(a, meta))
		impl, viol := runCase("C14", line)
		idx := o.emit(line, impl, true)
		o.count([]string{"edit_header", "edit_metadata", "edit_both"}[mode])
		if len(a.Dirs) > 1 {
			o.count("edit_archive_with_leaves")
		}
		for _, v := range viol {
			o.violation(idx, v)
		}
	}
	for c := 0; c < nShow; c++ {
		depth, fan, gzipped, a, meta := genArch(c, false)
		line := fmt.Sprintf("showedit %d %d %d %s", depth, fan, b2i(gzipped), archTokens(a, meta))
		impl, viol := runCase("C14", line)
		idx := o.emit(line, impl, true)
		o.count("showedit")
		for _, v := range viol {
			o.violation(idx, v)
		}
	}
	gapsOn = false
	// metadata edit under every output-size limit
	for c := 0; c < nSweep; c++ {
		_, _, gzipped, a, _ := genArch(c, true)
		_ = gzipped
		dir, _ := os.MkdirTemp("", "vh-c14s")
		nm := newMetaFor(c)
		if c%2 == 1 { // a metadata edit that SHRINKS the section (most real edits change a few bytes of JSON)
			nm = []byte(`{"n":1}`)
		}
		os.WriteFile(filepath.Join(dir, "orig.pmtiles"), a.Bytes, 0o644)
		os.WriteFile(filepath.Join(dir, "m.json"), nm, 0o644)
		withHJ := r.chance(50)
		if withHJ {
			hj := hjson{tcomp: "gzip", ttype: "png", minz: 1, maxz: 9, bounds: []jnum{{-1, 0}, {-2, 0}, {3, 0}, {4, 0}}, center: []jnum{{15, 1}, {25, 1}, {3, 0}}}
			os.WriteFile(filepath.Join(dir, "h.json"), []byte(hj.text()), 0o644)
		}
		// reference: the unrestricted edit
		ref := filepath.Join(dir, "ref.pmtiles")
		os.WriteFile(ref, a.Bytes, 0o644)
		hjp := ""
		if withHJ {
			hjp = filepath.Join(dir, "h.json")
		}
		if err := runEdit(ref, hjp, filepath.Join(dir, "m.json")); err != nil {
			os.RemoveAll(dir)
			continue
		}
		edited, _ := os.ReadFile(ref)
		hdr, root, meta, leaves, tiles, ok := splitSections(edited)
		if !ok {
			idx := o.emit("note sweep", "-", false)
			o.violation(idx, "the edited archive's sections are not chained")
			os.RemoveAll(dir)
			continue
		}
		rs := c14sweep(dir, 0, len(edited)+3)
		if len(rs) != len(edited)+3 {
			idx := o.emit("note sweep", "-", false)
			o.violation(idx, fmt.Sprintf("the edit process crashed under an output-size limit (%d of %d limits completed)", len(rs), len(edited)+3))
		}
		for _, x := range rs {
			line := fmt.Sprintf("limit %d 1 2 %s %s %s %s %s %s", x.L, hx(a.Bytes), hx(hdr), hx(root), hx(meta), hx(leaves), hx(tiles))
			idx := o.emit(line, x.impl, true)
			o.count("limit")
			for _, v := range c14limitViol(x, a.Bytes, edited) {
				o.violation(idx, v)
			}
		}
		os.RemoveAll(dir)
	}
	// SIGKILL at sampled instants, both paths; a larger tile section so that the copy takes measurable time
	self, _ := os.Executable()
	for c := 0; c < nKill; c++ {
		_, _, _, a, _ := genArch(c, true)
		big := append([]byte{}, a.Bytes...)
		extra := r.bytes(1 << 16)
		for i := 0; i < 64; i++ {
			big = append(big, extra...)
		}
		h := a.H
		h.DataLen += 64 << 16
		copy(big, specEncodeHeader(h))
		metaPath := c%2 == 0
		dir, _ := os.MkdirTemp("", "vh-c14k")
		p := filepath.Join(dir, "a.pmtiles")
		hj := hjson{tcomp: "zstd", ttype: "webp", minz: 2, maxz: 7, bounds: []jnum{{-10, 0}, {-20, 0}, {30, 0}, {40, 0}}, center: []jnum{{15, 1}, {25, 1}, {3, 0}}}
		os.WriteFile(filepath.Join(dir, "h.json"), []byte(hj.text()), 0o644)
		if metaPath {
			os.WriteFile(filepath.Join(dir, "m.json"), newMetaFor(c), 0o644)
		}
		// reference and duration
		os.WriteFile(p, big, 0o644)
		mp := ""
		if metaPath {
			mp = filepath.Join(dir, "m.json")
		}
		t0 := time.Now()
		runEdit(p, filepath.Join(dir, "h.json"), mp)
		dur := time.Since(t0)
		edited, _ := os.ReadFile(p)
		os.WriteFile(p, big, 0o644)
		os.Remove(p + ".tmp")
		cmd := exec.Command(self, "C14child", "once", dir)
		so, _ := cmd.StdoutPipe()
		cmd.Start()
		buf := make([]byte, 6)
		so.Read(buf)
		delay := time.Duration(r.u64n(uint64(dur)*3/2 + 1))
		time.Sleep(delay)
		cmd.Process.Kill()
		cmd.Wait()
		got, _ := os.ReadFile(p)
		state := "damaged"
		switch {
		case bytes.Equal(got, big):
			state = "original"
		case bytes.Equal(got, edited):
			state = "edited"
		}
		kind := "header"
		if metaPath {
			kind = "metadata"
		}
		impl := "safe"
		if state == "damaged" {
			impl = "damaged"
		}
		idx := o.emit(fmt.Sprintf("kill %s %d", kind, delay.Microseconds()), impl, true)
		o.count("kill_" + kind + "_" + state)
		if state == "damaged" {
			o.violation(idx, fmt.Sprintf("killed %v into a %s edit, the archive path holds neither the original nor the edited archive (%d bytes; original %d, edited %d)", delay, kind, len(got), len(big), len(edited)))
		}
		os.RemoveAll(dir)
	}
}
