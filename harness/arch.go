package main

// Abstract-archive case tokens shared by C13/C15/C06/C07/C14:  <25 header fields> <ents> <datahex> <metahex>

import (
	"bytes"
	"encoding/json"
	"fmt"
	"os"
	"sort"
	"strings"
)

func canonJSON(b []byte) []byte {
	var v interface{}
	if err := json.Unmarshal(b, &v); err != nil {
		return []byte("!invalid")
	}
	var buf bytes.Buffer
	enc := json.NewEncoder(&buf)
	enc.SetEscapeHTML(false)
	enc.Encode(v)
	return bytes.TrimSpace(buf.Bytes())
}

func archStr(h Hdr, es []Ent, data, meta []byte) string {
	return hdrStr(h) + " " + entsStr(es) + " " + hx(data) + " " + hx(meta)
}

// readArch reads a written archive with the independent reader into the abstract form.
func readArch(file []byte) (Hdr, []Ent, []byte, []byte, error) {
	h, es, err := specReadArchive(file)
	if err != nil {
		return h, nil, nil, nil, err
	}
	if h.DataOff+h.DataLen > uint64(len(file)) || h.MetaOff+h.MetaLen > uint64(len(file)) {
		return h, es, nil, nil, fmt.Errorf("sections outside the file")
	}
	meta := file[h.MetaOff : h.MetaOff+h.MetaLen]
	if h.IntComp == 2 {
		if meta, err = gunz(meta); err != nil {
			return h, es, nil, nil, err
		}
	}
	return h, es, file[h.DataOff : h.DataOff+h.DataLen], meta, nil
}

// projection of the header fields that do not depend on gzip output sizes
func projStr(h Hdr) string {
	return fmt.Sprintf("%d %d %d %d %d %d %d %d %d %d %d %d %d %d %d %d %d", h.Addressed, h.Entries, h.Contents, h.Clustered, h.IntComp, h.TileComp, h.TileType,
		h.MinZoom, h.MaxZoom, h.MinLon, h.MinLat, h.MaxLon, h.MaxLat, h.CenterZoom, h.CenterLon, h.CenterLat, h.DataLen)
}

// structural checks on a written archive (sections chained without gaps, inside the file, root within 16 KiB,
// counts equal to the directories actually written, clustered layout when so marked)
func structureViolations(file []byte, h Hdr, es []Ent) []string {
	var v []string
	if h.RootOff != 127 || h.MetaOff != h.RootOff+h.RootLen || h.LeafOff != h.MetaOff+h.MetaLen || h.DataOff != h.LeafOff+h.LeafLen || h.DataOff+h.DataLen != uint64(len(file)) {
		v = append(v, fmt.Sprintf("sections are not chained / do not end at the file end: %+v size %d", h, len(file)))
	}
	if h.RootOff+h.RootLen > 16384 {
		v = append(v, "header+root exceed the first 16384 bytes")
	}
	var addr uint64
	offs := map[uint64]bool{}
	for i, e := range es {
		addr += uint64(e.Run)
		offs[e.Off] = true
		if e.Off+uint64(e.Len) > h.DataLen {
			v = append(v, fmt.Sprintf("entry %d points outside the tile data", i))
		}
		if i > 0 && es[i-1].ID+uint64(es[i-1].Run) > e.ID {
			v = append(v, fmt.Sprintf("entries %d and %d not ascending / overlapping", i-1, i))
		}
	}
	if h.Addressed != addr || h.Entries != uint64(len(es)) || h.Contents != uint64(len(offs)) {
		v = append(v, fmt.Sprintf("header counts addressed=%d entries=%d contents=%d but the written directories have %d/%d/%d", h.Addressed, h.Entries, h.Contents, addr, len(es), len(offs)))
	}
	if h.Clustered == 1 {
		seen := map[uint64]bool{}
		var cur uint64
		for i, e := range es {
			if !seen[e.Off] {
				if e.Off != cur {
					v = append(v, fmt.Sprintf("marked clustered but entry %d starts at %d, expected %d (tile data not in tile-ID order)", i, e.Off, cur))
					break
				}
				cur += uint64(e.Len)
				seen[e.Off] = true
			}
		}
	}
	return v
}

// contentMapViolations compares the tile-to-content maps of two archives on every boundary id.
func contentMapViolations(esA []Ent, dataA []byte, esB []Ent, dataB []byte, what string) []string {
	look := func(es []Ent, data []byte, id uint64) ([]byte, bool) {
		for _, e := range es {
			if e.ID <= id && id-e.ID < uint64(e.Run) {
				if e.Off+uint64(e.Len) > uint64(len(data)) {
					return nil, true
				}
				return data[e.Off : e.Off+uint64(e.Len)], true
			}
		}
		return nil, false
	}
	ids := map[uint64]bool{}
	for _, es := range [][]Ent{esA, esB} {
		for _, e := range es {
			ids[e.ID], ids[e.ID+uint64(e.Run)-1], ids[e.ID+uint64(e.Run)] = true, true, true
			if e.ID > 0 {
				ids[e.ID-1] = true
			}
			if e.Run > 2 {
				ids[e.ID+uint64(e.Run)/2] = true
			}
		}
	}
	keys := make([]uint64, 0, len(ids))
	for k := range ids {
		keys = append(keys, k)
	}
	sort.Slice(keys, func(i, j int) bool { return keys[i] < keys[j] })
	for _, id := range keys {
		a, oka := look(esA, dataA, id)
		b, okb := look(esB, dataB, id)
		if oka != okb || !bytes.Equal(a, b) {
			return []string{fmt.Sprintf("%s: tile id %d has content %s in the input (present=%v) but %s in the output (present=%v)", what, id, trunc(hx(a)), oka, trunc(hx(b)), okb)}
		}
	}
	return nil
}

func silence() func() {
	so, se := os.Stdout, os.Stderr
	os.Stdout, os.Stderr = devNull, devNull
	return func() { os.Stdout, os.Stderr = so, se }
}

func parseArch(t *toks) (Hdr, []Ent, []byte, []byte) {
	f := make([]string, 25)
	for i := range f {
		f[i] = t.s()
	}
	h := hdrParse(f)
	es := t.ents()
	data := unhx(t.s())
	meta := unhx(t.s())
	return h, es, data, meta
}

var _ = strings.Join
