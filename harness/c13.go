package main

import (
	"bytes"
	"fmt"
	"os"
	"path/filepath"

	"github.com/protomaps/go-pmtiles/pmtiles"
)

func init() {
	props["C13"] = c13
	replays["C13"] = c13run
}

// case: cluster <dedup> <depth> <fan> <gzip> <arch>  ->  ok <projected header> <ents> <datahex> <metahex> | err
// The harness writes the abstract archive to disk with its own writer (tree shape from depth/fan/gzip), runs the
// real Cluster on it and reads the result back with its own reader.
func c13run(line string) (string, []string) {
	t := newToks(line)
	if t.s() == "cluster_root" { // shared with C05: a badly compressing list whose flat root is near the 16 KiB budget
		return c05cluster(t.u(), t.n(), t.n() == 1)
	}
	dedup := t.n() == 1
	depth, fan, gzipped := t.n(), t.n(), t.n() == 1
	h, es, data, meta := parseArch(t)
	rr := &rng{s: uint64(len(es))*977 + uint64(depth)}
	a := buildArchive(rr, es, data, archOpts{tree: treeOpts{depth: depth, fan: fan, gzip: gzipped, shorthand: true}, tileType: h.TileType, tileComp: h.TileComp,
		meta: string(meta), minZoom: h.MinZoom, maxZoom: h.MaxZoom, clustered: h.Clustered == 1})
	// header fields of the case line that buildArchive does not derive itself
	a.H.MinLon, a.H.MinLat, a.H.MaxLon, a.H.MaxLat = h.MinLon, h.MinLat, h.MaxLon, h.MaxLat
	a.H.CenterZoom, a.H.CenterLon, a.H.CenterLat = h.CenterZoom, h.CenterLon, h.CenterLat
	a.H.Addressed, a.H.Entries, a.H.Contents = h.Addressed, h.Entries, h.Contents
	copy(a.Bytes, specEncodeHeader(a.H))
	dir, _ := os.MkdirTemp("", "vh-c13")
	defer os.RemoveAll(dir)
	p := filepath.Join(dir, "a.pmtiles")
	os.WriteFile(p, a.Bytes, 0o644)
	restore := silence()
	err := pmtiles.Cluster(quietLogger, p, dedup)
	restore()
	if err != nil {
		return "err", nil
	}
	out, _ := os.ReadFile(p)
	h2, es2, data2, meta2, rerr := readArch(out)
	if rerr != nil {
		return "ok unreadable", []string{"the clustered archive cannot be read back: " + rerr.Error()}
	}
	var viol []string
	viol = append(viol, structureViolations(out, h2, es2)...)
	viol = append(viol, contentMapViolations(es, data, es2, data2, "cluster")...)
	if h2.Clustered != 1 {
		viol = append(viol, "result not marked clustered")
	}
	if h2.TileType != h.TileType || h2.TileComp != h.TileComp {
		viol = append(viol, fmt.Sprintf("tile type/compression changed: %d/%d -> %d/%d", h.TileType, h.TileComp, h2.TileType, h2.TileComp))
	}
	if h2.MinLon != h.MinLon || h2.MinLat != h.MinLat || h2.MaxLon != h.MaxLon || h2.MaxLat != h.MaxLat {
		viol = append(viol, "bounds changed")
	}
	if !bytes.Equal(canonJSON(meta2), canonJSON(meta)) {
		viol = append(viol, "JSON metadata changed: "+trunc(string(meta2)))
	}
	restore = silence()
	verr := pmtiles.Verify(quietLogger, p)
	restore()
	if verr != nil && h2.MinLon < h2.MaxLon && h2.MinLat < h2.MaxLat && h2.MinZoom <= h2.CenterZoom && h2.CenterZoom <= h2.MaxZoom {
		viol = append(viol, "the clustered archive does not pass verify: "+verr.Error())
	}
	return "ok " + projStr(h2) + " " + entsStr(es2) + " " + hx(data2) + " " + hx(canonJSON(meta2)), viol
}

func c13(r *rng, tier string, o *out) {
	nb := 2
	if tier == "thorough" {
		nb = 60
	}
	for c := 0; c < nb; c++ {
		seed := r.next()
		lo := nearBudgetN(seed)
		line := fmt.Sprintf("cluster_root %d %d %d", seed, lo, c%2)
		impl, viol := runCase("C13", line)
		idx := o.emit(line, impl, true)
		o.count("cluster_root_near_budget")
		for _, v := range viol {
			o.violation(idx, v)
		}
	}
	n := 150
	if tier == "thorough" {
		n = 12000
	}
	for c := 0; c < n; c++ {
		ne := 1 + r.intn(20)
		es, dl := genEntries(r, entOpts{n: ne, maxGapLog: 8, runs: true, shared: r.chance(70)})
		// a pool of few distinct contents so that deduplication finds equal contents at different offsets
		data := make([]byte, dl)
		pool := [][]byte{r.bytes(40), r.bytes(40), r.bytes(40)}
		for i := range data {
			data[i] = byte(r.next())
		}
		if r.chance(60) {
			for _, e := range es {
				copy(data[e.Off:e.Off+uint64(e.Len)], pool[r.intn(len(pool))])
			}
		}
		// unclustered: scramble the order of the contents in the data section
		if r.chance(70) && len(es) > 1 {
			es, data = scramble(r, es, data)
		}
		if r.chance(15) { // a run crossing a zoom boundary (ids 4,5 | 5.. = zoom 1 -> 2)
			base := hilBase(uint(1+r.intn(5))) - 1
			for i := range es {
				es[i].ID += base
			}
		}
		zmin, _, _ := pmtiles.IDToZxy(es[0].ID)
		zmax, _, _ := pmtiles.IDToZxy(es[len(es)-1].ID)
		h := Hdr{Version: 3, TileType: uint8(1 + r.intn(5)), TileComp: uint8(1 + r.intn(4)), MinZoom: zmin, MaxZoom: zmax,
			MinLon: -1800000000 + int32(r.intn(1000)), MinLat: -850000000, MaxLon: 1800000000, MaxLat: 850000000 - int32(r.intn(1000))}
		switch r.intn(4) {
		case 0: // center all zero: defaults apply
		case 1:
			h.CenterZoom, h.CenterLon, h.CenterLat = zmin, int32(r.intn(1000)), -int32(r.intn(1000))
		case 2:
			h.CenterZoom, h.CenterLon, h.CenterLat = zmax, 5, 5
		case 3: // bounds whose sum overflows int32 when the default center is computed
			h.MinLon, h.MaxLon = 1500000000, 1700000000
		}
		seen := map[uint64]bool{}
		for _, e := range es {
			h.Addressed += uint64(e.Run)
			seen[e.Off] = true
		}
		h.Entries, h.Contents = uint64(len(es)), uint64(len(seen))
		meta := canonJSON([]byte(fmt.Sprintf(`{"name":"t%d","vector_layers":[{"id":"a<b","fields":{"k":"v"}}],"n":%d.5,"u":"éé"}`, c, r.intn(100))))
		line := fmt.Sprintf("cluster %d %d %d %d %s", r.intn(2), r.intn(3), 1+r.intn(6), r.intn(2), archStr(h, es, data, meta))
		impl, viol := runCase("C13", line)
		idx := o.emit(line, impl, len(es) > 2)
		o.count("cluster")
		for _, v := range viol {
			o.violation(idx, v)
		}
	}
}

// scramble reorders the distinct contents of the data section (the archive stays valid but is not clustered).
func scramble(r *rng, es []Ent, data []byte) ([]Ent, []byte) {
	type span struct{ off, l uint64 }
	var spans []span
	seen := map[uint64]bool{}
	for _, e := range es {
		if !seen[e.Off] {
			seen[e.Off] = true
			spans = append(spans, span{e.Off, uint64(e.Len)})
		}
	}
	// spans may overlap when shared entries have different lengths: keep it simple and bail out then
	for i := range spans {
		for j := range spans {
			if i != j && spans[i].off < spans[j].off+spans[j].l && spans[j].off < spans[i].off+spans[i].l {
				return es, data
			}
		}
	}
	perm := make([]int, len(spans))
	for i := range perm {
		perm[i] = i
	}
	for i := len(perm) - 1; i > 0; i-- {
		j := r.intn(i + 1)
		perm[i], perm[j] = perm[j], perm[i]
	}
	newOff := map[uint64]uint64{}
	var nd []byte
	for _, k := range perm {
		newOff[spans[k].off] = uint64(len(nd))
		nd = append(nd, data[spans[k].off:spans[k].off+spans[k].l]...)
	}
	ne := make([]Ent, len(es))
	for i, e := range es {
		ne[i] = e
		ne[i].Off = newOff[e.Off]
	}
	return ne, nd
}
