package main

import (
	"errors"
	"fmt"
	"strings"

	"github.com/protomaps/go-pmtiles/pmtiles"
)

func init() {
	props["C17"] = c17
	replays["C17"] = func(line string) (string, []string) { return c17run(line) }
}

// case: iter <leafbase> <rootoff> <rootlen> <gzip 0|1> <ndirs> (<absoff> <len> <ok 0|1> <rawhex>)*
// result: ok|err <n> (<id> <off> <len> <run>)*
func c17(r *rng, tier string, o *out) {
	n := 400
	if tier == "thorough" {
		n = 60000
	}
	for c := 0; c < n; c++ {
		depth := r.intn(4)
		opts := treeOpts{depth: depth, fan: 1 + r.intn(6), gzip: r.chance(50), shorthand: r.chance(70), mixed: r.chance(40)}
		ne := r.intn(30)
		if r.chance(5) {
			ne = 0
		}
		es, _ := genEntries(r, entOpts{n: ne, maxGapLog: 20, runs: true, shared: true})
		root, leaves, dirs := buildTree(r, es, opts)
		metaLen := uint64(r.intn(50))
		lb := 127 + uint64(len(root)) + metaLen
		_ = leaves
		// choose failing directories
		fail := map[int]bool{}
		mode := r.intn(4) // 0: none, 1: one, 2: several, 3: last leaf / root
		switch mode {
		case 1:
			fail[r.intn(len(dirs))] = true
		case 2:
			for i := range dirs {
				if r.chance(30) {
					fail[i] = true
				}
			}
		case 3:
			if r.chance(50) {
				fail[len(dirs)-1] = true // the root
			} else {
				fail[0] = true
			}
		}
		var sb strings.Builder
		fmt.Fprintf(&sb, "iter %d 127 %d %d %d", lb, len(root), b2i(opts.gzip), len(dirs))
		for i, d := range dirs {
			abs := lb + d.AbsOff
			if d.Depth == 0 {
				abs = 127
			}
			fmt.Fprintf(&sb, " %d %d %d %s", abs, d.Len, b2i(!fail[i]), hx(d.Raw))
		}
		line := sb.String()
		impl, viol := runCase("C17", line)
		idx := o.emit(line, impl, depth > 0 || len(fail) > 0)
		o.count(fmt.Sprintf("depth=%d", depth))
		o.count(fmt.Sprintf("failmode=%d", mode))
		o.count(fmt.Sprintf("mixed=%v", opts.mixed))
		// oracle on the implementation alone, from the generator's ground truth
		if len(fail) == 0 {
			want := "ok " + entsStr(es)
			if impl != want {
				viol = append(viol, "all directories fetched but visited != tile entries of the tree: got "+trunc(impl)+" want "+trunc(want))
			}
		}
		for _, v := range viol {
			o.violation(idx, v)
		}
	}
}

func b2i(b bool) int {
	if b {
		return 1
	}
	return 0
}
func trunc(s string) string {
	if len(s) > 300 {
		return s[:300] + "..."
	}
	return s
}

func c17run(line string) (string, []string) {
	t := newToks(line)
	t.s()
	lb, ro, rl := t.u(), t.u(), t.u()
	gzipped := t.n() == 1
	nd := t.n()
	type key struct{ o, l uint64 }
	table := map[key][]byte{}
	failing := map[key]bool{}
	anyFail := false
	for i := 0; i < nd; i++ {
		k := key{t.u(), t.u()}
		ok := t.n() == 1
		raw := unhx(t.s())
		if gzipped {
			raw = gz(raw)
		}
		table[k] = raw
		if !ok {
			failing[k] = true
			anyFail = true
		}
	}
	h := pmtiles.HeaderV3{RootOffset: ro, RootLength: rl, LeafDirectoryOffset: lb, InternalCompression: pmtiles.NoCompression}
	if gzipped {
		h.InternalCompression = pmtiles.Gzip
	}
	var visited []Ent
	err := pmtiles.IterateEntries(h, func(off, length uint64) ([]byte, error) {
		k := key{off, length}
		if gzipped { // the table is keyed by the wire length recorded in the case line
		}
		if failing[k] {
			return nil, errors.New("injected fetch failure")
		}
		b, ok := table[k]
		if !ok {
			return nil, errors.New("no such directory")
		}
		return b, nil
	}, func(e pmtiles.EntryV3) {
		visited = append(visited, Ent{e.TileID, e.Offset, e.Length, e.RunLength})
	})
	res := "ok "
	if err != nil {
		res = "err "
	}
	res += entsStr(visited)
	var viol []string
	if anyFail && err == nil {
		viol = append(viol, "a directory of the tree could not be fetched but IterateEntries returned nil")
	}
	return res, viol
}
