package main

import (
	"bytes"
	"crypto/md5"
	"fmt"
	"os"
	"path/filepath"
	"strings"

	"github.com/protomaps/go-pmtiles/pmtiles"
)

func init() {
	props["C05"] = c05
	replays["C05"] = c05run
}

func digest(b []byte) string { return fmt.Sprintf("%d %x", len(b), md5.Sum(b)) }

// checkRootLeaves is the oracle: the written root and leaves, read by the independent decoder, reproduce es.
func checkRootLeaves(es []Ent, root, leaves []byte, n int, gzipped bool) []string {
	var viol []string
	dec := func(b []byte) ([]Ent, error) {
		if gzipped {
			var err error
			if b, err = gunz(b); err != nil {
				return nil, err
			}
		}
		return specDecodeDir(b)
	}
	rd, err := dec(root)
	if err != nil {
		return []string{"root directory does not decode: " + err.Error()}
	}
	if n == 0 {
		if len(leaves) != 0 || !entsEq(rd, es) {
			viol = append(viol, "flat root does not hold exactly the entries")
		}
		return viol
	}
	var all []Ent
	var pos uint64
	for i, p := range rd {
		if p.Run != 0 {
			viol = append(viol, fmt.Sprintf("root entry %d pointing to a leaf has run length %d", i, p.Run))
		}
		if p.Off != pos {
			viol = append(viol, fmt.Sprintf("leaf %d starts at %d but the previous leaf ended at %d (gap or overlap)", i, p.Off, pos))
		}
		if p.Off+uint64(p.Len) > uint64(len(leaves)) {
			viol = append(viol, fmt.Sprintf("leaf %d exceeds the leaf section", i))
			return viol
		}
		le, err := dec(leaves[p.Off : p.Off+uint64(p.Len)])
		if err != nil || len(le) == 0 {
			viol = append(viol, fmt.Sprintf("leaf %d does not decode or is empty (%v)", i, err))
			return viol
		}
		if le[0].ID != p.ID {
			viol = append(viol, fmt.Sprintf("pointer %d has tile id %d but its leaf starts with %d", i, p.ID, le[0].ID))
		}
		all = append(all, le...)
		pos = p.Off + uint64(p.Len)
	}
	if pos != uint64(len(leaves)) {
		viol = append(viol, fmt.Sprintf("leaves cover %d of %d bytes of the leaf section", pos, len(leaves)))
	}
	if len(rd) != n {
		viol = append(viol, fmt.Sprintf("numLeaves=%d but the root has %d pointers", n, len(rd)))
	}
	if !entsEq(all, es) {
		viol = append(viol, fmt.Sprintf("reading the root and then the leaves yields %d entries that differ from the %d original entries", len(all), len(es)))
	}
	return viol
}

// cases: buildrl <leafsize> <ents> | optdir <target> <ents>      -> ok <n> <len md5 root> <len md5 leaves>   (NoCompression, byte exact)
//
//	buildrl_gz <leafsize> <ents> | optdir_gz <target> <ents> -> ok                                       (oracle only)
func c05run(line string) (string, []string) {
	t := newToks(line)
	op := t.s()
	if op == "cluster_root" {
		return c05cluster(t.u(), t.n(), t.n() == 1)
	}
	if op == "extract_leaves" {
		return c05extractLeaves(t.u(), t.n() == 1)
	}
	k := t.n()
	var es []Ent
	if op == "optreg" { // optreg <target> <n> <gap> <len>: a regular list given by its parameters
		n, gap, l := t.n(), t.u(), uint32(t.n())
		es = make([]Ent, n)
		for i := range es {
			es[i] = Ent{ID: uint64(i) * gap, Off: uint64(i) * uint64(l), Len: l, Run: 1}
		}
		op = "optdir"
	} else {
		es = t.ents()
	}
	gzipped := op == "buildrl_gz" || op == "optdir_gz"
	comp := pmtiles.Compression(pmtiles.NoCompression)
	if gzipped {
		comp = pmtiles.Gzip
	}
	var root, leaves []byte
	var n int
	var viol []string
	switch op {
	case "buildrl", "buildrl_gz":
		root, leaves, n = pmtiles.VerifBuildRootsLeaves(toImpl(es), k, comp)
		if len(es) > 0 {
			viol = checkRootLeaves(es, root, leaves, n, gzipped)
		}
	case "optdir", "optdir_gz":
		root, leaves, n = pmtiles.VerifOptimizeDirectories(toImpl(es), k, comp)
		viol = checkRootLeaves(es, root, leaves, n, gzipped)
		if len(root) > k {
			viol = append(viol, fmt.Sprintf("root directory is %d bytes, budget %d", len(root), k))
		}
	}
	if gzipped {
		return "ok", viol
	}
	return fmt.Sprintf("ok %d %s %s", n, digest(root), digest(leaves)), viol
}

// extract_leaves <seed> <gzip>: the writer command that lays root and leaf directories into a file - a whole-archive extract of a
// source with more than 16,384 entries (all tiles of zooms 0..7), so that the output needs leaf directories; the output is read back
// through its header offsets by the independent reader: structure (sections chained, root within 16 KiB, leaves tiling the leaf
// section) and every entry.   -> ok   (oracle only)
func c05extractLeaves(seed uint64, gzipped bool) (string, []string) {
	r := &rng{s: seed}
	var es []Ent
	var data []byte
	for id := uint64(0); id < 21845; id++ {
		l := uint32(1 + r.intn(3))
		es = append(es, Ent{ID: id, Off: uint64(len(data)), Len: l, Run: 1})
		data = append(data, r.bytes(int(l))...)
	}
	a := buildArchive(r, es, data, archOpts{tree: treeOpts{depth: 1, fan: 1, chunk: 5000, gzip: gzipped, shorthand: true}, tileType: 2, tileComp: 1, meta: `{"name":"src"}`, minZoom: 0, maxZoom: 7, clustered: true})
	dir, _ := os.MkdirTemp("", "vh-c05x")
	defer os.RemoveAll(dir)
	src, out := filepath.Join(dir, "src.pmtiles"), filepath.Join(dir, "out.pmtiles")
	os.WriteFile(src, a.Bytes, 0o644)
	restore := silence()
	err := pmtiles.Extract(quietLogger, "", src, -1, -1, "", "", out, 2, 0.05, false)
	restore()
	if err != nil {
		return "err", []string{"extract of a whole 21,845-tile archive failed: " + err.Error()}
	}
	f, _ := os.ReadFile(out)
	h2, es2, data2, _, rerr := readArch(f)
	if rerr != nil {
		return "ok", []string{"the extract (an archive that needs leaf directories) cannot be read back through its header offsets: " + rerr.Error()}
	}
	viol := structureViolations(f, h2, es2)
	viol = append(viol, contentMapViolations(es, data, es2, data2, "extract")...)
	return "ok", viol
}

// nearBudgetList: n badly compressing entries in clustered layout (contiguous offsets) from a seed.
func nearBudgetList(seed uint64, n int) []Ent {
	rr := &rng{s: seed}
	es := make([]Ent, n)
	id, off := uint64(0), uint64(0)
	for i := range es {
		id += 1 + rr.u64n(1<<uint(1+rr.intn(20)))
		l := uint32(1 + rr.intn(60))
		es[i] = Ent{ID: id, Off: off, Len: l, Run: 1}
		off += uint64(l)
	}
	return es
}

// nearBudgetN finds an entry count for which the flat gzip root directory of nearBudgetList(seed, n) is
// strictly inside the window (16257, 16384]: larger than the root budget, not larger than the first fetch.
func nearBudgetN(seed uint64) int {
	size := func(n int) int { return len(pmtiles.SerializeEntries(toImpl(nearBudgetList(seed, n)), pmtiles.Gzip)) }
	lo, hi := 2000, 16000
	for lo < hi {
		mid := (lo + hi) / 2
		if size(mid) < 16320 {
			lo = mid + 1
		} else {
			hi = mid
		}
	}
	for n := lo; n > lo-200; n-- { // gzip sizes are not monotone in n: walk down to a size inside the window
		if s := size(n); s > 16262 && s <= 16380 {
			return n
		}
	}
	return lo
}

// cluster_root <seed> <n> <dedup>: an unclustered archive of n badly compressing entries goes through the real
// writer (Cluster -> finalize); header and root of the written file must lie within the first 16384 bytes and
// root + leaves must reproduce the entries.   -> ok (oracle only)
func c05cluster(seed uint64, n int, dedup bool) (string, []string) {
	es := nearBudgetList(seed, n)
	total := es[n-1].Off + uint64(es[n-1].Len)
	rr := &rng{s: seed ^ 0x5555}
	data := rr.bytes(int(total))
	// unclustered layout: reverse the order of the contents in the data section
	un := make([]Ent, n)
	udata := make([]byte, 0, total)
	for i := n - 1; i >= 0; i-- {
		un[i] = es[i]
		un[i].Off = uint64(len(udata))
		udata = append(udata, data[es[i].Off:es[i].Off+uint64(es[i].Len)]...)
	}
	a := buildArchive(rr, un, udata, archOpts{tree: treeOpts{depth: 1, fan: 4000, gzip: true, shorthand: true}, tileType: 2, tileComp: 1, meta: "{}", minZoom: 0, maxZoom: 31})
	dir, _ := os.MkdirTemp("", "vh-c05")
	defer os.RemoveAll(dir)
	p := filepath.Join(dir, "a.pmtiles")
	os.WriteFile(p, a.Bytes, 0o644)
	so, se := os.Stdout, os.Stderr
	os.Stdout, os.Stderr = devNull, devNull
	err := pmtiles.Cluster(quietLogger, p, dedup)
	os.Stdout, os.Stderr = so, se
	if err != nil {
		return "ok", []string{"cluster failed: " + err.Error()}
	}
	out, _ := os.ReadFile(p)
	h, got, rerr := specReadArchive(out)
	var viol []string
	if rerr != nil {
		viol = append(viol, "written archive unreadable: "+rerr.Error())
	}
	if h.RootOff+h.RootLen > 16384 {
		viol = append(viol, fmt.Sprintf("header and root directory end at byte %d, beyond the first 16384 bytes (%d entries)", h.RootOff+h.RootLen, n))
	}
	if rerr == nil && len(got) != n {
		viol = append(viol, fmt.Sprintf("written directories hold %d entries, expected %d", len(got), n))
	}
	return "ok", viol
}

func c05(r *rng, tier string, o *out) {
	emit := func(line string, nt bool, tag string) {
		impl, viol := runCase("C05", line)
		idx := o.emit(line, impl, nt)
		o.count(tag)
		for _, v := range viol {
			o.violation(idx, v)
		}
		// the tuning constants of the leaf-size loop (root-only limit, divisor, floor, growth factor) are not fixed by the property: when
		// the translator reports that they are no longer the pinned ones, which layout optimizeDirectories picks is left to the
		// structural oracle (root within the budget, pointers, tiling, round trip), and a different layout than the model's is no violation
		if (strings.HasPrefix(line, "optdir ") || strings.HasPrefix(line, "optreg ")) && strings.Contains(os.Getenv("VERIF_FALLBACK"), "optimize_") {
			o.outside(idx, "leaf-size tuning constants differ from the pinned ones: the exact layout is not fixed by the property")
		}
	}
	list := func(n int, incompressible bool) []Ent {
		es, _ := genEntries(r, entOpts{n: n, maxGapLog: 30, bigVals: incompressible, runs: true, shared: incompressible})
		return es
	}
	// (a) buildRootsLeaves with arbitrary leaf sizes, incl. short tails (len mod leaf small) and exact multiples
	nb := 150
	if tier == "thorough" {
		nb = 6000
	}
	for c := 0; c < nb; c++ {
		leaf := 1 + r.intn(40)
		n := r.intn(200)
		switch r.intn(4) {
		case 0:
			n = leaf * (1 + r.intn(6)) // exact multiple
		case 1:
			n = leaf*(1+r.intn(6)) + 1 + r.intn(1+leaf/8) // short tail
		}
		es := list(n, r.chance(50))
		emit(fmt.Sprintf("buildrl %d %s", leaf, entsStr(es)), n > leaf, "buildrl")
		if c%3 == 0 {
			emit(fmt.Sprintf("buildrl_gz %d %s", leaf, entsStr(es)), n > leaf, "buildrl_gz")
		}
	}
	// (b) optimizeDirectories: sizes around 16384 and around the leaf-size steps, budgets from tiny to the real one
	sizes := []int{0, 1, 50, 4095, 4096, 4097, 4915, 4916, 8192, 16383, 16384, 16385, 20000}
	if tier == "thorough" {
		sizes = append(sizes, 4096+100, 4096*2+300, 16384+100, 16384+2048, 5898*3+7, 40000, 100000, 300000, 1000000)
	}
	for _, n := range sizes {
		for _, inc := range []bool{false, true} {
			es := list(n, inc)
			for _, target := range []int{16257, 2000, 40} {
				if target == 2000 && n > 20000 && tier != "thorough" {
					continue
				}
				emit(fmt.Sprintf("optdir %d %s", target, entsStr(es)), n > 4096, fmt.Sprintf("optdir-n=%d", n))
			}
			emit(fmt.Sprintf("optdir_gz %d %s", 16257, entsStr(es)), n > 4096, "optdir_gz")
			if n > 100 {
				emit(fmt.Sprintf("optdir_gz %d %s", 200, entsStr(es)), n > 4096, "optdir_gz")
			}
		}
	}
	// (b2) regular lists whose pointer tile-ID deltas (gap x leaf size) sit just below a varint size boundary at the first leaf size,
	// so that a larger leaf makes every pointer a byte longer; one entry more than a whole number of leaves; budgets the first
	// attempt just misses
	gaps := []uint64{3, 4, 31, 32, 127, 500, 511, 512, 513}
	for gi, gap := range gaps {
		for _, target := range []int{120, 170} {
			for leaves := target/10 - 1; leaves <= target/6+1; leaves += 2 {
				if tier != "thorough" && (leaves+gi)%3 != 0 {
					continue
				}
				emit(fmt.Sprintf("optreg %d %d %d %d", target, 4096*leaves+1, gap, 20+gi), true, "optdir_varint_boundary")
			}
		}
	}
	// (c) badly compressing lists whose flat gzip root lands near the 16 KiB budget (fewer than 16384 entries)
	nc := 6
	if tier == "thorough" {
		nc = 60
	}
	for c := 0; c < nc; c++ {
		lo, hi := 500, 9000
		var es []Ent
		for lo < hi { // binary search on n for a flat root just around the budget
			mid := (lo + hi) / 2
			rr := &rng{s: uint64(c)*7919 + 1}
			es, _ = genEntries(rr, entOpts{n: mid, maxGapLog: 40, bigVals: true, runs: true, shared: true})
			b := pmtiles.SerializeEntries(toImpl(es), pmtiles.Gzip)
			if len(b) < 16257+64-r.intn(200) {
				lo = mid + 1
			} else {
				hi = mid
			}
		}
		emit(fmt.Sprintf("optdir_gz %d %s", 16257, entsStr(es)), true, "optdir_gz_near_budget")
	}
	// (d) the real writer on lists whose flat gzip root is within a few bytes of the 16 KiB boundary
	nd := 3
	if tier == "thorough" {
		nd = 40
	}
	for c := 0; c < nd; c++ {
		seed := r.next()
		lo := nearBudgetN(seed)
		emit(fmt.Sprintf("cluster_root %d %d %d", seed, lo, c%2), true, "cluster_root_near_budget")
		if c < 2 || tier == "thorough" {
			emit(fmt.Sprintf("extract_leaves %d %d", r.next()%1000000, c%2), true, "extract_with_leaf_directories")
		}
	}
	_ = bytes.Equal
}
