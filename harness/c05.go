package main

import (
	"bytes"
	"crypto/md5"
	"fmt"

	"github.com/protomaps/go-pmtiles/pmtiles"
)

func init() {
	props["C05"] = c05
	replays["C05"] = c05run
}

func digest(b []byte) string { return fmt.Sprintf("%d %x", len(b), md5.Sum(b)) }

// checkRootLeaves is the oracle: the written root and leaves, read by the independent decoder, reproduce es.
func checkRootLeaves(es []Ent, root, leaves []byte, n int, gzipped bool) []string {
	var viol []string
	dec := func(b []byte) ([]Ent, error) {
		if gzipped {
			var err error
			if b, err = gunz(b); err != nil {
				return nil, err
			}
		}
		return specDecodeDir(b)
	}
	rd, err := dec(root)
	if err != nil {
		return []string{"root directory does not decode: " + err.Error()}
	}
	if n == 0 {
		if len(leaves) != 0 || !entsEq(rd, es) {
			viol = append(viol, "flat root does not hold exactly the entries")
		}
		return viol
	}
	var all []Ent
	var pos uint64
	for i, p := range rd {
		if p.Run != 0 {
			viol = append(viol, fmt.Sprintf("root entry %d pointing to a leaf has run length %d", i, p.Run))
		}
		if p.Off != pos {
			viol = append(viol, fmt.Sprintf("leaf %d starts at %d but the previous leaf ended at %d (gap or overlap)", i, p.Off, pos))
		}
		if p.Off+uint64(p.Len) > uint64(len(leaves)) {
			viol = append(viol, fmt.Sprintf("leaf %d exceeds the leaf section", i))
			return viol
		}
		le, err := dec(leaves[p.Off : p.Off+uint64(p.Len)])
		if err != nil || len(le) == 0 {
			viol = append(viol, fmt.Sprintf("leaf %d does not decode or is empty (%v)", i, err))
			return viol
		}
		if le[0].ID != p.ID {
			viol = append(viol, fmt.Sprintf("pointer %d has tile id %d but its leaf starts with %d", i, p.ID, le[0].ID))
		}
		all = append(all, le...)
		pos = p.Off + uint64(p.Len)
	}
	if pos != uint64(len(leaves)) {
		viol = append(viol, fmt.Sprintf("leaves cover %d of %d bytes of the leaf section", pos, len(leaves)))
	}
	if len(rd) != n {
		viol = append(viol, fmt.Sprintf("numLeaves=%d but the root has %d pointers", n, len(rd)))
	}
	if !entsEq(all, es) {
		viol = append(viol, fmt.Sprintf("reading the root and then the leaves yields %d entries that differ from the %d original entries", len(all), len(es)))
	}
	return viol
}

// cases: buildrl <leafsize> <ents> | optdir <target> <ents>      -> ok <n> <len md5 root> <len md5 leaves>   (NoCompression, byte exact)
//        buildrl_gz <leafsize> <ents> | optdir_gz <target> <ents> -> ok                                       (oracle only)
func c05run(line string) (string, []string) {
	t := newToks(line)
	op := t.s()
	k := t.n()
	es := t.ents()
	gzipped := op == "buildrl_gz" || op == "optdir_gz"
	comp := pmtiles.Compression(pmtiles.NoCompression)
	if gzipped {
		comp = pmtiles.Gzip
	}
	var root, leaves []byte
	var n int
	var viol []string
	switch op {
	case "buildrl", "buildrl_gz":
		root, leaves, n = pmtiles.VerifBuildRootsLeaves(toImpl(es), k, comp)
		if len(es) > 0 {
			viol = checkRootLeaves(es, root, leaves, n, gzipped)
		}
	case "optdir", "optdir_gz":
		root, leaves, n = pmtiles.VerifOptimizeDirectories(toImpl(es), k, comp)
		viol = checkRootLeaves(es, root, leaves, n, gzipped)
		if len(root) > k {
			viol = append(viol, fmt.Sprintf("root directory is %d bytes, budget %d", len(root), k))
		}
	}
	if gzipped {
		return "ok", viol
	}
	return fmt.Sprintf("ok %d %s %s", n, digest(root), digest(leaves)), viol
}

func c05(r *rng, tier string, o *out) {
	emit := func(line string, nt bool, tag string) {
		impl, viol := c05run(line)
		idx := o.emit(line, impl, nt)
		o.count(tag)
		for _, v := range viol {
			o.violation(idx, v)
		}
	}
	list := func(n int, incompressible bool) []Ent {
		es, _ := genEntries(r, entOpts{n: n, maxGapLog: 30, bigVals: incompressible, runs: true, shared: incompressible})
		return es
	}
	// (a) buildRootsLeaves with arbitrary leaf sizes, incl. short tails (len mod leaf small) and exact multiples
	nb := 150
	if tier == "thorough" {
		nb = 6000
	}
	for c := 0; c < nb; c++ {
		leaf := 1 + r.intn(40)
		n := r.intn(200)
		switch r.intn(4) {
		case 0:
			n = leaf * (1 + r.intn(6)) // exact multiple
		case 1:
			n = leaf*(1+r.intn(6)) + 1 + r.intn(1+leaf/8) // short tail
		}
		es := list(n, r.chance(50))
		emit(fmt.Sprintf("buildrl %d %s", leaf, entsStr(es)), n > leaf, "buildrl")
		if c%3 == 0 {
			emit(fmt.Sprintf("buildrl_gz %d %s", leaf, entsStr(es)), n > leaf, "buildrl_gz")
		}
	}
	// (b) optimizeDirectories: sizes around 16384 and around the leaf-size steps, budgets from tiny to the real one
	sizes := []int{0, 1, 50, 4095, 4096, 4097, 4915, 4916, 8192, 16383, 16384, 16385, 20000}
	if tier == "thorough" {
		sizes = append(sizes, 4096+100, 4096*2+300, 16384+100, 16384+2048, 5898*3+7, 40000, 100000, 300000, 1000000)
	}
	for _, n := range sizes {
		for _, inc := range []bool{false, true} {
			es := list(n, inc)
			for _, target := range []int{16257, 2000, 40} {
				if target == 2000 && n > 20000 && tier != "thorough" {
					continue
				}
				emit(fmt.Sprintf("optdir %d %s", target, entsStr(es)), n > 4096, fmt.Sprintf("optdir-n=%d", n))
			}
			emit(fmt.Sprintf("optdir_gz %d %s", 16257, entsStr(es)), n > 4096, "optdir_gz")
			if n > 100 {
				emit(fmt.Sprintf("optdir_gz %d %s", 200, entsStr(es)), n > 4096, "optdir_gz")
			}
		}
	}
	// (c) badly compressing lists whose flat gzip root lands near the 16 KiB budget (fewer than 16384 entries)
	nc := 6
	if tier == "thorough" {
		nc = 60
	}
	for c := 0; c < nc; c++ {
		lo, hi := 500, 9000
		var es []Ent
		for lo < hi { // binary search on n for a flat root just around the budget
			mid := (lo + hi) / 2
			rr := &rng{s: uint64(c)*7919 + 1}
			es, _ = genEntries(rr, entOpts{n: mid, maxGapLog: 40, bigVals: true, runs: true, shared: true})
			b := pmtiles.SerializeEntries(toImpl(es), pmtiles.Gzip)
			if len(b) < 16257+64-r.intn(200) {
				lo = mid + 1
			} else {
				hi = mid
			}
		}
		emit(fmt.Sprintf("optdir_gz %d %s", 16257, entsStr(es)), true, "optdir_gz_near_budget")
	}
	_ = bytes.Equal
}
