package main

// C06: Convert. Case
//   convert <dedup> <nmeta> (<meta row>)* <nrows> (<z> <x> <tms row> <blobhex> <gzhex|->)*
//     meta row:  format <vhex> | bounds <n> (<m> <k> | x)* | center <n> (<m> <k> | x)* <zoom|x> | json <n> (<khex> <vtexthex>)* |
//                compression <vhex> | scheme | other <khex> <vhex>
//   -> ok <projected header> <ents> <datahex> <n> (<khex> <vtexthex>)*   | err | crash
// The harness writes the MBTiles database with the sqlite library the repo uses, runs the real Convert and reads the
// result back with its own reader. <gzhex> is the gzip stream the resolver produces for a raw pbf blob (the model takes
// gzip from this table; the oracle checks that it gunzips to the blob).

import (
	"bytes"
	"compress/gzip"
	"encoding/json"
	"fmt"
	"os"
	"path/filepath"
	"sort"
	"strings"

	"github.com/protomaps/go-pmtiles/pmtiles"
	"zombiezen.com/go/sqlite"
	"zombiezen.com/go/sqlite/sqlitex"
)

func init() {
	props["C06"] = c06
	replays["C06"] = c06run
}

type mbRow struct {
	z    uint8
	x, y uint32 // y = TMS row
	blob []byte
}
type metaRow struct {
	kind string
	k, v string
	nums []*jnum
	zoom *int64
	kvs  [][2]string
}

func gzBest(b []byte) []byte {
	var buf bytes.Buffer
	w, _ := gzip.NewWriterLevel(&buf, gzip.BestCompression)
	w.Write(b)
	w.Close()
	return buf.Bytes()
}

func writeMBTiles(path string, meta []metaRow, rows []mbRow) error {
	os.Remove(path)
	conn, err := sqlite.OpenConn(path, sqlite.OpenReadWrite|sqlite.OpenCreate)
	if err != nil {
		return err
	}
	defer conn.Close()
	if err := sqlitex.ExecScript(conn, "CREATE TABLE metadata (name text, value text); CREATE TABLE tiles (zoom_level integer, tile_column integer, tile_row integer, tile_data blob);"); err != nil {
		return err
	}
	sqlitex.ExecScript(conn, "BEGIN;")
	defer sqlitex.ExecScript(conn, "COMMIT;")
	for _, m := range meta {
		st := conn.Prep("INSERT INTO metadata (name, value) VALUES (?, ?)")
		st.BindText(1, m.k)
		st.BindText(2, m.v)
		if _, err := st.Step(); err != nil {
			return err
		}
		st.Reset()
	}
	for _, r := range rows {
		st := conn.Prep("INSERT INTO tiles VALUES (?, ?, ?, ?)")
		st.BindInt64(1, int64(r.z))
		st.BindInt64(2, int64(r.x))
		st.BindInt64(3, int64(r.y))
		if len(r.blob) == 0 {
			st.BindZeroBlob(4, 0)
		} else {
			st.BindBytes(4, r.blob)
		}
		if _, err := st.Step(); err != nil {
			return err
		}
		st.Reset()
	}
	return nil
}

func numsText(v []*jnum) string {
	p := make([]string, len(v))
	for i, x := range v {
		if x == nil {
			p[i] = "abc"
		} else {
			p[i] = x.text()
		}
	}
	return strings.Join(p, ",")
}

// the SQL text of a metadata row and its case tokens
func (m *metaRow) finish() string {
	switch m.kind {
	case "format", "compression":
		m.k = m.kind
		return m.kind + " " + hx([]byte(m.v)) + " " + hx(jsonStr(m.v))
	case "bounds", "center":
		m.k = m.kind
		m.v = numsText(m.nums)
		tk := fmt.Sprintf("%s %d", m.kind, len(m.nums))
		for _, x := range m.nums {
			if x == nil {
				tk += " x"
			} else {
				tk += fmt.Sprintf(" %d %d", x.m, x.k)
			}
		}
		if m.kind == "center" {
			if m.zoom == nil {
				tk += " x"
				if len(m.nums) >= 2 {
					m.v += ",z"
				}
			} else {
				tk += fmt.Sprintf(" %d", *m.zoom)
				m.v += fmt.Sprintf(",%d", *m.zoom)
			}
		}
		return tk
	case "json":
		m.k = "json"
		tk := fmt.Sprintf("json %d", len(m.kvs))
		var parts []string
		for _, kv := range m.kvs {
			tk += " " + hx([]byte(kv[0])) + " " + hx(canonJSON([]byte(kv[1])))
			parts = append(parts, string(jsonStr(kv[0]))+":"+kv[1])
		}
		if m.v == "" {
			m.v = "{" + strings.Join(parts, ",") + "}"
		}
		return tk
	case "scheme":
		m.k, m.v = "scheme", "tms"
		return "scheme"
	}
	return "other " + hx([]byte(m.k)) + " " + hx(jsonStr(m.v))
}
func jsonStr(s string) []byte {
	b, _ := json.Marshal(s)
	return canonJSON(b)
}

func parseMetaRow(t *toks) metaRow {
	var m metaRow
	m.kind = t.s()
	switch m.kind {
	case "format", "compression":
		m.v = string(unhx(t.s()))
		t.s()
	case "bounds", "center":
		n := t.n()
		for i := 0; i < n; i++ {
			if s := t.s(); s == "x" {
				m.nums = append(m.nums, nil)
			} else {
				var a int64
				fmt.Sscan(s, &a)
				m.nums = append(m.nums, &jnum{a, t.n()})
			}
		}
		if m.kind == "center" {
			if s := t.s(); s != "x" {
				var z int64
				fmt.Sscan(s, &z)
				m.zoom = &z
			}
		}
	case "json":
		n := t.n()
		for i := 0; i < n; i++ {
			k := string(unhx(t.s()))
			m.kvs = append(m.kvs, [2]string{k, string(unhx(t.s()))})
		}
	case "scheme":
	case "other":
		m.k = string(unhx(t.s()))
		var v string
		json.Unmarshal(unhx(t.s()), &v)
		m.v = v
	}
	m.finish()
	return m
}

func metaKVStr(meta []byte) string {
	var obj map[string]json.RawMessage
	if json.Unmarshal(meta, &obj) != nil {
		return "badjson"
	}
	keys := make([]string, 0, len(obj))
	for k := range obj {
		keys = append(keys, k)
	}
	sort.Strings(keys)
	s := fmt.Sprint(len(keys))
	for _, k := range keys {
		s += " " + hx([]byte(k)) + " " + hx(canonJSON(obj[k]))
	}
	return s
}

// convert_root <seed> <n> <dedup>: a database of n png tiles whose single-level gzip directory lands between the root budget and the
// first fetch (ids and lengths of nearBudgetList): the written header and root must still lie within the first 16384 bytes   -> ok
func c06root(seed uint64, n int, dedup bool) (string, []string) {
	es := nearBudgetList(seed, n)
	rr := &rng{s: seed ^ 0x6666}
	rows := make([]mbRow, n)
	for i, e := range es {
		z, x, y := pmtiles.IDToZxy(e.ID)
		b := rr.bytes(int(e.Len))
		if len(b) >= 4 { // distinct contents, so that deduplication does not change the directory
			b[0], b[1], b[2], b[3] = byte(i), byte(i>>8), byte(i>>16), 0x77
		}
		rows[i] = mbRow{z, x, (uint32(1) << z) - 1 - y, b}
	}
	dir, _ := os.MkdirTemp("", "vh-c06r")
	defer os.RemoveAll(dir)
	in, out := filepath.Join(dir, "in.mbtiles"), filepath.Join(dir, "out.pmtiles")
	if err := writeMBTiles(in, []metaRow{{k: "format", v: "png"}}, rows); err != nil {
		return "harness", []string{"harness: " + err.Error()}
	}
	tmp, _ := os.CreateTemp(dir, "tmp")
	defer tmp.Close()
	restore := silence()
	err := pmtiles.Convert(quietLogger, in, out, dedup, tmp)
	restore()
	if err != nil {
		return "ok", []string{"convert failed: " + err.Error()}
	}
	f, _ := os.ReadFile(out)
	h, got, rerr := specReadArchive(f)
	var viol []string
	if rerr != nil {
		viol = append(viol, "converted archive unreadable: "+rerr.Error())
	}
	if h.RootOff+h.RootLen > 16384 {
		viol = append(viol, fmt.Sprintf("header and root directory end at byte %d, beyond the first 16384 bytes (%d tiles)", h.RootOff+h.RootLen, n))
	}
	if rerr == nil && !dedup && len(got) != n {
		viol = append(viol, fmt.Sprintf("written directories hold %d entries, expected %d", len(got), n))
	}
	return "ok", viol
}

func c06run(line string) (string, []string) {
	t := newToks(line)
	if t.s() == "convert_root" {
		return c06root(t.u(), t.n(), t.n() == 1)
	}
	dedup := t.n() == 1
	nm := t.n()
	meta := make([]metaRow, nm)
	for i := range meta {
		meta[i] = parseMetaRow(t)
	}
	nr := t.n()
	rows := make([]mbRow, nr)
	for i := range rows {
		rows[i] = mbRow{z: uint8(t.n()), x: uint32(t.u()), y: uint32(t.u()), blob: unhx(t.s())}
		t.s()
	}
	dir, _ := os.MkdirTemp("", "vh-c06")
	defer os.RemoveAll(dir)
	in, out := filepath.Join(dir, "in.mbtiles"), filepath.Join(dir, "out.pmtiles")
	if err := writeMBTiles(in, meta, rows); err != nil {
		return "harness", []string{"harness: cannot write the MBTiles database: " + err.Error()}
	}
	tmp, _ := os.CreateTemp(dir, "convert-tmp")
	defer tmp.Close()
	restore := silence()
	err := pmtiles.Convert(quietLogger, in, out, dedup, tmp)
	restore()
	if err != nil {
		return "err", nil
	}
	f, _ := os.ReadFile(out)
	h2, es2, data2, meta2, rerr := readArch(f)
	if rerr != nil {
		return "ok unreadable", []string{"the converted archive cannot be read back: " + rerr.Error()}
	}
	var viol []string
	viol = append(viol, structureViolations(f, h2, es2)...)
	if h2.Clustered != 1 {
		viol = append(viol, "result not marked clustered")
	}
	// the expected tile map: (z, x, 2^z-1-row) -> blob of every non-empty row
	pbf := false // the last recognised format row decides
	for _, m := range meta {
		if m.kind == "format" && formatKnown(m.v) > 0 {
			pbf = m.v == "pbf"
		}
	}
	// bounds and center agree with the source to within one E7 unit (Convert truncates where Edit rounds)
	for _, m := range meta {
		var got []int32
		switch m.kind {
		case "bounds":
			got = []int32{h2.MinLon, h2.MinLat, h2.MaxLon, h2.MaxLat}
		case "center":
			got = []int32{h2.CenterLon, h2.CenterLat}
		}
		last := true
		for _, m2 := range meta[indexOfMeta(meta, &m)+1:] {
			if m2.kind == m.kind {
				last = false
			}
		}
		for i := range got {
			if last && i < len(m.nums) && m.nums[i] != nil && m.nums[i].k <= 7 {
				w := m.nums[i].m * pow10(7-m.nums[i].k)
				if d := int64(got[i]) - w; d < -1 || d > 1 {
					viol = append(viol, fmt.Sprintf("%s[%d] = %s stored as %d", m.kind, i, m.nums[i].text(), got[i]))
				}
			}
		}
	}
	// every descriptive row appears in the JSON metadata (a later row of the same name wins)
	var obj map[string]json.RawMessage
	json.Unmarshal(meta2, &obj)
	for i, m := range meta {
		if m.kind != "other" {
			continue
		}
		overridden := false
		for _, m2 := range meta[i+1:] {
			if (m2.kind == "other" && m2.k == m.k) || m2.kind == "json" && hasKey(m2.kvs, m.k) {
				overridden = true
			}
		}
		if !overridden && !bytes.Equal(canonJSON(obj[m.k]), jsonStr(m.v)) {
			viol = append(viol, fmt.Sprintf("metadata row %q = %q is missing from the JSON metadata (found %s)", m.k, m.v, string(obj[m.k])))
		}
	}
	want := map[uint64][]byte{}
	for _, r := range rows {
		if len(r.blob) > 0 {
			id := pmtiles.ZxyToID(r.z, r.x, (uint32(1)<<r.z)-1-r.y)
			if _, dup := want[id]; !dup {
				want[id] = r.blob
			}
		}
	}
	var addressed uint64
	for _, e := range es2 {
		addressed += uint64(e.Run)
		for k := uint64(0); k < uint64(e.Run); k++ {
			id := e.ID + k
			blob, ok := want[id]
			if !ok {
				viol = append(viol, fmt.Sprintf("tile id %d is addressed but no non-empty source row maps to it", id))
				break
			}
			if e.Off+uint64(e.Len) > uint64(len(data2)) {
				continue
			}
			got := data2[e.Off : e.Off+uint64(e.Len)]
			if pbf && !(len(blob) >= 2 && blob[0] == 31 && blob[1] == 139) {
				raw, gerr := gunz(got)
				if gerr != nil || !bytes.Equal(raw, blob) {
					viol = append(viol, fmt.Sprintf("tile id %d (pbf, raw in the source) is not stored as a gzip stream of the source blob", id))
					break
				}
			} else if !bytes.Equal(got, blob) {
				viol = append(viol, fmt.Sprintf("tile id %d holds %s, the source row holds %s", id, trunc(hx(got)), trunc(hx(blob))))
				break
			}
		}
	}
	if addressed != uint64(len(want)) {
		viol = append(viol, fmt.Sprintf("%d tiles addressed, %d non-empty source rows", addressed, len(want)))
	}
	if pbf && h2.TileComp != 2 {
		viol = append(viol, "pbf tiles are stored gzip-wrapped but the header does not declare gzip tile compression")
	}
	restore = silence()
	verr := pmtiles.Verify(quietLogger, out)
	restore()
	if verr != nil {
		viol = append(viol, "the converted archive does not pass verify: "+verr.Error())
	}
	return "ok " + projStr(h2) + " " + entsStr(es2) + " " + hx(data2) + " " + metaKVStr(meta2), viol
}

func formatKnown(v string) int {
	switch v {
	case "pbf":
		return 1
	case "png", "jpg", "webp", "avif":
		return 2
	}
	return 0
}

func c06(r *rng, tier string, o *out) {
	nroot := 2
	if tier == "thorough" {
		nroot = 16
	}
	for c := 0; c < nroot; c++ {
		seed := r.next()
		line := fmt.Sprintf("convert_root %d %d %d", seed, nearBudgetN(seed), c%2)
		impl, viol := runCase("C06", line)
		idx := o.emit(line, impl, true)
		o.count("convert_root_near_budget")
		for _, v := range viol {
			o.violation(idx, v)
		}
	}
	n := 120
	if tier == "thorough" {
		n = 3000
	}
	for c := 0; c < n; c++ {
		format := []string{"pbf", "pbf", "pbf", "png", "jpg", "webp", "avif", "gif"}[r.intn(8)]
		// pyramid
		zmin := uint8(r.intn(4))
		zmax := zmin + uint8(r.intn(3))
		if r.chance(5) {
			zmax = 20 + uint8(r.intn(11))
			zmin = zmax
		}
		var rows []mbRow
		pool := [][]byte{r.bytes(3 + r.intn(30)), r.bytes(3 + r.intn(30))}
		seen := map[[3]uint32]bool{}
		nt := 1 + r.intn(25)
		for i := 0; i < nt; i++ {
			z := zmin + uint8(r.intn(int(zmax-zmin)+1))
			side := uint64(1) << z
			x, y := uint32(r.u64n(side)), uint32(r.u64n(side))
			if r.chance(20) { // edges of the grid
				x, y = []uint32{0, uint32(side - 1)}[r.intn(2)], []uint32{0, uint32(side - 1)}[r.intn(2)]
			}
			k := [3]uint32{uint32(z), x, y}
			if seen[k] {
				continue
			}
			seen[k] = true
			blob := r.bytes(1 + r.intn(40))
			switch {
			case r.chance(25):
				blob = pool[r.intn(2)] // duplicate contents
			case r.chance(8):
				blob = nil // empty blob: skipped
			case format == "pbf" && r.chance(30):
				blob = gzBest(r.bytes(1 + r.intn(30))) // already gzip
			case r.chance(5):
				blob = []byte{31} // looks like half a gzip magic
			}
			rows = append(rows, mbRow{z, x, y, blob})
		}
		if r.chance(3) {
			rows = nil
		}
		if r.chance(3) {
			for i := range rows {
				rows[i].blob = nil
			}
		}
		// metadata rows in random table order
		var meta []metaRow
		meta = append(meta, metaRow{kind: "format", v: format})
		if r.chance(8) {
			meta = meta[:0] // no format row
		}
		coord := func(lim int64) *jnum {
			k := r.intn(9)
			p := int64(1)
			for i := 0; i < k; i++ {
				p *= 10
			}
			m := int64(r.u64n(uint64(lim)*uint64(p) + 1))
			if r.chance(50) {
				m = -m
			}
			return &jnum{m, k}
		}
		if r.chance(75) {
			b := []*jnum{coord(180), coord(85), coord(180), coord(85)}
			// mostly a proper box
			if r.chance(85) {
				if b[0].m*pow10(b[2].k) > b[2].m*pow10(b[0].k) {
					b[0], b[2] = b[2], b[0]
				}
				if b[1].m*pow10(b[3].k) > b[3].m*pow10(b[1].k) {
					b[1], b[3] = b[3], b[1]
				}
			}
			if r.chance(3) {
				b[r.intn(4)] = nil
			}
			meta = append(meta, metaRow{kind: "bounds", nums: b})
		}
		if r.chance(60) {
			// a declared center zoom lies within the zoom range of the (non-empty) tiles
			z := int64(zmin)
			var zs []int64
			for _, rw := range rows {
				if len(rw.blob) > 0 {
					zs = append(zs, int64(rw.z))
				}
			}
			if len(zs) > 0 {
				a, b := zs[r.intn(len(zs))], zs[r.intn(len(zs))]
				if a > b {
					a, b = b, a
				}
				z = a + int64(r.intn(int(b-a)+1))
			}
			m := metaRow{kind: "center", nums: []*jnum{coord(180), coord(85)}, zoom: &z}
			if r.chance(4) {
				bad := int64(200)
				m.zoom = &bad
			}
			if r.chance(3) {
				m.zoom = nil
			}
			meta = append(meta, m)
		}
		if r.chance(50) {
			meta = append(meta, metaRow{kind: "json", kvs: [][2]string{{"vector_layers", `[{"id":"a<b","fields":{"k":"Number"}}]`}, {"tilestats", fmt.Sprintf(`{"layerCount":%d}`, r.intn(9))}}})
			if r.chance(30) {
				meta[len(meta)-1].kvs = append(meta[len(meta)-1].kvs, [2]string{"name", `"from json"`})
			}
		}
		if r.chance(40) {
			meta = append(meta, metaRow{kind: "compression", v: []string{"gzip", "none", "zstd"}[r.intn(3)]})
		}
		if r.chance(30) {
			meta = append(meta, metaRow{kind: "scheme"})
		}
		for _, k := range []string{"name", "attribution", "description", "type", "version", "minzoom", "maxzoom", "generator", "x<y&z", "é"} {
			if r.chance(35) {
				meta = append(meta, metaRow{kind: "other", k: k, v: fmt.Sprintf("v %d \"q\" <é>", r.intn(100))})
			}
		}
		if r.chance(10) {
			meta = append(meta, metaRow{kind: "format", v: []string{"png", "pbf", "tiff"}[r.intn(3)]}) // a second format row
		}
		for i := len(meta) - 1; i > 0; i-- {
			j := r.intn(i + 1)
			meta[i], meta[j] = meta[j], meta[i]
		}
		for i := len(rows) - 1; i > 0; i-- {
			j := r.intn(i + 1)
			rows[i], rows[j] = rows[j], rows[i]
		}
		var sb strings.Builder
		fmt.Fprintf(&sb, "convert %d %d", r.intn(2), len(meta))
		for i := range meta {
			sb.WriteString(" " + meta[i].finish())
		}
		fmt.Fprintf(&sb, " %d", len(rows))
		for _, rw := range rows {
			g := "-"
			if len(rw.blob) > 0 && !(len(rw.blob) >= 2 && rw.blob[0] == 31 && rw.blob[1] == 139) {
				g = hx(gzBest(rw.blob))
			}
			fmt.Fprintf(&sb, " %d %d %d %s %s", rw.z, rw.x, rw.y, hx(rw.blob), g)
		}
		line := sb.String()
		impl, viol := runCase("C06", line)
		// the model takes gzip from the table in the case line. Which gzip stream the writer produces for a blob (level, header
		// fields) is not fixed by the property - only that it gunzips to the blob, which the oracle checks - so the table is filled
		// with the streams the implementation itself stored, where they differ from the harness's own
		if changed := c06refill(&line, impl, rows); changed {
			impl, viol = runCase("C06", line)
		}
		idx := o.emit(line, impl, len(rows) > 1)
		o.count("convert_" + format)
		if impl == "err" {
			o.count("refused")
		}
		for _, v := range viol {
			o.violation(idx, v)
		}
	}
}

// c06refill replaces, in a convert case line, the gzip column of every raw blob by the stream the implementation stored for that tile
// (taken from its output, if that stream gunzips to the blob).
func c06refill(line *string, impl string, rows []mbRow) bool {
	if !strings.HasPrefix(impl, "ok ") {
		return false
	}
	t := newToks(impl)
	t.s()
	for i := 0; i < 17; i++ {
		t.s()
	}
	es := t.ents()
	data := unhx(t.s())
	stored := map[string]string{} // blob hex -> stored stream hex
	for _, rw := range rows {
		if len(rw.blob) == 0 || (len(rw.blob) >= 2 && rw.blob[0] == 31 && rw.blob[1] == 139) {
			continue
		}
		id := pmtiles.ZxyToID(rw.z, rw.x, (uint32(1)<<rw.z)-1-rw.y)
		for _, e := range es {
			if e.ID <= id && id-e.ID < uint64(e.Run) && e.Off+uint64(e.Len) <= uint64(len(data)) {
				c := data[e.Off : e.Off+uint64(e.Len)]
				if u, err := gunz(c); err == nil && bytes.Equal(u, rw.blob) {
					stored[hx(rw.blob)] = hx(c)
				}
			}
		}
	}
	f := strings.Fields(*line)
	changed := false
	// rows are the trailing groups of five tokens: z x y blobhex gzhex
	for i := len(f) - 5*len(rows); i+4 < len(f); i += 5 {
		if g, ok := stored[f[i+3]]; ok && f[i+4] != "-" && f[i+4] != g {
			f[i+4] = g
			changed = true
		}
	}
	if changed {
		*line = strings.Join(f, " ")
	}
	return changed
}

func pow10(k int) int64 {
	p := int64(1)
	for i := 0; i < k; i++ {
		p *= 10
	}
	return p
}

func indexOfMeta(meta []metaRow, m *metaRow) int {
	for i := range meta {
		if meta[i].kind == m.kind && meta[i].v == m.v && meta[i].k == m.k {
			return i
		}
	}
	return len(meta) - 1
}
func hasKey(kvs [][2]string, k string) bool {
	for _, kv := range kvs {
		if kv[0] == k {
			return true
		}
	}
	return false
}
