package main

// Generators shared by several properties.

// genEntries makes n tile entries with strictly ascending IDs: runs, gaps, shared and contiguous
// offsets, multi-byte varints. IDs stay below maxID. dataLen receives the size of the tile-data
// section the offsets refer to.
type entOpts struct {
	n         int
	maxGapLog int // gaps up to 2^maxGapLog
	bigVals   bool
	runs      bool
	shared    bool
}

func genEntries(r *rng, o entOpts) (es []Ent, dataLen uint64) {
	id := uint64(r.intn(5))
	var next uint64 // next free offset in tile data
	for i := 0; i < o.n; i++ {
		run := uint32(1)
		if o.runs && r.chance(30) {
			run = uint32(1 + r.intn(5))
			if o.bigVals && r.chance(10) {
				run = uint32(1 + r.u64n(1<<20))
			}
		}
		length := uint32(1 + r.intn(40))
		if o.bigVals && r.chance(15) {
			length = uint32(1 + r.u64n(1<<uint(8+r.intn(23))))
		}
		var off uint64
		switch {
		case o.shared && len(es) > 0 && r.chance(20):
			p := es[r.intn(len(es))]
			off, length = p.Off, p.Len
		case o.bigVals && len(es) > 0 && r.chance(12):
			// near misses of "contiguous with the previous entry": equal only modulo 2^8/2^16/2^32, or off by one
			p := es[len(es)-1]
			pe := p.Off + uint64(p.Len)
			d := []uint64{1 << 32, 2 << 32, 1 << 16, 1 << 8, 1, 1 << 33, 1 << 40}[r.intn(7)]
			if r.chance(35) && pe >= d {
				off = pe - d
			} else {
				off = pe + d
			}
			if off >= 1<<62 {
				off = pe
			}
			if off+uint64(length) > next {
				next = off + uint64(length)
			}
		case o.bigVals && r.chance(10):
			off = r.u64n(1 << uint(20+r.intn(42)))
			if off+uint64(length) > next {
				next = off + uint64(length)
			}
		default:
			off = next
			next += uint64(length)
		}
		es = append(es, Ent{ID: id, Off: off, Len: length, Run: run})
		gap := uint64(r.intn(3))
		if r.chance(25) {
			gap = r.u64n(1 << uint(1+r.intn(o.maxGapLog)))
		}
		id += uint64(run) + gap
	}
	return es, next
}
