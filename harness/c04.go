package main

import (
	"bytes"
	"context"
	"fmt"
	"os"
	"path/filepath"
	"strings"

	"github.com/protomaps/go-pmtiles/pmtiles"
)

func init() {
	props["C04"] = c04
	replays["C04"] = c04run
}

var extOf = map[uint8]string{1: "mvt", 2: "png", 3: "jpg", 4: "webp", 5: "avif"}

// cases:
//
//	find <ents> <id>                          -> some <id off len run> | none
//	tile <datahex> <leafbase> <rootoff> <rootlen> <gz> <dirs...> <id> -> 200 <hex> | 204 | other status
func c04run(line string) (string, []string) {
	t := newToks(line)
	switch t.s() {
	case "find":
		es := t.ents()
		id := t.u()
		e, ok := pmtiles.VerifFindTile(toImpl(es), id)
		var viol []string
		// oracle: predecessor entry, accepted if pointer or its run covers id (ascending directories, ids < 2^63)
		if asc := ascendingOK(es); asc && id < 1<<63 && (len(es) == 0 || es[len(es)-1].ID < 1<<63) {
			var want *Ent
			for i := range es {
				if es[i].ID <= id {
					want = &es[i]
				}
			}
			if want != nil && want.Run != 0 && id-want.ID >= uint64(want.Run) {
				want = nil
			}
			switch {
			case want == nil && ok:
				viol = append(viol, fmt.Sprintf("findTile returned entry %v for id %d that no entry covers", e, id))
			case want != nil && (!ok || (Ent{e.TileID, e.Offset, e.Length, e.RunLength}) != *want):
				viol = append(viol, fmt.Sprintf("findTile(%d) = %v,%v but the covering entry is %v", id, e, ok, *want))
			}
		}
		if !ok {
			return "none", viol
		}
		return fmt.Sprintf("some %d %d %d %d", e.TileID, e.Offset, e.Length, e.RunLength), viol
	case "tile":
		data := unhx(t.s())
		lb, ro, rl := t.u(), t.u(), t.u()
		gzipped := t.n() == 1
		nd := t.n()
		type drec struct {
			off, l uint64
			raw    []byte
		}
		var ds []drec
		for i := 0; i < nd; i++ {
			o, l := t.u(), t.u()
			t.n()
			ds = append(ds, drec{o, l, unhx(t.s())})
		}
		id := t.u()
		tileType := uint8(2) // optional trailing token: the header's tile type (0 = unknown/other, valid per the spec: any extension is served)
		if t.i < len(t.t) {
			tileType = uint8(t.u())
		}
		// reassemble the file: header, root at 127, leaves at their offsets, tile data after everything
		end := ro + rl
		for _, d := range ds {
			if d.off+d.l > end {
				end = d.off + d.l
			}
		}
		file := make([]byte, end)
		var leafEnd uint64 = lb
		for _, d := range ds {
			w := d.raw
			if gzipped {
				w = gz(w)
			}
			copy(file[d.off:], w)
			if d.off >= lb && d.off+d.l > leafEnd {
				leafEnd = d.off + d.l
			}
		}
		h := Hdr{Version: 3, RootOff: ro, RootLen: rl, MetaOff: ro + rl, MetaLen: 0, LeafOff: lb, LeafLen: leafEnd - lb, DataOff: end, DataLen: uint64(len(data)),
			IntComp: 1, TileComp: 1, TileType: tileType, MinZoom: 0, MaxZoom: 31, MinLon: -10, MinLat: -10, MaxLon: 10, MaxLat: 10}
		if gzipped {
			h.IntComp = 2
		}
		copy(file, specEncodeHeader(h))
		file = append(file, data...)
		return serveTile(file, id, tileType)
	}
	return "unknown-op", nil
}

// serveTile asks the real server and the real CLI for one tile of an archive; the two must agree.
func serveTile(file []byte, id uint64, tileType uint8) (string, []string) {
	var viol []string
	z, x, y := pmtiles.IDToZxy(id)
	ext := extOf[tileType]
	if ext == "" {
		ext = []string{"bin", "mvt", "png"}[id%3]
	}
	bk := newMemBucket()
	bk.put("a.pmtiles", file, "v1")
	srv, _ := pmtiles.NewServerWithBucket(bk, "", quietLogger, 64, "")
	srv.Start()
	status, _, body := srv.Get(context.Background(), fmt.Sprintf("/a/%d/%d/%d.%s", z, x, y, ext))
	res := fmt.Sprintf("%d", status)
	if status == 200 {
		res += " " + hx(body)
	}
	// the CLI walk (separate implementation)
	dir, _ := os.MkdirTemp("", "vh-c04")
	defer os.RemoveAll(dir)
	p := filepath.Join(dir, "a.pmtiles")
	os.WriteFile(p, file, 0o644)
	var out bytes.Buffer
	saved := os.Stdout
	os.Stdout = devNull
	err := pmtiles.Show(quietLogger, &out, "", p, false, false, false, "", true, int(z), int(x), int(y))
	os.Stdout = saved
	cli := "204"
	if err != nil {
		cli = "error"
	} else if out.Len() > 0 {
		cli = "200 " + hx(out.Bytes())
	}
	if cli != res {
		viol = append(viol, fmt.Sprintf("server answers %s but the CLI tile command gives %s for tile id %d", trunc(res), trunc(cli), id))
	}
	return res, viol
}

func c04(r *rng, tier string, o *out) {
	nfind, narch := 1500, 120
	if tier == "thorough" {
		nfind, narch = 200000, 4000
	}
	emit := func(line string, nt bool, tag string, truth func() (string, bool)) {
		impl, viol := runCase("C04", line)
		idx := o.emit(line, impl, nt)
		o.count(tag)
		if truth != nil {
			if want, ok := truth(); ok && impl != want {
				viol = append(viol, "response differs from the bytes stored for that tile: got "+trunc(impl)+" want "+trunc(want))
			}
		}
		for _, v := range viol {
			o.violation(idx, v)
		}
	}
	queries := func(es []Ent, r *rng) []uint64 {
		var q []uint64
		for _, e := range es {
			q = append(q, e.ID, e.ID+uint64(e.Run), e.ID+uint64(e.Run)-1)
			if e.ID > 0 {
				q = append(q, e.ID-1)
			}
			// ids that are a multiple of 2^32 (2^16, 2^8) beyond the run: narrow-integer comparisons
			for _, d := range []uint64{1 << 32, 1 << 16, 1 << 8, 1 << 33} {
				q = append(q, e.ID+d, e.ID+d+uint64(e.Run)-1)
			}
		}
		q = append(q, 0, r.u64n(1<<40))
		return q
	}
	// (a) findTile on single directories, incl. pointers (run 0) and ids >= 2^63
	for c := 0; c < nfind; c++ {
		es, _ := genEntries(r, entOpts{n: r.intn(12), maxGapLog: 40, bigVals: r.chance(50), runs: true, shared: true})
		for i := range es {
			if r.chance(15) {
				es[i].Run = 0
			}
		}
		if r.chance(5) && len(es) > 0 {
			es[len(es)-1].ID = (1 << 63) + r.u64n(1<<62)
		}
		qs := queries(es, r)
		id := qs[r.intn(len(qs))]
		if r.chance(3) {
			id = (1 << 63) + r.u64n(1<<63)
		}
		emit("find "+entsStr(es)+fmt.Sprintf(" %d", id), len(es) > 1, "find", nil)
		if !(ascendingOK(es) && id < 1<<63 && (len(es) == 0 || es[len(es)-1].ID < 1<<63)) {
			o.outside(o.n-1, "directory not ascending or an id at or above 2^63: not a well-formed archive")
		}
	}
	// (b) whole archives through the server and the CLI
	for c := 0; c < narch; c++ {
		depth := r.intn(4)
		ne := 1 + r.intn(25)
		sparse := r.chance(30)
		gl := 6
		if sparse {
			gl = 36
		}
		es, dl := genEntries(r, entOpts{n: ne, maxGapLog: gl, runs: true, shared: true})
		if r.chance(20) { // start high in the pyramid
			base := hilBase(uint(20+r.intn(11))) + r.u64n(1000)
			for i := range es {
				es[i].ID += base
			}
		}
		data := r.bytes(int(dl))
		a := buildArchive(r, es, data, archOpts{tree: treeOpts{depth: depth, fan: 1 + r.intn(5), gzip: r.chance(50), shorthand: r.chance(70), mixed: r.chance(30)},
			tileType: 2, tileComp: 1, meta: "{}", minZoom: 0, maxZoom: 31})
		qs := queries(es, r)
		nq := 6
		if len(qs) < nq {
			nq = len(qs)
		}
		for k := 0; k < nq; k++ {
			id := qs[r.intn(len(qs))]
			if id >= hilBase(32) {
				continue
			}
			var sb strings.Builder
			fmt.Fprintf(&sb, "tile %s %d 127 %d %d %s %d %d", hx(data), a.LeafLB, a.H.RootLen, b2i(a.Opts.gzip), a.dirsStr(), id, (c+k)%6)
			emit(sb.String(), depth > 0, fmt.Sprintf("tile-depth=%d", depth), func() (string, bool) {
				if b, ok := a.truth(id); ok {
					return "200 " + hx(b), true
				}
				return "204", true
			})
		}
	}
	// (c) directories of the sizes the writer produces for big archives: 12,000 to 16,000 entries in one directory, more than
	// 64 KiB once decoded (the periodic layout keeps a gzip root within the first 16 KiB); root-only and under one leaf level
	nbig := 3
	if tier == "thorough" {
		nbig = 40
	}
	for c := 0; c < nbig; c++ {
		offs := []uint64{0, 1000, 5000}
		lens := []uint32{200, 300, 250}
		depth := c % 3 % 2 // 0,1,0,...
		gzipped := c%3 != 2
		if !gzipped {
			depth = 1
		}
		per := 12000 + r.intn(4000)
		n := per
		if depth == 1 {
			n = per * (2 + r.intn(2))
		}
		var es []Ent
		id := hilBase(uint(8 + r.intn(3)))
		for i := 0; i < n; i++ {
			if i%997 == 996 {
				id += uint64(1 + r.intn(3)) // a hole
			}
			es = append(es, Ent{ID: id, Off: offs[i%3], Len: lens[i%3], Run: 1})
			id++
		}
		data := r.bytes(5250)
		a := buildArchive(r, es, data, archOpts{tree: treeOpts{depth: depth, fan: 1, chunk: per, gzip: gzipped, shorthand: true}, tileType: 2, tileComp: 1, meta: "{}", minZoom: 0, maxZoom: 31})
		qs := []uint64{es[0].ID, es[n-1].ID, es[n/2].ID, es[n-1].ID + 1, es[per-1].ID, es[per%n].ID, es[995].ID + 1, es[r.intn(n)].ID, es[0].ID - 1}
		for k := 0; k < 4; k++ {
			id := qs[(c+2*k+r.intn(2))%len(qs)]
			var sb strings.Builder
			fmt.Fprintf(&sb, "tile %s %d 127 %d %d %s %d %d", hx(data), a.LeafLB, a.H.RootLen, b2i(gzipped), a.dirsStr(), id, (c+k)%6)
			emit(sb.String(), true, fmt.Sprintf("tile-bigdir-depth=%d-gzip=%v", depth, gzipped), func() (string, bool) {
				if b, ok := a.truth(id); ok {
					return "200 " + hx(b), true
				}
				return "204", true
			})
		}
	}
}
