package main

import (
	"fmt"

	"github.com/protomaps/go-pmtiles/pmtiles"
)

func init() {
	props["C01"] = c01
	replays["C01"] = c01run
}

// independent reference: textbook recursive Hilbert index (MSB first, reduced coordinates)
func hilBase(z uint) uint64 { return ((uint64(1) << (2 * z)) - 1) / 3 }
func hilQuad(bx, by uint64) uint64 {
	switch {
	case bx == 0 && by == 0:
		return 0
	case bx == 0:
		return 1
	case by == 0:
		return 3
	}
	return 2
}
func hilIndex(k uint, x, y uint64) uint64 {
	if k == 0 {
		return 0
	}
	s := uint64(1) << (k - 1)
	q := hilQuad(x/s, y/s)
	xr, yr := x%s, y%s
	switch q {
	case 0:
		xr, yr = yr, xr
	case 3:
		xr, yr = s-1-yr, s-1-xr
	}
	return q*(uint64(1)<<(2*(k-1))) + hilIndex(k-1, xr, yr)
}

// cases: zxy2id z x y -> ok id ; id2zxy id -> ok z x y ; parent id -> ok id
func c01run(line string) (string, []string) {
	t := newToks(line)
	var viol []string
	switch t.s() {
	case "zxy2id":
		z, x, y := t.u(), t.u(), t.u()
		id := pmtiles.ZxyToID(uint8(z), uint32(x), uint32(y))
		if z <= 31 && x < 1<<z && y < 1<<z {
			want := hilBase(uint(z)) + hilIndex(uint(z), x, y)
			if id != want {
				viol = append(viol, fmt.Sprintf("ZxyToID(%d,%d,%d)=%d but the v3 numbering (base + Hilbert index) is %d", z, x, y, id, want))
			}
			z2, x2, y2 := pmtiles.IDToZxy(id)
			if uint64(z2) != z || uint64(x2) != x || uint64(y2) != y {
				viol = append(viol, fmt.Sprintf("round trip (%d,%d,%d) -> %d -> (%d,%d,%d)", z, x, y, id, z2, x2, y2))
			}
			if z >= 1 {
				if p, w := pmtiles.ParentID(id), pmtiles.ZxyToID(uint8(z-1), uint32(x/2), uint32(y/2)); p != w {
					viol = append(viol, fmt.Sprintf("ParentID(id of (%d,%d,%d))=%d, expected id of (%d,%d,%d)=%d", z, x, y, p, z-1, x/2, y/2, w))
				}
			}
		}
		return fmt.Sprintf("ok %d", id), viol
	case "id2zxy":
		id := t.u()
		z, x, y := pmtiles.IDToZxy(id)
		if id < hilBase(32) {
			if z > 31 || uint64(x) >= 1<<z || uint64(y) >= 1<<z {
				viol = append(viol, fmt.Sprintf("IDToZxy(%d)=(%d,%d,%d) outside the pyramid", id, z, x, y))
			} else {
				if back := pmtiles.ZxyToID(z, x, y); back != id {
					viol = append(viol, fmt.Sprintf("round trip %d -> (%d,%d,%d) -> %d", id, z, x, y, back))
				}
				if !(hilBase(uint(z)) <= id && id < hilBase(uint(z)+1)) {
					viol = append(viol, fmt.Sprintf("IDToZxy(%d) reports zoom %d whose block does not contain the id", id, z))
				}
				if id+1 < hilBase(uint(z)+1) {
					_, x2, y2 := pmtiles.IDToZxy(id + 1)
					d := absDiff(uint64(x), uint64(x2)) + absDiff(uint64(y), uint64(y2))
					if d != 1 {
						viol = append(viol, fmt.Sprintf("ids %d and %d of zoom %d are not edge-adjacent: (%d,%d) (%d,%d)", id, id+1, z, x, y, x2, y2))
					}
				}
			}
		}
		return fmt.Sprintf("ok %d %d %d", z, x, y), viol
	case "parent":
		id := t.u()
		return fmt.Sprintf("ok %d", pmtiles.ParentID(id)), nil
	}
	return "unknown-op", nil
}
func absDiff(a, b uint64) uint64 {
	if a > b {
		return a - b
	}
	return b - a
}

func c01(r *rng, tier string, o *out) {
	exhaustive, perZoom, nrand := uint(6), 120, 6000
	if tier == "thorough" {
		exhaustive, perZoom, nrand = 10, 3000, 400000
	}
	emit := func(line string, nt bool, tag string) {
		impl, viol := runCase("C01", line)
		idx := o.emit(line, impl, nt)
		o.count(tag)
		for _, v := range viol {
			o.violation(idx, v)
		}
		if tag == "out-of-domain" || line == "parent 0" {
			o.outside(idx, "zoom above 31, coordinate outside the zoom's grid, ID at or beyond zoom 32, or the parent of the root")
		}
	}
	coord := func(z, x, y uint64, tag string) {
		emit(fmt.Sprintf("zxy2id %d %d %d", z, x, y), z >= 2, tag)
	}
	for z := uint64(0); z <= uint64(exhaustive); z++ {
		for x := uint64(0); x < 1<<z; x++ {
			for y := uint64(0); y < 1<<z; y++ {
				coord(z, x, y, "exhaustive-low-zoom")
			}
		}
	}
	// every id of the exhaustive zooms (adjacency and inverse direction)
	for id := uint64(0); id < hilBase(exhaustive+1); id++ {
		emit(fmt.Sprintf("id2zxy %d", id), id > 4, "exhaustive-low-zoom-ids")
	}
	// structured values per zoom: bit boundaries, single bits, runs of zero / one digits
	for z := uint64(exhaustive) + 1; z <= 31; z++ {
		var vals []uint64
		max := uint64(1)<<z - 1
		for k := uint64(0); k < z; k++ {
			for _, v := range []uint64{1 << k, 1<<k - 1, 1<<k + 1, max - (1 << k), max ^ (1<<k - 1)} {
				if v <= max {
					vals = append(vals, v)
				}
			}
		}
		vals = append(vals, 0, max, max-1, max/3, max/3*2, 0x55555555&max, 0xaaaaaaaa&max)
		for i := 0; i < perZoom; i++ {
			x, y := vals[r.intn(len(vals))], vals[r.intn(len(vals))]
			if r.chance(30) {
				x = r.u64n(max + 1)
			}
			if r.chance(30) {
				y = r.u64n(max + 1)
			}
			coord(z, x, y, "structured")
		}
		for _, c := range [][2]uint64{{0, 0}, {max, 0}, {0, max}, {max, max}} {
			coord(z, c[0], c[1], "corners")
		}
		// ids: block boundaries, d*4^k +-1, random
		b, e := hilBase(uint(z)), hilBase(uint(z)+1)
		ids := []uint64{b, b + 1, e - 1, e - 2}
		for k := uint64(0); k < z; k++ {
			for d := uint64(1); d <= 3; d++ {
				v := b + d<<(2*k)
				ids = append(ids, v, v-1, v+1)
			}
		}
		for _, id := range ids {
			if id >= b && id < e {
				emit(fmt.Sprintf("id2zxy %d", id), true, "structured-ids")
				emit(fmt.Sprintf("parent %d", id), true, "parent")
			}
		}
		for i := 0; i < perZoom/4; i++ {
			emit(fmt.Sprintf("id2zxy %d", b+r.u64n(e-b)), true, "random-ids")
		}
	}
	for i := 0; i < nrand; i++ {
		z := uint64(r.intn(32))
		coord(z, r.u64n(1<<z), r.u64n(1<<z), "random")
	}
	// outside the property's domain: model and implementation must still agree (wrap-around behaviour)
	for i := 0; i < 300; i++ {
		z := uint64(r.intn(256))
		emit(fmt.Sprintf("zxy2id %d %d %d", z, r.u64n(1<<32), r.u64n(1<<32)), true, "out-of-domain")
		id := r.next()
		if r.chance(50) {
			id = hilBase(32) + r.u64n(1000) - 500
		}
		emit(fmt.Sprintf("id2zxy %d", id), true, "out-of-domain")
		emit(fmt.Sprintf("parent %d", id), true, "out-of-domain")
	}
}
