package main

// Building whole archives with the harness's own writer, and an in-memory bucket to serve them.

import (
	"bytes"
	"context"
	"fmt"
	"io"
	"log"
	"os"
	"sync"

	"github.com/protomaps/go-pmtiles/pmtiles"
)

var devNull, _ = os.OpenFile(os.DevNull, os.O_WRONLY, 0)
var quietLogger = log.New(io.Discard, "", 0)

type Archive struct {
	H      Hdr
	Ents   []Ent
	Dirs   []dirRec // every directory; AbsOff is the absolute file offset
	Data   []byte   // tile data section
	Meta   []byte   // metadata section as stored
	Bytes  []byte   // the whole file
	LeafLB uint64
	Opts   treeOpts
}

type archOpts struct {
	tree      treeOpts
	tileType  uint8
	tileComp  uint8
	meta      string // JSON text
	clustered bool
	minZoom   uint8
	maxZoom   uint8
	pad       int // bytes of padding between root and metadata (spec allows)
	padLeaf   int // bytes of padding between metadata and leaf directories (spec allows)
	padData   int // bytes of padding between leaf directories and tile data (spec allows)
}

func buildArchive(r *rng, es []Ent, data []byte, o archOpts) *Archive {
	root, leaves, dirs := buildTree(r, es, o.tree)
	meta := []byte(o.meta)
	if o.tree.gzip {
		meta = gz(meta)
	}
	h := Hdr{Version: 3, RootOff: 127, RootLen: uint64(len(root))}
	h.MetaOff = h.RootOff + h.RootLen + uint64(o.pad)
	h.MetaLen = uint64(len(meta))
	h.LeafOff = h.MetaOff + h.MetaLen + uint64(o.padLeaf)
	h.LeafLen = uint64(len(leaves))
	h.DataOff = h.LeafOff + h.LeafLen + uint64(o.padData)
	h.DataLen = uint64(len(data))
	h.IntComp = 1
	if o.tree.gzip {
		h.IntComp = 2
	}
	h.TileComp, h.TileType, h.MinZoom, h.MaxZoom = o.tileComp, o.tileType, o.minZoom, o.maxZoom
	if o.clustered {
		h.Clustered = 1
	}
	h.MinLon, h.MinLat, h.MaxLon, h.MaxLat = -1800000000, -850000000, 1800000000, 850000000
	h.CenterZoom = o.minZoom
	seen := map[uint64]bool{}
	for _, e := range es {
		h.Addressed += uint64(e.Run)
		seen[e.Off] = true
	}
	h.Entries, h.Contents = uint64(len(es)), uint64(len(seen))
	var b bytes.Buffer
	b.Write(specEncodeHeader(h))
	b.Write(root)
	b.Write(make([]byte, o.pad))
	b.Write(meta)
	b.Write(bytes.Repeat([]byte{0xEE}, o.padLeaf))
	b.Write(leaves)
	b.Write(bytes.Repeat([]byte{0xDD}, o.padData))
	b.Write(data)
	for i := range dirs {
		if dirs[i].Depth == 0 {
			dirs[i].AbsOff = 127
		} else {
			dirs[i].AbsOff += h.LeafOff
		}
	}
	return &Archive{H: h, Ents: es, Dirs: dirs, Data: data, Meta: meta, Bytes: b.Bytes(), LeafLB: h.LeafOff, Opts: o.tree}
}

// truth: the bytes stored for a tile id, from the generator's entry list
func (a *Archive) truth(id uint64) ([]byte, bool) {
	for _, e := range a.Ents {
		if e.ID <= id && id-e.ID < uint64(e.Run) {
			return a.Data[e.Off : e.Off+uint64(e.Len)], true
		}
	}
	return nil, false
}

// dirsStr prints the directory table of an archive for case lines: <n> (<absoff> <len> <ok> <rawhex>)*
func (a *Archive) dirsStr() string {
	var sb bytes.Buffer
	fmt.Fprintf(&sb, "%d", len(a.Dirs))
	for _, d := range a.Dirs {
		fmt.Fprintf(&sb, " %d %d 1 %s", d.AbsOff, d.Len, hx(d.Raw))
	}
	return sb.String()
}

// memBucket: objects in memory, etag per object, same status conventions as the repo's mock bucket.
type memObj struct {
	data []byte
	etag string
}
type memBucket struct {
	mu    sync.Mutex
	items map[string]memObj
	calls []string
}

func newMemBucket() *memBucket { return &memBucket{items: map[string]memObj{}} }
func (m *memBucket) put(key string, data []byte, etag string) {
	m.mu.Lock()
	m.items[key] = memObj{data, etag}
	m.mu.Unlock()
}
func (m *memBucket) Close() error { return nil }
func (m *memBucket) NewRangeReader(ctx context.Context, key string, offset, length int64) (io.ReadCloser, error) {
	b, _, _, err := m.NewRangeReaderEtag(ctx, key, offset, length, "")
	return b, err
}
func (m *memBucket) NewRangeReaderEtag(_ context.Context, key string, offset, length int64, etag string) (io.ReadCloser, string, int, error) {
	m.mu.Lock()
	defer m.mu.Unlock()
	m.calls = append(m.calls, fmt.Sprintf("%s %d %d %s", key, offset, length, etag))
	o, ok := m.items[key]
	if !ok {
		return nil, "", 404, fmt.Errorf("not found %s", key)
	}
	if etag != "" && etag != o.etag {
		return nil, "", 412, &pmtiles.RefreshRequiredError{StatusCode: 412}
	}
	if offset >= int64(len(o.data)) {
		return nil, "", 416, &pmtiles.RefreshRequiredError{StatusCode: 416}
	}
	end := offset + length
	if end > int64(len(o.data)) {
		end = int64(len(o.data))
	}
	return io.NopCloser(bytes.NewReader(o.data[offset:end])), o.etag, 206, nil
}
