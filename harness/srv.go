package main

// Driving the real server under a controlled schedule (shared by C08, C09, C10).
//
// The bucket is a gate: every bucket call blocks until the harness releases it, and the read is performed
// against the bucket contents as they are at the moment of release. Requests run in their own goroutines.
// After every macro step (start a request / release one blocked call / replace or delete an archive) the
// harness waits until every goroutine of the server is blocked again and records the observables:
// the multiset of blocked bucket calls and the requests that completed.

import (
	"bytes"
	"context"
	"fmt"
	"io"
	"runtime"
	"sort"
	"strings"
	"sync"
	"sync/atomic"
	"time"

	"github.com/protomaps/go-pmtiles/pmtiles"
)

// A call is released in one step ("ok" or a fault kind) or in two: outcome "hold" makes the bucket take its decision NOW (which
// version it reads, whether the tag still matches) and deliver the result only when the call, listed again with the suffix #held, is
// released a second time - a read that takes effect before a replacement and returns after it.
type gateCall struct {
	held     bool
	key      string
	off, len int64
	etag     string
	release  chan string // outcome: "ok" or a fault kind
	id       int
}
type gateVer struct {
	data []byte
	tag  string
}
type gateBucket struct {
	mu       sync.Mutex
	objs     map[string]gateVer
	pending  []*gateCall
	activity int64
	nextID   int
	log      []string
}

func newGate() *gateBucket         { return &gateBucket{objs: map[string]gateVer{}} }
func (g *gateBucket) Close() error { return nil }
func (g *gateBucket) NewRangeReader(ctx context.Context, key string, off, l int64) (io.ReadCloser, error) {
	r, _, _, err := g.NewRangeReaderEtag(ctx, key, off, l, "")
	return r, err
}

type faultReader struct{ n int }

func (f *faultReader) Read(p []byte) (int, error) {
	if f.n > 0 {
		f.n--
		p[0] = 0x1f
		return 1, nil
	}
	return 0, fmt.Errorf("injected mid-stream read error")
}
func (f *faultReader) Close() error { return nil }

type cutReader struct{ b []byte }

func (c *cutReader) Read(p []byte) (int, error) {
	if len(c.b) == 0 {
		return 0, io.ErrUnexpectedEOF
	}
	n := copy(p, c.b)
	c.b = c.b[n:]
	return n, nil
}
func (c *cutReader) Close() error { return nil }

func (g *gateBucket) NewRangeReaderEtag(ctx context.Context, key string, off, l int64, etag string) (io.ReadCloser, string, int, error) {
	c := &gateCall{key: key, off: off, len: l, etag: etag, release: make(chan string, 1)}
	g.mu.Lock()
	c.id = g.nextID
	g.nextID++
	g.pending = append(g.pending, c)
	g.log = append(g.log, fmt.Sprintf("call %s %d %d %q", key, off, l, etag))
	g.mu.Unlock()
	atomic.AddInt64(&g.activity, 1)
	outcome := <-c.release
	atomic.AddInt64(&g.activity, 1)
	if outcome == "hold" {
		r, tag, st, err := g.answer(key, off, l, etag, "ok")
		g.mu.Lock()
		c.held = true
		g.pending = append(g.pending, c)
		g.mu.Unlock()
		atomic.AddInt64(&g.activity, 1)
		<-c.release
		atomic.AddInt64(&g.activity, 1)
		return r, tag, st, err
	}
	if ctx.Err() != nil { // a bucket honours the context of the call (the HTTP and cloud backends do): the caller went away
		return nil, "", 499, ctx.Err()
	}
	return g.answer(key, off, l, etag, outcome)
}

// answer: what the bucket says at this instant
func (g *gateBucket) answer(key string, off, l int64, etag string, outcome string) (io.ReadCloser, string, int, error) {
	g.mu.Lock()
	defer g.mu.Unlock()
	switch outcome {
	case "error":
		return nil, "", 500, fmt.Errorf("injected bucket error")
	case "notfound":
		return nil, "", 404, fmt.Errorf("injected not found")
	case "refresh412":
		return nil, "", 412, &pmtiles.RefreshRequiredError{StatusCode: 412}
	case "refresh416":
		return nil, "", 416, &pmtiles.RefreshRequiredError{StatusCode: 416}
	case "canceled":
		return nil, "", 499, context.Canceled
	case "midstream":
		return &faultReader{n: 3}, "vX", 206, nil
	}
	o, ok := g.objs[key]
	if !ok {
		return nil, "", 404, fmt.Errorf("not found %s", key)
	}
	if etag != "" && etag != o.tag {
		return nil, "", 412, &pmtiles.RefreshRequiredError{StatusCode: 412}
	}
	if off < 0 || l < 0 || off+l < off { // a corrupted header can ask for anything: the local backend answers such reads with an error
		return nil, "", 500, fmt.Errorf("invalid range")
	}
	if off >= int64(len(o.data)) {
		return nil, "", 416, &pmtiles.RefreshRequiredError{StatusCode: 416}
	}
	end := off + l
	if end > int64(len(o.data)) {
		end = int64(len(o.data))
	}
	body := o.data[off:end]
	switch {
	case outcome == "short": // a truncation that certainly breaks the object: less than a header / half a directory
		if off == 0 && l == 16384 {
			if len(body) > 100 {
				body = body[:100]
			}
		} else {
			body = body[:len(body)/2]
		}
	case outcome == "empty":
		body = nil
	case outcome == "cutoff": // the transport delivers part of the range and then reports the truncation (what net/http does when a connection drops)
		return &cutReader{b: append([]byte(nil), body[:len(body)/2]...)}, o.tag, 206, nil
	case outcome == "garbage":
		body = bytes.Repeat([]byte{0xa5}, len(body))
	}
	return io.NopCloser(bytes.NewReader(body)), o.tag, 206, nil
}

func (g *gateBucket) pendingList() []string {
	g.mu.Lock()
	defer g.mu.Unlock()
	var out []string
	for _, c := range g.pending {
		out = append(out, c.args())
	}
	sort.Strings(out)
	return out
}

// releaseCall lets every call blocked with exactly these arguments proceed with the given outcome. Calls with identical arguments are
// issued by goroutines racing after one loop message, so their order at the gate is not determined by the schedule; releasing them
// together keeps the observable deterministic (readers of one tile are interchangeable, a metadata and a TileJSON reader are not).
func (c *gateCall) args() string {
	a := fmt.Sprintf("%s/%s/%d/%d", strings.TrimSuffix(c.key, ".pmtiles"), c.etag, c.off, c.len)
	if c.held {
		a += "#held"
	}
	return a
}
func (g *gateBucket) releaseCall(args string, outcome string) bool {
	g.mu.Lock()
	var hit []*gateCall
	var rest []*gateCall
	for _, c := range g.pending {
		if c.args() == args {
			hit = append(hit, c)
		} else {
			rest = append(rest, c)
		}
	}
	g.pending = rest
	g.mu.Unlock()
	for _, c := range hit {
		c.release <- outcome
	}
	return len(hit) > 0
}
func (g *gateBucket) releaseAll() {
	g.mu.Lock()
	p := g.pending
	g.pending = nil
	g.mu.Unlock()
	for _, c := range p {
		c.release <- "error"
	}
}

// quiet waits until no goroutine that runs server or harness code is runnable.
func waitQuiet(act *int64) bool {
	buf := make([]byte, 1<<22)
	deadline := time.Now().Add(3 * time.Second)
	okCount := 0
	last := int64(-1)
	for time.Now().Before(deadline) {
		runtime.Gosched()
		a := atomic.LoadInt64(act)
		n := runtime.Stack(buf, true)
		if allBlocked(buf[:n]) && a == last {
			okCount++
			if okCount >= 2 {
				return true
			}
		} else {
			okCount = 0
		}
		last = a
		time.Sleep(50 * time.Microsecond)
	}
	return false
}

func allBlocked(stack []byte) bool {
	blocks := bytes.Split(stack, []byte("\n\n"))
	for i, b := range blocks {
		if i == 0 {
			continue // the calling goroutine
		}
		if !bytes.Contains(b, []byte("go-pmtiles/pmtiles")) && !bytes.Contains(b, []byte("verifharness")) && !bytes.Contains(b, []byte("main.")) {
			continue
		}
		nl := bytes.IndexByte(b, '\n')
		if nl < 0 {
			continue
		}
		hdr := string(b[:nl])
		lb := strings.IndexByte(hdr, '[')
		rb := strings.IndexByte(hdr, ']')
		if lb < 0 || rb < lb {
			continue
		}
		state := hdr[lb+1 : rb]
		if j := strings.IndexByte(state, ','); j >= 0 {
			state = state[:j]
		}
		switch state {
		case "chan receive", "chan send", "select", "sync.Cond.Wait", "IO wait", "select (no cases)", "chan receive (nil chan)",
			"sync.WaitGroup.Wait":
			// waiting for other goroutines to finish: it can only move when one of them does, and they are judged on their own state.
			// (A goroutine parked on a MUTEX is not counted as blocked: the holder may be the observing goroutine itself - a request
			// that is about to record its completion under the harness's lock - and then the system is not quiescent.)
		case "semacquire":
			// go1.23 parks WaitGroup.Wait under this reason, but so does the runtime for its own semaphores (a goroutine about to
			// start a collection waits for the world semaphore that the observer's runtime.Stack call is holding): only the
			// WaitGroup wait is a wait for other goroutines of the system under observation.
			if !bytes.Contains(b, []byte("sync.(*WaitGroup).Wait")) {
				return false
			}
		default:
			return false
		}
	}
	return true
}

// ---- versions of archives
type srvVersion struct {
	id    int
	name  int
	tag   int
	arch  *Archive
	ext   int
	reqEx int
}

func extCode(s string) int {
	switch s {
	case "mvt":
		return 1
	case "png":
		return 2
	case "jpg":
		return 3
	case "webp":
		return 4
	case "avif":
		return 5
	}
	return 9
}

func (v *srvVersion) defStr() string {
	a := v.arch
	req := 0
	if a.H.TileType >= 1 && a.H.TileType <= 5 {
		req = int(a.H.TileType)
	}
	_, mb := v.pathAnswer("meta")
	_, jb := v.pathAnswer("json")
	return fmt.Sprintf("%d %d %d %d %d %d %d %d %d %d %s %s %d %d %s %s %s", v.id, v.name, v.tag, a.H.MinZoom, a.H.MaxZoom, req, a.H.RootOff, a.H.RootLen, a.H.LeafOff, a.H.DataOff, a.dirsStr(), hx(a.Bytes),
		a.H.MetaOff, a.H.MetaLen, hx(mb), hx(jb), hx([]byte(v.hdrsOf(""))))
}

// hdrsOf: the content headers a server that only ever saw this version sends with a 200 (tile type and tile compression of ITS header)
func (v *srvVersion) hdrsOf(kind string) string {
	if kind != "" {
		return "application/json|"
	}
	ct := map[uint8]string{1: "application/x-protobuf", 2: "image/png", 3: "image/jpeg", 4: "image/webp", 5: "image/avif"}[v.arch.H.TileType]
	ce := map[uint8]string{2: "gzip", 3: "br", 4: "zstd"}[v.arch.H.TileComp]
	return ct + "|" + ce
}

// answerOf: what an uncached, single-version lookup answers (the harness's own reader over its own ground truth)
func (v *srvVersion) answerOf(z, x, y uint64, ext int) (int, []byte) {
	a := v.arch
	if z < uint64(a.H.MinZoom) || z > uint64(a.H.MaxZoom) {
		return 404, nil
	}
	if a.H.TileType >= 1 && a.H.TileType <= 5 && ext != int(a.H.TileType) {
		return 400, nil
	}
	id := pmtiles.ZxyToID(uint8(z), uint32(x), uint32(y))
	if b, ok := a.truth(id); ok {
		return 200, b
	}
	return 204, nil
}

type srvReq struct {
	hdrs       string // Content-Type|Content-Encoding of the response
	kind       string // "" = tile request, "meta" = /name/metadata, "json" = /name.json
	rid        int
	name       int
	z, x, y    uint64
	ext        int
	startStep  int
	endStep    int
	status     int
	body       []byte
	done       bool
	versionsAt []int // version ids current for the archive at some step in [start,end]
}

type srvRun struct {
	gate     *gateBucket
	srv      *pmtiles.Server
	mu       sync.Mutex
	doneCh   []*srvReq
	reqs     []*srvReq
	versions []*srvVersion
	current  map[int]*srvVersion // name -> version (nil = deleted)
	history  map[int][]struct{ step, vid int }
	steps    []string
	obs      []string
	step     int
	trace    []string
	traceMu  sync.Mutex
	lastSize int
	cacheMB  int
	limit    int
	sizeViol bool
	viol     []string
	// micro control: when armed, the event loop is held inside the trace sink at its next "req" message until thaw()
	freezeArmed int32
	frozen      int32
	freeze      chan struct{}
}

func (sr *srvRun) armFreeze() { atomic.StoreInt32(&sr.freezeArmed, 1) }
func (sr *srvRun) thaw() {
	if atomic.LoadInt32(&sr.frozen) == 1 {
		atomic.StoreInt32(&sr.frozen, 0)
		sr.freeze <- struct{}{}
	}
}

var extNames = map[int]string{1: "mvt", 2: "png", 3: "jpg", 4: "webp", 5: "avif", 9: "bin"}

func newSrvRun(cacheMB int) *srvRun {
	sr := &srvRun{gate: newGate(), current: map[int]*srvVersion{}, history: map[int][]struct{ step, vid int }{}, freeze: make(chan struct{})}
	pmtiles.VerifSetTraceSink(func(s string) { // the values the loop writes to the cache gauges
		if strings.HasPrefix(s, "req ") && atomic.CompareAndSwapInt32(&sr.freezeArmed, 1, 0) {
			atomic.StoreInt32(&sr.frozen, 1)
			atomic.AddInt64(&sr.gate.activity, 1)
			<-sr.freeze // the loop goroutine waits here: nothing is taken from the request channel meanwhile
			atomic.AddInt64(&sr.gate.activity, 1)
		}
		var v int
		sr.traceMu.Lock()
		if _, err := fmt.Sscanf(s, "stat limit %d", &v); err == nil {
			sr.limit = v
		}
		if _, err := fmt.Sscanf(s, "stat size %d", &v); err == nil {
			sr.lastSize = v
			if sr.limit > 0 && v >= sr.limit {
				sr.sizeViol = true
			}
		}
		sr.traceMu.Unlock()
	})
	srv, _ := pmtiles.NewServerWithBucket(sr.gate, "", quietLogger, cacheMB, "http://pub")
	sr.cacheMB = cacheMB
	sr.srv = srv
	srv.Start()
	return sr
}

func (sr *srvRun) observe() string {
	if !waitQuiet(&sr.gate.activity) {
		sr.viol = append(sr.viol, fmt.Sprintf("step %d: the server did not become quiescent within 3s", sr.step))
	}
	calls := sr.gate.pendingList()
	sr.mu.Lock()
	var dn []string
	for _, r := range sr.doneCh {
		body := "-" // bodies of data-less answers are error texts: not part of the observable
		if r.status == 200 {
			body = hx(r.body) + ":" + r.hdrs
		}
		dn = append(dn, fmt.Sprintf("%d:%s", r.status, body)) // without the request id: readers blocked in identical calls are interchangeable
		r.endStep = sr.step
	}
	sr.doneCh = nil
	sr.mu.Unlock()
	sort.Strings(dn)
	// the reported cache size is judged by the oracle (it must stay below the limit); how many bytes an entry is accounted at is
	// not fixed by the property, so the exact figure is not part of the observable compared with the model
	return fmt.Sprintf("calls=[%s] done=[%s]", strings.Join(calls, ","), strings.Join(dn, ","))
}

func (sr *srvRun) install(v *srvVersion) {
	sr.gate.mu.Lock()
	sr.gate.objs[fmt.Sprintf("a%d.pmtiles", v.name)] = gateVer{v.arch.Bytes, fmt.Sprintf("v%d", v.tag)}
	sr.gate.mu.Unlock()
	sr.current[v.name] = v
	sr.history[v.name] = append(sr.history[v.name], struct{ step, vid int }{sr.step, v.id})
	sr.steps = append(sr.steps, fmt.Sprintf("X %d", v.id))
	sr.obs = append(sr.obs, sr.observe())
	sr.step++
}
func (sr *srvRun) remove(name int) {
	sr.gate.mu.Lock()
	delete(sr.gate.objs, fmt.Sprintf("a%d.pmtiles", name))
	sr.gate.mu.Unlock()
	sr.current[name] = nil
	sr.history[name] = append(sr.history[name], struct{ step, vid int }{sr.step, -1})
	sr.steps = append(sr.steps, fmt.Sprintf("D %d", name))
	sr.obs = append(sr.obs, sr.observe())
	sr.step++
}
func (sr *srvRun) start(name int, z, x, y uint64, ext int) {
	sr.startCtx(context.Background(), name, z, x, y, ext)
}
func (sr *srvRun) startCtx(ctx context.Context, name int, z, x, y uint64, ext int) {
	r := &srvReq{rid: len(sr.reqs), name: name, z: z, x: x, y: y, ext: ext, startStep: sr.step}
	sr.reqs = append(sr.reqs, r)
	path := fmt.Sprintf("/a%d/%d/%d/%d.%s", name, z, x, y, extNames[ext])
	atomic.AddInt64(&sr.gate.activity, 1)
	go func() {
		st, hd, body := sr.srv.Get(ctx, path)
		sr.mu.Lock()
		r.status, r.body, r.done = st, body, true
		r.hdrs = hd["Content-Type"] + "|" + hd["Content-Encoding"]
		sr.doneCh = append(sr.doneCh, r)
		sr.mu.Unlock()
		atomic.AddInt64(&sr.gate.activity, 1)
	}()
	sr.steps = append(sr.steps, fmt.Sprintf("S %d %d %d %d %d %d", r.rid, name, z, x, y, ext))
	sr.obs = append(sr.obs, sr.observe())
	sr.step++
}

// startPath starts a metadata or TileJSON request (oracle only: the executable model has tile requests)
func (sr *srvRun) startPath(name int, kind string) {
	r := &srvReq{rid: len(sr.reqs), name: name, kind: kind, startStep: sr.step}
	sr.reqs = append(sr.reqs, r)
	path := fmt.Sprintf("/a%d/metadata", name)
	if kind == "json" {
		path = fmt.Sprintf("/a%d.json", name)
	}
	atomic.AddInt64(&sr.gate.activity, 1)
	go func() {
		st, hd, body := sr.srv.Get(context.Background(), path)
		sr.mu.Lock()
		r.status, r.body, r.done = st, body, true
		r.hdrs = hd["Content-Type"] + "|" + hd["Content-Encoding"]
		sr.doneCh = append(sr.doneCh, r)
		sr.mu.Unlock()
		atomic.AddInt64(&sr.gate.activity, 1)
	}()
	sr.steps = append(sr.steps, fmt.Sprintf("P %d %d %d", r.rid, name, map[string]int{"meta": 1, "json": 2}[kind]))
	sr.obs = append(sr.obs, sr.observe())
	sr.step++
}

// what a server that only ever saw this version answers on the metadata / TileJSON endpoint: the archive's JSON metadata
// unchanged, and the TileJSON built from this version's header and metadata
func (v *srvVersion) pathAnswer(kind string) (int, []byte) {
	a := v.arch
	meta := a.Meta
	if a.H.IntComp == 2 {
		meta, _ = gunz(meta)
	}
	if kind == "meta" {
		return 200, meta
	}
	h, err := pmtiles.DeserializeHeader(a.Bytes[:127])
	if err != nil {
		return 500, nil
	}
	tj, err := pmtiles.CreateTileJSON(h, meta, fmt.Sprintf("http://pub/a%d", v.name))
	if err != nil {
		return 500, nil
	}
	return 200, tj
}

func tagNum(etag string) int {
	n := 0
	fmt.Sscanf(etag, "v%d", &n)
	return n
}
func (sr *srvRun) release(args string, outcome string) {
	if !sr.gate.releaseCall(args, outcome) {
		return
	}
	p := strings.Split(args, "/")
	suffix := ""
	if outcome != "ok" {
		suffix = " " + outcome
	}
	sr.steps = append(sr.steps, fmt.Sprintf("R %s %d %s %s%s", strings.TrimPrefix(p[0], "a"), tagNum(p[1]), p[2], p[3], suffix))
	sr.obs = append(sr.obs, sr.observe())
	sr.step++
}

func (sr *srvRun) caseLine(cacheMB int) string {
	var sb strings.Builder
	fmt.Fprintf(&sb, "srv %d %d", cacheMB, len(sr.versions))
	for _, v := range sr.versions {
		sb.WriteString(" " + v.defStr())
	}
	fmt.Fprintf(&sb, " E %d", len(sr.steps))
	for _, s := range sr.steps {
		sb.WriteString(" ; " + s)
	}
	return sb.String()
}
func (sr *srvRun) implLine() string { return strings.Join(sr.obs, " | ") }

// versionsDuring: the version ids that were current for an archive at some step in [from,to] (-1 = absent)
func (sr *srvRun) versionsDuring(name, from, to int) []int {
	h := sr.history[name]
	var out []int
	cur := -1
	for _, e := range h {
		if e.step <= from {
			cur = e.vid
		}
	}
	out = append(out, cur)
	for _, e := range h {
		if e.step > from && e.step <= to {
			out = append(out, e.vid)
		}
	}
	return out
}
func (sr *srvRun) versionsUpTo(name, to int) []int {
	var out []int
	out = append(out, -1)
	for _, e := range sr.history[name] {
		if e.step <= to {
			out = append(out, e.vid)
		}
	}
	return out
}
func (sr *srvRun) replacedDuring(name, from, to int) bool {
	for _, e := range sr.history[name] {
		if e.step > from && e.step <= to {
			return true
		}
	}
	return false
}

// checkResponses: the C08/C09 oracle on the implementation alone.
func (sr *srvRun) checkResponses(allowFaults bool) {
	for _, r := range sr.reqs {
		if !r.done {
			sr.viol = append(sr.viol, fmt.Sprintf("request %d never completed", r.rid))
			continue
		}
		if r.kind != "" {
			during := sr.versionsDuring(r.name, r.startStep, r.endStep)
			ok := false
			for _, vid := range during {
				if vid < 0 {
					ok = ok || r.status == 404
					continue
				}
				st, body := sr.versions[vid].pathAnswer(r.kind)
				if st == r.status && bytes.Equal(body, r.body) && (st != 200 || r.hdrs == sr.versions[vid].hdrsOf(r.kind)) {
					ok = true
				}
			}
			switch {
			case ok:
			case r.status >= 500 && (allowFaults || sr.replacedDuring(r.name, r.startStep, r.endStep)):
			default:
				sr.viol = append(sr.viol, fmt.Sprintf("%s request %d for a%d answered %d %s, which no single version current during the request gives", r.kind, r.rid, r.name, r.status, trunc(string(r.body))))
			}
			continue
		}
		matches := func(vids []int) bool {
			for _, vid := range vids {
				if vid < 0 {
					if r.status == 404 {
						return true
					}
					continue
				}
				st, body := sr.versions[vid].answerOf(r.z, r.x, r.y, r.ext)
				if st == r.status && (st != 200 || (bytes.Equal(body, r.body) && r.hdrs == sr.versions[vid].hdrsOf(""))) {
					return true
				}
			}
			return false
		}
		switch {
		case r.status == 200:
			if !matches(sr.versionsDuring(r.name, r.startStep, r.endStep)) {
				sr.viol = append(sr.viol, fmt.Sprintf("request %d (a%d %d/%d/%d) answered 200 with bytes %s and content headers %s that no single version current during the request gives", r.rid, r.name, r.z, r.x, r.y, trunc(hx(r.body)), r.hdrs))
			}
		case r.status == 204 || r.status == 404 || r.status == 400:
			if !matches(sr.versionsUpTo(r.name, r.endStep)) {
				sr.viol = append(sr.viol, fmt.Sprintf("request %d (a%d %d/%d/%d) answered %d, which no version current up to the end of the request gives", r.rid, r.name, r.z, r.x, r.y, r.status))
			}
		case r.status >= 500:
			deleted := false // a deleted archive cannot be served; C08 speaks about replacements, and a failure is not a misstatement
			for _, e := range sr.history[r.name] {
				if e.vid < 0 && e.step <= r.endStep {
					deleted = true
				}
			}
			if !allowFaults && !deleted && !sr.replacedDuring(r.name, r.startStep, r.endStep) {
				sr.viol = append(sr.viol, fmt.Sprintf("request %d failed with %d although its archive was not replaced during the request", r.rid, r.status))
			}
		default:
			sr.viol = append(sr.viol, fmt.Sprintf("request %d: unexpected status %d", r.rid, r.status))
		}
	}
}
