package main

import (
	"bytes"
	"context"
	"fmt"
	"io"
	"net"
	"net/http"
	"net/http/httptest"
	"os"
	"path/filepath"
	"strings"
	"sync"
	"time"

	"github.com/protomaps/go-pmtiles/pmtiles"
)

func init() {
	props["C18"] = c18
	replays["C18"] = c18run
}

// an RFC 7232/7233 origin serving named objects with content-hash ETags (net/http.ServeContent does the work)
type origin struct {
	mu      sync.Mutex
	objs    map[string][]byte
	fault   string // "", "reset", "status NNN"
	srv     *httptest.Server
	log     []string
	partial int
	// stagger: every other single-range request gets its headers and the first half of the body at once and the rest only after
	// another request has completed (or 10 ms): concurrent downloads then finish in an order other than the one they began in
	stagger  bool
	ranged   int
	finished int
}

func newOrigin() *origin {
	o := &origin{objs: map[string][]byte{}}
	o.srv = httptest.NewServer(http.HandlerFunc(func(w http.ResponseWriter, r *http.Request) {
		o.mu.Lock()
		fault := o.fault
		b, ok := o.objs[strings.TrimPrefix(r.URL.Path, "/")]
		o.log = append(o.log, r.Method+" "+r.URL.Path+" "+r.Header.Get("Range"))
		o.mu.Unlock()
		switch {
		case fault == "reset":
			if hj, okh := w.(http.Hijacker); okh {
				c, _, _ := hj.Hijack()
				if tc, okt := c.(*net.TCPConn); okt {
					tc.SetLinger(0)
				}
				c.Close()
				return
			}
		case strings.HasPrefix(fault, "status "):
			var st int
			fmt.Sscanf(fault, "status %d", &st)
			w.WriteHeader(st)
			return
		}
		if !ok {
			http.NotFound(w, r)
			return
		}
		w.Header().Set("ETag", fmt.Sprintf(`"%x"`, simpleHash(b)))
		o.mu.Lock()
		stag := o.stagger
		o.mu.Unlock()
		var lo, hi int
		if n, _ := fmt.Sscanf(r.Header.Get("Range"), "bytes=%d-%d", &lo, &hi); stag && n == 2 && !strings.Contains(r.Header.Get("Range"), ",") && lo >= 0 && lo < hi && hi < len(b) && r.Header.Get("If-Match") == "" {
			o.mu.Lock()
			o.ranged++
			mine, seen := o.ranged, o.finished
			o.mu.Unlock()
			body := b[lo : hi+1]
			w.Header().Set("Content-Range", fmt.Sprintf("bytes %d-%d/%d", lo, hi, len(b)))
			w.Header().Set("Content-Length", fmt.Sprintf("%d", len(body)))
			w.WriteHeader(206)
			if mine%2 == 1 {
				w.Write(body[:len(body)/2])
				if f, okf := w.(http.Flusher); okf {
					f.Flush()
				}
				for k := 0; k < 20; k++ {
					o.mu.Lock()
					done := o.finished > seen
					o.mu.Unlock()
					if done {
						time.Sleep(2 * time.Millisecond) // let the client of that request write what it received
						break
					}
					time.Sleep(500 * time.Microsecond)
				}
				w.Write(body[len(body)/2:])
			} else {
				w.Write(body)
			}
			o.mu.Lock()
			o.finished++
			o.mu.Unlock()
			return
		}
		http.ServeContent(w, r, "", time.Time{}, bytes.NewReader(b))
	}))
	return o
}
func simpleHash(b []byte) uint64 {
	h := uint64(1469598103934665603)
	for _, c := range b {
		h = (h ^ uint64(c)) * 1099511628211
	}
	return h ^ uint64(len(b))<<48
}

var c18orig *origin
var c18once sync.Once

func classifyRead(r io.ReadCloser, status int, err error) string {
	if err != nil {
		if rr, ok := err.(*pmtiles.RefreshRequiredError); ok {
			_ = rr
			_ = status // which status code accompanies the error is not part of the property: the class is
			return "refresh"
		}
		return "err"
	}
	b, rerr := io.ReadAll(r)
	r.Close()
	if rerr != nil {
		return "err-read"
	}
	return "ok " + hx(b)
}

// cases:
//
//	read <m|f|h> <objhex|missing> <off> <len> <n|c|s>  -> ok <hex> | refresh <status> | err <status> | crash
//	tags <m|f|h> <n> (<mtime_ns> <contenthex>)*         -> classes <i>*  stale <0|1>*   (tag equality classes over the history; whether a
//	                                                      read conditioned on the previous tag was refused after each replacement)
//	fault <refused|reset|status NNN...>                -> err <status> | refresh <status> | crash
func c18run(line string) (string, []string) {
	c18once.Do(func() { c18orig = newOrigin() })
	t := newToks(line)
	if t.t[0] == "adapter" {
		t.s()
		flavour, objt := t.s(), t.s()
		off, l := int64(t.u()), int64(t.u())
		res, viol := c18adapter(flavour, objt, off, l, t.s())
		if len(viol) == 0 {
			return "ok", nil // judged by the oracle only
		}
		return res, viol
	}
	ctx := context.Background()
	var viol []string
	switch t.s() {
	case "read":
		backend := t.s()
		objTok := t.s()
		off, length := int64(t.u()), int64(t.u())
		cond := t.s()
		var obj []byte
		missing := objTok == "missing"
		if !missing {
			obj = unhx(objTok)
		}
		var bk pmtiles.Bucket
		key := "o.pmtiles"
		var cleanup func()
		switch backend {
		case "m":
			items := map[string][]byte{}
			if !missing {
				items[key] = obj
			}
			bk = pmtiles.VerifNewMockBucket(items)
		case "f":
			dir, _ := os.MkdirTemp("", "vh-c18")
			cleanup = func() { os.RemoveAll(dir) }
			if !missing {
				os.WriteFile(filepath.Join(dir, key), obj, 0o644)
			}
			b, err := pmtiles.OpenBucket(ctx, "file://"+dir, "")
			if err != nil {
				return "err open", nil
			}
			bk = b
		case "h":
			c18orig.mu.Lock()
			c18orig.fault = ""
			delete(c18orig.objs, key)
			if !missing {
				c18orig.objs[key] = obj
			}
			c18orig.mu.Unlock()
			b, _ := pmtiles.OpenBucket(ctx, c18orig.srv.URL, "")
			bk = b
		}
		if cleanup != nil {
			defer cleanup()
		}
		etag := ""
		switch cond {
		case "c":
			_, cur, _, err := bk.NewRangeReaderEtag(ctx, key, 0, 1, "")
			if err == nil {
				etag = cur
			} else if !missing && len(obj) > 0 {
				return "err precondition", []string{"cannot obtain the current tag: " + err.Error()}
			} else {
				etag = `"stale"`
			}
			if missing || len(obj) == 0 {
				// no current tag obtainable through a read; skip these combinations
			}
		case "s":
			etag = `"0123456789abcdef"`
		}
		r, _, status, err := bk.NewRangeReaderEtag(ctx, key, off, length, etag)
		res := classifyRead(r, status, err)
		// oracle: the property on the implementation alone
		if !missing && cond != "s" && off < int64(len(obj)) && (backend != "h" || length >= 1) {
			end := off + length
			if end > int64(len(obj)) {
				end = int64(len(obj))
			}
			if want := "ok " + hx(obj[off:end]); res != want {
				viol = append(viol, fmt.Sprintf("backend %s: read [%d,+%d) of a %d-byte object gave %s, want %s", backend, off, length, len(obj), trunc(res), trunc(want)))
			}
		}
		if !missing && cond == "s" && !strings.HasPrefix(res, "refresh") {
			viol = append(viol, "a read conditioned on an outdated tag did not fail with the refresh-required class: "+trunc(res))
		}
		if missing && !strings.HasPrefix(res, "err") {
			viol = append(viol, "missing object not reported as an ordinary error: "+trunc(res))
		}
		return res, viol
	case "tags":
		backend := t.s()
		n := t.n()
		dir, _ := os.MkdirTemp("", "vh-c18t")
		defer os.RemoveAll(dir)
		key := "o.pmtiles"
		items := map[string][]byte{}
		var bk pmtiles.Bucket
		switch backend {
		case "m":
			bk = pmtiles.VerifNewMockBucket(items)
		case "f":
			bk, _ = pmtiles.OpenBucket(ctx, "file://"+dir, "")
		case "h":
			bk, _ = pmtiles.OpenBucket(ctx, c18orig.srv.URL, "")
			c18orig.mu.Lock()
			c18orig.fault = ""
			c18orig.mu.Unlock()
		}
		var tags []string
		var stale []string
		prev := ""
		prevKey := ""
		for i := 0; i < n; i++ {
			mtime := int64(t.u())
			content := unhx(t.s())
			verKey := string(content) // what identifies a version: the content, or (mtime,size) for the local backend
			if backend == "f" {
				verKey = fmt.Sprintf("%d/%d", mtime, len(content))
			}
			switch backend {
			case "m":
				items[key] = content
			case "f":
				p := filepath.Join(dir, key)
				if i%2 == 0 { // rewrite in place
					os.WriteFile(p, content, 0o644)
				} else { // rename over
					os.WriteFile(p+".new", content, 0o644)
					os.Rename(p+".new", p)
				}
				os.Chtimes(p, time.Unix(0, mtime), time.Unix(0, mtime))
			case "h":
				c18orig.mu.Lock()
				c18orig.objs[key] = content
				c18orig.mu.Unlock()
			}
			if prev != "" {
				_, _, _, err := bk.NewRangeReaderEtag(ctx, key, 0, 1, prev)
				_, isRefresh := err.(*pmtiles.RefreshRequiredError)
				stale = append(stale, fmt.Sprint(b2i(isRefresh)))
				if verKey != prevKey && !isRefresh {
					viol = append(viol, fmt.Sprintf("backend %s: the object was replaced (version %d) but a read conditioned on the previous tag was not refused", backend, i))
				}
				if verKey == prevKey && isRefresh {
					viol = append(viol, fmt.Sprintf("backend %s: a read carrying the current tag was refused (version %d)", backend, i))
				}
			}
			prevKey = verKey
			_, tag, _, err := bk.NewRangeReaderEtag(ctx, key, 0, 1, "")
			if err != nil {
				return "err", []string{"unconditioned read failed: " + err.Error()}
			}
			tags = append(tags, tag)
			prev = tag
		}
		cls := map[string]int{}
		var out []string
		for _, tg := range tags {
			if _, ok := cls[tg]; !ok {
				cls[tg] = len(cls)
			}
			out = append(out, fmt.Sprint(cls[tg]))
		}
		return "classes " + strings.Join(out, " ") + " stale " + strings.Join(stale, " "), viol
	case "readbig": // readbig <size> <off> <len>: a range far larger than any transport buffer, over the HTTP backend, from an origin that delivers the second half of the body after the headers and the first half
		size, off, l := t.n(), t.n(), t.n()
		obj := (&rng{s: uint64(size)*131 + uint64(off)}).bytes(size)
		c18orig.mu.Lock()
		c18orig.fault = ""
		c18orig.objs["big"] = obj
		c18orig.stagger = true
		c18orig.mu.Unlock()
		defer func() { c18orig.mu.Lock(); c18orig.stagger = false; c18orig.mu.Unlock() }()
		bk, _ := pmtiles.OpenBucket(ctx, c18orig.srv.URL, "")
		for k := 0; k < 2; k++ { // two reads: every other request is the delayed one
			r, _, st, err := bk.NewRangeReaderEtag(ctx, "big", int64(off), int64(l), "")
			if err != nil {
				viol = append(viol, fmt.Sprintf("HTTP backend: read(%d,%d) of a %d-byte object failed (status %d): %v", off, l, size, st, err))
				break
			}
			got, rerr := io.ReadAll(r)
			r.Close()
			end := off + l
			if end > size {
				end = size
			}
			if rerr != nil || !bytes.Equal(got, obj[off:end]) {
				viol = append(viol, fmt.Sprintf("HTTP backend: read(%d,%d) of a %d-byte object delivered %d of %d bytes (read error: %v)", off, l, size, len(got), end-off, rerr))
				break
			}
		}
		return "ok", viol
	case "fault":
		kind := strings.Join(t.t[t.i:], " ")
		var bk pmtiles.Bucket
		if kind == "refused" {
			ln, _ := net.Listen("tcp", "127.0.0.1:0")
			addr := ln.Addr().String()
			ln.Close()
			bk, _ = pmtiles.OpenBucket(ctx, "http://"+addr, "")
		} else {
			c18orig.mu.Lock()
			c18orig.fault = kind
			c18orig.objs["o.pmtiles"] = []byte("0123456789")
			c18orig.mu.Unlock()
			bk, _ = pmtiles.OpenBucket(ctx, c18orig.srv.URL, "")
		}
		r, _, status, err := bk.NewRangeReaderEtag(ctx, "o.pmtiles", 0, 4, "")
		res := classifyRead(r, status, err)
		c18orig.mu.Lock()
		c18orig.fault = ""
		c18orig.mu.Unlock()
		if strings.HasPrefix(res, "ok") {
			viol = append(viol, "a failed request was reported as success")
		}
		return res, viol
	}
	return "unknown-op", nil
}

func c18(r *rng, tier string, o *out) {
	emit := func(line string, nt bool, tag string) {
		impl, viol := runCase("C18", line)
		if impl == "crash" {
			viol = append(viol, "backend panicked instead of returning an error")
		}
		idx := o.emit(line, impl, nt)
		o.count(tag)
		for _, v := range viol {
			o.violation(idx, v)
		}
	}
	sizes := []int{0, 1, 5, 8}
	if tier == "thorough" {
		sizes = []int{0, 1, 2, 5, 8, 16, 300}
	}
	// the cloud adapter over a stand-in provider driver (Azure and S3 flavours): exact bytes, tags, stale-tag refusals, missing objects
	for _, fl := range []string{"az", "s3"} {
		for _, sz := range []int{1, 5, 8} {
			obj := r.bytes(sz)
			for off := 0; off <= sz+1; off++ {
				for length := 1; length <= sz+2; length += 1 + sz/4 {
					for _, c := range []string{"n", "c", "s"} {
						emit(fmt.Sprintf("adapter %s %s %d %d %s", fl, hx(obj), off, length, c), true, "adapter-"+fl)
					}
				}
			}
		}
		emit(fmt.Sprintf("adapter %s missing 0 4 n", fl), true, "adapter-missing-"+fl)
	}
	for _, sz := range []int{70000, 300000} {
		emit(fmt.Sprintf("readbig %d %d %d", sz, 0, sz), true, "http-large-range")
		emit(fmt.Sprintf("readbig %d %d %d", sz, 1000+r.intn(1000), sz/2), true, "http-large-range")
	}
	for _, b := range []string{"m", "f", "h"} {
		for _, sz := range sizes {
			obj := r.bytes(sz)
			maxo := sz + 3
			if sz > 20 {
				maxo = 6
			}
			for off := 0; off <= maxo; off++ {
				for length := 0; length <= maxo+1; length++ {
					for _, c := range []string{"n", "c", "s"} {
						if c == "c" && sz == 0 {
							continue // no read of an empty object yields a tag on every backend
						}
						if b == "m" && sz == 0 && c != "s" {
							// in-memory backend: offset >= size is 416 even for the empty object
						}
						o2 := off
						if sz > 20 && off >= 3 {
							o2 = sz - 6 + off
						}
						emit(fmt.Sprintf("read %s %s %d %d %s", b, hx(obj), o2, length, c), sz > 0, "read-"+b)
					}
				}
			}
		}
		emit(fmt.Sprintf("read %s missing 0 4 n", b), true, "missing-"+b)
		emit(fmt.Sprintf("read %s missing 3 0 s", b), true, "missing-"+b)
		// replacement histories: same size / different size, mtimes differing by 1ns, within one second, by seconds, or not at all
		nh := 20
		if tier == "thorough" {
			nh = 2000
		}
		for c := 0; c < nh; c++ {
			n := 2 + r.intn(4)
			var sb strings.Builder
			base := int64(1700000000)*1e9 + int64(r.intn(1000))*1e6
			mt := base
			pool := [][]byte{r.bytes(6), r.bytes(6), r.bytes(7)}
			for i := 0; i < n; i++ {
				switch r.intn(5) {
				case 0:
					mt += 1
				case 1:
					mt += 300e6 // same second, other sub-second part
				case 2:
					mt += 2e9
				case 3:
					mt -= 1e9 // clock went backwards
				}
				fmt.Fprintf(&sb, " %d %s", mt, hx(pool[r.intn(len(pool))]))
			}
			emit(fmt.Sprintf("tags %s %d%s", b, n, sb.String()), true, "tags-"+b)
		}
	}
	for _, k := range []string{"refused", "reset", "status 403", "status 404", "status 412", "status 416", "status 500", "status 503", "status 301", "status 204"} {
		emit("fault "+k, true, "fault")
	}
}
