module verifharness

go 1.22.7

require github.com/protomaps/go-pmtiles v0.0.0

replace github.com/protomaps/go-pmtiles => /repo
