module verifharness

go 1.22.7

require (
	github.com/Azure/azure-sdk-for-go/sdk/azcore v1.14.0
	github.com/Azure/azure-sdk-for-go/sdk/storage/azblob v1.3.2
	github.com/RoaringBitmap/roaring v1.5.0
	github.com/aws/aws-sdk-go-v2/service/s3 v1.58.3
	github.com/aws/smithy-go v1.20.3
	github.com/cespare/xxhash/v2 v2.3.0
	github.com/protomaps/go-pmtiles v0.0.0
	gocloud.dev v0.40.0
	zombiezen.com/go/sqlite v1.1.2
)

require (
	cloud.google.com/go v0.115.0 // indirect
	cloud.google.com/go/auth v0.8.1 // indirect
	cloud.google.com/go/auth/oauth2adapt v0.2.4 // indirect
	cloud.google.com/go/compute/metadata v0.5.0 // indirect
	cloud.google.com/go/iam v1.1.13 // indirect
	cloud.google.com/go/storage v1.43.0 // indirect
	github.com/Azure/azure-sdk-for-go/sdk/internal v1.10.0 // indirect
	github.com/aws/aws-sdk-go-v2 v1.30.3 // indirect
	github.com/aws/aws-sdk-go-v2/aws/protocol/eventstream v1.6.3 // indirect
	github.com/aws/aws-sdk-go-v2/internal/configsources v1.3.15 // indirect
	github.com/aws/aws-sdk-go-v2/internal/endpoints/v2 v2.6.15 // indirect
	github.com/aws/aws-sdk-go-v2/internal/v4a v1.3.15 // indirect
	github.com/aws/aws-sdk-go-v2/service/internal/accept-encoding v1.11.3 // indirect
	github.com/aws/aws-sdk-go-v2/service/internal/checksum v1.3.17 // indirect
	github.com/aws/aws-sdk-go-v2/service/internal/presigned-url v1.11.17 // indirect
	github.com/aws/aws-sdk-go-v2/service/internal/s3shared v1.17.15 // indirect
	github.com/beorn7/perks v1.0.1 // indirect
	github.com/dustin/go-humanize v1.0.1 // indirect
	github.com/felixge/httpsnoop v1.0.4 // indirect
	github.com/go-logr/logr v1.4.2 // indirect
	github.com/go-logr/stdr v1.2.2 // indirect
	github.com/golang/groupcache v0.0.0-20210331224755-41bb18bfe9da // indirect
	github.com/google/s2a-go v0.1.8 // indirect
	github.com/google/uuid v1.6.0 // indirect
	github.com/googleapis/enterprise-certificate-proxy v0.3.2 // indirect
	github.com/googleapis/gax-go/v2 v2.13.0 // indirect
	github.com/mattn/go-isatty v0.0.20 // indirect
	github.com/mattn/go-runewidth v0.0.14 // indirect
	github.com/mitchellh/colorstring v0.0.0-20190213212951-d06e56a500db // indirect
	github.com/ncruces/go-strftime v0.1.9 // indirect
	github.com/paulmach/orb v0.10.0 // indirect
	github.com/prometheus/client_golang v1.19.1 // indirect
	github.com/prometheus/client_model v0.5.0 // indirect
	github.com/prometheus/common v0.48.0 // indirect
	github.com/prometheus/procfs v0.12.0 // indirect
	github.com/remyoudompheng/bigfft v0.0.0-20230129092748-24d4a6f8daec // indirect
	github.com/rivo/uniseg v0.2.0 // indirect
	github.com/rs/cors v1.11.1 // indirect
	github.com/schollz/progressbar/v3 v3.13.1 // indirect
	go.mongodb.org/mongo-driver v1.11.4 // indirect
	go.opencensus.io v0.24.0 // indirect
	go.opentelemetry.io/contrib/instrumentation/google.golang.org/grpc/otelgrpc v0.53.0 // indirect
	go.opentelemetry.io/contrib/instrumentation/net/http/otelhttp v0.53.0 // indirect
	go.opentelemetry.io/otel v1.28.0 // indirect
	go.opentelemetry.io/otel/metric v1.28.0 // indirect
	go.opentelemetry.io/otel/trace v1.28.0 // indirect
	golang.org/x/crypto v0.31.0 // indirect
	golang.org/x/net v0.28.0 // indirect
	golang.org/x/oauth2 v0.22.0 // indirect
	golang.org/x/sync v0.10.0 // indirect
	golang.org/x/sys v0.28.0 // indirect
	golang.org/x/term v0.27.0 // indirect
	golang.org/x/text v0.21.0 // indirect
	golang.org/x/time v0.6.0 // indirect
	golang.org/x/xerrors v0.0.0-20240716161551-93cc26a95ae9 // indirect
	google.golang.org/api v0.191.0 // indirect
	google.golang.org/genproto v0.0.0-20240812133136-8ffd90a71988 // indirect
	google.golang.org/genproto/googleapis/api v0.0.0-20240812133136-8ffd90a71988 // indirect
	google.golang.org/genproto/googleapis/rpc v0.0.0-20240812133136-8ffd90a71988 // indirect
	google.golang.org/grpc v1.65.0 // indirect
	google.golang.org/protobuf v1.34.2 // indirect
	modernc.org/libc v1.41.0 // indirect
	modernc.org/mathutil v1.6.0 // indirect
	modernc.org/memory v1.7.2 // indirect
	modernc.org/sqlite v1.29.1 // indirect
)

replace github.com/protomaps/go-pmtiles => /repo
