package main

import (
	"bufio"
	"bytes"
	"context"
	"fmt"
	"io"
	"net"
	"net/http"
	"net/http/httptest"
	"net/url"
	"os"
	"path/filepath"
	"strings"
	"sync"
	"time"

	"github.com/protomaps/go-pmtiles/pmtiles"
)

func init() {
	props["C11"] = c11
	replays["C11"] = c11run
}

// ---- a served directory with marker archives inside and outside of it
type c11env struct {
	base, served string
	srv          *pmtiles.Server
	rawAddr      string
}

var c11once sync.Once
var c11e *c11env
var c11once2 sync.Once
var c11e2 *c11env

func markerArchive(marker string) []byte {
	data := []byte(marker)
	es := []Ent{{ID: 0, Off: 0, Len: uint32(len(data)), Run: 1}}
	rr := &rng{s: 7}
	a := buildArchive(rr, es, data, archOpts{tree: treeOpts{gzip: true, shorthand: true}, tileType: 2, tileComp: 1, meta: `{"name":"` + marker + `"}`, minZoom: 0, maxZoom: 0})
	return a.Bytes
}

func c11setup() *c11env {
	c11once.Do(func() { c11e = c11build("served") })
	return c11e
}

// the same layout under a served directory whose name has characters that mean something in a URL
func c11setup2() *c11env {
	// cut at the first of these characters, the path names the parent directory
	c11once2.Do(func() { c11e2 = c11build("#1?x=y%41") })
	return c11e2
}

func c11build(servedName string) *c11env {
	var out *c11env
	{
		base, _ := os.MkdirTemp("", "vh-c11")
		e := &c11env{base: base, served: filepath.Join(base, servedName)}
		os.MkdirAll(filepath.Join(e.served, "sub"), 0o755)
		os.MkdirAll(filepath.Join(base, "served-private"), 0o755)
		os.MkdirAll(filepath.Join(base, "other"), 0o755)
		os.WriteFile(filepath.Join(e.served, "in.pmtiles"), markerArchive("MARK-INSIDE-in"), 0o644)
		os.WriteFile(filepath.Join(e.served, "sub", "deep.pmtiles"), markerArchive("MARK-INSIDE-deep"), 0o644)
		os.WriteFile(filepath.Join(base, "outside.pmtiles"), markerArchive("MARK-OUTSIDE-parent"), 0o644)
		os.WriteFile(filepath.Join(base, "served-private", "secret.pmtiles"), markerArchive("MARK-OUTSIDE-sibling"), 0o644)
		os.WriteFile(filepath.Join(base, "other", "x.pmtiles"), markerArchive("MARK-OUTSIDE-other"), 0o644)
		srv, err := pmtiles.NewServer("", e.served, quietLogger, 8, "http://public")
		if err != nil {
			panic(err)
		}
		srv.Start()
		e.srv = srv
		// a real listener mounted exactly like main.go does
		mux := http.NewServeMux()
		mux.HandleFunc("/", func(w http.ResponseWriter, r *http.Request) { srv.ServeHTTP(w, r) })
		ln, err := net.Listen("tcp", "127.0.0.1:0")
		if err != nil {
			panic(err)
		}
		go http.Serve(ln, mux)
		e.rawAddr = ln.Addr().String()
		out = e
	}
	return out
}

func classify(status int, body []byte) string {
	if bytes.Contains(body, []byte("MARK-OUTSIDE")) {
		return fmt.Sprintf("%d escaped", status)
	}
	return "confined"
}

// cases:
//
//	path <hex>            -> tile <namehex> z x y <exthex> | tilejson <namehex> | metadata <namehex> | root | notfound
//	key <hex>             -> local <hex of joined path> | refused        (filepath.IsLocal + filepath.Join("/root/served", key))
//	serve <mode> <hex>    -> confined | <status> escaped                 (mode 0: Server.Get, 1: ServeHTTP, 2: raw bytes to a listener)
func c11run(line string) (string, []string) {
	t := newToks(line)
	switch t.s() {
	case "path":
		p := string(unhx(t.s()))
		if ok, name, z, x, y, ext := pmtiles.VerifParseTilePath(p); ok {
			return fmt.Sprintf("tile %s %d %d %d %s", hx([]byte(name)), z, x, y, hx([]byte(ext))), nil
		}
		if ok, name := pmtiles.VerifParseTilejsonPath(p); ok {
			return "tilejson " + hx([]byte(name)), nil
		}
		if ok, name := pmtiles.VerifParseMetadataPath(p); ok {
			return "metadata " + hx([]byte(name)), nil
		}
		if p == "/" {
			return "root", nil
		}
		return "notfound", nil
	case "key":
		k := string(unhx(t.s()))
		if !filepath.IsLocal(k) {
			return "refused", nil
		}
		return "local " + hx([]byte(filepath.Join("/root/served", k))), nil
	case "serve":
		mode := t.n()
		p := string(unhx(t.s()))
		e := c11setup()
		if mode >= 3 { // modes 3..5: the same three entry points on a served directory with URL-significant characters in its name
			e = c11setup2()
			mode -= 3
		}
		var res string
		switch mode {
		case 0:
			st, _, body := e.srv.Get(context.Background(), p)
			res = classify(st, body)
		case 1:
			rec := httptest.NewRecorder()
			req := httptest.NewRequest("GET", "http://x/", nil)
			req.URL = &url.URL{Path: p}
			e.srv.ServeHTTP(rec, req)
			res = classify(rec.Code, rec.Body.Bytes())
		case 2:
			conn, err := net.DialTimeout("tcp", e.rawAddr, 2*time.Second)
			if err != nil {
				return "confined", []string{"cannot connect to the listener"}
			}
			defer conn.Close()
			conn.SetDeadline(time.Now().Add(3 * time.Second))
			fmt.Fprintf(conn, "GET %s HTTP/1.1\r\nHost: x\r\nConnection: close\r\n\r\n", p)
			resp, err := http.ReadResponse(bufio.NewReader(conn), nil)
			if err != nil {
				res = "confined" // the http library rejected the request line
			} else {
				body, _ := io.ReadAll(resp.Body)
				res = classify(resp.StatusCode, body)
			}
		}
		var viol []string
		if strings.HasSuffix(res, "escaped") {
			viol = append(viol, fmt.Sprintf("request path %q (mode %d) returned data of a file outside the served directory", p, mode))
		}
		return res, viol
	}
	return "unknown-op", nil
}

func c11(r *rng, tier string, o *out) {
	np, ns := 3000, 500
	if tier == "thorough" {
		np, ns = 300000, 20000
	}
	emit := func(line string, nt bool, tag string) {
		impl, viol := runCase("C11", line)
		idx := o.emit(line, impl, nt)
		o.count(tag)
		for _, v := range viol {
			o.violation(idx, v)
		}
	}
	segs := []string{"a", "in", "sub", "deep", "..", ".", "", "%2e%2e", "%2e", "..%2f", "%2f", "%5c", "outside", "served-private", "secret", "other", "x", "served",
		"A-Z_0", "we!rd$&'()*+,;=", "sp ace", "tilde~", "back`tick", "{x}", "caf\xc3\xa9", "\xff", "a.b", "9", "%252e%252e", "%252f"}
	ends := []string{"/0/0/0.png", "/metadata", ".json", "/1/2/3.mvt", "/0/0/0.PNG", "/0/0/0.", "/0/0/0", "/999/4294967296/18446744073709551616.pbf", "/00/007/0000.png", "/-1/0/0.png", "/0/0/0.p1g", "", "/", "/metadata/", ".json.json"}
	genPath := func() string {
		var sb strings.Builder
		k := 1 + r.intn(4)
		for i := 0; i < k; i++ {
			sb.WriteString("/")
			sb.WriteString(segs[r.intn(len(segs))])
		}
		sb.WriteString(ends[r.intn(len(ends))])
		s := sb.String()
		if r.chance(5) {
			s = s[1:] // no leading slash
		}
		if r.chance(5) {
			b := []byte(s)
			if len(b) > 0 {
				b[r.intn(len(b))] = byte(r.next())
			}
			s = string(b)
		}
		return s
	}
	for c := 0; c < np; c++ {
		emit("path "+hx([]byte(genPath())), true, "path")
	}
	for c := 0; c < np/3; c++ { // keys as the local backend sees them
		var sb strings.Builder
		k := 1 + r.intn(5)
		for i := 0; i < k; i++ {
			if i > 0 || r.chance(10) {
				sb.WriteString("/")
			}
			sb.WriteString([]string{"a", "..", ".", "", "b.c", "...", "..a", "x"}[r.intn(8)])
		}
		sb.WriteString(".pmtiles")
		emit("key "+hx([]byte(sb.String())), true, "key")
	}
	// hostile requests against the served directory, three entry points
	targets := []string{"/../outside", "/../served-private/secret", "/sub/../../outside", "/x/../../served-private/secret", "/../other/x", "/..%2foutside", "/%2e%2e/outside",
		"/%2e%2e%2foutside", "/%252e%252e%252foutside", "/..%252foutside", "/./../outside", "//../outside", "/../served/../outside", "/in/../../outside", "/%2e%2e/served-private/secret",
		"/..\\outside", "/..%5coutside", "/in", "/sub/deep", "/sub/../in", "/./in"}
	suff := []string{"/0/0/0.png", "/metadata", ".json"}
	for c := 0; c < ns; c++ {
		p := targets[r.intn(len(targets))]
		if r.chance(30) {
			p = genPath()
			p = strings.TrimSuffix(p, ends[0])
		}
		p += suff[r.intn(len(suff))]
		mode := r.intn(3)
		if c%4 == 3 {
			mode += 3
			if c%8 == 3 { // with the bucket root cut short at '#' or '?', files beside the served directory are plain names
				p = []string{"/outside", "/other/x", "/served-private/secret", "/in"}[r.intn(4)] + suff[r.intn(len(suff))]
			}
		}
		emit(fmt.Sprintf("serve %d %s", mode, hx([]byte(p))), true, fmt.Sprintf("serve-mode%d", mode))
	}
}
