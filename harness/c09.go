package main

import (
	"bytes"
	"context"
	"fmt"
	"os"
	"path/filepath"
	"strings"
	"time"

	"github.com/protomaps/go-pmtiles/pmtiles"
)

func init() {
	props["C09"] = c09
	replays["C09"] = srvReplay
	props["C08"] = c08
	replays["C08"] = srvReplay
}

// genVersion builds one version of archive `name`.
func genVersion(r *rng, id, name, tag int, big bool) *srvVersion {
	ne := 1 + r.intn(10)
	es, dl := genEntries(r, entOpts{n: ne, maxGapLog: 4, runs: true, shared: true})
	data := r.bytes(int(dl))
	depth := r.intn(3)
	tt := uint8(1 + r.intn(5))
	zmax, _, _ := pmtiles.IDToZxy(es[len(es)-1].ID + uint64(es[len(es)-1].Run))
	a := buildArchive(r, es, data, archOpts{tree: treeOpts{depth: depth, fan: 1 + r.intn(4), gzip: r.chance(50), shorthand: true, mixed: r.chance(30)},
		tileType: tt, tileComp: uint8(1 + r.intn(4)), meta: fmt.Sprintf(`{"v":%d}`, tag), minZoom: 0, maxZoom: zmax, pad: r.intn(3) * 7})
	return &srvVersion{id: id, name: name, tag: tag, arch: a}
}

// pickQuery: a tile request that is interesting for this version (inside/outside runs, other zoom, wrong extension)
func pickQuery(r *rng, v *srvVersion) (z, x, y uint64, ext int) {
	es := v.arch.Ents
	e := es[r.intn(len(es))]
	id := e.ID + uint64(r.intn(int(e.Run)+1))
	if r.chance(10) {
		id = es[len(es)-1].ID + 50
	}
	zz, xx, yy := pmtiles.IDToZxy(id)
	ext = int(v.arch.H.TileType)
	if r.chance(7) {
		ext = 1 + (ext % 5)
	}
	return uint64(zz), uint64(xx), uint64(yy), ext
}

// drive runs requests to completion under random release order; replace(step) may perform replacements.
func drive(r *rng, sr *srvRun, nreq int, names []int, between func()) {
	started := 0
	guard := 0
	for guard < 400 {
		guard++
		pend := sr.gate.pendingList()
		alldone := started == nreq
		if alldone {
			for _, q := range sr.reqs {
				if !q.done {
					alldone = false
				}
			}
		}
		if alldone && len(pend) == 0 {
			break
		}
		canStart := started < nreq
		switch {
		case canStart && (len(pend) == 0 || r.chance(45)):
			name := names[r.intn(len(names))]
			v := sr.current[name]
			if r.chance(15) {
				sr.startPath(name, []string{"meta", "json"}[r.intn(2)])
			} else if v == nil { // deleted: ask for anything
				sr.start(name, 0, 0, 0, 2)
			} else {
				z, x, y, ext := pickQuery(r, v)
				sr.start(name, z, x, y, ext)
			}
			started++
		case len(pend) > 0:
			if between != nil && r.chance(25) {
				between()
				continue
			}
			sr.release(pend[r.intn(len(pend))], "ok")
		default:
			if !canStart {
				// nothing pending, requests outstanding: the server is stuck
				sr.viol = append(sr.viol, "requests outstanding but no bucket call is pending (a request can never complete)")
				guard = 1000
			}
		}
	}
	if guard >= 400 && guard < 1000 {
		sr.viol = append(sr.viol, "schedule did not finish within 400 steps")
	}
	sr.gate.releaseAll()
}

func finishRun(o *out, prop string, sr *srvRun, cacheMB int, nontrivial bool, tag string) {
	line := sr.caseLine(cacheMB)
	idx := o.emit(line, sr.implLine(), nontrivial)
	o.count(tag)
	for _, v := range sr.viol {
		o.violation(idx, v)
	}
}

// coalescing: no two blocked directory/header fetches with identical arguments at the same time
func (sr *srvRun) checkCoalescing() {
	for i, ob := range sr.obs {
		c := ob[strings.Index(ob, "[")+1 : strings.Index(ob, "]")]
		if c == "" {
			continue
		}
		seen := map[string]bool{}
		for _, call := range strings.Split(c, ",") {
			p := strings.Split(call, "/")
			var name, off int
			fmt.Sscanf(p[0], "a%d", &name)
			fmt.Sscanf(p[2], "%d", &off)
			isFetch := true
			if p[1] != "" { // conditional reads of tile data and of the metadata section are per request: not coalesced by design
				for _, v := range sr.versions {
					if v.name == name && v.tag == tagNum(p[1]) && (uint64(off) >= v.arch.H.DataOff || uint64(off) == v.arch.H.MetaOff) {
						isFetch = false
					}
				}
			}
			if isFetch && seen[call] {
				sr.viol = append(sr.viol, fmt.Sprintf("step %d: two bucket calls for the same header/directory are outstanding at once (%s): the fetch was not shared", i, call))
			}
			seen[call] = true
		}
	}
}

// srvsize <seed> <nentries> <cacheMB>: a root directory accounted at more than the cache limit (24 bytes per entry),
// served with the smallest accepted cache size; responses must stay correct and the reported size below the limit.
// Oracle only (the executable model has no byte accounting yet).   -> ok
func c09size(seed uint64, ne int, cacheMB int) *srvRun {
	rr := &rng{s: seed}
	es := make([]Ent, ne)
	data := rr.bytes(64)
	base := hilBase(8)
	for i := range es {
		es[i] = Ent{ID: base + uint64(i), Off: uint64(i%4) * 16, Len: 16, Run: 1}
	}
	a := buildArchive(rr, es, data, archOpts{tree: treeOpts{depth: 0, gzip: true, shorthand: true}, tileType: 2, tileComp: 1, meta: "{}", minZoom: 0, maxZoom: 9})
	small := genVersion(rr, 1, 1, 2, false)
	sr := newSrvRun(cacheMB)
	v0 := &srvVersion{id: 0, name: 0, tag: 1, arch: a}
	sr.versions = append(sr.versions, v0, small)
	sr.install(v0)
	sr.install(small)
	drive(rr, sr, 6, []int{0, 1, 0}, nil)
	sr.checkResponses(false)
	if sr.sizeViol {
		sr.viol = append(sr.viol, fmt.Sprintf("reported directory cache size is not below the limit %d (a directory of %d entries)", sr.limit, ne))
	}
	return sr
}

// corruptleaf <seed> <gzip>: an archive whose leaf directories do not parse, asked three times for the same tile (the first answer is
// what an uncached lookup gives; the cache must not change it: a failed directory is not something to remember).   Oracle only.
func c09corruptRun(seed uint64, gzipped bool) []string {
	r := &rng{s: seed}
	sr := newSrvRun([]int{64, 1}[seed%2])
	var es []Ent
	var off uint64
	id := hilBase(3)
	for i := 0; i < 12; i++ {
		l := uint32(1 + r.intn(20))
		es = append(es, Ent{ID: id, Off: off, Len: l, Run: 1})
		off += uint64(l)
		id += 1 + uint64(r.intn(3))
	}
	a := buildArchive(r, es, r.bytes(int(off)), archOpts{tree: treeOpts{depth: 1, fan: 1, chunk: 3, gzip: gzipped, shorthand: true}, tileType: 2, tileComp: 1, meta: "{}", minZoom: 0, maxZoom: 5})
	b := append([]byte(nil), a.Bytes...)
	for i := a.H.LeafOff; i < a.H.LeafOff+a.H.LeafLen; i++ {
		b[i] = 0xAA
	}
	a.Bytes = b
	v := &srvVersion{id: 0, name: 0, tag: 1, arch: a}
	sr.versions = append(sr.versions, v)
	sr.install(v)
	e := es[r.intn(len(es))]
	z, x, y := pmtiles.IDToZxy(e.ID)
	for k := 0; k < 3; k++ {
		sr.start(0, uint64(z), uint64(x), uint64(y), 2)
		for g := 0; g < 40; g++ {
			pend := sr.gate.pendingList()
			if len(pend) == 0 {
				break
			}
			sr.release(pend[0], "ok")
		}
	}
	sr.gate.releaseAll()
	pmtiles.VerifSetTraceSink(nil)
	var viol []string
	first := sr.reqs[0]
	for k, q := range sr.reqs {
		if !q.done {
			viol = append(viol, fmt.Sprintf("request %d for a tile under an unparsable leaf directory never completes", k))
		} else if q.status != first.status || !bytes.Equal(q.body, first.body) {
			viol = append(viol, fmt.Sprintf("unparsable leaf directory: the uncached lookup answers %d, the same request with a warm cache answers %d (request %d): the cache changed the result", first.status, q.status, k))
		}
	}
	return viol
}

// cancelfirst <seed> <where>: two requests for the same tile on a cold cache; the first one's client goes away (its context is
// cancelled) while the fetch both share - the header (where = 0) or the leaf directory (where = 1) - is blocked in the bucket. The
// second request was never cancelled: it must get what an uncached lookup gives.   Oracle only (the LTS has no cancellation).
func c09cancelRun(seed uint64, where int) []string {
	r := &rng{s: seed}
	sr := newSrvRun(64)
	v := genVersion(r, 0, 0, 1, false)
	for tries := 0; tries < 50 && len(v.arch.Dirs) < 2; tries++ { // an archive with a leaf level
		v = genVersion(r, 0, 0, 1, false)
	}
	sr.versions = append(sr.versions, v)
	sr.install(v)
	var e Ent
	for _, d := range v.arch.Dirs { // a tile under a leaf, if there is one
		if d.Depth > 0 && len(d.Ents) > 0 && d.Ents[0].Run > 0 {
			e = d.Ents[0]
		}
	}
	if e.Run == 0 {
		e = v.arch.Ents[0]
	}
	z, x, y := pmtiles.IDToZxy(e.ID)
	ctxA, cancel := context.WithCancel(context.Background())
	defer cancel()
	sr.startCtx(ctxA, 0, uint64(z), uint64(x), uint64(y), 2)
	relAll := func(n int) {
		for g := 0; g < n; g++ {
			pend := sr.gate.pendingList()
			if len(pend) == 0 {
				return
			}
			sr.release(pend[0], "ok")
		}
	}
	if where == 1 {
		relAll(2) // header, root directory: the first request is now blocked in the leaf fetch (if the archive has leaves)
	}
	sr.gate.pendingList()
	sr.start(0, uint64(z), uint64(x), uint64(y), 2) // joins the fetch in flight
	sr.gate.pendingList()
	cancel()
	relAll(40)
	sr.gate.releaseAll()
	pmtiles.VerifSetTraceSink(nil)
	b := sr.reqs[1]
	st, body := v.answerOf(uint64(z), uint64(x), uint64(y), 2)
	if !b.done {
		return []string{"the request that was never cancelled does not complete"}
	}
	if b.status != st || (st == 200 && !bytes.Equal(b.body, body)) {
		return []string{fmt.Sprintf("a request that shared a fetch with a request whose client went away is answered %d; an uncached lookup gives %d (its own context was never cancelled)", b.status, st)}
	}
	return nil
}

func c09(r *rng, tier string, o *out) {
	for c := 0; c < 4; c++ {
		line := fmt.Sprintf("cancelfirst %d %d", r.next()%1000000, c%2)
		impl, viol := runCase("C09", line)
		idx := o.emit(line, impl, true)
		o.count("first-requester-cancelled")
		for _, v := range viol {
			o.violation(idx, v)
		}
	}
	for c := 0; c < 4; c++ {
		line := fmt.Sprintf("corruptleaf %d %d", r.next()%1000000, c%2)
		impl, viol := runCase("C09", line)
		idx := o.emit(line, impl, true)
		o.count("unparsable-leaf-asked-again")
		for _, v := range viol {
			o.violation(idx, v)
		}
	}
	for _, ne := range []int{41000, 42000, 65536} {
		sr := c09size(r.next()%1000, ne, 1)
		finishRun(o, "C09", sr, 1, true, "size-bound")
	}
	n := 150
	if tier == "thorough" {
		n = 5000
	}
	for c := 0; c < n; c++ {
		cacheMB := []int{64, 64, 1}[r.intn(3)]
		sr := newSrvRun(cacheMB)
		m := 1 + r.intn(3)
		var names []int
		for k := 0; k < m; k++ {
			v := genVersion(r, len(sr.versions), k, 1+k, false)
			sr.versions = append(sr.versions, v)
			sr.install(v)
			names = append(names, k)
		}
		if r.chance(15) {
			names = append(names, 7) // an archive that does not exist
		}
		drive(r, sr, 2+r.intn(6), names, nil)
		sr.checkResponses(false)
		sr.checkCoalescing()
		if sr.sizeViol {
			sr.viol = append(sr.viol, fmt.Sprintf("reported cache size reaches the limit %d", sr.limit))
		}
		finishRun(o, "C09", sr, cacheMB, len(sr.reqs) > 2, fmt.Sprintf("archives=%d", m))
	}
	// the same with replacements: an archive is replaced while its header and directories are cached, then several requests run
	// concurrently; their stale conditional reads are refused, each purges and asks again - the refetches must be shared as well
	for c := 0; c < n/2; c++ {
		cacheMB := []int{64, 64, 1}[r.intn(3)]
		sr := newSrvRun(cacheMB)
		nextTag := 1
		v := genVersion(r, 0, 0, nextTag, false)
		nextTag++
		sr.versions = append(sr.versions, v)
		sr.install(v)
		names := []int{0}
		drive(r, sr, 1+r.intn(2), names, nil) // warm the cache
		repl := 0
		replace := func() {
			if repl >= 3 {
				return
			}
			repl++
			v := genVersion(r, len(sr.versions), 0, nextTag, false)
			nextTag++
			sr.versions = append(sr.versions, v)
			sr.install(v)
		}
		replace()
		var between func()
		if r.chance(40) {
			between = replace
		}
		drive(r, sr, 2+r.intn(4), names, between)
		sr.checkResponses(false)
		sr.checkCoalescing()
		if sr.sizeViol {
			sr.viol = append(sr.viol, fmt.Sprintf("reported cache size reaches the limit %d", sr.limit))
		}
		finishRun(o, "C09", sr, cacheMB, true, fmt.Sprintf("warm-then-replaced=%d", repl))
	}
}

// c08systematic: one tile request against one archive name, every placement of up to two replacements among the
// bucket calls of that request (before the k-th release, k = 0..calls), with a cold or warm cache and with or without a
// replacement completed before the request begins. Versions have different layouts and random tile data, so bytes cut
// out of one version at another version's offset are no version's tile.
func c08systematic(r *rng, o *out, sets int) {
	for s := 0; s < sets; s++ {
		mk := func(sr *srvRun, tag int) *srvVersion {
			// every version stores the same tile ids (so a retry finds the tile again) with its own lengths, offsets and bytes,
			// and the same tile type (the extension check uses the cached header and must not end the request early)
			vr := &rng{s: r.s + uint64(tag)*7919}
			ir := &rng{s: r.s + uint64(s)*104729}
			ne := 3 + ir.intn(5)
			var es []Ent
			id, off := uint64(ir.intn(3)), uint64(0)
			for i := 0; i < ne; i++ {
				run := uint32(1 + ir.intn(3))
				l := uint32(1 + vr.intn(40))
				es = append(es, Ent{ID: id, Off: off, Len: l, Run: run})
				off += uint64(l)
				id += uint64(run) + uint64(ir.intn(3))
			}
			zmax, _, _ := pmtiles.IDToZxy(es[len(es)-1].ID + uint64(es[len(es)-1].Run))
			a := buildArchive(vr, es, vr.bytes(int(off)), archOpts{tree: treeOpts{depth: vr.intn(2), fan: 2, gzip: vr.chance(50), shorthand: true},
				tileType: 2, tileComp: uint8(1 + tag%4), meta: fmt.Sprintf(`{"v":%d}`, tag), minZoom: 0, maxZoom: zmax})
			v := &srvVersion{id: len(sr.versions), name: 0, tag: tag, arch: a}
			sr.versions = append(sr.versions, v)
			return v
		}
		for warm := 0; warm < 2; warm++ {
			for pre := 0; pre < 2; pre++ {
				for p1 := 0; p1 <= 7; p1++ {
					for p2 := p1; p2 <= 7; p2++ {
						if p1 == 7 && p2 == 7 && (warm == 0 || pre == 0) && s > 0 {
							continue // no replacement during the request: covered by the random runs
						}
						sr := newSrvRun(64)
						tag := 1
						v := mk(sr, tag)
						sr.install(v)
						if warm == 1 {
							z, x, y, ext := pickQuery(&rng{s: r.s + 11}, v)
							sr.start(0, z, x, y, ext)
							for g := 0; g < 20; g++ {
								pend := sr.gate.pendingList()
								if len(pend) == 0 {
									break
								}
								sr.release(pend[0], "ok")
							}
						}
						if pre == 1 {
							tag++
							v = mk(sr, tag)
							sr.install(v)
						}
						// the request asks for a stored tile of the version current when it starts (first / last / a middle entry by turns)
						es := v.arch.Ents
						e := es[((p1+p2+s)*7+warm+2*pre)%len(es)]
						zz, xx, yy := pmtiles.IDToZxy(e.ID + uint64(e.Run)/2)
						sr.start(0, uint64(zz), uint64(xx), uint64(yy), int(v.arch.H.TileType))
						for k := 0; k < 40; k++ {
							for _, p := range []int{p1, p2} {
								if p == k && p < 7 {
									tag++
									nv := mk(sr, tag)
									sr.install(nv)
								}
							}
							if p1 == k && p2 == k && p1 < 7 { // two replacements at the same point: the second was installed above as well
							}
							pend := sr.gate.pendingList()
							if len(pend) == 0 {
								break
							}
							sr.release(pend[0], "ok")
						}
						sr.gate.releaseAll()
						sr.checkResponses(false)
						finishRun(o, "C08", sr, 64, true, fmt.Sprintf("systematic_warm%d_pre%d", warm, pre))
					}
				}
			}
		}
	}
}

// c08micro: interleavings inside the cache event loop that bucket gating alone cannot produce. The loop is held (through the trace
// sink) while it processes request P's header lookup; meanwhile request Q's stale tile read is released, so Q's retry (which purges
// the stale version) queues up first; when the loop is thawed it serves P's header from the cache, then purges, then sees P's root
// lookup. Both requests began after the replacement completed, so neither may fail.   case: micro <seed> <variant>
func c08microRun(seed uint64, variant int) []string {
	r := &rng{s: seed}
	sr := newSrvRun(64)
	mk := func(tag int) *srvVersion {
		vr := &rng{s: seed + uint64(tag)*7919}
		ir := &rng{s: seed * 31}
		ne := 3 + ir.intn(5)
		var es []Ent
		id, off := uint64(ir.intn(3)), uint64(0)
		for i := 0; i < ne; i++ {
			run := uint32(1 + ir.intn(3))
			l := uint32(1 + vr.intn(40))
			es = append(es, Ent{ID: id, Off: off, Len: l, Run: run})
			off += uint64(l)
			id += uint64(run) + uint64(ir.intn(3))
		}
		for i := 0; i < 9*(tag-1); i++ { // later versions have more entries: a longer root directory
			l := uint32(1 + vr.intn(40))
			es = append(es, Ent{ID: id, Off: off, Len: l, Run: 1})
			off += uint64(l)
			id += 1 + uint64(vr.intn(5))
		}
		zmax, _, _ := pmtiles.IDToZxy(es[len(es)-1].ID + uint64(es[len(es)-1].Run))
		// gzip directories of different lengths: bytes of one version cut at another's root length do not parse
		a := buildArchive(vr, es, vr.bytes(int(off)), archOpts{tree: treeOpts{depth: variant % 2, fan: 2, gzip: true, shorthand: true},
			tileType: 2, tileComp: 1, meta: fmt.Sprintf(`{"v":%d}`, tag), minZoom: 0, maxZoom: zmax, pad: tag * 3})
		v := &srvVersion{id: len(sr.versions), name: 0, tag: tag, arch: a}
		sr.versions = append(sr.versions, v)
		return v
	}
	runAll := func() {
		for g := 0; g < 40; g++ {
			pend := sr.gate.pendingList()
			if len(pend) == 0 {
				break
			}
			sr.release(pend[0], "ok")
		}
	}
	v1 := mk(1)
	sr.install(v1)
	e := v1.arch.Ents[r.intn(len(v1.arch.Ents))]
	z, x, y := pmtiles.IDToZxy(e.ID)
	sr.start(0, uint64(z), uint64(x), uint64(y), 2) // warm
	runAll()
	sr.install(mk(2))                               // the replacement completes here
	sr.start(0, uint64(z), uint64(x), uint64(y), 2) // Q: proceeds on the cached v1 header and directories to its tile read
	pend := sr.gate.pendingList()
	sr.armFreeze()
	e2 := v1.arch.Ents[r.intn(len(v1.arch.Ents))]
	z2, x2, y2 := pmtiles.IDToZxy(e2.ID)
	sr.start(0, uint64(z2), uint64(x2), uint64(y2), 2) // P: the loop is held at P's header lookup
	if len(pend) > 0 {
		sr.release(pend[0], "ok") // Q's tile read: stale -> Q queues its purging retry behind the held loop
	}
	sr.thaw()
	sr.obs = append(sr.obs, sr.observe())
	runAll()
	sr.thaw()
	sr.gate.releaseAll()
	sr.checkResponses(false)
	return sr.viol
}

// held <seed>: a tile read that takes effect before a replacement and returns after it. The cache is warm with v1; request A's
// conditional tile read is answered by the bucket (from v1) but its delivery is held; the replacement v1 -> v2 completes; request B
// for the same tile begins and runs to completion; then A's read is delivered. A overlapped v1 and may answer it; B began after the
// replacement: a 200 must be v2's tile.   Oracle only (in the LTS a read is one step).
func c08heldRun(seed uint64) []string {
	r := &rng{s: seed}
	sr := newSrvRun(64)
	mk := func(tag int) *srvVersion {
		vr := &rng{s: seed + uint64(tag)*7919}
		ir := &rng{s: seed * 31}
		var es []Ent
		id, off := uint64(ir.intn(3)), uint64(0)
		for i := 0; i < 4+ir.intn(4); i++ {
			l := uint32(4 + vr.intn(30))
			es = append(es, Ent{ID: id, Off: off, Len: l, Run: 1})
			off += uint64(l)
			id += 1 + uint64(ir.intn(3))
		}
		zmax, _, _ := pmtiles.IDToZxy(es[len(es)-1].ID + 1)
		a := buildArchive(vr, es, vr.bytes(int(off)), archOpts{tree: treeOpts{depth: 0, fan: 2, gzip: true, shorthand: true}, tileType: 2, tileComp: 1, meta: fmt.Sprintf(`{"v":%d}`, tag), minZoom: 0, maxZoom: zmax})
		v := &srvVersion{id: len(sr.versions), name: 0, tag: tag, arch: a}
		sr.versions = append(sr.versions, v)
		return v
	}
	runAll := func() {
		for g := 0; g < 40; g++ {
			pend := sr.gate.pendingList()
			if len(pend) == 0 {
				return
			}
			for _, c := range pend {
				if !strings.HasSuffix(c, "#held") {
					sr.release(c, "ok")
					break
				}
			}
			if len(pend) == 1 && strings.HasSuffix(pend[0], "#held") {
				return
			}
		}
	}
	v1 := mk(1)
	sr.install(v1)
	e := v1.arch.Ents[r.intn(len(v1.arch.Ents))]
	z, x, y := pmtiles.IDToZxy(e.ID)
	sr.start(0, uint64(z), uint64(x), uint64(y), 2) // warm the cache
	runAll()
	sr.start(0, uint64(z), uint64(x), uint64(y), 2) // A: header and directory from the cache, blocked in its tile read
	pend := sr.gate.pendingList()
	if len(pend) != 1 {
		sr.gate.releaseAll()
		pmtiles.VerifSetTraceSink(nil)
		return nil // not the schedule this run is about
	}
	sr.release(pend[0], "hold") // the bucket answers from v1; the answer is not delivered yet
	sr.gate.pendingList()
	sr.install(mk(2))                               // the replacement completes
	sr.start(0, uint64(z), uint64(x), uint64(y), 2) // B begins after it
	runAll()
	for _, c := range sr.gate.pendingList() { // now A's read returns
		sr.release(c, "ok")
	}
	runAll()
	sr.gate.releaseAll()
	sr.checkResponses(false)
	pmtiles.VerifSetTraceSink(nil)
	return sr.viol
}

// c08metaRun: one metadata or TileJSON request, every placement of up to two replacements among its bucket calls, cold or warm
// cache, with or without a replacement completed beforehand. Versions differ in metadata, zoom range and layout.   case: metasched ...
func c08metaRun(seed uint64, kind string, warm, pre, p1, p2 int) *srvRun {
	sr := newSrvRun(64)
	tag := 0
	mk := func() *srvVersion {
		tag++
		v := genVersion(&rng{s: seed + uint64(tag)*7919}, len(sr.versions), 0, tag, false)
		sr.versions = append(sr.versions, v)
		return v
	}
	runAll := func() {
		for g := 0; g < 40; g++ {
			pend := sr.gate.pendingList()
			if len(pend) == 0 {
				break
			}
			sr.release(pend[0], "ok")
		}
	}
	sr.install(mk())
	if warm == 1 {
		sr.startPath(0, kind)
		runAll()
	}
	if pre == 1 {
		sr.install(mk())
	}
	sr.startPath(0, kind)
	for k := 0; k < 40; k++ {
		for _, p := range []int{p1, p2} {
			if p == k && p < 6 {
				sr.install(mk())
			}
		}
		pend := sr.gate.pendingList()
		if len(pend) == 0 {
			break
		}
		sr.release(pend[0], "ok")
	}
	sr.gate.releaseAll()
	sr.checkResponses(false)
	return sr
}

// c08backend: the real local-directory and HTTP buckets under the server, sequential requests around replacements (no gating: the
// version tags are the backends' own - mtime/size for files, the origin's ETag over HTTP). Every answer must be the one of the
// version current when the request was made; a replacement completed before a request began never makes it fail.   case: backend <kind> <seed>
func c08backendRun(kind string, seed uint64) []string {
	r := &rng{s: seed}
	var viol []string
	dir, _ := os.MkdirTemp("", "vh-c08b")
	defer os.RemoveAll(dir)
	mk := func(tag int) *srvVersion {
		vr := &rng{s: seed + uint64(tag)*7919}
		ir := &rng{s: seed * 31}
		ne := 3 + ir.intn(5)
		var es []Ent
		id, off := uint64(ir.intn(3)), uint64(0)
		for i := 0; i < ne; i++ {
			run := uint32(1 + ir.intn(3))
			l := uint32(1 + vr.intn(40))
			es = append(es, Ent{ID: id, Off: off, Len: l, Run: run})
			off += uint64(l)
			id += uint64(run) + uint64(ir.intn(3))
		}
		zmax, _, _ := pmtiles.IDToZxy(es[len(es)-1].ID + uint64(es[len(es)-1].Run))
		data := vr.bytes(int(off))
		depth, gzipped, ts := vr.intn(2), vr.chance(50), vr.next()
		build := func(pad int) *Archive {
			return buildArchive(&rng{s: ts}, es, data, archOpts{tree: treeOpts{depth: depth, fan: 2, gzip: gzipped, shorthand: true},
				tileType: 2, tileComp: uint8(1 + tag%4), meta: fmt.Sprintf(`{"v":%d}`, tag), minZoom: 0, maxZoom: zmax, pad: pad})
		}
		a := build((6 - tag) * 200) // later versions are shorter: a read at an older version's offsets runs past the end of the file
		if seed%2 == 0 {            // every version of this archive has the same file size (the layouts and the bytes still differ)
			if n := len(build(0).Bytes); n < 3000 {
				a = build(3000 - n)
			}
		}
		return &srvVersion{id: tag - 1, name: 0, tag: tag, arch: a}
	}
	var srv *pmtiles.Server
	var put func(v *srvVersion)
	if kind == "file" {
		put = func(v *srvVersion) {
			tmp := filepath.Join(dir, "upload.tmp")
			os.WriteFile(tmp, v.arch.Bytes, 0o644)
			// successive versions are often published within the same second (sub-second modification times differ)
			mt := time.Unix(1700000000+int64(v.tag)/3, int64(v.tag%3)*333000000+1234)
			os.Chtimes(tmp, mt, mt)
			os.Rename(tmp, filepath.Join(dir, "a0.pmtiles"))
		}
		srv, _ = pmtiles.NewServer("", dir, quietLogger, 8, "http://pub")
	} else {
		c18once.Do(func() { c18orig = newOrigin() })
		key := fmt.Sprintf("b%d/a0.pmtiles", seed)
		put = func(v *srvVersion) {
			c18orig.mu.Lock()
			c18orig.fault = ""
			c18orig.objs[key] = v.arch.Bytes
			c18orig.mu.Unlock()
		}
		srv, _ = pmtiles.NewServer(c18orig.srv.URL+fmt.Sprintf("/b%d", seed), "", quietLogger, 8, "http://pub")
	}
	if srv == nil {
		return []string{"harness: the server could not be created on the " + kind + " backend"}
	}
	srv.Start()
	expect := func(v *srvVersion, what string) {
		var st int
		var hd map[string]string
		var body []byte
		var wantSt int
		var wantBody []byte
		wantH := v.hdrsOf("")
		switch what {
		case "meta", "json":
			path := "/a0/metadata"
			if what == "json" {
				path = "/a0.json"
			}
			st, hd, body = srv.Get(context.Background(), path)
			wantSt, wantBody = v.pathAnswer(what)
			wantH = v.hdrsOf(what)
		default:
			e := v.arch.Ents[r.intn(len(v.arch.Ents))]
			if what == "tilelast" { // the tile stored last: with a stale cached layout its read reaches the end of the (shorter) new file
				e = v.arch.Ents[len(v.arch.Ents)-1]
			}
			z, x, y := pmtiles.IDToZxy(e.ID + uint64(r.intn(int(e.Run)+1)))
			if what == "tilelast" {
				z, x, y = pmtiles.IDToZxy(e.ID)
			}
			st, hd, body = srv.Get(context.Background(), fmt.Sprintf("/a0/%d/%d/%d.png", z, x, y))
			wantSt, wantBody = v.answerOf(uint64(z), uint64(x), uint64(y), 2)
		}
		got := hd["Content-Type"] + "|" + hd["Content-Encoding"]
		if st != wantSt || (st == 200 && (!bytes.Equal(body, wantBody) || got != wantH)) {
			viol = append(viol, fmt.Sprintf("%s backend, version v%d current since before the request: %s request answered %d %s [%s], that version answers %d %s [%s]",
				kind, v.tag, what, st, trunc(hx(body)), got, wantSt, trunc(hx(wantBody)), wantH))
		}
	}
	v1 := mk(1)
	put(v1)
	expect(v1, "tile")
	expect(v1, []string{"meta", "json", "tile"}[r.intn(3)])
	v2 := mk(2)
	put(v2)
	if seed%4 == 1 {
		expect(v2, "tilelast")
	}
	expect(v2, []string{"tile", "meta", "json"}[r.intn(3)])
	expect(v2, "tile")
	v3 := mk(3)
	put(v3)
	v4 := mk(4)
	put(v4) // two replacements between requests
	if seed%4 == 3 {
		expect(v4, "tilelast")
	}
	expect(v4, []string{"json", "tile", "meta"}[r.intn(3)])
	expect(v4, "tile")
	expect(v4, "meta")
	return viol
}

func c08(r *rng, tier string, o *out) {
	nb := 8
	if tier == "thorough" || tier == "shard" {
		nb = 16
	}
	for c := 0; c < nb; c++ {
		line := fmt.Sprintf("backend %s %d", []string{"file", "http"}[c%2], (r.next()%250000)*4+uint64(c/2)%4) // even seeds: versions of equal file size; odd seeds: shrinking versions, the last tile asked first
		impl, viol := runCase("C08", line)
		idx := o.emit(line, impl, true)
		o.count("real_backend_" + []string{"file", "http"}[c%2])
		for _, v := range viol {
			o.violation(idx, v)
		}
	}
	msets := 1
	if tier == "thorough" {
		msets = 10
	}
	for s := 0; s < msets; s++ {
		seed := r.next() % 1000000
		for _, kind := range []string{"meta", "json"} {
			for warm := 0; warm < 2; warm++ {
				for pre := 0; pre < 2; pre++ {
					for p1 := 0; p1 <= 6; p1++ {
						for p2 := p1; p2 <= 6; p2++ {
							if p1 >= 4 && p1 < 6 || p2 >= 4 && p2 < 6 {
								continue // a metadata request makes at most three bucket calls per attempt
							}
							finishRun(o, "C08", c08metaRun(seed, kind, warm, pre, p1, p2), 64, true, "metadata_tilejson_schedule")
						}
					}
				}
			}
		}
	}
	nh := 6
	if tier == "thorough" || tier == "shard" {
		nh = 40
	}
	for c := 0; c < nh; c++ {
		line := fmt.Sprintf("held %d", r.next()%1000000)
		impl, viol := runCase("C08", line)
		idx := o.emit(line, impl, true)
		o.count("read_answered_before_replacement_delivered_after")
		for _, v := range viol {
			o.violation(idx, v)
		}
	}
	nm := 12
	if tier == "thorough" {
		nm = 300
	}
	for c := 0; c < nm; c++ {
		line := fmt.Sprintf("micro %d %d", r.next()%1000000, c%2)
		impl, viol := runCase("C08", line)
		idx := o.emit(line, impl, true)
		o.count("micro_loop_interleaving")
		for _, v := range viol {
			o.violation(idx, v)
		}
	}
	n := 150
	if tier == "thorough" {
		n = 5000
	}
	sets := 1
	if tier == "thorough" {
		sets = 12
	}
	c08systematic(r, o, sets)
	for c := 0; c < n; c++ {
		sr := newSrvRun(64)
		m := 1 + r.intn(2)
		var names []int
		nextTag := 1
		for k := 0; k < m; k++ {
			v := genVersion(r, len(sr.versions), k, nextTag, false)
			nextTag++
			sr.versions = append(sr.versions, v)
			sr.install(v)
			names = append(names, k)
		}
		// warm the cache sometimes
		if r.chance(50) {
			drive(r, sr, 1+r.intn(2), names, nil)
		}
		repl := 0
		maxRepl := r.intn(4)
		between := func() {
			if repl >= maxRepl {
				return
			}
			repl++
			name := names[r.intn(len(names))]
			if r.chance(8) {
				sr.remove(name)
				return
			}
			v := genVersion(r, len(sr.versions), name, nextTag, false)
			nextTag++
			sr.versions = append(sr.versions, v)
			sr.install(v)
		}
		if r.chance(40) {
			between() // a replacement that completes before the requests begin
		}
		before := len(sr.reqs)
		drive(r, sr, before+2+r.intn(5), names, between)
		sr.checkResponses(false)
		finishRun(o, "C08", sr, 64, repl > 0, fmt.Sprintf("replacements=%d", repl))
	}
}

// srvReplay re-executes a recorded schedule (case line) against the real server.
func srvReplay(line string) (string, []string) {
	f := strings.Fields(line)
	if f[0] == "backend" {
		var seed uint64
		fmt.Sscan(f[2], &seed)
		viol := c08backendRun(f[1], seed)
		if len(viol) > 0 {
			return "violated", viol
		}
		return "ok", nil
	}
	if f[0] == "corruptleaf" {
		var seed uint64
		var gz int
		fmt.Sscan(f[1], &seed)
		fmt.Sscan(f[2], &gz)
		viol := c09corruptRun(seed, gz == 1)
		if len(viol) > 0 {
			return "violated", viol
		}
		return "ok", nil
	}
	if f[0] == "held" {
		var seed uint64
		fmt.Sscan(f[1], &seed)
		viol := c08heldRun(seed)
		if len(viol) > 0 {
			return "violated", viol
		}
		return "ok", nil
	}
	if f[0] == "cancelfirst" {
		var seed uint64
		var where int
		fmt.Sscan(f[1], &seed)
		fmt.Sscan(f[2], &where)
		viol := c09cancelRun(seed, where)
		if len(viol) > 0 {
			return "violated", viol
		}
		return "ok", nil
	}
	if f[0] == "micro" {
		var seed uint64
		var variant int
		fmt.Sscan(f[1], &seed)
		fmt.Sscan(f[2], &variant)
		viol := c08microRun(seed, variant)
		if len(viol) > 0 {
			return "violated", viol
		}
		return "ok", nil
	}

	var cacheMB, nv int
	fmt.Sscanf(f[1], "%d", &cacheMB)
	fmt.Sscanf(f[2], "%d", &nv)
	sr := newSrvRun(cacheMB)
	// version definitions are re-read from the line: id name tag minz maxz req rootoff rootlen leafoff dataoff ndirs (off len ok hex)* filehex
	i := 3
	type vdef struct {
		name, tag int
		file      []byte
	}
	var defs []vdef
	for k := 0; k < nv; k++ {
		var id, name, tag, nd int
		fmt.Sscanf(f[i], "%d", &id)
		fmt.Sscanf(f[i+1], "%d", &name)
		fmt.Sscanf(f[i+2], "%d", &tag)
		fmt.Sscanf(f[i+10], "%d", &nd)
		i += 11 + 4*nd
		defs = append(defs, vdef{name, tag, unhx(f[i])})
		i += 6 // file, metadata offset and length, the two bodies, the content headers
	}
	// steps
	steps := strings.Split(line[strings.Index(line, " E ")+3:], " ; ")[1:]
	for _, s := range steps {
		g := strings.Fields(s)
		switch g[0] {
		case "X":
			var vid int
			fmt.Sscanf(g[1], "%d", &vid)
			d := defs[vid]
			sr.gate.mu.Lock()
			sr.gate.objs[fmt.Sprintf("a%d.pmtiles", d.name)] = gateVer{d.file, fmt.Sprintf("v%d", d.tag)}
			sr.gate.mu.Unlock()
			sr.steps = append(sr.steps, s)
			sr.obs = append(sr.obs, sr.observe())
			sr.step++
		case "D":
			var name int
			fmt.Sscanf(g[1], "%d", &name)
			sr.gate.mu.Lock()
			delete(sr.gate.objs, fmt.Sprintf("a%d.pmtiles", name))
			sr.gate.mu.Unlock()
			sr.steps = append(sr.steps, s)
			sr.obs = append(sr.obs, sr.observe())
			sr.step++
		case "P":
			var rid, name, kind int
			fmt.Sscanf(s, "P %d %d %d", &rid, &name, &kind)
			sr.startPath(name, map[int]string{1: "meta", 2: "json"}[kind])
		case "S":
			var rid, name, ext int
			var z, x, y uint64
			fmt.Sscanf(s, "S %d %d %d %d %d %d", &rid, &name, &z, &x, &y, &ext)
			sr.start(name, z, x, y, ext)
		case "R":
			tag := ""
			if g[2] != "0" {
				tag = "v" + g[2]
			}
			outcome := "ok"
			if len(g) > 5 {
				outcome = g[5]
			}
			sr.release(fmt.Sprintf("a%s/%s/%s/%s", g[1], tag, g[3], g[4]), outcome)
		}
	}
	sr.gate.releaseAll()
	return sr.implLine(), sr.viol
}
