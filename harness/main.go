// vh — the Go side of the correspondence check.
//
//	vh <property> -seed S -tier quick|thorough -dir D
//
// generates the cases for the property from the seed (every random choice comes from one
// splitmix64 stream), runs the implementation in /repo (built with -tags verif) on them and writes
//
//	D/cases.txt   one case per line (the same lines are fed to the extracted Coq model)
//	D/impl.txt    one canonical result line per case (what the implementation did)
//	D/oracle.txt  one line per violation of the property found by evaluating the property's
//	              oracle on the implementation alone: "VIOL <case index> <what failed>"
//	D/stats.json  input distribution (sizes, branches hit, error kinds)
//
// vh <property> -replay "<case line>" re-runs a single case and prints impl + oracle lines.
package main

import (
	"bufio"
	"encoding/json"
	"flag"
	"fmt"
	"os"
	"os/exec"
	"path/filepath"
	"sort"
	"strings"
	"sync"
	"time"
)

type rng struct{ s uint64 }

func (r *rng) next() uint64 {
	r.s += 0x9e3779b97f4a7c15
	z := r.s
	z = (z ^ (z >> 30)) * 0xbf58476d1ce4e5b9
	z = (z ^ (z >> 27)) * 0x94d049bb133111eb
	return z ^ (z >> 31)
}
func (r *rng) intn(n int) int {
	if n <= 0 {
		return 0
	}
	return int(r.next() % uint64(n))
}
func (r *rng) u64n(n uint64) uint64 {
	if n == 0 {
		return 0
	}
	return r.next() % n
}
func (r *rng) chance(p int) bool { return r.intn(100) < p }
func (r *rng) bytes(n int) []byte {
	b := make([]byte, n)
	for i := range b {
		b[i] = byte(r.next())
	}
	return b
}

// out collects the four output streams of one run.
type out struct {
	cases, impl, oracle *bufio.Writer
	files               []*os.File
	n                   int
	stats               map[string]int
	samples             []string
	nontrivial          map[string]bool
	viol                int
}

func newOut(dir string) *out {
	o := &out{stats: map[string]int{}, nontrivial: map[string]bool{}}
	os.MkdirAll(dir, 0o755)
	mk := func(n string) *bufio.Writer {
		f, err := os.Create(filepath.Join(dir, n))
		if err != nil {
			panic(err)
		}
		o.files = append(o.files, f)
		return bufio.NewWriterSize(f, 1<<20)
	}
	o.cases, o.impl, o.oracle = mk("cases.txt"), mk("impl.txt"), mk("oracle.txt")
	return o
}

// emit records one case: its line, the implementation's canonical result, and whether it is
// non-trivial by the property's rule (nontrivial cases are counted distinct by their case line).
func (o *out) emit(caseLine, implLine string, nontrivial bool) int {
	fmt.Fprintln(o.cases, caseLine)
	fmt.Fprintln(o.impl, implLine)
	if nontrivial {
		o.nontrivial[caseLine] = true
	}
	if len(o.samples) < 3 && len(caseLine) < 400 {
		o.samples = append(o.samples, caseLine+" => "+implLine)
	}
	o.n++
	return o.n - 1
}
func (o *out) violation(idx int, what string) {
	fmt.Fprintf(o.oracle, "VIOL %d %s\n", idx, what)
	o.viol++
}

// outside marks a case as lying outside the domain the property quantifies over (e.g. a zoom above 31, a header of spec version 1,
// an unsorted directory): model and implementation are still both run on it and a difference is recorded, but it is not a violation -
// the property leaves that behaviour open, and the model mirrors the pinned code there only by accident.
func (o *out) outside(idx int, why string) {
	fmt.Fprintf(o.oracle, "OUTSIDE %d %s\n", idx, why)
}
func (o *out) count(k string) { o.stats[k]++ }
func (o *out) close(dir string) {
	o.cases.Flush()
	o.impl.Flush()
	o.oracle.Flush()
	for _, f := range o.files {
		f.Close()
	}
	keys := make([]string, 0, len(o.stats))
	for k := range o.stats {
		keys = append(keys, k)
	}
	sort.Strings(keys)
	st := map[string]interface{}{"evaluations": o.n, "distinct_nontrivial": len(o.nontrivial),
		"distribution": o.stats, "samples": o.samples, "oracle_violations": o.viol}
	b, _ := json.MarshalIndent(st, "", " ")
	os.WriteFile(filepath.Join(dir, "stats.json"), b, 0o644)
}

// runCase runs one case of a property against the implementation with a panic guard and a watchdog:
// a panic or a hang of the code under test is an outcome (and a violation), never the end of the run.
func runCase(prop, line string) (string, []string) {
	type res struct {
		impl string
		viol []string
	}
	ch := make(chan res, 1)
	go func() {
		defer func() {
			if r := recover(); r != nil {
				msg := fmt.Sprint(r)
				if len(msg) > 200 {
					msg = msg[:200]
				}
				ch <- res{"crash", []string{"the implementation panicked: " + msg}}
			}
		}()
		i, v := replays[prop](line)
		ch <- res{i, v}
	}()
	select {
	case r := <-ch:
		return r.impl, r.viol
	case <-time.After(caseTimeout):
		return "hang", []string{fmt.Sprintf("the implementation did not finish within %v", caseTimeout)}
	}
}

var caseTimeout = 30 * time.Second

type propFn func(r *rng, tier string, o *out)
type replayFn func(line string) (impl string, viol []string)

var props = map[string]propFn{}
var replays = map[string]replayFn{}

func main() {
	if len(os.Args) < 2 {
		fmt.Fprintln(os.Stderr, "usage: vh <property> -seed S -tier T -dir D | vh <property> -replay <line>")
		os.Exit(2)
	}
	prop := os.Args[1]
	if prop == "C10child" {
		c10child()
		return
	}
	if prop == "C20child" {
		c20child()
		return
	}
	if prop == "C14child" {
		c14child()
		return
	}
	fs := flag.NewFlagSet("vh", flag.ExitOnError)
	seed := fs.Uint64("seed", 1, "seed")
	tier := fs.String("tier", "quick", "quick|thorough")
	dir := fs.String("dir", ".", "output directory")
	replay := fs.String("replay", "", "case line to re-run")
	corpus := fs.String("corpus", "", "directory of corpus case files (*.txt), run first")
	fs.Parse(os.Args[2:])
	if *replay != "" {
		f, ok := replays[prop]
		if !ok {
			fmt.Fprintln(os.Stderr, "no replay for", prop)
			os.Exit(2)
		}
		impl, viol := runCase(prop, *replay)
		_ = f
		fmt.Println("IMPL", impl)
		for _, v := range viol {
			fmt.Println("VIOL 0", v)
		}
		return
	}
	f, ok := props[prop]
	if !ok {
		fmt.Fprintln(os.Stderr, "unknown property", prop)
		os.Exit(2)
	}
	o := newOut(*dir)
	if *corpus != "" {
		runCorpus(prop, *corpus, o)
	}
	if *tier == "thorough" && sharded[prop] > 0 {
		runSharded(prop, *seed, sharded[prop], o)
		o.close(*dir)
		return
	}
	r := &rng{s: *seed*0x100000001b3 + 0xcbf29ce484222325}
	f(r, *tier, o)
	o.close(*dir)
}

// Properties whose runs start a server per case: every server leaves its event-loop goroutine behind, and the quiescence test
// inspects every goroutine, so one long process slows down quadratically. The thorough tier of these runs the "shard" tier in
// this many child processes (distinct seeds, eight at a time) and concatenates their output.
var sharded = map[string]int{"C08": 32, "C09": 24}

func runSharded(prop string, seed uint64, n int, o *out) {
	self, _ := os.Executable()
	type res struct {
		dir string
		err error
	}
	results := make([]res, n)
	sem := make(chan bool, 8)
	var wg sync.WaitGroup
	for i := 0; i < n; i++ {
		wg.Add(1)
		sem <- true
		go func(i int) {
			defer wg.Done()
			d, _ := os.MkdirTemp("", "vh-shard")
			cmd := exec.Command(self, prop, "-seed", fmt.Sprint(seed*1000+uint64(i)+1), "-tier", "shard", "-dir", d)
			results[i] = res{d, cmd.Run()}
			<-sem
		}(i)
	}
	wg.Wait()
	for i, rs := range results {
		cases := readLines(filepath.Join(rs.dir, "cases.txt"))
		impl := readLines(filepath.Join(rs.dir, "impl.txt"))
		base := o.n
		for k := range cases {
			il := ""
			if k < len(impl) {
				il = impl[k]
			}
			o.emit(cases[k], il, true)
		}
		for _, l := range readLines(filepath.Join(rs.dir, "oracle.txt")) {
			var idx int
			var what string
			if f := strings.SplitN(l, " ", 3); len(f) == 3 && f[0] == "VIOL" {
				fmt.Sscan(f[1], &idx)
				what = f[2]
				o.violation(base+idx, what)
			} else if len(f) == 3 && f[0] == "OUTSIDE" {
				fmt.Sscan(f[1], &idx)
				o.outside(base+idx, f[2])
			}
		}
		if b, err := os.ReadFile(filepath.Join(rs.dir, "stats.json")); err == nil {
			var st struct {
				Distribution map[string]int `json:"distribution"`
			}
			if json.Unmarshal(b, &st) == nil {
				for k, v := range st.Distribution {
					o.stats[k] += v
				}
			}
		}
		if rs.err != nil || len(cases) == 0 {
			idx := o.emit(fmt.Sprintf("micro 0 0 # shard %d", i), "crashed", false)
			o.violation(idx, fmt.Sprintf("shard %d of the %s run ended abnormally: %v", i, prop, rs.err))
		}
		os.RemoveAll(rs.dir)
	}
}

func readLines(p string) []string {
	b, err := os.ReadFile(p)
	if err != nil || len(b) == 0 {
		return nil
	}
	return strings.Split(strings.TrimRight(string(b), "\n"), "\n")
}

// runCorpus replays the committed corpus (minimised past disagreements and defect witnesses)
// before any generated case.
func runCorpus(prop, dir string, o *out) {
	rf, ok := replays[prop]
	if !ok {
		return
	}
	files, _ := filepath.Glob(filepath.Join(dir, "*.txt"))
	sort.Strings(files)
	for _, f := range files {
		fh, err := os.Open(f)
		if err != nil {
			continue
		}
		sc := bufio.NewScanner(fh)
		sc.Buffer(make([]byte, 1<<20), 1<<28)
		for sc.Scan() {
			line := sc.Text()
			if line == "" || line[0] == '#' {
				continue
			}
			impl, viol := runCase(prop, line)
			_ = rf
			idx := o.emit(line, impl, true)
			o.count("corpus")
			for _, v := range viol {
				o.violation(idx, v)
			}
		}
		fh.Close()
	}
}
