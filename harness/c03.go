package main

import (
	"bytes"
	"fmt"
	"reflect"
	"strings"

	"github.com/protomaps/go-pmtiles/pmtiles"
)

func init() {
	props["C03"] = c03
	replays["C03"] = c03run
}

func toImpl(es []Ent) []pmtiles.EntryV3 {
	r := make([]pmtiles.EntryV3, len(es))
	for i, e := range es {
		r[i] = pmtiles.EntryV3{TileID: e.ID, Offset: e.Off, Length: e.Len, RunLength: e.Run}
	}
	return r
}
func fromImpl(es []pmtiles.EntryV3) []Ent {
	r := make([]Ent, len(es))
	for i, e := range es {
		r[i] = Ent{e.TileID, e.Offset, e.Length, e.RunLength}
	}
	return r
}

// guarded runs f and maps a panic to the canonical outcome "crash".
func guarded(f func() string) (res string) {
	defer func() {
		if r := recover(); r != nil {
			res = "crash"
		}
	}()
	return f()
}

// cases:  dir_ser <ents> | dir_ser_gz <ents>   -> ok <hex of the uncompressed wire form>
//
//	dir_deser <hex> | dir_deser_gz <hex> -> ok <ents>   (gz: the harness gzips the bytes first)
func c03run(line string) (string, []string) {
	t := newToks(line)
	op := t.s()
	var viol []string
	switch op {
	case "dir_ser", "dir_ser_gz":
		es := t.ents()
		valid := true // oracle only for ascending lists with offset+length inside uint64
		for i, e := range es {
			if i > 0 && e.ID <= es[i-1].ID || e.Off > (1<<63) {
				valid = false
			}
		}
		res := guarded(func() string {
			var b []byte
			if op == "dir_ser" {
				b = pmtiles.SerializeEntries(toImpl(es), pmtiles.NoCompression)
			} else {
				z := pmtiles.SerializeEntries(toImpl(es), pmtiles.Gzip)
				var err error
				b, err = gunz(z)
				if err != nil {
					viol = append(viol, fmt.Sprintf("the gzip-compressed directory written by SerializeEntries is not a complete gzip member: an independent reader that inflates the whole stream fails with %v", err))
					return "err gunzip"
				}
				if valid {
					back := fromImpl(pmtiles.DeserializeEntries(bytes.NewBuffer(z), pmtiles.Gzip))
					if !entsEq(back, es) {
						viol = append(viol, "gzip round trip: Deserialize(Serialize(es)) != es")
					}
				}
			}
			if valid {
				dec, err := specDecodeDir(b)
				if err != nil || !entsEq(dec, es) {
					viol = append(viol, fmt.Sprintf("independent spec decoder reads the serialized directory differently (err=%v)", err))
				}
				if op == "dir_ser" {
					back := fromImpl(pmtiles.DeserializeEntries(bytes.NewBuffer(b), pmtiles.NoCompression))
					if !entsEq(back, es) {
						viol = append(viol, "round trip: Deserialize(Serialize(es)) != es")
					}
				}
			}
			return "ok " + hx(b)
		})
		return res, viol
	case "dir_deser_chk":
		raw := unhx(t.s())
		return guarded(func() string {
			got, err := pmtiles.VerifDeserializeEntriesChecked(raw, pmtiles.NoCompression)
			if err != nil {
				return "err"
			}
			return "ok " + entsStr(fromImpl(got))
		}), nil
	case "dir_deser", "dir_deser_gz":
		raw := unhx(t.s())
		res := guarded(func() string {
			var got []pmtiles.EntryV3
			if op == "dir_deser" {
				got = pmtiles.DeserializeEntries(bytes.NewBuffer(raw), pmtiles.NoCompression)
			} else {
				got = pmtiles.DeserializeEntries(bytes.NewBuffer(gz(raw)), pmtiles.Gzip)
			}
			return "ok " + entsStr(fromImpl(got))
		})
		if op == "dir_deser" { // the checked decoder must agree with the exported one and reject what the spec decoder rejects
			_, cerr := pmtiles.VerifDeserializeEntriesChecked(raw, pmtiles.NoCompression)
			if _, serr := specDecodeDir(raw); serr == nil && cerr != nil {
				viol = append(viol, "a spec-conforming directory is rejected by the checked decoder: "+cerr.Error())
			}
		}
		// oracle: a well-formed spec encoding must be read to what the spec decoder reads
		if want, err := specDecodeDir(raw); err == nil && ascendingOK(want) {
			if res != "ok "+entsStr(want) {
				viol = append(viol, "a spec-conforming directory is decoded differently from the independent spec decoder: want "+trunc(entsStr(want)))
			}
		}
		return res, viol
	}
	return "unknown-op", nil
}

func ascendingOK(es []Ent) bool {
	for i, e := range es {
		if i > 0 && e.ID <= es[i-1].ID {
			return false
		}
		if e.Off+uint64(e.Len) < e.Off {
			return false
		}
	}
	return true
}
func entsEq(a, b []Ent) bool {
	if len(a) == 0 && len(b) == 0 {
		return true
	}
	return reflect.DeepEqual(a, b)
}

func c03(r *rng, tier string, o *out) {
	n := 600
	if tier == "thorough" {
		n = 100000
	}
	emit := func(line string, nontrivial bool, tag string) {
		impl, viol := runCase("C03", line)
		idx := o.emit(line, impl, nontrivial)
		o.count(tag)
		for _, v := range viol {
			o.violation(idx, v)
		}
		if tag == "ser_unsorted" || tag == "deser_malformed" || tag == "deser_chk_malformed" {
			o.outside(idx, "not a valid directory (unsorted entries / truncated or corrupted bytes): the property speaks of valid directories; malformed archives are C10's subject")
		}
	}
	for c := 0; c < n; c++ {
		ne := r.intn(40)
		switch {
		case c%97 == 0:
			ne = 0
		case c%41 == 0:
			ne = 200 + r.intn(800)
		}
		es, _ := genEntries(r, entOpts{n: ne, maxGapLog: 40, bigVals: r.chance(60), runs: true, shared: true})
		if r.chance(10) && len(es) > 0 { // extreme field values
			i := r.intn(len(es))
			es[i].Len = 0xffffffff
			es[i].Run = 0xffffffff
			for j := i + 1; j < len(es); j++ {
				es[j].ID += 0xffffffff
			}
			if r.chance(50) {
				es[i].Off = (1 << 62) + r.u64n(1<<61)
			}
		}
		big := false
		for _, e := range es {
			if e.ID > 127 || e.Off > 126 || e.Len > 127 {
				big = true
			}
		}
		nt := len(es) > 1 && big
		emit("dir_ser "+entsStr(es), nt, "ser")
		if c%4 == 0 {
			emit("dir_ser_gz "+entsStr(es), nt, "ser_gz")
		}
		emit("dir_deser "+hx(specEncodeDir(es, true)), nt, "deser_shorthand")
		emit("dir_deser "+hx(specEncodeDir(es, false)), nt, "deser_plain")
		emit("dir_deser_chk "+hx(specEncodeDir(es, true)), nt, "deser_chk")
		if c%4 == 1 {
			emit("dir_deser_gz "+hx(specEncodeDir(es, r.chance(50))), nt, "deser_gz")
		}
		if c%5 == 0 && len(es) > 1 { // unsorted list: the wrap-around of the delta column (model vs implementation only)
			sh := append([]Ent(nil), es...)
			i, j := r.intn(len(sh)), r.intn(len(sh))
			sh[i], sh[j] = sh[j], sh[i]
			emit("dir_ser "+entsStr(sh), true, "ser_unsorted")
		}
		if c%3 == 0 { // malformed: truncation, overlong varints, count larger than the data backs (<= 10^4)
			b := specEncodeDir(es, true)
			var m []byte
			switch r.intn(4) {
			case 0:
				m = b[:r.intn(len(b)+1)]
			case 1:
				m = append([]byte(nil), b...)
				if len(m) > 0 {
					m[r.intn(len(m))] = byte(r.next())
				}
			case 2:
				cnt := uint64(r.intn(3000))
				if r.chance(40) {
					cnt = r.next() >> uint(r.intn(64)) // counts up to 2^64-1: must be rejected without allocation
				}
				m = append(specPutUvarint(nil, cnt), r.bytes(r.intn(30))...)
			case 3:
				m = append(bytes.Repeat([]byte{0xff}, 9+r.intn(4)), r.bytes(r.intn(10))...)
				m = append([]byte{byte(1 + r.intn(5))}, m...)
			}
			emit("dir_deser "+hx(m), true, "deser_malformed")
			emit("dir_deser_chk "+hx(m), true, "deser_chk_malformed")
		}
	}
	_ = strings.Join
}
