module gotables

go 1.22
