// gotables — the translator: regenerates coq/Gen/Generated.v from /repo's current sources.
//
// It pattern-matches, with go/ast, exactly these constructs and nothing else:
//
//   - pmtiles/directory.go: the field list of struct HeaderV3; every statement of SerializeHeader and of
//     DeserializeHeader (each statement must be one of the shapes listed in serStmt / deserStmt below,
//     otherwise a translator_gap is reported: a statement the translator does not understand is never
//     skipped silently); the const HeaderV3LenBytes; the return-literal switch tables headerContentType,
//     tileTypeToString, stringToTileType, compressionToString, stringToCompression; the constants of
//     optimizeDirectories (16384, 3500, 4096, 1.2).
//   - pmtiles/convert.go, pmtiles/extract.go: the root-budget argument of the call of optimizeDirectories.
//   - pmtiles/server.go, pmtiles/show.go: the bound of the `for depth := 0; depth <= N` directory walks, the
//     root fetch length, the three path regexps, the per-entry cache size factor and the cache size unit,
//     the tile-type -> extension switch of getTileAttempt.
//
// A construct that is not recognised any more is reported as  (* translator_gap: <what> *)  in the output and
// the corresponding definition gets an impossible value, so that the proof obligation depending on it fails.
package main

import (
	"fmt"
	"go/ast"
	"go/constant"
	"go/parser"
	"go/printer"
	"go/token"
	"go/types"
	"os"
	"path/filepath"
	"sort"
	"strconv"
	"strings"
)

var gaps []string
var consts = map[string]string{}

// cur names the generated definitions the translator is working on: a gap is attributed to them, so that the orchestrator can
// fall back to the pinned value of exactly those definitions (and say so) instead of losing every table
var cur = "*"

func gap(format string, a ...interface{}) {
	gaps = append(gaps, "["+cur+"] "+fmt.Sprintf(format, a...))
}

func exprString(e ast.Expr) string {
	switch x := e.(type) {
	case *ast.BasicLit:
		return x.Value
	case *ast.Ident:
		if v, ok := consts[x.Name]; ok {
			return v
		}
		return x.Name
	case *ast.BinaryExpr:
		return "(" + exprString(x.X) + x.Op.String() + exprString(x.Y) + ")"
	case *ast.ParenExpr:
		return "(" + exprString(x.X) + ")"
	case *ast.CallExpr: // conversions like uint8(3)
		if id, ok := x.Fun.(*ast.Ident); ok && len(x.Args) == 1 {
			switch id.Name {
			case "uint8", "uint32", "uint64", "int", "int64", "int32", "float32", "float64":
				return id.Name + "(" + exprString(x.Args[0]) + ")"
			}
		}
	}
	return "?"
}
func evalInt(e ast.Expr) (int64, bool) {
	if e == nil {
		return 0, false
	}
	tv, err := types.Eval(token.NewFileSet(), nil, token.NoPos, exprString(e))
	if err == nil && tv.Value != nil {
		if v, ok := constant.Int64Val(constant.ToInt(tv.Value)); ok {
			return v, true
		}
	}
	return 0, false
}
func strLit(e ast.Expr) (string, bool) {
	if b, ok := e.(*ast.BasicLit); ok && b.Kind == token.STRING {
		s, err := strconv.Unquote(b.Value)
		return s, err == nil
	}
	return "", false
}
func sliceRange(e ast.Expr, base string) (lo, hi int64, ok bool) {
	s, isS := e.(*ast.SliceExpr)
	if !isS {
		return
	}
	if id, isI := s.X.(*ast.Ident); !isI || id.Name != base {
		return
	}
	l, ok1 := evalInt(s.Low)
	h, ok2 := evalInt(s.High)
	return l, h, ok1 && ok2
}
func indexOf(e ast.Expr, base string) (int64, bool) {
	ix, ok := e.(*ast.IndexExpr)
	if !ok {
		return 0, false
	}
	if id, isI := ix.X.(*ast.Ident); !isI || id.Name != base {
		return 0, false
	}
	return evalInt(ix.Index)
}
func selField(e ast.Expr, recv string) (string, bool) {
	s, ok := e.(*ast.SelectorExpr)
	if !ok {
		return "", false
	}
	if id, isI := s.X.(*ast.Ident); !isI || id.Name != recv {
		return "", false
	}
	return s.Sel.Name, true
}
func isLECall(e ast.Expr, name string) (*ast.CallExpr, bool) {
	c, ok := e.(*ast.CallExpr)
	if !ok {
		return nil, false
	}
	s, ok := c.Fun.(*ast.SelectorExpr)
	if !ok || s.Sel.Name != name {
		return nil, false
	}
	s2, ok := s.X.(*ast.SelectorExpr)
	if !ok || s2.Sel.Name != "LittleEndian" {
		return nil, false
	}
	return c, true
}
func conv(e ast.Expr, names ...string) (ast.Expr, bool) {
	c, ok := e.(*ast.CallExpr)
	if !ok || len(c.Args) != 1 {
		return nil, false
	}
	id, ok := c.Fun.(*ast.Ident)
	if !ok {
		return nil, false
	}
	for _, n := range names {
		if id.Name == n {
			return c.Args[0], true
		}
	}
	return nil, false
}
func unparen(e ast.Expr) ast.Expr {
	for {
		p, ok := e.(*ast.ParenExpr)
		if !ok {
			return e
		}
		e = p.X
	}
}

type row struct {
	off, w int64
	kind   string
	field  string
}

var fieldIdx = map[string]int{}
var fieldTypes = map[string]string{}

func parse(path string) *ast.File {
	f, err := parser.ParseFile(token.NewFileSet(), path, nil, 0)
	if err != nil {
		gap("cannot parse %s: %v", path, err)
		return &ast.File{}
	}
	return f
}
func funcDecl(f *ast.File, name string) *ast.FuncDecl {
	for _, d := range f.Decls {
		if fn, ok := d.(*ast.FuncDecl); ok && fn.Name.Name == name {
			return fn
		}
	}
	gap("function %s not found", name)
	return nil
}

// ---- SerializeHeader: every statement must be one of these shapes
func serLayout(fn *ast.FuncDecl) []row {
	var out []row
	if fn == nil {
		return nil
	}
	hdr := fn.Type.Params.List[0].Names[0].Name
	buf := ""
	for _, st := range fn.Body.List {
		ok := false
		switch s := st.(type) {
		case *ast.AssignStmt:
			if len(s.Lhs) == 1 && len(s.Rhs) == 1 {
				// b := make([]byte, HeaderV3LenBytes)
				if id, isI := s.Lhs[0].(*ast.Ident); isI && s.Tok == token.DEFINE {
					if c, isC := s.Rhs[0].(*ast.CallExpr); isC {
						if f, isF := c.Fun.(*ast.Ident); isF && f.Name == "make" && len(c.Args) == 2 {
							if n, okn := evalInt(c.Args[1]); okn {
								buf = id.Name
								consts["__serbuf_len"] = fmt.Sprint(n)
								ok = true
							}
						}
					}
				}
				// b[K] = <const> | header.F | uint8(header.F)
				if k, isIx := indexOf(s.Lhs[0], buf); isIx && s.Tok == token.ASSIGN {
					rhs := s.Rhs[0]
					if v, isC := evalInt(rhs); isC {
						out = append(out, row{k, 1, fmt.Sprintf("KVersion %d", v), "SpecVersion"})
						ok = true
					} else {
						if inner, isConv := conv(rhs, "uint8"); isConv {
							rhs = inner
						}
						if f, isF := selField(rhs, hdr); isF {
							t := fieldTypes[f]
							if t == "uint8" || t == "Compression" || t == "TileType" {
								out = append(out, row{k, 1, "KU8", f})
								ok = true
							}
						}
					}
				}
			}
		case *ast.ExprStmt:
			if c, isC := s.X.(*ast.CallExpr); isC {
				// copy(b[0:7], "PMTiles")
				if id, isI := c.Fun.(*ast.Ident); isI && id.Name == "copy" && len(c.Args) == 2 {
					lo, hi, okr := sliceRange(c.Args[0], buf)
					lit, okl := strLit(c.Args[1])
					if okr && okl && int64(len(lit)) == hi-lo {
						out = append(out, row{lo, hi - lo, "KMagic " + zlist([]byte(lit)), "__magic"})
						ok = true
					}
				}
				// binary.LittleEndian.PutUint64(b[lo:hi], header.F)
				if p, isP := isLECall(c, "PutUint64"); isP && len(p.Args) == 2 {
					lo, hi, okr := sliceRange(p.Args[0], buf)
					f, okf := selField(p.Args[1], hdr)
					if okr && okf && hi-lo == 8 && fieldTypes[f] == "uint64" {
						out = append(out, row{lo, 8, "KU64", f})
						ok = true
					}
				}
				// binary.LittleEndian.PutUint32(b[lo:hi], uint32(header.F))   with F int32
				if p, isP := isLECall(c, "PutUint32"); isP && len(p.Args) == 2 {
					lo, hi, okr := sliceRange(p.Args[0], buf)
					if inner, isConv := conv(p.Args[1], "uint32"); isConv && okr && hi-lo == 4 {
						if f, okf := selField(inner, hdr); okf && fieldTypes[f] == "int32" {
							out = append(out, row{lo, 4, "KI32", f})
							ok = true
						}
					}
				}
			}
		case *ast.IfStmt:
			// if header.F { b[K] = 0x1 }   with F bool
			if f, isF := selField(s.Cond, hdr); isF && fieldTypes[f] == "bool" && s.Init == nil && s.Else == nil && len(s.Body.List) == 1 {
				if a, isA := s.Body.List[0].(*ast.AssignStmt); isA && len(a.Lhs) == 1 && a.Tok == token.ASSIGN {
					k, okk := indexOf(a.Lhs[0], buf)
					v, okv := evalInt(a.Rhs[0])
					if okk && okv && v == 1 {
						out = append(out, row{k, 1, "KBool", f})
						ok = true
					}
				}
			}
		case *ast.ReturnStmt:
			if len(s.Results) == 1 {
				if id, isI := s.Results[0].(*ast.Ident); isI && id.Name == buf {
					ok = true
				}
			}
		}
		if !ok {
			gap("SerializeHeader: statement not understood: %s", stmtText(st))
		}
	}
	sort.SliceStable(out, func(i, j int) bool { return out[i].off < out[j].off })
	return out
}

// ---- DeserializeHeader
func deserLayout(fn *ast.FuncDecl) []row {
	var out []row
	if fn == nil {
		return nil
	}
	buf := fn.Type.Params.List[0].Names[0].Name
	h := ""
	locals := map[string]row{} // local variables holding a slice/byte of the input
	for _, st := range fn.Body.List {
		ok := false
		switch s := st.(type) {
		case *ast.AssignStmt:
			if len(s.Lhs) == 1 && len(s.Rhs) == 1 {
				lhs, rhs := s.Lhs[0], unparen(s.Rhs[0])
				if id, isI := lhs.(*ast.Ident); isI && s.Tok == token.DEFINE {
					if cl, isCL := rhs.(*ast.CompositeLit); isCL && len(cl.Elts) == 0 { // h := HeaderV3{}
						h = id.Name
						ok = true
					} else if lo, hi, okr := sliceRange(rhs, buf); okr { // magicNumber := d[0:7]
						locals[id.Name] = row{off: lo, w: hi - lo}
						ok = true
					} else if k, okk := indexOf(rhs, buf); okk { // specVersion := d[7]
						locals[id.Name] = row{off: k, w: 1}
						ok = true
					}
				}
				if f, isF := selField(lhs, h); isF && s.Tok == token.ASSIGN && h != "" {
					t := fieldTypes[f]
					if id, isI := rhs.(*ast.Ident); isI { // h.SpecVersion = specVersion
						if l, okl := locals[id.Name]; okl && l.w == 1 && l.kind != "" {
							out = append(out, row{l.off, 1, l.kind, f})
							ok = true
						}
					}
					if c, isC := isLECall(rhs, "Uint64"); isC && t == "uint64" {
						if lo, hi, okr := sliceRange(c.Args[0], buf); okr && hi-lo == 8 {
							out = append(out, row{lo, 8, "KU64", f})
							ok = true
						}
					}
					if inner, isConv := conv(rhs, "int32"); isConv && t == "int32" {
						if c, isC := isLECall(inner, "Uint32"); isC {
							if lo, hi, okr := sliceRange(c.Args[0], buf); okr && hi-lo == 4 {
								out = append(out, row{lo, 4, "KI32", f})
								ok = true
							}
						}
					}
					if b, isB := rhs.(*ast.BinaryExpr); isB && b.Op == token.EQL && t == "bool" { // (d[96] == 0x1)
						k, okk := indexOf(b.X, buf)
						v, okv := evalInt(b.Y)
						if okk && okv && v == 1 {
							out = append(out, row{k, 1, "KBool", f})
							ok = true
						}
					}
					byteSrc := rhs
					if inner, isConv := conv(rhs, "Compression", "TileType", "uint8"); isConv {
						byteSrc = inner
					}
					if k, okk := indexOf(byteSrc, buf); okk && (t == "uint8" || t == "Compression" || t == "TileType") {
						out = append(out, row{k, 1, "KU8", f})
						ok = true
					}
				}
			}
		case *ast.IfStmt:
			// if string(magicNumber) != "PMTiles" { return h, <error> }
			// if specVersion > uint8(3) { return h, <error> }
			if b, isB := s.Cond.(*ast.BinaryExpr); isB && s.Init == nil && s.Else == nil && returnsError(s.Body, h) {
				if inner, isConv := conv(b.X, "string"); isConv && b.Op == token.NEQ {
					if id, isI := inner.(*ast.Ident); isI {
						if l, okl := locals[id.Name]; okl {
							if lit, oks := strLit(b.Y); oks && int64(len(lit)) == l.w {
								out = append(out, row{l.off, l.w, "KMagic " + zlist([]byte(lit)), "__magic"})
								ok = true
							}
						}
					}
				}
				if id, isI := b.X.(*ast.Ident); isI && b.Op == token.GTR {
					if l, okl := locals[id.Name]; okl && l.w == 1 {
						if v, okv := evalInt(b.Y); okv {
							l.kind = fmt.Sprintf("KVersion %d", v)
							locals[id.Name] = l
							ok = true
						}
					}
				}
			}
		case *ast.ReturnStmt:
			if len(s.Results) == 2 {
				if id, isI := s.Results[0].(*ast.Ident); isI && id.Name == h {
					if n, isN := s.Results[1].(*ast.Ident); isN && n.Name == "nil" {
						ok = true
					}
				}
			}
		}
		if !ok {
			gap("DeserializeHeader: statement not understood: %s", stmtText(st))
		}
	}
	// the gates must precede every field read (order of statements matters for rejection)
	sort.SliceStable(out, func(i, j int) bool { return out[i].off < out[j].off })
	return out
}
func returnsError(b *ast.BlockStmt, h string) bool {
	if len(b.List) != 1 {
		return false
	}
	r, ok := b.List[0].(*ast.ReturnStmt)
	if !ok || len(r.Results) != 2 {
		return false
	}
	if id, isI := r.Results[1].(*ast.Ident); isI && id.Name == "nil" {
		return false
	}
	return true
}
func stmtText(s ast.Stmt) string {
	var b strings.Builder
	ast.Inspect(s, func(n ast.Node) bool {
		switch x := n.(type) {
		case *ast.Ident:
			b.WriteString(x.Name + " ")
		case *ast.BasicLit:
			b.WriteString(x.Value + " ")
		}
		return true
	})
	t := b.String()
	if len(t) > 120 {
		t = t[:120]
	}
	return strings.ReplaceAll(t, "*)", "* )")
}
func zlist(b []byte) string {
	p := make([]string, len(b))
	for i, c := range b {
		p[i] = fmt.Sprint(c)
	}
	return "[" + strings.Join(p, ";") + "]"
}
func emitLayout(name string, rows []row) string {
	var sb strings.Builder
	fmt.Fprintf(&sb, "Definition %s : list row :=\n  [", name)
	for i, r := range rows {
		id := 100
		if r.field != "__magic" {
			v, ok := fieldIdx[r.field]
			if !ok {
				gap("%s: unknown header field %s", name, r.field)
				v = 999
			}
			id = v
		}
		if i > 0 {
			sb.WriteString(";\n   ")
		}
		k := r.kind
		if strings.Contains(k, " ") {
			k = "(" + k + ")"
		}
		fmt.Fprintf(&sb, "(%d%%nat,%d%%nat,%s,%d%%nat)", r.off, r.w, k, id)
	}
	sb.WriteString("].\n")
	return sb.String()
}

// ---- switch tables: func f(x) ... { switch <x> { case A: return lit[, lit] ... default: return ... } }
type tabRow struct {
	key  string
	vals []string
}

func switchTable(fn *ast.FuncDecl) ([]tabRow, []string) {
	if fn == nil {
		return nil, nil
	}
	var sw *ast.SwitchStmt
	for _, st := range fn.Body.List {
		if s, ok := st.(*ast.SwitchStmt); ok {
			sw = s
		}
	}
	if sw == nil || len(fn.Body.List) != 1 {
		gap("%s: body is not a single switch", fn.Name.Name)
		return nil, nil
	}
	var rows []tabRow
	var def []string
	for _, c := range sw.Body.List {
		cc := c.(*ast.CaseClause)
		if len(cc.Body) != 1 {
			gap("%s: case body not a single return", fn.Name.Name)
			continue
		}
		r, ok := cc.Body[0].(*ast.ReturnStmt)
		if !ok {
			gap("%s: case body not a return", fn.Name.Name)
			continue
		}
		var vals []string
		for _, e := range r.Results {
			vals = append(vals, litText(e))
		}
		if cc.List == nil {
			def = vals
			continue
		}
		for _, k := range cc.List {
			rows = append(rows, tabRow{litText(k), vals})
		}
	}
	return rows, def
}
func litText(e ast.Expr) string {
	if s, ok := strLit(e); ok {
		return strconv.Quote(s)
	}
	if id, ok := e.(*ast.Ident); ok {
		if v, okc := consts[id.Name]; okc {
			return v
		}
		return id.Name
	}
	if v, ok := evalInt(e); ok {
		return fmt.Sprint(v)
	}
	return "?"
}
func coqStr(q string) string { // Go-quoted string -> Coq string literal
	s, err := strconv.Unquote(q)
	if err != nil {
		return "\"?\""
	}
	return "\"" + strings.ReplaceAll(s, "\"", "\"\"") + "\""
}

func findCalls(f *ast.File, name string) []*ast.CallExpr {
	var out []*ast.CallExpr
	ast.Inspect(f, func(n ast.Node) bool {
		if c, ok := n.(*ast.CallExpr); ok {
			if id, isI := c.Fun.(*ast.Ident); isI && id.Name == name {
				out = append(out, c)
			}
		}
		return true
	})
	return out
}

// depth bound of `for depth := 0; depth <= N; depth++` loops
func depthBounds(f *ast.File) []int64 {
	var out []int64
	ast.Inspect(f, func(n ast.Node) bool {
		if fs, ok := n.(*ast.ForStmt); ok && fs.Init != nil && fs.Cond != nil {
			if a, isA := fs.Init.(*ast.AssignStmt); isA && len(a.Lhs) == 1 {
				if id, isI := a.Lhs[0].(*ast.Ident); isI && id.Name == "depth" {
					if b, isB := fs.Cond.(*ast.BinaryExpr); isB && b.Op == token.LEQ {
						if v, okv := evalInt(b.Y); okv {
							if z, okz := evalInt(a.Rhs[0]); okz && z == 0 {
								out = append(out, v)
							}
						}
					}
				}
			}
		}
		return true
	})
	return out
}

func main() {
	repo := "/repo"
	if len(os.Args) > 1 {
		repo = os.Args[1]
	}
	dir := filepath.Join(repo, "pmtiles")
	fdir := parse(filepath.Join(dir, "directory.go"))
	// constants and enums of directory.go
	for _, d := range fdir.Decls {
		g, ok := d.(*ast.GenDecl)
		if !ok {
			continue
		}
		if g.Tok == token.CONST {
			for _, sp := range g.Specs {
				vs := sp.(*ast.ValueSpec)
				for i, n := range vs.Names {
					if i < len(vs.Values) {
						if v, okv := evalInt(vs.Values[i]); okv {
							consts[n.Name] = fmt.Sprint(v)
						}
					}
				}
			}
		}
		if g.Tok == token.TYPE {
			for _, sp := range g.Specs {
				ts := sp.(*ast.TypeSpec)
				if ts.Name.Name == "HeaderV3" {
					if st, isS := ts.Type.(*ast.StructType); isS {
						i := 0
						for _, fl := range st.Fields.List {
							for _, n := range fl.Names {
								fieldIdx[n.Name] = i
								if id, isI := fl.Type.(*ast.Ident); isI {
									fieldTypes[n.Name] = id.Name
								}
								i++
							}
						}
					}
				}
			}
		}
	}
	// named constants anywhere in the package (a refactor that names a magic number must not blind the translator)
	if all, err := filepath.Glob(filepath.Join(dir, "*.go")); err == nil {
		for round := 0; round < 3; round++ {
			for _, fn := range all {
				if strings.HasSuffix(fn, "_test.go") || strings.HasPrefix(filepath.Base(fn), "verif_") {
					continue
				}
				pf, perr := parser.ParseFile(token.NewFileSet(), fn, nil, 0)
				if perr != nil {
					continue
				}
				for _, d := range pf.Decls {
					if g, ok := d.(*ast.GenDecl); ok && g.Tok == token.CONST {
						for _, sp := range g.Specs {
							vs := sp.(*ast.ValueSpec)
							for i, n := range vs.Names {
								if _, have := consts[n.Name]; !have && i < len(vs.Values) {
									if v, okv := evalInt(vs.Values[i]); okv {
										consts[n.Name] = fmt.Sprint(v)
									}
								}
							}
						}
					}
				}
			}
		}
	}
	var sb strings.Builder
	sb.WriteString("(* GENERATED by tools/gotables from the Go sources of /repo on every run of bin/check. Do not edit. *)\n")
	sb.WriteString("From Coq Require Import ZArith List String.\nImport ListNotations.\nFrom PM Require Import Base.HeaderKinds.\nOpen Scope Z_scope.\n\n")

	cur = "struct_fields"
	names := make([]string, len(fieldIdx))
	for n, i := range fieldIdx {
		names[i] = n
	}
	sb.WriteString("Definition struct_fields : list string :=\n  [")
	for i, n := range names {
		if i > 0 {
			sb.WriteString("; ")
		}
		sb.WriteString("\"" + n + "\"")
	}
	sb.WriteString("]%string.\n")
	cur = "header_len"
	hl, ok := consts["HeaderV3LenBytes"]
	if !ok {
		gap("const HeaderV3LenBytes not found")
		hl = "0"
	}
	fmt.Fprintf(&sb, "Definition header_len : nat := %s%%nat.\n", hl)
	cur = "ser_buffer_len ser_layout"
	ser := serLayout(funcDecl(fdir, "SerializeHeader"))
	fmt.Fprintf(&sb, "Definition ser_buffer_len : nat := %s%%nat.\n", orZero(consts["__serbuf_len"]))
	sb.WriteString(emitLayout("ser_layout", ser))
	cur = "deser_layout"
	sb.WriteString(emitLayout("deser_layout", deserLayout(funcDecl(fdir, "DeserializeHeader"))))

	// switch tables
	emitTab := func(fname, coqName string, keyIsString bool, nvals int) {
		cur = coqName + " " + coqName + "_default"
		rows, def := switchTable(funcDecl(fdir, fname))
		fmt.Fprintf(&sb, "Definition %s :=\n  [", coqName)
		for i, r := range rows {
			if i > 0 {
				sb.WriteString("; ")
			}
			k := r.key
			if keyIsString {
				k = coqStr(k) + "%string"
			}
			sb.WriteString("(" + k)
			for _, v := range r.vals {
				if strings.HasPrefix(v, "\"") {
					sb.WriteString(", " + coqStr(v) + "%string")
				} else {
					sb.WriteString(", " + v)
				}
			}
			sb.WriteString(")")
		}
		sb.WriteString("].\n")
		fmt.Fprintf(&sb, "Definition %s_default := (", coqName)
		for i, v := range def {
			if i > 0 {
				sb.WriteString(", ")
			}
			if strings.HasPrefix(v, "\"") {
				sb.WriteString(coqStr(v) + "%string")
			} else {
				sb.WriteString(v)
			}
		}
		sb.WriteString(").\n")
	}
	emitTab("headerContentType", "content_type_table", false, 2)
	emitTab("tileTypeToString", "tile_type_name_table", false, 1)
	emitTab("stringToTileType", "tile_type_of_name_table", true, 1)
	emitTab("compressionToString", "compression_name_table", false, 2)
	emitTab("stringToCompression", "compression_of_name_table", true, 1)

	// root budgets at the two call sites
	for _, cs := range []struct{ file, name string }{{"convert.go", "root_budget_convert"}, {"extract.go", "root_budget_extract"}} {
		cur = cs.name
		f := parse(filepath.Join(dir, cs.file))
		calls := findCalls(f, "optimizeDirectories")
		v := int64(-1)
		if len(calls) == 1 && len(calls[0].Args) == 3 {
			if x, okx := evalInt(calls[0].Args[1]); okx {
				v = x
			}
		}
		if v < 0 {
			gap("%s: the root budget argument of the single optimizeDirectories call is not a constant", cs.file)
		}
		fmt.Fprintf(&sb, "Definition %s : Z := %d.\n", cs.name, v)
	}
	// depth bounds
	for _, cs := range []struct{ file, name string }{{"server.go", "depth_bound_server"}, {"show.go", "depth_bound_cli"}} {
		cur = cs.name
		b := depthBounds(parse(filepath.Join(dir, cs.file)))
		v := int64(-1)
		if len(b) == 1 {
			v = b[0]
		} else {
			gap("%s: expected exactly one `for depth := 0; depth <= N` loop, found %d", cs.file, len(b))
		}
		fmt.Fprintf(&sb, "Definition %s : Z := %d.\n", cs.name, v)
	}
	// server constants: root fetch length, regexps, cache accounting
	cur = "root_fetch_len"
	fsrv := parse(filepath.Join(dir, "server.go"))
	rootLen := int64(-1)
	ast.Inspect(fsrv, func(n ast.Node) bool {
		if is, ok := n.(*ast.IfStmt); ok {
			if id, isI := is.Cond.(*ast.Ident); isI && id.Name == "isRoot" {
				for _, st := range is.Body.List {
					if a, isA := st.(*ast.AssignStmt); isA && len(a.Lhs) == 1 {
						if l, isL := a.Lhs[0].(*ast.Ident); isL && l.Name == "length" {
							if v, okv := evalInt(a.Rhs[0]); okv {
								rootLen = v
							}
						}
					}
				}
			}
		}
		return true
	})
	if rootLen < 0 {
		gap("server.go: root fetch length (if isRoot { length = N }) not found")
	}
	fmt.Fprintf(&sb, "Definition root_fetch_len : Z := %d.\n", rootLen)
	for _, g := range fsrv.Decls {
		gd, ok := g.(*ast.GenDecl)
		if !ok || gd.Tok != token.VAR {
			continue
		}
		for _, sp := range gd.Specs {
			vs := sp.(*ast.ValueSpec)
			for i, n := range vs.Names {
				if i < len(vs.Values) && strings.HasSuffix(n.Name, "Pattern") {
					if c, isC := vs.Values[i].(*ast.CallExpr); isC && len(c.Args) == 1 {
						if s, oks := strLit(c.Args[0]); oks {
							fmt.Fprintf(&sb, "Definition regexp_%s : string := \"%s\"%%string.\n", n.Name, strings.ReplaceAll(s, "\"", "\"\""))
						}
					}
				}
			}
		}
	}
	// tile-type -> required extension switch of getTileAttempt; the status literals it returns
	cur = "ext_table"
	var extRows []string
	if gta := funcDecl(fsrv, "getTileAttempt"); gta != nil {
		ast.Inspect(gta.Body, func(n ast.Node) bool {
			sw, ok := n.(*ast.SwitchStmt)
			if !ok {
				return true
			}
			if f, isF := sw.Tag.(*ast.SelectorExpr); !isF || f.Sel.Name != "TileType" {
				return true
			}
			for _, c := range sw.Body.List {
				cc := c.(*ast.CaseClause)
				okc := false
				if len(cc.List) == 1 && len(cc.Body) == 1 {
					if is, isIf := cc.Body[0].(*ast.IfStmt); isIf {
						if b, isB := is.Cond.(*ast.BinaryExpr); isB && b.Op == token.NEQ {
							if id, isI := b.X.(*ast.Ident); isI && id.Name == "ext" {
								if lit, okl := strLit(b.Y); okl && len(is.Body.List) == 1 {
									if r, isR := is.Body.List[0].(*ast.ReturnStmt); isR && len(r.Results) > 0 {
										if st, oks := evalInt(r.Results[0]); oks {
											extRows = append(extRows, fmt.Sprintf("(%s, \"%s\"%%string, %d)", litText(cc.List[0]), lit, st))
											okc = true
										}
									}
								}
							}
						}
					}
				}
				if !okc {
					gap("getTileAttempt: case of the tile-type/extension switch not understood")
				}
			}
			return false
		})
	}
	if len(extRows) == 0 {
		gap("getTileAttempt: tile-type/extension switch not found")
	}
	fmt.Fprintf(&sb, "Definition ext_table := [%s].\n", strings.Join(extRows, "; "))

	// optimizeDirectories constants
	cur = "optimize_int_literals optimize_float_literals"
	od := funcDecl(fdir, "optimizeDirectories")
	var ints []int64
	var floats []string
	if od != nil {
		ast.Inspect(od.Body, func(n ast.Node) bool {
			if b, ok := n.(*ast.BasicLit); ok {
				if b.Kind == token.INT {
					v, _ := strconv.ParseInt(b.Value, 0, 64)
					ints = append(ints, v)
				}
				if b.Kind == token.FLOAT {
					floats = append(floats, b.Value)
				}
			}
			return true
		})
	}
	fmt.Fprintf(&sb, "Definition optimize_int_literals : list Z := %s.\n", zl(ints))
	fmt.Fprintf(&sb, "Definition optimize_float_literals : list string := [%s]%%string.\n", quoteAll(floats))

	// Edit: header-field assignments, section readers and the ordered output calls (with "!" when the error is checked)
	cur = "edit_assignments edit_sections edit_calls"
	fedit := parse(filepath.Join(dir, "edit.go"))
	var assigns, sections, calls []string
	if ed := funcDecl(fedit, "Edit"); ed != nil {
		checked := map[*ast.CallExpr]bool{}
		ast.Inspect(ed.Body, func(n ast.Node) bool {
			switch x := n.(type) {
			case *ast.IfStmt: // if _, err := call(); err != nil { return ... }
				if a, ok := x.Init.(*ast.AssignStmt); ok && len(a.Rhs) == 1 {
					if c, isC := a.Rhs[0].(*ast.CallExpr); isC && returnsErr(x) {
						checked[c] = true
					}
				}
			case *ast.BlockStmt: // x, err = call(); if err != nil { return err }
				for i, st := range x.List {
					if a, ok := st.(*ast.AssignStmt); ok && len(a.Rhs) == 1 && i+1 < len(x.List) {
						if c, isC := a.Rhs[0].(*ast.CallExpr); isC {
							if is, isIf := x.List[i+1].(*ast.IfStmt); isIf && is.Init == nil && returnsErr(is) {
								checked[c] = true
							}
						}
					}
				}
			}
			return true
		})
		ast.Inspect(ed.Body, func(n ast.Node) bool {
			switch x := n.(type) {
			case *ast.DeferStmt:
				return false
			case *ast.AssignStmt:
				if len(x.Lhs) == 1 && len(x.Rhs) == 1 {
					if f, ok := selField(x.Lhs[0], "newHeader"); ok {
						assigns = append(assigns, fmt.Sprintf("(\"%s\", \"%s\")", f, nodeText(x.Rhs[0])))
					}
				}
			case *ast.CallExpr:
				name := nodeText(x.Fun)
				switch name {
				case "io.NewSectionReader":
					if len(x.Args) == 3 {
						sections = append(sections, fmt.Sprintf("(\"%s\", \"%s\")", nodeText(x.Args[1]), nodeText(x.Args[2])))
					}
				case "os.Create", "os.Rename", "io.Copy", "file.WriteAt", "file.Close", "outfile.Close", "os.Remove", "os.OpenFile", "outfile.Sync", "file.Sync", "os.WriteFile", "file.Truncate", "file.Write", "outfile.Write":
					tag := name
					if name == "io.Copy" && len(x.Args) == 2 {
						tag += "<" + nodeText(x.Args[1]) + ">"
					}
					if checked[x] {
						tag += "!"
					}
					calls = append(calls, "\""+tag+"\"")
				}
			}
			return true
		})
	} else {
		gap("edit.go: func Edit not found")
	}
	fmt.Fprintf(&sb, "Definition edit_assignments : list (string * string) := [%s]%%string.\n", strings.Join(assigns, "; "))
	fmt.Fprintf(&sb, "Definition edit_sections : list (string * string) := [%s]%%string.\n", strings.Join(sections, "; "))
	fmt.Fprintf(&sb, "Definition edit_calls : list string := [%s]%%string.\n", strings.Join(calls, "; "))
	// Sync: the ordered file-output calls; everything is written to the temporary file and renamed last
	cur = "sync_calls"
	fsync := parse(filepath.Join(dir, "sync.go"))
	var scalls []string
	if sy := funcDecl(fsync, "Sync"); sy != nil {
		ast.Inspect(sy.Body, func(n ast.Node) bool {
			switch x := n.(type) {
			case *ast.DeferStmt:
				return false
			case *ast.CallExpr:
				name := nodeText(x.Fun)
				switch name {
				case "os.Create", "os.Rename", "outfile.Truncate", "outfile.Close", "oldFile.Close", "os.Remove", "os.WriteFile", "os.OpenFile", "outfile.Write", "outfile.WriteAt":
					arg := ""
					if len(x.Args) > 0 {
						arg = nodeText(x.Args[0])
					}
					scalls = append(scalls, "\""+name+"<"+arg+">\"")
				case "io.NewOffsetWriter":
					scalls = append(scalls, "\"offsetwriter<"+nodeText(x.Args[0])+","+nodeText(x.Args[1])+">\"")
				}
			}
			return true
		})
	} else {
		gap("sync.go: func Sync not found")
	}
	fmt.Fprintf(&sb, "Definition sync_calls : list string := [%s]%%string.\n", strings.Join(scalls, "; "))

	// headerToJson: the composite literal's fields
	cur = "header_to_json_fields"
	var hj []string
	if fn := funcDecl(fdir, "headerToJson"); fn != nil {
		ast.Inspect(fn.Body, func(n ast.Node) bool {
			if cl, ok := n.(*ast.CompositeLit); ok && nodeText(cl.Type) == "HeaderJson" {
				for _, el := range cl.Elts {
					if kv, isKV := el.(*ast.KeyValueExpr); isKV {
						hj = append(hj, fmt.Sprintf("(\"%s\", \"%s\")", nodeText(kv.Key), nodeText(kv.Value)))
					}
				}
				return false
			}
			return true
		})
	}
	if len(hj) == 0 {
		gap("directory.go: headerToJson composite literal not found")
	}
	fmt.Fprintf(&sb, "Definition header_to_json_fields : list (string * string) := [%s]%%string.\n", strings.Join(hj, "; "))

	for _, g := range gaps {
		fmt.Fprintf(&sb, "(* translator_gap: %s *)\n", strings.ReplaceAll(g, "*)", "* )"))
	}
	fmt.Print(sb.String())
}
func orZero(s string) string {
	if s == "" {
		return "0"
	}
	return s
}
func zl(v []int64) string {
	p := make([]string, len(v))
	for i, x := range v {
		p[i] = fmt.Sprint(x)
	}
	return "[" + strings.Join(p, ";") + "]"
}
func quoteAll(v []string) string {
	p := make([]string, len(v))
	for i, x := range v {
		p[i] = "\"" + x + "\""
	}
	return strings.Join(p, "; ")
}

// nodeText prints an expression on one line without redundant spaces.
func nodeText(n ast.Node) string {
	var b strings.Builder
	printer.Fprint(&b, token.NewFileSet(), n)
	t := strings.Join(strings.Fields(b.String()), " ")
	return strings.ReplaceAll(t, "\"", "'")
}

// returnsErr: the if statement tests err != nil and its body returns.
func returnsErr(is *ast.IfStmt) bool {
	b, ok := is.Cond.(*ast.BinaryExpr)
	if !ok || b.Op != token.NEQ || nodeText(b.X) != "err" || nodeText(b.Y) != "nil" {
		return false
	}
	for _, st := range is.Body.List {
		if _, isR := st.(*ast.ReturnStmt); isR {
			return true
		}
	}
	return false
}
