(* Vocabulary shared by the generated header tables (Gen/Generated.v) and the header model. *)
From Coq Require Import ZArith List.
Import ListNotations.
Open Scope Z_scope.

Inductive kind :=
| KMagic (bs:list Z)     (* fixed byte string; the reader rejects anything else *)
| KVersion (c:Z)         (* one byte: the writer stores the constant c, the reader rejects values > c *)
| KU64 | KU8 | KI32      (* little-endian unsigned 64 / one byte / little-endian two's-complement int32 *)
| KBool.                 (* one byte: writer stores 1 for true else 0; reader: true iff the byte is 1 *)
Definition width (k:kind) : nat :=
  match k with KMagic bs => length bs | KVersion _ => 1 | KU64 => 8 | KU8 => 1 | KI32 => 4 | KBool => 1 end.

(* a layout row: (offset, width, kind, field id). Field ids are positions in the Go struct HeaderV3. *)
Definition row := (nat * nat * kind * nat)%type.
Definition r_off (r:row) := fst (fst (fst r)).
Definition r_w (r:row) := snd (fst (fst r)).
Definition r_kind (r:row) := snd (fst r).
Definition r_fld (r:row) := snd r.

Definition kind_eqb (a b:kind) : bool :=
  match a, b with
  | KMagic x, KMagic y => if list_eq_dec Z.eq_dec x y then true else false
  | KVersion x, KVersion y => x =? y
  | KU64, KU64 | KU8, KU8 | KI32, KI32 | KBool, KBool => true
  | _, _ => false end.
