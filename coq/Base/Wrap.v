(* Go's fixed-width unsigned arithmetic on N: explicit wrap-around. Definitions only. *)
From Coq Require Import NArith.
Open Scope N_scope.
Definition w8  (x:N) := x mod 256.
Definition w32 (x:N) := x mod 2^32.
Definition w64 (x:N) := x mod 2^64.
Definition sub32 a b := w32 (a + 2^32 - w32 b).
(* shifts return 0 when the count is >= the width, as in Go *)
Definition shl64 (x n:N) := if n <? 64 then w64 (N.shiftl x n) else 0.
Definition shl32 (x n:N) := if n <? 32 then w32 (N.shiftl x n) else 0.
