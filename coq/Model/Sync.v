(* Model of makesync (pmtiles/makesync.go) and sync (pmtiles/sync.go).
   Archives are byte strings with the header fields sync reads given separately; entries are the flattened tile
   entries of a clustered archive in tile-ID order (IterateEntries).  [hash] stands for xxhash64: any function; the
   theorems carry the no-collision hypothesis for the pairs actually compared.  Definitions only. *)
From Coq Require Import NArith List Bool.
Import ListNotations.
From PM Require Import Model.Varint Model.Directory Model.FindTile Model.Resolver.
Open Scope N_scope.

(* ---- makesync: blocks over the clustered entry stream (makesync.go:150-183) *)
Record block := mkB { b_start : N; b_off : N; b_len : N }.
Inductive msres := MSPanic | MSOk (bl:list block).
(* current block, blocks sent to the hash workers (newest first) *)
Definition ms_step (bs:N) (st:option (block * list block)) (e:entry) : option (block * list block) :=
  match st with
  | None => None
  | Some (cur, out) =>
    if b_len cur =? 0 then Some (mkB (tid e) (off e) (len e), out)
    else if b_off cur + b_len cur <? off e then None                      (* "Invalid clustering" panic *)
    else if off e =? b_off cur + b_len cur then
      if bs <? b_len cur + len e then Some (mkB (tid e) (off e) (len e), cur :: out)
      else Some (mkB (b_start cur) (b_off cur) (b_len cur + len e), out)
    else Some (cur, out)                                                   (* back-reference to data already counted *)
  end.
Definition makesync_blocks (bs:N) (es:list entry) : msres :=
  match fold_left (ms_step bs) es (Some (mkB 0 0 0, [])) with
  | None => MSPanic
  | Some (cur, out) => MSOk (rev (cur :: out))        (* the last block is always sent; sorting by start = this order *)
  end.

Section Hash.
Variable hash : bytes -> N.

(* the .sync file carries (start, length, hash) per block; offsets are reconstructed as running sums *)
Record rblock := mkRB { rb_start : N; rb_off : N; rb_len : N; rb_hash : N }.
Definition sync_entries (data:bytes) (bl:list block) : list (N * N * N) :=
  map (fun b => (b_start b, b_len b, hash (slice data (b_off b) (b_len b)))) bl.
Fixpoint with_offsets (o:N) (l:list (N * N * N)) : list rblock :=
  match l with [] => [] | (s, n, h) :: r => mkRB s o n h :: with_offsets (o + n) r end.

(* ---- sync: diff of the remote blocks against the local entries (sync.go:163-204) *)
Fixpoint skip_lt (t:N) (bl:list rblock) : list rblock * list rblock :=
  match bl with
  | b :: r => if rb_start b <? t then let (w, rest) := skip_lt t r in (b :: w, rest) else ([], bl)
  | [] => ([], [])
  end.
Record copy := mkC { c_src : N; c_dst : N; c_len : N }.
(* ldata: the local file from its tile-data offset on (a section reader past the end of file reads short) *)
Fixpoint diff (ldata:bytes) (es:list entry) (bl:list rblock) (have:list copy) (wanted:list rblock) : list copy * list rblock :=
  match es with
  | [] => (have, wanted ++ bl)
  | e :: r =>
    let (w, rest) := skip_lt (tid e) bl in
    match rest with
    | b :: rest' =>
      if rb_start b =? tid e then
        if hash (slice ldata (off e) (rb_len b)) =? rb_hash b
        then diff ldata r rest' (have ++ [mkC (off e) (rb_off b) (rb_len b)]) (wanted ++ w)
        else diff ldata r rest' have (wanted ++ w ++ [b])
      else diff ldata r rest have (wanted ++ w)
    | [] => diff ldata r [] have (wanted ++ w)
    end
  end.
(* sort.Slice(have, by SrcOffset): insertion sort; the copies with equal source are interchangeable for the result *)
Fixpoint insert_copy (c:copy) (l:list copy) : list copy :=
  match l with [] => [c] | x :: r => if c_src c <? c_src x then c :: l else x :: insert_copy c r end.
Definition sort_have (l:list copy) : list copy := fold_left (fun acc c => insert_copy c acc) l [].
(* combine contiguous ranges: wanted on the (remote) offset, have on source and destination *)
Fixpoint merge_wanted (acc:list copy) (l:list rblock) : list copy :=
  match l with
  | [] => rev acc
  | v :: r =>
    match acc with
    | last :: acc' => if c_src last + c_len last =? rb_off v then merge_wanted (mkC (c_src last) (c_dst last) (c_len last + rb_len v) :: acc') r
                      else merge_wanted (mkC (rb_off v) (rb_off v) (rb_len v) :: acc) r
    | [] => merge_wanted [mkC (rb_off v) (rb_off v) (rb_len v)] r
    end
  end.
Fixpoint merge_have (acc:list copy) (l:list copy) : list copy :=
  match l with
  | [] => rev acc
  | v :: r =>
    match acc with
    | last :: acc' => if (c_src last + c_len last =? c_src v) && (c_dst last + c_len last =? c_dst v)
                      then merge_have (mkC (c_src last) (c_dst last) (c_len last + c_len v) :: acc') r
                      else merge_have (v :: acc) r
    | [] => merge_have [v] r
    end
  end.

(* ---- assembly into FILE.tmp (sync.go:246-379) *)
Definition write_at (o:N) (bs:bytes) (f:bytes) : bytes :=
  firstn (N.to_nat o) f ++ bs ++ skipn (N.to_nat o + length bs) f.
Record shdr := mkSH { s_meta_off : N; s_meta_len : N; s_leaf_off : N; s_leaf_len : N; s_data_off : N }.
Definition zeros (n:N) : bytes := repeat 0 (N.to_nat n).
Definition assemble (lfile rfile:bytes) (ldoff:N) (rh:shdr) (haves wants:list copy) : bytes :=
  let f := zeros (blen rfile) in
  let f := write_at 0 (slice rfile 0 16384) f in
  let f := write_at (s_meta_off rh) (slice rfile (s_meta_off rh) (s_meta_len rh)) f in
  let f := write_at (s_leaf_off rh) (slice rfile (s_leaf_off rh) (s_leaf_len rh)) f in
  let f := fold_left (fun f c => write_at (s_data_off rh + c_dst c) (slice lfile (ldoff + c_src c) (c_len c)) f) haves f in
  fold_left (fun f c => write_at (s_data_off rh + c_dst c) (slice rfile (s_data_off rh + c_src c) (c_len c)) f) wants f.

(* the whole command: the blocks of the .sync file as served, the local entries and file, the remote file *)
Record sync_out := mkSO { so_have : list copy; so_wanted : list copy; so_file : option bytes }.
Definition sync (dry:bool) (lfile:bytes) (ldoff:N) (les:list entry) (rfile:bytes) (rh:shdr) (blocks:list (N * N * N)) : sync_out :=
  let bl := with_offsets 0 blocks in
  let (have, wanted) := diff (skipn (N.to_nat ldoff) lfile) les bl [] [] in
  let haves := merge_have [] (sort_have have) in
  let wants := merge_wanted [] wanted in
  mkSO haves wants (if dry then None else Some (assemble lfile rfile ldoff rh haves wants)).
End Hash.

(* ---- Range headers: "a-b,c-d,..." batched under a byte budget (makeMultiRanges, sync.go:30-67) *)
Fixpoint digits_fuel (fuel:nat) (n:N) (acc:list N) : list N :=
  match fuel with
  | O => acc
  | S k => let acc' := (48 + n mod 10) :: acc in if n / 10 =? 0 then acc' else digits_fuel k (n / 10) acc'
  end.
Definition decimal (n:N) : list N := digits_fuel 40 n [].
Definition range_str (base:N) (c:copy) : list N := decimal (base + c_src c) ++ [45] ++ decimal (base + c_src c + c_len c - 1).
(* state: finished batches (newest first), current string, current ranges (newest first) *)
Definition mr_step (base maxb:N) (st:list (list N * list copy) * list N * list copy) (c:copy) :=
  let '(done, cur, rs) := st in
  let s := range_str base c in
  let '(done, cur, rs) := if (maxb <? blen cur + blen s + 1) && negb (blen cur =? 0) then ((cur, rev rs) :: done, [], []) else (done, cur, rs) in
  (done, (if blen cur =? 0 then s else cur ++ [44] ++ s), c :: rs).
Definition multi_ranges (base maxb:N) (l:list copy) : list (list N * list copy) :=
  let '(done, cur, rs) := fold_left (mr_step base maxb) l ([], [], []) in
  rev (if blen cur =? 0 then done else (cur, rev rs) :: done).

(* the file-output calls of Sync this model was written against (regenerated from sync.go on every run, Properties/C20.v) *)
From Coq Require Import String.
Module SpecSync.
Open Scope string_scope.
Definition sync_calls : list string := ["os.OpenFile<oldVersion>"; "os.Create<tmpFilename>"; "outfile.Truncate<int64(targetLength)>"; "offsetwriter<outfile,int64(newHeader.MetadataOffset)>"; "offsetwriter<outfile,int64(newHeader.LeafDirectoryOffset)>"; "offsetwriter<outfile,int64(newHeader.TileDataOffset + h.DstOffset)>"; "oldFile.Close<>"; "offsetwriter<outfile,int64(newHeader.TileDataOffset + task.ranges[0].DstOffset)>"; "offsetwriter<outfile,int64(newHeader.TileDataOffset + r.DstOffset)>"; "outfile.Close<>"; "os.Rename<tmpFilename>"].
End SpecSync.
