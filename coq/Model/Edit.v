(* Model of Edit (pmtiles/edit.go) on abstract archives, and of its two file-output paths as sequences of atomic
   file-system operations with crash points.  Definitions only. *)
From Coq Require Import NArith ZArith List Bool String.
Import ListNotations.
From PM Require Import Gen.Generated Model.Varint Model.Directory Model.Header Model.Resolver Model.Archive Model.PathParse Model.F64 Model.Http.
Open Scope Z_scope.

(* the header JSON of show / edit: names as byte strings; a number is a decimal literal mantissa / 10^scale as a user
   types it, or the text Go's encoder prints for a float64 (which Go's decoder reads back as the same float64: the
   shortest-representation round trip of strconv is part of the trusted base) *)
Inductive jnum := JDec (m:Z) (k:nat) | JF64 (f:f64).
Record hjson := mkHJ {
  hj_tcomp : list N; hj_ttype : list N; hj_minz : Z; hj_maxz : Z;
  hj_bounds : list jnum; hj_center : list jnum }.

Fixpoint name_lookup (name:list N) (t:list (string * Z)) (dflt:Z) : Z :=
  match t with [] => dflt | (s, v) :: r => if bytes_eqb name (bytes_of_string s) then v else name_lookup name r dflt end.
Definition w8z (z:Z) : Z := z mod 256.
Definition dec (d:jnum) : f64 := match d with JDec m k => dec_to_f64 m k | JF64 f => f end.

Inductive eres := EOk (a:archive) | EErr.
(* the editable header fields; None = len(bounds) <> 4 or len(center) <> 3 *)
Definition apply_hjson (h:header) (j:hjson) : option header :=
  match hj_bounds j, hj_center j with
  | [b0; b1; b2; b3], [c0; c1; c2] =>
    let h := upd h F_tile_type (name_lookup (hj_ttype j) Generated.tile_type_of_name_table Generated.tile_type_of_name_table_default) in
    let h := upd h F_tile_comp (name_lookup (hj_tcomp j) Generated.compression_of_name_table Generated.compression_of_name_table_default) in
    let h := upd (upd h F_min_zoom (w8z (hj_minz j))) F_max_zoom (w8z (hj_maxz j)) in
    let h := upd (upd (upd (upd h F_min_lon (to_e7 (dec b0))) F_min_lat (to_e7 (dec b1))) F_max_lon (to_e7 (dec b2))) F_max_lat (to_e7 (dec b3)) in
    Some (upd (upd (upd h F_center_lon (to_e7 (dec c0))) F_center_lat (to_e7 (dec c1))) F_center_zoom (w8z (go_trunc (dec c2))))
  | _, _ => None
  end.

(* headerToJson (directory.go): what show --header-json prints *)
Definition compression_name (tc:Z) : string :=
  match zlookup tc (map (fun '(k, s, b) => (k, (s, b))) Generated.compression_name_table) with
  | Some (s, _) => s | None => fst Generated.compression_name_table_default end.
Definition show_json (h:header) : hjson :=
  mkHJ (bytes_of_string (compression_name (h F_tile_comp))) (bytes_of_string (tile_type_name (h F_tile_type))) (h F_min_zoom) (h F_max_zoom)
    [JF64 (of_e7 (h F_min_lon)); JF64 (of_e7 (h F_min_lat)); JF64 (of_e7 (h F_max_lon)); JF64 (of_e7 (h F_max_lat))]
    [JF64 (of_e7 (h F_center_lon)); JF64 (of_e7 (h F_center_lat)); JF64 (f64_of_Z (h F_center_zoom))].

(* edit: optional header JSON, optional new metadata (already checked to be a JSON object by the caller of the model);
   metalen is the length of the re-serialized metadata section *)
Definition edit (a:archive) (j:option hjson) (meta:option (bytes * N)) : eres :=
  match j, meta with
  | None, None => EErr
  | _, _ =>
    match (match j with Some j => apply_hjson (a_hdr a) j | None => Some (a_hdr a) end) with
    | None => EErr
    | Some h =>
      match meta with
      | None => EOk (mkA h (a_entries a) (a_data a) (a_meta a))
      | Some (m, metalen) =>
        let ro := h F_root_off in let rl := h F_root_len in
        let h := upd h F_meta_off (ro + rl) in
        let h := upd h F_meta_len (Z.of_N metalen) in
        let h := upd h F_leaf_off (ro + rl + Z.of_N metalen) in
        let h := upd h F_data_off (ro + rl + Z.of_N metalen + h F_leaf_len) in
        EOk (mkA h (a_entries a) (a_data a) m)
      end
    end
  end.

(* ---- file output: a file system is a finite map path -> bytes; the two edit paths as operation sequences *)
Definition path := N.
Definition fs := list (path * bytes).
Fixpoint fs_get (p:path) (f:fs) : option bytes :=
  match f with [] => None | (q, b) :: r => if (p =? q)%N then Some b else fs_get p r end.
Definition fs_set (p:path) (b:bytes) (f:fs) : fs := (p, b) :: filter (fun x => negb (p =? fst x)%N) f.
Definition fs_del (p:path) (f:fs) : fs := filter (fun x => negb (p =? fst x)%N) f.
Inductive fop :=
| OCreate (p:path)                        (* os.Create: truncate / create empty *)
| OAppend (p:path) (b:bytes)              (* sequential write; may stop after any prefix when interrupted or failing *)
| OWriteAt0 (p:path) (b:bytes)            (* one pwrite at offset 0, assumed atomic (127 bytes) *)
| ORename (src dst:path)                  (* atomic *)
| OTruncate (p:path) (n:nat)              (* set the length, zero filled (sync) *)
| OPwrite (p:path) (o:nat) (b:bytes).     (* write at an offset; may stop after any prefix (sync) *)
Definition overwrite0 (old new:bytes) : bytes := (new ++ skipn (List.length new) old)%list.
Definition pwrite (o:nat) (b old:bytes) : bytes := (firstn o old ++ b ++ skipn (o + List.length b) old)%list.
Definition run_op (f:fs) (o:fop) : fs :=
  match o with
  | OTruncate p n => match fs_get p f with Some old => fs_set p (firstn n old ++ repeat 0%N (n - List.length old)) f | None => f end
  | OPwrite p o b => match fs_get p f with Some old => fs_set p (pwrite o b old) f | None => f end
  | OCreate p => fs_set p [] f
  | OAppend p b => match fs_get p f with Some old => fs_set p (old ++ b) f | None => f end
  | OWriteAt0 p b => match fs_get p f with Some old => fs_set p (overwrite0 old b) f | None => f end
  | ORename s d => match fs_get s f with Some b => fs_set d b (fs_del s f) | None => f end
  end.
(* the states a crash can leave: after any number of complete operations, possibly followed by a prefix of the next
   operation when it is an append *)
Fixpoint crash_states (f:fs) (ops:list fop) : list fs :=
  f :: match ops with
       | [] => []
       | o :: r =>
         (match o with
          | OAppend p b => map (fun n => run_op f (OAppend p (firstn n b))) (seq 0 (List.length b))
          | OPwrite p o b => map (fun n => run_op f (OPwrite p o (firstn n b))) (seq 0 (List.length b))
          | _ => [] end)
         ++ crash_states (run_op f o) r
       end.
(* an output-size limit L (RLIMIT_FSIZE, a full disk): the first append that would grow its file beyond L writes the
   part that fits and fails, and Edit returns at that point *)
Definition fsize (p:path) (f:fs) : nat := match fs_get p f with Some b => List.length b | None => 0 end.
Fixpoint run_limited (L:nat) (f:fs) (ops:list fop) : fs :=
  match ops with
  | [] => f
  | o :: r =>
    match o with
    | OAppend p b => if Nat.eqb (List.length b) 0 || Nat.leb (fsize p f + List.length b) L then run_limited L (run_op f o) r
                     else run_op f (OAppend p (firstn (L - fsize p f) b))
    | _ => run_limited L (run_op f o) r
    end
  end.
Definition header_edit_ops (archive:path) (hdr:bytes) : list fop := [OWriteAt0 archive hdr].
(* sync: everything is written into FILE.tmp, then renamed over the archive *)
Definition sync_ops (archive tmp:path) (target:nat) (writes:list (nat * bytes)) : list fop :=
  [OCreate tmp; OTruncate tmp target] ++ map (fun w => OPwrite tmp (fst w) (snd w)) writes ++ [ORename tmp archive].
Definition metadata_edit_ops (archive tmp:path) (hdr root meta leaves tiles:bytes) : list fop :=
  [OCreate tmp; OAppend tmp hdr; OAppend tmp root; OAppend tmp meta; OAppend tmp leaves; OAppend tmp tiles; ORename tmp archive].

(* ---- the statements of Edit and headerToJson this model was written against; Properties/C14.v proves the regenerated
   tables (Gen/Generated.v) equal to them, so any edit to those statements breaks the tie until the model is re-examined *)
Module SpecEdit.
Open Scope string_scope.
Definition edit_assignments : list (string * string) := [("TileType", "stringToTileType(newHeaderData.TileType)"); ("TileCompression", "stringToCompression(newHeaderData.TileCompression)"); ("MinZoom", "uint8(newHeaderData.MinZoom)"); ("MaxZoom", "uint8(newHeaderData.MaxZoom)"); ("MinLonE7", "int32(math.Round(newHeaderData.Bounds[0] * 10000000))"); ("MinLatE7", "int32(math.Round(newHeaderData.Bounds[1] * 10000000))"); ("MaxLonE7", "int32(math.Round(newHeaderData.Bounds[2] * 10000000))"); ("MaxLatE7", "int32(math.Round(newHeaderData.Bounds[3] * 10000000))"); ("CenterLonE7", "int32(math.Round(newHeaderData.Center[0] * 10000000))"); ("CenterLatE7", "int32(math.Round(newHeaderData.Center[1] * 10000000))"); ("CenterZoom", "uint8(newHeaderData.Center[2])"); ("MetadataOffset", "newHeader.RootOffset + newHeader.RootLength"); ("MetadataLength", "uint64(len(metadataBytes))"); ("LeafDirectoryOffset", "newHeader.MetadataOffset + newHeader.MetadataLength"); ("TileDataOffset", "newHeader.LeafDirectoryOffset + newHeader.LeafDirectoryLength")].
Definition edit_sections : list (string * string) := [("int64(oldHeader.RootOffset)", "int64(oldHeader.RootLength)"); ("int64(oldHeader.LeafDirectoryOffset)", "int64(oldHeader.LeafDirectoryLength)"); ("int64(oldHeader.TileDataOffset)", "int64(oldHeader.TileDataLength)")].
Definition edit_calls : list string := ["os.OpenFile"; "file.WriteAt!"; "file.Close"; "os.Create!"; "io.Copy<bytes.NewReader(buf)>"; "io.Copy<rootSection>!"; "io.Copy<bytes.NewReader(metadataBytes)>!"; "io.Copy<leafSection>!"; "io.Copy<tileSection>!"; "file.Close"; "outfile.Close"; "os.Rename!"].
Definition header_to_json_fields : list (string * string) := [("TileCompression", "compressionString"); ("TileType", "tileTypeToString(header.TileType)"); ("MinZoom", "int(header.MinZoom)"); ("MaxZoom", "int(header.MaxZoom)"); ("Bounds", "[]float64{float64(header.MinLonE7) / 10000000, float64(header.MinLatE7) / 10000000, float64(header.MaxLonE7) / 10000000, float64(header.MaxLatE7) / 10000000}"); ("Center", "[]float64{float64(header.CenterLonE7) / 10000000, float64(header.CenterLatE7) / 10000000, float64(header.CenterZoom)}")].
End SpecEdit.
