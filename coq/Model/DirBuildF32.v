(* The leaf-size sequence of optimizeDirectories for any entry count, in float32 (Flocq). *)
From Coq Require Import ZArith List.
From PM Require Import Model.F32 Model.DirBuild.
Definition go_sizes (n:N) (k:nat) : list N := map Z.to_N (leaf_seq k (leaf_start (Z.of_N n))).
