(* Model of how the local-directory bucket maps a key to a file (pmtiles/bucket.go:121-127 after the fix):
   filepath.IsLocal(key) must hold, then filepath.Join(root, key) = Clean(root + "/" + key).
   Paths are byte strings split on '/'; semantics of path/filepath on Unix (lexical only).  Definitions only. *)
From Coq Require Import NArith List Bool.
Import ListNotations.
Open Scope N_scope.

Definition seg := list N.
Definition seg_eqb (a b:seg) : bool := if list_eq_dec N.eq_dec a b then true else false.
Definition dot : seg := [46]. Definition dotdot : seg := [46;46].
Definition skip (s:seg) : bool := seg_eqb s [] || seg_eqb s dot.
Definition is_dd (s:seg) : bool := seg_eqb s dotdot.

(* strings.Split(p, "/") *)
Fixpoint split_slash (cur:seg) (p:list N) : list seg :=
  match p with
  | [] => [rev cur]
  | c :: r => if c =? 47 then rev cur :: split_slash [] r else split_slash (c :: cur) r
  end.
Definition segments (p:list N) : list seg := split_slash [] p.

(* path.Clean on an absolute path: stack (top first) of kept segments; ".." at the root is dropped *)
Fixpoint clean_abs (st:list seg) (p:list seg) : list seg :=
  match p with
  | [] => st
  | s :: r => if skip s then clean_abs st r
              else if is_dd s then clean_abs (tl st) r
              else clean_abs (s :: st) r
  end.

(* lexical part of filepath.IsLocal on a relative path: Clean never has to keep a ".." (None = escapes) *)
Fixpoint local_stack (st:list seg) (p:list seg) : option (list seg) :=
  match p with
  | [] => Some st
  | s :: r => if skip s then local_stack st r
              else if is_dd s then match st with [] => None | _ :: st' => local_stack st' r end
              else local_stack (s :: st) r
  end.
(* filepath.IsLocal: not empty, not absolute, does not escape *)
Definition is_local (key:list N) : bool :=
  match key with
  | [] => false
  | c :: _ => if c =? 47 then false else match local_stack [] (segments key) with Some _ => true | None => false end
  end.

Definition clean_seg (s:seg) : Prop := skip s = false /\ is_dd s = false.
(* Join(root,key) = Clean(root ++ "/" ++ key); root: the segments of an absolute, already clean directory *)
Definition join (root:list seg) (key:list N) : list seg := rev (clean_abs [] (root ++ segments key)).

(* the file the local backend opens for a key, or None when the key is refused (answered like a missing object) *)
Definition file_for_key (root:list seg) (key:list N) : option (list seg) :=
  if is_local key then Some (join root key) else None.
