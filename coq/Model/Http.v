(* Model of the HTTP contract of the server (pmtiles/server.go:277-541, tilejson.go, directory.go tables):
   routing, status decisions of the tile / metadata / TileJSON handlers over a quiescent single-version world,
   content headers from the regenerated tables, net/http.ServeContent's If-Match / If-None-Match evaluation and
   HEAD body suppression.  Versions, caching and faults are the subject of Model/Server*.v.  Definitions only. *)
From Coq Require Import NArith ZArith List Bool String.
Import ListNotations.
From PM Require Import Gen.Generated Model.Varint Model.Directory Model.Header Model.TileId Model.FindTile Model.Resolver
  Model.Archive Model.PathParse.
Open Scope N_scope.

Definition world := list (list N * archive).
Fixpoint find_archive (name:list N) (w:world) : option archive :=
  match w with [] => None | (n, a) :: r => if bytes_eqb name n then Some a else find_archive name r end.

(* table lookups over the regenerated switch tables *)
Fixpoint zlookup {A} (k:Z) (t:list (Z * A)) : option A :=
  match t with [] => None | (k', v) :: r => if (k =? k')%Z then Some v else zlookup k r end.
Definition content_type_of (tt:Z) : option string :=
  match zlookup tt (map (fun '(k, s, b) => (k, (s, b))) Generated.content_type_table) with
  | Some (s, true) => Some s | _ => None end.
Definition content_encoding_of (tc:Z) : option string :=
  match zlookup tc (map (fun '(k, s, b) => (k, (s, b))) Generated.compression_name_table) with
  | Some (s, true) => Some s | _ => None end.
Definition required_ext (tt:Z) : option (string * Z) :=
  zlookup tt (map (fun '(k, s, st) => (k, (s, st))) Generated.ext_table).
Definition tile_type_name (tt:Z) : string :=
  match zlookup tt Generated.tile_type_name_table with Some s => s | None => Generated.tile_type_name_table_default end.

Record tjinfo := mkTJ { tj_tiles : list N; tj_minzoom : Z; tj_maxzoom : Z; tj_bounds : list Z; tj_center : list Z }.
Inductive body := BNone | BBytes (b:bytes) | BTileJSON (t:tjinfo).
Record resp := mkResp { rs_status : N; rs_ctype : option string; rs_cenc : option string; rs_etag : bool; rs_body : body }.
Definition plain (st:N) : resp := mkResp st None None false BNone.

Definition get_tile (w:world) (t:tile_req) : resp :=
  match find_archive (tr_name t) w with
  | None => plain 404
  | Some a =>
    let h := a_hdr a in
    if (tr_z t <? hN h F_min_zoom) || (hN h F_max_zoom <? tr_z t) then plain 404 else
    match (match required_ext (h F_tile_type) with
           | Some (e, st) => if bytes_eqb (tr_ext t) (bytes_of_string e) then None else Some st
           | None => None end) with
    | Some st => plain (Z.to_N st)
    | None =>
      match cover (a_entries a) (zxy_to_id (tr_z t) (tr_x t) (tr_y t)) with
      | None => plain 204
      | Some e => mkResp 200 (content_type_of (h F_tile_type)) (content_encoding_of (h F_tile_comp)) true (BBytes (content_at (a_data a) e))
      end
    end
  end.

Definition json_ct : string := "application/json".
Definition get_metadata (w:world) (name:list N) : resp :=
  match find_archive name w with
  | None => plain 404
  | Some a => mkResp 200 (Some json_ct) None true (BBytes (a_meta a))
  end.
Definition header_ext (tt:Z) : list N :=
  let b := tile_type_name tt in if String.eqb b "" then [] else bytes_of_string ("." ++ b).
Definition get_tilejson (w:world) (public:list N) (name:list N) : resp :=
  match find_archive name w with
  | None => plain 404
  | Some a =>
    match public with
    | [] => plain 501
    | _ =>
      let h := a_hdr a in
      mkResp 200 (Some json_ct) None true
        (BTileJSON (mkTJ (public ++ [47] ++ name ++ bytes_of_string "/{z}/{x}/{y}" ++ header_ext (h F_tile_type))
                         (h F_min_zoom) (h F_max_zoom)
                         [h F_min_lon; h F_min_lat; h F_max_lon; h F_max_lat] [h F_center_lon; h F_center_lat; h F_center_zoom]))
    end
  end.

Definition get (w:world) (public:list N) (path:list N) : resp :=
  match route_of path with
  | RTile t => get_tile w t
  | RTileJSON n => get_tilejson w public n
  | RMetadata n => get_metadata w n
  | RRoot => plain 204
  | RNotFound => plain 404
  end.

(* ServeHTTP: method gate, conditional requests on 200 (ServeContent), HEAD *)
Inductive meth := MGet | MHead | MOther.
Inductive condhdr := HNone | HIfNoneMatchSame | HIfNoneMatchOther | HIfNoneMatchStar | HIfMatchSame | HIfMatchOther.
Definition serve_http (w:world) (public:list N) (m:meth) (path:list N) (c:condhdr) : resp :=
  match m with
  | MOther => plain 405
  | _ =>
    let r := get w public path in
    if rs_status r =? 200 then
      match c with
      | HIfMatchOther => plain 412
      | HIfNoneMatchSame | HIfNoneMatchStar => mkResp 304 None None true BNone
      | _ => match m with MHead => mkResp 200 (rs_ctype r) (rs_cenc r) true BNone | _ => r end
      end
    else mkResp (rs_status r) None None false BNone
  end.

(* ---- the specification's tables (what the regenerated ones must equal) *)
Module SpecTables.
Definition content_types : list (Z * string * bool) :=
  [(1, "application/x-protobuf", true); (2, "image/png", true); (3, "image/jpeg", true); (4, "image/webp", true); (5, "image/avif", true)]%Z%string.
Definition encodings : list (Z * string * bool) := [(1, "none", false); (2, "gzip", true); (3, "br", true); (4, "zstd", true)]%Z%string.
Definition extensions : list (Z * string * Z) := [(1, "mvt", 400); (2, "png", 400); (3, "jpg", 400); (4, "webp", 400); (5, "avif", 400)]%Z%string.
Definition type_names : list (Z * string) := [(1, "mvt"); (2, "png"); (3, "jpg"); (4, "webp"); (5, "avif")]%Z%string.
End SpecTables.
