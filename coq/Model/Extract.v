(* Models of the pure parts of extract (pmtiles/extract.go): RelevantEntries (directory ∩ bitmap with run trimming),
   reencodeEntries (contiguous output offsets + source range list), MergeRanges (overfetch merging into
   copy/discard plans, float32 budget), and the execution of plans on byte maps.  Definitions only. *)
From Coq Require Import NArith ZArith List Bool Arith.
Import ListNotations.
From PM Require Import Model.Varint Model.Directory Model.TileId Model.F32.
Open Scope N_scope.

(* ---- relevance bitmap: a finite set of tile ids given as half-open intervals (what roaring64 holds) *)
Definition bitmap := list (N * N).
Definition bm_mem (b:bitmap) (id:N) : bool := existsb (fun p => (fst p <=? id) && (id <? snd p)) b.
Definition bm_intersects (b:bitmap) (lo hi:N) : bool :=
  existsb (fun p => (N.max lo (fst p) <? N.min hi (snd p))) b.

(* trim one run to the bitmap: maximal segments of consecutive member ids *)
Fixpoint trim_run (fuel:nat) (b:bitmap) (e:entry) (y:N) (cur_id cur_len:N) : list entry :=
  match fuel with
  | O => if 0 <? cur_len then [mkE cur_id (off e) (len e) cur_len] else []
  | S f =>
    if bm_mem b y then
      (if cur_len =? 0 then trim_run f b e (y+1) y 1 else trim_run f b e (y+1) cur_id (cur_len+1))
    else
      (if 0 <? cur_len then mkE cur_id (off e) (len e) cur_len :: trim_run f b e (y+1) (tid e) 0
       else trim_run f b e (y+1) (tid e) 0)
  end.

Fixpoint relevant (b:bitmap) (last_tile:N) (dir:list entry) : list entry * list entry :=
  match dir with
  | [] => ([], [])
  | e :: r =>
    let '(tiles, leaves) := relevant b last_tile r in
    if run e =? 0 then
      let hi := match r with [] => last_tile | e' :: _ => tid e' end in
      if bm_intersects b (tid e) hi then (tiles, e :: leaves) else (tiles, leaves)
    else if run e =? 1 then
      if bm_mem b (tid e) then (e :: tiles, leaves) else (tiles, leaves)
    else (trim_run (N.to_nat (run e)) b e (tid e) (tid e) 0 ++ tiles, leaves)
  end.
Definition relevant_entries (b:bitmap) (maxzoom:N) (dir:list entry) : list entry * list entry :=
  relevant b (zxy_to_id (w8 (maxzoom + 1)) 0 0) dir.

(* ---- reencodeEntries *)
Record srange := mkSR { r_src : N; r_dst : N; r_len : N }.
Fixpoint olookup (o:N) (m:list (N*N)) : option N :=
  match m with [] => None | (k,v) :: r => if o =? k then Some v else olookup o r end.
Record rstate := mkRS { rs_out : list entry; rs_seen : list (N*N); rs_ranges : list srange; rs_dst : N; rs_addr : N }.
Definition reencode_step (st:rstate) (e:entry) : rstate :=
  match olookup (off e) (rs_seen st) with
  | Some v => mkRS (mkE (tid e) v (len e) (run e) :: rs_out st) (rs_seen st) (rs_ranges st) (rs_dst st) (rs_addr st + run e)
  | None =>
    let ranges := match rs_ranges st with
                  | last :: rest => if r_src last + r_len last =? off e then mkSR (r_src last) (r_dst last) (r_len last + len e) :: rest
                                    else mkSR (off e) (rs_dst st) (len e) :: rs_ranges st
                  | [] => [mkSR (off e) (rs_dst st) (len e)]
                  end in
    mkRS (mkE (tid e) (rs_dst st) (len e) (run e) :: rs_out st) ((off e, rs_dst st) :: rs_seen st) ranges (rs_dst st + len e) (rs_addr st + run e)
  end.
(* (re-encoded entries, source ranges in destination order, tile data length, addressed tiles, tile contents) *)
Definition reencode (dir:list entry) : list entry * list srange * N * N * N :=
  let st := fold_left reencode_step dir (mkRS [] [] [] 0 0) in
  (rev (rs_out st), rev (rs_ranges st), rs_dst st, rs_addr st, N.of_nat (length (rs_seen st))).

(* ---- MergeRanges *)
(* gap after range i: None when it is the last one or the next range starts before this one ends *)
Fixpoint gaps (rs:list srange) : list (option Z) :=
  match rs with
  | r :: ((r' :: _) as t) =>
      let g := (Z.of_N (r_src r') - (Z.of_N (r_src r) + Z.of_N (r_len r)))%Z in
      (if (g <? 0)%Z then None else Some g) :: gaps t
  | _ => [None]
  end.
(* candidate merges (index, gap) in ascending gap order; ties in index order (Go's sort.Slice is not stable:
   inputs with tied gaps are compared through the proved plan checker instead) *)
Fixpoint insert_gap (x:nat*Z) (l:list (nat*Z)) : list (nat*Z) :=
  match l with [] => [x] | y :: r => if (snd x <? snd y)%Z then x :: l else y :: insert_gap x r end.
Fixpoint index_gaps (i:nat) (gs:list (option Z)) : list (nat*Z) :=
  match gs with [] => [] | Some g :: r => (i, g) :: index_gaps (S i) r | None :: r => index_gaps (S i) r end.
Definition sorted_gaps (rs:list srange) : list (nat*Z) := fold_right insert_gap [] (rev (index_gaps 0 (gaps rs))).
(* take gaps while the budget lasts; stop at the first that does not fit *)
Fixpoint take_gaps (budget:Z) (cands:list (nat*Z)) : list nat :=
  match cands with
  | [] => []
  | (i, g) :: r => if (0 <=? budget - g)%Z then i :: take_gaps (budget - g) r else []
  end.
(* copy/discard plan of one request *)
Record plan := mkPlan { p_src : N; p_dst : N; p_len : N; p_cds : list (N*N) }.
Definition memb (i:nat) (l:list nat) : bool := existsb (Nat.eqb i) l.
(* fold the ranges into groups: range i joins range i+1 when gap i was taken *)
Fixpoint group (taken:list nat) (i:nat) (rs:list srange) (gs:list (option Z)) (cur:option plan) : list plan :=
  match rs, gs with
  | r :: rt, g :: gt =>
      let joined := memb i taken in
      let gapn := match g with Some z => Z.to_N z | None => 0 end in
      let d := if joined then gapn else 0 in
      let cur' := match cur with
                  | None => mkPlan (r_src r) (r_dst r) (r_len r + d) [(r_len r, d)]
                  | Some p => mkPlan (p_src p) (p_dst p) (p_len p + r_len r + d) (p_cds p ++ [(r_len r, d)])
                  end in
      if joined then group taken (S i) rt gt (Some cur') else cur' :: group taken (S i) rt gt None
  | _, _ => match cur with Some p => [p] | None => [] end
  end.
Definition total_len (rs:list srange) : Z := fold_right (fun r a => (Z.of_N (r_len r) + a)%Z) 0%Z rs.
(* overfetchBudget := int(float32(totalSize) * overfetch) *)
Definition budget_f32 (total:Z) (overfetch:Flocq.IEEE754.Bits.binary32) : Z := trunc32 (f32_mul (f32_of_Z total) overfetch).
Definition merge_with_budget (rs:list srange) (budget:Z) : list plan :=
  group (take_gaps budget (sorted_gaps rs)) 0 rs (gaps rs) None.
Definition merge_ranges (rs:list srange) (overfetch:Flocq.IEEE754.Bits.binary32) : list plan :=
  merge_with_budget rs (budget_f32 (total_len rs) overfetch).
Definition requested (ps:list plan) : N := fold_right (fun p a => p_len p + a) 0 ps.

(* ---- the checker for plans produced by ANY tie-breaking: the plans, put in source-range order, partition the
   ranges into runs; inside a run each gap is non-negative and is the discard; merged gaps fit the budget; every
   merged gap is not larger than any gap left unmerged (greedy by size) *)
Fixpoint plan_matches (p:plan) (rs:list srange) : option (list srange) :=  (* consumes the ranges of p, returns the rest *)
  let fix go (cds:list (N*N)) (rs:list srange) (pos:N) : option (list srange) :=
    match cds, rs with
    | [], _ => Some rs
    | (w, d) :: ct, r :: rt =>
        if (r_len r =? w) && (r_src r =? pos) then go ct rt (pos + w + d) else None
    | _ :: _, [] => None
    end in
  match rs with
  | r :: _ => if (r_src r =? p_src p) && (r_dst r =? p_dst p) then go (p_cds p) rs (p_src p) else None
  | [] => None
  end.
Fixpoint plans_cover (ps:list plan) (rs:list srange) : bool :=
  match ps with
  | [] => match rs with [] => true | _ => false end
  | p :: pt => match plan_matches p rs with Some rest => plans_cover pt rest | None => false end
  end.
Definition discards (ps:list plan) : Z := fold_right (fun p a => (fold_right (fun c b => Z.of_N (snd c) + b) 0 (p_cds p) + a)%Z) 0%Z ps.
Definition cds_len (p:plan) : N := fold_right (fun c a => fst c + snd c + a) 0 (p_cds p).
Definition last_discard_zero (p:plan) : bool := match rev (p_cds p) with (_, d) :: _ => d =? 0 | [] => false end.
Definition plan_ok (rs:list srange) (ps_in_dst_order:list plan) (budget:Z) : bool :=
  plans_cover ps_in_dst_order rs && (discards ps_in_dst_order <=? budget)%Z &&
  forallb (fun p => (cds_len p =? p_len p) && last_discard_zero p) ps_in_dst_order.

(* ---- executing plans: source and destination as byte maps; a request reads the source sequentially *)
Definition mem := N -> N.
Definition copy (S:mem) (sp dp w:N) (D:mem) : mem :=
  fun a => if (dp <=? a) && (a <? dp + w) then S (sp + (a - dp)) else D a.
Fixpoint exec_cds (S:mem) (sp dp:N) (cds:list (N*N)) (D:mem) : mem :=
  match cds with [] => D | (w,d) :: r => exec_cds S (sp + w + d) (dp + w) r (copy S sp dp w D) end.
Definition exec_plan (S:mem) (p:plan) (D:mem) : mem := exec_cds S (p_src p) (p_dst p) (p_cds p) D.
Definition exec_all (S:mem) (ps:list plan) (D:mem) : mem := fold_left (fun d p => exec_plan S p d) ps D.
Definition trivial_plan (r:srange) : plan := mkPlan (r_src r) (r_dst r) (r_len r) [(r_len r, 0)].
