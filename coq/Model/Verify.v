(* Model of Verify (pmtiles/verify.go) after the two "fix:" commits (clustered-order check actually runs;
   out-of-section / out-of-order entries are errors).  Input: the header fields, the flattened tile entries
   as IterateEntries delivers them (None = the enumeration failed) and the file size.  Definitions only. *)
From Coq Require Import NArith ZArith List Bool.
Import ListNotations.
From PM Require Import Model.Varint Model.Directory Model.Header Model.TileId Model.Archive.
Open Scope N_scope.

Inductive verr :=
| VRootOff0 | VMetaOff0 | VLeafOff0 | VDataOff0
| VRootLen | VMetaLen | VLeafLen | VDataLen | VTotalLen
| VIterate | VOutside | VOrder
| VAddressed | VEntries | VContents | VMinZoom | VMaxZoom | VCenterZoom | VBounds.

Definition int64_of (u:N) : Z := let w := w64 u in if w <? 2^63 then Z.of_N w else (Z.of_N w - 2^64)%Z.

(* per-entry accumulation: (seen offsets, current offset, addressed, count, min id, max id, first entry error) *)
Record vacc := mkV { v_seen : list N; v_cur : N; v_addr : N; v_cnt : N; v_min : N; v_max : N; v_err : option verr }.
Definition vinit := mkV [] 0 0 0 (2^64-1) 0 None.
Definition seen (o:N) (s:list N) : bool := existsb (N.eqb o) s.
Definition vstep (clustered:bool) (data_len:N) (a:vacc) (e:entry) : vacc :=
  let err1 := match v_err a with Some x => Some x | None => if data_len <? w64 (off e + len e) then Some VOutside else None end in
  let fresh := negb (seen (off e) (v_seen a)) in
  let err2 := match err1 with Some x => Some x | None =>
                if clustered && fresh && negb (off e =? v_cur a) then Some VOrder else None end in
  mkV (if fresh then off e :: v_seen a else v_seen a)
      (if clustered && fresh then w64 (v_cur a + len e) else v_cur a)
      (v_addr a + run e) (v_cnt a + 1)
      (if tid e <? v_min a then tid e else v_min a) (if v_max a <? tid e then tid e else v_max a) err2.

Definition verify (h:header) (es:option (list entry)) (fsize:Z) : option verr :=
  let u f := hN h f in
  if u F_root_off =? 0 then Some VRootOff0 else
  if u F_meta_off =? 0 then Some VMetaOff0 else
  if u F_leaf_off =? 0 then Some VLeafOff0 else
  if u F_data_off =? 0 then Some VDataOff0 else
  let fs := Z.to_N fsize in   (* uint64(fileInfo.Size()) *)
  if fs <? u F_root_len then Some VRootLen else
  if fs <? u F_meta_len then Some VMetaLen else
  if fs <? u F_leaf_len then Some VLeafLen else
  if fs <? u F_data_len then Some VDataLen else
  let from_hdr := int64_of (127 + u F_root_len + u F_meta_len + u F_leaf_len + u F_data_len) in
  let padded := int64_of (16384 + u F_meta_len + u F_leaf_len + u F_data_len) in
  if negb ((fsize =? from_hdr)%Z || (fsize =? padded)%Z) then Some VTotalLen else
  match es with
  | None => Some VIterate
  | Some es =>
    let a := fold_left (vstep (h F_clustered =? 1)%Z (u F_data_len)) es vinit in
    match v_err a with Some x => Some x | None =>
    if negb (w64 (v_addr a) =? u F_addressed) then Some VAddressed else
    if negb (w64 (v_cnt a) =? u F_entries) then Some VEntries else
    if negb (N.of_nat (length (v_seen a)) =? u F_contents) then Some VContents else
    if negb (zoom_of (v_min a) =? u F_min_zoom) then Some VMinZoom else
    if negb (zoom_of (v_max a) =? u F_max_zoom) then Some VMaxZoom else
    if negb ((u F_min_zoom <=? u F_center_zoom) && (u F_center_zoom <=? u F_max_zoom)) then Some VCenterZoom else
    if ((h F_max_lon <=? h F_min_lon) || (h F_max_lat <=? h F_min_lat))%Z then Some VBounds else None
    end
  end.
