(* Model of the caching tile server (pmtiles/server.go) as a labelled transition system at the granularity of
   loop messages and bucket calls.  The state holds the bucket (current version per archive + history), the event
   loop's cache and in-flight table, the two message queues, the spawned fetches that have not read the bucket
   yet, the request handlers (resumable state machines) and the completed requests.
   A version of an archive is opaque: the handlers use it only through zoom_ok / ext_ok / root / dir_lookup /
   leaf_base / tile_base, and [answer v q] is what an uncached, single-version lookup answers.
   The handler modelled is the repaired one (a failed directory fetch is a 500, not an absent tile).
   Eviction is "any cache entry may vanish at any time", which covers the LRU policy of the Go code.
   Definitions only; the invariant and its proof are in Proofs/Server.v. *)
From Coq Require Import NArith List Bool Arith.
Import ListNotations.
Open Scope N_scope.

(* what the handlers may ask of one version of an archive *)
Inductive look := LNone | LTile (o l:N) | LLeaf (o l:N).
Class Version := {
  ver : Type;
  vtag : ver -> N;                      (* the version tag the bucket reports; 0 stands for "no tag" *)
  zoom_ok : ver -> N -> bool;           (* requested zoom within the header's zoom range *)
  ext_ok : ver -> N -> bool;            (* requested extension matches the header's tile type *)
  root : ver -> N * N;                  (* root directory offset, length *)
  dir_lookup : ver -> N -> N -> N -> look;   (* findTile in the directory at (offset,length) *)
  leaf_base : ver -> N;
  tile_base : ver -> N;
  meta_off : ver -> N;                  (* metadata section: offset and length in the header *)
  meta_len : ver -> N
}.

Section Server.
Context `{V:Version}.

Record key := mkK { kn : N; ke : N; ko : N; kl : N }.
Definition key_eqb (a b:key) := (kn a =? kn b) && (ke a =? ke b) && (ko a =? ko b) && (kl a =? kl b).
Definition hdrkey (n:N) := mkK n 0 0 0.

Inductive payload := PHeader (v:ver) | PDir (v:ver) (o l:N).
Record cval := mkV { cv_pay : option payload; cv_etag : N; cv_ok : bool; cv_bad : bool }.
(* t_kind: 0 = tile request, 1 = /name/metadata, 2 = /name.json (TileJSON); the last two read the metadata section *)
Record treq := mkQ { t_name : N; t_z : N; t_ext : N; t_id : N; t_kind : N }.
Inductive resp := R200 (v:ver) (o l:N) | R204 | R404 | R400 | R500.

Inductive hstate :=
| HWaitHdr (w:nat) (q:treq) (attempt:nat)
| HWaitDir (w:nat) (q:treq) (attempt:nat) (hv:ver) (o l:N) (depth:nat)
| HWaitTile (q:treq) (attempt:nat) (hv:ver) (o l:N).
Definition waiting (h:hstate) : option nat :=
  match h with HWaitHdr w _ _ => Some w | HWaitDir w _ _ _ _ _ _ => Some w | HWaitTile _ _ _ _ _ => None end.

Record sys := mkS {
  cur : N -> option ver;
  hist : list (N * ver);
  cache : list (key * cval);
  inflight : list (key * list (nat * nat));      (* key -> waiting (msg id, rid) *)
  reqq : list (nat * nat * key * N);            (* msg id, rid, key, purge tag *)
  respq : list (key * cval);
  fetches : list key;
  handlers : list (nat * hstate);
  dones : list (nat * treq * resp);
  next : nat
}.

Fixpoint walk (v:ver) (o l id:N) (fuel:nat) : resp :=
  match fuel with O => R204 | S f =>
    match dir_lookup v o l id with
    | LNone => R204
    | LTile to tl => R200 v (tile_base v + to) tl
    | LLeaf lo ll => walk v (leaf_base v + lo) ll id f
    end end.
(* base of the offsets a handler reads with its final conditional read: the tile data for tiles, 0 for the metadata section *)
Definition rbase (v:ver) (q:treq) : N := if t_kind q =? 0 then tile_base v else 0.
Definition answer (v:ver) (q:treq) : resp :=
  if negb (t_kind q =? 0) then R200 v (meta_off v) (meta_len v)
  else if negb (zoom_ok v (t_z q)) then R404 else if negb (ext_ok v (t_ext q)) then R400
  else walk v (fst (root v)) (snd (root v)) (t_id q) 4.

Fixpoint lookup {A} (k:key) (m:list (key*A)) : option A :=
  match m with [] => None | (k',a)::r => if key_eqb k k' then Some a else lookup k r end.
Definition remove_key {A} (k:key) (m:list (key*A)) := filter (fun p => negb (key_eqb k (fst p))) m.
Definition purge (n e:N) (m:list (key*cval)) :=
  filter (fun p => negb ((kn (fst p) =? n) && ((ke (fst p) =? e) || (cv_etag (snd p) =? e)))) m.
Fixpoint get_handler (rid:nat) (hs:list (nat*hstate)) : option hstate :=
  match hs with [] => None | (r,x)::t => if Nat.eqb r rid then Some x else get_handler rid t end.
Definition set_handler (rid:nat) (h:option hstate) (hs:list (nat*hstate)) : list (nat*hstate) :=
  let rest := filter (fun p => negb (Nat.eqb (fst p) rid)) hs in
  match h with Some x => (rid,x) :: rest | None => rest end.

(* what a handler does with a delivered value: new state, optional new loop request (key,purge), optional completion.
   The new request, if any, gets message id [m]. *)
Inductive hout := HO (h:option hstate) (req:option (key * N)) (done:option (treq*resp)).

Definition retry (m:nat) (q:treq) (a:nat) (hv:ver) : hout :=
  match a with
  | O => HO (Some (HWaitHdr m q 1)) (Some (hdrkey (t_name q), vtag hv)) None
  | _ => HO None None (Some (q, R500))
  end.

Definition deliver (m:nat) (h:hstate) (cv:cval) : hout :=
  match h with
  | HWaitHdr _ q a =>
      if negb (cv_ok cv) then HO None None (Some (q, R404))
      else match cv_pay cv with
           | Some (PHeader hv) =>
               if negb (t_kind q =? 0) then HO (Some (HWaitTile q a hv (meta_off hv) (meta_len hv))) None None   (* getHeaderMetadataAttempt *)
               else if negb (zoom_ok hv (t_z q)) then HO None None (Some (q, R404))
               else if negb (ext_ok hv (t_ext q)) then HO None None (Some (q, R400))
               else HO (Some (HWaitDir m q a hv (fst (root hv)) (snd (root hv)) 0))
                       (Some (mkK (t_name q) (vtag hv) (fst (root hv)) (snd (root hv)), 0)) None
           | _ => HO None None (Some (q, R500))
           end
  | HWaitDir _ q a hv o l d =>
      if cv_bad cv then retry m q a hv
      else if negb (cv_ok cv) then HO None None (Some (q, R500))      (* repaired handler: unavailable <> absent *)
      else match cv_pay cv with
           | Some (PDir v' o' l') =>
               match dir_lookup v' o' l' (t_id q) with
               | LNone => HO None None (Some (q, R204))
               | LTile to tl => HO (Some (HWaitTile q a hv to tl)) None None
               | LLeaf lo ll =>
                   if Nat.leb 3 d then HO None None (Some (q, R204))
                   else HO (Some (HWaitDir m q a hv (leaf_base hv + lo) ll (S d)))
                           (Some (mkK (t_name q) (vtag hv) (leaf_base hv + lo) ll, 0)) None
               end
           | _ => HO None None (Some (q, R500))
           end
  | HWaitTile q a hv o l => HO (Some h) None None
  end.

Definition apply_out (s:sys) (rid:nat) (o:hout) : sys :=
  match o with HO h rq dn =>
    mkS (cur s) (hist s) (cache s) (inflight s)
        (match rq with Some (k,p) => reqq s ++ [(next s, rid, k, p)] | None => reqq s end)
        (respq s) (fetches s)
        (set_handler rid h (handlers s))
        (match dn with Some (q,r) => (rid,q,r) :: dones s | None => dones s end)
        (S (next s))
  end.

Definition deliver_to (s:sys) (mr:nat*nat) (cv:cval) : sys :=
  match get_handler (snd mr) (handlers s) with
  | Some h => match waiting h with
              | Some w => if Nat.eqb w (fst mr) then apply_out s (snd mr) (deliver (next s) h cv) else s
              | None => s end
  | None => s
  end.

Definition failv (bad:bool) := mkV None 0 false bad.

Definition fetch_result (s:sys) (k:key) : list (key * cval) :=
  match cur s (kn k) with
  | None => [(k, failv false)]
  | Some v =>
      if negb (ke k =? 0) && negb (ke k =? vtag v) then [(k, failv true)]
      else if (ko k =? 0) && (kl k =? 0) then
        [(mkK (kn k) 0 (fst (root v)) (snd (root v)), mkV (Some (PDir v (fst (root v)) (snd (root v)))) (vtag v) true false);
         (k, mkV (Some (PHeader v)) (vtag v) true false)]
      else [(k, mkV (Some (PDir v (ko k) (kl k))) (vtag v) true false)]
  end.

Definition upd (s:sys) c i rq rs f := mkS (cur s) (hist s) c i rq rs f (handlers s) (dones s) (next s).

Inductive tfail := TFRefresh | TFError | TFRead.
Inductive step : sys -> sys -> Prop :=
| SStart s rid q :
    get_handler rid (handlers s) = None ->
    step s (mkS (cur s) (hist s) (cache s) (inflight s) (reqq s ++ [(next s, rid, hdrkey (t_name q), 0)]) (respq s) (fetches s)
                (set_handler rid (Some (HWaitHdr (next s) q 0)) (handlers s)) (dones s) (S (next s)))
| SLoopReq s pre m rid k p post :
    reqq s = pre ++ (m,rid,k,p) :: post ->
    let c1 := if p =? 0 then cache s else purge (kn k) p (cache s) in
    step s (match lookup k c1 with
            | Some cv => deliver_to (upd s c1 (inflight s) (pre ++ post) (respq s) (fetches s)) (m,rid) cv
            | None =>
              match lookup k (inflight s) with
              | Some ws => upd s c1 ((k, ws ++ [(m,rid)]) :: remove_key k (inflight s)) (pre ++ post) (respq s) (fetches s)
              | None => upd s c1 ((k,[(m,rid)]) :: inflight s) (pre ++ post) (respq s) (k :: fetches s)
              end
            end)
| SFetchDo s pre k post :
    fetches s = pre ++ k :: post ->
    step s (upd s (cache s) (inflight s) (reqq s) (respq s ++ fetch_result s k) (pre ++ post))
| SLoopResp s pre k cv post :
    respq s = pre ++ (k,cv) :: post ->
    let ws := match lookup k (inflight s) with Some ws => ws | None => [] end in
    step s (fold_left (fun st mr => deliver_to st mr cv) ws
              (upd s (if cv_ok cv then (k,cv) :: cache s else cache s) (remove_key k (inflight s)) (reqq s) (pre ++ post) (fetches s)))
| SEvict s k :
    step s (upd s (remove_key k (cache s)) (inflight s) (reqq s) (respq s) (fetches s))
| STileDo s rid q a hv o l :
    get_handler rid (handlers s) = Some (HWaitTile q a hv o l) ->
    step s (match cur s (t_name q) with
            | None => apply_out s rid (HO None None (Some (q, R404)))
            | Some v => if vtag v =? vtag hv then apply_out s rid (HO None None (Some (q, R200 v (rbase hv q + o) l)))
                        else apply_out s rid (retry (next s) q a hv)
            end)
| SFetchFail s pre k post bad :      (* the bucket call of a fetch fails: any error (bad = refresh-required class), or bytes that do not parse *)
    fetches s = pre ++ k :: post ->
    step s (upd s (cache s) (inflight s) (reqq s) (respq s ++ [(k, failv bad)]) (pre ++ post))
| STileFail s rid q a hv o l kind :   (* the tile read fails: refresh-required -> one retry; other error -> 404; read error mid-stream -> 500 *)
    get_handler rid (handlers s) = Some (HWaitTile q a hv o l) ->
    step s (apply_out s rid (match kind with
                             | TFRefresh => retry (next s) q a hv
                             | TFError => HO None None (Some (q, R404))
                             | TFRead => HO None None (Some (q, R500)) end))
| SReplace s n v :
    vtag v <> 0 -> (forall v', In (n,v') (hist s) -> vtag v' <> vtag v) ->
    step s (mkS (fun m => if m =? n then Some v else cur s m) ((n,v) :: hist s) (cache s) (inflight s) (reqq s) (respq s) (fetches s) (handlers s) (dones s) (next s))
| SDelete s n :
    step s (mkS (fun m => if m =? n then None else cur s m) (hist s) (cache s) (inflight s) (reqq s) (respq s) (fetches s) (handlers s) (dones s) (next s)).

Definition init : sys := mkS (fun _ => None) [] [] [] [] [] [] [] [] 0.
Inductive reach : sys -> Prop :=
| reach_init : reach init
| reach_step s s' : reach s -> step s s' -> reach s'.


(* ---- executable form: a label names the choice the relation leaves open *)
Inductive label :=
| LStart (rid:nat) (q:treq)
| LLoopReq (m:nat)            (* the loop takes the queued request message with id m *)
| LFetchDo (k:key)            (* a spawned fetch of k reads the bucket as it is now *)
| LLoopResp (k:key)           (* the loop takes the oldest queued response for k *)
| LEvict (k:key)
| LTileDo (rid:nat)           (* the conditional tile read of handler rid executes now *)
| LFetchFail (k:key) (bad:bool)
| LTileFail (rid:nat) (kind:tfail)
| LReplace (n:N) (v:ver)
| LDelete (n:N).

Fixpoint split_req (m:nat) (l:list (nat*nat*key*N)) : option (list (nat*nat*key*N) * (nat*nat*key*N) * list (nat*nat*key*N)) :=
  match l with
  | [] => None
  | x :: r => if Nat.eqb (fst (fst (fst x))) m then Some ([], x, r)
              else match split_req m r with Some (pre, y, post) => Some (x :: pre, y, post) | None => None end
  end.
Fixpoint split_key {A} (k:key) (l:list (key*A)) : option (list (key*A) * (key*A) * list (key*A)) :=
  match l with
  | [] => None
  | x :: r => if key_eqb (fst x) k then Some ([], x, r)
              else match split_key k r with Some (pre, y, post) => Some (x :: pre, y, post) | None => None end
  end.
Fixpoint split_k (k:key) (l:list key) : option (list key * list key) :=
  match l with
  | [] => None
  | x :: r => if key_eqb x k then Some ([], r)
              else match split_k k r with Some (pre, post) => Some (x :: pre, post) | None => None end
  end.
Definition tag_fresh (s:sys) (n:N) (v:ver) : bool :=
  negb (vtag v =? 0) && forallb (fun p => negb ((fst p =? n) && (vtag (snd p) =? vtag v))) (hist s).

Definition exec (s:sys) (l:label) : option sys :=
  match l with
  | LStart rid q =>
      match get_handler rid (handlers s) with
      | Some _ => None
      | None => Some (mkS (cur s) (hist s) (cache s) (inflight s) (reqq s ++ [(next s, rid, hdrkey (t_name q), 0)]) (respq s) (fetches s)
                          (set_handler rid (Some (HWaitHdr (next s) q 0)) (handlers s)) (dones s) (S (next s)))
      end
  | LLoopReq m =>
      match split_req m (reqq s) with
      | None => None
      | Some (pre, (m', rid, k, p), post) =>
          let c1 := if p =? 0 then cache s else purge (kn k) p (cache s) in
          Some (match lookup k c1 with
                | Some cv => deliver_to (upd s c1 (inflight s) (pre ++ post) (respq s) (fetches s)) (m', rid) cv
                | None =>
                  match lookup k (inflight s) with
                  | Some ws => upd s c1 ((k, ws ++ [(m', rid)]) :: remove_key k (inflight s)) (pre ++ post) (respq s) (fetches s)
                  | None => upd s c1 ((k, [(m', rid)]) :: inflight s) (pre ++ post) (respq s) (k :: fetches s)
                  end
                end)
      end
  | LFetchDo k =>
      match split_k k (fetches s) with
      | None => None
      | Some (pre, post) => Some (upd s (cache s) (inflight s) (reqq s) (respq s ++ fetch_result s k) (pre ++ post))
      end
  | LLoopResp k =>
      match split_key k (respq s) with
      | None => None
      | Some (pre, (k', cv), post) =>
          let ws := match lookup k' (inflight s) with Some ws => ws | None => [] end in
          Some (fold_left (fun st mr => deliver_to st mr cv) ws
                  (upd s (if cv_ok cv then (k', cv) :: cache s else cache s) (remove_key k' (inflight s)) (reqq s) (pre ++ post) (fetches s)))
      end
  | LEvict k => Some (upd s (remove_key k (cache s)) (inflight s) (reqq s) (respq s) (fetches s))
  | LTileDo rid =>
      match get_handler rid (handlers s) with
      | Some (HWaitTile q a hv o l) =>
          Some (match cur s (t_name q) with
                | None => apply_out s rid (HO None None (Some (q, R404)))
                | Some v => if vtag v =? vtag hv then apply_out s rid (HO None None (Some (q, R200 v (rbase hv q + o) l)))
                            else apply_out s rid (retry (next s) q a hv)
                end)
      | _ => None
      end
  | LFetchFail k bad =>
      match split_k k (fetches s) with
      | None => None
      | Some (pre, post) => Some (upd s (cache s) (inflight s) (reqq s) (respq s ++ [(k, failv bad)]) (pre ++ post))
      end
  | LTileFail rid kind =>
      match get_handler rid (handlers s) with
      | Some (HWaitTile q a hv o l) =>
          Some (apply_out s rid (match kind with
                                 | TFRefresh => retry (next s) q a hv
                                 | TFError => HO None None (Some (q, R404))
                                 | TFRead => HO None None (Some (q, R500)) end))
      | _ => None
      end
  | LReplace n v =>
      if tag_fresh s n v
      then Some (mkS (fun m => if m =? n then Some v else cur s m) ((n,v) :: hist s) (cache s) (inflight s) (reqq s) (respq s) (fetches s) (handlers s) (dones s) (next s))
      else None
  | LDelete n => Some (mkS (fun m => if m =? n then None else cur s m) (hist s) (cache s) (inflight s) (reqq s) (respq s) (fetches s) (handlers s) (dones s) (next s))
  end.
Definition run_labels (ls:list label) (s:sys) : option sys :=
  fold_left (fun o l => match o with Some st => exec st l | None => None end) ls (Some s).
End Server.
