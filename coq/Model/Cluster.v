(* Model of finalize / setZoomCenterDefaults (pmtiles/convert.go:107-118,243-324) and of Cluster
   (pmtiles/cluster.go), on abstract archives.  Section lengths of the written directories and metadata
   depend on gzip; they are parameters (rootlen, metalen, leaflen).  Definitions only. *)
From Coq Require Import NArith ZArith List Bool.
Import ListNotations.
From PM Require Import Model.Varint Model.Directory Model.Header Model.TileId Model.FindTile Model.Resolver Model.Archive.
Open Scope N_scope.

Definition wrap_i32 (z:Z) : Z := signed32 (z mod 2^32).
(* setZoomCenterDefaults; Go indexes entries[0]: with no entries it panics (None) *)
Definition set_zoom_center (h:header) (es:list entry) : option header :=
  match es with
  | [] => None
  | e0 :: _ =>
    let zmin := Z.of_N (zoom_of (tid e0)) in
    let zmax := Z.of_N (zoom_of (tid (last es e0))) in
    let h1 := upd (upd h F_min_zoom zmin) F_max_zoom zmax in
    Some (if ((h F_center_zoom =? 0) && (h F_center_lon =? 0) && (h F_center_lat =? 0))%Z
          then upd (upd (upd h1 F_center_zoom zmin)
                        F_center_lon (Z.quot (wrap_i32 (h F_min_lon + h F_max_lon)) 2))
                   F_center_lat (Z.quot (wrap_i32 (h F_min_lat + h F_max_lat)) 2)
          else h1)
  end.

Section Finalize.
Variable enc : bytes -> bytes.
Variable hash : bytes -> bytes.
Definition finalize (dedup:bool) (h:header) (st:rst) (rootlen metalen leaflen:N) : option header :=
  let h := upd h F_addressed (Z.of_N (r_addr st)) in
  let h := upd h F_entries (Z.of_nat (length (r_rev st))) in
  let h := upd h F_contents (Z.of_N (num_contents dedup st)) in
  match set_zoom_center h (entries_of st) with
  | None => None
  | Some h =>
    let h := upd (upd h F_clustered 1%Z) F_int_comp 2%Z in
    let h := upd (upd h F_root_off 127%Z) F_root_len (Z.of_N rootlen) in
    let h := upd (upd h F_meta_off (Z.of_N (127 + rootlen))) F_meta_len (Z.of_N metalen) in
    let h := upd (upd h F_leaf_off (Z.of_N (127 + rootlen + metalen))) F_leaf_len (Z.of_N leaflen) in
    Some (upd (upd h F_data_off (Z.of_N (127 + rootlen + metalen + leaflen))) F_data_len (Z.of_N (r_off st)))
  end.

Inductive cres := COk (a:archive) | CAlreadyClustered | CCrash.
Definition cluster_inputs (a:archive) : list (N*bytes*N) :=
  map (fun e => (tid e, content_at (a_data a) e, run e)) (a_entries a).
(* Cluster: compress=false, so what is stored is the content itself *)
Definition cluster (dedup:bool) (a:archive) (rootlen metalen leaflen:N) : cres :=
  if (a_hdr a F_clustered =? 1)%Z then CAlreadyClustered else
  let st := add_all (fun b => b) hash dedup (cluster_inputs a) in
  match finalize dedup (upd (a_hdr a) F_clustered 1%Z) st rootlen metalen leaflen with
  | None => CCrash
  | Some h => COk (mkA h (entries_of st) (data_of st) (a_meta a))
  end.
End Finalize.
