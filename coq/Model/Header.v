(* Model of SerializeHeader / DeserializeHeader (pmtiles/directory.go:390-463) as an interpreter of a
   layout table. The tables the Go code implements are regenerated from the source on every run
   (Gen/Generated.v: ser_layout, deser_layout); Spec.layout below is the PMTiles v3 header as laid out in
   the specification.  Definitions only. *)
From Coq Require Import ZArith List Bool Arith.
Import ListNotations.
From PM Require Export Base.HeaderKinds.
Open Scope Z_scope.

(* ---- little-endian byte strings *)
Fixpoint le_bytes (w:nat) (v:Z) : list Z :=
  match w with O => [] | S k => (v mod 256) :: le_bytes k (v / 256) end.
Fixpoint of_le (bs:list Z) : Z :=
  match bs with [] => 0 | b :: r => b + 256 * of_le r end.

(* a header value: field id -> integer (bool as 0/1, int32 as a signed integer) *)
Definition header := nat -> Z.
Definition upd (h:header) (f:nat) (v:Z) : header := fun g => if Nat.eqb g f then v else h g.
Definition signed32 (u:Z) : Z := if u <? 2^31 then u else u - 2^32.

Definition enc_field (h:header) (r:row) : list Z :=
  match r_kind r with
  | KMagic bs => bs
  | KVersion c => [c]
  | KU64 => le_bytes 8 (h (r_fld r))
  | KU8 => le_bytes 1 (h (r_fld r))
  | KI32 => le_bytes 4 ((h (r_fld r)) mod 2^32)            (* uint32(int32) *)
  | KBool => [if h (r_fld r) =? 0 then 0 else 1]
  end.
(* the writer fills a zeroed buffer at the rows' offsets; for a table that is contiguous from offset 0
   (checked by [contiguous]) that is the concatenation of the encoded fields *)
Definition serialize (layout:list row) (h:header) : list Z := concat (map (enc_field h) layout).
Fixpoint contiguous_from (o:nat) (layout:list row) : bool :=
  match layout with [] => true
  | r :: rest => Nat.eqb (r_off r) o && Nat.eqb (r_w r) (width (r_kind r)) && contiguous_from (o + r_w r) rest end.
Definition total_width (layout:list row) : nat := fold_right (fun r a => (r_w r + a)%nat) 0%nat layout.

Inductive herr := BadMagic | BadVersion | Short.
Fixpoint deserialize_f (layout:list row) (bs:list Z) (h:header) : header + herr :=
  match layout with
  | [] => inl h
  | r :: rest =>
      let w := width (r_kind r) in
      if Nat.ltb (length bs) w then inr Short else
      let fb := firstn w bs in let tl := skipn w bs in
      match r_kind r with
      | KMagic m => if list_eq_dec Z.eq_dec fb m then deserialize_f rest tl h else inr BadMagic
      | KVersion c => let v := of_le fb in if c <? v then inr BadVersion else deserialize_f rest tl (upd h (r_fld r) v)
      | KU64 | KU8 => deserialize_f rest tl (upd h (r_fld r) (of_le fb))
      | KI32 => deserialize_f rest tl (upd h (r_fld r) (signed32 (of_le fb)))
      | KBool => deserialize_f rest tl (upd h (r_fld r) (if of_le fb =? 1 then 1 else 0))
      end
  end.
(* The Go reader slices d[0:127] first: fewer than 127 bytes is a slice panic (outcome Short). It checks the
   magic and the version before anything else; the table order gives exactly that. *)
Definition deserialize (layout:list row) (bs:list Z) : header + herr := deserialize_f layout bs (fun _ => 0).

(* ---- the v3 header of the specification: 25 fields + magic *)
Module Spec.
Definition magic : list Z := [80;77;84;105;108;101;115].   (* "PMTiles" *)
Definition field_names : list (nat * list Z) := [].        (* names are carried by Gen.field_names *)
Definition layout : list row :=
  [(0,7,KMagic magic,100); (7,1,KVersion 3%Z,0);
   (8,8,KU64,1);(16,8,KU64,2);(24,8,KU64,3);(32,8,KU64,4);(40,8,KU64,5);(48,8,KU64,6);(56,8,KU64,7);(64,8,KU64,8);
   (72,8,KU64,9);(80,8,KU64,10);(88,8,KU64,11);
   (96,1,KBool,12);(97,1,KU8,13);(98,1,KU8,14);(99,1,KU8,15);(100,1,KU8,16);(101,1,KU8,17);
   (102,4,KI32,18);(106,4,KI32,19);(110,4,KI32,20);(114,4,KI32,21);(118,1,KU8,22);(119,4,KI32,23);(123,4,KI32,24)]%nat.
(* field ids = positions in the Go struct: 0 SpecVersion, 1 RootOffset, 2 RootLength, 3 MetadataOffset,
   4 MetadataLength, 5 LeafDirectoryOffset, 6 LeafDirectoryLength, 7 TileDataOffset, 8 TileDataLength,
   9 AddressedTilesCount, 10 TileEntriesCount, 11 TileContentsCount, 12 Clustered, 13 InternalCompression,
   14 TileCompression, 15 TileType, 16 MinZoom, 17 MaxZoom, 18 MinLonE7, 19 MinLatE7, 20 MaxLonE7,
   21 MaxLatE7, 22 CenterZoom, 23 CenterLonE7, 24 CenterLatE7 *)
Definition struct_fields : list (list Z) := [].
End Spec.

(* field value ranges of the Go struct *)
Definition in_range (k:kind) (v:Z) : Prop :=
  match k with KU64 => 0 <= v < 2^64 | KU8 => 0 <= v < 256 | KI32 => -2^31 <= v < 2^31 | KBool => v = 0 \/ v = 1
             | KVersion c => v = c | KMagic _ => True end.
Definition header_ok (L:list row) (h:header) : Prop := Forall (fun r => in_range (r_kind r) (h (r_fld r))) L.
Definition list_header (vs:list Z) : header := fun f => nth f vs 0.
