(* Model of SerializeEntries / DeserializeEntries (pmtiles/directory.go:268-361), uncompressed wire form.
   Go's uint64/uint32 wrap-around is explicit.  Definitions only. *)
From Coq Require Import NArith List Bool.
Import ListNotations.
From PM Require Import Model.Varint.
Open Scope bool_scope. Open Scope N_scope.

Record entry := mkE { tid : N; off : N; len : N; run : N }.

(* ---- SerializeEntries *)
Fixpoint ids_col (last:N) (es:list entry) : list N :=
  match es with [] => [] | e :: r => put_uvarint (w64 (tid e + 2^64 - last)) ++ ids_col (tid e) r end.
Definition off_code (prev:option entry) (e:entry) : N :=
  match prev with
  | Some p => if off e =? w64 (off p + len p) then 0 else w64 (off e + 1)
  | None => w64 (off e + 1)
  end.
Fixpoint offs_col (prev:option entry) (es:list entry) : list N :=
  match es with [] => [] | e :: r => put_uvarint (off_code prev e) ++ offs_col (Some e) r end.
Definition col (f:entry -> N) (es:list entry) : list N := concat (map (fun e => put_uvarint (f e)) es).
Definition serialize_entries (es:list entry) : list N :=
  put_uvarint (N.of_nat (length es)) ++ ids_col 0 es ++ col run es ++ col len es ++ offs_col None es.

(* ---- DeserializeEntries / deserializeEntriesChecked (after the "fix:" commit for corrupt directories):
        the first failing varint read (EOF, truncated or overlong varint) aborts the decoding with an
        error; the exported DeserializeEntries then returns an empty directory. Every successful read
        consumes at least one byte, so a count larger than the remaining input is an error without
        any allocation proportional to the count. *)
Fixpoint read_n (n:nat) (bs:list N) : option (list N * list N) :=
  match n with O => Some ([], bs) | S k =>
    let '(v, r, e) := read_uvarint bs in
    match e with
    | VOk => match read_n k r with Some (vs, r') => Some (v :: vs, r') | None => None end
    | _ => None
    end end.
Fixpoint build (last:N) (prev:option entry) (ds rs ls os : list N) : list entry :=
  match ds, rs, ls, os with
  | d :: ds', r :: rs', l :: ls', o :: os' =>
      let id := w64 (last + d) in
      let offset := match prev with
                    | Some p => if o =? 0 then w64 (off p + len p) else w64 (o + 2^64 - 1)
                    | None => w64 (o + 2^64 - 1) end in
      let e := mkE id offset (w32 l) (w32 r) in
      e :: build id (Some e) ds' rs' ls' os'
  | _, _, _, _ => []
  end.
(* None = deserializeEntriesChecked returns an error *)
Definition deserialize_res (bs:list N) : option (list entry) :=
  let '(n, r0, e) := read_uvarint bs in
  match e with
  | VOk =>
    if N.of_nat (length r0) <? n then None else
    let cnt := N.to_nat n in
    match read_n cnt r0 with None => None | Some (ds, r1) =>
    match read_n cnt r1 with None => None | Some (rs, r2) =>
    match read_n cnt r2 with None => None | Some (ls, r3) =>
    match read_n cnt r3 with None => None | Some (os, _) => Some (build 0 None ds rs ls os)
    end end end end
  | _ => None
  end.
Definition deserialize_entries (bs:list N) : list entry :=
  match deserialize_res bs with Some es => es | None => [] end.

(* ---- well-formedness = the ranges of the Go field types, offsets below 2^64-1 *)
Definition entry_ok (e:entry) : Prop := tid e < 2^64 /\ off e < 2^64 - 1 /\ len e < 2^32 /\ run e < 2^32.
Definition entry_okb (e:entry) : bool := (tid e <? 2^64) && (off e <? 2^64 - 1) && (len e <? 2^32) && (run e <? 2^32).

(* ---- The v3 wire format, written declaratively and independently of the encoder above:
        count, then four columns of varints: ID deltas, run lengths, lengths, offset codes, where the
        code of entry i is either offset+1 or, for i > 0 and offset = previous offset + previous
        length, 0 (the contiguous-offset shorthand; an encoder may or may not use it). *)
Fixpoint sdeltas (last:N) (es:list entry) : list N :=
  match es with [] => [] | e :: r => (tid e - last) :: sdeltas (tid e) r end.
Inductive codes_ok : option entry -> list entry -> list N -> Prop :=
| co_nil p : codes_ok p [] []
| co_plain p e r cs : codes_ok (Some e) r cs -> codes_ok p (e :: r) ((off e + 1) :: cs)
| co_short p e r cs : off e = off p + len p -> codes_ok (Some e) r cs -> codes_ok (Some p) (e :: r) (0 :: cs).
Definition puts (vs:list N) : list N := concat (map put_uvarint vs).
Definition wire_repr (b:list N) (es:list entry) : Prop :=
  exists cs, codes_ok None es cs /\
    b = put_uvarint (N.of_nat (length es)) ++ puts (sdeltas 0 es) ++ puts (map run es) ++ puts (map len es) ++ puts cs.
Fixpoint ascending_from (last:N) (es:list entry) : Prop :=
  match es with [] => True | e :: r => last <= tid e /\ ascending_from (tid e) r end.
