(* Model of Convert (pmtiles/convert.go) from an MBTiles database to an abstract archive.
   A database is its list of tile rows (zoom_level, tile_column, tile_row, tile_data) in any order and its list of
   metadata rows in table order.  Metadata values arrive tokenized (the harness does the SQL text handling):
   bounds/center as decimal literals, the json row as its top-level (key, value text) pairs.  [gz] stands for the gzip
   writer of the resolver (any function; the driver instantiates it from a table of the real outputs).  Definitions only. *)
From Coq Require Import NArith ZArith List Bool String.
Import ListNotations.
From PM Require Import Model.Varint Model.Directory Model.Header Model.TileId Model.FindTile Model.Resolver Model.Archive Model.Cluster Model.F64 Model.PathParse.
Open Scope N_scope.

Record mbrow := mkRow { m_z : N; m_x : N; m_y : N; m_blob : bytes }.
(* TMS row -> XYZ tile id (pass 1, convert.go:172-176); rows are valid: z <= 31, x, y < 2^z *)
Definition row_id (r:mbrow) : N := zxy_to_id (m_z r) (m_x r) (2 ^ m_z r - 1 - m_y r).

(* pass 1 collects the ids into a set, pass 2 walks it in ascending order: insertion sort on the id *)
Fixpoint insert_row (x:N * bytes) (l:list (N * bytes)) : list (N * bytes) :=
  match l with [] => [x] | y :: r => if fst x <? fst y then x :: l else if fst x =? fst y then l else y :: insert_row x r end.
Definition sorted_rows (rows:list mbrow) : list (N * bytes) :=
  fold_left (fun acc r => insert_row (row_id r, m_blob r) acc) rows [].
(* empty blobs are skipped (convert.go:218) *)
Definition convert_inputs (rows:list mbrow) : list (N * bytes * N) :=
  map (fun x => (fst x, snd x, 1)) (filter (fun x => negb (blen (snd x) =? 0)) (sorted_rows rows)).

Definition is_gz (d:bytes) : bool := match d with 31 :: 139 :: _ => true | _ => false end.

(* ---- metadata rows -> header fields and JSON (mbtilesToHeaderJSON) *)
Inductive mrow :=
| MFormat (v:list N)
| MBounds (parts:list (option (Z * nat)))          (* comma-separated parts; None = not a number *)
| MCenter (parts:list (option (Z * nat))) (zoom:option Z)
| MJson (kvs:list (list N * list N))               (* top-level members of the json row: key, value text *)
| MCompression (v:list N)
| MScheme
| MDescr (k v:list N).                             (* any other row: key, value as a JSON string text *)
Definition jstr (v:list N) : list N := v.          (* the harness passes values already rendered as JSON text *)

Definition e7_trunc (d:Z * nat) : Z := to_e7_pinned (dec_to_f64 (fst d) (snd d)).   (* int32(f * 1e7): toward zero *)
Fixpoint jset (k v:list N) (j:list (list N * list N)) : list (list N * list N) :=
  match j with [] => [(k, v)] | (k', v') :: r => if bytes_eqb k k' then (k, v) :: r else (k', v') :: jset k v r end.
Record mstate := mkMS { ms_h : header; ms_json : list (list N * list N); ms_bounds : bool }.
Definition format_type (v:list N) : option (Z * option Z) :=
  if bytes_eqb v (bytes_of_string "pbf") then Some (1%Z, None)
  else if bytes_eqb v (bytes_of_string "png") then Some (2%Z, Some 1%Z)
  else if bytes_eqb v (bytes_of_string "jpg") then Some (3%Z, Some 1%Z)
  else if bytes_eqb v (bytes_of_string "webp") then Some (4%Z, Some 1%Z)
  else if bytes_eqb v (bytes_of_string "avif") then Some (5%Z, Some 1%Z)
  else None.
Definition meta_step (st:option mstate) (r:mrow * list N) : option mstate :=
  match st with
  | None => None
  | Some s =>
    let h := ms_h s in
    match fst r with
    | MFormat v =>
      let h := match format_type v with
               | Some (t, Some c) => upd (upd h F_tile_type t) F_tile_comp c
               | Some (t, None) => upd h F_tile_type t
               | None => h end in
      Some (mkMS h (jset (bytes_of_string "format") (snd r) (ms_json s)) (ms_bounds s))
    | MBounds [Some a; Some b; Some c; Some d] =>
      let '(a, b, c, d) := (e7_trunc a, e7_trunc b, e7_trunc c, e7_trunc d) in
      if ((c <=? a) || (d <=? b))%Z then None
      else Some (mkMS (upd (upd (upd (upd h F_min_lon a) F_min_lat b) F_max_lon c) F_max_lat d) (ms_json s) true)
    | MBounds _ => None
    | MCenter [Some a; Some b] (Some z) =>
      if ((-128 <=? z) && (z <=? 127))%Z
      then Some (mkMS (upd (upd (upd h F_center_lon (e7_trunc a)) F_center_lat (e7_trunc b)) F_center_zoom (z mod 256)%Z) (ms_json s) (ms_bounds s))
      else None
    | MCenter _ _ => None
    | MJson kvs => Some (mkMS h (fold_left (fun j kv => jset (fst kv) (snd kv) j) kvs (ms_json s)) (ms_bounds s))
    | MCompression v =>
      let h := if bytes_eqb v (bytes_of_string "gzip") then upd h F_tile_comp (if (h F_tile_type =? 1)%Z then 2%Z else 1%Z) else h in
      Some (mkMS h (jset (bytes_of_string "compression") (snd r) (ms_json s)) (ms_bounds s))
    | MScheme => Some s
    | MDescr k v => Some (mkMS h (jset k v (ms_json s)) (ms_bounds s))
    end
  end.
Definition header_of_meta (rows:list (mrow * list N)) : option (header * list (list N * list N)) :=
  match fold_left meta_step rows (Some (mkMS (fun _ => 0%Z) [] false)) with
  | None => None
  | Some s =>
    let h := ms_h s in
    let h := if ms_bounds s then h else upd (upd (upd (upd h F_min_lon (-1800000000)%Z) F_min_lat (-850000000)%Z) F_max_lon 1800000000%Z) F_max_lat 850000000%Z in
    Some (h, ms_json s)
  end.

Section Convert.
Variable gz : bytes -> bytes.
Variable hash : bytes -> bytes.
Definition enc_of (compress:bool) (d:bytes) : bytes := if compress && negb (is_gz d) then gz d else d.

Inductive cvres := CVOk (a:archive) (json:list (list N * list N)) | CVErr | CVCrash.
Definition convert (dedup:bool) (meta:list (mrow * list N)) (rows:list mbrow) (rootlen metalen leaflen:N) : cvres :=
  match header_of_meta meta with
  | None => CVErr
  | Some (h, json) =>
    match rows with
    | [] => CVErr                                   (* "no tiles in MBTiles archive" *)
    | _ =>
      let mvt := (h F_tile_type =? 1)%Z in
      let st := add_all (enc_of mvt) hash dedup (convert_inputs rows) in
      let h := if mvt then upd h F_tile_comp 2%Z else h in
      match finalize dedup h st rootlen metalen leaflen with
      | None => CVErr                               (* no entries: "no non-empty tiles" (after the fix; it was an index panic) *)
      | Some h' => CVOk (mkA h' (entries_of st) (data_of st) []) json
      end
    end
  end.
End Convert.
