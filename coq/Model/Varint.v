(* Model of encoding/binary PutUvarint / ReadUvarint as used by pmtiles/directory.go.
   Definitions only; proofs are in Proofs/Varint.v. *)
From Coq Require Import NArith List Bool.
Import ListNotations.
From PM Require Export Base.Wrap.
Open Scope bool_scope. Open Scope N_scope.


(* binary.PutUvarint *)
Fixpoint put_uvarint_f (fuel:nat) (v:N) : list N :=
  match fuel with O => [] | S f => if v <? 128 then [v] else (v mod 128 + 128) :: put_uvarint_f f (v / 128) end.
Definition put_uvarint (v:N) : list N := put_uvarint_f 10 v.

(* binary.ReadUvarint, including what it returns on error (the directory decoder ignores the error) *)
Inductive verr := VOk | VEof | VUnexpectedEof | VOverflow.
Fixpoint read_uvarint_f (fuel:nat) (i:N) (x s:N) (bs:list N) : N * list N * verr :=
  match fuel with
  | O => (x, bs, VOverflow)
  | S f =>
    match bs with
    | [] => (x, [], if i =? 0 then VEof else VUnexpectedEof)
    | b :: r =>
      if b <? 128 then
        if (i =? 9) && (1 <? b) then (x, r, VOverflow)
        else (N.lor x (shl64 b s), r, VOk)
      else read_uvarint_f f (i+1) (N.lor x (shl64 (N.land b 127) s)) (s+7) r
    end
  end.
Definition read_uvarint (bs:list N) := read_uvarint_f 10 0 0 0 bs.
