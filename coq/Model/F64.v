(* IEEE-754 binary64 arithmetic as Go performs it (round to nearest even), through Flocq; E7 coordinate conversion of
   show (header -> JSON, pmtiles/directory.go:177-187) and edit (JSON -> header, pmtiles/edit.go:57-67 after the fix:
   math.Round).  Definitions only. *)
From Flocq Require Import IEEE754.BinarySingleNaN IEEE754.Binary IEEE754.Bits Core.
From Coq Require Import ZArith List.
Import ListNotations.
Open Scope Z_scope.

Definition f64 := binary64.
Definition f64_of_Z (z:Z) : binary64 := Binary.binary_normalize 53 1024 eq_refl eq_refl mode_NE z 0 false.
Definition f64_mul (a b:binary64) : binary64 := b64_mult mode_NE a b.
Definition f64_div (a b:binary64) : binary64 := b64_div mode_NE a b.
Definition f64_1e7 : binary64 := f64_of_Z 10000000.

(* math.Round: nearest integer, halfway cases away from zero *)
Definition go_round (f:binary64) : Z :=
  match f with
  | Binary.B754_finite _ _ s m e _ =>
      let mag := if (0 <=? e) then Z.pos m * 2^e
                 else let d := 2^(-e) in let q := Z.pos m / d in let r := Z.pos m mod d in if (d <=? 2 * r) then q + 1 else q in
      if s then - mag else mag
  | _ => 0 end.
(* Go's float -> integer conversion truncates toward zero *)
Definition go_trunc (f:binary64) : Z :=
  match f with
  | Binary.B754_finite _ _ s m e _ =>
      let mag := if (0 <=? e) then Z.pos m * 2^e else Z.pos m / 2^(-e) in if s then - mag else mag
  | _ => 0 end.
Definition wrap_int32 (z:Z) : Z := let u := z mod 2^32 in if u <? 2^31 then u else u - 2^32.

(* header -> JSON: float64(E7) / 10000000 *)
Definition of_e7 (n:Z) : binary64 := f64_div (f64_of_Z n) f64_1e7.
(* JSON -> header: int32(math.Round(f * 10000000)) *)
Definition to_e7 (f:binary64) : Z := wrap_int32 (go_round (f64_mul f f64_1e7)).
(* the pinned commit truncated: int32(f * 10000000) *)
Definition to_e7_pinned (f:binary64) : Z := wrap_int32 (go_trunc (f64_mul f f64_1e7)).
(* a decimal literal mantissa / 10^scale as strconv.ParseFloat reads it (correctly rounded; exact operands below 2^53) *)
Definition dec_to_f64 (m:Z) (k:nat) : binary64 := f64_div (f64_of_Z m) (f64_of_Z (10 ^ Z.of_nat k)).
