(* Model of the request-path grammar of the server (pmtiles/server.go:436-489): the three regular expressions as
   right-to-left parsers over byte strings, strconv.ParseUint's saturation, and the routing order of get().
   Each expression is  ^/(NAME)<fixed-shape suffix>$  where the suffix components are delimited by characters
   outside their own alphabet, so the decomposition is unique and greedy matching needs no backtracking.
   NAME is one or more characters of the class [-A-Za-z0-9_/!-_.*'()'] = bytes 0x21..0x5F and 0x61..0x7A
   (the range !-_ makes the class much wider than the listed characters).  Definitions only. *)
From Coq Require Import NArith List Bool String Ascii.
Import ListNotations.
From PM Require Import Base.Wrap.
Open Scope N_scope.

Definition name_char (c:N) : bool := ((33 <=? c) && (c <=? 95)) || ((97 <=? c) && (c <=? 122)).
Definition is_digit (c:N) : bool := (48 <=? c) && (c <=? 57).
Definition is_lower (c:N) : bool := (97 <=? c) && (c <=? 122).
Definition slash : N := 47. Definition dotc : N := 46.

Fixpoint take_while (p:N -> bool) (l:list N) : list N * list N :=
  match l with [] => ([], []) | c :: r => if p c then let '(a, b) := take_while p r in (c :: a, b) else ([], l) end.

(* strconv.ParseUint(s, 10, bits) with the error ignored: saturates at 2^bits - 1 *)
Definition parse_uint_sat (bits:N) (digits:list N) : N :=
  let v := fold_left (fun a c => a * 10 + (c - 48)) digits 0 in
  if 2^bits - 1 <? v then 2^bits - 1 else v.

(* NAME: after the leading '/', non-empty, all characters in the class *)
Definition parse_name (l:list N) : option (list N) :=
  match l with
  | c :: name => if (c =? slash) && negb (match name with [] => true | _ => false end) && forallb name_char name then Some name else None
  | [] => None
  end.

Definition strip_suffix (suf l:list N) : option (list N) :=
  let n := (List.length l - List.length suf)%nat in
  if Nat.leb (List.length suf) (List.length l) && (if list_eq_dec N.eq_dec (skipn n l) suf then true else false) then Some (firstn n l) else None.

Record tile_req := mkTR { tr_name : list N; tr_z : N; tr_x : N; tr_y : N; tr_ext : list N }.

(* ^/(NAME)/(\d+)/(\d+)/(\d+)\.([a-z]+)$  parsed from the right *)
Definition parse_tile_path (p:list N) : option tile_req :=
  let r := rev p in
  let '(ext_r, r1) := take_while is_lower r in
  match ext_r, r1 with
  | _ :: _, c1 :: r2 =>
    if c1 =? dotc then
      let '(y_r, r3) := take_while is_digit r2 in
      match y_r, r3 with
      | _ :: _, c2 :: r4 =>
        if c2 =? slash then
          let '(x_r, r5) := take_while is_digit r4 in
          match x_r, r5 with
          | _ :: _, c3 :: r6 =>
            if c3 =? slash then
              let '(z_r, r7) := take_while is_digit r6 in
              match z_r, r7 with
              | _ :: _, c4 :: r8 =>
                if c4 =? slash then
                  match parse_name (rev r8) with
                  | Some name => Some (mkTR name (parse_uint_sat 8 (rev z_r)) (parse_uint_sat 32 (rev x_r)) (parse_uint_sat 32 (rev y_r)) (rev ext_r))
                  | None => None end
                else None
              | _, _ => None end
            else None
          | _, _ => None end
        else None
      | _, _ => None end
    else None
  | _, _ => None
  end.

Definition bytes_of_string (s:string) : list N := map (fun a => N_of_ascii a) (list_ascii_of_string s).
Definition parse_tilejson_path (p:list N) : option (list N) :=
  match strip_suffix (bytes_of_string ".json") p with Some q => parse_name q | None => None end.
Definition parse_metadata_path (p:list N) : option (list N) :=
  match strip_suffix (bytes_of_string "/metadata") p with Some q => parse_name q | None => None end.

(* get(): routing order *)
Inductive route := RTile (t:tile_req) | RTileJSON (name:list N) | RMetadata (name:list N) | RRoot | RNotFound.
Definition route_of (p:list N) : route :=
  match parse_tile_path p with Some t => RTile t | None =>
  match parse_tilejson_path p with Some n => RTileJSON n | None =>
  match parse_metadata_path p with Some n => RMetadata n | None =>
  if (match p with [c] => c =? slash | _ => false end) then RRoot else RNotFound end end end.

(* the archive name of a request and the bucket key every read of that request uses: name ++ ".pmtiles" *)
Definition archive_of (r:route) : option (list N) :=
  match r with RTile t => Some (tr_name t) | RTileJSON n | RMetadata n => Some n | _ => None end.
Definition bucket_key (name:list N) : list N := name ++ bytes_of_string ".pmtiles".

(* the expressions the parsers above were written from (compared with the regenerated ones in Properties/C11.v) *)
Definition spec_tile_pattern : string := "^\/([-A-Za-z0-9_\/!-_\.\*'\(\)']+)\/(\d+)\/(\d+)\/(\d+)\.([a-z]+)$".
Definition spec_metadata_pattern : string := "^\/([-A-Za-z0-9_\/!-_\.\*'\(\)']+)\/metadata$".
Definition spec_tilejson_pattern : string := "^\/([-A-Za-z0-9_\/!-_\.\*'\(\)']+)\.json$".
