(* IEEE-754 binary32 arithmetic as Go performs it (round to nearest even), through Flocq.
   Used for the leaf-size sequence of optimizeDirectories and the overfetch budget of MergeRanges. *)
From Flocq Require Import IEEE754.BinarySingleNaN IEEE754.Binary IEEE754.Bits Core.
From Coq Require Import ZArith List.
Import ListNotations.
Open Scope Z_scope.

Definition f32_of_Z (z:Z) : binary32 := Binary.binary_normalize 24 128 eq_refl eq_refl mode_NE z 0 false.
(* Go's float -> int conversion truncates toward zero (values in range) *)
Definition trunc32 (f:binary32) : Z :=
  match f with
  | Binary.B754_finite _ _ s m e _ => let v := (if s then -1 else 1) * (Z.pos m) in if (0 <=? e) then v * 2^e else Z.quot v (2^(-e))
  | _ => 0 end.
Definition f32_mul (a b:binary32) : binary32 := b32_mult mode_NE a b.
Definition f32_div (a b:binary32) : binary32 := b32_div mode_NE a b.
(* the float32 constant 1.2 = 0x3F99999A = 10066330 * 2^-23 (correctly rounded decimal literal) *)
Definition f32_1_2 : binary32 := Binary.binary_normalize 24 128 eq_refl eq_refl mode_NE 10066330 (-23) false.
Definition f32_lt (a b:binary32) : bool := match b32_compare a b with Some Lt => true | _ => false end.

(* leafSize = float32(n)/3500; if leafSize < 4096 { leafSize = 4096 }; then int(leafSize), leafSize *= 1.2, ... *)
Definition leaf_start (n:Z) : binary32 :=
  let s := f32_div (f32_of_Z n) (f32_of_Z 3500) in if f32_lt s (f32_of_Z 4096) then f32_of_Z 4096 else s.
Fixpoint leaf_seq (k:nat) (s:binary32) : list Z :=
  match k with O => [] | S k' => trunc32 s :: leaf_seq k' (f32_mul s f32_1_2) end.
