(* Model of buildRootsLeaves / optimizeDirectories (pmtiles/directory.go:465-514). Definitions only.
   [ser] is the directory serializer in use: serialize_entries for NoCompression (byte-exact), or
   compress ∘ serialize_entries for gzip (a Section variable in the theorems). *)
From Coq Require Import NArith ZArith List Arith Bool.
Import ListNotations.
From PM Require Import Model.Varint Model.Directory.
From PM Require Gen.Generated.

Section Build.
Variable ser : list entry -> list N.

(* firstn / skipn with a binary count (leaf sizes reach 10^7: never materialise them as unary nat) *)
Fixpoint take {A} (n:N) (l:list A) : list A :=
  match l with [] => [] | x :: r => if (n =? 0)%N then [] else x :: take (N.pred n) r end.
Fixpoint drop {A} (n:N) (l:list A) : list A :=
  match l with [] => [] | x :: r => if (n =? 0)%N then l else drop (N.pred n) r end.
(* for idx := 0; idx < len(entries); idx += leafSize { entries[idx:min(idx+leafSize,len)] } *)
Fixpoint chunks (fuel:nat) (n:N) (es:list entry) : list (list entry) :=
  match fuel with O => [] | S f =>
    match es with [] => [] | _ => take n es :: chunks f n (drop n es) end end.
Definition first_tid (c:list entry) : N := match c with e :: _ => tid e | [] => 0%N end.
Fixpoint ptrs (cs:list (list entry)) (bs:list (list N)) (off:N) : list entry :=
  match cs, bs with
  | c :: cs', b :: bs' => mkE (first_tid c) off (N.of_nat (length b)) 0 :: ptrs cs' bs' (off + N.of_nat (length b))%N
  | _, _ => []
  end.
Definition build_roots_leaves (es:list entry) (leaf:N) : list N * list N * nat :=
  let cs := chunks (S (length es)) leaf es in
  let bs := map ser cs in
  (ser (ptrs cs bs 0), concat bs, length cs).

(* the leaf-size loop over a given sequence of sizes; None = the sequence is exhausted (out of fuel) *)
Fixpoint try_sizes (es:list entry) (target:N) (sizes:list N) : option (list N * list N * nat) :=
  match sizes with
  | [] => None
  | s :: rest =>
    let '(root, leaves, n) := build_roots_leaves es s in
    if (N.of_nat (length root) <=? target)%N then Some (root, leaves, n) else try_sizes es target rest
  end.
Definition optimize (es:list entry) (target:N) (sizes:list N) : option (list N * list N * nat) :=
  if (N.of_nat (length es) <? 16384)%N && (N.of_nat (length (ser es)) <=? target)%N then Some (ser es, [], 0%nat)
  else try_sizes es target sizes.
End Build.

(* int(leafSize) for leafSize = 4096 * 1.2^k in float32 arithmetic, k = 0..59: the sequence the loop walks
   whenever len(entries)/3500 < 4096, i.e. for fewer than 14,336,000 entries (input independent).
   Proofs/DirBuildF32.v checks this literal against the Flocq computation. *)
Definition leaf_sizes_small : list Z :=
  [4096; 4915; 5898; 7077; 8493; 10192; 12230; 14676; 17612; 21134; 25361; 30433; 36520; 43824; 52589; 63107; 75728; 90874;
   109049; 130859; 157030; 188437; 226124; 271349; 325619; 390743; 468892; 562670; 675204; 810245; 972294; 1166753; 1400104;
   1680125; 2016150; 2419380; 2903257; 3483908; 4180690; 5016828; 6020194; 7224233; 8669081; 10402898; 12483478; 14980174; 17976210]%Z.
Definition small_limit : N := 14336000%N.

Definition sizes_small : list N := map Z.to_N leaf_sizes_small.
(* optimizeDirectories for fewer than 14,336,000 entries *)
Definition optimize_small (ser:list entry -> list N) (es:list entry) (target:N) := optimize ser es target sizes_small.

(* reading side used by the theorems: slice the leaf section by a pointer *)
Definition dslice (b:list N) (off len:N) : list N := firstn (N.to_nat len) (skipn (N.to_nat off) b).
Definition read_leaves (deser:list N -> list entry) (root:list N) (leaves:list N) : list entry :=
  concat (map (fun p => deser (dslice leaves (off p) (len p))) (deser root)).
