(* Model of IterateEntries (pmtiles/directory.go:516-537).
   fetch o l = Some es : the directory at absolute offset o, length l, decoded; None : the fetch failed.
   The Go recursion has no depth bound; the model recurses on explicit fuel and reports fuel exhaustion
   as a failed walk (it is excluded by the theorems' hypothesis that the spec [flatten] is defined). *)
From Coq Require Import NArith List Bool.
Import ListNotations.
From PM Require Import Model.Varint Model.Directory.
Open Scope N_scope.

Section Iterate.
Variable fetch : N -> N -> option (list entry).
Variable leaf_base : N.    (* header.LeafDirectoryOffset *)

(* The walk as it is in /repo after the "fix:" commit for directory.go:530: the first failing
   sub-walk aborts the enumeration with its error. Result: (entries handed to the callback, err == nil). *)
Fixpoint walk_dir (rec:N -> N -> list entry * bool) (es:list entry) (acc:list entry) : list entry * bool :=
  match es with
  | [] => (acc, true)
  | e :: r => if 0 <? run e then walk_dir rec r (acc ++ [e])
              else let '(sub, ok) := rec (w64 (leaf_base + off e)) (len e) in
                   if ok then walk_dir rec r (acc ++ sub) else (acc ++ sub, false)
  end.
Fixpoint iterate (fuel:nat) (o l:N) : list entry * bool :=
  match fuel with O => ([], false) | S f =>
    match fetch o l with None => ([], false) | Some es => walk_dir (iterate f) es [] end end.

(* The walk as pinned (error of the recursive call dropped): kept for the refutation witness. *)
Fixpoint iterate_pinned (fuel:nat) (o l:N) : list entry * bool :=
  match fuel with O => ([], false) | S f =>
    match fetch o l with
    | None => ([], false)
    | Some es => (fold_left (fun acc e => if 0 <? run e then acc ++ [e]
                                         else acc ++ fst (iterate_pinned f (w64 (leaf_base + off e)) (len e))) es [], true)
    end end.

(* Spec: all tile entries of the tree in tree order, or None if any directory of the tree cannot be fetched. *)
Fixpoint flat_dir (rec:N -> N -> option (list entry)) (es:list entry) : option (list entry) :=
  match es with
  | [] => Some []
  | e :: r => if 0 <? run e then option_map (cons e) (flat_dir rec r)
              else match rec (w64 (leaf_base + off e)) (len e), flat_dir rec r with
                   | Some a, Some b => Some (a ++ b) | _, _ => None end
  end.
Fixpoint flatten (fuel:nat) (o l:N) : option (list entry) :=
  match fuel with O => None | S f => match fetch o l with None => None | Some es => flat_dir (flatten f) es end end.
End Iterate.

(* Executable instance used by the correspondence check: directories given as (offset, length, bytes option). *)
Definition dir_table := list (N * N * option (list N)).
Fixpoint lookup_dir (t:dir_table) (o l:N) : option (list entry) :=
  match t with
  | [] => None
  | (o', l', b) :: r => if (o =? o') && (l =? l') then option_map deserialize_entries b else lookup_dir r o l
  end.
Definition iterate_table (t:dir_table) (lb:N) (fuel:nat) (o l:N) := iterate (lookup_dir t) lb fuel o l.
