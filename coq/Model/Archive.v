(* Abstract archives: what the CLI commands transform. The header is the field map of Model/Header.v
   (field ids = positions in the Go struct), the directories are represented by the flattened list of
   tile entries in tree order (Model/Iterate.v: flatten), the tile-data section by its bytes and the
   metadata by its (uncompressed) JSON text.  Definitions only. *)
From Coq Require Import NArith ZArith List Bool.
Import ListNotations.
From PM Require Import Model.Varint Model.Directory Model.Header Model.FindTile Model.Resolver.
Open Scope N_scope.

(* field ids *)
Definition F_version := 0%nat. Definition F_root_off := 1%nat. Definition F_root_len := 2%nat.
Definition F_meta_off := 3%nat. Definition F_meta_len := 4%nat. Definition F_leaf_off := 5%nat. Definition F_leaf_len := 6%nat.
Definition F_data_off := 7%nat. Definition F_data_len := 8%nat. Definition F_addressed := 9%nat. Definition F_entries := 10%nat.
Definition F_contents := 11%nat. Definition F_clustered := 12%nat. Definition F_int_comp := 13%nat. Definition F_tile_comp := 14%nat.
Definition F_tile_type := 15%nat. Definition F_min_zoom := 16%nat. Definition F_max_zoom := 17%nat.
Definition F_min_lon := 18%nat. Definition F_min_lat := 19%nat. Definition F_max_lon := 20%nat. Definition F_max_lat := 21%nat.
Definition F_center_zoom := 22%nat. Definition F_center_lon := 23%nat. Definition F_center_lat := 24%nat.

Record archive := mkA { a_hdr : header; a_entries : list entry; a_data : bytes; a_meta : bytes }.
Definition hN (h:header) (f:nat) : N := Z.to_N (h f).

(* the tile-to-content map of an archive *)
Definition content_at (data:bytes) (e:entry) : bytes := slice data (off e) (len e).
Definition content_of (a:archive) (id:N) : option bytes := option_map (content_at (a_data a)) (cover (a_entries a) id).

(* well-formed abstract archive: tile entries ascending with disjoint runs (what a well-formed directory tree
   flattens to), every entry non-empty and inside the tile-data section *)
Fixpoint achain (lo:N) (es:list entry) : Prop :=
  match es with [] => True | e :: r => lo <= tid e /\ 0 < run e /\ achain (tid e + run e) r end.
Definition awf (a:archive) : Prop :=
  achain 0 (a_entries a) /\
  Forall (fun e => 0 < len e /\ off e + len e <= blen (a_data a) /\ tid e + run e < 2^64 - 1) (a_entries a).
