(* Model of the resolver (pmtiles/convert.go:28-100): AddTileIsNew as a state machine, with a ghost store
   recording what was written at which offset. Contents are byte strings (list N).
   [enc] is what gets stored: the identity for cluster (compress=false); gzip-unless-already-gzip for convert.
   [hash] stands for fnv128a: any function into byte strings; the executable instance uses the identity
   (collision free); the theorems carry the no-collision hypothesis explicitly.  Counters and offsets are unbounded N here: the
   properties built on this model are not about overflow (a 2^64-byte tile section is out of reach).  Definitions only. *)
From Coq Require Import NArith List Bool.
Import ListNotations.
From PM Require Import Model.Varint Model.Directory.
Open Scope N_scope.

Definition bytes := list N.
Definition blen (b:bytes) : N := N.of_nat (length b).
Fixpoint bytes_eqb (a b:bytes) : bool :=
  match a, b with [], [] => true | x :: a', y :: b' => (x =? y) && bytes_eqb a' b' | _, _ => false end.

Section Resolver.
Variable enc : bytes -> bytes.
Variable hash : bytes -> bytes.

Record rst := mkR {
  r_rev : list entry;                (* Entries, newest first *)
  r_off : N;                         (* Offset: size of the data written so far *)
  r_map : list (bytes * (N * N));    (* OffsetMap: hash -> offset,length *)
  r_store : list (N * bytes);        (* ghost: what was written at which offset, newest first *)
  r_addr : N                         (* AddressedTiles (after the fix: += runLength) *)
}.
Definition rinit := mkR [] 0 [] [] 0.

Fixpoint mlookup (h:bytes) (m:list (bytes*(N*N))) : option (N*N) :=
  match m with [] => None | (h',v)::r => if bytes_eqb h h' then Some v else mlookup h r end.

(* AddTileIsNew *)
Definition add_tile (dedup:bool) (st:rst) (id:N) (data:bytes) (rl:N) : rst :=
  let found := if dedup then mlookup (hash data) (r_map st) else None in
  match found with
  | Some (o,l) =>
      match r_rev st with
      | last :: rest =>
          if (id =? tid last + run last) && (off last =? o)
          then mkR (mkE (tid last) (off last) (len last) (run last + rl) :: rest) (r_off st) (r_map st) (r_store st) (r_addr st + rl)
          else mkR (mkE id o l rl :: r_rev st) (r_off st) (r_map st) (r_store st) (r_addr st + rl)
      | [] => st (* Go would index Entries[-1] and panic; unreachable: a map hit implies an earlier entry *)
      end
  | None =>
      let nd := enc data in
      mkR (mkE id (r_off st) (blen nd) rl :: r_rev st) (r_off st + blen nd)
          (if dedup then (hash data, (r_off st, blen nd)) :: r_map st else r_map st)
          ((r_off st, nd) :: r_store st) (r_addr st + rl)
  end.

Definition add_all (dedup:bool) (inputs:list (N*bytes*N)) : rst :=
  fold_left (fun st '(id,d,rl) => add_tile dedup st id d rl) inputs rinit.

Definition entries_of (st:rst) : list entry := rev (r_rev st).
(* the temp file: stored contents in the order they were written *)
Definition data_of (st:rst) : bytes := concat (map snd (rev (r_store st))).
Definition num_contents (dedup:bool) (st:rst) : N :=
  if dedup then N.of_nat (length (r_map st)) else N.of_nat (length (r_rev st)).
End Resolver.
