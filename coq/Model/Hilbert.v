(* Specification side of C01: the textbook recursive Hilbert curve on unbounded N and the pyramid base.
   Definitions only. *)
From Coq Require Import NArith.
Open Scope N_scope.

(* quadrant digit from the two top bits *)
Definition quad (bx by_ : N) : N :=
  match bx, by_ with 0,0 => 0 | 0,_ => 1 | _,0 => 3 | _,_ => 2 end.
Definition qx (q:N) : N := q / 2.
Definition qy (q:N) : N := match q with 1 => 1 | 2 => 1 | _ => 0 end.

Definition rot (s x y q : N) : N*N :=
  match q with 0 => (y, x) | 3 => (s-1-y, s-1-x) | _ => (x,y) end.

Fixpoint hidx (k:nat) (x y:N) : N :=
  match k with O => 0 | S k' => let s := 2^(N.of_nat k') in
    let q := quad (x / s) (y / s) in
    let '(x',y') := rot s (x mod s) (y mod s) q in
    q * 4^(N.of_nat k') + hidx k' x' y' end.

Fixpoint hxy (k:nat) (d:N) : N*N :=
  match k with O => (0,0) | S k' => let s := 2^(N.of_nat k') in
    let q := d / 4^(N.of_nat k') in
    let '(x,y) := hxy k' (d mod 4^(N.of_nat k')) in
    let '(x',y') := rot s x y q in
    (x' + qx q * s, y' + qy q * s) end.

Definition absd (a b:N) := if a <? b then b - a else a - b.
Definition manh (p q : N*N) := absd (fst p) (fst q) + absd (snd p) (snd q).
Definition base (z:N) : N := (4^z - 1) / 3.
