(* Model of findTile (pmtiles/directory.go:363-388) and of the directory walks built on it
   (server.go getTileAttempt, show.go). Definitions only. *)
From Coq Require Import NArith ZArith List Bool Arith.
Import ListNotations.
From PM Require Import Model.Varint Model.Directory Model.Iterate.
Open Scope bool_scope.

(* cmp := int64(tileID) - int64(entries[k].TileID): the sign of the difference computed with wrap-around *)
Definition cmp64 (a b:N) : comparison :=
  let d := w64 (a + 2^64 - b)%N in if (d =? 0)%N then Eq else if (d <? 2^63)%N then Gt else Lt.

(* binary search with hi = n+1 so that indices stay in nat (n may be -1 in the Go code) *)
Fixpoint bsearch (fuel:nat) (es:list entry) (id:N) (m hi:nat) : option entry * nat :=
  match fuel with
  | O => (None, hi)
  | S f =>
    if (m <? hi)%nat then
      let k := ((hi - 1 + m) / 2)%nat in
      match nth_error es k with
      | None => (None, hi)
      | Some e =>
        match cmp64 id (tid e) with
        | Gt => bsearch f es id (S k) hi
        | Lt => bsearch f es id m k
        | Eq => (Some e, hi)
        end
      end
    else (None, hi)
  end.

Definition find_tile (es:list entry) (id:N) : option entry :=
  match bsearch (S (length es)) es id 0 (length es) with
  | (Some e, _) => Some e
  | (None, hi) =>
    match hi with
    | O => None
    | S n =>
      match nth_error es n with
      | None => None
      | Some e => if (run e =? 0)%N then Some e
                  else if (w64 (id + 2^64 - tid e) <? run e)%N then Some e else None
      end
    end
  end.

(* spec: predecessor entry (greatest tid <= id), accepted if it is a leaf pointer or its run covers id *)
Fixpoint last_le (es:list entry) (id:N) (acc:option entry) : option entry :=
  match es with [] => acc | e :: r => if (tid e <=? id)%N then last_le r id (Some e) else acc end.
Definition pred_spec (es:list entry) (id:N) : option entry :=
  match last_le es id None with
  | None => None
  | Some e => if (run e =? 0)%N then Some e else if (id - tid e <? run e)%N then Some e else None
  end.

Definition ascending (es:list entry) : Prop :=
  forall i j a b, (i < j)%nat -> nth_error es i = Some a -> nth_error es j = Some b -> (tid a < tid b)%N.

(* ---- the directory walk of the server and of the CLI: at most [fuel] directories are visited
        (depth 0..3 in both implementations => fuel 4) *)
Inductive wres := WFound (e:entry) | WAbsent | WDirFail | WTooDeep.
Section Walk.
Variable fetch : N -> N -> option (list entry).
Variable leaf_base : N.
Fixpoint walk (fuel:nat) (o l:N) (id:N) : wres :=
  match fuel with
  | O => WTooDeep
  | S f =>
    match fetch o l with
    | None => WDirFail
    | Some es =>
      match find_tile es id with
      | None => WAbsent
      | Some e => if (0 <? run e)%N then WFound e else walk f (w64 (leaf_base + off e)) (len e) id
      end
    end
  end.
End Walk.

(* spec: the tile entry, anywhere in the tree, whose run covers id *)
Definition covers (id:N) (e:entry) : bool := ((tid e <=? id) && (id <? tid e + run e))%N.
Definition cover (fl:list entry) (id:N) : option entry := find (covers id) fl.

Definition walk_table (t:dir_table) (lb:N) (fuel:nat) (o l id:N) := walk (lookup_dir t) lb fuel o l id.

(* ---- well-formed directory trees.  wfdir d lo hi es: the directory es, with at most d leaf levels below
   it, addresses only ids in [lo,hi): entries strictly ascending, a tile entry's run ends before the next
   entry, a leaf pointer (run length 0) leads to a fetchable directory whose ids lie between the pointer's
   id and the next entry's id. *)
Section WF.
Variable fetch : N -> N -> option (list entry).
Variable leaf_base : N.
Definition next_id (hi:N) (r:list entry) : N := match r with [] => hi | e' :: _ => tid e' end.
Fixpoint wfdir (d:nat) : N -> N -> list entry -> Prop :=
  fix go (lo hi:N) (es:list entry) {struct es} : Prop :=
    match es with
    | [] => (lo <= hi)%N
    | e :: r =>
       let nxt := next_id hi r in
       (lo <= tid e)%N /\ (tid e < nxt)%N /\
       (if (0 <? run e)%N then (tid e + run e <= nxt)%N
        else match d with
             | O => False
             | S d' => exists sub, fetch (w64 (leaf_base + off e)) (len e) = Some sub /\ wfdir d' (tid e) nxt sub
             end) /\
       go nxt hi r
    end.
(* a whole archive: the root directory at (o,l), at most d leaf levels, ids below 2^63 *)
Definition wftree (d:nat) (o l:N) : Prop :=
  exists es, fetch o l = Some es /\ wfdir d 0 (2^63) es.
End WF.

(* ---- what a tile request answers, given the walk: the bytes at (offset,length) of the tile-data section.
   The number of directories either walk may visit is the regenerated loop bound + 1. *)
From PM Require Gen.Generated.
Definition depth_fuel : nat := S (Z.to_nat Generated.depth_bound_server).
Definition slice (data:list N) (o l:N) : list N := firstn (N.to_nat l) (skipn (N.to_nat o) data).
Inductive tresp := R200 (body:list N) | R204 | R500.
Definition tile_response (t:dir_table) (lb:N) (fuel:nat) (o l:N) (data:list N) (id:N) : tresp :=
  match walk_table t lb fuel o l id with
  | WFound e => R200 (slice data (off e) (len e))
  | WAbsent | WTooDeep => R204
  | WDirFail => R500
  end.
