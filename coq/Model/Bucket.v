(* Models of the three bucket backends' ranged read (pmtiles/bucket.go:60-79, 121-152, 173-210) and of the
   cloud adapter's status classification (281-301).  An object is its bytes; its version tag is an abstract value
   (the in-memory backend hashes the content, the local backend hashes (mtime,size), the HTTP backend passes the
   origin's ETag through).  The condition of a read is abstracted to: none / the current tag / a stale tag.
   Definitions only. *)
From Coq Require Import NArith ZArith List Bool.
Import ListNotations.
From PM Require Import Model.Resolver Model.FindTile.
Open Scope N_scope.

Inductive cond := CNone | CCurrent | CStale.
Inductive bres := BOk (body:bytes) | BRefresh (status:N) | BErr (status:N).

(* mockBucket.NewRangeReaderEtag *)
Definition read_mock (obj:option bytes) (off len:N) (c:cond) : bres :=
  match obj with
  | None => BErr 404
  | Some b =>
    match c with CStale => BRefresh 412 | _ =>
    if blen b <=? off then BRefresh 416 else BOk (slice b off len) end
  end.

(* FileBucket.NewRangeReaderEtag: a key that is not local, a missing file -> error 404; ReadAt semantics: bytes
   [off, min(off+len,size)), an empty body when off is at or beyond the end *)
Definition read_file (key_local:bool) (obj:option bytes) (off len:N) (c:cond) : bres :=
  if negb key_local then BErr 404 else
  match obj with
  | None => BErr 404
  | Some b => match c with CStale => BRefresh 412 | _ => BOk (slice b off len) end
  end.

(* HTTPBucket.NewRangeReaderEtag against an origin.  The origin's answer is a status and a body. *)
Inductive origin_resp := OTransport | OStatus (status:N) (body:bytes).
Definition read_http (r:origin_resp) : bres :=
  match r with
  | OTransport => BErr 500
  | OStatus st body =>
    if (st =? 200) || (st =? 206) then BOk body
    else if (st =? 412) || (st =? 416) then BRefresh st else BErr st
  end.
(* an origin that implements RFC 7233 ranges and RFC 7232 If-Match on one object (net/http.ServeContent) *)
Definition origin (obj:option bytes) (off len:N) (c:cond) : origin_resp :=
  match obj with
  | None => OStatus 404 []
  | Some b =>
    match c with CStale => OStatus 412 [] | _ =>
    if blen b =? 0 then OStatus 200 []       (* ServeContent ignores Range on an empty object *)
    else if len =? 0 then OStatus 416 []          (* "bytes=off-(off-1)" is not a satisfiable range *)
    else if blen b <=? off then OStatus 416 []
    else OStatus 206 (slice b off len) end
  end.

(* BucketAdapter: provider status -> error class *)
Definition adapter_class (status:N) : bres := if (status =? 412) || (status =? 416) then BRefresh status else BErr status.

(* version tags of the local backend: a function of (mtime in ns, size) *)
Definition file_tag_key (mtime:Z) (size:N) : Z * N := (mtime, size).
