(* Model of the region -> tile-ID-set computation of Extract (pmtiles/bitmap.go:12-64, extract.go:306-346).
   The geometry library is represented by its two answers: the boundary tile cover (an ascending duplicate-free list of
   tile IDs at the finest zoom) and the point-in-region test of a tile's centre.  Definitions only. *)
From Coq Require Import NArith ZArith List Bool.
Import ListNotations.
From PM Require Import Model.TileId Model.F64.
Open Scope N_scope.

Definition mem (i:N) (s:list N) : bool := existsb (N.eqb i) s.

(* bitmapMultiPolygon: walking the boundary IDs in ascending order, one containment test per gap *)
Fixpoint gaps (inside:N -> bool) (all bs:list N) : list (N * N) :=
  match bs with
  | b :: ((b' :: _) as r) => if negb (mem (b + 1) all) && inside (b + 1) then (b + 1, b') :: gaps inside all r else gaps inside all r
  | _ => []
  end.
Definition interior_ranges (inside:N -> bool) (boundary:list N) : list (N * N) := gaps inside boundary boundary.
Definition in_ranges (i:N) (rs:list (N * N)) : bool := existsb (fun g => (fst g <=? i) && (i <? snd g)) rs.

(* generalizeOr: the parents of the previous level are added, maxzoom - minzoom times *)
Fixpoint insert_id (x:N) (l:list N) : list N :=
  match l with [] => [x] | y :: r => if x <? y then x :: l else if x =? y then l else y :: insert_id x r end.
Definition to_set (l:list N) : list N := fold_left (fun acc x => insert_id x acc) l [].
Fixpoint levels (n:nat) (cur acc:list N) : list N :=
  match n with O => acc | S k => let ps := to_set (map parent_id cur) in levels k ps (fold_left (fun a x => insert_id x a) ps acc) end.
Definition generalize_or (s:list N) (minz:N) : list N :=
  match s with
  | [] => []
  | x :: _ => let maxz := zoom_of (last s x) in levels (N.to_nat (maxz - minz)) s s
  end.
Fixpoint range_ids (a:N) (n:nat) : list N := match n with O => [] | S k => a :: range_ids (a + 1) k end.
Definition expand (rs:list (N * N)) : list N := concat (map (fun g => range_ids (fst g) (N.to_nat (snd g - fst g))) rs).
Definition region_relevant (inside:N -> bool) (boundary:list N) (minz:N) : list N :=
  generalize_or (to_set (boundary ++ expand (interior_ranges inside boundary))) minz.

(* header bounds and centre of the region: int32(f * 1e7) of the bounding box and of its float64 midpoint.
   Coordinates are decimal literals m / 10^k with one common k. *)
Definition f64_add (a b:f64) : f64 := Flocq.IEEE754.Bits.b64_plus Flocq.IEEE754.BinarySingleNaN.mode_NE a b.
Definition zmin_list (l:list Z) (d:Z) : Z := fold_left Z.min l d.
Definition zmax_list (l:list Z) (d:Z) : Z := fold_left Z.max l d.
Definition region_header (k:nat) (lons lats:list Z) : list Z :=
  match lons, lats with
  | lo0 :: _, la0 :: _ =>
    let f m := dec_to_f64 m k in
    let (l, r) := (zmin_list lons lo0, zmax_list lons lo0) in
    let (b, t) := (zmin_list lats la0, zmax_list lats la0) in
    let mid a c := f64_div (f64_add (f a) (f c)) (f64_of_Z 2) in
    [to_e7_pinned (f l); to_e7_pinned (f b); to_e7_pinned (f r); to_e7_pinned (f t); to_e7_pinned (mid l r); to_e7_pinned (mid b t)]
  | _, _ => []
  end.
