(* Model of pmtiles/tile_id.go, operation by operation, with Go's uint8/uint32/uint64 wrap-around.
   Details a naive model loses: n := uint32(z-1) is 255 for z = 0 so 1<<n is 0 and the loop does not run;
   rotate is called with the current bit s on coordinates whose higher bits are still set, so s-1-x wraps in
   uint32; 3*i+1 overflows exactly at the first ID of zoom 32.  Definitions only. *)
From Coq Require Import NArith Bool.
From PM Require Export Base.Wrap.
Open Scope N_scope.

Definition rotate (n x y rx ry : N) : N * N :=
  if ry =? 0 then
    let '(x, y) := if negb (rx =? 0) then (sub32 (sub32 n 1) x, sub32 (sub32 n 1) y) else (x, y) in (y, x)
  else (x, y).
Fixpoint zxy_loop (fuel:nat) (s n x y acc : N) : N :=
  match fuel with O => acc | S f => if s =? 0 then acc else
    let rx := N.land s x in let ry := N.land s y in
    let acc := w64 (acc + shl64 (N.lxor (w32 (3*rx)) ry) n) in
    let '(x,y) := rotate s x y rx ry in
    zxy_loop f (N.shiftr s 1) (sub32 n 1) x y acc end.

Fixpoint id_loop (fuel:nat) (a z t tx ty : N) : N*N :=
  match fuel with O => (tx,ty) | S f => if a <? z then
    let s := shl32 1 a in
    let rx := N.land 1 (N.shiftr (w32 t) 1) in
    let ry := N.land 1 (N.lxor (w32 t) rx) in
    let '(tx,ty) := rotate s tx ty rx ry in
    id_loop f (a+1) z (N.shiftr t 2) (w32 (tx + shl32 rx a)) (w32 (ty + shl32 ry a)) else (tx,ty) end.

Definition len64 (x:N) : N := match x with 0 => 0 | _ => N.log2 x + 1 end.
Definition acc_of (z:N) : N := (w64 (shl64 1 (w8 (z*2)) + 2^64 - 1)) / 3.
Definition zoom_of (i:N) : N := w8 (len64 (w64 (3*i+1)) + 255) / 2.

Definition zxy_to_id (z x y : N) : N :=
  let n := w32 (w8 (z + 255)) in
  zxy_loop 33 (shl32 1 n) n x y (acc_of z).

Definition id_to_zxy (i:N) : N*N*N :=
  let z := zoom_of i in
  let t := w64 (i + 2^64 - acc_of z) in
  let '(x,y) := id_loop 130 0 z t 0 0 in (z,x,y).

Definition parent_id (i:N) : N :=
  let z := zoom_of i in
  w64 (acc_of (w8 (z + 255)) + w64 (i + 2^64 - acc_of z) / 4).

