(* Model of the extract command without a region (pmtiles/extract.go:252-569) on abstract archives: zoom clamping,
   restriction of the entries to the zoom block range (with run trimming), re-encoding to contiguous offsets, the
   copied tile data and the rewritten header.  The directory tree only prunes which leaves are fetched; the result is
   defined on the flattened entries.  Definitions only. *)
From Coq Require Import NArith ZArith List Bool.
Import ListNotations.
From PM Require Import Model.Varint Model.Directory Model.Header Model.TileId Model.FindTile Model.Resolver Model.Archive Model.Extract.
Open Scope N_scope.

Inductive xres := XOk (a:archive) | XErr.
Definition clamp_zooms (h:header) (minz maxz:Z) : Z * Z :=
  let lo := if (minz =? -1)%Z || (minz <? h F_min_zoom)%Z then h F_min_zoom else minz in
  let hi := if (maxz =? -1)%Z || (h F_max_zoom <? maxz)%Z then h F_max_zoom else maxz in
  (lo, hi).
Definition extract_model (a:archive) (minz maxz:Z) : xres :=
  let h := a_hdr a in
  if negb (h F_clustered =? 1)%Z then XErr else
  let '(lo, hi) := clamp_zooms h minz maxz in
  if (hi <? lo)%Z then XErr else
  let b := [(zxy_to_id (Z.to_N lo) 0 0, zxy_to_id (w8 (Z.to_N hi + 1)) 0 0)] in
  let tiles := fst (relevant_entries b (Z.to_N hi) (a_entries a)) in
  let '(re, ranges, total, addr, contents) := reencode tiles in
  let data := concat (map (fun r => slice (a_data a) (r_src r) (r_len r)) ranges) in
  let h := upd (upd (upd (upd h F_data_len (Z.of_N total)) F_addressed (Z.of_N addr)) F_entries (Z.of_nat (length tiles))) F_contents (Z.of_N contents) in
  let h := upd (upd h F_min_zoom lo) F_max_zoom hi in
  XOk (mkA h re data (a_meta a)).
