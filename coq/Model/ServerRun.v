(* Executable instance of the server LTS for the correspondence check: concrete versions (parsed archives),
   macro steps (start a request / release a blocked bucket call / replace or delete an archive) each followed by
   running the event loop to quiescence, and the observables compared with the real server: the multiset of
   bucket calls that are blocked at the gate and the requests completed so far.  Definitions only. *)
From Coq Require Import NArith ZArith List Bool Arith.
Import ListNotations.
From PM Require Import Gen.Generated Model.Varint Model.Directory Model.Iterate Model.FindTile Model.Resolver Model.TileId Model.Server.
Open Scope N_scope.

Record cver := mkCV {
  c_tag : N; c_minz : N; c_maxz : N; c_ext : N;       (* c_ext: code of the extension the tile type requires, 0 = no check *)
  c_root : N * N; c_leaf_base : N; c_tile_base : N;
  c_dirs : dir_table; c_file : bytes;
  c_meta_off : N; c_meta_len : N;                     (* metadata section of the header *)
  c_metabody : bytes; c_jsonbody : bytes;             (* what /name/metadata and /name.json answer for this version alone *)
  c_hdrs : bytes }.                                   (* Content-Type|Content-Encoding of a tile of this version (from ITS tile type and compression) *)

Definition c_lookup (v:cver) (o l id:N) : look :=
  match lookup_dir (c_dirs v) o l with
  | None => LNone
  | Some es => match find_tile es id with
               | None => LNone
               | Some e => if 0 <? run e then LTile (off e) (len e) else LLeaf (off e) (len e)
               end
  end.
#[export] Instance CVersion : Version := {
  ver := cver; vtag := c_tag;
  zoom_ok := fun v z => (c_minz v <=? z) && (z <=? c_maxz v);
  ext_ok := fun v e => (c_ext v =? 0) || (e =? c_ext v);
  root := c_root; dir_lookup := c_lookup; leaf_base := c_leaf_base; tile_base := c_tile_base;
  meta_off := c_meta_off; meta_len := c_meta_len }.

(* ---- the loop's byte accounting and LRU list (server.go:115-123,131-133,211-229), kept beside the abstract state.
   Elements carry an id because re-inserting a cached key leaves the old element in the list as an orphan whose later
   eviction deletes the map entry of the same key.  Evictions are applied to the abstract state as LEvict labels, so
   every run of this scheduler is a run of the LTS. *)
Record xstate := mkX {
  x_sys : sys;
  x_lru : list (nat * key * N);      (* evictList, front first: (element id, key, size) *)
  x_map : list (key * nat);          (* cache map: key -> element id *)
  x_total : Z;                       (* totalSize *)
  x_limit : Z;                       (* cacheSize * 1000 * 1000 *)
  x_nid : nat }.
Definition xinit (limit:Z) : xstate := mkX init [] [] 0 limit 0.

Definition entry_size (cv:cval) : N :=
  match cv_pay cv with
  | Some (PHeader _) => 127
  | Some (PDir v o l) => 24 * match lookup_dir (c_dirs v) o l with Some es => N.of_nat (length es) | None => 0 end
  | None => 0
  end.
Fixpoint map_get (k:key) (m:list (key*nat)) : option nat :=
  match m with [] => None | (k', i) :: r => if key_eqb k k' then Some i else map_get k r end.
Definition map_del (k:key) (m:list (key*nat)) := filter (fun p => negb (key_eqb k (fst p))) m.
Definition lru_del (i:nat) (l:list (nat*key*N)) := filter (fun e => negb (Nat.eqb (fst (fst e)) i)) l.
Definition lru_size (i:nat) (l:list (nat*key*N)) : Z :=
  match find (fun e => Nat.eqb (fst (fst e)) i) l with Some e => Z.of_N (snd e) | None => 0%Z end.
Definition lru_front (i:nat) (l:list (nat*key*N)) :=
  match find (fun e => Nat.eqb (fst (fst e)) i) l with Some e => e :: lru_del i l | None => l end.

(* purge: every MAPPED element of the archive whose key tag or value tag is the purged tag *)
Definition xpurge (x:xstate) (n p:N) : xstate :=
  let victims := filter (fun kc => (kn (fst kc) =? n) && ((ke (fst kc) =? p) || (cv_etag (snd kc) =? p))) (cache (x_sys x)) in
  fold_left (fun x kc =>
      match map_get (fst kc) (x_map x) with
      | Some i => mkX (x_sys x) (lru_del i (x_lru x)) (map_del (fst kc) (x_map x)) (x_total x - lru_size i (x_lru x)) (x_limit x) (x_nid x)
      | None => x end) victims x.

Definition xloop_req (x:xstate) (m:nat) : option xstate :=
  match split_req m (reqq (x_sys x)) with
  | None => None
  | Some (_, (_, _, k, p), _) =>
    let x1 := if p =? 0 then x else xpurge x (kn k) p in
    match exec (x_sys x) (LLoopReq m) with
    | None => None
    | Some s' =>
      (* a hit moves the mapped element to the front *)
      let lru' := match map_get k (x_map x1) with Some i => lru_front i (x_lru x1) | None => x_lru x1 end in
      Some (mkX s' lru' (x_map x1) (x_total x1) (x_limit x1) (x_nid x1))
    end
  end.

(* the eviction loop: remove from the back while totalSize >= limit; stops when the list is empty *)
Fixpoint xevict (fuel:nat) (x:xstate) : xstate :=
  match fuel with
  | O => x
  | S f =>
    if (x_total x <? x_limit x)%Z then x else
    match rev (x_lru x) with
    | [] => x
    | (i, k, sz) :: _ =>
      let s' := match exec (x_sys x) (LEvict k) with Some s' => s' | None => x_sys x end in
      xevict f (mkX s' (lru_del i (x_lru x)) (map_del k (x_map x)) (x_total x - Z.of_N sz) (x_limit x) (x_nid x))
    end
  end.

Definition xloop_resp (x:xstate) (k:key) : option xstate :=
  match split_key k (respq (x_sys x)) with
  | None => None
  | Some (_, (k', cv), _) =>
    match exec (x_sys x) (LLoopResp k) with
    | None => None
    | Some s' =>
      if cv_ok cv then
        let sz := entry_size cv in
        let i := x_nid x in
        Some (xevict (S (length (x_lru x))) (mkX s' ((i, k', sz) :: x_lru x) ((k', i) :: map_del k' (x_map x)) (x_total x + Z.of_N sz) (x_limit x) (S i)))
      else Some (mkX s' (x_lru x) (x_map x) (x_total x) (x_limit x) (x_nid x))
    end
  end.

(* run the event loop until both queues are empty (request messages first, oldest first) *)
Fixpoint settle (fuel:nat) (x:xstate) : xstate :=
  match fuel with
  | O => x
  | S f =>
    match reqq (x_sys x) with
    | (m, _, _, _) :: _ => match xloop_req x m with Some x' => settle f x' | None => x end
    | [] => match respq (x_sys x) with
            | (k, _) :: _ => match xloop_resp x k with Some x' => settle f x' | None => x end
            | [] => x
            end
    end
  end.
Definition on_sys (x:xstate) (o:option sys) : option xstate :=
  option_map (fun s' => mkX s' (x_lru x) (x_map x) (x_total x) (x_limit x) (x_nid x)) o.

(* the bucket call a pending fetch / tile read is blocked in: (name, etag, offset, length) *)
Definition root_fetch_len : N := Z.to_N Generated.root_fetch_len.
Definition call_of_key (k:key) : N * N * N * N :=
  if (ko k =? 0) && (kl k =? 0) then (kn k, ke k, 0, root_fetch_len) else (kn k, ke k, ko k, kl k).
Definition call_of_handler (h:hstate) : option (N * N * N * N) :=
  match h with HWaitTile q a hv o l => Some (t_name q, vtag hv, rbase hv q + o, l) | _ => None end.
Definition call_eqb (a b:N*N*N*N) : bool :=
  let '(a1,a2,a3,a4) := a in let '(b1,b2,b3,b4) := b in (a1 =? b1) && (a2 =? b2) && (a3 =? b3) && (a4 =? b4).
Definition pending_calls (s:sys) : list (N*N*N*N) :=
  map call_of_key (fetches s) ++ flat_map (fun p => match call_of_handler (snd p) with Some c => [c] | None => [] end) (handlers s).

(* fault kinds injected at the gate.  For a header/directory fetch every kind yields a failed, uncached result
   (refresh-required class for 412/416); for a tile read: refresh -> retry, mid-stream read error -> 500, other -> 404. *)
Inductive fkind := FError | FNotFound | FRefresh | FCanceled | FMidstream | FBadBytes.
Inductive mstep :=
| MStart (rid:nat) (name z x y ext:N)
| MStartMeta (rid:nat) (name kind:N)   (* kind 1 = /name/metadata, 2 = /name.json *)
| MRelease (name etag o l:N)          (* the gate lets one blocked call with these arguments proceed *)
| MFault (name etag o l:N) (kind:fkind) (* ... or makes it fail *)
| MReplace (name:N) (v:cver)
| MDelete (name:N).

Definition find_fetch (c:N*N*N*N) (s:sys) : option key := find (fun k => call_eqb (call_of_key k) c) (fetches s).
Definition find_tile_reader (c:N*N*N*N) (s:sys) : option nat :=
  match find (fun p => match call_of_handler (snd p) with Some c' => call_eqb c' c | None => false end) (rev (handlers s)) with
  | Some p => Some (fst p) | None => None end.

Definition macro (x:xstate) (m:mstep) : option xstate :=
  let fuel := 2000%nat in
  let s := x_sys x in
  option_map (settle fuel)
  (match m with
  | MStart rid name z x' y ext => on_sys x (exec s (LStart rid (mkQ name z ext (zxy_to_id z x' y) 0)))
  | MStartMeta rid name kind => on_sys x (exec s (LStart rid (mkQ name 0 0 0 kind)))
  | MRelease name etag o l =>
      match find_fetch (name, etag, o, l) s with
      | Some k => on_sys x (exec s (LFetchDo k))
      | None => match find_tile_reader (name, etag, o, l) s with
                | Some rid => on_sys x (exec s (LTileDo rid))
                | None => None
                end
      end
  | MFault name etag o l kind =>
      match find_fetch (name, etag, o, l) s with
      | Some k => on_sys x (exec s (LFetchFail k (match kind with FRefresh => true | _ => false end)))
      | None => match find_tile_reader (name, etag, o, l) s with
                | Some rid => match kind with
                              | FBadBytes => None   (* wrong bytes returned as success by a tile read cannot be detected: not injected *)
                              | FRefresh => on_sys x (exec s (LTileFail rid TFRefresh))
                              | FMidstream => on_sys x (exec s (LTileFail rid TFRead))
                              | _ => on_sys x (exec s (LTileFail rid TFError))
                              end
                | None => None
                end
      end
  | MReplace name v => on_sys x (exec s (LReplace name v))
  | MDelete name => on_sys x (exec s (LDelete name))
  end).

(* responses as the HTTP client sees them: status and body *)
(* the content headers sent with a 200: those of the version that answered *)
Definition resp_headers (q:treq) (r:resp) : bytes :=
  match r with
  | R200 v _ _ => if t_kind q =? 0 then c_hdrs v else [97;112;112;108;105;99;97;116;105;111;110;47;106;115;111;110;124]   (* "application/json|" *)
  | _ => []
  end.
Definition status_body (q:treq) (r:resp) : N * bytes :=
  match r with
  | R200 v o l => (200, if t_kind q =? 0 then slice (c_file v) o l else if t_kind q =? 1 then c_metabody v else c_jsonbody v)
  | R204 => (204, []) | R404 => (404, []) | R400 => (400, []) | R500 => (500, [])
  end.
