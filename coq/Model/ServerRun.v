(* Executable instance of the server LTS for the correspondence check: concrete versions (parsed archives),
   macro steps (start a request / release a blocked bucket call / replace or delete an archive) each followed by
   running the event loop to quiescence, and the observables compared with the real server: the multiset of
   bucket calls that are blocked at the gate and the requests completed so far.  Definitions only. *)
From Coq Require Import NArith ZArith List Bool Arith.
Import ListNotations.
From PM Require Import Gen.Generated Model.Varint Model.Directory Model.Iterate Model.FindTile Model.Resolver Model.TileId Model.Server.
Open Scope N_scope.

Record cver := mkCV {
  c_tag : N; c_minz : N; c_maxz : N; c_ext : N;       (* c_ext: code of the extension the tile type requires, 0 = no check *)
  c_root : N * N; c_leaf_base : N; c_tile_base : N;
  c_dirs : dir_table; c_file : bytes }.

Definition c_lookup (v:cver) (o l id:N) : look :=
  match lookup_dir (c_dirs v) o l with
  | None => LNone
  | Some es => match find_tile es id with
               | None => LNone
               | Some e => if 0 <? run e then LTile (off e) (len e) else LLeaf (off e) (len e)
               end
  end.
#[export] Instance CVersion : Version := {
  ver := cver; vtag := c_tag;
  zoom_ok := fun v z => (c_minz v <=? z) && (z <=? c_maxz v);
  ext_ok := fun v e => (c_ext v =? 0) || (e =? c_ext v);
  root := c_root; dir_lookup := c_lookup; leaf_base := c_leaf_base; tile_base := c_tile_base }.

(* run the event loop until both queues are empty (request messages first, oldest first) *)
Fixpoint settle (fuel:nat) (s:sys) : sys :=
  match fuel with
  | O => s
  | S f =>
    match reqq s with
    | (m, _, _, _) :: _ => match exec s (LLoopReq m) with Some s' => settle f s' | None => s end
    | [] => match respq s with
            | (k, _) :: _ => match exec s (LLoopResp k) with Some s' => settle f s' | None => s end
            | [] => s
            end
    end
  end.

(* the bucket call a pending fetch / tile read is blocked in: (name, etag, offset, length) *)
Definition root_fetch_len : N := Z.to_N Generated.root_fetch_len.
Definition call_of_key (k:key) : N * N * N * N :=
  if (ko k =? 0) && (kl k =? 0) then (kn k, ke k, 0, root_fetch_len) else (kn k, ke k, ko k, kl k).
Definition call_of_handler (h:hstate) : option (N * N * N * N) :=
  match h with HWaitTile q a hv o l => Some (t_name q, vtag hv, tile_base hv + o, l) | _ => None end.
Definition call_eqb (a b:N*N*N*N) : bool :=
  let '(a1,a2,a3,a4) := a in let '(b1,b2,b3,b4) := b in (a1 =? b1) && (a2 =? b2) && (a3 =? b3) && (a4 =? b4).
Definition pending_calls (s:sys) : list (N*N*N*N) :=
  map call_of_key (fetches s) ++ flat_map (fun p => match call_of_handler (snd p) with Some c => [c] | None => [] end) (handlers s).

(* fault kinds injected at the gate.  For a header/directory fetch every kind yields a failed, uncached result
   (refresh-required class for 412/416); for a tile read: refresh -> retry, mid-stream read error -> 500, other -> 404. *)
Inductive fkind := FError | FNotFound | FRefresh | FCanceled | FMidstream | FBadBytes.
Inductive mstep :=
| MStart (rid:nat) (name z x y ext:N)
| MRelease (name etag o l:N)          (* the gate lets one blocked call with these arguments proceed *)
| MFault (name etag o l:N) (kind:fkind) (* ... or makes it fail *)
| MReplace (name:N) (v:cver)
| MDelete (name:N).

Definition find_fetch (c:N*N*N*N) (s:sys) : option key := find (fun k => call_eqb (call_of_key k) c) (fetches s).
Definition find_tile_reader (c:N*N*N*N) (s:sys) : option nat :=
  match find (fun p => match call_of_handler (snd p) with Some c' => call_eqb c' c | None => false end) (rev (handlers s)) with
  | Some p => Some (fst p) | None => None end.

Definition macro (s:sys) (m:mstep) : option sys :=
  let fuel := 2000%nat in
  match m with
  | MStart rid name z x y ext =>
      option_map (settle fuel) (exec s (LStart rid (mkQ name z ext (zxy_to_id z x y))))
  | MRelease name etag o l =>
      match find_fetch (name, etag, o, l) s with
      | Some k => option_map (settle fuel) (exec s (LFetchDo k))
      | None => match find_tile_reader (name, etag, o, l) s with
                | Some rid => option_map (settle fuel) (exec s (LTileDo rid))
                | None => None
                end
      end
  | MFault name etag o l kind =>
      match find_fetch (name, etag, o, l) s with
      | Some k => option_map (settle fuel) (exec s (LFetchFail k (match kind with FRefresh => true | _ => false end)))
      | None => match find_tile_reader (name, etag, o, l) s with
                | Some rid => match kind with
                              | FBadBytes => None   (* wrong bytes returned as success by a tile read cannot be detected: not injected *)
                              | FRefresh => option_map (settle fuel) (exec s (LTileFail rid TFRefresh))
                              | FMidstream => option_map (settle fuel) (exec s (LTileFail rid TFRead))
                              | _ => option_map (settle fuel) (exec s (LTileFail rid TFError))
                              end
                | None => None
                end
      end
  | MReplace name v => option_map (settle fuel) (exec s (LReplace name v))
  | MDelete name => option_map (settle fuel) (exec s (LDelete name))
  end.

(* responses as the HTTP client sees them: status and body *)
Definition status_body (r:resp) : N * bytes :=
  match r with
  | R200 v o l => (200, slice (c_file v) o l)
  | R204 => (204, []) | R404 => (404, []) | R400 => (400, []) | R500 => (500, [])
  end.
