(* C17 — Entry enumeration visits every entry once, in order, or reports the failure.
   Only statements, each closed by [exact], with Print Assumptions. *)
From Coq Require Import NArith List.
Import ListNotations.
From PM Require Import Model.Varint Model.Directory Model.Iterate Model.FindTile Proofs.Iterate Proofs.WalkSorted.
Open Scope N_scope.

(* For every fetch function (any tree shape, any set of failing directories), any leaf base and any
   recursion budget: when every directory of the tree can be fetched the callback receives exactly
   the tile entries of the tree, in tree order, each once, and the walk returns no error ... *)
Theorem C17_complete : forall fetch lb fuel o l v,
  flatten fetch lb fuel o l = Some v -> iterate fetch lb fuel o l = (v, true).
Proof. intros fetch lb fuel o l v H. pose proof (iterate_spec fetch lb fuel o l) as S. rewrite H in S. exact S. Qed.

(* ... and when some directory of the tree cannot be fetched, the walk returns an error. *)
Theorem C17_fails_loudly : forall fetch lb fuel o l,
  flatten fetch lb fuel o l = None -> snd (iterate fetch lb fuel o l) = false.
Proof. intros fetch lb fuel o l H. pose proof (iterate_spec fetch lb fuel o l) as S. rewrite H in S. exact S. Qed.

(* The walk as it was at the pinned commit (result of the recursive call dropped) violates this. *)
Theorem C17_pinned_refuted :
  exists fetch lb o l, flatten fetch lb 3 o l = None /\ snd (iterate_pinned fetch lb 3 o l) = true.
Proof. exact iterate_pinned_refuted. Qed.

(* "exactly once, in ascending tile-ID order": on every well-formed archive (wftree of Model/FindTile.v: any number d of
   leaf levels) the enumeration completes and what it hands to the callback is a chain - ids ascending from 0, every run
   non-empty and ending at or before the next entry's id, so no id is addressed twice *)
Theorem C17_ascending_once : forall fetch lb d o l, wftree fetch lb d o l ->
  exists v, iterate fetch lb (S d) o l = (v, true) /\ flatten fetch lb (S d) o l = Some v /\ chain 0 v.
Proof. exact wftree_iterate_chain. Qed.
Theorem C17_chain_means_sorted : forall fl lo i j a b, chain lo fl -> (i < j)%nat -> nth_error fl i = Some a -> nth_error fl j = Some b ->
  0 < run a /\ tid a + run a <= tid b.
Proof. exact chain_sorted. Qed.

(* non-vacuity: a two-level tree with two leaves, all fetched; and the same tree with the second leaf failing *)
Definition ex_fetch (fail2:bool) (o l:N) : option (list entry) :=
  if o =? 127 then Some [mkE 1 0 5 0; mkE 10 5 7 0]
  else if o =? 1000 then Some [mkE 1 0 10 2; mkE 4 10 10 1]
  else if o =? 1005 then (if fail2 then None else Some [mkE 10 20 10 1; mkE 12 30 10 3])
  else None.
Example C17_nonvacuous_ok :
  flatten (ex_fetch false) 1000 3 127 9 = Some [mkE 1 0 10 2; mkE 4 10 10 1; mkE 10 20 10 1; mkE 12 30 10 3].
Proof. reflexivity. Qed.
Example C17_nonvacuous_fail : flatten (ex_fetch true) 1000 3 127 9 = None.
Proof. reflexivity. Qed.

Example C17_nonvacuous_wf : wftree (ex_fetch false) 1000 1 127 9.
Proof.
  exists [mkE 1 0 5 0; mkE 10 5 7 0]. split; [reflexivity|].
  cbn. repeat split; try (vm_compute; congruence).
  - exists [mkE 1 0 10 2; mkE 4 10 10 1]. split; [reflexivity|]. cbn. repeat split; vm_compute; congruence.
  - exists [mkE 10 20 10 1; mkE 12 30 10 3]. split; [reflexivity|]. cbn. repeat split; vm_compute; congruence.
Qed.

Print Assumptions C17_complete.
Print Assumptions C17_fails_loudly.
Print Assumptions C17_pinned_refuted.
Print Assumptions C17_ascending_once.
Print Assumptions C17_chain_means_sorted.
