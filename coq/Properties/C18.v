(* C18 — Bucket backends: exact ranged reads, change-detecting tags, errors not panics.
   backend 0 = in-memory, 1 = local directory (key already checked local), 2 = HTTP against an RFC-conforming origin. *)
From Coq Require Import NArith ZArith List Lia Bool.
Import ListNotations.
From PM Require Import Model.Resolver Model.FindTile Model.Bucket.
Open Scope N_scope.

Inductive backend := Mem | File | Http.
Definition backend_read (k:backend) (obj:option bytes) (off len:N) (c:cond) : bres :=
  match k with
  | Mem => read_mock obj off len c
  | File => read_file true obj off len c
  | Http => read_http (origin obj off len c)
  end.

(* exactly the requested bytes of the current object, truncated at its end: every backend, every offset inside the
   object, every length (>= 1 for HTTP, where a zero-length range cannot be expressed), unconditioned or conditioned
   on the current tag *)
Theorem C18_exact_range : forall k b off len c, c <> CStale -> off < blen b -> (k = Http -> 1 <= len) ->
  backend_read k (Some b) off len c = BOk (slice b off len).
Proof.
  intros k b off len c Hc Hoff Hlen. destruct k; cbn.
  - destruct c; try congruence; destruct (N.leb_spec (blen b) off); try lia; reflexivity.
  - destruct c; try congruence; reflexivity.
  - specialize (Hlen eq_refl). destruct c; try congruence; cbn;
      (destruct (N.eqb_spec (blen b) 0); [lia|]); (destruct (N.eqb_spec len 0); [lia|]); (destruct (N.leb_spec (blen b) off); [lia|]); reflexivity.
Qed.
(* the bytes are a prefix-truncated window: never longer than asked, never beyond the object *)
Theorem C18_truncated : forall (b:bytes) off len, blen (slice b off len) = N.min len (blen b - off).
Proof.
  intros b off len. unfold slice, blen. rewrite firstn_length, skipn_length. lia.
Qed.
(* a read conditioned on an outdated tag fails with the refresh-required class, on every backend, whatever the range *)
Theorem C18_stale_refresh : forall k b off len, exists st, backend_read k (Some b) off len CStale = BRefresh st.
Proof. intros k b off len. destruct k; cbn; eauto. Qed.
(* a read that starts inside the object and is unconditioned or carries the current tag never asks for a refresh *)
Theorem C18_current_never_refresh : forall k b off len c st, c <> CStale -> off < blen b -> (k = Http -> 1 <= len) ->
  backend_read k (Some b) off len c <> BRefresh st.
Proof. intros k b off len c st Hc Ho Hl. rewrite (C18_exact_range k b off len c Hc Ho Hl). discriminate. Qed.
(* a missing object and a transport failure are ordinary errors (the model has no panic outcome: where the Go code
   could panic the correspondence harness reports "crash") *)
Theorem C18_missing_is_error : forall k off len c, exists st, backend_read k None off len c = BErr st.
Proof. intros k off len c. destruct k; cbn; eauto. Qed.
Theorem C18_transport_is_error : read_http OTransport = BErr 500.
Proof. reflexivity. Qed.
(* the cloud adapter and the HTTP backend classify exactly 412 and 416 as refresh-required *)
Theorem C18_refresh_class : forall st, (exists s, adapter_class st = BRefresh s) <-> (st = 412 \/ st = 416).
Proof.
  intro st. unfold adapter_class. split.
  - intros (s & H). destruct (N.eqb_spec st 412); [auto|]. destruct (N.eqb_spec st 416); [auto|]. discriminate.
  - intros [-> | ->]; eexists; reflexivity.
Qed.
(* a key that is not a local path is answered like a missing object (C11) *)
Theorem C18_nonlocal_key_is_error : forall obj off len c, read_file false obj off len c = BErr 404.
Proof. reflexivity. Qed.

Example C18_ex : backend_read Mem (Some [1;2;3;4;5]) 3 10 CCurrent = BOk [4;5] /\ backend_read File (Some [1;2;3;4;5]) 7 2 CNone = BOk []
  /\ backend_read Mem (Some [1;2;3;4;5]) 5 1 CNone = BRefresh 416 /\ backend_read Http (Some [1;2;3]) 1 1 CStale = BRefresh 412.
Proof. repeat split; reflexivity. Qed.

Print Assumptions C18_exact_range.
Print Assumptions C18_truncated.
Print Assumptions C18_stale_refresh.
Print Assumptions C18_current_never_refresh.
Print Assumptions C18_missing_is_error.
Print Assumptions C18_transport_is_error.
Print Assumptions C18_refresh_class.
Print Assumptions C18_nonlocal_key_is_error.
