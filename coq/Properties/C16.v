(* C16 — Region extracts cover the region at every zoom and stay near it.
   PARTIAL: the discrete core is proved (interior fill along the Hilbert order, ancestor propagation, parent closure);
   the geometry of the orb library enters through two named hypotheses, validated by testing only (see DESIGN.md):
     H_cover  the boundary cover contains one of any two edge-adjacent tiles whose centres are on different sides
     inside   the point-in-region test of a tile centre (Web-Mercator, even-odd over rings with holes). *)
From Coq Require Import NArith ZArith List Bool Lia.
Import ListNotations.
From PM Require Import Model.TileId Model.Hilbert Model.F64 Model.Region Proofs.HilTop Proofs.Region Proofs.E7Glue Proofs.E7Center.
Open Scope N_scope.

(* between the first and the last boundary tile a tile off the boundary is in the filled interior exactly when its centre is
   inside the region: nothing inside is missed, nothing outside (or in a hole) is added *)
Theorem C16_fill_exact : forall inside all lo i,
  (forall j, mem j all = false -> mem (j + 1) all = false -> inside j = inside (j + 1)) ->
  asc lo all -> mem i all = false -> (exists x, In x all /\ x < i) -> (exists y, In y all /\ i < y) ->
  in_ranges i (interior_ranges inside all) = inside i.
Proof. intros inside all lo i Hsep. apply fill_exact. exact Hsep. Qed.

(* the separation hypothesis of C16_fill_exact holds inside a zoom level as soon as the boundary cover is complete,
   because consecutive tile IDs are edge-adjacent tiles (C01_adjacent) *)
Theorem C16_separation : forall z inside_xy all, z <= 31 ->
  (forall i j, base z <= i -> i < base (z + 1) -> base z <= j -> j < base (z + 1) ->
     (let '(_, x1, y1) := id_to_zxy i in let '(_, x2, y2) := id_to_zxy j in manh (x1, y1) (x2, y2) = 1) ->
     inside_id inside_xy i <> inside_id inside_xy j -> mem i all = true \/ mem j all = true) ->
  forall i, base z <= i -> i + 1 < base (z + 1) -> mem i all = false -> mem (i + 1) all = false ->
  inside_id inside_xy i = inside_id inside_xy (i + 1).
Proof. intros z inside_xy all Hz Hc. apply sep_from_cover; assumption. Qed.

(* ancestor propagation: the relevance set is exactly the finest-zoom set and its ancestors up to the minimum zoom *)
Theorem C16_relevant_spec : forall s minz t,
  In t (generalize_or s minz) <-> exists k d, (k <= depth s minz)%nat /\ In d s /\ t = ancestor k d.
Proof. exact generalize_or_spec. Qed.
(* every finest-zoom tile on the boundary or filled is relevant *)
Theorem C16_cover_finest : forall s minz t, In t s -> In t (generalize_or s minz).
Proof. intros s minz t H. apply generalize_or_spec. exists 0%nat, t. split; [lia|]. split; [exact H|reflexivity]. Qed.
(* a relevant tile is an ancestor of a finest-zoom tile that is on the boundary or inside: the extract stays near the region *)
Theorem C16_near : forall s minz t, In t (generalize_or s minz) -> exists k d, In d s /\ t = ancestor k d.
Proof. intros s minz t H. apply generalize_or_spec in H. destruct H as [k [d [_ H]]]. exists k, d. exact H. Qed.
(* whenever a tile above the minimum zoom is relevant, so is its parent *)
Theorem C16_parents : forall s minz k d, In d s -> (k < depth s minz)%nat -> In (parent_id (ancestor k d)) (generalize_or s minz).
Proof. intros s minz k d Hd Hk. apply generalize_or_spec. exists (S k), d. split; [lia|]. split; [exact Hd|reflexivity]. Qed.

(* header bounds: the four bound fields are the truncated E7 values of the region's bounding box - for coordinates written with k <= 7
   decimals each is within one unit of the exact value (min / max of the coordinates times 10^(7-k)) *)
Theorem C16_header_bounds : forall k lo0 los la0 las, (k <= 7)%nat ->
  let lons := lo0 :: los in let lats := la0 :: las in
  let s := (10 ^ (7 - Z.of_nat k))%Z in
  (forall v, In v (lons ++ lats) -> (- 2^31 + 1 < v * s < 2^31 - 1)%Z) ->
  match region_header k lons lats with
  | [l; b; r; t; _; _] =>
      (Z.abs (l - zmin_list lons lo0 * s) <= 1 /\ Z.abs (b - zmin_list lats la0 * s) <= 1 /\
       Z.abs (r - zmax_list lons lo0 * s) <= 1 /\ Z.abs (t - zmax_list lats la0 * s) <= 1)%Z
  | _ => False
  end.
Proof.
  intros k lo0 los la0 las Hk lons lats s Hr. unfold region_header. cbv zeta.
  assert (Hmin : forall l d, In d l -> In (zmin_list l d) l).
  { intros l. unfold zmin_list. assert (G : forall l0 acc, In (fold_left Z.min l0 acc) l0 \/ fold_left Z.min l0 acc = acc).
    { induction l0 as [|x r IH]; intro acc; cbn; [right; reflexivity|]. destruct (IH (Z.min acc x)) as [H|H]; [left; right; exact H|].
      rewrite H. destruct (Z.min_spec acc x) as [[_ E]|[_ E]]; rewrite E; [right; reflexivity|left; left; reflexivity]. }
    intros d Hd. destruct (G l d) as [H|H]; [exact H|rewrite H; exact Hd]. }
  assert (Hmax : forall l d, In d l -> In (zmax_list l d) l).
  { intros l. unfold zmax_list. assert (G : forall l0 acc, In (fold_left Z.max l0 acc) l0 \/ fold_left Z.max l0 acc = acc).
    { induction l0 as [|x r IH]; intro acc; cbn; [right; reflexivity|]. destruct (IH (Z.max acc x)) as [H|H]; [left; right; exact H|].
      rewrite H. destruct (Z.max_spec acc x) as [[_ E]|[_ E]]; rewrite E; [left; left; reflexivity|right; reflexivity]. }
    intros d Hd. destruct (G l d) as [H|H]; [exact H|rewrite H; exact Hd]. }
  repeat split; apply e7_trunc_decimal; try exact Hk; apply Hr; apply in_or_app.
  - left. apply Hmin. left. reflexivity.
  - right. apply Hmin. left. reflexivity.
  - left. apply Hmax. left. reflexivity.
  - right. apply Hmax. left. reflexivity.
Qed.

(* header centre: the two centre fields are the truncated E7 values of the float64 midpoint of the bounding box; each is within one
   unit of the exact midpoint, which is a whole or half number of units: |2 * field - (min + max) * 10^(7-k)| <= 2 *)
Theorem C16_header_center : forall k lo0 los la0 las, (k <= 7)%nat ->
  let lons := lo0 :: los in let lats := la0 :: las in
  let s := (10 ^ (7 - Z.of_nat k))%Z in
  (forall v, In v (lons ++ lats) -> (- 2^31 + 1 < v * s < 2^31 - 1)%Z) ->
  match region_header k lons lats with
  | [_; _; _; _; cx; cy] =>
      (Z.abs (2 * cx - (zmin_list lons lo0 + zmax_list lons lo0) * s) <= 2 /\
       Z.abs (2 * cy - (zmin_list lats la0 + zmax_list lats la0) * s) <= 2)%Z
  | _ => False
  end.
Proof.
  intros k lo0 los la0 las Hk lons lats s Hr. unfold region_header. cbv zeta.
  assert (Hmin : forall l d, In d l -> In (zmin_list l d) l).
  { intros l. unfold zmin_list. assert (G : forall l0 acc, In (fold_left Z.min l0 acc) l0 \/ fold_left Z.min l0 acc = acc).
    { induction l0 as [|x r IH]; intro acc; cbn; [right; reflexivity|]. destruct (IH (Z.min acc x)) as [H|H]; [left; right; exact H|].
      rewrite H. destruct (Z.min_spec acc x) as [[_ E]|[_ E]]; rewrite E; [right; reflexivity|left; left; reflexivity]. }
    intros d Hd. destruct (G l d) as [H|H]; [exact H|rewrite H; exact Hd]. }
  assert (Hmax : forall l d, In d l -> In (zmax_list l d) l).
  { intros l. unfold zmax_list. assert (G : forall l0 acc, In (fold_left Z.max l0 acc) l0 \/ fold_left Z.max l0 acc = acc).
    { induction l0 as [|x r IH]; intro acc; cbn; [right; reflexivity|]. destruct (IH (Z.max acc x)) as [H|H]; [left; right; exact H|].
      rewrite H. destruct (Z.max_spec acc x) as [[_ E]|[_ E]]; rewrite E; [left; left; reflexivity|right; reflexivity]. }
    intros d Hd. destruct (G l d) as [H|H]; [exact H|rewrite H; exact Hd]. }
  split; apply e7_center; try exact Hk; apply Hr; apply in_or_app.
  - left. apply Hmin. left. reflexivity.
  - left. apply Hmax. left. reflexivity.
  - right. apply Hmin. left. reflexivity.
  - right. apply Hmax. left. reflexivity.
Qed.

(* non-vacuity: a boundary ring around tile (2,1,1) at zoom 2 *)
Example C16_example :
  let b := map (fun xy => zxy_to_id 2 (fst xy) (snd xy)) [(0,0);(1,0);(2,0);(2,1);(2,2);(1,2);(0,2);(0,1)] in
  let all := to_set b in
  let ins := fun i => i =? zxy_to_id 2 1 1 in
  interior_ranges ins all = [(zxy_to_id 2 1 1, zxy_to_id 2 1 1 + 1)] /\
  region_relevant ins all 0 = [0; 1; 2; 3; 4; 5; 6; 7; 8; 9; 12; 13; 18; 19].
Proof. vm_compute. split; reflexivity. Qed.

Print Assumptions C16_fill_exact.
Print Assumptions C16_separation.
Print Assumptions C16_relevant_spec.
Print Assumptions C16_cover_finest.
Print Assumptions C16_near.
Print Assumptions C16_parents.
Print Assumptions C16_header_bounds.
Print Assumptions C16_header_center.
