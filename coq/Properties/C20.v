(* C20 — makesync + sync converge the local archive to the remote one, byte for byte.
   Model/Sync.v: block construction, diff, merging, batching and assembly; Model/Edit.v: the file operations. *)
From Coq Require Import NArith List Bool String Lia.
Import ListNotations.
From PM Require Import Gen.Generated Model.Varint Model.Directory Model.FindTile Model.Resolver Model.Edit Model.Sync Proofs.Edit Proofs.Sync.
Open Scope N_scope.

Theorem C20_statements : Generated.sync_calls = SpecSync.sync_calls.
Proof. reflexivity. Qed.

(* makesync: for every clustered entry stream and block size the blocks tile the tile data; so the running-sum offsets
   that sync reconstructs from the .sync file are the real ones *)
Theorem C20_blocks_partition : forall bs e0 es, off e0 = 0 -> clustered 0 (e0 :: es) ->
  exists bl, makesync_blocks bs (e0 :: es) = MSOk bl /\ chain 0 bl /\ total bl = cl_end 0 (e0 :: es).
Proof. exact blocks_partition. Qed.
Theorem C20_offsets_reconstructed : forall hash data bl, chain 0 bl ->
  with_offsets 0 (sync_entries hash data bl) = map (fun b => mkRB (b_start b) (b_off b) (b_len b) (hash (slice data (b_off b) (b_len b)))) bl.
Proof. intros hash data bl H. apply with_offsets_chain. exact H. Qed.

(* sync of ANY local archive (any entries, any bytes) against the blocks of the remote archive gives the remote file,
   when the remote sections are chained with header and root inside the first 16384 bytes and xxhash64 does not collide
   on the compared byte strings *)
Theorem C20_converges : forall hash lfile rfile ldoff rh les bl,
  (s_meta_off rh <= 16384 /\ s_meta_off rh + s_meta_len rh <= blen rfile) ->
  (s_leaf_off rh <= s_meta_off rh + s_meta_len rh /\ s_leaf_off rh + s_leaf_len rh <= blen rfile) ->
  (s_data_off rh <= s_leaf_off rh + s_leaf_len rh /\ s_data_off rh + total bl = blen rfile) ->
  chain 0 bl ->
  (forall b e, In b bl -> In e les ->
     hash (slice (skipn (N.to_nat ldoff) lfile) (off e) (b_len b)) = hash (slice (skipn (N.to_nat (s_data_off rh)) rfile) (b_off b) (b_len b)) ->
     slice (skipn (N.to_nat ldoff) lfile) (off e) (b_len b) = slice (skipn (N.to_nat (s_data_off rh)) rfile) (b_off b) (b_len b)) ->
  so_file (sync hash false lfile ldoff les rfile rh (sync_entries hash (skipn (N.to_nat (s_data_off rh)) rfile) bl)) = Some rfile.
Proof. intros. apply sync_converges; assumption. Qed.

(* local = remote: every block is found locally, nothing is wanted, no tile data is requested *)
Theorem C20_equal_no_download : forall hash bs file doff rh e0 es bl, off e0 = 0 -> clustered 0 (e0 :: es) -> asc_tids 0 (e0 :: es) ->
  makesync_blocks bs (e0 :: es) = MSOk bl ->
  so_wanted (sync hash true file doff (e0 :: es) file rh (sync_entries hash (skipn (N.to_nat doff) file) bl)) = [] /\
  multi_ranges (s_data_off rh) 1048376 [] = [].
Proof.
  intros hash bs file doff rh e0 es bl H0 Hc Ha Hm. split; [|reflexivity].
  destruct (blocks_partition bs e0 es H0 Hc) as [bl' [Hm' [Hch _]]]. rewrite Hm in Hm'. inversion Hm'; subst bl'.
  unfold sync. rewrite (with_offsets_chain hash _ bl 0 Hch).
  (* the blocks are a subsequence of the entries *)
  assert (Hsub : subseq bl (e0 :: es)).
  { unfold makesync_blocks in Hm. cbn [fold_left] in Hm.
    assert (Hl : Forall (fun e => 0 < len e) es).
    { clear -Hc. cbn [clustered] in Hc. destruct Hc as [_ [_ Hc]]. revert Hc. generalize (if off e0 =? 0 then 0 + len e0 else 0).
      induction es as [|e r IH]; intros o Hc; constructor; cbn [clustered] in Hc; [tauto|]. destruct Hc as [_ [_ Hc]]. exact (IH _ Hc). }
    assert (H1 : ms_step bs (Some (mkB 0 0 0, [])) e0 = Some (mkB (tid e0) (off e0) (len e0), [])) by reflexivity.
    rewrite H1 in Hm. pose proof (fold_blocks_from bs es (mkB (tid e0) (off e0) (len e0)) []) as Hf.
    cbn [clustered] in Hc. destruct Hc as [Hl0 _]. specialize (Hf Hl0 Hl).
    destruct (fold_left (ms_step bs) es (Some (mkB (tid e0) (off e0) (len e0), []))) as [[c o]|]; [|discriminate].
    inversion Hm; subst bl. cbn [rev app] in Hf.
    destruct (blocks_from bs (mkB (tid e0) (off e0) (len e0)) es) as [l|] eqn:Eb; [|discriminate]. cbn [option_map] in Hf. inversion Hf as [Hl'].
    destruct (blocks_from_tail bs es _ _ Eb) as [c' [l' [-> [Hs [Ho Hsub]]]]]. cbn [rev]. rewrite <- Hl'. apply sub_take; assumption. }
  destruct (diff_all_have hash (skipn (N.to_nat doff) file) (e0 :: es) bl 0 [] [] Hsub Ha) as [have' Hd].
  unfold rb_of in Hd. rewrite Hd. reflexivity.
Qed.

(* a dry run computes the plan and writes nothing *)
Theorem C20_dry_run_untouched : forall hash lfile ldoff les rfile rh blocks, so_file (sync hash true lfile ldoff les rfile rh blocks) = None.
Proof. intros. unfold sync. destruct (diff _ _ _ _ _ _). reflexivity. Qed.

(* the batched Range headers request exactly the wanted ranges, in order, whatever the header budget *)
Theorem C20_batches_partition : forall base maxb l, List.concat (map snd (multi_ranges base maxb l)) = l.
Proof. exact multi_ranges_partition. Qed.

(* a sync that fails or is interrupted at any point (between operations, or inside any write) leaves the archive path
   with the old archive or the completely assembled new file; other files are not touched *)
Theorem C20_failure_leaves_complete : forall f a t old target writes, t <> a -> fs_get a f = Some old ->
  forall s, In s (crash_states f (sync_ops a t target writes)) ->
  fs_get a s = Some old \/
  fs_get a s = fs_get t (fold_left run_op ([OCreate t; OTruncate t target] ++ map (fun w => OPwrite t (fst w) (snd w)) writes) f).
Proof. exact sync_crash_safe. Qed.

(* non-vacuity *)
Example C20_example :
  let es := [mkE 1 0 600 1; mkE 2 600 500 1; mkE 5 0 600 1; mkE 7 1100 300 2] in
  clustered 0 es /\ makesync_blocks 1000 es = MSOk [mkB 1 0 600; mkB 2 600 800] /\ makesync_blocks 0 es = MSOk [mkB 1 0 600; mkB 2 600 500; mkB 7 1100 300].
Proof. cbn. repeat split; lia. Qed.

Print Assumptions C20_statements.
Print Assumptions C20_blocks_partition.
Print Assumptions C20_offsets_reconstructed.
Print Assumptions C20_converges.
Print Assumptions C20_equal_no_download.
Print Assumptions C20_dry_run_untouched.
Print Assumptions C20_batches_partition.
Print Assumptions C20_failure_leaves_complete.
