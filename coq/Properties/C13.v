(* C13 — Cluster preserves tiles, declarations, metadata; writes truthful statistics.
   The cluster model (Model/Cluster.v) = enumerate the tile entries in ID order, re-append each tile's bytes with
   its run length to the resolver (Model/Resolver.v, compress=false), finalize the header (Model/Cluster.v). *)
From Coq Require Import NArith ZArith List.
Import ListNotations.
From PM Require Import Model.Varint Model.Directory Model.Header Model.TileId Model.FindTile Model.Resolver Model.Archive
  Model.Verify Model.Cluster Proofs.Resolver Proofs.Cluster Proofs.ClusterThm.
Open Scope N_scope.

Section C13.
(* fnv128a: any function; the theorems that depend on deduplication being sound carry the no-collision hypothesis *)
Variable hash : bytes -> bytes.
Hypothesis no_collision : forall d1 d2, hash d1 = hash d2 -> d1 = d2.

(* the tile-to-content map of the result equals the input's: every addressed tile has byte-identical content and no
   other tile is addressed — with and without deduplication, any run lengths, shared contents, any offset order *)
Theorem C13_tile_map_preserved : forall dedup a rl ml ll a',
  awf a -> cluster hash dedup a rl ml ll = COk a' -> forall id, content_of a' id = content_of a id.
Proof. exact (cluster_tile_map hash no_collision). Qed.

(* the written statistics, layout and zoom range are those of the directories actually written: the result passes
   verify (Model/Verify.v: section lengths vs file size, every entry inside the tile data, clustered order, addressed /
   entry / content counts, min/max zoom) whenever its bounds are non-degenerate and its center zoom is in range *)
Theorem C13_verifies : forall dedup a rl ml ll a',
  awf a -> cluster hash dedup a rl ml ll = COk a' ->
  (a_hdr a' F_min_lon < a_hdr a' F_max_lon)%Z -> (a_hdr a' F_min_lat < a_hdr a' F_max_lat)%Z ->
  (a_hdr a' F_min_zoom <= a_hdr a' F_center_zoom <= a_hdr a' F_max_zoom)%Z ->
  127 + rl + ml + ll + blen (a_data a') < 2^63 ->
  verify (a_hdr a') (Some (a_entries a')) (Z.of_N (127 + rl + ml + ll + blen (a_data a'))) = None.
Proof. exact (cluster_verifies hash no_collision). Qed.

(* declarations: marked clustered; tile type, tile compression, bounds and metadata are the input's *)
Theorem C13_declarations : forall dedup a rl ml ll a',
  cluster hash dedup a rl ml ll = COk a' ->
  a_hdr a' F_clustered = 1%Z /\ a_hdr a' F_tile_type = a_hdr a F_tile_type /\ a_hdr a' F_tile_comp = a_hdr a F_tile_comp /\
  a_hdr a' F_min_lon = a_hdr a F_min_lon /\ a_hdr a' F_min_lat = a_hdr a F_min_lat /\
  a_hdr a' F_max_lon = a_hdr a F_max_lon /\ a_hdr a' F_max_lat = a_hdr a F_max_lat /\ a_meta a' = a_meta a.
Proof.
  intros dedup a rl ml ll a' H. unfold cluster in H. destruct (a_hdr a F_clustered =? 1)%Z; [discriminate|].
  unfold finalize, set_zoom_center in H.
  destruct (entries_of (add_all (fun b => b) hash dedup (cluster_inputs a))) as [|e0 et]; [discriminate|].
  match type of H with context [if ?c then _ else _] => destruct c end; inversion H; subst a'; cbn [a_hdr a_meta]; repeat split; reflexivity.
Qed.
End C13.

(* non-vacuity: an unclustered archive with a run, a shared content and reversed data order; the model clusters it *)
Definition ex_hdr : header := list_header [3;127;20;147;2;149;0;149;9;4;3;2;0;1;1;2;0;1;-10;-10;10;10;0;0;0]%Z.
Definition ex_arch := mkA ex_hdr [mkE 0 6 3 1; mkE 1 0 6 2; mkE 4 6 3 1] [1;2;3;4;5;6;7;8;9] [123;125].
Example C13_ex_wf : awf ex_arch.
Proof. split; cbn; repeat constructor; vm_compute; congruence. Qed.
Example C13_ex_run : match cluster (fun b => b) true ex_arch 20 2 0 with
  | COk a' => a_entries a' = [mkE 0 0 3 1; mkE 1 3 6 2; mkE 4 0 3 1] /\ a_data a' = [7;8;9;1;2;3;4;5;6] /\
              a_hdr a' F_addressed = 4%Z /\ a_hdr a' F_contents = 2%Z
  | _ => False end.
Proof. vm_compute. repeat split; reflexivity. Qed.

Print Assumptions C13_tile_map_preserved.
Print Assumptions C13_verifies.
Print Assumptions C13_declarations.
