(* C02 — Header codec: 127-byte spec layout, lossless both ways, bad magic rejected.
   The model is the layout interpreter of Model/Header.v run on the tables that tools/gotables regenerates
   from SerializeHeader / DeserializeHeader on every run (Gen/Generated.v). *)
From Coq Require Import ZArith List Lia Arith.
Import ListNotations.
From PM Require Import Base.HeaderKinds Gen.Generated Model.Header Proofs.Header.
Open Scope Z_scope.

(* The tables the Go code implements ARE the specification's layout. A consistent change of both Go
   functions (two fields swapped, a width changed) survives every round-trip test (see
   C02_roundtrip_any_layout) and is caught here. *)
Theorem C02_layout_ser : Generated.ser_layout = Spec.layout.
Proof. reflexivity. Qed.
Theorem C02_layout_deser : Generated.deser_layout = Spec.layout.
Proof. reflexivity. Qed.
Theorem C02_buffer_len : Generated.header_len = 127%nat /\ Generated.ser_buffer_len = 127%nat /\ contiguous_from 0 Spec.layout = true.
Proof. repeat split; reflexivity. Qed.
Theorem C02_struct_fields : length Generated.struct_fields = 25%nat /\ NoDup (map r_fld Spec.layout).
Proof. split; [reflexivity|]. cbn. repeat constructor; cbn; intuition discriminate. Qed.

Theorem C02_length : forall h, length (serialize Generated.ser_layout h) = 127%nat.
Proof. intro h. rewrite serialize_len. reflexivity. Qed.

(* every field sits at its specified offset in its specified encoding (little-endian, E7 coordinates as
   two's-complement int32, magic "PMTiles", version byte 3, clustered as 0/1) *)
Theorem C02_spec_bytes : forall h r, In r Spec.layout ->
  firstn (r_w r) (skipn (r_off r) (serialize Generated.ser_layout h)) = enc_field h r.
Proof.
  intros h r Hin. rewrite C02_layout_ser. rewrite <- (Nat.sub_0_r (r_off r)).
  apply serialize_slice; [reflexivity|exact Hin].
Qed.

(* header -> bytes -> header: every field of the layout comes back (for all values of the Go field types) *)
Theorem C02_roundtrip : forall h, header_ok Spec.layout h ->
  exists h', deserialize Generated.deser_layout (serialize Generated.ser_layout h) = inl h' /\
             forall r, In r Spec.layout -> (forall m, r_kind r <> KMagic m) -> h' (r_fld r) = h (r_fld r).
Proof.
  intros h Hok. rewrite C02_layout_ser, C02_layout_deser.
  exists (apply_fields h Spec.layout (fun _ => 0)). split.
  - unfold deserialize. rewrite <- (app_nil_r (serialize Spec.layout h)). apply roundtrip_any_layout. exact Hok.
  - intros r Hin Hk. apply apply_fields_get; [apply C02_struct_fields|assumption|assumption].
Qed.
(* corollary: headers that differ in a field never share their 127 bytes *)
Theorem C02_serialize_injective : forall h1 h2, header_ok Spec.layout h1 -> header_ok Spec.layout h2 ->
  serialize Generated.ser_layout h1 = serialize Generated.ser_layout h2 ->
  forall r, In r Spec.layout -> (forall m, r_kind r <> KMagic m) -> h1 (r_fld r) = h2 (r_fld r).
Proof.
  intros h1 h2 H1 H2 E r Hin Hk.
  destruct (C02_roundtrip h1 H1) as (a & Da & Fa). destruct (C02_roundtrip h2 H2) as (b & Db & Fb).
  rewrite E in Da. rewrite Da in Db. injection Db as Eab. rewrite <- (Fa r Hin Hk), <- (Fb r Hin Hk), Eab. reflexivity.
Qed.
(* ... and for ANY table the reader undoes the writer, which is why round trips cannot see consistent edits *)
Theorem C02_roundtrip_any_layout : forall h L rest h0, header_ok L h ->
  deserialize_f L (serialize L h ++ rest) h0 = inl (apply_fields h L h0).
Proof. exact roundtrip_any_layout. Qed.

Lemma skipn_skipn {A} (a b:nat) (l:list A) : skipn a (skipn b l) = skipn (b + a) l.
Proof. revert l; induction b as [|b IH]; intro l; [reflexivity|]. destruct l; [destruct a; reflexivity|]. cbn [skipn plus]. apply IH. Qed.
Lemma firstn1_skipn (n:nat) (l:list Z) : (n < length l)%nat -> firstn 1 (skipn n l) = [nth n l 0].
Proof. revert l; induction n as [|n IH]; intros l H; destruct l; cbn in *; try lia; [reflexivity|]. apply IH. lia. Qed.

Lemma canon_offsets : forall L o b, contiguous_from o L = true ->
  (forall r, In r L -> row_canon r (firstn (width (r_kind r)) (skipn (r_off r) b))) -> canon L (skipn o b).
Proof.
  induction L as [|x L IH]; intros o b Hc Hr; [exact I|].
  cbn [contiguous_from] in Hc. apply andb_prop in Hc as [Hc1 Hc3]. apply andb_prop in Hc1 as [Hc1 Hc2].
  apply Nat.eqb_eq in Hc1, Hc2. cbn [canon]. split.
  - rewrite <- Hc1. apply Hr. left; reflexivity.
  - rewrite skipn_skipn, <- Hc2. apply IH; [exact Hc3|]. intros r Hin. apply Hr. right; exact Hin.
Qed.
Lemma canon_spec b : (127 <= length b)%nat -> nth 7 b 0 = 3 -> (nth 96 b 0 = 0 \/ nth 96 b 0 = 1) -> canon Spec.layout b.
Proof.
  intros Hlen H7 H96. change b with (skipn 0 b). apply canon_offsets; [reflexivity|].
  intros r Hin. unfold Spec.layout in Hin. cbn [In] in Hin.
  repeat (destruct Hin as [<-|Hin]; [try exact I|]); try contradiction.
  - unfold row_canon. cbn [r_kind r_off fst snd width]. rewrite firstn1_skipn by lia. f_equal. exact H7.
  - unfold row_canon. cbn [r_kind r_off fst snd width]. rewrite firstn1_skipn by lia. destruct H96 as [-> | ->]; [left|right]; reflexivity.
Qed.

Lemma deserialize_unfold L b : deserialize L b = deserialize_f L b (fun _ => 0).
Proof. reflexivity. Qed.
Lemma bytes_rt_spec b h : length b = 127%nat -> Forall byte b -> nth 7 b 0 = 3 -> (nth 96 b 0 = 0 \/ nth 96 b 0 = 1) ->
  deserialize_f Spec.layout b (fun _ => 0) = inl h -> serialize Spec.layout h = b.
Proof.
  intros Hlen Hb H7 H96 Hd.
  pose proof (bytes_roundtrip_any_layout Spec.layout b (fun _ => 0) h (proj2 C02_struct_fields) Hb
                (canon_spec b ltac:(lia) H7 H96) Hd) as E.
  rewrite E. assert (EF: fold_right (fun r a => (width (r_kind r) + a)%nat) 0%nat Spec.layout = length b) by (rewrite Hlen; reflexivity).
  rewrite EF. apply firstn_all.
Qed.

(* bytes -> header -> bytes: any 127-byte v3 header (version byte 3) whose clustered byte is 0 or 1 *)
Theorem C02_bytes_roundtrip : forall b h, length b = 127%nat -> Forall byte b ->
  nth 7 b 0 = 3 -> (nth 96 b 0 = 0 \/ nth 96 b 0 = 1) ->
  deserialize Generated.deser_layout b = inl h -> serialize Generated.ser_layout h = b.
Proof.
  intros b h Hlen Hb H7 H96 Hd. rewrite C02_layout_ser. rewrite C02_layout_deser, deserialize_unfold in Hd.
  apply bytes_rt_spec; assumption.
Qed.

(* rejection instead of decoding *)
Theorem C02_reject_magic : forall b, (7 <= length b)%nat -> firstn 7 b <> Spec.magic ->
  deserialize Generated.deser_layout b = inr BadMagic.
Proof. intros b Hl Hm. rewrite C02_layout_deser. apply reject_magic; [assumption|reflexivity|assumption]. Qed.
Theorem C02_reject_version : forall b, (8 <= length b)%nat -> firstn 7 b = Spec.magic -> Forall byte b -> 3 < nth 7 b 0 ->
  deserialize Generated.deser_layout b = inr BadVersion.
Proof.
  intros b Hl Hm Hb Hv. rewrite C02_layout_deser. unfold deserialize, Spec.layout.
  cbn [deserialize_f r_kind fst snd width length Spec.magic].
  destruct (Nat.ltb_spec (length b) 7); [lia|]. change [80;77;84;105;108;101;115] with Spec.magic. rewrite Hm.
  destruct (list_eq_dec Z.eq_dec Spec.magic Spec.magic) as [_|]; [|congruence].
  assert (Hl7: (1 <= length (skipn 7 b))%nat) by (rewrite skipn_length; lia).
  destruct (Nat.ltb_spec (length (skipn 7 b)) 1); [lia|].
  rewrite firstn1_skipn by lia. cbn [of_le]. replace (nth 7 b 0 + 256 * 0) with (nth 7 b 0) by lia.
  apply Z.ltb_lt in Hv. rewrite Hv. reflexivity.
Qed.

(* non-vacuity: a header with every field distinct and extreme values is in range, and round-trips by computation *)
Definition ex_header : header := list_header
  [3; 2^64-1; 1; 2; 3; 4; 5; 6; 7; 8; 9; 10; 1; 2; 255; 5; 0; 31; -1800000000; -850511287; 1800000000; 850511287; 7; -1; -2147483648].
Example C02_ex_ok : header_ok Spec.layout ex_header.
Proof. unfold header_ok, Spec.layout. repeat constructor; cbn; lia. Qed.
Example C02_ex_bytes : firstn 8 (serialize Generated.ser_layout ex_header) = [80;77;84;105;108;101;115;3]
  /\ firstn 4 (skipn 102 (serialize Generated.ser_layout ex_header)) = [0; 46; 182; 148].
Proof. split; vm_compute; reflexivity. Qed.

Print Assumptions C02_layout_ser.
Print Assumptions C02_layout_deser.
Print Assumptions C02_buffer_len.
Print Assumptions C02_struct_fields.
Print Assumptions C02_length.
Print Assumptions C02_spec_bytes.
Print Assumptions C02_roundtrip.
Print Assumptions C02_roundtrip_any_layout.
Print Assumptions C02_bytes_roundtrip.
Print Assumptions C02_reject_magic.
Print Assumptions C02_reject_version.
Print Assumptions C02_serialize_injective.
