(* C03 — Directory codec: lossless and interoperable with the v3 wire format. *)
From Coq Require Import NArith List.
Import ListNotations.
From PM Require Import Model.Varint Model.Directory Proofs.Varint Proofs.Directory Proofs.DirBound.
Open Scope N_scope.

(* varints: reading what was written returns the value and the untouched rest *)
Theorem C03_varint : forall v r, v < 2^64 -> read_uvarint (put_uvarint v ++ r) = (v, r, VOk).
Proof. exact read_put_uvarint. Qed.

(* Uncompressed form. Every list of entries whose fields are in the ranges of their Go types (offsets
   below 2^64-1) round-trips — in ANY order of tile IDs (the uint64 wrap-around of the delta encoding
   makes it hold even for unsorted lists), so in particular for every ascending directory. *)
Theorem C03_roundtrip_raw : forall es r, Forall entry_ok es -> N.of_nat (length es) < 2^64 ->
  deserialize_entries (serialize_entries es ++ r) = es.
Proof. exact C03_roundtrip_raw. Qed.

(* The checked decoder (which the server uses) accepts it too, and rejects — without allocating — any input
   whose count exceeds the bytes that follow. *)
Theorem C03_roundtrip_checked : forall es r, Forall entry_ok es -> N.of_nat (length es) < 2^64 ->
  deserialize_res (serialize_entries es ++ r) = Some es.
Proof. exact roundtrip_res. Qed.
Theorem C03_count_beyond_input_rejected : forall n r, n < 2^64 -> N.of_nat (length r) < n ->
  deserialize_res (put_uvarint n ++ r) = None.
Proof.
  intros n r Hn Hlt. unfold deserialize_res. rewrite read_put_uvarint by assumption.
  apply N.ltb_lt in Hlt. rewrite Hlt. reflexivity.
Qed.

(* ... and for EVERY input, valid or not: what the checked decoder returns has at most as many entries as the input has
   bytes - a declared count cannot make it build a directory larger than what it was given *)
Theorem C03_decoded_count_bounded : forall bs es, deserialize_res bs = Some es -> (length es <= length bs)%nat.
Proof. exact decoded_count_bounded. Qed.

(* Both internal compressions. gzip is a pair of functions with the round-trip contract (trusted base). *)
Section Compression.
Variable comp : list N -> list N.
Variable decomp : list N -> option (list N).
Hypothesis decomp_comp : forall b, decomp (comp b) = Some b.
Definition serialize_c (gz:bool) (es:list entry) : list N :=
  if gz then comp (serialize_entries es) else serialize_entries es.
Definition deserialize_c (gz:bool) (b:list N) : option (list entry) :=
  if gz then option_map deserialize_entries (decomp b) else Some (deserialize_entries b).
Theorem C03_roundtrip : forall gz es, Forall entry_ok es -> N.of_nat (length es) < 2^64 ->
  deserialize_c gz (serialize_c gz es) = Some es.
Proof.
  intros gz es Hok Hn. unfold deserialize_c, serialize_c. destruct gz.
  - rewrite decomp_comp. cbn [option_map]. f_equal. rewrite <- (app_nil_r (serialize_entries es)). apply C03_roundtrip_raw; assumption.
  - f_equal. rewrite <- (app_nil_r (serialize_entries es)). apply C03_roundtrip_raw; assumption.
Qed.
End Compression.

(* Interoperability. wire_repr is the v3 directory format written declaratively (Model/Directory.v):
   the encoder's output is an instance of it, and the decoder reads EVERY instance of it — with or
   without the contiguous-offset shorthand — back to the entries that were encoded. *)
Theorem C03_encoder_is_spec : forall es, Forall entry_ok es -> Forall entry_fits es -> ascending_from 0 es ->
  wire_repr (serialize_entries es) es.
Proof. exact encoder_is_spec. Qed.
Theorem C03_decoder_reads_spec : forall b es r, wire_repr b es -> Forall entry_ok es -> Forall entry_fits es ->
  ascending_from 0 es -> N.of_nat (length es) < 2^64 -> deserialize_entries (b ++ r) = es.
Proof. exact decoder_reads_spec. Qed.

(* non-vacuity: a directory with multi-byte varints, a run, a shared offset and a contiguous pair;
   two different spec encodings (with and without the shorthand) *)
Definition ex_dir := [mkE 5 0 300 1; mkE 70000 300 20 4; mkE 70010 0 300 1; mkE (2^40) (2^50) 7 1].
Example C03_ex_ok : Forall entry_ok ex_dir /\ Forall entry_fits ex_dir /\ ascending_from 0 ex_dir.
Proof. repeat split; repeat constructor; vm_compute; try reflexivity; discriminate. Qed.
Example C03_ex_two_encodings :
  exists b1 b2, b1 <> b2 /\ wire_repr b1 ex_dir /\ wire_repr b2 ex_dir.
Proof.
  exists (serialize_entries ex_dir).
  exists (put_uvarint 4 ++ puts (sdeltas 0 ex_dir) ++ puts (map run ex_dir) ++ puts (map len ex_dir) ++ puts (map (fun e => off e + 1) ex_dir)).
  split; [vm_compute; discriminate|]. split.
  - apply encoder_is_spec; apply C03_ex_ok.
  - eexists. split; [|reflexivity]. unfold ex_dir. cbn [map]. repeat constructor.
Qed.

(* corollary: two different directories never share an encoding (what a reader decodes is what was written,
   so two writers that produce the same bytes wrote the same directory) *)
Theorem C03_serialize_injective : forall es1 es2, Forall entry_ok es1 -> Forall entry_ok es2 ->
  N.of_nat (length es1) < 2^64 -> N.of_nat (length es2) < 2^64 ->
  serialize_entries es1 = serialize_entries es2 -> es1 = es2.
Proof.
  intros es1 es2 H1 H2 L1 L2 E.
  rewrite <- (C03_roundtrip_raw es1 [] H1 L1), <- (C03_roundtrip_raw es2 [] H2 L2), E. reflexivity.
Qed.

Print Assumptions C03_varint.
Print Assumptions C03_roundtrip_raw.
Print Assumptions C03_roundtrip_checked.
Print Assumptions C03_count_beyond_input_rejected.
Print Assumptions C03_roundtrip.
Print Assumptions C03_encoder_is_spec.
Print Assumptions C03_decoder_reads_spec.
Print Assumptions C03_serialize_injective.
Print Assumptions C03_decoded_count_bounded.
