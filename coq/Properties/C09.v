(* C09 — Directory cache is transparent under concurrency, eviction and coalescing (statements; see also C08). *)
From Coq Require Import NArith ZArith List.
Import ListNotations.
From PM Require Import Model.Server Model.ServerRun Proofs.Server Proofs.ServerExec Proofs.ServerSize Proofs.ServerCoalesce Proofs.ServerCache.
Open Scope N_scope.

Section C09.
Context `{V:Version}.
Hypothesis root_off_nz : forall v, fst (root v) <> 0.
Hypothesis leaf_base_nz : forall v lo, leaf_base v + lo <> 0.

(* with a bucket that never changes an archive (one version per name in the history) every data-carrying or
   data-less answer is THE answer of that version: cache hits, evictions (any entry may vanish at any time) and
   shared fetches never change a result *)
Theorem C09_transparent : forall s rid q r v,
  reach s -> (forall v', In (t_name q, v') (hist s) -> v' = v) -> In (rid, q, r) (dones s) ->
  match r with R200 _ _ _ | R204 | R400 => answer v q = r | _ => True end.
Proof.
  intros s rid q r v R Hone Hin. pose proof (C08_single_version_tile root_off_nz leaf_base_nz s rid q r R Hin) as G.
  destruct r; cbn in G; auto.
  - destruct G as [Hh Ha]. rewrite <- (Hone _ Hh). exact Ha.
  - destruct G as (v' & Hh & Ha). rewrite <- (Hone _ Hh). exact Ha.
  - destruct G as (v' & Hh & Ha). rewrite <- (Hone _ Hh). exact Ha.
Qed.

(* a value delivered for a key is the data of that key's archive, offset and length (no cross-talk) *)
Theorem C09_no_cross_talk : forall s k cv, reach s -> (In (k, cv) (cache s) \/ In (k, cv) (respq s)) -> wk (hist s) k cv.
Proof.
  intros s k cv R [H|H]; [eapply (I_cache s (reach_inv root_off_nz leaf_base_nz s R)); eauto|eapply (I_resp s (reach_inv root_off_nz leaf_base_nz s R)); eauto].
Qed.

(* coalescing: in every reachable state there is at most one outstanding fetch per key (header or directory), every outstanding fetch
   has its waiters registered in the in-flight table - a request for a key that is being fetched joins them (rule SLoopReq) instead of
   issuing its own fetch - and a key whose response is queued for the loop is not fetched again before the loop has handled it *)
Theorem C09_coalesced : forall s, reach s ->
  NoDup (fetches s) /\ (forall k, In k (fetches s) -> In k (map fst (inflight s))) /\ (forall k, In k (map fst (respq s)) -> ~ In k (fetches s)).
Proof. intros s R. exact (coalesced root_off_nz s R). Qed.

(* the cache is a map and never competes with a fetch: in every reachable state a key (other than the tag-less slot a header fetch
   pre-populates with the root directory) occurs at most once in the cache, a cached key has no fetch outstanding and no response queued -
   so a hit never races with a fill of the same key, and what a purge removes cannot be resurrected by a shadowed older entry - and a
   successful value never carries the refresh-required flag *)
Theorem C09_cache_is_map : forall s, reach s ->
  NoDup (filter np (map fst (cache s))) /\
  (forall k, In k (map fst (cache s)) -> sane k -> ~ In k (map fst (inflight s)) /\ ~ In k (fetches s) /\ ~ In k (map fst (respq s))) /\
  (forall k cv, (In (k, cv) (cache s) \/ In (k, cv) (respq s)) -> cv_ok cv = true -> cv_bad cv = false).
Proof.
  intros s R. pose proof (reach_ci root_off_nz s R) as [A B C]. pose proof (reach_co root_off_nz s R) as Hco.
  split; [exact A|]. split; [|exact C].
  intros k Hk Hs. assert (Hi: ~ In k (ikeys s)) by (apply B; assumption). split; [exact Hi|]. split.
  - intro Hf. apply Hi. apply (E2 s Hco). exact Hf.
  - intro Hr. destruct (E4 s Hco k Hr) as [H|H]; [exact (Hi H)|exact (Hs H)].
Qed.
End C09.

(* the byte accounting of the cache (Model/ServerRun.v: eviction list with orphans, purge, move-to-front, eviction loop): whatever the
   requests, releases, faults, replacements and deletions, after every step of the scheduler the reported size is below the configured
   limit (for every positive limit: cache sizes of at least 1 MB are limits of at least 1 000 000) *)
Theorem C09_size_bound : forall (limit:Z) ms x, (0 < limit)%Z ->
  fold_left (fun o m => match o with Some x => macro x m | None => None end) ms (Some (xinit limit)) = Some x ->
  (x_total x < limit)%Z /\ x_limit x = limit.
Proof. exact size_bound. Qed.
(* ... and it is the sum of the sizes on the eviction list, message by message *)
Theorem C09_size_accounting : forall x m x', below x -> (0 < x_limit x)%Z -> macro x m = Some x' -> below x' /\ x_limit x' = x_limit x.
Proof. exact macro_below. Qed.


Print Assumptions C09_transparent.
Print Assumptions C09_no_cross_talk.
Print Assumptions C09_coalesced.
Print Assumptions C09_cache_is_map.
Print Assumptions C09_size_bound.
Print Assumptions C09_size_accounting.
