(* C15 — Verify rejects every inconsistency and accepts every consistent archive.
   verify is the model of pmtiles/verify.go (Model/Verify.v, after the two fix commits); [consistent]
   (Proofs/Verify.v) states the agreement of header and directories declaratively: sums, counts of distinct
   offsets, minimum / maximum tile id, first uses of offsets back to back — without the accumulator. *)
From Coq Require Import NArith ZArith List.
Import ListNotations.
From PM Require Import Model.Varint Model.Directory Model.Header Model.TileId Model.FindTile Model.Resolver Model.Archive
  Model.Verify Model.Cluster Proofs.Verify Proofs.ClusterThm.
Open Scope N_scope.

(* returns success exactly for the consistent archives: sound (every accepted archive is consistent: counts, zooms,
   section lengths vs file size, entries inside the tile data, clustered order) and complete (every consistent archive
   with center zoom in range and non-degenerate bounds is accepted) *)
Theorem C15_sound : forall h es fsize, Forall (fun e => off e + len e < 2^64) es ->
  verify h (Some es) fsize = None -> consistent h es fsize.
Proof. intros h es fsize Hf H. apply (verify_iff_consistent h es fsize Hf). exact H. Qed.
Theorem C15_complete : forall h es fsize, Forall (fun e => off e + len e < 2^64) es ->
  consistent h es fsize -> verify h (Some es) fsize = None.
Proof. intros h es fsize Hf H. apply (verify_iff_consistent h es fsize Hf). exact H. Qed.

(* an enumeration failure (C17: some directory cannot be fetched) is an error, never success *)
Theorem C15_enumeration_failure : forall h fsize, verify h None fsize <> None.
Proof.
  intros h fsize. unfold verify.
  repeat match goal with |- context [if ?c then _ else _] => destruct c; try discriminate end.
Qed.

(* in particular the archives that cluster writes are accepted (C13_verifies), for every well-formed input *)
Theorem C15_accepts_cluster_output : forall hash, (forall d1 d2, hash d1 = hash d2 -> d1 = d2) ->
  forall dedup a rl ml ll a', awf a -> cluster hash dedup a rl ml ll = COk a' ->
  (a_hdr a' F_min_lon < a_hdr a' F_max_lon)%Z -> (a_hdr a' F_min_lat < a_hdr a' F_max_lat)%Z ->
  (a_hdr a' F_min_zoom <= a_hdr a' F_center_zoom <= a_hdr a' F_max_zoom)%Z ->
  127 + rl + ml + ll + blen (a_data a') < 2^63 ->
  verify (a_hdr a') (Some (a_entries a')) (Z.of_N (127 + rl + ml + ll + blen (a_data a'))) = None.
Proof. exact cluster_verifies. Qed.

(* non-vacuity: a small consistent archive is accepted, and each single corruption of it is rejected *)
Definition okh : header := list_header [3;127;20;147;2;149;0;149;9;4;3;2;1;1;1;2;0;1;-10;-10;10;10;0;0;0]%Z.
Definition okes := [mkE 0 0 3 1; mkE 1 3 6 2; mkE 4 0 3 1].
Example C15_ex_ok : verify okh (Some okes) 158 = None.
Proof. vm_compute. reflexivity. Qed.
Example C15_ex_bad :
  verify (upd okh F_addressed 5%Z) (Some okes) 158 = Some VAddressed /\
  verify (upd okh F_contents 3%Z) (Some okes) 158 = Some VContents /\
  verify okh (Some [mkE 0 0 3 1; mkE 1 4 5 2; mkE 4 0 3 1]) 158 = Some VOrder /\
  verify okh (Some [mkE 0 0 3 1; mkE 1 3 7 2; mkE 4 0 3 1]) 158 = Some VOutside /\
  verify okh (Some okes) 157 = Some VTotalLen /\
  verify (upd okh F_max_zoom 2%Z) (Some okes) 158 = Some VMaxZoom.
Proof. repeat split; vm_compute; reflexivity. Qed.

Print Assumptions C15_sound.
Print Assumptions C15_complete.
Print Assumptions C15_enumeration_failure.
Print Assumptions C15_accepts_cluster_output.
