(* C08 — Server never mixes archive versions within one answer (tile, metadata and TileJSON requests).
   The server is the labelled transition system of Model/Server.v; [reach] is closed under ANY interleaving of
   request arrivals, loop messages, bucket reads, failures, evictions, replacements and deletions. *)
From Coq Require Import NArith List.
Import ListNotations.
From PM Require Import Model.Server Proofs.Server Proofs.ServerExec.
Open Scope N_scope.

Section C08.
Context `{V:Version}.
(* every version's header is sane: neither the root directory nor the leaf section starts at byte 0 *)
Hypothesis root_off_nz : forall v, fst (root v) <> 0.
Hypothesis leaf_base_nz : forall v lo, leaf_base v + lo <> 0.

(* every completed request: a 200 is exactly what ONE version of the archive's history answers (for a tile: header fields, directories,
   offset and length all of that version; for /metadata and TileJSON: the header of that version and the metadata section it declares);
   a 204 / 400 is the answer of one version of the history; 404 / 500 carry no data *)
Theorem C08_single_version : forall s rid q r, reach s -> In (rid, q, r) (dones s) -> good_done (hist s) q r.
Proof. intros s rid q r R Hin. exact (C08_single_version_tile root_off_nz leaf_base_nz s rid q r R Hin). Qed.

(* the metadata endpoints spelled out: the bytes answered are the metadata section of the very version whose header located it *)
Theorem C08_single_version_metadata : forall s rid q v o l, reach s -> t_kind q <> 0 -> In (rid, q, R200 v o l) (dones s) ->
  In (t_name q, v) (hist s) /\ o = meta_off v /\ l = meta_len v.
Proof.
  intros s rid q v o l R Hk Hin. pose proof (C08_single_version s rid q _ R Hin) as G. cbn in G. destruct G as [Hh Ha].
  split; [exact Hh|]. unfold answer in Ha. destruct (N.eqb_spec (t_kind q) 0) as [E|_]; [contradiction|]. cbn in Ha. inversion Ha. auto.
Qed.

(* the global invariant holds in every reachable state (tags determine versions; cache entries, pending responses and
   handler states are well-keyed; a waiter can only be handed values of the key it asked for) *)
Theorem C08_invariant : forall s, reach s -> Inv s.
Proof. exact (reach_inv root_off_nz leaf_base_nz). Qed.

(* the executable stepper that is validated against the real server only produces reachable states *)
Theorem C08_exec_sound : forall ls s', run_labels ls init = Some s' -> reach s'.
Proof. intros ls s' H. eapply run_reach; [apply reach_init|exact H]. Qed.
End C08.

Print Assumptions C08_single_version.
Print Assumptions C08_single_version_metadata.
Print Assumptions C08_invariant.
Print Assumptions C08_exec_sound.
