(* C08 — Server never mixes archive versions within one answer (tile, metadata and TileJSON requests).
   The server is the labelled transition system of Model/Server.v; [reach] is closed under ANY interleaving of
   request arrivals, loop messages, bucket reads, failures, evictions, replacements and deletions. *)
From Coq Require Import NArith List.
Import ListNotations.
From PM Require Import Model.Server Proofs.Server Proofs.ServerExec Proofs.ServerHarmless Proofs.ServerSettled Proofs.ServerTiming.
Open Scope N_scope.

Section C08.
Context `{V:Version}.
(* every version's header is sane: neither the root directory nor the leaf section starts at byte 0 *)
Hypothesis root_off_nz : forall v, fst (root v) <> 0.
Hypothesis leaf_base_nz : forall v lo, leaf_base v + lo <> 0.

(* every completed request: a 200 is exactly what ONE version of the archive's history answers (for a tile: header fields, directories,
   offset and length all of that version; for /metadata and TileJSON: the header of that version and the metadata section it declares);
   a 204 / 400 is the answer of one version of the history; 404 / 500 carry no data *)
Theorem C08_single_version : forall s rid q r, reach s -> In (rid, q, r) (dones s) -> good_done (hist s) q r.
Proof. intros s rid q r R Hin. exact (C08_single_version_tile root_off_nz leaf_base_nz s rid q r R Hin). Qed.

(* the metadata endpoints spelled out: the bytes answered are the metadata section of the very version whose header located it *)
Theorem C08_single_version_metadata : forall s rid q v o l, reach s -> t_kind q <> 0 -> In (rid, q, R200 v o l) (dones s) ->
  In (t_name q, v) (hist s) /\ o = meta_off v /\ l = meta_len v.
Proof.
  intros s rid q v o l R Hk Hin. pose proof (C08_single_version s rid q _ R Hin) as G. cbn in G. destruct G as [Hh Ha].
  split; [exact Hh|]. unfold answer in Ha. destruct (N.eqb_spec (t_kind q) 0) as [E|_]; [contradiction|]. cbn in Ha. inversion Ha. auto.
Qed.

(* the global invariant holds in every reachable state (tags determine versions; cache entries, pending responses and
   handler states are well-keyed; a waiter can only be handed values of the key it asked for) *)
Theorem C08_invariant : forall s, reach s -> Inv s.
Proof. exact (reach_inv root_off_nz leaf_base_nz). Qed.

(* the executable stepper that is validated against the real server only produces reachable states *)
Theorem C08_exec_sound : forall ls s', run_labels ls init = Some s' -> reach s'.
Proof. intros ls s' H. eapply run_reach; [apply reach_init|exact H]. Qed.

(* timing of a 200: the list of completed 200s grows only by a conditional read (the last step of a tile, metadata or TileJSON request),
   executed at an instant at which the bucket's current version of the archive carries the tag of the version that supplied the
   header and the directories - with C08_single_version: that version IS the current one at that instant, which lies between the
   request's start and its end.  No other step of the system (cache hits, responses, retries, evictions, faults) ever answers data. *)
Theorem C08_200_only_while_current : forall s l s', exec s l = Some s' ->
  oks s' = oks s \/
  exists rid q a hv o l0, l = LTileDo rid /\ get_handler rid (handlers s) = Some (HWaitTile q a hv o l0) /\
    exists v, cur s (t_name q) = Some v /\ vtag v = vtag hv /\ oks s' = (rid, q, R200 v (rbase hv q + o) l0) :: oks s.
Proof. exact ok_only_by_current_read. Qed.

(* ... and over whole runs: every completed 200 of a request rid was produced by a conditional read of rid at some point of the run
   (after rid started - its handler exists - and not after it ended), and at that point the version answered was the bucket's
   current version of the archive *)
Theorem C08_200_current_during : forall ls s, run_labels ls init = Some s ->
  forall rid q v o l0, In (rid, q, R200 v o l0) (dones s) ->
  exists ls1 ls2 s1 a hv o', ls = ls1 ++ LTileDo rid :: ls2 /\ run_labels ls1 init = Some s1 /\
    get_handler rid (handlers s1) = Some (HWaitTile q a hv o' l0) /\ cur s1 (t_name q) = Some v /\ vtag v = vtag hv /\ o = rbase hv q + o'.
Proof. exact ok_current_during. Qed.

(* the property's second sentence: a replacement that completed before a request began never makes it fail.
   [sa]: any reachable state in which archive n exists and nothing failed is queued for it (e.g. right after it first appeared).
   [ls0]: any history from there - requests for any archive, loop messages, bucket reads, evictions, replacements of n (any number) and of
   other archives, faults on other archives - in which n is not deleted and no fault is injected into reads of n.
   Then the request [rid] for n begins; while it runs ([ls], any interleaving again) n is not replaced or deleted and no fault is injected
   into reads of n or into this request.  Whatever the cache and the queues hold of older versions of n, the request completes with the
   answer of one version of n - never 5xx: a stale header or directory costs exactly the one retry the handler has. *)
Theorem C08_old_replacement_harmless : forall n sa ls0 s0 vc rid q ls s,
  reach sa -> settled n sa ->
  run_labels ls0 sa = Some s0 -> Forall (clean n) ls0 ->
  cur s0 n = Some vc -> (forall q' r', ~ In (rid, q', r') (dones s0)) -> t_name q = n ->
  run_labels (LStart rid q :: ls) s0 = Some s -> Forall (allowed n rid) ls ->
  forall r, In (rid, q, r) (dones s) -> (exists v, In (n, v) (hist s) /\ r = answer v q) /\ r <> R500.
Proof.
  intros n sa ls0 s0 vc rid q ls s Ra Sa Hrun0 Hcl Hc Hfresh Hn Hrun Hal r Hin.
  assert (R0: reach s0) by (eapply run_reach; eauto).
  pose proof (run_settled root_off_nz leaf_base_nz n ls0 sa s0 Ra Sa Hcl Hrun0) as S0.
  eapply (harmless root_off_nz leaf_base_nz n vc rid s0 q ls s); eauto.
  apply settled_B2; assumption.
Qed.
End C08.

(* non-vacuity: a server whose cache holds the header and root directory of version 1 of archive 0 when version 2 has replaced it;
   the next request is handed the stale header, walks the stale directory, has its tile read refused, purges, refetches and
   answers version 2's tile *)
Module C08Example.
#[local] Instance ExV : Version := {
  ver := N; vtag := fun v => v; zoom_ok := fun _ _ => true; ext_ok := fun _ _ => true;
  root := fun _ => (1, 1); dir_lookup := fun v _ _ _ => LTile 0 v; leaf_base := fun _ => 1; tile_base := fun _ => 10;
  meta_off := fun _ => 2; meta_len := fun _ => 1 }.
Definition q0 := mkQ 0 0 0 0 0.
Definition k1 := mkK 0 1 1 1.
Definition k2 := mkK 0 2 1 1.
Definition before : list label :=
  [LStart 0 q0; LLoopReq 0; LFetchDo (hdrkey 0); LLoopResp (mkK 0 0 1 1); LLoopResp (hdrkey 0); LLoopReq 1; LFetchDo k1; LLoopResp k1; LTileDo 0;
   LReplace 0 2].
Definition during : list label :=
  [LLoopReq 4; LLoopReq 5; LTileDo 1; LLoopReq 7; LFetchDo (hdrkey 0); LLoopResp (mkK 0 0 1 1); LLoopResp (hdrkey 0); LLoopReq 8; LFetchDo k2; LLoopResp k2; LTileDo 1].
Example C08_harmless_example :
  exists sa s0 s,
    run_labels [LReplace 0 1] init = Some sa /\ settled 0 sa /\
    run_labels before sa = Some s0 /\ Forall (clean 0) before /\ cur s0 0 = Some 2 /\
    (exists cv, In (hdrkey 0, cv) (cache s0) /\ cv_pay cv = Some (PHeader 1)) /\        (* the cache still holds version 1's header *)
    run_labels (LStart 1 q0 :: during) s0 = Some s /\ Forall (allowed 0 1) during /\
    dones s = [(1%nat, q0, R200 2 10 2); (0%nat, q0, R200 1 10 1)].
Proof.
  eexists _, _, _. split; [vm_compute; reflexivity|]. split.
  { split; [cbn; discriminate|]. intros k cv []. }
  split; [vm_compute; reflexivity|]. split; [repeat constructor; cbn; discriminate|]. split; [reflexivity|].
  split; [eexists; split; [right; left; reflexivity|reflexivity]|].
  split; [vm_compute; reflexivity|]. split; [repeat constructor; cbn; try discriminate; auto|]. reflexivity.
Qed.
End C08Example.

Print Assumptions C08_single_version.
Print Assumptions C08_single_version_metadata.
Print Assumptions C08_invariant.
Print Assumptions C08_exec_sound.
Print Assumptions C08_200_only_while_current.
Print Assumptions C08_200_current_during.
Print Assumptions C08_old_replacement_harmless.
