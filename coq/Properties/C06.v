(* C06 — Convert preserves the MBTiles tile map (XYZ-flipped), metadata and statistics.
   Model/Convert.v on top of the resolver and finalize models shared with Cluster (C13). *)
From Coq Require Import NArith ZArith List Bool Lia String.
Import ListNotations.
From PM Require Import Model.Varint Model.Directory Model.Header Model.TileId Model.FindTile Model.Resolver Model.Archive Model.Verify
  Model.Cluster Model.Convert Proofs.Resolver Proofs.Cluster Proofs.ClusterThm Proofs.ConvertThm Proofs.HilTop Proofs.E7Glue.
Open Scope N_scope.

Section C06.
Variable gz : bytes -> bytes.
Variable hash : bytes -> bytes.
Hypothesis gz_nonempty : forall d, 0 < blen (gz d).                       (* a gzip stream is never empty *)
Hypothesis no_collision : forall d1 d2, hash d1 = hash d2 -> d1 = d2.     (* fnv128a on the contents of one database *)

Lemma enc_nonempty c d : 0 < blen d -> 0 < blen (enc_of gz c d).
Proof. intro H. unfold enc_of. destruct (c && negb (is_gz d)); [apply gz_nonempty|exact H]. Qed.
Lemma inputs_ok c rows : Forall (fun x => 0 < blen (enc_of gz c (snd (fst x)))) (convert_inputs rows).
Proof.
  apply Forall_forall. intros [[i d] rl] Hin. unfold convert_inputs in Hin. apply in_map_iff in Hin. destruct Hin as ([i' d'] & E & Hf).
  inversion E; subst. apply filter_In in Hf. destruct Hf as [_ Hnz]. cbn [fst snd] in *. apply enc_nonempty.
  apply negb_true_iff in Hnz. apply N.eqb_neq in Hnz. lia.
Qed.
Lemma inputs_chain rows : ichain 0 (convert_inputs rows).
Proof. unfold convert_inputs. apply convert_inputs_chain. apply (sorted_rows_spec rows [] I). Qed.

(* what finalize leaves alone *)
Lemma finalize_keeps dedup h st rl ml ll h' : finalize dedup h st rl ml ll = Some h' ->
  h' F_tile_type = h F_tile_type /\ h' F_tile_comp = h F_tile_comp /\ h' F_min_lon = h F_min_lon /\ h' F_min_lat = h F_min_lat /\
  h' F_max_lon = h F_max_lon /\ h' F_max_lat = h F_max_lat.
Proof.
  unfold finalize, set_zoom_center. destruct (entries_of st) as [|e0 et]; [discriminate|].
  match goal with |- context [if ?c then _ else _] => destruct c end; intro H; inversion H; repeat split; reflexivity.
Qed.

(* the tile map: tile (z, x, 2^z-1-row) holds the content of each non-empty row - gzip-wrapped when the format is pbf
   and the row is not already gzip - and no other tile is addressed *)
Theorem C06_tile_map : forall dedup meta rows rl ml ll a json, NoDup (map row_id rows) ->
  convert gz hash dedup meta rows rl ml ll = CVOk a json ->
  exists h j0, header_of_meta meta = Some (h, j0) /\ forall id,
  match content_of a id with
  | Some c => exists r, In r rows /\ row_id r = id /\ blen (m_blob r) <> 0 /\ c = enc_of gz (h F_tile_type =? 1)%Z (m_blob r)
  | None => forall r, In r rows -> row_id r = id -> blen (m_blob r) = 0
  end.
Proof.
  intros dedup meta rows rl ml ll a json Hnd Hc. unfold convert in Hc.
  destruct (header_of_meta meta) as [[h j0]|]; [|discriminate]. exists h, j0. split; [reflexivity|].
  destruct rows as [|r0 rs] eqn:Erows; [discriminate|]. rewrite <- Erows in *.
  set (mvt := (h F_tile_type =? 1)%Z) in *.
  set (st := add_all (enc_of gz mvt) hash dedup (convert_inputs rows)) in *.
  destruct (finalize dedup (if mvt then upd h F_tile_comp 2%Z else h) st rl ml ll) as [h'|]; [|discriminate].
  inversion Hc; subst a json. clear Hc. intro id. unfold content_of. cbn [a_entries a_data].
  pose proof (resolver_tile_map (enc_of gz mvt) hash no_collision (convert_inputs rows) (inputs_ok mvt rows) dedup id) as T. fold st in T. cbv zeta in T.
  destruct (sorted_rows_spec rows [] I) as (S1 & S2 & _). fold (sorted_rows rows) in S1, S2.
  destruct (cover (entries_of st) id) as [e'|]; cbn [option_map].
  - destruct T as (d & Hs & Hd). apply said_convert in Hs. destruct Hs as [Hin Hnz].
    destruct (S2 _ Hin) as [[]|Hin']. unfold rows_of in Hin'. apply in_map_iff in Hin'. destruct Hin' as (r & E & Hr). inversion E; subst.
    exists r. repeat split; auto.
  - intros r Hr Hid. destruct (N.eq_dec (blen (m_blob r)) 0) as [Hz|Hnz]; [exact Hz|]. exfalso. apply (T (m_blob r)).
    apply said_convert. split; [|exact Hnz]. rewrite <- Hid. apply (sorted_rows_complete rows [] Hnd); [intros ? ? _ []|exact Hr].
Qed.

(* with and without deduplication the tile-to-content map is the same *)
Theorem C06_dedup_irrelevant : forall meta rows rl ml ll rl' ml' ll' a1 j1 a2 j2,
  convert gz hash true meta rows rl ml ll = CVOk a1 j1 -> convert gz hash false meta rows rl' ml' ll' = CVOk a2 j2 ->
  forall id, content_of a1 id = content_of a2 id.
Proof.
  intros meta rows rl ml ll rl' ml' ll' a1 j1 a2 j2 H1 H2 id. unfold convert in H1, H2.
  destruct (header_of_meta meta) as [[h j0]|]; [|discriminate]. destruct rows as [|r0 rs] eqn:Erows; [discriminate|]. rewrite <- Erows in *.
  set (mvt := (h F_tile_type =? 1)%Z) in *.
  destruct (finalize true _ _ rl ml ll) as [h1|]; [|discriminate]. destruct (finalize false _ _ rl' ml' ll') as [h2|]; [|discriminate].
  inversion H1; inversion H2; subst a1 j1 a2 j2. unfold content_of. cbn [a_entries a_data].
  pose proof (resolver_tile_map (enc_of gz mvt) hash no_collision (convert_inputs rows) (inputs_ok mvt rows) true id) as T1.
  pose proof (resolver_tile_map (enc_of gz mvt) hash no_collision (convert_inputs rows) (inputs_ok mvt rows) false id) as T2. cbv zeta in T1, T2.
  destruct (cover (entries_of (add_all (enc_of gz mvt) hash true (convert_inputs rows))) id) as [e1|];
    destruct (cover (entries_of (add_all (enc_of gz mvt) hash false (convert_inputs rows))) id) as [e2|]; cbn [option_map].
  - destruct T1 as (d1 & S1 & E1). destruct T2 as (d2 & S2 & E2). rewrite E1, E2.
    rewrite (said_unique_gen (convert_inputs rows) 0 id d1 d2 (inputs_chain rows) S1 S2). reflexivity.
  - destruct T1 as (d1 & S1 & _). exfalso. exact (T2 d1 S1).
  - destruct T2 as (d2 & S2 & _). exfalso. exact (T1 d2 S2).
  - reflexivity.
Qed.

(* the written archive passes the verify model: header counts equal those of the written directories, clustered layout,
   zoom range of the tiles, sections inside the file *)
Theorem C06_verifies : forall dedup meta rows rl ml ll a json, convert gz hash dedup meta rows rl ml ll = CVOk a json ->
  iend 0 (convert_inputs rows) < 2^64 - 1 ->
  (a_hdr a F_min_lon < a_hdr a F_max_lon)%Z -> (a_hdr a F_min_lat < a_hdr a F_max_lat)%Z ->
  (a_hdr a F_min_zoom <= a_hdr a F_center_zoom <= a_hdr a F_max_zoom)%Z ->
  127 + rl + ml + ll + blen (a_data a) < 2^63 ->
  verify (a_hdr a) (Some (a_entries a)) (Z.of_N (127 + rl + ml + ll + blen (a_data a))) = None.
Proof.
  intros dedup meta rows rl ml ll a json Hc Hend Hlon Hlat Hz Hsz. unfold convert in Hc.
  destruct (header_of_meta meta) as [[h j0]|]; [|discriminate]. destruct rows as [|r0 rs] eqn:Erows; [discriminate|]. rewrite <- Erows in *.
  set (mvt := (h F_tile_type =? 1)%Z) in *.
  destruct (finalize dedup (if mvt then upd h F_tile_comp 2%Z else h) _ rl ml ll) as [h'|] eqn:Ef; [|discriminate].
  inversion Hc; subst a json. cbn [a_hdr a_entries a_data] in *.
  eapply (finalize_verifies (enc_of gz mvt) hash no_collision (convert_inputs rows) (inputs_ok mvt rows) (inputs_chain rows) Hend); eassumption.
Qed.

(* header fields: type from the format row, gzip declared exactly for pbf, bounds as parsed *)
Theorem C06_header : forall dedup meta rows rl ml ll a json, convert gz hash dedup meta rows rl ml ll = CVOk a json ->
  exists h j0, header_of_meta meta = Some (h, j0) /\ json = j0 /\
    a_hdr a F_tile_type = h F_tile_type /\
    a_hdr a F_tile_comp = (if (h F_tile_type =? 1)%Z then 2%Z else h F_tile_comp) /\
    a_hdr a F_min_lon = h F_min_lon /\ a_hdr a F_min_lat = h F_min_lat /\ a_hdr a F_max_lon = h F_max_lon /\ a_hdr a F_max_lat = h F_max_lat /\
    a_hdr a F_clustered = 1%Z.
Proof.
  intros dedup meta rows rl ml ll a json Hc. unfold convert in Hc.
  destruct (header_of_meta meta) as [[h j0]|]; [|discriminate]. exists h, j0. split; [reflexivity|].
  destruct rows as [|r0 rs] eqn:Erows; [discriminate|]. rewrite <- Erows in *.
  destruct (finalize dedup _ _ rl ml ll) as [h'|] eqn:Ef; [|discriminate]. inversion Hc; subst a json. cbn [a_hdr].
  destruct (finalize_keeps _ _ _ _ _ _ _ Ef) as (K1 & K2 & K3 & K4 & K5 & K6).
  assert (Kc : h' F_clustered = 1%Z).
  { clear -Ef. unfold finalize, set_zoom_center in Ef. destruct (entries_of _) as [|e0 et]; [discriminate|].
    match type of Ef with context [if ?c then _ else _] => destruct c end; inversion Ef; reflexivity. }
  rewrite K1, K2, K3, K4, K5, K6. destruct (h F_tile_type =? 1)%Z; repeat split; auto.
Qed.
End C06.

(* the TMS flip: a valid row lands on tile (z, x, 2^z - 1 - row) *)
Theorem C06_flip : forall r, m_z r <= 31 -> m_x r < 2^m_z r -> m_y r < 2^m_z r ->
  id_to_zxy (row_id r) = (m_z r, m_x r, 2^m_z r - 1 - m_y r).
Proof. intros r Hz Hx Hy. unfold row_id. apply C01_zxy_id_roundtrip; [exact Hz|exact Hx|lia]. Qed.

(* bounds and centre: Convert truncates where Edit rounds; a coordinate written with up to seven decimals is stored within one E7 unit
   of its exact value (the tolerance is part of the statement, as the property says "agree", not "exactly") *)
Theorem C06_bounds_within_one : forall m k, (k <= 7)%nat -> (- 2^31 + 1 < m * 10 ^ (7 - Z.of_nat k) < 2^31 - 1)%Z ->
  (Z.abs (e7_trunc (m, k) - m * 10 ^ (7 - Z.of_nat k)) <= 1)%Z.
Proof. intros m k Hk H. unfold e7_trunc. cbn [fst snd]. apply e7_trunc_decimal; assumption. Qed.

(* metadata rows: an example with every kind of row, evaluated in the kernel *)
Open Scope string_scope.
Example C06_metadata_example :
  let s := PathParse.bytes_of_string in
  match header_of_meta [(MDescr (s "name") (s """n"""), []); (MFormat (s "pbf"), s """pbf"""); (MCompression (s "gzip"), s """gzip""");
                        (MBounds [Some ((-1805)%Z, 1%nat); Some ((-85)%Z, 0%nat); Some (18%Z, 0%nat); Some (8505113%Z, 5%nat)], []);
                        (MCenter [Some (15%Z, 1%nat); Some ((-25)%Z, 1%nat)] (Some 3%Z), []); (MScheme, []);
                        (MJson [(s "vector_layers", s "[]"); (s "name", s """m""")], [])] with
  | Some (h, j) => (h F_tile_type, h F_tile_comp, h F_min_lon, h F_max_lat, h F_center_lat, h F_center_zoom, List.length j) = (1, 2, -1805000000, 850511300, -25000000, 3, 4%nat)%Z
  | None => False
  end.
Proof. vm_compute. reflexivity. Qed.

Print Assumptions C06_tile_map.
Print Assumptions C06_dedup_irrelevant.
Print Assumptions C06_verifies.
Print Assumptions C06_header.
Print Assumptions C06_flip.
Print Assumptions C06_bounds_within_one.
