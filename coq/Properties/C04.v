(* C04 — Tile lookup returns exactly the stored bytes of the requested tile, or absence. *)
From Coq Require Import NArith ZArith List Lia.
Import ListNotations.
From PM Require Import Gen.Generated Model.Varint Model.Directory Model.Iterate Model.FindTile Proofs.FindTile Proofs.Walk.
Open Scope N_scope.

(* findTile = "the predecessor entry, if it is a leaf pointer or its run covers the id" on every strictly
   ascending directory (ids below 2^63, where the int64 comparison of the Go code is exact) *)
Theorem C04_find_tile_spec : forall es id, ascending es -> (forall e, In e es -> tid e < 2^63) -> id < 2^63 ->
  find_tile es id = pred_spec es id.
Proof. exact find_tile_spec. Qed.

(* The walk (root, then leaf directories) over ANY well-formed tree with at most d leaf levels finds exactly the
   tile entry of the flattened tree whose run covers the id, and reports absence when there is none. The flattened
   tree (Model/Iterate.v) is the same object C17's enumeration produces. *)
Theorem C04_walk : forall fetch lb d o l id, wftree fetch lb d o l -> id < 2^63 ->
  exists fl, flatten fetch lb (S d) o l = Some fl /\
             walk fetch lb (S d) o l id = match cover fl id with Some e => WFound e | None => WAbsent end.
Proof. intros. destruct (walk_cover fetch lb d o l id) as (fl & A & B); auto. exists fl. split; [exact A|]. rewrite B. destruct (cover fl id); reflexivity. Qed.

(* more fuel never changes a decided answer, so the bound of the two Go loops (regenerated from the source:
   depth <= 3, i.e. 4 directories) serves every tree with up to three leaf levels *)
Lemma walk_mono fetch lb : forall f o l id r, walk fetch lb f o l id = r -> r <> WTooDeep -> walk fetch lb (S f) o l id = r.
Proof.
  induction f as [|f IH]; intros o l id r H Hr; [cbn in H; congruence|].
  cbn [walk] in *. destruct (fetch o l) as [es|]; [|exact H]. destruct (find_tile es id) as [e|]; [|exact H].
  destruct (0 <? run e); [exact H|]. apply IH; assumption.
Qed.
(* the number of directories either walk may visit, regenerated from the two loops: at least the four (root + three leaf levels) the
   property speaks of (a reader that descends deeper still satisfies it) *)
Theorem C04_loop_bounds : (3 <= Generated.depth_bound_server)%Z /\ (3 <= Generated.depth_bound_cli)%Z /\ (4 <= depth_fuel)%nat.
Proof. unfold depth_fuel. split; [apply Z.leb_le; vm_compute; reflexivity|]. split; [apply Z.leb_le; vm_compute; reflexivity|]. apply Nat.leb_le. vm_compute. reflexivity. Qed.
Lemma walk_more fetch lb : forall k f o l id r, walk fetch lb f o l id = r -> r <> WTooDeep -> walk fetch lb (k + f) o l id = r.
Proof. induction k as [|k IH]; intros f o l id r H Hr; [exact H|]. cbn [Nat.add]. apply walk_mono; [|exact Hr]. apply IH; assumption. Qed.
Theorem C04_walk_server : forall fetch lb d o l id, (d <= 3)%nat -> wftree fetch lb d o l -> id < 2^63 ->
  exists fl, flatten fetch lb (S d) o l = Some fl /\
             walk fetch lb depth_fuel o l id = match cover fl id with Some e => WFound e | None => WAbsent end.
Proof.
  intros fetch lb d o l id Hd W Hid. destruct (C04_walk fetch lb d o l id W Hid) as (fl & A & B). exists fl. split; [exact A|].
  assert (Hr: match cover fl id with Some e => WFound e | None => WAbsent end <> WTooDeep) by (destruct (cover fl id); discriminate).
  destruct C04_loop_bounds as (_ & _ & Hf).
  replace depth_fuel with ((depth_fuel - S d) + S d)%nat by lia. apply walk_more; assumption.
Qed.

(* never the bytes of a different tile: whatever is found covers the requested id *)
Theorem C04_never_other_tile : forall fetch lb d o l id e, wftree fetch lb d o l -> id < 2^63 ->
  walk fetch lb (S d) o l id = WFound e -> tid e <= id /\ id < tid e + run e.
Proof.
  intros fetch lb d o l id e W Hid H. destruct (C04_walk fetch lb d o l id W Hid) as (fl & _ & B). rewrite H in B.
  destruct (cover fl id) as [e'|] eqn:E; [|discriminate]. inversion B; subst e'.
  unfold cover in E. apply find_some in E. destruct E as [_ E]. unfold covers in E.
  apply Bool.andb_true_iff in E. destruct E as [E1 E2]. apply N.leb_le in E1. apply N.ltb_lt in E2. split; assumption.
Qed.

(* never a false absence: when the flattened tree holds an entry whose run covers the id, the walk finds a covering entry *)
Theorem C04_present_never_absent : forall fetch lb d o l id fl e, wftree fetch lb d o l -> id < 2^63 ->
  flatten fetch lb (S d) o l = Some fl -> In e fl -> covers id e = true ->
  exists e', walk fetch lb (S d) o l id = WFound e' /\ covers id e' = true.
Proof.
  intros fetch lb d o l id fl e W Hid F Hin Hc. destruct (C04_walk fetch lb d o l id W Hid) as (fl' & A & B).
  rewrite F in A. inversion A; subst fl'. destruct (cover fl id) as [e'|] eqn:E.
  - exists e'. split; [exact B|]. unfold cover in E. apply find_some in E. apply E.
  - exfalso. unfold cover in E. pose proof (find_none _ _ E e Hin) as N. rewrite Hc in N. discriminate.
Qed.

(* non-vacuity: a two-level tree (root with a tile entry, a leaf pointer and a run) is well formed; lookups by computation *)
Definition ex_fetch (o l:N) : option (list entry) :=
  if o =? 127 then Some [mkE 0 0 4 1; mkE 5 0 9 0; mkE 100 4 4 3]
  else if o =? 1000 then Some [mkE 5 8 2 2; mkE 9 10 2 1]
  else None.
Example C04_ex_wf : wftree ex_fetch 1000 1 127 30.
Proof.
  exists [mkE 0 0 4 1; mkE 5 0 9 0; mkE 100 4 4 3]. split; [reflexivity|].
  cbn. repeat split; try (vm_compute; congruence). exists [mkE 5 8 2 2; mkE 9 10 2 1]. split; [reflexivity|].
  cbn. repeat split; vm_compute; congruence.
Qed.
Example C04_ex_lookups :
  walk ex_fetch 1000 2 127 30 6 = WFound (mkE 5 8 2 2) /\ walk ex_fetch 1000 2 127 30 7 = WAbsent /\
  walk ex_fetch 1000 2 127 30 102 = WFound (mkE 100 4 4 3) /\ walk ex_fetch 1000 2 127 30 103 = WAbsent.
Proof. repeat split; vm_compute; reflexivity. Qed.

Print Assumptions C04_find_tile_spec.
Print Assumptions C04_walk.
Print Assumptions C04_loop_bounds.
Print Assumptions C04_walk_server.
Print Assumptions C04_never_other_tile.
Print Assumptions C04_present_never_absent.
