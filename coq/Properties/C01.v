(* C01 — Tile IDs: spec Hilbert numbering, bijective, contiguous per zoom, parent-exact.
   zxy_to_id / id_to_zxy / parent_id are the operation-by-operation models of pmtiles/tile_id.go WITH the
   uint8/uint32/uint64 wrap-around of the Go code (Model/TileId.v); hidx/hxy are the textbook recursive
   Hilbert index and its inverse on unbounded N, base z = (4^z-1)/3 (Model/Hilbert.v). *)
From Coq Require Import NArith.
From PM Require Import Base.Wrap Model.Hilbert Model.TileId Proofs.Hil Proofs.HilTop.
Open Scope N_scope.

Theorem C01_zxy_id_roundtrip : forall z x y, z <= 31 -> x < 2^z -> y < 2^z ->
  id_to_zxy (zxy_to_id z x y) = (z, x, y).
Proof. exact HilTop.C01_zxy_id_roundtrip. Qed.

Theorem C01_id_zxy_roundtrip : forall i, i < base 32 ->
  let '(z,x,y) := id_to_zxy i in z <= 31 /\ x < 2^z /\ y < 2^z /\ zxy_to_id z x y = i.
Proof. exact HilTop.C01_id_zxy_roundtrip. Qed.

(* the numbering is the specification's: pyramid base of the zoom plus the Hilbert index of (x,y) ... *)
Theorem C01_numbering : forall z x y, z <= 31 -> x < 2^z -> y < 2^z ->
  zxy_to_id z x y = base z + hidx (N.to_nat z) x y.
Proof. exact zxy_to_id_spec. Qed.
Theorem C01_numbering_inv : forall i z, z <= 31 -> base z <= i -> i < base (z+1) ->
  id_to_zxy i = (z, fst (hxy (N.to_nat z) (i - base z)), snd (hxy (N.to_nat z) (i - base z))).
Proof. exact id_to_zxy_spec. Qed.
(* ... where hidx and hxy are mutually inverse bijections between [0,2^k)^2 and [0,4^k) for EVERY order k *)
Theorem C01_curve_bijection_1 : forall k d, d < 4^(N.of_nat k) -> let '(x,y) := hxy k d in hidx k x y = d.
Proof. exact hidx_hxy. Qed.
Theorem C01_curve_bijection_2 : forall k x y, x < 2^(N.of_nat k) -> y < 2^(N.of_nat k) -> hxy k (hidx k x y) = (x,y).
Proof. exact hxy_hidx. Qed.

(* zoom z occupies the contiguous block [base z, base (z+1)) and starts at (z,0,0) *)
Theorem C01_block : forall z x y, z <= 31 -> x < 2^z -> y < 2^z -> base z <= zxy_to_id z x y < base (z+1).
Proof. exact HilTop.C01_block. Qed.
Theorem C01_start : forall z, z <= 31 -> zxy_to_id z 0 0 = base z.
Proof. exact HilTop.C01_start. Qed.

(* consecutive IDs inside one zoom are edge-adjacent tiles *)
Theorem C01_adjacent : forall z i, z <= 31 -> base z <= i -> i + 1 < base (z+1) ->
  let '(_,x1,y1) := id_to_zxy i in let '(_,x2,y2) := id_to_zxy (i+1) in manh (x1,y1) (x2,y2) = 1.
Proof. exact HilTop.C01_adjacent. Qed.

Theorem C01_parent : forall z x y, 1 <= z -> z <= 31 -> x < 2^z -> y < 2^z ->
  parent_id (zxy_to_id z x y) = zxy_to_id (z-1) (x/2) (y/2).
Proof. exact HilTop.C01_parent. Qed.

(* the domain is sharp: at the first ID of zoom 32 the uint64 computation of 3*i+1 wraps *)
Example C01_domain_edge : id_to_zxy (base 32) <> (32, 0, 0).
Proof. vm_compute. discriminate. Qed.
(* non-vacuity on concrete values, incl. the suite's (12,3423,1763) and the last tile of zoom 31 *)
Example C01_ex1 : zxy_to_id 12 3423 1763 = 19078479 /\ id_to_zxy 19078479 = (12, 3423, 1763).
Proof. split; vm_compute; reflexivity. Qed.
Example C01_ex2 : zxy_to_id 31 (2^31-1) (2^31-1) = base 31 + 2 * 4^30 + (4^30 - 1) / 3 * 2
                  /\ base 32 = 6148914691236517205.
Proof. split; vm_compute; reflexivity. Qed.

(* corollaries: no two valid tiles share an ID, and no two IDs below base 32 name the same tile *)
Theorem C01_zxy_id_injective : forall z x y z' x' y', z <= 31 -> x < 2^z -> y < 2^z -> z' <= 31 -> x' < 2^z' -> y' < 2^z' ->
  zxy_to_id z x y = zxy_to_id z' x' y' -> (z, x, y) = (z', x', y').
Proof.
  intros z x y z' x' y' Hz Hx Hy Hz' Hx' Hy' E.
  rewrite <- (HilTop.C01_zxy_id_roundtrip z x y Hz Hx Hy), <- (HilTop.C01_zxy_id_roundtrip z' x' y' Hz' Hx' Hy'), E. reflexivity.
Qed.
Theorem C01_id_zxy_injective : forall i j, i < base 32 -> j < base 32 -> id_to_zxy i = id_to_zxy j -> i = j.
Proof.
  intros i j Hi Hj E. pose proof (HilTop.C01_id_zxy_roundtrip i Hi) as A. pose proof (HilTop.C01_id_zxy_roundtrip j Hj) as B.
  rewrite E in A. destruct (id_to_zxy j) as [[z x] y]. destruct A as (_ & _ & _ & A). destruct B as (_ & _ & _ & B). congruence.
Qed.

Print Assumptions C01_zxy_id_roundtrip.
Print Assumptions C01_id_zxy_roundtrip.
Print Assumptions C01_numbering.
Print Assumptions C01_numbering_inv.
Print Assumptions C01_curve_bijection_1.
Print Assumptions C01_curve_bijection_2.
Print Assumptions C01_block.
Print Assumptions C01_start.
Print Assumptions C01_adjacent.
Print Assumptions C01_parent.
Print Assumptions C01_zxy_id_injective.
Print Assumptions C01_id_zxy_injective.
