(* C07 — Extract is an exact restriction, identical for every thread/overfetch setting.
   Plans (one HTTP request each: start offsets + copy/discard list) are executed on byte maps; [plan_ok] is the
   checker run on the plans the Go code actually produced (any overfetch, any tie-breaking of its unstable sort). *)
From Coq Require Import NArith ZArith List Permutation.
Import ListNotations.
From PM Require Import Model.Varint Model.Directory Model.Extract Model.ExtractCmd Proofs.Extract Proofs.Relevant Proofs.Reencode Proofs.ExtractCmdThm.
From PM Require Import Model.Header Model.TileId Model.FindTile Model.Resolver Model.Archive.
Open Scope N_scope.

(* the restriction is exact: a tile id is addressed by the kept tile entries, with some offset and length, exactly when the source
   directory addresses it with that offset and length AND the id is in the relevance bitmap (zoom range x region); so no tile outside
   the requested range appears and every source tile inside it is present, runs trimmed to the bitmap *)
Theorem C07_restriction_exact : forall b last dir id o n,
  addressed (fst (relevant b last dir)) id o n <-> (addressed dir id o n /\ bm_mem b id = true).
Proof. exact relevant_tiles_spec. Qed.

(* byte-identical content: after copying the source ranges listed by the re-encoding (one request per range; merged requests write the
   same bytes by C07_plan_exact), every re-encoded entry keeps tile id, length and run length and points at the bytes its source entry
   pointed at; shared contents are copied once *)
Theorem C07_content_preserved : forall (S D0:mem) bound dir out ranges total addr cont,
  (forall e1 e2, In e1 dir -> In e2 dir -> off e1 = off e2 -> len e1 = len e2) ->
  (forall e, In e dir -> off e + len e <= bound) ->
  reencode dir = (out, ranges, total, addr, cont) ->
  Forall2 (fun e e' => tid e' = tid e /\ len e' = len e /\ run e' = run e /\
                       forall k, k < len e -> exec_all S (map trivial_plan ranges) D0 (off e' + k) = S (off e + k) /\ off e' + len e <= total) dir out.
Proof. intros S D0 bound dir out ranges total addr cont Hs Hb H. eapply reencode_content; eassumption. Qed.

(* the whole command without a region, on abstract archives: the zoom range is the requested one clamped to the source's, the kept entries
   are the restriction of the source's to the tile-ID block of that range (C07_restriction_exact), and every kept entry has the tile ids,
   length, run length and BYTES of its source entry; the metadata is the source's *)
Theorem C07_extract_content : forall a minz maxz a',
  (forall e1 e2, In e1 (a_entries a) -> In e2 (a_entries a) -> off e1 = off e2 -> len e1 = len e2) ->
  (forall e, In e (a_entries a) -> off e + len e <= blen (a_data a)) ->
  extract_model a minz maxz = XOk a' ->
  exists lo hi, clamp_zooms (a_hdr a) minz maxz = (lo, hi) /\
  let b := [(zxy_to_id (Z.to_N lo) 0 0, zxy_to_id (w8 (Z.to_N hi + 1)) 0 0)] in
  let tiles := fst (relevant_entries b (Z.to_N hi) (a_entries a)) in
  Forall2 (fun e e' => tid e' = tid e /\ len e' = len e /\ run e' = run e /\ content_at (a_data a') e' = content_at (a_data a) e) tiles (a_entries a') /\
  a_meta a' = a_meta a.
Proof. exact extract_content. Qed.

(* every overfetch setting writes the same bytes: whatever plans cover the range list (merged or not), executing them
   writes exactly what one request per range writes *)
Theorem C07_plan_exact : forall S ps rs D budget, plan_ok rs ps budget = true -> dst_contig rs ->
  peq (exec_all S ps D) (exec_all S (map trivial_plan rs) D).
Proof.
  intros S ps rs D budget H Hc. unfold plan_ok in H. apply Bool.andb_true_iff in H. destruct H as [H _].
  apply Bool.andb_true_iff in H. destruct H as [H _]. apply plans_cover_exact; assumption.
Qed.

(* every number of download workers and every completion order writes the same bytes: plans with pairwise disjoint
   destination intervals can be executed in any order *)
Theorem C07_schedule_independent : forall S ps ps', Permutation ps ps' -> pairwise_disjoint ps ->
  forall D, peq (exec_all S ps D) (exec_all S ps' D).
Proof. exact exec_all_permutation. Qed.

(* file vs HTTP source: the pipeline is a function of the bytes the bucket returns, and both backends return the same
   window of the same object (C18_exact_range) *)

(* non-vacuity / regression witnesses of the executable models (compared with the Go functions on every run) *)
Example C07_ex_relevant :
  relevant_entries [(5, 8); (20, 21)] 2 [mkE 3 0 4 4; mkE 7 4 4 3; mkE 12 8 2 0; mkE 30 10 2 1]
  = ([mkE 5 0 4 2; mkE 7 4 4 1], [mkE 12 8 2 0]).
Proof. vm_compute. reflexivity. Qed.
Example C07_ex_reencode :
  reencode [mkE 1 100 10 1; mkE 2 110 5 1; mkE 5 100 10 2; mkE 9 300 7 1]
  = ([mkE 1 0 10 1; mkE 2 10 5 1; mkE 5 0 10 2; mkE 9 15 7 1], [mkSR 100 0 15; mkSR 300 15 7], 22, 5, 3).
Proof. vm_compute. reflexivity. Qed.
Example C07_ex_merge : merge_with_budget [mkSR 0 0 10; mkSR 30 10 10; mkSR 45 20 10; mkSR 100 30 5] 20
  = [mkPlan 0 0 10 [(10, 0)]; mkPlan 30 10 25 [(10, 5); (10, 0)]; mkPlan 100 30 5 [(5, 0)]].
Proof. vm_compute. reflexivity. Qed.
Example C07_ex_plan_ok : plan_ok [mkSR 0 0 10; mkSR 30 10 10; mkSR 45 20 10; mkSR 100 30 5]
  (merge_with_budget [mkSR 0 0 10; mkSR 30 10 10; mkSR 45 20 10; mkSR 100 30 5] 20) 20 = true.
Proof. vm_compute. reflexivity. Qed.

Print Assumptions C07_restriction_exact.
Print Assumptions C07_content_preserved.
Print Assumptions C07_extract_content.
Print Assumptions C07_plan_exact.
Print Assumptions C07_schedule_independent.
