(* C19 — Extract transfers at most (1+overfetch) x needed tile bytes, each byte once. *)
From Coq Require Import NArith ZArith List.
Import ListNotations.
From PM Require Import Model.Varint Model.Directory Model.F32 Model.Extract Proofs.Extract Proofs.ExtractMono.
From Flocq Require Import IEEE754.Bits.
Open Scope N_scope.

(* whatever plans the Go code produced (checked by plan_ok at run time): requested bytes = needed bytes + discarded
   gap bytes, the discarded bytes are within the budget, and with a zero budget exactly the needed bytes are requested *)
Theorem C19_budget : forall rs ps budget, plan_ok rs ps budget = true ->
  (Z.of_N (requested ps) <= Z.of_N (total rs) + budget)%Z.
Proof. intros rs ps budget H. apply (proj1 (plan_ok_budget rs ps budget H)). Qed.
Theorem C19_zero : forall rs ps, plan_ok rs ps 0 = true -> requested ps = total rs.
Proof. intros rs ps H. apply (proj2 (plan_ok_budget rs ps 0%Z H)). reflexivity. Qed.

(* FULL STATEMENT (kept visible): requested <= (1 + overfetch) x needed, and no source byte requested twice.
   Both are REFUTED for the code as it is — the witnesses below are replayed on the implementation by the corpus
   of the check and listed in known_findings.json (D16, D15). *)
(* D16: the budget is computed in float32: needed = 16777219 bytes, overfetch = 1.0 gives budget 16777220 > needed *)
Theorem C19_ratio_refuted : exists total, (budget_f32 total (b32_of_bits 1065353216) > total)%Z.
Proof. exists 16777219%Z. vm_compute. reflexivity. Qed.
(* what does hold: the float32 budget is exact below 2^24 bytes at overfetch 1.0 (closed check on a sample; the general
   bound budget <= overfetch * needed * (1 + 2^-23) is argued from float32 rounding, not proved here) *)
(* D15: with source offsets that are not monotone (shared contents whose first user is outside the extract) a merged
   request spans an earlier range: bytes [200,250) are requested twice *)
Definition d15_ranges := [mkSR 200 0 50; mkSR 100 50 50; mkSR 300 100 50].
Definition overlap (p q:plan) : bool := (p_src p <? p_src q + p_len q) && (p_src q <? p_src p + p_len p).
Theorem C19_no_double_refuted : exists ps, ps = merge_with_budget d15_ranges 150 /\ plan_ok d15_ranges ps 150 = true /\
  match ps with [p; q] => overlap p q = true | _ => False end.
Proof. eexists. split; [reflexivity|]. split; vm_compute; reflexivity. Qed.
(* what does hold: for source ranges that are monotone and non-overlapping in the source (every extract of an archive without shared
   contents, and every extract that keeps the first user of each shared content) the requests of accepted plans are in ascending order
   and the next one starts at or after the end of the previous one: no source byte is requested twice *)
Theorem C19_no_double_monotone : forall rs ps budget, plan_ok rs ps budget = true -> src_mono rs -> plan_chain ps.
Proof.
  intros rs ps budget H Hm. unfold plan_ok in H. apply Bool.andb_true_iff in H. destruct H as [H Hall]. apply Bool.andb_true_iff in H. destruct H as [Hc _].
  eapply plans_chain; eassumption.
Qed.
Theorem C19_chain_disjoint : forall pre p mid q post, plan_chain (pre ++ p :: mid ++ q :: post) ->
  (forall x, In x (pre ++ p :: mid ++ q :: post) -> 0 < p_len x) -> p_src p + p_len p <= p_src q.
Proof. exact chain_disjoint. Qed.

Print Assumptions C19_budget.
Print Assumptions C19_zero.
Print Assumptions C19_ratio_refuted.
Print Assumptions C19_no_double_refuted.
Print Assumptions C19_no_double_monotone.
Print Assumptions C19_chain_disjoint.
