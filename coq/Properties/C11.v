(* C11 — Request paths cannot reach objects outside the served bucket root. *)
From Coq Require Import NArith List String.
Import ListNotations.
From PM Require Import Gen.Generated Model.PathParse Model.PathSafe Proofs.PathSafe.
Open Scope N_scope.

(* the three expressions in server.go are the ones the parsers of Model/PathParse.v were written from *)
Theorem C11_patterns :
  Generated.regexp_tilePattern = spec_tile_pattern /\ Generated.regexp_metadataPattern = spec_metadata_pattern /\
  Generated.regexp_tileJSONPattern = spec_tilejson_pattern.
Proof. repeat split; reflexivity. Qed.

(* whatever the path, the object a request reads is named <archive part of the path>.pmtiles (the handlers of the
   server model in Model/Server*.v issue every bucket call with bucket_key of this name) *)
Theorem C11_key_is_name : forall p name, archive_of (route_of p) = Some name ->
  bucket_key name = name ++ bytes_of_string ".pmtiles" /\ name <> [] /\ forallb name_char name = true.
Proof.
  intros p name H. split; [reflexivity|].
  assert (G: forall q n, parse_name q = Some n -> n <> [] /\ forallb name_char n = true).
  { intros q n Hq. unfold parse_name in Hq. destruct q as [|c q']; [discriminate|].
    destruct ((c =? slash) && negb (match q' with [] => true | _ => false end) && forallb name_char q')%bool eqn:E; [|discriminate].
    inversion Hq; subst n. apply Bool.andb_true_iff in E. destruct E as [E1 E2]. apply Bool.andb_true_iff in E1. destruct E1 as [_ E1].
    split; [destruct q'; [discriminate|discriminate]|exact E2]. }
  unfold route_of in H.
  destruct (parse_tile_path p) as [t|] eqn:Et.
  - cbn in H. inversion H; subst name. unfold parse_tile_path in Et.
    repeat match type of Et with
    | (let '(_, _) := ?x in _) = _ => destruct x
    | match ?x with _ => _ end = _ => destruct x eqn:?; try discriminate
    | (if ?c then _ else _) = _ => destruct c; try discriminate
    end.
    inversion Et; subst t. cbn [tr_name]. eapply G; eauto.
  - destruct (parse_tilejson_path p) as [n|] eqn:Ej.
    + cbn in H. inversion H; subst. unfold parse_tilejson_path in Ej. destruct (strip_suffix _ p); [|discriminate]. eapply G; eauto.
    + destruct (parse_metadata_path p) as [n|] eqn:Em.
      * cbn in H. inversion H; subst. unfold parse_metadata_path in Em. destruct (strip_suffix _ p); [|discriminate]. eapply G; eauto.
      * destruct (match p with [c] => c =? slash | _ => false end); discriminate.
Qed.

(* serving a local directory: the file opened for ANY key is under the served root, or the key is refused —
   however the path was spelled (dot segments, empty segments, absolute-looking names) *)
Theorem C11_served_confined : forall root key f, Forall clean_seg root -> file_for_key root key = Some f ->
  exists rest, f = root ++ rest.
Proof.
  intros root key f Hr H. unfold file_for_key in H. destruct (is_local key) eqn:E; [|discriminate]. inversion H; subst f.
  apply confined; assumption.
Qed.
(* ... and confinement is not bought by refusing: a key spelled with plain segments only (no empty, "." or ".."
   segment) is accepted and opens exactly root/key — the archives a directory holds stay reachable *)
Theorem C11_plain_key_served : forall root key, Forall clean_seg root -> Forall clean_seg (segments key) ->
  file_for_key root key = Some (root ++ segments key).
Proof. exact plain_served. Qed.
Example C11_plain_ex : file_for_key [[114;111;111;116]] [97;47;98;46;112] = Some [[114;111;111;116];[97];[98;46;112]]
  /\ Forall clean_seg (segments [97;47;98;46;112]).
Proof. split; [reflexivity|repeat constructor]. Qed.
(* the behaviour of the pinned commit (no IsLocal test): the key of "/../outside/0/0/0.png" left the root *)
Example C11_pinned_escape :
  join [[114;111;111;116];[115;101;114;118;101;100]] [46;46;47;111;117;116] = [[114;111;111;116];[111;117;116]]
  /\ file_for_key [[114;111;111;116];[115;101;114;118;101;100]] [46;46;47;111;117;116] = None.
Proof. split; reflexivity. Qed.
(* non-vacuity *)
Example C11_ex : route_of (bytes_of_string "/a/b/12/3423/1763.mvt") = RTile (mkTR (bytes_of_string "a/b") 12 3423 1763 (bytes_of_string "mvt"))
  /\ route_of (bytes_of_string "/../x/0/0/0.png") = RTile (mkTR (bytes_of_string "../x") 0 0 0 (bytes_of_string "png"))
  /\ route_of (bytes_of_string "/a b/0/0/0.png") = RNotFound
  /\ route_of (bytes_of_string "/t/999/0/0.png") = RTile (mkTR (bytes_of_string "t") 255 0 0 (bytes_of_string "png")).
Proof. repeat split; vm_compute; reflexivity. Qed.

Print Assumptions C11_patterns.
Print Assumptions C11_key_is_name.
Print Assumptions C11_served_confined.
Print Assumptions C11_plain_key_served.
