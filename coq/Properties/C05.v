(* C05 — Written directories: root within the first 16 KiB, root + leaves reproduce the entries. *)
From Coq Require Import String NArith ZArith List Lia.
From Flocq Require IEEE754.Bits.
Import ListNotations.
From PM Require Import Gen.Generated Model.Varint Model.Directory Model.DirBuild Proofs.DirBuild Model.F32 Model.DirBuildF32 Proofs.DirBuildF32.
Open Scope N_scope.

(* the budgets the writer commands pass, the header length and what a reader fetches first — regenerated from the source *)
Theorem C05_budgets :
  (Z.of_nat Generated.header_len + Generated.root_budget_convert <= 16384)%Z /\ (Z.of_nat Generated.header_len + Generated.root_budget_extract <= 16384)%Z /\
  (0 <= Generated.root_budget_convert)%Z /\ (0 <= Generated.root_budget_extract)%Z /\ (16384 <= Generated.root_fetch_len)%Z.
Proof. repeat split; apply Z.leb_le; vm_compute; reflexivity. Qed.

(* the constants of the leaf-size loop, regenerated from optimizeDirectories: the flat-root limit 16384, leafSize = float32(len)/3500,
   floor 4096, factor 1.2 - and the model's factor is the binary32 nearest to 1.2 (what the Go compiler makes of the literal) *)
Theorem C05_loop_constants :
  Generated.optimize_int_literals = [16384; 0; 0; 3500; 4096; 4096]%Z /\ Generated.optimize_float_literals = ["1.2"%string] /\
  Bits.bits_of_b32 (F32.f32_div (F32.f32_of_Z 12) (F32.f32_of_Z 10)) = 1067030938%Z /\ Bits.bits_of_b32 F32.f32_1_2 = 1067030938%Z. (* 0x3F99999A *)
Proof. repeat split; vm_compute; reflexivity. Qed.

Section AnySerializer.
(* any directory serializer with a round trip: serialize_entries, or gzip ∘ serialize_entries *)
Variable ser : list entry -> list N.
Variable deser : list N -> list entry.
Variable ok : list entry -> Prop.
Hypothesis deser_ser : forall es, ok es -> deser (ser es) = es.

(* whatever the entries are and however badly they compress: what optimizeDirectories returns fits the budget,
   for EVERY sequence of leaf sizes the loop may walk ... *)
Theorem C05_root_fits : forall es target sizes root leaves n,
  optimize ser es target sizes = Some (root, leaves, n) -> N.of_nat (length root) <= target.
Proof.
  intros es target sizes root leaves n H. unfold optimize in H.
  destruct ((N.of_nat (length es) <? 16384) && (N.of_nat (length (ser es)) <=? target))%bool eqn:E.
  - inversion H; subst. apply Bool.andb_true_iff in E. destruct E as [_ E]. apply N.leb_le in E. exact E.
  - destruct (try_sizes_fits ser _ _ _ _ _ _ H) as [A _]. exact A.
Qed.
(* ... hence header and root lie within the first 16,384 bytes for the budget both writers pass *)
Theorem C05_within_16k : forall es sizes root leaves n,
  optimize ser es (Z.to_N Generated.root_budget_convert) sizes = Some (root, leaves, n) ->
  N.of_nat Generated.header_len + N.of_nat (length root) <= 16384.
Proof. intros es sizes root leaves n H. apply C05_root_fits in H. destruct C05_budgets as (A & _ & B & _). lia. Qed.

(* structure of the result: either the whole directory is the root, or the root holds one pointer per leaf with
   run length 0, the first tile ID of that leaf, the leaf's offset and length; the leaves tile the leaf section
   without gap or overlap in order; reading root then leaves gives back the entries in their order *)
Theorem C05_structure : forall es target sizes root leaves n,
  optimize ser es target sizes = Some (root, leaves, n) ->
  ok es ->
  (forall s, In s sizes -> 0 < s /\ let cs := chunks (S (length es)) s es in Forall ok cs /\ ok (ptrs cs (map ser cs) 0)) ->
  (n = 0%nat /\ leaves = [] /\ deser root = es) \/
  (exists s, In s sizes /\ let cs := chunks (S (length es)) s es in
     deser root = ptrs cs (map ser cs) 0 /\
     Forall (fun p => run p = 0) (deser root) /\
     map tid (deser root) = map first_tid cs /\
     leaves = concat (map ser cs) /\
     read_leaves deser root leaves = es /\
     n = length cs).
Proof.
  intros es target sizes root leaves n H Hok Hsz. unfold optimize in H.
  destruct ((N.of_nat (length es) <? 16384) && (N.of_nat (length (ser es)) <=? target))%bool.
  - inversion H; subst. left. repeat split. apply deser_ser. exact Hok.
  - right. destruct (try_sizes_fits ser _ _ _ _ _ _ H) as (_ & s & Hin & E). exists s. split; [exact Hin|].
    destruct (Hsz s Hin) as (Hpos & Hcs & Hp).
    pose proof (structure ser deser ok deser_ser es s Hpos Hcs Hp) as S. rewrite E in S. cbv zeta.
    destruct S as (A & B & C & D & F). repeat split; auto.
    unfold build_roots_leaves in E. inversion E. reflexivity.
Qed.

(* termination of the leaf-size loop for every list of fewer than 14,336,000 entries (where the float32 start
   value is the floor 4096 and the sequence is the fixed one of Model/DirBuild.v): some size of the sequence
   puts all entries in one leaf, and a root with a single pointer fits *)
Theorem C05_terminates : forall es target,
  N.of_nat (length es) < small_limit ->
  (forall c, (length c <= 1)%nat -> N.of_nat (length (ser c)) <= target) ->
  optimize_small ser es target <> None.
Proof.
  intros es target Hlen Hone. unfold optimize_small, optimize.
  destruct ((N.of_nat (length es) <? 16384) && (N.of_nat (length (ser es)) <=? target))%bool; [discriminate|].
  destruct es as [|e r] eqn:Ees.
  - (* no entries: the first size already gives an empty root *)
    cbn. specialize (Hone [] ltac:(cbn; lia)). apply N.leb_le in Hone. rewrite Hone. discriminate.
  - rewrite <- Ees in *. apply (try_sizes_found ser sizes_small es target 17976210).
    + unfold sizes_small, leaf_sizes_small. cbn [map]. repeat (try (left; reflexivity); right).
    + unfold build_roots_leaves. rewrite chunks_single; [|subst; discriminate|unfold small_limit in Hlen; lia].
      cbn [map ptrs fst]. apply Hone. reflexivity.
Qed.

(* ... and for EVERY entry count a Go slice can have (2^62 entries of 24 bytes exceed the address space): the sizes the loop walks are
   the float32 sequence  max(float32(n)/3500, 4096), then *= 1.2  (Model/F32.v, Flocq binary32); after finitely many rounds - before
   anything overflows - a size holds all entries in one leaf, whose single pointer fits; every size walked until then is >= 4096.
   No monotonicity of the float32 division is assumed: the start value is whatever the division gives. *)
Theorem C05_terminates_all : forall es target,
  (Z.of_nat (length es) <= 2^62)%Z ->
  (forall c, (length c <= 1)%nat -> N.of_nat (length (ser c)) <= target) ->
  exists k, optimize ser es target (go_sizes (N.of_nat (length es)) k) <> None /\
            Forall (fun s => 4096 <= s) (go_sizes (N.of_nat (length es)) k).
Proof.
  intros es target Hlen Hone.
  destruct (go_sizes_reach (N.of_nat (length es))) as (k & s & Hin & Hs & Hall); [rewrite nat_N_Z; exact Hlen|].
  exists k. split; [|exact Hall]. unfold optimize.
  destruct ((N.of_nat (length es) <? 16384) && (N.of_nat (length (ser es)) <=? target))%bool; [discriminate|].
  apply (try_sizes_found ser _ es target s Hin). unfold build_roots_leaves.
  destruct es as [|e r] eqn:Ees.
  - cbn. apply Hone. cbn; lia.
  - rewrite <- Ees in *. rewrite chunks_single; [|subst; discriminate|lia].
    cbn [map ptrs fst]. apply Hone. reflexivity.
Qed.
End AnySerializer.

(* non-vacuity with the uncompressed serializer: 5 entries, leaf size 2, budget too small for the flat root *)
Definition ex_es := [mkE 1 0 10 1; mkE 2 10 10 1; mkE 3 20 10 2; mkE 9 30 5 1; mkE 12 35 5 1].
Example C05_ex : optimize serialize_entries ex_es 13 [2] =
  Some (serialize_entries [mkE 1 0 9 0; mkE 3 9 9 0; mkE 12 18 5 0],
        serialize_entries [mkE 1 0 10 1; mkE 2 10 10 1] ++ serialize_entries [mkE 3 20 10 2; mkE 9 30 5 1] ++ serialize_entries [mkE 12 35 5 1], 3%nat).
Proof. vm_compute. reflexivity. Qed.

Print Assumptions C05_budgets.
Print Assumptions C05_loop_constants.
Print Assumptions C05_root_fits.
Print Assumptions C05_within_16k.
Print Assumptions C05_structure.
Print Assumptions C05_terminates.
Print Assumptions C05_terminates_all.
