(* C12 — HTTP contract: statuses, content headers, strong ETags, metadata, TileJSON.
   serve_http (Model/Http.v) is the response mapping; its tables are regenerated from directory.go / server.go. *)
From Coq Require Import NArith ZArith List Bool String Lia.
Import ListNotations.
From PM Require Import Gen.Generated Model.Varint Model.Directory Model.Header Model.TileId Model.FindTile Model.Resolver
  Model.Archive Model.PathParse Model.Http.
Open Scope N_scope.

(* the regenerated tables are the specification's: a swapped content type, encoding or extension breaks this *)
Theorem C12_tables :
  Generated.content_type_table = SpecTables.content_types /\ Generated.compression_name_table = SpecTables.encodings /\
  Generated.ext_table = SpecTables.extensions /\ Generated.tile_type_name_table = SpecTables.type_names.
Proof. repeat split; reflexivity. Qed.

Theorem C12_method_405 : forall w pub p c, rs_status (serve_http w pub MOther p c) = 405.
Proof. reflexivity. Qed.
Theorem C12_unknown_path_404 : forall w pub m p c, m <> MOther -> route_of p = RNotFound -> rs_status (serve_http w pub m p c) = 404.
Proof. intros w pub m p c Hm Hr. destruct m; try congruence; unfold serve_http, get; rewrite Hr; reflexivity. Qed.
Theorem C12_unknown_archive_404 : forall w pub m p c name, m <> MOther -> archive_of (route_of p) = Some name ->
  find_archive name w = None -> rs_status (serve_http w pub m p c) = 404.
Proof.
  intros w pub m p c name Hm Ha Hf. unfold serve_http, get.
  destruct (route_of p) as [t|n|n| |]; cbn in Ha; inversion Ha; subst;
    unfold get_tile, get_tilejson, get_metadata; rewrite Hf; destruct m; try congruence; reflexivity.
Qed.

Section Tile.
Variables (w:world) (pub:list N) (p:list N) (t:tile_req) (a:archive).
Hypothesis Hroute : route_of p = RTile t.
Hypothesis Harch : find_archive (tr_name t) w = Some a.
Let h := a_hdr a.

Theorem C12_zoom_404 : (tr_z t < hN h F_min_zoom \/ hN h F_max_zoom < tr_z t) -> rs_status (get w pub p) = 404.
Proof.
  intro Hz. unfold get. rewrite Hroute. unfold get_tile. rewrite Harch. fold h.
  assert (((tr_z t <? hN h F_min_zoom) || (hN h F_max_zoom <? tr_z t)) = true) as ->; [|reflexivity].
  apply orb_true_iff. destruct Hz; [left|right]; apply N.ltb_lt; assumption.
Qed.
Hypothesis Hzoom : hN h F_min_zoom <= tr_z t <= hN h F_max_zoom.
Lemma zoom_ok : ((tr_z t <? hN h F_min_zoom) || (hN h F_max_zoom <? tr_z t)) = false.
Proof. apply orb_false_iff. split; apply N.ltb_ge; lia. Qed.

Theorem C12_ext_400 : forall e st, required_ext (h F_tile_type) = Some (e, st) -> bytes_eqb (tr_ext t) (bytes_of_string e) = false ->
  rs_status (get w pub p) = Z.to_N st.
Proof. intros e st He Hne. unfold get. rewrite Hroute. unfold get_tile. rewrite Harch. fold h. rewrite zoom_ok, He, Hne. reflexivity. Qed.
Hypothesis Hext : match required_ext (h F_tile_type) with Some (e, _) => bytes_eqb (tr_ext t) (bytes_of_string e) = true | None => True end.
Lemma ext_ok : (match required_ext (h F_tile_type) with Some (e, st) => if bytes_eqb (tr_ext t) (bytes_of_string e) then None else Some st | None => None end) = None.
Proof. destruct (required_ext (h F_tile_type)) as [[e st]|]; [rewrite Hext|]; reflexivity. Qed.

Theorem C12_absent_204 : cover (a_entries a) (zxy_to_id (tr_z t) (tr_x t) (tr_y t)) = None -> rs_status (get w pub p) = 204.
Proof. intro Hc. unfold get. rewrite Hroute. unfold get_tile. rewrite Harch. fold h. rewrite zoom_ok, ext_ok, Hc. reflexivity. Qed.
(* stored tile: 200, exactly its bytes, the Content-Type of the tile type, the Content-Encoding of the tile compression (none when uncompressed), an ETag *)
Theorem C12_tile_200 : forall e, cover (a_entries a) (zxy_to_id (tr_z t) (tr_x t) (tr_y t)) = Some e ->
  get w pub p = mkResp 200 (content_type_of (h F_tile_type)) (content_encoding_of (h F_tile_comp)) true (BBytes (content_at (a_data a) e)).
Proof. intros e Hc. unfold get. rewrite Hroute. unfold get_tile. rewrite Harch. fold h. rewrite zoom_ok, ext_ok, Hc. reflexivity. Qed.
End Tile.

(* the content headers of the five tile types and four compressions, by the regenerated tables *)
Theorem C12_content_headers :
  map content_type_of [1;2;3;4;5;0;6]%Z = [Some "application/x-protobuf"; Some "image/png"; Some "image/jpeg"; Some "image/webp"; Some "image/avif"; None; None]%string /\
  map content_encoding_of [1;2;3;4;0;9]%Z = [None; Some "gzip"; Some "br"; Some "zstd"; None; None]%string.
Proof. split; reflexivity. Qed.

(* conditional requests and HEAD: presenting the ETag gives 304 without body; HEAD = GET without body *)
Theorem C12_conditional_304 : forall w pub m p, m <> MOther -> rs_status (get w pub p) = 200 ->
  serve_http w pub m p HIfNoneMatchSame = mkResp 304 None None true BNone.
Proof. intros w pub m p Hm H. unfold serve_http. destruct m; try congruence; rewrite H; reflexivity. Qed.
Lemma required_ext_status : forall tt e st, required_ext tt = Some (e, st) -> st = 400%Z.
Proof.
  intros tt e st. unfold required_ext. cbn.
  repeat (match goal with |- context [if ?c then _ else _] => destruct c end); intro H; inversion H; reflexivity.
Qed.
Local Opaque required_ext content_type_of content_encoding_of zxy_to_id.
Lemma get_200_etag : forall w pub p, rs_status (get w pub p) = 200 -> rs_etag (get w pub p) = true.
Proof.
  intros w pub p. unfold get. destruct (route_of p) as [t|n|n| |]; cbn; try discriminate.
  - unfold get_tile. destruct (find_archive (tr_name t) w) as [a|]; cbn; try discriminate.
    destruct ((tr_z t <? hN (a_hdr a) F_min_zoom) || (hN (a_hdr a) F_max_zoom <? tr_z t)); cbn; try discriminate.
    destruct (required_ext (a_hdr a F_tile_type)) as [[e st]|] eqn:Er.
    + destruct (bytes_eqb (tr_ext t) (bytes_of_string e)); cbn.
      * destruct (cover _ _); cbn; [reflexivity|discriminate].
      * apply required_ext_status in Er. subst st. discriminate.
    + destruct (cover _ _); cbn; [reflexivity|discriminate].
  - unfold get_tilejson. destruct (find_archive n w); cbn; try discriminate. destruct pub; cbn; [discriminate|reflexivity].
  - unfold get_metadata. destruct (find_archive n w); cbn; [reflexivity|discriminate].
Qed.

Theorem C12_head_same : forall w pub p c,
  let g := serve_http w pub MGet p c in let hd := serve_http w pub MHead p c in
  rs_status hd = rs_status g /\ rs_ctype hd = rs_ctype g /\ rs_cenc hd = rs_cenc g /\ rs_etag hd = rs_etag g /\ rs_body hd = BNone.
Proof.
  intros w pub p c. cbv zeta. unfold serve_http. destruct (rs_status (get w pub p) =? 200) eqn:E.
  - apply N.eqb_eq in E. pose proof (get_200_etag w pub p E) as Het.
    destruct c; cbn; repeat split; auto.
  - repeat split; reflexivity.
Qed.

(* metadata endpoint: the archive's JSON metadata unchanged; TileJSON: bounds, center, zooms of the header and a
   tiles template built from the public URL, the archive name and the tile-type extension *)
Theorem C12_metadata_verbatim : forall w pub p name a, route_of p = RMetadata name -> find_archive name w = Some a ->
  get w pub p = mkResp 200 (Some json_ct) None true (BBytes (a_meta a)).
Proof. intros w pub p name a Hr Hf. unfold get. rewrite Hr. unfold get_metadata. rewrite Hf. reflexivity. Qed.
Theorem C12_tilejson_fields : forall w pub p name a, pub <> [] -> route_of p = RTileJSON name -> find_archive name w = Some a ->
  exists tj, get w pub p = mkResp 200 (Some json_ct) None true (BTileJSON tj) /\
    tj_tiles tj = pub ++ [47] ++ name ++ bytes_of_string "/{z}/{x}/{y}" ++ header_ext (a_hdr a F_tile_type) /\
    tj_minzoom tj = a_hdr a F_min_zoom /\ tj_maxzoom tj = a_hdr a F_max_zoom /\
    tj_bounds tj = [a_hdr a F_min_lon; a_hdr a F_min_lat; a_hdr a F_max_lon; a_hdr a F_max_lat] /\
    tj_center tj = [a_hdr a F_center_lon; a_hdr a F_center_lat; a_hdr a F_center_zoom].
Proof.
  intros w pub p name a Hp Hr Hf. unfold get. rewrite Hr. unfold get_tilejson. rewrite Hf.
  destruct pub as [|c pub']; [congruence|]. eexists. split; [reflexivity|]. cbn. repeat split; reflexivity.
Qed.

Print Assumptions C12_tables.
Print Assumptions C12_method_405.
Print Assumptions C12_unknown_path_404.
Print Assumptions C12_unknown_archive_404.
Print Assumptions C12_zoom_404.
Print Assumptions C12_ext_400.
Print Assumptions C12_absent_204.
Print Assumptions C12_tile_200.
Print Assumptions C12_content_headers.
Print Assumptions C12_conditional_304.
Print Assumptions C12_head_same.
Print Assumptions C12_metadata_verbatim.
Print Assumptions C12_tilejson_fields.
