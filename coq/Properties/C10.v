(* C10 — Bucket faults and malformed archives are contained: error, no crash, no lie (tile, metadata and TileJSON requests).
   The LTS of Model/Server.v includes, at every bucket call, the failing outcomes: a fetch whose call fails with any
   error class or whose bytes do not parse (SFetchFail), a tile read that fails (STileFail). *)
From Coq Require Import NArith List.
Import ListNotations.
From PM Require Import Model.Server Proofs.Server Proofs.ServerExec Proofs.ServerCoalesce Proofs.ServerProgress.
Open Scope N_scope.

Section C10.
Context `{V:Version}.
Hypothesis root_off_nz : forall v, fst (root v) <> 0.
Hypothesis leaf_base_nz : forall v lo, leaf_base v + lo <> 0.

(* no lie: whatever faults occurred, at any bucket call, in any interleaving — a completed 200/204/400 is the answer
   of one version of the archive; in particular never 204 for a tile that version stores *)
Theorem C10_no_lie : forall s rid q r, reach s -> In (rid, q, r) (dones s) ->
  match r with
  | R200 v o l => In (t_name q, v) (hist s) /\ answer v q = R200 v o l
  | R204 => exists v, In (t_name q, v) (hist s) /\ answer v q = R204
  | _ => True end.
Proof.
  intros s rid q r R Hin. pose proof (C08_single_version_tile root_off_nz leaf_base_nz s rid q r R Hin) as G.
  destruct r; cbn in G; auto.
Qed.

(* failures are not cached: whatever sits in the cache (or is about to be inserted) with ok = true is the well-keyed
   data of a version; a failed result carries ok = false and the loop only inserts ok results *)
Theorem C10_failures_not_cached : forall s k cv, reach s -> In (k, cv) (cache s) -> cv_ok cv = true -> wk (hist s) k cv.
Proof. intros s k cv R Hin _. eapply (I_cache s (reach_inv root_off_nz leaf_base_nz s R)); eauto. Qed.
(* ... and a failed result never gets there at all: every cached value is an ok value *)
Theorem C10_only_ok_cached : forall s k cv, reach s -> In (k, cv) (cache s) -> cv_ok cv = true.
Proof. intros s k cv R Hin. exact (E12 s (reach_co root_off_nz s R) k cv Hin). Qed.
(* no request is left waiting on nothing: a key with registered waiters is being fetched right now or its response (data or failure) is
   queued for the loop, so the waiters are answered by the next loop message for that key whatever the outcome of the bucket call *)
Theorem C10_waiters_served : forall s k, reach s -> In k (map fst (inflight s)) -> In k (fetches s) \/ In k (map fst (respq s)).
Proof. intros s k R Hin. exact (E11 s (reach_co root_off_nz s R) k Hin). Qed.
(* bounded completion, the safety half: a handler that waits for a loop message is never forgotten - its message is queued for the loop, or
   it is registered with a key whose fetch is outstanding or whose response is queued; every other handler is blocked in a bucket call of
   its own. So as long as bucket calls return (with data or with any error) and the loop runs, every request completes. *)
Theorem C10_no_request_forgotten : forall s rid h m, reach s -> In (rid, h) (handlers s) -> waiting h = Some m ->
  (exists k p, In (m, rid, k, p) (reqq s)) \/
  (exists k ws, In (k, ws) (inflight s) /\ In (m, rid) ws /\ (In k (fetches s) \/ In k (map fst (respq s)))).
Proof.
  intros s rid h m R Hin Hw. destruct (P3 s [] (reach_pr s R) rid h m Hin Hw) as [[H|[k [ws [H1 H2]]]]|[]]; [left; exact H|right].
  exists k, ws. split; [exact H1|]. split; [exact H2|]. apply (E11 s (reach_co root_off_nz s R)). apply (in_map fst) in H1. exact H1.
Qed.
End C10.

Print Assumptions C10_no_lie.
Print Assumptions C10_failures_not_cached.
Print Assumptions C10_only_ok_cached.
Print Assumptions C10_waiters_served.
Print Assumptions C10_no_request_forgotten.
