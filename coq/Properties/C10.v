(* C10 — Bucket faults and malformed archives are contained: error, no crash, no lie (tile requests).
   The LTS of Model/Server.v includes, at every bucket call, the failing outcomes: a fetch whose call fails with any
   error class or whose bytes do not parse (SFetchFail), a tile read that fails (STileFail). *)
From Coq Require Import NArith List.
Import ListNotations.
From PM Require Import Model.Server Proofs.Server Proofs.ServerExec.
Open Scope N_scope.

Section C10.
Context `{V:Version}.
Hypothesis root_off_nz : forall v, fst (root v) <> 0.
Hypothesis leaf_base_nz : forall v lo, leaf_base v + lo <> 0.

(* no lie: whatever faults occurred, at any bucket call, in any interleaving — a completed 200/204/400 is the answer
   of one version of the archive; in particular never 204 for a tile that version stores *)
Theorem C10_no_lie : forall s rid q r, reach s -> In (rid, q, r) (dones s) ->
  match r with
  | R200 v o l => In (t_name q, v) (hist s) /\ answer v q = R200 v o l
  | R204 => exists v, In (t_name q, v) (hist s) /\ answer v q = R204
  | _ => True end.
Proof.
  intros s rid q r R Hin. pose proof (C08_single_version_tile root_off_nz leaf_base_nz s rid q r R Hin) as G.
  destruct r; cbn in G; auto.
Qed.

(* failures are not cached: whatever sits in the cache (or is about to be inserted) with ok = true is the well-keyed
   data of a version; a failed result carries ok = false and the loop only inserts ok results *)
Theorem C10_failures_not_cached : forall s k cv, reach s -> In (k, cv) (cache s) -> cv_ok cv = true -> wk (hist s) k cv.
Proof. intros s k cv R Hin _. eapply (I_cache s (reach_inv root_off_nz leaf_base_nz s R)); eauto. Qed.
End C10.

Print Assumptions C10_no_lie.
Print Assumptions C10_failures_not_cached.
