(* C14 — Edit changes only what was asked, round-trips show's JSON, never damages the file.
   Model/Edit.v: edit on abstract archives, show_json, the two output paths as file-system operation sequences with crash
   points; Model/F64.v: Go's float64 arithmetic through Flocq.  The statements of Edit the model was written against are
   regenerated from edit.go / directory.go on every run (C14_statements). *)
From Coq Require Import NArith ZArith List Bool String Lia.
Import ListNotations.
From PM Require Import Gen.Generated Model.Varint Model.Directory Model.Header Model.FindTile Model.Resolver Model.Archive
  Model.PathParse Model.F64 Model.Http Model.Edit Proofs.Header Proofs.Edit Proofs.E7 Proofs.E7Glue Properties.C02.
Open Scope Z_scope.

(* the tie: the header-field assignments, the copied sections, the ordered output calls (with their error checks) of
   Edit, and the fields of headerToJson are the ones modelled *)
Theorem C14_statements :
  Generated.edit_assignments = SpecEdit.edit_assignments /\ Generated.edit_sections = SpecEdit.edit_sections /\
  Generated.edit_calls = SpecEdit.edit_calls /\ Generated.header_to_json_fields = SpecEdit.header_to_json_fields.
Proof. repeat split; reflexivity. Qed.

(* ---- only what was asked *)
Theorem C14_header_edit : forall a j a', edit a (Some j) None = EOk a' ->
  a_entries a' = a_entries a /\ a_data a' = a_data a /\ a_meta a' = a_meta a /\
  (forall f, editable f = false -> a_hdr a' f = a_hdr a f) /\
  exists b0 b1 b2 b3 c0 c1 c2, hj_bounds j = [b0; b1; b2; b3] /\ hj_center j = [c0; c1; c2] /\
    a_hdr a' F_tile_type = name_lookup (hj_ttype j) Generated.tile_type_of_name_table 0 /\
    a_hdr a' F_tile_comp = name_lookup (hj_tcomp j) Generated.compression_of_name_table 0 /\
    a_hdr a' F_min_zoom = hj_minz j mod 256 /\ a_hdr a' F_max_zoom = hj_maxz j mod 256 /\
    a_hdr a' F_min_lon = to_e7 (dec b0) /\ a_hdr a' F_min_lat = to_e7 (dec b1) /\
    a_hdr a' F_max_lon = to_e7 (dec b2) /\ a_hdr a' F_max_lat = to_e7 (dec b3) /\
    a_hdr a' F_center_lon = to_e7 (dec c0) /\ a_hdr a' F_center_lat = to_e7 (dec c1) /\
    a_hdr a' F_center_zoom = go_trunc (dec c2) mod 256.
Proof.
  intros a j a' H. cbn [edit] in H. destruct (apply_hjson (a_hdr a) j) as [h|] eqn:E; [|discriminate].
  inversion H; subst a'; clear H. cbn [a_entries a_data a_meta a_hdr].
  split; [reflexivity|]. split; [reflexivity|]. split; [reflexivity|]. split; [exact (apply_hjson_noneditable _ _ _ E)|].
  unfold apply_hjson in E. destruct (hj_bounds j) as [|b0 [|b1 [|b2 [|b3 [|? ?]]]]]; try discriminate.
  destruct (hj_center j) as [|c0 [|c1 [|c2 [|? ?]]]]; try discriminate.
  exists b0, b1, b2, b3, c0, c1, c2. inversion E; subst h. repeat split; reflexivity.
Qed.

Theorem C14_metadata_edit : forall a j m l a', edit a j (Some (m, l)) = EOk a' ->
  a_entries a' = a_entries a /\ a_data a' = a_data a /\ a_meta a' = m /\
  (forall f, editable f = false -> moved f = false -> a_hdr a' f = a_hdr a f) /\
  (j = None -> forall f, moved f = false -> a_hdr a' f = a_hdr a f) /\
  a_hdr a' F_meta_off = a_hdr a' F_root_off + a_hdr a' F_root_len /\ a_hdr a' F_meta_len = Z.of_N l /\
  a_hdr a' F_leaf_off = a_hdr a' F_meta_off + a_hdr a' F_meta_len /\
  a_hdr a' F_data_off = a_hdr a' F_leaf_off + a_hdr a' F_leaf_len.
Proof.
  intros a j m l a' H.
  assert (exists h, (match j with Some j => apply_hjson (a_hdr a) j | None => Some (a_hdr a) end) = Some h /\
    a' = mkA (upd (upd (upd (upd h F_meta_off (h F_root_off + h F_root_len)) F_meta_len (Z.of_N l)) F_leaf_off (h F_root_off + h F_root_len + Z.of_N l))
                  F_data_off (h F_root_off + h F_root_len + Z.of_N l + h F_leaf_len)) (a_entries a) (a_data a) m) as [h [Hh ->]].
  { unfold edit in H. destruct j as [j|]; cbn in H |- *.
    - destruct (apply_hjson (a_hdr a) j) as [h|]; [|discriminate]. exists h. inversion H. split; reflexivity.
    - exists (a_hdr a). inversion H. split; reflexivity. }
  cbn [a_entries a_data a_meta a_hdr]. split; [reflexivity|]. split; [reflexivity|]. split; [reflexivity|].
  assert (Hmv : forall f, moved f = false -> upd (upd (upd (upd h F_meta_off (h F_root_off + h F_root_len)) F_meta_len (Z.of_N l)) F_leaf_off (h F_root_off + h F_root_len + Z.of_N l))
                  F_data_off (h F_root_off + h F_root_len + Z.of_N l + h F_leaf_len) f = h f).
  { intros f Hf. unfold moved in Hf. cbn [existsb] in Hf. repeat (apply orb_false_iff in Hf; destruct Hf as [?H Hf]).
    repeat match goal with H : Nat.eqb _ _ = false |- _ => apply Nat.eqb_neq in H end. rewrite !upd_other by assumption. reflexivity. }
  split; [|split].
  - intros f He Hm. rewrite (Hmv f Hm). destruct j as [j|]; [exact (apply_hjson_noneditable _ _ _ Hh f He)|inversion Hh; reflexivity].
  - intros -> f Hm. rewrite (Hmv f Hm). inversion Hh. reflexivity.
  - unfold upd. cbn. repeat split; lia.
Qed.

(* the tile-to-content map and the well-formedness of the entries (the directories) are untouched by any edit *)
Theorem C14_content_preserved : forall a j m a', edit a j m = EOk a' ->
  (forall id, content_of a' id = content_of a id) /\ a_entries a' = a_entries a /\ (awf a -> awf a').
Proof.
  intros a j m a' H.
  assert (a_entries a' = a_entries a /\ a_data a' = a_data a) as [He Hd].
  { unfold edit in H. destruct j as [j|]; destruct m as [[m l]|]; try discriminate;
      repeat match type of H with context [match ?x with _ => _ end] => destruct x; try discriminate end; inversion H; split; reflexivity. }
  split; [|split; [exact He|]].
  - intro id. unfold content_of. rewrite He, Hd. reflexivity.
  - unfold awf. rewrite He, Hd. exact (fun x => x).
Qed.

(* ---- show's JSON fed back unchanged: every field keeps its value, so the 127 header bytes written in place are the
   bytes that were there (C02_bytes_roundtrip: serialize (deserialize b) = b on canonical headers) *)
Definition showable (h:header) : Prop :=
  0 <= h F_tile_type <= 5 /\ 1 <= h F_tile_comp <= 4 /\ 0 <= h F_min_zoom < 256 /\ 0 <= h F_max_zoom < 256 /\ 0 <= h F_center_zoom < 256 /\
  Forall (fun f => - 2^31 <= h f < 2^31) [F_min_lon; F_min_lat; F_max_lon; F_max_lat; F_center_lon; F_center_lat].
Lemma names_roundtrip :
  forallb (fun t => name_lookup (bytes_of_string (tile_type_name t)) Generated.tile_type_of_name_table Generated.tile_type_of_name_table_default =? t) [0;1;2;3;4;5] = true /\
  forallb (fun t => name_lookup (bytes_of_string (compression_name t)) Generated.compression_of_name_table Generated.compression_of_name_table_default =? t) [1;2;3;4] = true.
Proof. split; vm_compute; reflexivity. Qed.
Lemma small_in (lo n:nat) (z:Z) : Z.of_nat lo <= z < Z.of_nat lo + Z.of_nat n -> In z (map Z.of_nat (seq lo n)).
Proof.
  intro H. apply in_map_iff. exists (Z.to_nat z). split; [lia|]. apply in_seq. lia.
Qed.
Lemma zoom_roundtrip : forallb (fun z => go_trunc (f64_of_Z z) =? z) (map Z.of_nat (seq 0 256)) = true.
Proof. vm_compute. reflexivity. Qed.

Theorem C14_show_edit_identity : forall h, showable h ->
  exists h', apply_hjson h (show_json h) = Some h' /\ forall f, h' f = h f.
Proof.
  intros h [Ht [Hc [Hz1 [Hz2 [Hz3 Hco]]]]].
  eexists. split; [reflexivity|]. intro f.
  repeat match type of Hco with Forall _ (_ :: _) => let H := fresh "Hc" in inversion Hco as [|? ? H Hco']; subst; clear Hco; rename Hco' into Hco end.
  destruct names_roundtrip as [Hn1 Hn2]. rewrite forallb_forall in Hn1, Hn2. pose proof zoom_roundtrip as Hzr. rewrite forallb_forall in Hzr.
  unfold upd, w8z, dec. cbn [hj_tcomp hj_ttype hj_minz hj_maxz].
  repeat match goal with |- (if Nat.eqb f ?g then _ else _) = _ => destruct (Nat.eqb_spec f g) as [->|?] end;
    try reflexivity; rewrite ?e7_roundtrip by assumption; try reflexivity.
  - assert (Hi : In (h F_center_zoom) (map Z.of_nat (seq 0 256))) by (apply (small_in 0 256); lia).
    specialize (Hzr _ Hi). apply Z.eqb_eq in Hzr. rewrite Hzr. apply Z.mod_small. lia.
  - apply Z.mod_small. lia.
  - apply Z.mod_small. lia.
  - specialize (Hn2 (h F_tile_comp)). apply Z.eqb_eq. apply Hn2. apply (small_in 1 4). cbn. lia.
  - specialize (Hn1 (h F_tile_type)). apply Z.eqb_eq. apply Hn1. apply (small_in 0 6). cbn. lia.
Qed.
Lemma serialize_ext L h h' : (forall f, h' f = h f) -> serialize L h' = serialize L h.
Proof. intro H. unfold serialize. f_equal. apply map_ext. intro r. unfold enc_field. rewrite H. reflexivity. Qed.
Theorem C14_show_edit_bytes : forall (b:list Z) h, List.length b = 127%nat -> Forall byte b -> nth 7 b 0 = 3 -> (nth 96 b 0 = 0 \/ nth 96 b 0 = 1) ->
  deserialize Generated.deser_layout b = inl h -> showable h ->
  exists h', apply_hjson h (show_json h) = Some h' /\ serialize Generated.ser_layout h' = b.
Proof.
  intros b h Hl Hb H7 H96 Hd Hs. destruct (C14_show_edit_identity h Hs) as [h' [Ha He]]. exists h'. split; [exact Ha|].
  rewrite (serialize_ext _ _ _ He). eapply C02_bytes_roundtrip; eassumption.
Qed.

(* ---- coordinates: seven decimals are stored exactly; the analytic core; the pinned (truncating) conversion fails *)
Theorem C14_seven_decimals : forall m k, (k <= 7)%nat -> - 2^31 <= m * 10 ^ (7 - Z.of_nat k) < 2^31 ->
  to_e7 (dec (JDec m k)) = m * 10 ^ (7 - Z.of_nat k).
Proof. exact e7_decimal. Qed.
Theorem C14_e7_roundtrip : forall n, - 2^31 <= n < 2^31 -> to_e7 (of_e7 n) = n.
Proof. exact e7_roundtrip. Qed.
Theorem C14_truncation_refuted : exists n, - 2^31 <= n < 2^31 /\ to_e7_pinned (of_e7 n) <> n.
Proof. exists (-1799809944). split; [lia|]. vm_compute. discriminate. Qed.
Example C14_decimal_example : to_e7 (dec (JDec (-1234567) 7)) = -1234567 /\ to_e7 (dec (JDec 1799 1)) = 1799000000 /\ to_e7 (dec (JDec (-85051129) 6)) = -850511290.
Proof. vm_compute. repeat split; reflexivity. Qed.

(* ---- failed or interrupted edits: at every crash point (between operations, or after any prefix of an append) the
   archive path holds the original bytes or the complete edited file *)
Theorem C14_metadata_edit_crash_safe : forall f a t old hdr root meta leaves tiles, t <> a -> fs_get a f = Some old ->
  forall s, In s (crash_states f (metadata_edit_ops a t hdr root meta leaves tiles)) ->
  fs_get a s = Some old \/ fs_get a s = Some (hdr ++ root ++ meta ++ leaves ++ tiles)%list.
Proof. exact metadata_edit_crash_safe. Qed.
Theorem C14_header_edit_crash_safe : forall f a old hdr, fs_get a f = Some old ->
  forall s, In s (crash_states f (header_edit_ops a hdr)) -> fs_get a s = Some old \/ fs_get a s = Some (overwrite0 old hdr).
Proof. exact header_edit_crash_safe. Qed.
Theorem C14_other_files_untouched : forall f a t q hdr root meta leaves tiles, q <> a -> q <> t ->
  forall s, In s (crash_states f (metadata_edit_ops a t hdr root meta leaves tiles)) -> fs_get q s = fs_get q f.
Proof. exact edit_other_paths_untouched. Qed.
(* an output-size limit (every L) is one of those crash points *)
Theorem C14_limit_is_crash_point : forall L ops f, In (run_limited L f ops) (crash_states f ops).
Proof. exact run_limited_crash_state. Qed.
Theorem C14_limited_metadata_edit_safe : forall L f a t old hdr root meta leaves tiles, t <> a -> fs_get a f = Some old ->
  let s := run_limited L f (metadata_edit_ops a t hdr root meta leaves tiles) in
  fs_get a s = Some old \/ fs_get a s = Some (hdr ++ root ++ meta ++ leaves ++ tiles)%list.
Proof. intros L f a t old hdr root meta leaves tiles Hne Hold s. eapply metadata_edit_crash_safe; [exact Hne|exact Hold|apply run_limited_crash_state]. Qed.
(* non-vacuity: the crash states of a metadata edit include torn temporary files and the renamed result *)
Example C14_crash_states_example :
  let f := [(1%N, [9;9;9]%N)] in
  let cs := crash_states f (metadata_edit_ops 1%N 2%N [1]%N [2]%N [3;3]%N [] [5]%N) in
  List.length cs = 13%nat /\ In (Some [1;2;3;3;5]%N) (map (fs_get 1%N) cs) /\ In (Some [1;2;3]%N) (map (fs_get 2%N) cs).
Proof. vm_compute. intuition. Qed.

Print Assumptions C14_statements.
Print Assumptions C14_header_edit.
Print Assumptions C14_metadata_edit.
Print Assumptions C14_content_preserved.
Print Assumptions C14_show_edit_identity.
Print Assumptions C14_show_edit_bytes.
Print Assumptions C14_seven_decimals.
Print Assumptions C14_e7_roundtrip.
Print Assumptions C14_truncation_refuted.
Print Assumptions C14_metadata_edit_crash_safe.
Print Assumptions C14_header_edit_crash_safe.
Print Assumptions C14_other_files_untouched.
Print Assumptions C14_limit_is_crash_point.
Print Assumptions C14_limited_metadata_edit_safe.
