(* Extraction of the executable models to OCaml for the correspondence check.
   ExtrOcamlBasic only (bool, option, unit, list, prod, sumbool -> OCaml's); N/Z/positive/nat stay
   Coq datatypes so 2^64-sized values never pass through OCaml's 63-bit int. No Extract Constant. *)
Require Extraction.
Require Import ExtrOcamlBasic.
From Coq Require Import NArith ZArith Ascii String.
From PM Require Import Model.Varint Model.Directory Model.Iterate Model.TileId Gen.Generated Model.Header Model.FindTile Model.DirBuild Model.DirBuildF32 Model.Resolver Model.Archive Model.Verify Model.Cluster Model.PathParse Model.PathSafe Model.Bucket Model.Http Model.Server Model.ServerRun Model.F32 Model.Extract Model.ExtractCmd Model.F64 Model.Edit Model.Sync Model.Convert Model.Region.
From Flocq Require Import IEEE754.Bits.
Extraction "model.ml"
  N.add N.mul N.sub N.div_eucl N.of_nat N.to_nat N.compare N.eqb Z.add Z.mul Z.div_eucl Z.of_N Z.to_N Z.opp Z.abs Z.leb Z.ltb Z.sub
  put_uvarint read_uvarint serialize_entries deserialize_entries deserialize_res
  iterate_table
  zxy_to_id id_to_zxy parent_id
  relevant_entries reencode merge_ranges plan_ok budget_f32 total_len extract_model b32_of_bits
  macro xinit pending_calls status_body resp_headers CVersion Model.Server.init
  serve_http Ascii.N_of_ascii
  read_mock read_file read_http origin adapter_class
  route_of file_for_key
  cluster verify content_of
  convert row_id
  interior_ranges region_relevant region_header
  makesync_blocks sync_entries sync multi_ranges
  edit to_e7 of_e7 to_e7_pinned dec_to_f64 show_json crash_states metadata_edit_ops header_edit_ops fs_get run_limited apply_hjson
  build_roots_leaves optimize_small optimize go_sizes
  find_tile walk_table tile_response depth_fuel
  serialize deserialize list_header Generated.ser_layout Generated.deser_layout.
