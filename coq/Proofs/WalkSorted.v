(* The flattened tree of a well-formed archive is a chain: tile ids strictly ascending, every run ends
   at or before the next entry's id (so every id is addressed at most once). *)
From Coq Require Import NArith ZArith List Lia ZifyN ZifyBool ZifyNat Arith Bool.
Import ListNotations.
From PM Require Import Model.Varint Model.Directory Model.Iterate Model.FindTile Proofs.FindTile Proofs.Walk Proofs.Iterate.
Open Scope N_scope.

Fixpoint chain (lo:N) (fl:list entry) : Prop :=
  match fl with [] => True | e :: r => lo <= tid e /\ 0 < run e /\ chain (tid e + run e) r end.

Lemma chain_weaken : forall fl lo lo', lo' <= lo -> chain lo fl -> chain lo' fl.
Proof. intros [|e r] lo lo' H C; [exact I|]. cbn [chain] in *. destruct C as (A & B & C). repeat split; try assumption; lia. Qed.

Lemma chain_app : forall a lo mid b, lo <= mid -> chain lo a -> Forall (fun e => tid e + run e <= mid) a -> chain mid b ->
  chain lo (a ++ b).
Proof.
  induction a as [|e r IH]; intros lo mid b Hlm Ca Fa Cb; cbn [app].
  - eapply chain_weaken; eassumption.
  - cbn [chain] in *. destruct Ca as (A & B & C). inversion Fa as [|? ? He Hr]; subst. repeat split; try assumption.
    apply (IH _ mid); assumption.
Qed.

Lemma chain_lower : forall fl lo b, chain lo fl -> In b fl -> lo <= tid b.
Proof.
  induction fl as [|e r IH]; intros lo b C Hin; [destruct Hin|]. cbn [chain] in C. destruct C as (A & B & C).
  destruct Hin as [<-|Hin]; [exact A|]. specialize (IH _ _ C Hin). lia.
Qed.

(* readable form: an earlier entry's run ends at or before a later entry's id, and runs are not empty *)
Lemma chain_sorted : forall fl lo i j a b, chain lo fl -> (i < j)%nat -> nth_error fl i = Some a -> nth_error fl j = Some b ->
  0 < run a /\ tid a + run a <= tid b.
Proof.
  induction fl as [|e r IH]; intros lo i j a b C Hij Ha Hb; [destruct i; discriminate|].
  cbn [chain] in C. destruct C as (A & B & C). destruct j as [|j]; [lia|]. cbn [nth_error] in Hb. destruct i as [|i].
  - cbn in Ha. inversion Ha; subst a. split; [exact B|]. apply nth_error_In in Hb. exact (chain_lower _ _ _ C Hb).
  - cbn [nth_error] in Ha. apply (IH _ i j a b C); [lia|assumption|assumption].
Qed.

Section Sorted.
Variable fetch : N -> N -> option (list entry).
Variable lb : N.

Lemma flatten_S d o l : flatten fetch lb (S d) o l =
  match fetch o l with None => None | Some es => flat_dir lb (flatten fetch lb d) es end.
Proof. reflexivity. Qed.

Lemma wfdir_chain : forall d es lo hi fl, wfdir fetch lb d lo hi es ->
  flat_dir lb (flatten fetch lb d) es = Some fl -> chain lo fl.
Proof.
  induction d as [|d IHd]; induction es as [|e r IHr]; intros lo hi fl H F.
  - cbn in F. inversion F. exact I.
  - rewrite wfdir_unfold in H. cbv zeta in H. destruct H as (A & B & C & Hr). cbn [flat_dir] in F.
    destruct (0 <? run e) eqn:Erun; [|contradiction].
    destruct (flat_dir lb (flatten fetch lb 0) r) as [fr|] eqn:Efr; [|discriminate]. cbn [option_map] in F. inversion F; subst fl.
    cbn [chain]. split; [exact A|]. split; [apply N.ltb_lt; exact Erun|].
    eapply chain_weaken; [exact C|]. apply (IHr _ _ _ Hr eq_refl).
  - cbn in F. inversion F. exact I.
  - rewrite wfdir_unfold in H. cbv zeta in H. destruct H as (A & B & C & Hr). cbn [flat_dir] in F.
    destruct (0 <? run e) eqn:Erun.
    + destruct (flat_dir lb (flatten fetch lb (S d)) r) as [fr|] eqn:Efr; [|discriminate]. cbn [option_map] in F. inversion F; subst fl.
      cbn [chain]. split; [exact A|]. split; [apply N.ltb_lt; exact Erun|].
      eapply chain_weaken; [exact C|]. apply (IHr _ _ _ Hr eq_refl).
    + destruct C as (sub & Esub & Wsub). rewrite flatten_S in F. rewrite Esub in F.
      destruct (wfdir_flat fetch lb _ _ _ _ Wsub) as (fs & Efs & Ws). rewrite Efs in F.
      destruct (flat_dir lb (flatten fetch lb (S d)) r) as [fr|] eqn:Efr; cbv iota beta in F; [|discriminate F]. inversion F; subst fl.
      apply (chain_app fs lo (next_id hi r) fr).
      * lia.
      * eapply chain_weaken; [exact A|]. apply (IHd _ _ _ _ Wsub Efs).
      * eapply Forall_impl; [|exact Ws]. cbv beta. intros x (X1 & X2 & X3). exact X2.
      * apply (IHr _ _ _ Hr eq_refl).
Qed.

Theorem wftree_iterate_chain : forall d o l, wftree fetch lb d o l ->
  exists v, iterate fetch lb (S d) o l = (v, true) /\ flatten fetch lb (S d) o l = Some v /\ chain 0 v.
Proof.
  intros d o l (es & Efetch & W). destruct (wfdir_flat fetch lb _ _ _ _ W) as (fl & Efl & _).
  assert (F: flatten fetch lb (S d) o l = Some fl) by (cbn [flatten]; rewrite Efetch; exact Efl).
  exists fl. split; [|split; [exact F|exact (wfdir_chain _ _ _ _ _ W Efl)]].
  pose proof (iterate_spec fetch lb (S d) o l) as S. rewrite F in S. exact S.
Qed.
End Sorted.
