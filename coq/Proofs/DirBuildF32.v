(* Tie between the literal leaf-size sequence of Model/DirBuild.v and the float32 computation of the Go code. *)
From Coq Require Import ZArith List.
Import ListNotations.
From PM Require Import Model.F32 Model.DirBuild Model.DirBuildF32.
Open Scope Z_scope. Open Scope bool_scope.

(* int(leafSize) for leafSize = 4096, then *= 1.2 in float32, 47 times: exactly the literal *)
Lemma leaf_sizes_small_is_float32 : leaf_seq 47 (f32_of_Z 4096) = leaf_sizes_small.
Proof. vm_compute. reflexivity. Qed.
(* at the top of the "small" range the start value is still the floor 4096 (float32(len)/3500 < 4096) *)
Lemma leaf_start_boundary : leaf_start 14335999 = f32_of_Z 4096 /\ leaf_start 0 = f32_of_Z 4096 /\ leaf_start 16384 = f32_of_Z 4096.
Proof. repeat split; vm_compute; reflexivity. Qed.
(* the sequence is strictly increasing and its last element exceeds every "small" entry count *)
Lemma leaf_sizes_small_increasing :
  (fix inc (l:list Z) := match l with a :: ((b :: _) as r) => (a <? b) && inc r | _ => true end) leaf_sizes_small = true
  /\ 14336000 <= last leaf_sizes_small 0.
Proof. split; vm_compute; [reflexivity|discriminate]. Qed.

(* for every entry count: the float32 sequence of the Go loop contains, after finitely many rounds, a size holding all entries;
   all sizes up to there are at least 4096 (Proofs/LeafGrowth.v) *)
From Coq Require Import Lia NArith.
From PM Require Import Proofs.LeafGrowth.
Lemma last_in (l:list Z) d : l <> [] -> In (last l d) l.
Proof. induction l as [|a [|b r] IH]; intro H; [congruence|left; reflexivity|right; apply IH; discriminate]. Qed.
Lemma go_sizes_reach (n:N) : Z.of_N n <= 2^62 ->
  exists k s, In s (go_sizes n k) /\ (n <= s)%N /\ Forall (fun s => (4096 <= s)%N) (go_sizes n k).
Proof.
  intro Hn. destruct (leaf_growth (Z.of_N n) ltac:(lia)) as (k & A & B).
  exists (S k), (Z.to_N (last (leaf_seq (S k) (leaf_start (Z.of_N n))) 0)). unfold go_sizes. split; [|split].
  - apply in_map. apply last_in. cbn [leaf_seq]. discriminate.
  - lia.
  - apply Forall_forall. intros s Hs. apply in_map_iff in Hs. destruct Hs as (z & <- & Hz).
    rewrite Forall_forall in A. specialize (A z Hz). lia.
Qed.
