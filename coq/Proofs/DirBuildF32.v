(* Tie between the literal leaf-size sequence of Model/DirBuild.v and the float32 computation of the Go code. *)
From Coq Require Import ZArith List.
Import ListNotations.
From PM Require Import Model.F32 Model.DirBuild Model.DirBuildF32.
Open Scope Z_scope. Open Scope bool_scope.

(* int(leafSize) for leafSize = 4096, then *= 1.2 in float32, 47 times: exactly the literal *)
Lemma leaf_sizes_small_is_float32 : leaf_seq 47 (f32_of_Z 4096) = leaf_sizes_small.
Proof. vm_compute. reflexivity. Qed.
(* at the top of the "small" range the start value is still the floor 4096 (float32(len)/3500 < 4096) *)
Lemma leaf_start_boundary : leaf_start 14335999 = f32_of_Z 4096 /\ leaf_start 0 = f32_of_Z 4096 /\ leaf_start 16384 = f32_of_Z 4096.
Proof. repeat split; vm_compute; reflexivity. Qed.
(* the sequence is strictly increasing and its last element exceeds every "small" entry count *)
Lemma leaf_sizes_small_increasing :
  (fix inc (l:list Z) := match l with a :: ((b :: _) as r) => (a <? b) && inc r | _ => true end) leaf_sizes_small = true
  /\ 14336000 <= last leaf_sizes_small 0.
Proof. split; vm_compute; [reflexivity|discriminate]. Qed.
