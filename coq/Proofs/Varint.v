(* Proofs about the varint model: reading what PutUvarint wrote returns the value and the rest. *)
From Coq Require Import NArith ZArith List Lia ZifyN ZifyBool.
Import ListNotations.
From PM Require Import Model.Varint.
Ltac Zify.zify_post_hook ::= Z.div_mod_to_equations.
Open Scope bool_scope. Open Scope N_scope.

Lemma put_step f v : put_uvarint_f (S f) v = if v <? 128 then [v] else (v mod 128 + 128) :: put_uvarint_f f (v / 128).
Proof. reflexivity. Qed.
Lemma read_step f i x s b r : read_uvarint_f (S f) i x s (b :: r) =
  if b <? 128 then (if (i =? 9) && (1 <? b) then (x, r, VOverflow) else (N.lor x (shl64 b s), r, VOk))
  else read_uvarint_f f (i+1) (N.lor x (shl64 (N.land b 127) s)) (s+7) r.
Proof. reflexivity. Qed.

(* ---- bit facts *)
Lemma land_disjoint x b s : x < 2^s -> N.land x (b * 2^s) = 0.
Proof.
  intro H. apply N.bits_inj; intro i. rewrite N.land_spec, N.bits_0.
  destruct (N.ltb_spec i s).
  - rewrite N.mul_pow2_bits_low by assumption. apply Bool.andb_false_r.
  - destruct (N.eq_dec x 0) as [->|Hx]; [now rewrite N.bits_0|].
    rewrite (N.bits_above_log2 x i); [reflexivity|].
    assert (N.log2 x < s) by (apply N.log2_lt_pow2; lia). lia.
Qed.
Lemma lor_add x b s : x < 2^s -> N.lor x (b * 2^s) = x + b * 2^s.
Proof.
  intro H. pose proof (land_disjoint x b s H) as L.
  rewrite N.add_nocarry_lxor by exact L. symmetry. apply N.lxor_lor. exact L.
Qed.
Lemma land127 b : N.land b 127 = b mod 128.
Proof. change 127 with (N.ones 7). rewrite N.land_ones. reflexivity. Qed.

Lemma shl64_small b s : s < 64 -> b * 2^s < 2^64 -> shl64 b s = b * 2^s.
Proof.
  intros Hs Hb. unfold shl64. assert (s <? 64 = true) as -> by (apply N.ltb_lt; lia).
  rewrite N.shiftl_mul_pow2. unfold w64. apply N.mod_small. exact Hb.
Qed.

Lemma pow_split a b : b <= a -> 2^a = 2^b * 2^(a-b).
Proof. intro H. rewrite <- N.pow_add_r. f_equal. lia. Qed.

(* main induction: reading what put wrote, starting in the middle of a varint *)
Lemma read_put : forall (fuel:nat) (i:N) x s v r,
  s = 7 * i -> (N.to_nat i + S fuel = 10)%nat ->
  x < 2^s -> v * 2^s < 2^64 ->
  read_uvarint_f (S fuel) i x s (put_uvarint_f (S fuel) v ++ r) = (x + v * 2^s, r, VOk).
Proof.
  induction fuel as [|f IH]; intros i x s v r Hs Hi Hx Hv.
  - (* last byte position: i = 9, s = 63 *)
    assert (i = 9) by lia. subst i. subst s. change (7*9) with 63 in *.
    assert (v < 2).
    { destruct (N.lt_ge_cases v 2); [assumption|]. exfalso.
      assert (2 * 2^63 <= v * 2^63) by (apply N.mul_le_mono_r; lia). change (2 * 2^63) with (2^64) in *. lia. }
    rewrite put_step.
    assert (v <? 128 = true) as Hv128 by (apply N.ltb_lt; lia). rewrite Hv128. cbn [app]. rewrite read_step, Hv128.
    assert (1 <? v = false) as -> by (apply N.ltb_ge; lia).
    rewrite Bool.andb_false_r.
    rewrite shl64_small by (try lia; assumption). rewrite lor_add by assumption. reflexivity.
  - assert (Hi9: i <= 8) by lia. assert (Hs63: s <= 56) by lia.
    rewrite put_step.
    destruct (N.ltb_spec v 128) as [Hsmall|Hbig].
    + cbn [app]. rewrite read_step.
      assert (v <? 128 = true) as -> by (apply N.ltb_lt; lia).
      assert (i =? 9 = false) as -> by (apply N.eqb_neq; lia). cbn [andb].
      rewrite shl64_small by (try lia; assumption). rewrite lor_add by assumption. reflexivity.
    + cbn [app]. rewrite read_step.
      assert (v mod 128 + 128 <? 128 = false) as -> by (apply N.ltb_ge; lia).
      rewrite land127.
      assert (Em: (v mod 128 + 128) mod 128 = v mod 128).
      { replace (v mod 128 + 128) with (v mod 128 + 1 * 128) by lia. rewrite N.mod_add by lia. apply N.mod_mod; lia. }
      rewrite Em.
      assert (Hp: 0 < 2^s) by (apply N.neq_0_lt_0, N.pow_nonzero; lia).
      assert (Hlow: (v mod 128) * 2^s <= v * 2^s) by (apply N.mul_le_mono_r; lia).
      rewrite shl64_small by lia. rewrite lor_add by assumption.
      assert (E7: 2^(s+7) = 2^s * 128) by (rewrite N.pow_add_r; reflexivity).
      set (P := 2^s) in *. set (q := v / 128) in *. set (m := v mod 128) in *.
      assert (Ev: v = 128 * q + m) by (unfold q, m; apply N.div_mod; lia).
      assert (Hm: m < 128) by (unfold m; apply N.mod_lt; lia).
      assert (HmP: m * P <= 127 * P) by (apply N.mul_le_mono_r; lia).
      assert (HqP: (q * 128) * P <= v * P) by (apply N.mul_le_mono_r; lia).
      assert (Eq1: q * (P * 128) = (q * 128) * P) by ring.
      rewrite IH.
      * f_equal. f_equal. rewrite E7. fold P. rewrite Eq1. replace (v * P) with ((128 * q + m) * P) by (f_equal; lia). ring.
      * lia.
      * lia.
      * rewrite E7. fold P. lia.
      * rewrite E7. fold P. rewrite Eq1. lia.
Qed.

Theorem read_put_uvarint v r : v < 2^64 -> read_uvarint (put_uvarint v ++ r) = (v, r, VOk).
Proof.
  intro H. unfold read_uvarint, put_uvarint.
  rewrite (read_put 9 0 0 0 v r).
  - change (2^0) with 1. f_equal. f_equal. lia.
  - reflexivity.
  - reflexivity.
  - change (2^0) with 1. lia.
  - change (2^0) with 1. lia.
Qed.

Lemma put_uvarint_bytes_f fuel v : Forall (fun b => b < 256) (put_uvarint_f fuel v).
Proof.
  revert v. induction fuel as [|f IH]; intro v; cbn [put_uvarint_f]; [constructor|].
  destruct (N.ltb_spec v 128).
  - constructor; [lia|constructor].
  - constructor; [|apply IH]. assert (v mod 128 < 128) by (apply N.mod_lt; lia). lia.
Qed.
