(* The discrete core of region extracts: interior fill along the Hilbert order, ancestor propagation. *)
From Coq Require Import NArith List Bool Lia.
Import ListNotations.
From PM Require Import Model.TileId Model.Hilbert Model.Region Proofs.HilTop.
Open Scope N_scope.

Lemma mem_in i s : mem i s = true <-> In i s.
Proof.
  unfold mem. rewrite existsb_exists. split.
  - intros [x [Hx E]]. apply N.eqb_eq in E. subst. exact Hx.
  - intro H. exists i. split; [exact H|apply N.eqb_refl].
Qed.

Section Fill.
Variable inside : N -> bool.      (* the centre of the tile with this ID lies in the region *)
Variable all : list N.            (* the boundary cover *)
(* two consecutive tile IDs that are both off the boundary are on the same side of it *)
Hypothesis H_sep : forall i, mem i all = false -> mem (i + 1) all = false -> inside i = inside (i + 1).

Lemma constant_on_gap b : forall n i, i = b + 1 + N.of_nat n ->
  (forall j, b < j -> j <= i -> mem j all = false) -> inside i = inside (b + 1).
Proof.
  induction n as [|n IH]; intros i Hi Hno.
  - f_equal. lia.
  - assert (Hp : inside (i - 1) = inside (b + 1)) by (apply IH; [lia|intros j H1 H2; apply Hno; lia]).
    rewrite <- Hp. replace i with ((i - 1) + 1) at 1 by lia. symmetry. apply H_sep; [apply Hno; lia|replace (i - 1 + 1) with i by lia; apply Hno; lia].
Qed.

Inductive consec (b b':N) : list N -> Prop :=
| consec_here r : consec b b' (b :: b' :: r)
| consec_later x r : consec b b' r -> consec b b' (x :: r).
Fixpoint asc (lo:N) (bs:list N) : Prop := match bs with [] => True | b :: r => lo <= b /\ asc (b + 1) r end.
Lemma asc_lower : forall bs lo x, asc lo bs -> In x bs -> lo <= x.
Proof. induction bs as [|b r IH]; intros lo x Ha Hin; [destruct Hin|]. cbn in Ha. destruct Ha as [H1 H2]. destruct Hin as [<-|Hin]; [exact H1|]. specialize (IH _ _ H2 Hin). lia. Qed.
Lemma consec_between : forall bs lo b b' j, asc lo bs -> consec b b' bs -> b < j -> j < b' -> ~ In j bs.
Proof.
  induction bs as [|x r IH]; intros lo b b' j Ha Hc H1 H2 Hin; [inversion Hc|].
  cbn [asc] in Ha. destruct Ha as [Hx Hr]. inversion Hc as [r'|x' r' Hc']; subst.
  - destruct Hin as [E|[E|Hin]]; [lia|lia|]. cbn [asc] in Hr. destruct Hr as [_ Hr']. pose proof (asc_lower _ _ _ Hr' Hin). lia.
  - destruct Hin as [E|Hin].
    + subst. assert (Hb : In b r) by (clear -Hc'; induction Hc'; [left; reflexivity|right; assumption]). pose proof (asc_lower _ _ _ Hr Hb). lia.
    + exact (IH _ _ _ _ Hr Hc' H1 H2 Hin).
Qed.
Lemma consec_find : forall bs lo i, asc lo bs -> ~ In i bs -> (exists x, In x bs /\ x < i) -> (exists y, In y bs /\ i < y) ->
  exists b b', consec b b' bs /\ b < i /\ i < b'.
Proof.
  induction bs as [|x r IH]; intros lo i Ha Hni [x0 [Hx0 Hlt]] [y0 [Hy0 Hgt]]; [destruct Hx0|].
  cbn [asc] in Ha. destruct Ha as [Hx Hr]. destruct r as [|x' r'].
  - destruct Hx0 as [<-|[]]. destruct Hy0 as [<-|[]]. lia.
  - destruct (N.lt_ge_cases i x') as [Hlt'|Hge].
    + (* the gap right here, if x < i *)
      destruct (N.lt_ge_cases x i) as [Hxi|Hxi].
      * exists x, x'. split; [constructor|lia].
      * exfalso. assert (x <> i) by (intro; subst; apply Hni; left; reflexivity).
        destruct Hx0 as [<-|Hx0]; [lia|]. pose proof (asc_lower _ _ _ Hr Hx0). lia.
    + assert (x' <> i) by (intro; subst; apply Hni; right; left; reflexivity).
      destruct (IH (x + 1) i Hr) as [b [b' [Hc Hb]]].
      * intro H'. apply Hni. right. exact H'.
      * exists x'. split; [left; reflexivity|lia].
      * pose proof (asc_lower _ _ _ Hr (or_introl eq_refl)) as Hxx. destruct Hy0 as [<-|Hy0]; [lia|]. exists y0. split; [exact Hy0|exact Hgt].
      * exists b, b'. split; [constructor; exact Hc|exact Hb].
Qed.
Lemma gaps_spec : forall bs i, in_ranges i (gaps inside all bs) = true <->
  exists b b', consec b b' bs /\ mem (b + 1) all = false /\ inside (b + 1) = true /\ b + 1 <= i /\ i < b'.
Proof.
  induction bs as [|b r IH]; intro i; [cbn; split; [discriminate|intros [b [b' [H _]]]; inversion H]|].
  destruct r as [|b' r'].
  - cbn. split; [discriminate|]. intros [c [c' [H _]]]. inversion H as [|? ? H']; inversion H'.
  - change (gaps inside all (b :: b' :: r')) with (if negb (mem (b + 1) all) && inside (b + 1) then (b + 1, b') :: gaps inside all (b' :: r') else gaps inside all (b' :: r')).
    destruct (negb (mem (b + 1) all) && inside (b + 1)) eqn:E.
    + apply andb_true_iff in E. destruct E as [E1 E2]. apply negb_true_iff in E1.
      unfold in_ranges in *. cbn [existsb fst snd]. rewrite orb_true_iff, IH. split.
      * intros [H|[c [c' [Hc H]]]].
        -- apply andb_true_iff in H. destruct H as [Ha Hb]. apply N.leb_le in Ha. apply N.ltb_lt in Hb. exists b, b'. repeat split; auto. constructor.
        -- exists c, c'. split; [constructor; exact Hc|exact H].
      * intros [c [c' [Hc H]]]. inversion Hc as [r0|x0 r0 Hc']; subst.
        -- left. destruct H as (_ & _ & Ha & Hb). apply andb_true_iff. split; [apply N.leb_le|apply N.ltb_lt]; assumption.
        -- right. exists c, c'. auto.
    + rewrite IH. split.
      * intros [c [c' [Hc H]]]. exists c, c'. split; [constructor; exact Hc|exact H].
      * intros [c [c' [Hc H]]]. inversion Hc as [r0|x0 r0 Hc']; subst.
        -- exfalso. destruct H as (H1 & H2 & _). rewrite H1, H2 in E. discriminate.
        -- exists c, c'. auto.
Qed.

(* between the first and the last boundary tile, a tile off the boundary is filled exactly when its centre is inside *)
Theorem fill_exact : forall lo i, asc lo all -> mem i all = false ->
  (exists x, In x all /\ x < i) -> (exists y, In y all /\ i < y) ->
  in_ranges i (interior_ranges inside all) = inside i.
Proof.
  intros lo i Ha Hi Hlo Hhi. unfold interior_ranges.
  assert (Hni : ~ In i all) by (intro H; apply mem_in in H; congruence).
  assert (Hgap : forall b b', consec b b' all -> b < i -> i < b' -> inside i = inside (b + 1) /\ mem (b + 1) all = false).
  { intros b b' Hc H1 H2.
    assert (Hno : forall j, b < j -> j < b' -> mem j all = false).
    { intros j J1 J2. destruct (mem j all) eqn:E; [|reflexivity]. apply mem_in in E. exfalso. exact (consec_between _ _ _ _ _ Ha Hc J1 J2 E). }
    split; [|apply Hno; lia]. apply (constant_on_gap b (N.to_nat (i - b - 1)) i); [lia|]. intros j J1 J2. apply Hno; lia. }
  destruct (inside i) eqn:Ei.
  - destruct (consec_find all lo i Ha Hni Hlo Hhi) as [b [b' [Hc [H1 H2]]]]. destruct (Hgap b b' Hc H1 H2) as [Hin Hm].
    apply gaps_spec. exists b, b'. split; [exact Hc|]. split; [exact Hm|]. split; [congruence|lia].
  - destruct (in_ranges i (gaps inside all all)) eqn:E; [|reflexivity]. apply gaps_spec in E.
    destruct E as [b [b' [Hc (Hm & Hin & H1 & H2)]]]. destruct (Hgap b b' Hc ltac:(lia) H2) as [Hi' _]. congruence.
Qed.
End Fill.

(* H_sep from the Hilbert curve: consecutive IDs of one zoom are edge-adjacent tiles (C01_adjacent), and the cover
   hypothesis says that two edge-adjacent tiles on different sides are not both off the boundary *)
Section Sep.
Variables (z:N) (inside_xy : N -> N -> bool) (all:list N).
Definition inside_id (i:N) : bool := let '(_, x, y) := id_to_zxy i in inside_xy x y.
Hypothesis Hz : z <= 31.
Hypothesis H_cover : forall i j, base z <= i -> i < base (z + 1) -> base z <= j -> j < base (z + 1) ->
  (let '(_, x1, y1) := id_to_zxy i in let '(_, x2, y2) := id_to_zxy j in manh (x1, y1) (x2, y2) = 1) ->
  inside_id i <> inside_id j -> mem i all = true \/ mem j all = true.
Theorem sep_from_cover : forall i, base z <= i -> i + 1 < base (z + 1) -> mem i all = false -> mem (i + 1) all = false ->
  inside_id i = inside_id (i + 1).
Proof.
  intros i H1 H2 M1 M2. destruct (bool_dec (inside_id i) (inside_id (i + 1))) as [E|E]; [exact E|exfalso].
  destruct (H_cover i (i + 1)) as [H|H]; try lia; try congruence. apply (C01_adjacent z i Hz H1 H2).
Qed.
End Sep.

(* ---- ancestor propagation *)
Lemma insert_id_in y : forall l x, In x (insert_id y l) <-> x = y \/ In x l.
Proof.
  induction l as [|a r IH]; intro x; cbn [insert_id]; [cbn; intuition|].
  destruct (y <? a); [cbn; intuition|]. destruct (N.eqb_spec y a) as [->|_]; [cbn; intuition|].
  cbn [In]. rewrite IH. intuition.
Qed.
Lemma fold_insert_in : forall l acc x, In x (fold_left (fun a y => insert_id y a) l acc) <-> In x acc \/ In x l.
Proof. induction l as [|y r IH]; intros acc x; cbn [fold_left]; [cbn; intuition|]. rewrite IH, insert_id_in. cbn [In]. intuition. Qed.
Lemma to_set_in l x : In x (to_set l) <-> In x l.
Proof. unfold to_set. rewrite fold_insert_in. cbn. intuition. Qed.
Fixpoint ancestor (k:nat) (d:N) : N := match k with O => d | S k' => parent_id (ancestor k' d) end.
Lemma ancestor_shift k d : ancestor k (parent_id d) = parent_id (ancestor k d).
Proof. induction k as [|k IH]; [reflexivity|]. cbn [ancestor]. rewrite IH. reflexivity. Qed.
Lemma levels_spec : forall n cur acc t, In t (levels n cur acc) <-> In t acc \/ exists k d, (1 <= k <= n)%nat /\ In d cur /\ t = ancestor k d.
Proof.
  induction n as [|n IH]; intros cur acc t; cbn [levels].
  - split; [auto|]. intros [H|[k [d [Hk _]]]]; [exact H|lia].
  - rewrite IH, fold_insert_in, to_set_in. split.
    + intros [[H|H]|[k [d [Hk [Hd ->]]]]].
      * left. exact H.
      * apply in_map_iff in H. destruct H as [d [<- Hd]]. right. exists 1%nat, d. split; [lia|]. split; [exact Hd|reflexivity].
      * rewrite to_set_in in Hd. apply in_map_iff in Hd. destruct Hd as [d0 [<- Hd0]]. right. exists (S k), d0. split; [lia|]. split; [exact Hd0|].
        cbn [ancestor]. rewrite ancestor_shift. reflexivity.
    + intros [H|[k [d [Hk [Hd ->]]]]]; [left; left; exact H|]. destruct k as [|k]; [lia|]. destruct k as [|k].
      * left. right. apply in_map_iff. exists d. split; [reflexivity|exact Hd].
      * right. exists (S k), (parent_id d). split; [lia|]. split; [rewrite to_set_in; apply in_map; exact Hd|].
        cbn [ancestor]. rewrite ancestor_shift. reflexivity.
Qed.
Definition depth (s:list N) (minz:N) : nat := match s with [] => O | x :: _ => N.to_nat (zoom_of (last s x) - minz) end.
Theorem generalize_or_spec s minz t : In t (generalize_or s minz) <-> exists k d, (k <= depth s minz)%nat /\ In d s /\ t = ancestor k d.
Proof.
  unfold generalize_or, depth. destruct s as [|x r]; [cbn; split; [intros []|intros [k [d [_ [[] _]]]]]|].
  rewrite levels_spec. split.
  - intros [H|[k [d [Hk [Hd ->]]]]].
    + exists 0%nat, t. split; [lia|]. split; [exact H|reflexivity].
    + exists k, d. split; [lia|]. split; [exact Hd|reflexivity].
  - intros [k [d [Hk [Hd ->]]]]. destruct k as [|k]; [left; exact Hd|]. right. exists (S k), d. split; [lia|]. split; [exact Hd|reflexivity].
Qed.
