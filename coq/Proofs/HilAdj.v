From Coq Require Import NArith ZArith List Lia ZifyN ZifyBool.
From PM Require Import Base.Wrap Model.Hilbert Model.TileId Proofs.Hil.
Ltac Zify.zify_post_hook ::= Z.div_mod_to_equations.
Open Scope N_scope.


Lemma absd_add a b c : absd (a + c) (b + c) = absd a b.
Proof. unfold absd. destruct (N.ltb_spec (a+c) (b+c)), (N.ltb_spec a b); lia. Qed.

Lemma rot_isometry s q a b c d : a < s -> b < s -> c < s -> d < s ->
  manh (rot s a b q) (rot s c d q) = manh (a,b) (c,d).
Proof.
  intros. unfold rot, manh, absd. destruct q as [|[[|[]|]|[]|]]; cbn [fst snd];
  repeat match goal with |- context [?x <? ?y] => destruct (N.ltb_spec x y) end; lia.
Qed.

Lemma hxy_0 k : hxy k 0 = (0,0).
Proof.
  induction k as [|k IH]; [reflexivity|]. cbn [hxy].
  pose proof (pow4_pos k). rewrite N.div_0_l, N.mod_0_l by lia. rewrite IH. reflexivity.
Qed.

Lemma hxy_last k : hxy k (4^(N.of_nat k) - 1) = (2^(N.of_nat k) - 1, 0).
Proof.
  induction k as [|k IH]; [reflexivity|]. cbn [hxy]. rewrite pow4, pow2.
  pose proof (pow4_pos k) as H4. pose proof (pow2_pos k) as H2.
  set (f := 4^(N.of_nat k)) in *. set (s := 2^(N.of_nat k)) in *. clearbody f s.
  assert (D: (4*f - 1) / f = 3) by (symmetry; apply (N.div_unique _ _ 3 (f-1)); lia).
  assert (M: (4*f - 1) mod f = f - 1) by (symmetry; apply (N.mod_unique _ _ 3 (f-1)); lia).
  rewrite D, M, IH. cbn [rot qy]. change (qx 3) with 1. f_equal; lia.
Qed.

Theorem hxy_adjacent k : forall d, d + 1 < 4^(N.of_nat k) -> manh (hxy k d) (hxy k (d+1)) = 1.
Proof.
  induction k as [|k IH]; intros d Hd; [cbn in Hd; lia|].
  rewrite pow4 in Hd. cbn [hxy].
  pose proof (pow4_pos k) as H4. pose proof (pow2_pos k) as H2.
  pose proof (hxy_last k) as HL. pose proof (hxy_0 k) as H0.
  pose proof (fun d => hxy_bound k d) as HB.
  set (f := 4^(N.of_nat k)) in *. set (s := 2^(N.of_nat k)) in *. clearbody f s.
  assert (Hq: d / f < 4) by (apply N.div_lt_upper_bound; lia).
  assert (Hr: d mod f < f) by (apply N.mod_lt; lia).
  pose proof (N.div_mod d f ltac:(lia)) as Ed.
  destruct (N.lt_ge_cases (d mod f + 1) f) as [Hin|Hout].
  - (* same quadrant *)
    assert (D: (d+1) / f = d / f) by (symmetry; apply (N.div_unique _ _ _ (d mod f + 1)); lia).
    assert (M: (d+1) mod f = d mod f + 1) by (symmetry; apply (N.mod_unique _ _ (d/f) _); lia).
    rewrite D, M.
    pose proof (IH (d mod f) Hin) as A.
    pose proof (HB (d mod f) Hr) as B1. pose proof (HB (d mod f + 1) Hin) as B2.
    destruct (hxy k (d mod f)) as [a b], (hxy k (d mod f + 1)) as [c e]. cbn [fst snd] in *.
    pose proof (rot_isometry s (d/f) a b c e ltac:(lia) ltac:(lia) ltac:(lia) ltac:(lia)) as RI.
    destruct (rot s a b (d/f)) as [a' b'], (rot s c e (d/f)) as [c' e'].
    unfold manh in *. cbn [fst snd] in *. rewrite !absd_add. lia.
  - (* seam between quadrants *)
    assert (Er: d mod f = f - 1) by lia.
    assert (Hq3: d / f < 3) by nia.
    assert (D: (d+1) / f = d / f + 1) by (symmetry; apply (N.div_unique _ _ _ 0); lia).
    assert (M: (d+1) mod f = 0) by (symmetry; apply (N.mod_unique _ _ (d/f + 1) _); lia).
    rewrite D, M, Er. rewrite HL, H0.
    assert (d / f = 0 \/ d / f = 1 \/ d / f = 2) as [E|[E|E]] by lia; rewrite E;
      change (0+1) with 1; change (1+1) with 2; change (2+1) with 3; cbn [rot qy];
      change (qx 0) with 0; change (qx 1) with 0; change (qx 2) with 1; change (qx 3) with 1;
      unfold manh, absd; cbn [fst snd];
      repeat match goal with |- context [?x <? ?y] => destruct (N.ltb_spec x y) end; lia.
Qed.

(* parent *)
Lemma rot_half s2 a b q : a < 2*s2 -> b < 2*s2 ->
  let '(a',b') := rot (2*s2) a b q in rot s2 (a/2) (b/2) q = (a'/2, b'/2).
Proof.
  intros. unfold rot. destruct q as [|[[|[]|]|[]|]]; try reflexivity. f_equal; lia.
Qed.

Lemma half_mod x s2 : 0 < s2 -> (x/2) mod s2 = (x mod (2*s2)) / 2.
Proof.
  intro H. pose proof (N.div_mod x (2*s2) ltac:(lia)) as E.
  pose proof (N.mod_lt x (2*s2) ltac:(lia)) as L.
  set (Q := x / (2*s2)) in *. set (R := x mod (2*s2)) in *.
  assert (Ex: x / 2 = s2 * Q + R / 2).
  { rewrite E at 1. replace (2 * s2 * Q + R) with ((s2 * Q) * 2 + R) by lia. rewrite N.div_add_l by lia. reflexivity. }
  rewrite Ex. symmetry. apply (N.mod_unique _ _ Q); [|reflexivity].
  apply N.div_lt_upper_bound; lia.
Qed.

Lemma parent_step (s2 f : N) (h1 h0 : N -> N -> N) x y :
  0 < s2 ->
  (forall a b, a < 2*s2 -> b < 2*s2 -> h1 a b / 4 = h0 (a/2) (b/2)) ->
  (let q := quad (x/(2*s2)) (y/(2*s2)) in
   let '(x',y') := rot (2*s2) (x mod (2*s2)) (y mod (2*s2)) q in q*(4*f) + h1 x' y') / 4
  = (let q := quad ((x/2)/s2) ((y/2)/s2) in
     let '(a,b) := rot s2 ((x/2) mod s2) ((y/2) mod s2) q in q*f + h0 a b).
Proof.
  intros H2 IH. cbv zeta.
  set (q := quad (x / (2*s2)) (y / (2*s2))).
  assert (Mx: x mod (2*s2) < 2*s2) by (apply N.mod_lt; lia).
  assert (My: y mod (2*s2) < 2*s2) by (apply N.mod_lt; lia).
  pose proof (rot_half s2 _ _ q Mx My) as RH.
  pose proof (rot_bound (2*s2) _ _ q Mx My) as RB.
  destruct (rot (2*s2) (x mod (2*s2)) (y mod (2*s2)) q) as [x' y'] eqn:E. cbn [fst snd] in RB.
  destruct RB as [RB1 RB2].
  replace (q * (4 * f) + h1 x' y') with (h1 x' y' + (q * f) * 4) by lia.
  rewrite N.div_add by lia. rewrite (IH x' y' RB1 RB2).
  assert (E1: x / 2 / s2 = x / (2*s2)) by (rewrite N.div_div by lia; reflexivity).
  assert (E2: y / 2 / s2 = y / (2*s2)) by (rewrite N.div_div by lia; reflexivity).
  assert (E3: (x/2) mod s2 = (x mod (2*s2)) / 2) by (apply half_mod; lia).
  assert (E4: (y/2) mod s2 = (y mod (2*s2)) / 2) by (apply half_mod; lia).
  rewrite E1, E2, E3, E4. fold q. rewrite RH. lia.
Qed.

Lemma hidx_S k x y : hidx (S k) x y =
  (let q := quad (x / 2^(N.of_nat k)) (y / 2^(N.of_nat k)) in
   let '(x',y') := rot (2^(N.of_nat k)) (x mod 2^(N.of_nat k)) (y mod 2^(N.of_nat k)) q in
   q * 4^(N.of_nat k) + hidx k x' y').
Proof. reflexivity. Qed.

Theorem hidx_parent k : forall x y, x < 2^(N.of_nat (S k)) -> y < 2^(N.of_nat (S k)) ->
  hidx (S k) x y / 4 = hidx k (x/2) (y/2).
Proof.
  induction k as [|k IH]; intros x y Hx Hy.
  - cbn [hidx N.of_nat]. change (2^0) with 1. change (4^0) with 1. change (2 ^ N.of_nat 1) with 2 in *.
    assert (Q: quad (x/1) (y/1) < 4) by (rewrite !N.div_1_r; destruct x as [|[]], y as [|[]]; cbn; lia).
    destruct (rot 1 _ _ _). apply N.div_small. lia.
  - rewrite (hidx_S (S k)), (hidx_S k). rewrite (pow2 k), (pow4 k).
    apply parent_step; [apply pow2_pos|].
    intros a b Ha Hb. apply IH; rewrite (pow2 k); assumption.
Qed.
