From Coq Require Import NArith ZArith List Lia ZifyN ZifyBool.
From PM Require Import Base.Wrap Model.Hilbert Model.TileId Proofs.Hil Proofs.HilRef Proofs.HilId Proofs.HilAdj.
Ltac Zify.zify_post_hook ::= Z.div_mod_to_equations.
Open Scope N_scope.

Lemma pow4_mod3 z : 4^z mod 3 = 1.
Proof.
  induction z using N.peano_ind; [reflexivity|].
  rewrite N.pow_succ_r'. rewrite N.mul_mod by lia. rewrite IHz. reflexivity.
Qed.
Lemma base_spec z : 4^z = 3 * base z + 1.
Proof.
  unfold base. pose proof (pow4_mod3 z). assert (0 < 4^z) by (apply N.neq_0_lt_0, N.pow_nonzero; lia).
  pose proof (N.div_mod (4^z) 3 ltac:(lia)). lia.
Qed.
Lemma base_succ z : base (z+1) = base z + 4^z.
Proof. pose proof (base_spec z). pose proof (base_spec (z+1)). rewrite N.pow_add_r in *. change (4^1) with 4 in *. lia. Qed.

Lemma pow4_le64 z : z <= 31 -> 4 * 4^z <= 2^64.
Proof.
  intro H. replace (4 * 4^z) with (4^(z+1)) by (rewrite N.pow_add_r; change (4^1) with 4; lia).
  change (2^64) with (4^32). apply N.pow_le_mono_r; lia.
Qed.

Lemma acc_of_base z : z <= 31 -> acc_of z = base z.
Proof.
  intro Hz. unfold acc_of, base, w8, shl64.
  rewrite (N.mod_small (z*2)) by lia.
  assert (z*2 <? 64 = true) as -> by (apply N.ltb_lt; lia).
  rewrite N.shiftl_mul_pow2, N.mul_1_l.
  assert (E: 2^(z*2) = 4^z) by (rewrite N.mul_comm, N.pow_mul_r; reflexivity). rewrite E.
  pose proof (pow4_le64 z Hz). assert (0 < 4^z) by (apply N.neq_0_lt_0, N.pow_nonzero; lia).
  unfold w64. change (2^64) with 18446744073709551616 in *.
  rewrite (N.mod_small (4^z)) by lia.
  replace (4^z + 18446744073709551616 - 1) with ((4^z - 1) + 1 * 18446744073709551616) by lia.
  rewrite N.mod_add by lia. rewrite N.mod_small by lia. reflexivity.
Qed.

Theorem zxy_to_id_spec z x y : z <= 31 -> x < 2^z -> y < 2^z ->
  zxy_to_id z x y = base z + hidx (N.to_nat z) x y.
Proof.
  intros Hz Hx Hy. unfold zxy_to_id. rewrite acc_of_base by assumption.
  destruct (N.eq_dec z 0) as [->|Hnz].
  - cbn. reflexivity.
  - assert (En: w32 (w8 (z + 255)) = z - 1).
    { unfold w8, w32. replace (z + 255) with ((z - 1) + 1 * 256) by lia. rewrite N.mod_add by lia.
      rewrite (N.mod_small (z-1) 256) by lia. apply N.mod_small. change (2^32) with 4294967296; lia. }
    rewrite En.
    assert (Es: shl32 1 (z-1) = 2^(z-1)).
    { unfold shl32. assert (z - 1 <? 32 = true) as -> by (apply N.ltb_lt; lia).
      rewrite N.shiftl_mul_pow2, N.mul_1_l. apply N.mod_small.
      apply N.pow_lt_mono_r; lia. }
    rewrite Es.
    set (k := N.to_nat (z - 1)).
    assert (Ek: z - 1 = N.of_nat k) by (unfold k; lia).
    assert (Ez: N.to_nat z = S k) by (unfold k; lia).
    rewrite Ek, Ez.
    assert (Ez2: z = N.of_nat (S k)) by lia.
    rewrite zxy_loop_spec; try (unfold k; lia).
    + rewrite <- Ez2. rewrite !N.mod_small by assumption. reflexivity.
    + change (2^32) with 4294967296. assert (2^z <= 2^31) by (apply N.pow_le_mono_r; lia). change (2^31) with 2147483648 in *. lia.
    + change (2^32) with 4294967296. assert (2^z <= 2^31) by (apply N.pow_le_mono_r; lia). change (2^31) with 2147483648 in *. lia.
    + rewrite <- Ez2. pose proof (base_spec z). pose proof (pow4_le64 z Hz). lia.
Qed.

(* zoom recovery *)
Lemma zoom_of_spec i z : z <= 31 -> base z <= i -> i < base (z+1) -> zoom_of i = z.
Proof.
  intros Hz Hlo Hhi. unfold zoom_of.
  pose proof (base_spec z) as B1. pose proof (base_spec (z+1)) as B2.
  pose proof (pow4_le64 z Hz) as P.
  rewrite N.pow_add_r in B2. change (4^1) with 4 in B2.
  assert (Hn: 4^z <= 3*i+1 < 4 * 4^z) by lia.
  unfold w64. rewrite (N.mod_small (3*i+1)) by lia.
  set (n := 3*i+1) in *.
  assert (0 < 4^z) by (apply N.neq_0_lt_0, N.pow_nonzero; lia).
  unfold len64. destruct n as [|p] eqn:En; [lia|]. rewrite <- En in *.
  assert (L: N.log2 n / 2 = z).
  { assert (E4: 4^z = 2^(2*z)) by (rewrite N.pow_mul_r; reflexivity).
    assert (E4': 4 * 4^z = 2^(2*z+2)) by (rewrite N.pow_add_r, <- E4; change (2^2) with 4; lia).
    assert (L1: 2*z <= N.log2 n) by (apply N.log2_le_pow2; lia).
    assert (L2: N.log2 n < 2*z+2) by (apply N.log2_lt_pow2; lia).
    lia. }
  assert (N.log2 n < 64) by lia.
  unfold w8. replace (N.log2 n + 1 + 255) with (N.log2 n + 1 * 256) by lia.
  rewrite N.mod_add by lia. rewrite N.mod_small by lia. exact L.
Qed.

Theorem id_to_zxy_spec i z : z <= 31 -> base z <= i -> i < base (z+1) ->
  id_to_zxy i = (z, fst (hxy (N.to_nat z) (i - base z)), snd (hxy (N.to_nat z) (i - base z))).
Proof.
  intros Hz Hlo Hhi. unfold id_to_zxy. rewrite (zoom_of_spec i z) by assumption.
  rewrite acc_of_base by assumption.
  pose proof (base_succ z) as BS. pose proof (pow4_le64 z Hz) as P. pose proof (base_spec z) as B1.
  assert (Et: w64 (i + 2^64 - base z) = i - base z).
  { unfold w64. change (2^64) with 18446744073709551616 in *.
    replace (i + 18446744073709551616 - base z) with ((i - base z) + 1 * 18446744073709551616) by lia.
    rewrite N.mod_add by lia. apply N.mod_small. lia. }
  rewrite Et.
  set (zn := N.to_nat z). assert (Ez: z = N.of_nat zn) by (unfold zn; lia).
  pose proof (id_loop_spec zn 0 zn (i - base z) 130 0 0) as L.
  change (N.of_nat 0) with 0 in L. change (4^0) with 1 in L. rewrite N.div_1_r in L.
  rewrite Ez at 1. rewrite L; try lia.
  - destruct (hxy zn (i - base z)); reflexivity.
  - rewrite <- Ez. lia.
  - reflexivity.
Qed.

(* ---------- C01 statements *)
Theorem C01_zxy_id_roundtrip z x y : z <= 31 -> x < 2^z -> y < 2^z -> id_to_zxy (zxy_to_id z x y) = (z,x,y).
Proof.
  intros Hz Hx Hy. rewrite zxy_to_id_spec by assumption.
  set (zn := N.to_nat z). assert (Ez: z = N.of_nat zn) by (unfold zn; lia).
  assert (HB: hidx zn x y < 4^z) by (rewrite Ez; apply hidx_bound; rewrite <- Ez; assumption).
  rewrite (id_to_zxy_spec _ z); try assumption; try lia.
  - replace (base z + hidx zn x y - base z) with (hidx zn x y) by lia.
    fold zn. rewrite hxy_hidx by (rewrite <- Ez; assumption). reflexivity.
  - rewrite base_succ. lia.
Qed.

Theorem C01_block z x y : z <= 31 -> x < 2^z -> y < 2^z -> base z <= zxy_to_id z x y < base (z+1).
Proof.
  intros Hz Hx Hy. rewrite zxy_to_id_spec by assumption.
  set (zn := N.to_nat z). assert (Ez: z = N.of_nat zn) by (unfold zn; lia).
  assert (HB: hidx zn x y < 4^z) by (rewrite Ez; apply hidx_bound; rewrite <- Ez; assumption).
  rewrite base_succ. lia.
Qed.

Lemma zoom_exists i : i < base 32 -> exists z, z <= 31 /\ base z <= i /\ i < base (z+1).
Proof.
  intro H. 
  assert (forall n:nat, i < base (N.of_nat n) -> exists z, z < N.of_nat n /\ base z <= i /\ i < base (z+1)) as G.
  { induction n as [|n IH]; intro Hi.
    - cbn in Hi. lia.
    - destruct (N.lt_ge_cases i (base (N.of_nat n))) as [Hlt|Hge].
      + destruct (IH Hlt) as [z [Hz Hb]]. exists z. split; [lia|exact Hb].
      + exists (N.of_nat n). split; [lia|]. split; [exact Hge|]. replace (N.of_nat n + 1) with (N.of_nat (S n)) by lia. exact Hi. }
  destruct (G 32%nat H) as [z [Hz Hb]]. exists z. split; [lia|exact Hb].
Qed.

Theorem C01_id_zxy_roundtrip i : i < base 32 ->
  let '(z,x,y) := id_to_zxy i in z <= 31 /\ x < 2^z /\ y < 2^z /\ zxy_to_id z x y = i.
Proof.
  intro Hi. destruct (zoom_exists i Hi) as [z [Hz [Hlo Hhi]]].
  rewrite (id_to_zxy_spec i z) by assumption.
  set (zn := N.to_nat z). assert (Ez: z = N.of_nat zn) by (unfold zn; lia).
  assert (Ht: i - base z < 4^z) by (rewrite base_succ in Hhi; lia).
  pose proof (hxy_bound zn (i - base z)) as HB. rewrite <- Ez in HB. specialize (HB Ht).
  pose proof (hidx_hxy zn (i - base z)) as HI. rewrite <- Ez in HI. specialize (HI Ht).
  destruct (hxy zn (i - base z)) as [x y]. cbn [fst snd] in *.
  destruct HB as [HB1 HB2]. split; [exact Hz|]. split; [exact HB1|]. split; [exact HB2|].
  rewrite zxy_to_id_spec by assumption. fold zn. rewrite HI. lia.
Qed.

Theorem C01_start z : z <= 31 -> zxy_to_id z 0 0 = base z.
Proof.
  intro Hz. assert (0 < 2^z) by (apply N.neq_0_lt_0, N.pow_nonzero; lia).
  rewrite zxy_to_id_spec by assumption.
  pose proof (hxy_0 (N.to_nat z)) as H0. pose proof (hidx_hxy (N.to_nat z) 0 (pow4_pos _)) as HH.
  rewrite H0 in HH. lia.
Qed.

Theorem C01_adjacent z i : z <= 31 -> base z <= i -> i + 1 < base (z+1) ->
  let '(_,x1,y1) := id_to_zxy i in let '(_,x2,y2) := id_to_zxy (i+1) in manh (x1,y1) (x2,y2) = 1.
Proof.
  intros Hz Hlo Hhi.
  rewrite (id_to_zxy_spec i z) by (try assumption; lia).
  rewrite (id_to_zxy_spec (i+1) z) by (try assumption; lia).
  set (zn := N.to_nat z). assert (Ez: z = N.of_nat zn) by (unfold zn; lia).
  replace (i + 1 - base z) with (i - base z + 1) by lia.
  pose proof (hxy_adjacent zn (i - base z)) as A. rewrite <- Ez in A.
  rewrite base_succ in Hhi. specialize (A ltac:(lia)).
  destruct (hxy zn (i - base z)), (hxy zn (i - base z + 1)). exact A.
Qed.

Theorem C01_parent z x y : 1 <= z -> z <= 31 -> x < 2^z -> y < 2^z ->
  parent_id (zxy_to_id z x y) = zxy_to_id (z-1) (x/2) (y/2).
Proof.
  intros Hz1 Hz Hx Hy.
  pose proof (C01_block z x y Hz Hx Hy) as [Blo Bhi].
  unfold parent_id. rewrite (zoom_of_spec _ z) by assumption.
  rewrite (acc_of_base z) by assumption.
  assert (Ew: w8 (z + 255) = z - 1).
  { unfold w8. replace (z + 255) with ((z-1) + 1 * 256) by lia. rewrite N.mod_add by lia. apply N.mod_small; lia. }
  rewrite Ew, (acc_of_base (z-1)) by lia.
  assert (Hx2: x / 2 < 2^(z-1)).
  { apply N.div_lt_upper_bound; [lia|]. replace z with (N.succ (z-1)) in Hx by lia. rewrite N.pow_succ_r' in Hx. exact Hx. }
  assert (Hy2: y / 2 < 2^(z-1)).
  { apply N.div_lt_upper_bound; [lia|]. replace z with (N.succ (z-1)) in Hy by lia. rewrite N.pow_succ_r' in Hy. exact Hy. }
  rewrite (zxy_to_id_spec (z-1)) by (try assumption; lia).
  rewrite zxy_to_id_spec in * by assumption.
  set (k := N.to_nat (z-1)). assert (Ek: N.to_nat z = S k) by (unfold k; lia).
  rewrite Ek in *.
  assert (Ez: z = N.of_nat (S k)) by lia.
  pose proof (hidx_parent k x y) as HP. rewrite <- Ez in HP. specialize (HP Hx Hy).
  pose proof (pow4_le64 z Hz) as P. pose proof (base_spec z) as B1. rewrite base_succ in Bhi.
  assert (Et: w64 (base z + hidx (S k) x y + 2^64 - base z) = hidx (S k) x y).
  { unfold w64. change (2^64) with 18446744073709551616 in *.
    replace (base z + hidx (S k) x y + 18446744073709551616 - base z) with (hidx (S k) x y + 1 * 18446744073709551616) by lia.
    rewrite N.mod_add by lia. apply N.mod_small. lia. }
  rewrite Et, HP.
  assert (HB: hidx k (x/2) (y/2) < 4^(z-1)).
  { replace (z-1) with (N.of_nat k) by lia. apply hidx_bound; replace (N.of_nat k) with (z-1) by lia; assumption. }
  pose proof (pow4_le64 (z-1) ltac:(lia)) as P2. pose proof (base_spec (z-1)) as B2.
  unfold w64. change (2^64) with 18446744073709551616 in *. apply N.mod_small. lia.
Qed.

