(* No request waits on nothing: in every reachable state the loop message a handler is waiting for is queued for the loop, or the handler
   is registered among the waiters of a key in flight. *)
From Coq Require Import NArith List Lia Bool Arith.
Import ListNotations.
From PM Require Import Model.Server Proofs.ServerCoalesce.
Open Scope N_scope.

Section Pr.
Context `{V:Version}.

Definition reg (s:sys) (rid m:nat) : Prop :=
  (exists k p, In (m, rid, k, p) (reqq s)) \/ (exists k ws, In (k, ws) (inflight s) /\ In (m, rid) ws).
(* [rem]: waiters of a response being handled that have not been delivered to yet *)
Record PrR (s:sys) (rem:list (nat * nat)) : Prop := {
  P1 : NoDup (map fst (handlers s));
  P2 : NoDup (ikeys s);
  P3 : forall rid h m, In (rid, h) (handlers s) -> waiting h = Some m -> reg s rid m \/ In (m, rid) rem
}.

Lemma get_of_in rid h : forall hs, NoDup (map fst hs) -> In (rid, h) hs -> get_handler rid hs = Some h.
Proof.
  induction hs as [|[r x] t IH]; intros Hn Hin; [destruct Hin|]. cbn in Hn. inversion Hn as [|? ? Hni Hn']; subst. cbn [get_handler].
  destruct Hin as [E|Hin].
  - inversion E; subst. rewrite Nat.eqb_refl. reflexivity.
  - destruct (Nat.eqb_spec r rid) as [->|_]; [exfalso; apply Hni; apply (in_map fst) in Hin; exact Hin|apply IH; assumption].
Qed.
Lemma set_handler_nodup rid h hs : NoDup (map fst hs) -> NoDup (map fst (set_handler rid h hs)).
Proof.
  intro Hn. unfold set_handler.
  assert (Hf : NoDup (map fst (filter (fun p => negb (Nat.eqb (fst p) rid)) hs)) /\ ~ In rid (map fst (filter (fun p => negb (Nat.eqb (fst p) rid)) hs))).
  { clear h. induction hs as [|[r x] t IH]; [split; [constructor|intros []]|]. cbn in Hn. inversion Hn as [|? ? Hni Hn']; subst. destruct (IH Hn') as [A B].
    cbn [filter fst]. destruct (Nat.eqb_spec r rid) as [->|Hne]; cbn [negb]; [split; assumption|]. cbn [map fst]. split.
    - constructor; [|exact A]. intro Hin. apply Hni. apply in_map_iff in Hin. destruct Hin as [[r' x'] [<- Hf]]. apply filter_In in Hf. destruct Hf as [Hf _]. apply (in_map fst) in Hf. exact Hf.
    - intros [E|Hin]; [congruence|exact (B Hin)]. }
  destruct Hf as [A B]. destruct h as [x|]; [cbn [map fst]; constructor; assumption|exact A].
Qed.
Lemma set_handler_in_strong rid h hs rid' h' : In (rid', h') (set_handler rid h hs) -> (h = Some h' /\ rid' = rid) \/ (rid' <> rid /\ In (rid', h') hs).
Proof.
  unfold set_handler. intro H.
  assert (G : In (rid', h') (filter (fun p => negb (Nat.eqb (fst p) rid)) hs) -> rid' <> rid /\ In (rid', h') hs).
  { intro Hf. apply filter_In in Hf. destruct Hf as [Hi Hb]. cbn in Hb. apply negb_true_iff in Hb. apply Nat.eqb_neq in Hb. auto. }
  destruct h as [x|]; [destruct H as [E|H]; [inversion E; left; auto|right; exact (G H)]|right; exact (G H)].
Qed.
Lemma set_handler_other rid h hs rid' h' : rid' <> rid -> In (rid', h') (set_handler rid h hs) -> In (rid', h') hs.
Proof. intros Hne Hin. apply set_handler_in in Hin. destruct Hin as [[_ E]|Hin]; [contradiction|exact Hin]. Qed.

(* a handler output that waits for a loop message carries the request with that message's id *)
Definition shape (m:nat) (o:hout) : Prop :=
  match o with HO h rq _ => forall x w, h = Some x -> waiting x = Some w -> w = m /\ exists k p, rq = Some (k, p) end.
Lemma retry_shape m q a hv : shape m (retry m q a hv).
Proof. unfold retry. destruct a; cbn; intros x w E; inversion E; subst; cbn; intro Hw; inversion Hw; eauto. Qed.
Lemma deliver_shape m h cv : shape m (deliver m h cv).
Proof.
  destruct h as [w0 q a|w0 q a hv o l d|q a hv o l]; cbn [deliver].
  - destruct (negb (cv_ok cv)); [cbn; intros x w E; discriminate|]. destruct (cv_pay cv) as [[hv|v o l]|]; try (cbn; intros x w E; discriminate).
    destruct (negb (t_kind q =? 0)); [cbn; intros x w E; inversion E; subst; cbn; discriminate|].
    destruct (negb (zoom_ok hv (t_z q))); [cbn; intros x w E; discriminate|]. destruct (negb (ext_ok hv (t_ext q))); [cbn; intros x w E; discriminate|].
    cbn. intros x w E; inversion E; subst; cbn. intro Hw; inversion Hw. eauto.
  - destruct (cv_bad cv); [apply retry_shape|]. destruct (negb (cv_ok cv)); [cbn; intros x w E; discriminate|].
    destruct (cv_pay cv) as [[v|v' o' l']|]; try (cbn; intros x w E; discriminate).
    destruct (dir_lookup v' o' l' (t_id q)) as [|to tl|lo ll]; try (cbn; intros x w E; discriminate).
    + cbn. intros x w E; inversion E; subst; cbn. discriminate.
    + destruct (Nat.leb 3 d); [cbn; intros x w E; discriminate|]. cbn. intros x w E; inversion E; subst; cbn. intro Hw; inversion Hw. eauto.
  - cbn. intros x w E; inversion E; subst; cbn. discriminate.
Qed.

Lemma reg_mono_req s s' rid m : inflight s' = inflight s -> (forall x, In x (reqq s) -> In x (reqq s')) -> reg s rid m -> reg s' rid m.
Proof. intros Hi Hq [[k [p H]]|[k [ws [H1 H2]]]]; [left; exists k, p; auto|right; exists k, ws; rewrite Hi; auto]. Qed.

Lemma apply_out_prR s rid o rem : PrR s rem -> shape (next s) o -> ~ (exists m, In (m, rid) rem) -> PrR (apply_out s rid o) rem.
Proof.
  intros [p1 p2 p3] Ho Hrem. destruct o as [h rq dn]. constructor; cbn [apply_out handlers inflight reqq].
  - apply set_handler_nodup. exact p1.
  - exact p2.
  - intros rid' h' m Hin Hw. destruct (Nat.eq_dec rid' rid) as [->|Hne].
    + apply set_handler_in_strong in Hin. destruct Hin as [[E _]|[Hne _]]; [|congruence].
      destruct (Ho h' m E Hw) as [-> [k [p ->]]]. left. left. exists k, p. cbn [reqq]. apply in_or_app. right. left. reflexivity.
    + apply (set_handler_other rid h _ rid' h' Hne) in Hin. destruct (p3 rid' h' m Hin Hw) as [Hr|Hr]; [left|right; exact Hr].
      eapply reg_mono_req; [| |exact Hr]; cbn; [reflexivity|]. intros x Hx. destruct rq as [[k p]|]; [apply in_or_app; left; exact Hx|exact Hx].
Qed.

Lemma deliver_to_prR s m rid cv rem : PrR s ((m, rid) :: rem) -> PrR (deliver_to s (m, rid) cv) rem.
Proof.
  intros Hs. unfold deliver_to. cbn [fst snd].
  assert (Hdrop : (forall h, get_handler rid (handlers s) = Some h -> waiting h <> Some m) -> PrR s rem).
  { intro Hno. destruct Hs as [p1 p2 p3]. constructor; auto. intros rid' h' m' Hin Hw. destruct (p3 rid' h' m' Hin Hw) as [Hr|[E|Hr]]; auto.
    inversion E; subst. exfalso. apply (Hno h'); [apply get_of_in; assumption|exact Hw]. }
  destruct (get_handler rid (handlers s)) as [h|] eqn:Eh; [|apply Hdrop; intros h E; discriminate].
  destruct (waiting h) as [w|] eqn:Ew; [|apply Hdrop; intros h' E; inversion E; subst; congruence].
  destruct (Nat.eqb_spec w m) as [->|Hne]; [|apply Hdrop; intros h' E; inversion E; subst; congruence].
  (* the handler is advanced: its obligation is replaced; nobody else can point at (m, rid) *)
  assert (Hs' : PrR s rem \/ True) by (right; exact I). clear Hs'.
  destruct Hs as [p1 p2 p3]. destruct (deliver (next s) h cv) as [h2 rq dn] eqn:Ed.
  pose proof (deliver_shape (next s) h cv) as Hsh. rewrite Ed in Hsh.
  constructor; cbn [apply_out handlers inflight reqq].
  - apply set_handler_nodup. exact p1.
  - exact p2.
  - intros rid' h' m' Hin Hw. apply set_handler_in_strong in Hin. destruct Hin as [[E ->]|[Hne Hin]].
    + destruct (Hsh h' m' E Hw) as [-> [k [p ->]]]. left. left. exists k, p. cbn [reqq]. apply in_or_app. right. left. reflexivity.
    + destruct (p3 rid' h' m' Hin Hw) as [Hr|[E|Hr]]; [left|inversion E; congruence|right; exact Hr].
      eapply reg_mono_req; [| |exact Hr]; cbn; [reflexivity|]. intros x Hx. destruct rq as [[k p]|]; [apply in_or_app; left; exact Hx|exact Hx].
Qed.
Lemma fold_deliver_prR cv : forall ws s, PrR s ws -> PrR (fold_left (fun st mr => deliver_to st mr cv) ws s) [].
Proof. induction ws as [|[m rid] r IH]; intros s Hs; cbn [fold_left]; [exact Hs|]. apply IH. apply deliver_to_prR. exact Hs. Qed.

Lemma PrR_init : PrR init [].
Proof. constructor; cbn; [constructor|constructor|intros ? ? ? []]. Qed.

Lemma remove_key_nodup {A} k (m:list (key * A)) : NoDup (map fst m) -> NoDup (map fst (remove_key k m)).
Proof.
  intro Hn. unfold remove_key. induction m as [|[k' a] r IH]; [constructor|]. cbn in Hn. inversion Hn as [|? ? Hni Hn']; subst. cbn [filter fst].
  destruct (negb (key_eqb k k')); [|apply IH; exact Hn']. cbn [map fst]. constructor; [|apply IH; exact Hn'].
  intro Hin. apply Hni. apply in_map_iff in Hin. destruct Hin as [[k2 a2] [<- Hf]]. apply filter_In in Hf. destruct Hf as [Hf _]. apply (in_map fst) in Hf. exact Hf.
Qed.

Theorem step_pr s s' : PrR s [] -> step s s' -> PrR s' [].
Proof.
  intros Hs Hst. destruct Hst as [s rid q Hn|s pre m rid k p post Hq|s pre k post Hf|s pre k cv post Hr|s k|s rid q a hv o l Hh|s pre k post bad Hf|s rid q a hv o l kind Hh|s n v Hv Hfresh|s n].
  - (* start: the new handler's header request is queued *)
    destruct Hs as [p1 p2 p3]. constructor; cbn [handlers inflight reqq ikeys].
    + apply set_handler_nodup. exact p1.
    + exact p2.
    + intros rid' h' m' Hin Hw. apply set_handler_in_strong in Hin. destruct Hin as [[E ->]|[Hne Hin]].
      * inversion E; subst h'. cbn in Hw. inversion Hw; subst m'. left. left. exists (hdrkey (t_name q)), 0. cbn [reqq]. apply in_or_app. right. left. reflexivity.
      * destruct (p3 rid' h' m' Hin Hw) as [Hr|[]]. left. eapply reg_mono_req; [| |exact Hr]; cbn; [reflexivity|]. intros x Hx. apply in_or_app. left. exact Hx.
  - (* the loop takes a request: delivered, or registered among the waiters of its key *)
    assert (Hbase : forall i f, NoDup (map fst i) ->
               (forall k0 ws0, In (k0, ws0) (inflight s) -> exists ws1, In (k0, ws1) i /\ (forall x, In x ws0 -> In x ws1)) ->
               PrR (upd s c1 i (pre ++ post) (respq s) f) [(m, rid)] /\
               ((exists ws1, In (k, ws1) i /\ In (m, rid) ws1) -> PrR (upd s c1 i (pre ++ post) (respq s) f) [])).
    { intros i f Hni Hi. destruct Hs as [p1 p2 p3].
      assert (G : forall rid' h' m', In (rid', h') (handlers s) -> waiting h' = Some m' ->
                  reg (upd s c1 i (pre ++ post) (respq s) f) rid' m' \/ (m', rid') = (m, rid)).
      { intros rid' h' m' Hin Hw. destruct (p3 rid' h' m' Hin Hw) as [[[k0 [p0 Hr]]|[k0 [ws0 [H1 H2]]]]|[]].
        - rewrite Hq in Hr. apply in_app_or in Hr. destruct Hr as [Hr|[E|Hr]].
          + left. left. exists k0, p0. cbn. apply in_or_app. left. exact Hr.
          + right. inversion E. reflexivity.
          + left. left. exists k0, p0. cbn. apply in_or_app. right. exact Hr.
        - left. right. destruct (Hi k0 ws0 H1) as [ws1 [A B]]. exists k0, ws1. cbn. auto. }
      split.
      - constructor; cbn [upd handlers inflight ikeys]; auto. intros rid' h' m' Hin Hw. destruct (G rid' h' m' Hin Hw) as [H|H]; [left; exact H|right; left; symmetry; exact H].
      - intros [ws1 [Hw1 Hw2]]. constructor; cbn [upd handlers inflight ikeys]; auto. intros rid' h' m' Hin Hw. left.
        destruct (G rid' h' m' Hin Hw) as [H|H]; [exact H|]. inversion H; subst. right. exists k, ws1. cbn. auto. }
    pose proof (P2 s [] Hs) as Hnd.
    destruct (lookup k c1) as [cv|] eqn:El.
    + apply deliver_to_prR. apply (proj1 (Hbase (inflight s) (fetches s) Hnd (fun k0 ws0 H => ex_intro _ ws0 (conj H (fun x Hx => Hx))))).
    + destruct (lookup k (inflight s)) as [ws|] eqn:Ei.
      * refine (proj2 (Hbase ((k, ws ++ [(m, rid)]) :: remove_key k (inflight s)) (fetches s) _ _) _).
        -- cbn [map fst]. constructor; [|apply remove_key_nodup; exact Hnd]. intro Hin. apply remove_key_keys in Hin. destruct Hin as [_ Hne]. congruence.
        -- intros k0 ws0 H0. destruct (key_eqb k k0) eqn:E.
           ++ apply key_eqb_eq' in E. subst k0. exists (ws ++ [(m, rid)]). split; [left; reflexivity|].
              assert (ws0 = ws). { apply lookup_in in Ei. clear -Hnd H0 Ei. unfold ikeys in Hnd. induction (inflight s) as [|[k1 w1] r IH]; [destruct H0|]. cbn in Hnd. inversion Hnd as [|? ? Hni Hn']; subst.
                destruct H0 as [E0|H0]; destruct Ei as [E1|Ei].
                - congruence.
                - inversion E0; subst. exfalso. apply Hni. apply (in_map fst) in Ei. exact Ei.
                - inversion E1; subst. exfalso. apply Hni. apply (in_map fst) in H0. exact H0.
                - apply IH; assumption. }
              subst ws0. intros x Hx. apply in_or_app. left. exact Hx.
           ++ exists ws0. split; [right; unfold remove_key; apply filter_In; split; [exact H0|cbn; rewrite E; reflexivity]|auto].
        -- exists (ws ++ [(m, rid)]). split; [left; reflexivity|apply in_or_app; right; left; reflexivity].
      * refine (proj2 (Hbase ((k, [(m, rid)]) :: inflight s) (k :: fetches s) _ _) _).
        -- cbn [map fst]. constructor; [apply lookup_none; exact Ei|exact Hnd].
        -- intros k0 ws0 H0. exists ws0. split; [right; exact H0|auto].
        -- exists [(m, rid)]. split; [left; reflexivity|left; reflexivity].
  - (* a fetch reads the bucket: nothing a handler waits for moves *)
    destruct Hs as [p1 p2 p3]. constructor; cbn [upd handlers inflight ikeys]; auto.
  - (* the loop takes a response: every waiter of the key is delivered to *)
    subst ws. apply fold_deliver_prR. destruct Hs as [p1 p2 p3]. constructor; cbn [upd handlers inflight]; auto.
    + apply remove_key_nodup. exact p2.
    + intros rid' h' m' Hin Hw. destruct (p3 rid' h' m' Hin Hw) as [[[k0 [p0 Hr0]]|[k0 [ws0 [H1 H2]]]]|[]].
      * left. left. exists k0, p0. exact Hr0.
      * destruct (key_eqb k k0) eqn:E.
        -- apply key_eqb_eq' in E. subst k0. right.
           assert (lookup k (inflight s) = Some ws0).
           { clear -p2 H1. unfold ikeys in p2. induction (inflight s) as [|[k1 w1] r IH]; [destruct H1|]. cbn in p2. inversion p2 as [|? ? Hni Hn']; subst. cbn [lookup].
             destruct H1 as [E1|H1]; [inversion E1; subst; rewrite key_eqb_refl; reflexivity|].
             destruct (key_eqb k k1) eqn:E; [apply key_eqb_eq' in E; subst; exfalso; apply Hni; apply (in_map fst) in H1; exact H1|apply IH; assumption]. }
           rewrite H. exact H2.
        -- left. right. exists k0, ws0. split; [unfold remove_key; apply filter_In; split; [exact H1|cbn; rewrite E; reflexivity]|exact H2].
  - (* eviction *)
    destruct Hs as [p1 p2 p3]. constructor; cbn [upd handlers inflight ikeys]; auto.
  - (* tile read *)
    destruct (cur s (t_name q)) as [v|]; [destruct (vtag v =? vtag hv)|]; apply apply_out_prR; try exact Hs; try (intros [m0 []]);
      try apply retry_shape; cbn; intros x w E; discriminate.
  - (* a fetch fails *)
    destruct Hs as [p1 p2 p3]. constructor; cbn [upd handlers inflight ikeys]; auto.
  - (* a tile read fails *)
    apply apply_out_prR; [exact Hs| |intros [m0 []]]. destruct kind; [apply retry_shape|cbn; intros x w E; discriminate|cbn; intros x w E; discriminate].
  - destruct Hs as [p1 p2 p3]. constructor; cbn [handlers inflight ikeys]; auto.
  - destruct Hs as [p1 p2 p3]. constructor; cbn [handlers inflight ikeys]; auto.
Qed.

Theorem reach_pr s : reach s -> PrR s [].
Proof. induction 1 as [|s s' R IH St]; [apply PrR_init|eapply step_pr; eassumption]. Qed.
End Pr.
