(* The extract command without a region, end to end on abstract archives: every kept entry has its source's tile id range, length and
   bytes. Composition of RelevantEntries, reencodeEntries and the copy of the listed ranges. *)
From Coq Require Import NArith ZArith List Lia Bool.
Import ListNotations.
From PM Require Import Model.Varint Model.Directory Model.Header Model.TileId Model.FindTile Model.Resolver Model.Archive Model.Extract Model.ExtractCmd
  Proofs.Extract Proofs.Relevant Proofs.Reencode.
Open Scope N_scope.

Definition mem_of (S:bytes) : mem := fun a => nth (N.to_nat a) S 0.

Lemma slice_len_full (S:bytes) a l : a + l <= blen S -> length (slice S a l) = N.to_nat l.
Proof. unfold blen. intro H. unfold slice. rewrite firstn_length, skipn_length. lia. Qed.
Lemma nth_skipn' {A} (d:A) : forall n i (l:list A), nth i (skipn n l) d = nth (n + i) l d.
Proof. induction n as [|n IH]; intros i l; [reflexivity|]. destruct l as [|x l]; [destruct i; reflexivity|]. cbn. apply IH. Qed.
Lemma nth_firstn' {A} (d:A) : forall n i (l:list A), (i < n)%nat -> nth i (firstn n l) d = nth i l d.
Proof. induction n as [|n IH]; intros i l H; [lia|]. destruct l as [|x l]; [destruct i; reflexivity|]. destruct i as [|i]; [reflexivity|]. cbn. apply IH. lia. Qed.
Lemma slice_nth' (S:bytes) a l j : (j < N.to_nat l)%nat -> nth j (slice S a l) 0 = nth (N.to_nat a + j) S 0.
Proof. intro H. unfold slice. rewrite nth_firstn' by exact H. apply nth_skipn'. Qed.

(* copying the ranges (contiguous in the destination from 0, inside the source) yields the concatenation of the source slices *)
Lemma E_concat (S:bytes) D : forall rs e, rcontig rs e -> (forall r, In r rs -> r_src r + r_len r <= blen S) ->
  length (concat (map (fun r => slice S (r_src r) (r_len r)) (rev rs))) = N.to_nat e /\
  forall p, p < e -> E (mem_of S) rs D p = nth (N.to_nat p) (concat (map (fun r => slice S (r_src r) (r_len r)) (rev rs))) 0.
Proof.
  induction rs as [|r t IH]; intros e Hc Hin.
  - cbn in Hc. subst e. split; [reflexivity|]. intros p Hp. lia.
  - cbn [rcontig] in Hc. destruct Hc as [He Hc]. destruct (IH _ Hc (fun x Hx => Hin x (or_intror Hx))) as [Hl Hv].
    assert (Hs : length (slice S (r_src r) (r_len r)) = N.to_nat (r_len r)) by (apply slice_len_full; apply Hin; left; reflexivity).
    cbn [rev]. rewrite map_app, concat_app. cbn [map concat]. rewrite app_nil_r. split.
    + rewrite app_length, Hl, Hs. lia.
    + intros p Hp. rewrite E_cons. unfold copy.
      destruct (N.leb_spec (r_dst r) p) as [H1|H1]; destruct (N.ltb_spec p (r_dst r + r_len r)) as [H2|H2]; cbn [andb]; try lia.
      * rewrite app_nth2 by lia. rewrite Hl. unfold mem_of. rewrite slice_nth' by lia. f_equal. lia.
      * rewrite app_nth1 by lia. apply Hv. exact H1.
Qed.

Lemma trim_run_src b e : forall fuel y ci cl t, In t (trim_run fuel b e y ci cl) -> off t = off e /\ len t = len e.
Proof.
  induction fuel as [|f IH]; intros y ci cl t Hin; cbn [trim_run] in Hin.
  - destruct (0 <? cl); [destruct Hin as [<-|[]]; cbn; auto|destruct Hin].
  - destruct (bm_mem b y).
    + destruct (cl =? 0); eapply IH; exact Hin.
    + destruct (0 <? cl); [destruct Hin as [<-|Hin]; [cbn; auto|eapply IH; exact Hin]|eapply IH; exact Hin].
Qed.
Lemma relevant_src b last : forall dir t, In t (fst (relevant b last dir)) -> exists e, In e dir /\ off t = off e /\ len t = len e.
Proof.
  induction dir as [|e r IH]; intros t Hin; cbn [relevant] in Hin; [destruct Hin|].
  destruct (relevant b last r) as [tiles leaves] eqn:Er. cbn [fst] in IH.
  assert (Hrest : In t tiles -> exists e0, In e0 (e :: r) /\ off t = off e0 /\ len t = len e0).
  { intro H. destruct (IH t H) as [e0 [A B]]. exists e0. split; [right; exact A|exact B]. }
  destruct (run e =? 0).
  - destruct (bm_intersects b (tid e) _); cbn [fst] in Hin; apply Hrest; exact Hin.
  - destruct (run e =? 1).
    + destruct (bm_mem b (tid e)); cbn [fst] in Hin; [destruct Hin as [<-|Hin]; [exists e; split; [left; reflexivity|auto]|apply Hrest; exact Hin]|apply Hrest; exact Hin].
    + cbn [fst] in Hin. apply in_app_or in Hin. destruct Hin as [Hin|Hin]; [|apply Hrest; exact Hin].
      exists e. split; [left; reflexivity|]. eapply trim_run_src. exact Hin.
Qed.

Lemma Forall2_impl_in' {A B} (P Q:A -> B -> Prop) : forall l l', (forall x y, In x l -> P x y -> Q x y) -> Forall2 P l l' -> Forall2 Q l l'.
Proof. intros l l' H F. induction F as [|x y l l' Hp F IH]; constructor; [apply H; [left; reflexivity|exact Hp]|apply IH; intros x0 y0 Hi; apply H; right; exact Hi]. Qed.

Theorem extract_content : forall a minz maxz a',
  (forall e1 e2, In e1 (a_entries a) -> In e2 (a_entries a) -> off e1 = off e2 -> len e1 = len e2) ->
  (forall e, In e (a_entries a) -> off e + len e <= blen (a_data a)) ->
  extract_model a minz maxz = XOk a' ->
  exists lo hi, clamp_zooms (a_hdr a) minz maxz = (lo, hi) /\
  let b := [(zxy_to_id (Z.to_N lo) 0 0, zxy_to_id (w8 (Z.to_N hi + 1)) 0 0)] in
  let tiles := fst (relevant_entries b (Z.to_N hi) (a_entries a)) in
  Forall2 (fun e e' => tid e' = tid e /\ len e' = len e /\ run e' = run e /\ content_at (a_data a') e' = content_at (a_data a) e) tiles (a_entries a') /\
  a_meta a' = a_meta a.
Proof.
  intros a minz maxz a' Hsame Hbound H. unfold extract_model in H.
  destruct (negb (a_hdr a F_clustered =? 1)%Z); [discriminate|].
  destruct (clamp_zooms (a_hdr a) minz maxz) as [lo hi] eqn:Ecl. exists lo, hi. split; [reflexivity|].
  destruct (hi <? lo)%Z; [discriminate|]. cbv zeta.
  set (b := [(zxy_to_id (Z.to_N lo) 0 0, zxy_to_id (w8 (Z.to_N hi + 1)) 0 0)]) in *.
  set (tiles := fst (relevant_entries b (Z.to_N hi) (a_entries a))) in *.
  destruct (reencode tiles) as [[[[re ranges] total] addr] contents] eqn:Er. inversion H; subst a'; clear H. cbn [a_entries a_data a_meta].
  split; [|reflexivity].
  assert (Hsrc : forall t, In t tiles -> exists e, In e (a_entries a) /\ off t = off e /\ len t = len e) by (intros t Ht; eapply relevant_src; exact Ht).
  assert (Hsame' : forall e1 e2, In e1 tiles -> In e2 tiles -> off e1 = off e2 -> len e1 = len e2).
  { intros e1 e2 H1 H2 Ho. destruct (Hsrc e1 H1) as [x1 [A1 [B1 C1]]]. destruct (Hsrc e2 H2) as [x2 [A2 [B2 C2]]]. rewrite C1, C2. apply Hsame; auto; congruence. }
  assert (Hbound' : forall e, In e tiles -> off e + len e <= blen (a_data a)).
  { intros e He. destruct (Hsrc e He) as [x [A [B C]]]. rewrite B, C. apply Hbound. exact A. }
  pose proof (reencode_content (mem_of (a_data a)) (fun _ => 0) (blen (a_data a)) tiles Hsame' Hbound' _ _ _ _ _ Er) as Hc.
  destruct (reencode_ranges (mem_of (a_data a)) (fun _ => 0) (blen (a_data a)) tiles Hsame' Hbound' _ _ _ _ _ Er) as [Hct Hin].
  destruct (E_concat (a_data a) (fun _ => 0) (rev ranges) total Hct (fun r Hr => Hin r (proj2 (in_rev _ _) Hr))) as [Hlen Hval].
  rewrite rev_involutive in Hlen, Hval.
  set (data' := concat (map (fun r => slice (a_data a) (r_src r) (r_len r)) ranges)) in *.
  eapply Forall2_impl_in'; [|exact Hc]. intros e e' He (A & B & C & Dk). repeat split; auto.
  unfold content_at. rewrite B.
  destruct (N.eq_dec (len e) 0) as [Hz|Hnz]; [rewrite Hz; unfold slice; cbn; reflexivity|].
  assert (Hb2 : off e' + len e <= total) by (apply (Dk 0); lia).
  apply (nth_ext _ _ 0 0).
  - rewrite !slice_len_full; [reflexivity|apply Hbound'; exact He|unfold blen; rewrite Hlen; lia].
  - intros j Hj. rewrite slice_len_full in Hj by (unfold blen; rewrite Hlen; lia).
    rewrite !slice_nth' by exact Hj.
    destruct (Dk (N.of_nat j) ltac:(lia)) as [Hv _].
    unfold E in Hval. specialize (Hval (off e' + N.of_nat j) ltac:(lia)). rewrite rev_involutive in Hval. rewrite Hval in Hv.
    unfold mem_of in Hv. rewrite !N2Nat.inj_add, !Nat2N.id in Hv. exact Hv.
Qed.
