(* Theorems about the convert model. The resolver/finalize lemmas are those of Proofs/Resolver.v and Proofs/Cluster.v
   (generic in the encoding); finalize_verifies is cluster_verifies (Proofs/ClusterThm.v) restated for any input list. *)
From Coq Require Import NArith ZArith List Lia Arith Bool.
Import ListNotations.
From PM Require Import Model.Varint Model.Directory Model.Header Model.TileId Model.FindTile Model.Resolver Model.Archive
  Model.Verify Model.Cluster Model.Convert Proofs.Resolver Proofs.Cluster Proofs.ClusterThm.
Open Scope N_scope.

Section Generic.
Variable enc : bytes -> bytes.
Variable hash : bytes -> bytes.
Hypothesis no_collision : forall d1 d2, hash d1 = hash d2 -> d1 = d2.
Variable inputs : list (N * bytes * N).
Hypothesis Hne : Forall (fun x => 0 < blen (enc (snd (fst x)))) inputs.
Hypothesis Hic : ichain 0 inputs.
Hypothesis Hend : iend 0 inputs < 2^64 - 1.

Theorem finalize_verifies dedup h0i rl ml ll h' :
  let st := add_all enc hash dedup inputs in
  finalize dedup h0i st rl ml ll = Some h' ->
  (h' F_min_lon < h' F_max_lon)%Z -> (h' F_min_lat < h' F_max_lat)%Z ->
  (h' F_min_zoom <= h' F_center_zoom <= h' F_max_zoom)%Z ->
  127 + rl + ml + ll + blen (data_of st) < 2^63 ->
  verify h' (Some (entries_of st)) (Z.of_N (127 + rl + ml + ll + blen (data_of st))) = None.
Proof.
  intros st Efin Hlon Hlat Hcz Hsize.
  pose proof (add_all_inv2 enc hash no_collision dedup _ Hne) as I2. fold st in I2.
  pose proof (add_all_chain enc hash dedup inputs 0 Hic) as Hch. fold st in Hch.
  pose proof (store_len _ _ (I_store _ _ I2)) as Hdl. fold (data_of st) in Hdl.
  (* fields of the written header *)
  unfold finalize, set_zoom_center in Efin.
  destruct (entries_of st) as [|e0 et] eqn:Eents; [discriminate|].
  set (h0 := upd (upd (upd h0i F_addressed (Z.of_N (r_addr st))) F_entries (Z.of_nat (length (r_rev st)))) F_contents (Z.of_N (num_contents dedup st))) in *.
  set (zmin := Z.of_N (zoom_of (tid e0))) in *. set (zmax := Z.of_N (zoom_of (tid (last (e0 :: et) e0)))) in *.
  assert (F: h' F_root_off = 127%Z /\ h' F_root_len = Z.of_N rl /\ h' F_meta_off = Z.of_N (127 + rl) /\ h' F_meta_len = Z.of_N ml /\
             h' F_leaf_off = Z.of_N (127 + rl + ml) /\ h' F_leaf_len = Z.of_N ll /\ h' F_data_off = Z.of_N (127 + rl + ml + ll) /\
             h' F_data_len = Z.of_N (r_off st) /\ h' F_clustered = 1%Z /\ h' F_addressed = Z.of_N (r_addr st) /\
             h' F_entries = Z.of_nat (length (r_rev st)) /\ h' F_contents = Z.of_N (num_contents dedup st) /\
             h' F_min_zoom = zmin /\ h' F_max_zoom = zmax).
  { destruct ((h0 F_center_zoom =? 0) && (h0 F_center_lon =? 0) && (h0 F_center_lat =? 0))%Z;
      inversion Efin; subst h'; repeat split; reflexivity. }
  destruct F as (F1 & F2 & F3 & F4 & F5 & F6 & F7 & F8 & F9 & F10 & F11 & F12 & F13 & F14).
  (* the accumulation over the entries *)
  assert (Hro: r_off st < 2^64) by (rewrite <- Hdl; change (2^63) with 9223372036854775808 in Hsize; change (2^64) with 18446744073709551616; lia).
  pose proof (I_acc _ _ I2 (r_off st) (N.le_refl _) Hro) as A. cbv zeta in A.
  destruct A as (A1 & A2 & A3 & A4 & A5 & A6).
  assert (Hrev: r_rev st <> []) by (intro E; unfold entries_of in Eents; rewrite E in Eents; discriminate).
  destruct (r_rev st) as [|lst rest] eqn:Erev; [congruence|].
  assert (Hlst: tid lst < 2^64 - 1) by (cbn [rchain] in Hch; destruct Hch as (C1 & C2 & _); lia).
  destruct (rchain_counts (r_off st) _ _ Hch) as (K1 & K2 & K3).
  destruct (vfold_minmax (r_off st) rest lst _ Hch Hlst) as (M1 & M2 & M3).
  (* now run the checks *)
  unfold verify. unfold hN. rewrite F1, F3, F5, F7, F2, F4, F6, F8.
  change (Z.to_N 127 =? 0) with false. cbv iota.
  rewrite !N2Z.id.
  assert ((127 + rl =? 0) = false) as -> by (apply N.eqb_neq; lia).
  assert ((127 + rl + ml =? 0) = false) as -> by (apply N.eqb_neq; lia).
  assert ((127 + rl + ml + ll =? 0) = false) as -> by (apply N.eqb_neq; lia).
  rewrite Hdl in *.
  set (fs := 127 + rl + ml + ll + r_off st) in *.
  assert ((fs <? rl) = false) as -> by (apply N.ltb_ge; unfold fs; lia).
  assert ((fs <? ml) = false) as -> by (apply N.ltb_ge; unfold fs; lia).
  assert ((fs <? ll) = false) as -> by (apply N.ltb_ge; unfold fs; lia).
  assert ((fs <? r_off st) = false) as -> by (apply N.ltb_ge; unfold fs; lia).
  assert (Hi64: int64_of fs = Z.of_N fs).
  { unfold int64_of, w64. change (2^63) with 9223372036854775808 in *. change (2^64) with 18446744073709551616 in *.
    rewrite N.mod_small by lia. assert ((fs <? 9223372036854775808) = true) as -> by (apply N.ltb_lt; lia). reflexivity. }
  rewrite Hi64, Z.eqb_refl. cbn [orb negb].
  rewrite F9. change (1 =? 1)%Z with true.
  rewrite <- Eents. unfold entries_of. rewrite Erev. rewrite vfold_entries.
  rewrite A1, A5, A6, A4, M1, M2.
  rewrite F10, F11, F12, F13, F14. rewrite !N2Z.id.
  change (2^64) with 18446744073709551616 in *.
  assert (w64 (r_addr st) = r_addr st) as -> by (unfold w64; apply N.mod_small; rewrite <- A5; change (2^64) with 18446744073709551616; lia).
  rewrite N.eqb_refl. cbn [negb].
  rewrite <- nat_N_Z, N2Z.id.
  assert (w64 (N.of_nat (length (lst :: rest))) = N.of_nat (length (lst :: rest))) as -> by (unfold w64; apply N.mod_small; change (2^64) with 18446744073709551616; lia).
  rewrite N.eqb_refl. cbn [negb].
  assert (N.of_nat (length (r_store st)) = num_contents dedup st) as ->.
  { pose proof (I_count _ _ I2) as C. unfold num_contents. destruct dedup; rewrite C; reflexivity. }
  rewrite N.eqb_refl. cbn [negb].
  assert (Ee0: last rest lst = e0).
  { rewrite <- (last_cons rest lst e0). eapply rev_head_last. unfold entries_of in Eents. rewrite Erev in Eents. exact Eents. }
  rewrite Ee0. unfold zmin. rewrite N2Z.id, N.eqb_refl. cbn [negb].
  assert (Elst: last (e0 :: et) e0 = lst).
  { rewrite <- Eents. unfold entries_of. rewrite Erev. eapply rev_last_head. reflexivity. }
  unfold zmax. rewrite Elst, N2Z.id, N.eqb_refl. cbn [negb].
  rewrite F13, F14 in Hcz. unfold zmin, zmax in Hcz. rewrite Elst in Hcz.
  assert (((zoom_of (tid e0) <=? Z.to_N (h' F_center_zoom)) && (Z.to_N (h' F_center_zoom) <=? zoom_of (tid lst))) = true) as ->.
  { apply andb_true_iff. split; apply N.leb_le; lia. }
  cbn [negb].
  assert ((h' F_max_lon <=? h' F_min_lon)%Z = false) as -> by (apply Z.leb_gt; lia).
  assert ((h' F_max_lat <=? h' F_min_lat)%Z = false) as -> by (apply Z.leb_gt; lia).
  reflexivity.
Qed.
Theorem resolver_tile_map dedup id :
  let st := add_all enc hash dedup inputs in
  match cover (entries_of st) id with
  | Some e' => exists d, said inputs id d /\ content_at (data_of st) e' = enc d
  | None => forall d, ~ said inputs id d
  end.
Proof.
  intro st.
  pose proof (add_all_inv enc hash no_collision dedup _ Hne) as R. fold st in R.
  pose proof (add_all_inv2 enc hash no_collision dedup _ Hne) as I2. fold st in I2.
  destruct (cover (entries_of st) id) as [e'|] eqn:Enew.
  - apply cover_some in Enew. destruct Enew as (Hin & A & B). unfold entries_of in Hin. apply in_rev in Hin.
    destruct (R_sound _ _ _ _ R e' Hin) as (c & Hc & Hl & Hcov).
    destruct (Hcov id (conj A B)) as (d & Hs & Hd). subst c. exists d. split; [exact Hs|].
    unfold content_at. rewrite Hl. unfold data_of. apply slookup_in in Hc.
    eapply data_slice; [apply (I_store _ _ I2)|exact Hc].
  - intros d Hs. destruct (R_complete _ _ _ _ R _ _ Hs) as (e' & Hin & [A' B']).
    eapply (cover_none _ _ Enew e'); [unfold entries_of; apply -> in_rev; exact Hin|auto].
Qed.
End Generic.

Lemma ichain_lower : forall l lo i d rl, ichain lo l -> In (i, d, rl) l -> lo <= i /\ 0 < rl.
Proof.
  induction l as [|[[i0 d0] r0] l IH]; intros lo i d rl Hc Hin; [destruct Hin|]. cbn [ichain] in Hc. destruct Hc as (A & B & C).
  destruct Hin as [E|Hin]; [inversion E; subst; auto|]. destruct (IH _ _ _ _ C Hin). split; [lia|assumption].
Qed.
Lemma said_unique_gen : forall l lo id d1 d2, ichain lo l -> said l id d1 -> said l id d2 -> d1 = d2.
Proof.
  induction l as [|[[i0 d0] r0] l IH]; intros lo id d1 d2 Hc (i1 & r1 & H1 & A1 & B1) (i2 & r2 & H2 & A2 & B2); [destruct H1|].
  cbn [ichain] in Hc. destruct Hc as (A & B & C).
  destruct H1 as [E1|H1]; destruct H2 as [E2|H2].
  - inversion E1; inversion E2; subst. reflexivity.
  - inversion E1; subst. destruct (ichain_lower _ _ _ _ _ C H2). lia.
  - inversion E2; subst. destruct (ichain_lower _ _ _ _ _ C H1). lia.
  - eapply (IH _ id d1 d2 C); [exists i1, r1|exists i2, r2]; auto.
Qed.


(* ---- the rows of the database *)
Fixpoint strict_asc (lo:N) (l:list (N * bytes)) : Prop := match l with [] => True | x :: r => lo <= fst x /\ strict_asc (fst x + 1) r end.
Lemma strict_asc_weaken : forall l lo lo', lo' <= lo -> strict_asc lo l -> strict_asc lo' l.
Proof. destruct l as [|x r]; intros lo lo' H Hs; [exact I|]. cbn in *. destruct Hs. split; [lia|assumption]. Qed.
Lemma insert_row_asc x : forall l lo, lo <= fst x -> strict_asc lo l -> strict_asc lo (insert_row x l).
Proof.
  induction l as [|y r IH]; intros lo Hx Hs; cbn [insert_row].
  - cbn. auto.
  - cbn [strict_asc] in Hs. destruct Hs as [Hy Hr]. destruct (N.ltb_spec (fst x) (fst y)).
    + cbn [strict_asc]. split; [exact Hx|]. split; [lia|exact Hr].
    + destruct (N.eqb_spec (fst x) (fst y)); [cbn [strict_asc]; auto|].
      cbn [strict_asc]. split; [exact Hy|]. apply IH; [lia|exact Hr].
Qed.
Lemma insert_row_in x : forall l y, In y (insert_row x l) -> y = x \/ In y l.
Proof.
  induction l as [|z r IH]; intros y H; cbn [insert_row] in H.
  - destruct H as [<-|[]]. auto.
  - destruct (fst x <? fst z); [destruct H as [<-|H]; auto|]. destruct (fst x =? fst z); [auto|].
    destruct H as [<-|H]; [right; left; reflexivity|]. destruct (IH _ H); [auto|right; right; assumption].
Qed.
Lemma insert_row_keeps x : forall l y, In y l -> In y (insert_row x l).
Proof.
  induction l as [|z r IH]; intros y H; [destruct H|]. cbn [insert_row]. destruct (fst x <? fst z); [right; exact H|].
  destruct (fst x =? fst z); [exact H|]. destruct H as [<-|H]; [left; reflexivity|right; apply IH; exact H].
Qed.
Lemma insert_row_adds x : forall l, (forall y, In y l -> fst y <> fst x) -> In x (insert_row x l).
Proof.
  induction l as [|z r IH]; intro H; cbn [insert_row]; [left; reflexivity|].
  destruct (fst x <? fst z); [left; reflexivity|]. destruct (N.eqb_spec (fst x) (fst z)) as [E|_].
  - exfalso. apply (H z (or_introl eq_refl)). auto.
  - right. apply IH. intros y Hy. apply H. right. exact Hy.
Qed.
Definition rows_of (rows:list mbrow) := map (fun r => (row_id r, m_blob r)) rows.
Lemma sorted_rows_spec : forall rows acc, strict_asc 0 acc ->
  let s := fold_left (fun acc r => insert_row (row_id r, m_blob r) acc) rows acc in
  strict_asc 0 s /\ (forall y, In y s -> In y acc \/ In y (rows_of rows)) /\ (forall y, In y acc -> In y s).
Proof.
  induction rows as [|r rs IH]; intros acc Ha; cbn [fold_left rows_of map].
  - auto.
  - destruct (IH (insert_row (row_id r, m_blob r) acc)) as (S1 & S2 & S3); [apply insert_row_asc; [cbn; lia|exact Ha]|].
    split; [exact S1|]. split.
    + intros y Hy. destruct (S2 y Hy) as [H|H]; [|right; right; exact H]. apply insert_row_in in H. destruct H as [->|H]; [right; left; reflexivity|left; exact H].
    + intros y Hy. apply S3. apply insert_row_keeps. exact Hy.
Qed.
Lemma sorted_rows_complete : forall rows acc, NoDup (map row_id rows) -> (forall r y, In r rows -> In y acc -> fst y <> row_id r) ->
  forall r, In r rows -> In (row_id r, m_blob r) (fold_left (fun acc r => insert_row (row_id r, m_blob r) acc) rows acc).
Proof.
  induction rows as [|r0 rs IH]; intros acc Hnd Hacc r Hin; [destruct Hin|]. cbn [fold_left]. cbn [map] in Hnd. inversion Hnd as [|? ? Hn0 Hnd']; subst.
  destruct Hin as [<-|Hin].
  - assert (Hi : In (row_id r0, m_blob r0) (insert_row (row_id r0, m_blob r0) acc)).
    { apply insert_row_adds. intros y Hy. cbn [fst]. apply (Hacc r0 y (or_introl eq_refl) Hy). }
    clear -Hi. revert Hi. generalize (insert_row (row_id r0, m_blob r0) acc). induction rs as [|r1 rs IHr]; intros a Hi; [exact Hi|].
    cbn [fold_left]. apply IHr. apply insert_row_keeps. exact Hi.
  - apply IH; [exact Hnd'| |exact Hin]. intros r1 y Hr1 Hy. apply insert_row_in in Hy. destruct Hy as [->|Hy].
    + cbn [fst]. intro E. apply Hn0. rewrite E. apply in_map. exact Hr1.
    + apply (Hacc r1 y (or_intror Hr1) Hy).
Qed.

Lemma convert_inputs_chain : forall l lo, strict_asc lo l ->
  ichain lo (map (fun x => (fst x, snd x, 1)) (filter (fun x => negb (blen (snd x) =? 0)) l)).
Proof.
  induction l as [|x r IH]; intros lo Hs; [exact I|]. cbn [strict_asc] in Hs. destruct Hs as [Hx Hr]. cbn [filter].
  destruct (negb (blen (snd x) =? 0)).
  - cbn [map ichain]. split; [exact Hx|]. split; [lia|]. apply IH. exact Hr.
  - apply IH. apply (strict_asc_weaken r (fst x + 1)); [lia|exact Hr].
Qed.
Lemma said_convert rows id d : said (convert_inputs rows) id d <-> In (id, d) (sorted_rows rows) /\ blen d <> 0.
Proof.
  unfold said, convert_inputs. split.
  - intros (i & rl & Hin & A & B). apply in_map_iff in Hin. destruct Hin as ([i' d'] & E & Hf). inversion E; subst.
    apply filter_In in Hf. destruct Hf as [Hin Hnz]. cbn [fst snd] in *. assert (Hid : id = i) by lia. subst id. split; [exact Hin|].
    apply negb_true_iff in Hnz. apply N.eqb_neq in Hnz. exact Hnz.
  - intros [Hin Hnz]. exists id, 1. split; [|lia]. apply in_map_iff. exists (id, d). split; [reflexivity|]. apply filter_In. split; [exact Hin|].
    cbn [snd]. apply negb_true_iff. apply N.eqb_neq. exact Hnz.
Qed.
