From Coq Require Import NArith ZArith List Lia Arith Bool.
Import ListNotations.
From PM Require Import Model.Varint Model.Directory Model.DirBuild.

Section Build.
(* serializer/deserializer of one directory, e.g. compress ∘ serialize_entries; only the round trip is used *)
Variable ser : list entry -> list N.
Variable deser : list N -> list entry.
Variable ok : list entry -> Prop.
Hypothesis deser_ser : forall es, ok es -> deser (ser es) = es.

Lemma take_firstn {A} : forall (l:list A) n, take n l = firstn (N.to_nat n) l.
Proof.
  induction l as [|x r IH]; intro n; [destruct (N.to_nat n); reflexivity|]. cbn [take].
  destruct (N.eqb_spec n 0) as [->|Hn]; [reflexivity|].
  replace (N.to_nat n) with (S (N.to_nat (N.pred n))) by lia. cbn [firstn]. f_equal. apply IH.
Qed.
Lemma drop_skipn {A} : forall (l:list A) n, drop n l = skipn (N.to_nat n) l.
Proof.
  induction l as [|x r IH]; intro n; [destruct (N.to_nat n); reflexivity|]. cbn [drop].
  destruct (N.eqb_spec n 0) as [->|Hn]; [reflexivity|].
  replace (N.to_nat n) with (S (N.to_nat (N.pred n))) by lia. cbn [skipn]. apply IH.
Qed.

Lemma chunks_concat : forall fuel n es, (0 < n)%N -> (length es < fuel)%nat -> concat (chunks fuel n es) = es.
Proof.
  induction fuel as [|f IH]; intros n es Hn Hf; [lia|].
  destruct es as [|e r]; [reflexivity|]. cbn [chunks concat].
  rewrite IH; auto.
  - rewrite take_firstn, drop_skipn. apply firstn_skipn.
  - rewrite drop_skipn, skipn_length. cbn [length] in *. lia.
Qed.

Lemma chunks_nonempty : forall fuel n es c, (0 < n)%N -> In c (chunks fuel n es) -> c <> [] /\ (length c <= N.to_nat n)%nat.
Proof.
  induction fuel as [|f IH]; intros n es c Hn Hin; [contradiction|].
  destruct es as [|e r]; [contradiction|]. cbn [chunks] in Hin. destruct Hin as [<-|Hin].
  - rewrite take_firstn. split; [destruct (N.to_nat n) eqn:E; [lia|cbn; discriminate]|apply firstn_le_length].
  - eapply IH; eauto.
Qed.

Lemma dslice_concat : forall (pre:list N) (b:list N) (post:list N),
  dslice (pre ++ b ++ post) (N.of_nat (length pre)) (N.of_nat (length b)) = b.
Proof.
  intros. unfold dslice. rewrite !Nat2N.id. rewrite skipn_app, skipn_all, Nat.sub_diag. cbn [skipn app].
  rewrite firstn_app, firstn_all, Nat.sub_diag. cbn. apply app_nil_r.
Qed.

Lemma ptrs_read : forall cs pre post,
  Forall ok cs ->
  concat (map (fun p => deser (dslice (pre ++ concat (map ser cs) ++ post) (off p) (len p)))
              (ptrs cs (map ser cs) (N.of_nat (length pre)))) = concat cs.
Proof.
  induction cs as [|c cs IH]; intros pre post Hok; [reflexivity|].
  inversion Hok as [|? ? Hc Hcs]; subst. cbn [map ptrs concat].
  cbn [off len]. rewrite <- app_assoc. rewrite dslice_concat. rewrite deser_ser by assumption. f_equal.
  replace (N.of_nat (length pre) + N.of_nat (length (ser c)))%N with (N.of_nat (length (pre ++ ser c))) by (rewrite app_length; lia).
  specialize (IH (pre ++ ser c) post Hcs). rewrite <- app_assoc in IH. exact IH.
Qed.

Lemma ptrs_shape : forall cs bs o, length cs = length bs ->
  Forall (fun p => run p = 0%N) (ptrs cs bs o) /\ map tid (ptrs cs bs o) = map first_tid cs.
Proof.
  induction cs as [|c cs IH]; intros bs o Hl; destruct bs as [|b bs]; try discriminate; [split; [constructor|reflexivity]|].
  cbn [ptrs map]. destruct (IH bs (o + N.of_nat (length b))%N ltac:(cbn in Hl; lia)) as [H1 H2]. split.
  - constructor; [reflexivity|exact H1].
  - cbn. f_equal. exact H2.
Qed.

Theorem structure es leaf :
  (0 < leaf)%N ->
  let cs := chunks (S (length es)) leaf es in
  Forall ok cs -> ok (ptrs cs (map ser cs) 0) ->
  let '(root, leaves, n) := build_roots_leaves ser es leaf in
  deser root = ptrs cs (map ser cs) 0 /\
  Forall (fun p => run p = 0%N) (deser root) /\
  map tid (deser root) = map first_tid cs /\
  read_leaves deser root leaves = es /\
  n = length cs.
Proof.
  intros Hleaf cs Hok Hokp. unfold build_roots_leaves. fold cs.
  rewrite deser_ser by assumption.
  destruct (ptrs_shape cs (map ser cs) 0%N ltac:(now rewrite map_length)) as [Hrun Htid].
  repeat split; auto.
  unfold read_leaves. rewrite deser_ser by assumption.
  pose proof (ptrs_read cs [] [] Hok) as R. cbn [app length N.of_nat] in R. rewrite app_nil_r in R.
  rewrite R. apply chunks_concat; lia.
Qed.

(* ---- the leaf-size loop *)
Lemma try_sizes_fits : forall sizes es target root leaves n,
  try_sizes ser es target sizes = Some (root, leaves, n) ->
  (N.of_nat (length root) <= target)%N /\ exists s, In s sizes /\ build_roots_leaves ser es s = (root, leaves, n).
Proof.
  induction sizes as [|s rest IH]; intros es target root leaves n H; [discriminate|].
  cbn [try_sizes] in H. destruct (build_roots_leaves ser es s) as [[r l] k] eqn:E.
  destruct (N.leb_spec (N.of_nat (length r)) target).
  - inversion H; subst. split; [assumption|]. exists s. split; [left; reflexivity|exact E].
  - destruct (IH _ _ _ _ _ H) as (A & s' & B & C). split; [exact A|]. exists s'. split; [right; exact B|exact C].
Qed.

Lemma try_sizes_found : forall sizes es target s, In s sizes ->
  (N.of_nat (length (fst (fst (build_roots_leaves ser es s)))) <= target)%N -> try_sizes ser es target sizes <> None.
Proof.
  induction sizes as [|x rest IH]; intros es target s Hin Hfit; [contradiction|].
  cbn [try_sizes]. destruct (build_roots_leaves ser es x) as [[r l] k] eqn:E.
  destruct (N.leb_spec (N.of_nat (length r)) target); [discriminate|].
  destruct Hin as [->|Hin]; [rewrite E in Hfit; cbn in Hfit; lia|]. eapply IH; eauto.
Qed.

(* one leaf holds everything once the leaf size reaches the number of entries *)
Lemma chunks_single : forall es n, es <> [] -> (length es <= N.to_nat n)%nat -> chunks (S (length es)) n es = [es].
Proof.
  intros es n Hne Hn. destruct es as [|e r]; [congruence|]. cbn [chunks].
  rewrite take_firstn, drop_skipn. rewrite firstn_all2 by exact Hn. rewrite skipn_all2 by exact Hn. destruct (length (e :: r)); reflexivity.
Qed.
End Build.
