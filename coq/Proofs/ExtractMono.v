(* For source ranges that are monotone and non-overlapping in the source, accepted plans read pairwise disjoint source
   intervals in ascending order: no source byte is requested twice. *)
From Coq Require Import NArith ZArith List Lia Bool.
Import ListNotations.
From PM Require Import Model.Varint Model.Directory Model.Extract Proofs.Extract.
Open Scope N_scope.

Fixpoint src_mono (rs:list srange) : Prop :=
  match rs with r :: ((r' :: _) as t) => r_src r + r_len r <= r_src r' /\ src_mono t | _ => True end.
(* consecutive plans: the next one starts at or after the end of the previous one *)
Fixpoint plan_chain (ps:list plan) : Prop :=
  match ps with p :: ((q :: _) as t) => p_src p + p_len p <= p_src q /\ plan_chain t | _ => True end.
Definition cl (cds:list (N * N)) : N := fold_right (fun c a => fst c + snd c + a) 0 cds.
Definition last_d (cds:list (N * N)) : N := match rev cds with (_, d) :: _ => d | [] => 0 end.
Lemma last_d_cons c c' r : last_d (c :: c' :: r) = last_d (c' :: r).
Proof. unfold last_d. cbn [rev]. destruct (rev r ++ [c']) as [|x y] eqn:E; [destruct (rev r); discriminate|]. cbn. reflexivity. Qed.

Lemma src_mono_tail r t : src_mono (r :: t) -> src_mono t.
Proof. destruct t; cbn; tauto. Qed.

(* after matching, the ranges left start at or after the end of the last range consumed *)
Lemma match_cds_end : forall cds rs pos rest, match_cds cds rs pos = Some rest -> cds <> [] -> src_mono rs ->
  src_mono rest /\ match rest with r :: _ => pos + cl cds - last_d cds <= r_src r | [] => True end.
Proof.
  induction cds as [|[w d] ct IH]; intros rs pos rest H Hne Hm; [congruence|].
  destruct rs as [|r rt]; cbn [match_cds] in H; [discriminate|].
  destruct (N.eqb_spec (r_len r) w) as [Hw|]; cbn [andb] in H; [|discriminate]. destruct (N.eqb_spec (r_src r) pos) as [Hp|]; [|discriminate].
  destruct ct as [|c' ct'].
  - cbn [match_cds] in H. inversion H; subst rest. split; [eapply src_mono_tail; exact Hm|].
    destruct rt as [|r' rt']; [exact I|]. cbn [src_mono] in Hm. destruct Hm as [Hm1 _]. unfold cl, last_d. cbn [rev app fold_right fst snd]. lia.
  - destruct (IH rt (pos + w + d) rest H ltac:(discriminate) (src_mono_tail _ _ Hm)) as [A B]. split; [exact A|].
    rewrite last_d_cons. destruct rest as [|r0 rest']; [exact I|]. change (cl ((w, d) :: c' :: ct')) with (w + d + cl (c' :: ct')).
    assert (Hld : last_d (c' :: ct') <= cl (c' :: ct')).
    { clear. unfold last_d, cl. generalize (c' :: ct'). intro l. rewrite <- (rev_involutive l) at 2. destruct (rev l) as [|[a b] t]; [cbn; lia|].
      cbn [rev]. rewrite fold_right_app. cbn [fold_right fst snd]. clear. induction (rev t) as [|x y IHy]; cbn; lia. }
    lia.
Qed.

Theorem plans_chain : forall ps rs, plans_cover ps rs = true -> src_mono rs ->
  forallb (fun p => (cds_len p =? p_len p) && last_discard_zero p) ps = true -> plan_chain ps.
Proof.
  induction ps as [|p pt IH]; intros rs Hc Hm Hall; [exact I|].
  cbn [plans_cover] in Hc. destruct (plan_matches p rs) as [rest|] eqn:Ep; [|discriminate].
  cbn [forallb] in Hall. apply andb_true_iff in Hall. destruct Hall as [Hp Hpt]. apply andb_true_iff in Hp. destruct Hp as [Hlen Hz].
  apply N.eqb_eq in Hlen. rewrite plan_matches_eq in Ep. destruct rs as [|r rt]; [discriminate|].
  destruct ((r_src r =? p_src p) && (r_dst r =? p_dst p)); [|discriminate].
  assert (Hne : p_cds p <> []).
  { unfold last_discard_zero in Hz. intro E. rewrite E in Hz. cbn in Hz. discriminate. }
  destruct (match_cds_end _ _ _ _ Ep Hne Hm) as [Hm' Hend].
  assert (Hl0 : last_d (p_cds p) = 0).
  { unfold last_discard_zero in Hz. unfold last_d. destruct (rev (p_cds p)) as [|[a b] t]; [discriminate|]. apply N.eqb_eq in Hz. exact Hz. }
  destruct pt as [|q pt']; [exact I|]. cbn [plan_chain]. split.
  - (* q starts at the first range left *)
    cbn [plans_cover] in Hc. destruct (plan_matches q rest) as [rest'|] eqn:Eq; [|discriminate]. rewrite plan_matches_eq in Eq.
    destruct rest as [|r0 rest0]; [discriminate|]. destruct (N.eqb_spec (r_src r0) (p_src q)) as [Hq|]; cbn [andb] in Eq; [|discriminate].
    unfold cds_len in Hlen. unfold cl in Hend. rewrite Hlen, Hl0 in Hend. lia.
  - apply (IH rest Hc Hm' Hpt).
Qed.

(* no source byte twice: in a chain, two different positions never overlap *)
Lemma chain_lower : forall ps p q, plan_chain (p :: ps) -> In q ps -> (forall x, In x (p :: ps) -> 0 < p_len x) -> p_src p + p_len p <= p_src q.
Proof.
  induction ps as [|a r IH]; intros p q Hc Hin Hpos; [destruct Hin|]. cbn [plan_chain] in Hc. destruct Hc as [H1 H2].
  destruct Hin as [<-|Hin]; [exact H1|]. specialize (IH a q H2 Hin (fun x Hx => Hpos x (or_intror Hx))).
  pose proof (Hpos a (or_intror (or_introl eq_refl))). lia.
Qed.
Lemma plan_chain_tail a l : plan_chain (a :: l) -> plan_chain l.
Proof. destruct l; cbn; tauto. Qed.
Theorem chain_disjoint : forall pre p mid q post, plan_chain (pre ++ p :: mid ++ q :: post) ->
  (forall x, In x (pre ++ p :: mid ++ q :: post) -> 0 < p_len x) -> p_src p + p_len p <= p_src q.
Proof.
  induction pre as [|a r IH]; intros p mid q post Hc Hpos.
  - cbn [app] in *. apply (chain_lower (mid ++ q :: post) p q Hc); [apply in_or_app; right; left; reflexivity|exact Hpos].
  - apply (IH p mid q post); [apply (plan_chain_tail a); exact Hc|]. intros x Hx. apply Hpos. right. exact Hx.
Qed.
