(* Plans: any plans accepted by the checker [plan_ok] write exactly what one request per range writes, and
   request needed + discarded bytes with discards within the budget; plans with disjoint destinations commute. *)
From Coq Require Import NArith ZArith List Lia Bool.
Import ListNotations.
From PM Require Import Model.Varint Model.Directory Model.Extract.
Open Scope N_scope.

Definition peq (f g:mem) : Prop := forall a, f a = g a.

Lemma copy_ext S sp dp w D D' : peq D D' -> peq (copy S sp dp w D) (copy S sp dp w D').
Proof. intros H a. unfold copy. destruct ((dp <=? a) && (a <? dp + w)); auto. Qed.
Lemma exec_cds_ext S : forall cds sp dp D D', peq D D' -> peq (exec_cds S sp dp cds D) (exec_cds S sp dp cds D').
Proof. induction cds as [|[w d] r IH]; intros; cbn; auto. apply IH. now apply copy_ext. Qed.
Lemma exec_all_app S ps qs D : exec_all S (ps ++ qs) D = exec_all S qs (exec_all S ps D).
Proof. unfold exec_all. apply fold_left_app. Qed.
Lemma exec_all_ext S : forall ps D1 D2, peq D1 D2 -> peq (exec_all S ps D1) (exec_all S ps D2).
Proof. induction ps as [|p ps IHp]; intros D1 D2 H; cbn; auto. apply IHp. unfold exec_plan. now apply exec_cds_ext. Qed.

(* destination offsets of the range list are contiguous (what reencodeEntries produces) *)
Fixpoint dst_contig (rs:list srange) : Prop :=
  match rs with r :: ((r' :: _) as t) => r_dst r' = r_dst r + r_len r /\ dst_contig t | _ => True end.
Definition total (rs:list srange) : N := fold_right (fun r a => r_len r + a) 0 rs.

(* the inner matcher of plan_matches, exposed *)
Fixpoint match_cds (cds:list (N*N)) (rs:list srange) (pos:N) : option (list srange) :=
  match cds, rs with
  | [], _ => Some rs
  | (w, d) :: ct, r :: rt => if (r_len r =? w) && (r_src r =? pos) then match_cds ct rt (pos + w + d) else None
  | _ :: _, [] => None
  end.
Lemma plan_matches_eq p rs : plan_matches p rs =
  match rs with r :: _ => if (r_src r =? p_src p) && (r_dst r =? p_dst p) then match_cds (p_cds p) rs (p_src p) else None | [] => None end.
Proof. destruct rs; reflexivity. Qed.

(* one plan = the requests of the ranges it consumes, one each *)
Lemma match_cds_exact S : forall cds rs pos dp rest D,
  match_cds cds rs pos = Some rest -> dst_contig rs ->
  (match rs with r :: _ => r_dst r = dp | [] => True end) ->
  exists used, rs = used ++ rest /\ length used = length cds /\
    peq (exec_cds S pos dp cds D) (exec_all S (map trivial_plan used) D) /\
    fold_right (fun c a => fst c + a) 0 cds = total used /\
    (match rest with r :: _ => used <> [] -> r_dst r = dp + total used | [] => True end).
Proof.
  induction cds as [|[w d] ct IH]; intros rs pos dp rest D Hm Hc Hd.
  - cbn in Hm. inversion Hm; subst. exists []. cbn [app length map]. split; [reflexivity|]. split; [reflexivity|].
    split; [intro a; reflexivity|]. split; [reflexivity|]. destruct rest; [exact I|]. intro H; congruence.
  - destruct rs as [|r rt]; [discriminate|]. cbn [match_cds] in Hm.
    destruct (N.eqb_spec (r_len r) w) as [El|]; [|discriminate]. destruct (N.eqb_spec (r_src r) pos) as [Es|]; [|discriminate]. cbn [andb] in Hm.
    assert (Hc': dst_contig rt) by (destruct rt; [exact I|destruct Hc; assumption]).
    assert (Hd': match rt with r' :: _ => r_dst r' = dp + w | [] => True end).
    { destruct rt as [|r' rt']; [exact I|]. destruct Hc as [Hc1 _]. rewrite Hc1. subst. lia. }
    destruct (IH rt (pos + w + d) (dp + w) rest (copy S pos dp w D) Hm Hc' Hd') as (used & Eu & Lu & Ex & Tu & Rd).
    exists (r :: used). subst. cbn [app length map].
    split; [reflexivity|]. split; [f_equal; exact Lu|]. split; [|split].
    + intro a. cbn [exec_cds]. rewrite (Ex a). unfold exec_all. cbn [fold_left]. unfold exec_plan at 2. cbn [trivial_plan p_src p_dst p_cds exec_cds].
      apply (exec_all_ext S (map trivial_plan used)). intro b. unfold copy. reflexivity.
    + cbn [fold_right fst total]. fold (total used). rewrite Tu. reflexivity.
    + destruct rest as [|r0 rest']; [exact I|]. intros _. destruct used as [|u used'].
      * cbn [app] in Hd'. cbn [total fold_right]. rewrite Hd'. lia.
      * rewrite (Rd ltac:(discriminate)). cbn [total fold_right]. lia.
Qed.

Theorem plans_cover_exact S : forall ps rs D, plans_cover ps rs = true -> dst_contig rs ->
  peq (exec_all S ps D) (exec_all S (map trivial_plan rs) D).
Proof.
  induction ps as [|p pt IH]; intros rs D Hc Hd; cbn [plans_cover] in Hc.
  - destruct rs; [intro; reflexivity|discriminate].
  - rewrite plan_matches_eq in Hc. destruct rs as [|r rt]; [discriminate|].
    destruct (N.eqb_spec (r_src r) (p_src p)) as [Es|]; [|discriminate]. destruct (N.eqb_spec (r_dst r) (p_dst p)) as [Ed|]; [|discriminate]. cbn [andb] in Hc.
    destruct (match_cds (p_cds p) (r :: rt) (p_src p)) as [rest|] eqn:Em; [|discriminate].
    destruct (match_cds_exact S _ _ _ (p_dst p) _ D Em Hd Ed) as (used & Eu & Lu & Ex & Tu & Rd).
    rewrite Eu, map_app, exec_all_app.
    assert (Hrest: dst_contig rest).
    { clear -Eu Hd. revert Hd. rewrite Eu. clear Eu. induction used as [|u us IHu]; intro H; [exact H|].
      apply IHu. destruct (us ++ rest) eqn:E; [exact I|]. cbn [app] in H. rewrite E in H. destruct H; assumption. }
    intro a. change (exec_all S (p :: pt) D) with (exec_all S pt (exec_plan S p D)).
    rewrite (IH rest (exec_plan S p D) Hc Hrest a). apply exec_all_ext. exact Ex.
Qed.

(* ---- bytes requested *)
Lemma match_cds_total : forall cds rs pos rest, match_cds cds rs pos = Some rest ->
  exists used, rs = used ++ rest /\ fold_right (fun c a => fst c + a) 0 cds = total used.
Proof.
  induction cds as [|[w d] ct IH]; intros rs pos rest Hm.
  - cbn in Hm. inversion Hm; subst. exists []. split; reflexivity.
  - destruct rs as [|r rt]; [discriminate|]. cbn [match_cds] in Hm.
    destruct (N.eqb_spec (r_len r) w) as [El|]; [|discriminate]. destruct (r_src r =? pos); [|discriminate]. cbn [andb] in Hm.
    destruct (IH _ _ _ Hm) as (used & Eu & Tu). exists (r :: used). subst. split; [reflexivity|]. cbn [fold_right fst total]. fold (total used). lia.
Qed.
Definition wanted (ps:list plan) : N := fold_right (fun p a => fold_right (fun c b => fst c + b) 0 (p_cds p) + a) 0 ps.
Lemma plans_cover_wanted : forall ps rs, plans_cover ps rs = true -> wanted ps = total rs.
Proof.
  induction ps as [|p pt IH]; intros rs Hc; cbn [plans_cover] in Hc.
  - destruct rs; [reflexivity|discriminate].
  - rewrite plan_matches_eq in Hc. destruct rs as [|r rt]; [discriminate|].
    destruct ((r_src r =? p_src p) && (r_dst r =? p_dst p)); [|discriminate].
    destruct (match_cds (p_cds p) (r :: rt) (p_src p)) as [rest|] eqn:Em; [|discriminate].
    destruct (match_cds_total _ _ _ _ Em) as (used & Eu & Tu). rewrite Eu. cbn [wanted fold_right]. fold (wanted pt).
    rewrite (IH _ Hc), Tu. unfold total. rewrite fold_right_app.
    clear. induction used as [|u us IHu]; cbn; [reflexivity|]. rewrite <- IHu. lia.
Qed.
Lemma cds_len_split cds : fold_right (fun c a => fst c + snd c + a) 0 cds =
  fold_right (fun c b => fst c + b) 0 cds + fold_right (fun c b => snd c + b) 0 cds.
Proof. induction cds as [|[w d] r IH]; cbn; lia. Qed.

Theorem plan_ok_budget rs ps budget : plan_ok rs ps budget = true ->
  (Z.of_N (requested ps) <= Z.of_N (total rs) + budget)%Z /\ (budget = 0%Z -> requested ps = total rs).
Proof.
  unfold plan_ok. intro H. apply andb_true_iff in H. destruct H as [H Hall]. apply andb_true_iff in H. destruct H as [Hcov Hdis].
  apply Z.leb_le in Hdis. pose proof (plans_cover_wanted _ _ Hcov) as Hw.
  assert (Hreq: Z.of_N (requested ps) = (Z.of_N (wanted ps) + discards ps)%Z).
  { clear -Hall. induction ps as [|p pt IH]; [reflexivity|]. cbn [forallb] in Hall. apply andb_true_iff in Hall. destruct Hall as [Hp Hpt].
    apply andb_true_iff in Hp. destruct Hp as [Hlen _]. apply N.eqb_eq in Hlen. unfold cds_len in Hlen.
    cbn [requested wanted discards fold_right]. fold (requested pt) (wanted pt) (discards pt). rewrite N2Z.inj_add, (IH Hpt), <- Hlen, cds_len_split.
    assert (E: Z.of_N (fold_right (fun c b => snd c + b) 0 (p_cds p)) = fold_right (fun c b => (Z.of_N (snd c) + b)%Z) 0%Z (p_cds p)).
    { clear. induction (p_cds p) as [|c r IHc]; [reflexivity|]. cbn [fold_right]. rewrite N2Z.inj_add, IHc. reflexivity. }
    rewrite !N2Z.inj_add, E. lia. }
  rewrite Hreq, Hw. split; [lia|]. intro Hb. subst budget.
  assert (Hd0: (0 <= discards ps)%Z).
  { clear. induction ps as [|p pt IH]; [cbn; lia|]. cbn [discards fold_right]. fold (discards pt).
    assert (0 <= fold_right (fun c b => (Z.of_N (snd c) + b)%Z) 0%Z (p_cds p))%Z by (induction (p_cds p) as [|c r IHc]; cbn; lia). lia. }
  lia.
Qed.

(* ---- schedule independence: plans writing disjoint destination intervals commute *)
Definition wlen (p:plan) : N := fold_right (fun c acc => fst c + acc) 0 (p_cds p).
Definition disjoint (p q:plan) : Prop := p_dst p + wlen p <= p_dst q \/ p_dst q + wlen q <= p_dst p.

Lemma exec_cds_outside S : forall cds sp dp D a,
  (a < dp \/ dp + fold_right (fun c acc => fst c + acc) 0 cds <= a) -> exec_cds S sp dp cds D a = D a.
Proof.
  induction cds as [|[w d] r IH]; intros sp dp D a Ha; [reflexivity|].
  cbn [exec_cds fold_right fst] in *. rewrite IH by lia.
  unfold copy. destruct (N.leb_spec dp a), (N.ltb_spec a (dp + w)); cbn; try reflexivity. lia.
Qed.
Lemma exec_cds_inside S : forall cds sp dp D D' a,
  dp <= a -> a < dp + fold_right (fun c acc => fst c + acc) 0 cds ->
  exec_cds S sp dp cds D a = exec_cds S sp dp cds D' a.
Proof.
  induction cds as [|[w d] r IH]; intros sp dp D D' a H1 H2; [cbn in H2; lia|].
  cbn [exec_cds fold_right fst] in *.
  destruct (N.lt_ge_cases a (dp + w)).
  - rewrite !exec_cds_outside by lia. unfold copy.
    assert ((dp <=? a) && (a <? dp + w) = true) as -> by (apply andb_true_iff; split; [apply N.leb_le|apply N.ltb_lt]; lia). reflexivity.
  - apply IH; lia.
Qed.
Theorem plans_commute S p q D : disjoint p q ->
  peq (exec_plan S q (exec_plan S p D)) (exec_plan S p (exec_plan S q D)).
Proof.
  intros Hd a. unfold exec_plan, disjoint, wlen in *.
  set (lp := fold_right (fun c acc => fst c + acc) 0 (p_cds p)) in *.
  set (lq := fold_right (fun c acc => fst c + acc) 0 (p_cds q)) in *.
  destruct (N.lt_ge_cases a (p_dst q)) as [Hq|Hq]; [|destruct (N.lt_ge_cases a (p_dst q + lq)) as [Hq2|Hq2]].
  - rewrite (exec_cds_outside S (p_cds q)) by (left; exact Hq).
    destruct (N.lt_ge_cases a (p_dst p)) as [Hp|Hp]; [|destruct (N.lt_ge_cases a (p_dst p + lp)) as [Hp2|Hp2]].
    + rewrite !(exec_cds_outside S (p_cds p)) by (left; exact Hp). rewrite (exec_cds_outside S (p_cds q)) by (left; exact Hq). reflexivity.
    + apply exec_cds_inside; assumption.
    + rewrite !(exec_cds_outside S (p_cds p)) by (right; exact Hp2). rewrite (exec_cds_outside S (p_cds q)) by (left; exact Hq). reflexivity.
  - assert (Hout: a < p_dst p \/ p_dst p + lp <= a) by lia.
    rewrite (exec_cds_outside S (p_cds p) _ _ (exec_cds S (p_src q) (p_dst q) (p_cds q) D)) by exact Hout.
    apply exec_cds_inside; assumption.
  - rewrite (exec_cds_outside S (p_cds q)) by (right; exact Hq2).
    destruct (N.lt_ge_cases a (p_dst p)) as [Hp|Hp]; [|destruct (N.lt_ge_cases a (p_dst p + lp)) as [Hp2|Hp2]].
    + rewrite !(exec_cds_outside S (p_cds p)) by (left; exact Hp). rewrite (exec_cds_outside S (p_cds q)) by (right; exact Hq2). reflexivity.
    + apply exec_cds_inside; assumption.
    + rewrite !(exec_cds_outside S (p_cds p)) by (right; exact Hp2). rewrite (exec_cds_outside S (p_cds q)) by (right; exact Hq2). reflexivity.
Qed.

(* any order of execution of plans with pairwise disjoint destinations gives the same bytes: covers every number of
   download workers and every completion order *)
From Coq Require Import Permutation.
Definition pairwise_disjoint (ps:list plan) : Prop := ForallOrdPairs disjoint ps.
Lemma disjoint_sym p q : disjoint p q -> disjoint q p.
Proof. unfold disjoint. tauto. Qed.
Lemma pairwise_perm ps ps' : Permutation ps ps' -> pairwise_disjoint ps -> pairwise_disjoint ps'.
Proof.
  induction 1 as [|x l l' Hp IH|x y l|l l' l'' H1 IH1 H2 IH2]; intro H.
  - exact H.
  - inversion H as [|? ? Hx Hl]; subst. constructor; [|apply IH; exact Hl].
    rewrite Forall_forall in *. intros z Hz. apply Hx. eapply Permutation_in; [apply Permutation_sym; exact Hp|exact Hz].
  - inversion H as [|? ? Hy Hl]; subst. inversion Hl as [|? ? Hx Hl']; subst. inversion Hy as [|? ? Hyx Hyl]; subst.
    constructor; [constructor; [apply disjoint_sym; exact Hyx|exact Hx]|constructor; [exact Hyl|exact Hl']].
  - apply IH2, IH1, H.
Qed.
Theorem exec_all_permutation S : forall ps ps', Permutation ps ps' -> pairwise_disjoint ps ->
  forall D, peq (exec_all S ps D) (exec_all S ps' D).
Proof.
  induction 1 as [|x l l' Hp IH|x y l|l l' l'' H1 IH1 H2 IH2]; intros Hd D.
  - intro; reflexivity.
  - inversion Hd; subst. change (exec_all S (x :: l) D) with (exec_all S l (exec_plan S x D)).
    change (exec_all S (x :: l') D) with (exec_all S l' (exec_plan S x D)). apply IH. assumption.
  - inversion Hd as [|? ? Hy Hl]; subst. inversion Hy as [|? ? Hyx _]; subst.
    change (exec_all S (y :: x :: l) D) with (exec_all S l (exec_plan S x (exec_plan S y D))).
    change (exec_all S (x :: y :: l) D) with (exec_all S l (exec_plan S y (exec_plan S x D))).
    apply exec_all_ext. apply plans_commute. exact Hyx.
  - intro a. rewrite (IH1 Hd D a). apply IH2. eapply pairwise_perm; eauto.
Qed.
