(* The byte accounting of the directory cache (Model/ServerRun.v): totalSize is the sum over the eviction list, and after
   every message of the event loop it is below the limit. *)
From Coq Require Import NArith ZArith List Bool Lia Arith.
Import ListNotations.
From PM Require Import Model.Server Model.ServerRun.
Open Scope Z_scope.

Definition sum_sizes (l:list (nat * key * N)) : Z := fold_right (fun e a => Z.of_N (snd e) + a) 0 l.
Definition ids (l:list (nat * key * N)) : list nat := map (fun e => fst (fst e)) l.

Lemma sum_sizes_app a b : sum_sizes (a ++ b) = sum_sizes a + sum_sizes b.
Proof. induction a as [|e r IH]; cbn; [reflexivity|]. fold (sum_sizes (r ++ b)). fold (sum_sizes r). rewrite IH. lia. Qed.
Lemma lru_del_notin i : forall l, ~ In i (ids l) -> lru_del i l = l.
Proof.
  induction l as [|e r IH]; intro H; [reflexivity|]. cbn in *. destruct (Nat.eqb_spec (fst (fst e)) i) as [E|E]; [exfalso; apply H; left; exact E|].
  cbn. f_equal. apply IH. tauto.
Qed.
Lemma lru_del_spec i : forall l, NoDup (ids l) ->
  sum_sizes (lru_del i l) = sum_sizes l - lru_size i l /\ NoDup (ids (lru_del i l)) /\ (forall j, In j (ids (lru_del i l)) -> In j (ids l)).
Proof.
  induction l as [|e r IH]; intro Hnd; [cbn; repeat split; auto; constructor|].
  cbn [ids map] in Hnd. inversion Hnd as [|? ? Hni Hnd']; subst. unfold lru_del, lru_size. cbn [filter find].
  destruct (Nat.eqb_spec (fst (fst e)) i) as [E|E]; cbn [negb].
  - fold (lru_del i r). rewrite (lru_del_notin i r) by (rewrite <- E; exact Hni). cbn [sum_sizes fold_right]. fold (sum_sizes r).
    repeat split; [lia|exact Hnd'|]. intros j Hj. right. exact Hj.
  - fold (lru_del i r). destruct (IH Hnd') as (S1 & S2 & S3). cbn [sum_sizes fold_right ids map]. fold (sum_sizes (lru_del i r)). fold (sum_sizes r). fold (ids (lru_del i r)).
    unfold lru_size in S1. repeat split.
    + rewrite S1. lia.
    + constructor; [intro H; apply Hni; apply S3; exact H|exact S2].
    + intros j [Hj|Hj]; [left; exact Hj|right; apply S3; exact Hj].
Qed.
Lemma filter_len_le {A} (f:A -> bool) : forall l, (length (filter f l) <= length l)%nat.
Proof. induction l as [|x r IH]; cbn; [lia|]. destruct (f x); cbn; lia. Qed.
Lemma unique_by_id : forall l (a b:nat * key * N), NoDup (ids l) -> In a l -> In b l -> fst (fst a) = fst (fst b) -> a = b.
Proof.
  induction l as [|x r IH]; intros a b Hnd Ha Hb E; [destruct Ha|]. cbn in Hnd. inversion Hnd as [|? ? Hni Hnd']; subst.
  destruct Ha as [Ha|Ha]; destruct Hb as [Hb|Hb].
  - congruence.
  - exfalso. apply Hni. subst x. rewrite E. apply (in_map (fun e => fst (fst e))). exact Hb.
  - exfalso. apply Hni. subst x. rewrite <- E. apply (in_map (fun e => fst (fst e))). exact Ha.
  - apply IH; assumption.
Qed.
Lemma lru_front_spec i l : NoDup (ids l) -> sum_sizes (lru_front i l) = sum_sizes l /\ NoDup (ids (lru_front i l)) /\ (forall j, In j (ids (lru_front i l)) -> In j (ids l)).
Proof.
  intro Hnd. unfold lru_front. destruct (find (fun e => Nat.eqb (fst (fst e)) i) l) as [e|] eqn:Ef; [|repeat split; auto].
  destruct (lru_del_spec i l Hnd) as (S1 & S2 & S3). apply find_some in Ef. destruct Ef as [Hin Hi]. apply Nat.eqb_eq in Hi.
  assert (Hsz : lru_size i l = Z.of_N (snd e)).
  { unfold lru_size. destruct (find (fun e0 => Nat.eqb (fst (fst e0)) i) l) as [e'|] eqn:Ef'.
    - apply find_some in Ef'. destruct Ef' as [Hin' Hi']. apply Nat.eqb_eq in Hi'.
      rewrite (unique_by_id l e' e Hnd Hin' Hin); [reflexivity|congruence].
    - exfalso. pose proof (find_none _ _ Ef' e Hin) as Hf. cbn in Hf. apply Nat.eqb_neq in Hf. congruence. }
  cbn [sum_sizes fold_right ids map]. fold (sum_sizes (lru_del i l)). fold (ids (lru_del i l)). repeat split.
  - rewrite S1, Hsz. lia.
  - constructor; [|exact S2]. rewrite Hi. clear -Hnd. unfold lru_del. intro H. apply in_map_iff in H. destruct H as [x [Hx Hf]]. apply filter_In in Hf.
    destruct Hf as [_ Hf]. apply negb_true_iff in Hf. apply Nat.eqb_neq in Hf. congruence.
  - intros j [Hj|Hj]; [rewrite <- Hj, Hi; apply in_map_iff; exists e; auto|apply S3; exact Hj].
Qed.

(* the accounting invariant *)
Record XInv (x:xstate) : Prop := {
  X_sum : sum_sizes (x_lru x) = x_total x;
  X_nodup : NoDup (ids (x_lru x));
  X_fresh : forall j, In j (ids (x_lru x)) -> (j < x_nid x)%nat }.

Lemma xpurge_inv x n p : XInv x -> XInv (xpurge x n p) /\ x_total (xpurge x n p) <= x_total x /\ x_limit (xpurge x n p) = x_limit x /\ x_nid (xpurge x n p) = x_nid x.
Proof.
  unfold xpurge. generalize (filter (fun kc => (kn (fst kc) =? n)%N && ((ke (fst kc) =? p)%N || (cv_etag (snd kc) =? p)%N)) (cache (x_sys x))).
  intros vs. revert x. induction vs as [|kc r IH]; intros x Hx; cbn [fold_left]; [split; [exact Hx|]; split; [lia|]; split; reflexivity|].
  destruct (map_get (fst kc) (x_map x)) as [i|]; [|apply IH; exact Hx].
  destruct (lru_del_spec i (x_lru x) (X_nodup x Hx)) as (S1 & S2 & S3).
  assert (Hsz : 0 <= lru_size i (x_lru x)) by (unfold lru_size; destruct (find _ _); lia).
  set (x1 := mkX (x_sys x) (lru_del i (x_lru x)) (map_del (fst kc) (x_map x)) (x_total x - lru_size i (x_lru x)) (x_limit x) (x_nid x)).
  assert (Hx1 : XInv x1).
  { constructor; cbn [x1 x_lru x_total x_nid]; [rewrite S1, (X_sum x Hx); reflexivity|exact S2|intros j Hj; apply (X_fresh x Hx); apply S3; exact Hj]. }
  destruct (IH x1 Hx1) as (A & B & C & D). split; [exact A|]. split; [cbn [x1 x_total] in B; lia|]. split; [exact C|exact D].
Qed.

Lemma xevict_inv : forall fuel x, XInv x -> (length (x_lru x) <= fuel)%nat ->
  let x' := xevict fuel x in XInv x' /\ x_limit x' = x_limit x /\ x_nid x' = x_nid x /\ (x_total x' < x_limit x' \/ x_lru x' = []).
Proof.
  induction fuel as [|f IH]; intros x Hx Hf.
  { cbn [xevict]. cbv zeta. split; [exact Hx|]. split; [reflexivity|]. split; [reflexivity|]. right. destruct (x_lru x); [reflexivity|cbn in Hf; lia]. }
  cbn [xevict].
  destruct (Z.ltb_spec (x_total x) (x_limit x)) as [Hlt|Hge]; [cbn zeta; split; [exact Hx|]; split; [reflexivity|]; split; [reflexivity|left; exact Hlt]|].
  destruct (rev (x_lru x)) as [|[[i k] sz] rest] eqn:Er.
  - cbn zeta. split; [exact Hx|]. split; [reflexivity|]. split; [reflexivity|]. right. rewrite <- (rev_involutive (x_lru x)), Er. reflexivity.
  - assert (El : x_lru x = rev rest ++ [(i, k, sz)]) by (rewrite <- (rev_involutive (x_lru x)), Er; reflexivity).
    destruct (lru_del_spec i (x_lru x) (X_nodup x Hx)) as (S1 & S2 & S3).
    assert (Hsz : lru_size i (x_lru x) = Z.of_N sz).
    { pose proof (X_nodup x Hx) as Hnd. rewrite El in Hnd |- *. unfold lru_size.
      assert (Hnone : find (fun e => Nat.eqb (fst (fst e)) i) (rev rest) = None).
      { destruct (find (fun e => Nat.eqb (fst (fst e)) i) (rev rest)) as [e|] eqn:Ef; [|reflexivity]. exfalso.
        apply find_some in Ef. destruct Ef as [Hin Hi]. apply Nat.eqb_eq in Hi. unfold ids in Hnd. rewrite map_app in Hnd. apply NoDup_remove_2 in Hnd.
        apply Hnd. rewrite app_nil_r. cbn [fst]. rewrite <- Hi. apply (in_map (fun e0 : nat * key * N => fst (fst e0))). exact Hin. }
      clear -Hnone. induction (rev rest) as [|e r IHr]; cbn [app find]; [cbn; rewrite Nat.eqb_refl; reflexivity|].
      cbn [find] in Hnone. destruct (Nat.eqb (fst (fst e)) i); [discriminate|]. apply IHr. exact Hnone. }
    assert (Hlen : (length (lru_del i (x_lru x)) <= f)%nat).
    { assert (length (lru_del i (x_lru x)) <= length (rev rest))%nat; [|rewrite El, app_length in Hf; cbn in Hf; lia].
      rewrite El. unfold lru_del. rewrite filter_app. cbn [filter fst]. rewrite Nat.eqb_refl. cbn [negb]. rewrite app_nil_r. apply filter_len_le. }
    set (x1 := mkX _ (lru_del i (x_lru x)) (map_del k (x_map x)) (x_total x - Z.of_N sz) (x_limit x) (x_nid x)).
    assert (Hx1 : XInv x1).
    { constructor; cbn [x1 x_lru x_total x_nid]; [rewrite S1, Hsz, (X_sum x Hx); reflexivity|exact S2|intros j Hj; apply (X_fresh x Hx); apply S3; exact Hj]. }
    destruct (IH x1 Hx1 Hlen) as (A & B & C & D). cbn zeta. split; [exact A|]. split; [exact B|]. split; [exact C|exact D].
Qed.

Lemma XInv_sys x s' : XInv x -> XInv (mkX s' (x_lru x) (x_map x) (x_total x) (x_limit x) (x_nid x)).
Proof. intros [A B C]. constructor; assumption. Qed.

(* one loop message keeps the invariant and leaves the reported size below the limit *)
Definition below (x:xstate) : Prop := XInv x /\ x_total x < x_limit x.
Lemma xloop_req_below x m x' : below x -> xloop_req x m = Some x' -> below x' /\ x_limit x' = x_limit x.
Proof.
  intros [Hx Hb] H. unfold xloop_req in H. destruct (split_req m (reqq (x_sys x))) as [[[pre [[[m' rid] k] p]] post]|]; [|discriminate].
  set (x1 := if (p =? 0)%N then x else xpurge x (kn k) p) in *.
  assert (H1 : XInv x1 /\ x_total x1 <= x_total x /\ x_limit x1 = x_limit x /\ x_nid x1 = x_nid x).
  { unfold x1. destruct (p =? 0)%N; [split; [exact Hx|]; split; [lia|]; split; reflexivity|apply xpurge_inv; exact Hx]. }
  destruct H1 as (A & B & C & D). destruct (exec (x_sys x) (LLoopReq m)) as [s'|]; [|discriminate]. inversion H; subst x'; clear H.
  cbn [x_limit]. split; [|exact C]. split; [|cbn [x_total x_limit]; lia].
  destruct (map_get k (x_map x1)) as [i|].
  - destruct (lru_front_spec i (x_lru x1) (X_nodup x1 A)) as (S1 & S2 & S3).
    constructor; cbn [x_lru x_total x_nid]; [rewrite S1; apply A|exact S2|intros j Hj; apply (X_fresh x1 A); apply S3; exact Hj].
  - constructor; cbn [x_lru x_total x_nid]; apply A.
Qed.
Lemma xloop_resp_below x k x' : below x -> 0 < x_limit x -> xloop_resp x k = Some x' -> below x' /\ x_limit x' = x_limit x.
Proof.
  intros [Hx Hb] Hl H. unfold xloop_resp in H. destruct (split_key k (respq (x_sys x))) as [[[pre [k' cv]] post]|]; [|discriminate].
  destruct (exec (x_sys x) (LLoopResp k)) as [s'|]; [|discriminate]. destruct (cv_ok cv).
  - inversion H; subst x'; clear H.
    set (x1 := mkX s' ((x_nid x, k', entry_size cv) :: x_lru x) ((k', x_nid x) :: map_del k' (x_map x)) (x_total x + Z.of_N (entry_size cv)) (x_limit x) (S (x_nid x))).
    assert (Hx1 : XInv x1).
    { constructor; cbn [x1 x_lru x_total x_nid sum_sizes fold_right ids map fst snd].
      - fold (sum_sizes (x_lru x)). rewrite (X_sum x Hx). lia.
      - constructor; [|apply Hx]. intro Hin. pose proof (X_fresh x Hx _ Hin). lia.
      - intros j [<-|Hj]; [lia|]. pose proof (X_fresh x Hx _ Hj). lia. }
    change (below (xevict (S (length (x_lru x))) x1) /\ x_limit (xevict (S (length (x_lru x))) x1) = x_limit x).
    pose proof (xevict_inv (S (length (x_lru x))) x1 Hx1 ltac:(cbn; lia)) as G. cbv zeta in G.
    remember (xevict (S (length (x_lru x))) x1) as xe eqn:Exe. clear Exe. destruct G as (A & B & C & D).
    cbn [x1 x_limit] in B. split; [|exact B]. split; [exact A|]. destruct D as [D|D]; [exact D|].
    pose proof (X_sum _ A) as Hs. rewrite D in Hs. cbn [sum_sizes fold_right] in Hs. lia.
  - inversion H; subst x'. split; [split; [apply XInv_sys; exact Hx|exact Hb]|reflexivity].
Qed.
Lemma settle_below : forall fuel x, below x -> 0 < x_limit x -> below (settle fuel x) /\ x_limit (settle fuel x) = x_limit x.
Proof.
  induction fuel as [|f IH]; intros x Hb Hl; cbn [settle]; [auto|].
  destruct (reqq (x_sys x)) as [|[[[m rid] k] p] r].
  - destruct (respq (x_sys x)) as [|[k cv] r']; [auto|]. destruct (xloop_resp x k) as [x'|] eqn:E; [|auto].
    destruct (xloop_resp_below x k x' Hb Hl E) as [Hb' Hl']. destruct (IH x' Hb' ltac:(lia)) as [A B]. split; [exact A|lia].
  - destruct (xloop_req x m) as [x'|] eqn:E; [|auto].
    destruct (xloop_req_below x m x' Hb E) as [Hb' Hl']. destruct (IH x' Hb' ltac:(lia)) as [A B]. split; [exact A|lia].
Qed.
Theorem macro_below x m x' : below x -> 0 < x_limit x -> macro x m = Some x' -> below x' /\ x_limit x' = x_limit x.
Proof.
  intros Hb Hl H. unfold macro in H. cbv zeta in H.
  match type of H with option_map (settle ?f) _ = _ => generalize dependent f end. intros fuel H.
  match type of H with option_map _ ?o = _ => destruct o as [x1|] eqn:E; [|discriminate] end. cbn [option_map] in H.
  injection H as Hx'. subst x'.
  assert (H1 : below x1 /\ x_limit x1 = x_limit x).
  { destruct Hb as [Hx Hb].
    assert (G : forall o, on_sys x o = Some x1 -> below x1 /\ x_limit x1 = x_limit x).
    { intros o Ho. unfold on_sys in Ho. destruct o as [s'|]; [|discriminate]. injection Ho as Ho. subst x1. split; [split; [apply XInv_sys; exact Hx|exact Hb]|reflexivity]. }
    destruct m; cbn [on_sys] in E;
      repeat match type of E with
             | context [match ?c with _ => _ end] => destruct c; try discriminate
             end; eapply G; exact E. }
  destruct H1 as [Hb1 Hl1]. destruct (settle_below fuel x1 Hb1 ltac:(lia)) as [A B]. split; [exact A|lia].
Qed.
(* every state the scheduler reaches from the empty cache reports a size below the limit *)
Theorem size_bound : forall limit ms x, 0 < limit ->
  fold_left (fun o m => match o with Some x => macro x m | None => None end) ms (Some (xinit limit)) = Some x ->
  x_total x < limit /\ x_limit x = limit.
Proof.
  intros limit ms x Hl.
  assert (G : forall ms x0, below x0 -> x_limit x0 = limit ->
     fold_left (fun o m => match o with Some x => macro x m | None => None end) ms (Some x0) = Some x -> x_total x < limit /\ x_limit x = limit).
  { clear ms. induction ms as [|m r IH]; intros x0 Hb Hl0 H; cbn [fold_left] in H.
    - injection H as Hx. subst x0. split; [rewrite <- Hl0; apply Hb|exact Hl0].
    - destruct (macro x0 m) as [x1|] eqn:E.
      + destruct (macro_below x0 m x1 Hb ltac:(lia) E) as [Hb1 Hl1]. apply (IH x1 Hb1); [lia|exact H].
      + exfalso. clear -H. induction r as [|y r IHr]; cbn in H; [discriminate|auto]. }
  apply G; [|reflexivity]. split; [constructor; cbn; [reflexivity|constructor|intros j []]|cbn; exact Hl].
Qed.
