(* The leaf-size loop of optimizeDirectories reaches a leaf size that holds every entry, for EVERY entry count a Go slice
   can have: leafSize starts at max(float32(n)/3500, 4096) and is multiplied by the float32 constant 1.2 each round; in
   binary32 round-to-nearest each multiplication adds at least 778, no value met before the loop ends overflows, and the
   integer conversion of a finite non-negative value is its floor. *)
From Flocq Require Import Core Relative IEEE754.BinarySingleNaN IEEE754.Binary IEEE754.Bits.
From Coq Require Import Reals Lra Lia ZArith Psatz List.
Import ListNotations.
From PM Require Import Model.F32.
Open Scope R_scope.

Notation R32 := (B2R 24 128).
Notation fin32 := (is_finite 24 128).
Definition fexp32 := FLT_exp (-149) 24.
Definition rnd32 := round radix2 fexp32 (Znearest (fun x => negb (Z.even x))).
#[local] Instance prec24 : Prec_gt_0 24. Proof. unfold Prec_gt_0; lia. Qed.
#[local] Instance vexp32 : Valid_exp fexp32. Proof. apply FLT_exp_valid. exact prec24. Qed.
Lemma round_is_rnd32 x : round radix2 (SpecFloat.fexp 24 128) (round_mode mode_NE) x = rnd32 x.
Proof. reflexivity. Qed.

Lemma rel32 (x:R) : bpow radix2 (-126) <= Rabs x -> exists eps, Rabs eps <= / 16777216 /\ rnd32 x = x * (1 + eps).
Proof.
  intro H. destruct (relative_error_N_FLT_ex radix2 (-149) 24 prec24 (fun x => negb (Z.even x)) x) as [e [He Hr]].
  - replace (-149 + 24 - 1)%Z with (-126)%Z by lia. exact H.
  - exists e. split; [|exact Hr]. apply Rle_trans with (1 := He). right.
    change (- (24) + 1)%Z with (-23)%Z.
    change (bpow radix2 (-23)) with (/ IZR (Z.pow_pos 2 23)). change (Z.pow_pos 2 23) with 8388608%Z. lra.
Qed.
Lemma rnd32_le_pow (x:R) (k:Z) : (-149 < k)%Z -> Rabs x <= bpow radix2 k -> Rabs (rnd32 x) <= bpow radix2 k.
Proof.
  intros Hk H. unfold rnd32. apply abs_round_le_generic; [exact vexp32|apply valid_rnd_N| |exact H].
  apply generic_format_bpow. unfold fexp32, FLT_exp. lia.
Qed.
Lemma rnd32_mono (x y:R) : x <= y -> rnd32 x <= rnd32 y.
Proof. intro H. unfold rnd32. apply round_le; [exact vexp32|apply valid_rnd_N|exact H]. Qed.
Lemma rnd32_F2R (m e:Z) : (Z.abs m < 2^24)%Z -> (-149 <= e)%Z -> rnd32 (F2R (Float radix2 m e)) = F2R (Float radix2 m e).
Proof.
  intros Hm He. unfold rnd32. apply round_generic; [apply valid_rnd_N|].
  apply generic_format_FLT. apply (FLT_spec radix2 (-149) 24 _ (Float radix2 m e)); [reflexivity|exact Hm|exact He].
Qed.
Lemma rnd32_int (n:Z) : (Z.abs n < 2^24)%Z -> rnd32 (IZR n) = IZR n.
Proof.
  intro H. replace (IZR n) with (F2R (Float radix2 n 0)) by (unfold F2R; cbn; lra). apply rnd32_F2R; [exact H|lia].
Qed.
Lemma lt_emax32 (x:R) (k:Z) : (k < 128)%Z -> Rabs x <= bpow radix2 k -> Rlt_bool (Rabs x) (bpow radix2 128) = true.
Proof. intros Hk H. apply Rlt_bool_true. apply Rle_lt_trans with (1 := H). apply bpow_lt. exact Hk. Qed.

(* float32(n) for a Go int n >= 0 *)
Lemma of_Z32_correct (n:Z) : (0 <= n < 2^63)%Z -> R32 (f32_of_Z n) = rnd32 (IZR n) /\ fin32 (f32_of_Z n) = true.
Proof.
  intro H. unfold f32_of_Z.
  pose proof (binary_normalize_correct 24 128 eq_refl eq_refl mode_NE n 0 false) as C.
  assert (E: F2R (Float radix2 n 0) = IZR n) by (unfold F2R; cbn; lra).
  rewrite E, round_is_rnd32 in C.
  rewrite (lt_emax32 (rnd32 (IZR n)) 63) in C.
  - destruct C as [C1 [C2 _]]. split; assumption.
  - lia.
  - apply rnd32_le_pow; [lia|]. rewrite <- abs_IZR. change (bpow radix2 63) with (IZR (2^63)). apply IZR_le. lia.
Qed.
Lemma of_Z32_small (n:Z) : (0 <= n < 2^24)%Z -> R32 (f32_of_Z n) = IZR n /\ fin32 (f32_of_Z n) = true.
Proof.
  intro H. destruct (of_Z32_correct n) as [A B]; [lia|]. split; [|exact B]. rewrite A. apply rnd32_int. lia.
Qed.
Definition c12 : R := 10066330 / 8388608.
Lemma c1_2_correct : R32 f32_1_2 = c12 /\ fin32 f32_1_2 = true.
Proof.
  unfold f32_1_2.
  pose proof (binary_normalize_correct 24 128 eq_refl eq_refl mode_NE 10066330 (-23) false) as C.
  assert (E: F2R (Float radix2 10066330 (-23)) = c12).
  { unfold F2R, c12. cbn [Fnum Fexp]. change (bpow radix2 (-23)) with (/ IZR (Z.pow_pos 2 23)). change (Z.pow_pos 2 23) with 8388608%Z. lra. }
  rewrite round_is_rnd32, rnd32_F2R in C by (cbn; lia). rewrite E in C.
  rewrite (lt_emax32 c12 1) in C.
  - destruct C as [C1 [C2 _]]. split; assumption.
  - lia.
  - unfold c12. rewrite Rabs_pos_eq by lra. change (bpow radix2 1) with 2. lra.
Qed.

(* one round of the loop: leafSize *= 1.2 *)
Lemma mul_step (s:binary32) : fin32 s = true -> 4096 <= R32 s -> R32 s <= bpow radix2 63 ->
  fin32 (f32_mul s f32_1_2) = true /\ R32 s + 778 <= R32 (f32_mul s f32_1_2) /\ R32 (f32_mul s f32_1_2) <= bpow radix2 64.
Proof.
  intros Hf Hlo Hhi. destruct c1_2_correct as [Hc Hcf]. unfold f32_mul, b32_mult.
  match goal with |- context [Bmult 24 128 ?a ?b ?c ?m s f32_1_2] =>
    pose proof (Bmult_correct 24 128 a b c m s f32_1_2) as C end.
  rewrite Hc, round_is_rnd32 in C.
  assert (P63 : bpow radix2 63 = 9223372036854775808) by (change (bpow radix2 63) with (IZR (Z.pow_pos 2 63)); reflexivity).
  assert (P64 : bpow radix2 64 = 18446744073709551616) by (change (bpow radix2 64) with (IZR (Z.pow_pos 2 64)); reflexivity).
  set (x := R32 s) in *.
  assert (Hy : 0 < x * c12 <= bpow radix2 64) by (unfold c12; rewrite P64; rewrite P63 in Hhi; split; nra).
  assert (Hb : Rabs (rnd32 (x * c12)) <= bpow radix2 64).
  { apply rnd32_le_pow; [lia|]. rewrite Rabs_pos_eq by lra. lra. }
  rewrite (lt_emax32 (rnd32 (x * c12)) 64) in C; [|lia|exact Hb].
  destruct C as [C1 [C2 _]]. split; [rewrite C2, Hf, Hcf; reflexivity|]. rewrite C1.
  destruct (rel32 (x * c12)) as [e [He Hr]].
  { rewrite Rabs_pos_eq by lra. apply Rle_trans with 1; [|unfold c12; nra].
    change (bpow radix2 (-126)) with (/ IZR (Z.pow_pos 2 126)). apply Rmult_le_reg_l with (IZR (Z.pow_pos 2 126)); [apply IZR_lt; reflexivity|].
    rewrite Rinv_r by (apply not_eq_sym, Rlt_not_eq, IZR_lt; reflexivity). rewrite Rmult_1_r. apply IZR_le. discriminate. }
  split.
  - rewrite Hr. apply Rabs_le_inv in He. unfold c12 in *. nra.
  - pose proof (Rle_abs (rnd32 (x * c12))). lra.
Qed.

(* int(leafSize): the floor of a finite non-negative value *)
Lemma trunc32_spec (s:binary32) : fin32 s = true -> 0 <= R32 s -> IZR (trunc32 s) <= R32 s < IZR (trunc32 s) + 1.
Proof.
  destruct s as [sg|sg|sg pl Hpl|sg m e He]; cbn [is_finite]; try discriminate; intros _ H.
  - cbn. lra.
  - cbn [B2R] in *. unfold F2R in *. cbn [Fnum Fexp] in *. unfold trunc32.
    assert (Hs : sg = false).
    { destruct sg; [|reflexivity]. cbn [cond_Zopp] in H. exfalso.
      assert (0 < bpow radix2 e) by apply bpow_gt_0. assert (IZR (Z.neg m) < 0) by (apply IZR_lt; lia). cbn [Z.opp] in H. nra. }
    subst sg. cbn [cond_Zopp]. replace ((1 * Z.pos m)%Z) with (Z.pos m) by lia.
    destruct (Z.leb_spec 0 e) as [Hee|Hee].
    + rewrite <- (IZR_Zpower radix2 e Hee). cbn [radix_val radix2]. rewrite <- mult_IZR. lra.
    + set (d := (2 ^ (- e))%Z).
      assert (Hd : (0 < d)%Z) by (apply Z.pow_pos_nonneg; lia).
      assert (Hb : bpow radix2 e = / IZR d).
      { replace e with (- - e)%Z at 1 by lia. rewrite bpow_opp. f_equal. unfold d. rewrite <- IZR_Zpower by lia. reflexivity. }
      rewrite Hb. assert (HdR : 0 < IZR d) by (apply IZR_lt; exact Hd).
      rewrite Z.quot_div_nonneg by lia.
      pose proof (Z.div_mod (Z.pos m) d ltac:(lia)) as Hdm. pose proof (Z.mod_pos_bound (Z.pos m) d Hd) as Hr.
      set (q := (Z.pos m / d)%Z) in *. set (r := (Z.pos m mod d)%Z) in *.
      assert (E : IZR (Z.pos m) = IZR d * IZR q + IZR r) by (rewrite <- mult_IZR, <- plus_IZR; f_equal; exact Hdm).
      assert (0 <= IZR r < IZR d) by (split; [apply IZR_le|apply IZR_lt]; lia).
      rewrite E. split.
      * apply Rmult_le_reg_r with (IZR d); [exact HdR|]. rewrite Rmult_assoc, Rinv_l by lra. nra.
      * apply Rmult_lt_reg_r with (IZR d); [exact HdR|]. rewrite Rmult_assoc, Rinv_l by lra. nra.
Qed.

(* the start value: finite, at least 4096, far from overflow *)
Lemma leaf_start_bounds (n:Z) : (0 <= n < 2^63)%Z ->
  fin32 (leaf_start n) = true /\ 4096 <= R32 (leaf_start n) <= bpow radix2 63.
Proof.
  intro Hn. destruct (of_Z32_correct n Hn) as [Hx Hxf]. destruct (of_Z32_small 3500) as [Hc Hcf]; [lia|].
  destruct (of_Z32_small 4096) as [Hk Hkf]; [lia|].
  assert (P63 : bpow radix2 63 = 9223372036854775808) by (change (bpow radix2 63) with (IZR (Z.pow_pos 2 63)); reflexivity).
  assert (Hxb : 0 <= rnd32 (IZR n) <= bpow radix2 63).
  { split.
    - replace 0 with (rnd32 0) by (apply round_0; apply valid_rnd_N). apply rnd32_mono. apply IZR_le. lia.
    - pose proof (rnd32_le_pow (IZR n) 63 ltac:(lia)) as B. pose proof (Rle_abs (rnd32 (IZR n))).
      assert (Rabs (IZR n) <= bpow radix2 63); [|lra]. rewrite <- abs_IZR. change (bpow radix2 63) with (IZR (2^63)). apply IZR_le. lia. }
  assert (Hdiv : 0 <= rnd32 (IZR n) / 3500 <= bpow radix2 63) by lra.
  unfold leaf_start.
  set (q := f32_div (f32_of_Z n) (f32_of_Z 3500)).
  assert (Hq : R32 q = rnd32 (rnd32 (IZR n) / 3500) /\ fin32 q = true).
  { unfold q, f32_div, b32_div.
    match goal with |- context [Bdiv 24 128 ?a ?b ?c ?m (f32_of_Z n) (f32_of_Z 3500)] =>
      pose proof (Bdiv_correct 24 128 a b c m (f32_of_Z n) (f32_of_Z 3500)) as C end.
    rewrite Hc, Hx in C. specialize (C ltac:(lra)). rewrite round_is_rnd32 in C.
    rewrite (lt_emax32 _ 63) in C; [|lia|].
    - destruct C as [C1 [C2 _]]. split; [exact C1|]. rewrite C2. exact Hxf.
    - apply rnd32_le_pow; [lia|]. rewrite Rabs_pos_eq; lra. }
  destruct Hq as [Hq Hqf].
  assert (Hqb : 0 <= R32 q <= bpow radix2 63).
  { rewrite Hq. split.
    - replace 0 with (rnd32 0) by (apply round_0; apply valid_rnd_N). apply rnd32_mono. lra.
    - pose proof (rnd32_le_pow (rnd32 (IZR n) / 3500) 63 ltac:(lia)) as B. pose proof (Rle_abs (rnd32 (rnd32 (IZR n) / 3500))).
      assert (Rabs (rnd32 (IZR n) / 3500) <= bpow radix2 63); [|lra].
      rewrite Rabs_pos_eq; lra. }
  unfold f32_lt, b32_compare. rewrite (Bcompare_correct 24 128 q (f32_of_Z 4096) Hqf Hkf). rewrite Hk.
  destruct (Rcompare_spec (R32 q) 4096) as [Hlt|Heq|Hgt].
  - split; [exact Hkf|]. rewrite Hk, P63. lra.
  - split; [exact Hqf|]. lra.
  - split; [exact Hqf|]. lra.
Qed.

(* the loop reaches a size of at least n before anything overflows; every size met on the way is at least 4096 *)
Lemma reach : forall (k:nat) (s:binary32) (n:Z), fin32 s = true -> 4096 <= R32 s -> R32 s <= bpow radix2 63 -> (n <= 2^62)%Z ->
  IZR n <= R32 s + 778 * INR k ->
  exists j, (j <= k)%nat /\ Forall (fun z => (4096 <= z)%Z) (leaf_seq (S j) s) /\ (n <= last (leaf_seq (S j) s) 0)%Z.
Proof.
  induction k as [|k IH]; intros s n Hf Hlo Hhi Hn Hreach.
  - exists O. cbn [leaf_seq last]. destruct (trunc32_spec s Hf ltac:(lra)) as [T1 T2]. cbn [INR] in Hreach.
    assert (IZR n < IZR (trunc32 s) + 1) by lra. assert (IZR 4096 < IZR (trunc32 s) + 1) by lra.
    rewrite <- plus_IZR in *. split; [lia|]. split; [constructor; [|constructor]|]; apply lt_IZR in H, H0; lia.
  - destruct (trunc32_spec s Hf ltac:(lra)) as [T1 T2].
    assert (H4 : (4096 <= trunc32 s)%Z).
    { assert (IZR 4096 < IZR (trunc32 s) + 1) by lra. rewrite <- plus_IZR in H. apply lt_IZR in H. lia. }
    destruct (Z_le_gt_dec n (trunc32 s)) as [Hle|Hgt].
    + exists O. split; [lia|]. cbn [leaf_seq last]. split; [constructor; [exact H4|constructor]|exact Hle].
    + assert (Hsn : R32 s < IZR n).
      { assert (IZR (trunc32 s) + 1 <= IZR n) by (rewrite <- plus_IZR; apply IZR_le; lia). lra. }
      assert (P62 : IZR n <= 4611686018427387904) by (apply IZR_le; exact Hn).
      assert (P63 : bpow radix2 63 = 9223372036854775808) by (change (bpow radix2 63) with (IZR (Z.pow_pos 2 63)); reflexivity).
      destruct (mul_step s Hf Hlo Hhi) as (Mf & Mg & Mh).
      set (s' := f32_mul s f32_1_2) in *.
      assert (Hhi' : R32 s' <= bpow radix2 63).
      { (* s' = rnd(s * 1.2...) with s < 2^62: below 2^63 *)
        destruct c1_2_correct as [Hc Hcf]. unfold s', f32_mul, b32_mult.
        match goal with |- context [Bmult 24 128 ?a ?b ?c ?m s f32_1_2] =>
          pose proof (Bmult_correct 24 128 a b c m s f32_1_2) as C end.
        rewrite Hc, round_is_rnd32 in C.
        assert (Hb : Rabs (rnd32 (R32 s * c12)) <= bpow radix2 63).
        { apply rnd32_le_pow; [lia|]. rewrite Rabs_pos_eq by (unfold c12; nra). rewrite P63. unfold c12. nra. }
        rewrite (lt_emax32 _ 63) in C; [|lia|exact Hb]. destruct C as [C1 _]. rewrite C1. pose proof (Rle_abs (rnd32 (R32 s * c12))). lra. }
      destruct (IH s' n Mf ltac:(lra) Hhi' Hn) as (j & Hj & Hall & Hlast).
      { rewrite S_INR in Hreach. lra. }
      exists (S j). split; [lia|]. change (leaf_seq (S (S j)) s) with (trunc32 s :: leaf_seq (S j) s').
      split; [constructor; [exact H4|exact Hall]|]. cbn [leaf_seq] in *. exact Hlast.
Qed.

Theorem leaf_growth (n:Z) : (0 <= n <= 2^62)%Z ->
  exists k, Forall (fun z => (4096 <= z)%Z) (leaf_seq (S k) (leaf_start n)) /\ (n <= last (leaf_seq (S k) (leaf_start n)) 0)%Z.
Proof.
  intro Hn. destruct (leaf_start_bounds n ltac:(lia)) as (Hf & Hlo & Hhi).
  destruct (reach (Z.to_nat n) (leaf_start n) n Hf Hlo Hhi ltac:(lia)) as (j & _ & A & B).
  - rewrite INR_IZR_INZ, Z2Nat.id by lia. assert (0 <= IZR n) by (apply IZR_le; lia). lra.
  - exists j. split; assumption.
Qed.
