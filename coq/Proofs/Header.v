From Coq Require Import ZArith List Lia Bool Arith.
Import ListNotations.
From PM Require Import Base.HeaderKinds Model.Header.
Open Scope Z_scope.

Definition byte (b:Z) : Prop := 0 <= b < 256.
Lemma firstn_In {A} (x:A) n l : In x (firstn n l) -> In x l.
Proof. intro H. rewrite <- (firstn_skipn n l). apply in_or_app. left; exact H. Qed.
Lemma skipn_In {A} (x:A) n l : In x (skipn n l) -> In x l.
Proof. intro H. rewrite <- (firstn_skipn n l). apply in_or_app. right; exact H. Qed.

Lemma le_bytes_len w v : length (le_bytes w v) = w.
Proof. revert v; induction w; intro; cbn; auto. Qed.
Lemma of_le_bytes w : forall v, 0 <= v < 256 ^ Z.of_nat w -> of_le (le_bytes w v) = v.
Proof.
  induction w as [|k IH]; intros v Hv.
  - cbn in *. lia.
  - cbn [le_bytes of_le]. rewrite Nat2Z.inj_succ, Z.pow_succ_r in Hv by lia.
    rewrite IH.
    + pose proof (Z.div_mod v 256 ltac:(lia)). lia.
    + split; [apply Z.div_pos; lia|apply Z.div_lt_upper_bound; lia].
Qed.
Lemma le_bytes_ok w : forall v, Forall byte (le_bytes w v).
Proof. induction w; intro v; cbn; constructor; auto. apply Z.mod_pos_bound; lia. Qed.
Lemma le_of_le : forall bs, Forall byte bs -> le_bytes (length bs) (of_le bs) = bs.
Proof.
  induction bs as [|b r IH]; intro H; [reflexivity|]. inversion H as [|? ? Hb Hr]; subst. cbn [length le_bytes of_le]. unfold byte in Hb.
  assert (E1: (b + 256 * of_le r) mod 256 = b) by (rewrite (Z.mul_comm 256), Z_mod_plus_full; apply Z.mod_small; lia).
  assert (E2: (b + 256 * of_le r) / 256 = of_le r) by (rewrite (Z.mul_comm 256), Z.div_add by lia; rewrite (Z.div_small b) by lia; lia).
  rewrite E1, E2, IH by assumption. reflexivity.
Qed.
Lemma of_le_range : forall bs, Forall byte bs -> 0 <= of_le bs < 256 ^ Z.of_nat (length bs).
Proof.
  induction bs as [|b r IH]; intro H; [cbn; lia|]. inversion H as [|? ? Hb Hr]; subst. unfold byte in Hb.
  specialize (IH Hr). cbn [of_le length]. rewrite Nat2Z.inj_succ, Z.pow_succ_r by lia. lia.
Qed.

Lemma signed32_back v : -2^31 <= v < 2^31 -> signed32 (v mod 2^32) = v.
Proof.
  intro H. unfold signed32. change (2^31) with 2147483648 in *. change (2^32) with 4294967296.
  destruct (Z.ltb_spec (v mod 4294967296) 2147483648) as [L|L].
  - destruct (Z.lt_ge_cases v 0).
    + replace v with (v + 4294967296 + (-1) * 4294967296) in L by lia. rewrite Z.mod_add in L by lia. rewrite Z.mod_small in L by lia. lia.
    + apply Z.mod_small. lia.
  - destruct (Z.lt_ge_cases v 0).
    + replace v with (v + 4294967296 + (-1) * 4294967296) at 1 by lia. rewrite Z.mod_add by lia. rewrite Z.mod_small by lia. lia.
    + rewrite Z.mod_small in L by lia. lia.
Qed.
Lemma signed32_fwd u : 0 <= u < 2^32 -> signed32 u mod 2^32 = u.
Proof.
  intro H. unfold signed32. change (2^31) with 2147483648 in *. change (2^32) with 4294967296 in *.
  destruct (Z.ltb_spec u 2147483648).
  - apply Z.mod_small; lia.
  - replace (u - 4294967296) with (u + (-1) * 4294967296) by lia. rewrite Z.mod_add by lia. apply Z.mod_small; lia.
Qed.

Lemma enc_len h r : length (enc_field h r) = width (r_kind r).
Proof. unfold enc_field. destruct (r_kind r); cbn; rewrite ?le_bytes_len; reflexivity. Qed.

(* one field: parsing what was written consumes exactly its bytes and recovers the value *)
Lemma field_step h r L rest h0 :
  in_range (r_kind r) (h (r_fld r)) ->
  deserialize_f (r :: L) (enc_field h r ++ rest) h0 =
  deserialize_f L rest (match r_kind r with KMagic _ => h0 | _ => upd h0 (r_fld r) (h (r_fld r)) end).
Proof.
  intros Hr. cbn [deserialize_f]. cbv zeta.
  pose proof (enc_len h r) as Hlen.
  assert (Hlt: Nat.ltb (length (enc_field h r ++ rest)) (width (r_kind r)) = false) by (apply Nat.ltb_ge; rewrite app_length; lia).
  rewrite Hlt. rewrite <- Hlen.
  rewrite firstn_app, firstn_all, Nat.sub_diag, skipn_app, skipn_all, Nat.sub_diag. cbn [firstn skipn app]. rewrite app_nil_r.
  unfold enc_field in *. destruct (r_kind r) as [m|c| | | |]; cbn [in_range] in *.
  - destruct (list_eq_dec Z.eq_dec m m); [reflexivity|congruence].
  - rewrite Hr. cbn [of_le]. replace (c + 256 * 0) with c by lia. rewrite Z.ltb_irrefl. reflexivity.
  - rewrite of_le_bytes by (cbn; lia). reflexivity.
  - rewrite of_le_bytes by (cbn; lia). reflexivity.
  - rewrite of_le_bytes by (cbn; apply Z.mod_pos_bound; lia). rewrite signed32_back by assumption. reflexivity.
  - destruct Hr as [-> | ->]; cbn; reflexivity.
Qed.

(* whole header, for ANY layout table: the reader undoes the writer field by field *)
Fixpoint apply_fields (h:header) (L:list row) (h0:header) : header :=
  match L with [] => h0 | r :: rest => apply_fields h rest (match r_kind r with KMagic _ => h0 | _ => upd h0 (r_fld r) (h (r_fld r)) end) end.

Theorem roundtrip_any_layout h : forall L rest h0,
  header_ok L h -> deserialize_f L (serialize L h ++ rest) h0 = inl (apply_fields h L h0).
Proof.
  induction L as [|r L IH]; intros rest h0 Hok; [reflexivity|].
  inversion Hok as [|? ? H1 H2]; subst.
  unfold serialize. cbn [map concat]. rewrite <- app_assoc. rewrite field_step by assumption.
  apply IH. assumption.
Qed.

Lemma apply_fields_other h : forall L h0 f, ~ In f (map r_fld L) -> apply_fields h L h0 f = h0 f.
Proof.
  induction L as [|r L IH]; intros h0 f Hn; [reflexivity|]. cbn [apply_fields]. cbn [map In] in Hn.
  rewrite IH by tauto. destruct (r_kind r); try reflexivity; unfold upd; destruct (Nat.eqb_spec f (r_fld r)); try reflexivity; exfalso; apply Hn; left; congruence.
Qed.
Lemma apply_fields_get h : forall L h0 r, NoDup (map r_fld L) -> In r L ->
  (forall m, r_kind r <> KMagic m) -> apply_fields h L h0 (r_fld r) = h (r_fld r).
Proof.
  induction L as [|x L IH]; intros h0 r Hnd Hin Hk; [contradiction|].
  cbn [map] in Hnd. inversion Hnd as [|? ? Hnotin Hnd']; subst. cbn [apply_fields].
  destruct Hin as [->|Hin].
  - rewrite apply_fields_other by assumption.
    destruct (r_kind r) eqn:E; try (unfold upd; rewrite Nat.eqb_refl; reflexivity). exfalso. eapply Hk. reflexivity.
  - apply IH; assumption.
Qed.

Lemma serialize_len h : forall L, length (serialize L h) = fold_right (fun r a => (width (r_kind r) + a)%nat) 0%nat L.
Proof. induction L as [|r L IH]; [reflexivity|]. unfold serialize in *. cbn [map concat fold_right]. rewrite app_length, enc_len, IH. reflexivity. Qed.

(* the bytes at a row's offset are that field's encoding (for tables contiguous from their start offset) *)
Lemma serialize_slice h : forall L o r, contiguous_from o L = true -> In r L ->
  firstn (r_w r) (skipn (r_off r - o) (serialize L h)) = enc_field h r.
Proof.
  induction L as [|x L IH]; intros o r Hc Hin; [contradiction|].
  cbn [contiguous_from] in Hc. apply andb_prop in Hc as [Hc1 Hc3]. apply andb_prop in Hc1 as [Hc1 Hc2].
  apply Nat.eqb_eq in Hc1, Hc2.
  unfold serialize. cbn [map concat]. fold (serialize L h).
  destruct Hin as [->|Hin].
  - rewrite Hc1, Nat.sub_diag. cbn [skipn]. rewrite Hc2, <- (enc_len h r).
    rewrite firstn_app, firstn_all, Nat.sub_diag. cbn [firstn]. apply app_nil_r.
  - assert (Hge: (o + r_w x <= r_off r)%nat).
    { clear -Hc3 Hin. revert Hc3 Hin. generalize (o + r_w x)%nat. induction L as [|y L IH]; intros o' Hc Hin; [contradiction|].
      cbn [contiguous_from] in Hc. apply andb_prop in Hc as [Hc1 Hc3]. apply andb_prop in Hc1 as [Hc1 _]. apply Nat.eqb_eq in Hc1.
      destruct Hin as [->|Hin]; [lia|]. specialize (IH _ Hc3 Hin). lia. }
    rewrite skipn_app. rewrite enc_len, <- Hc2.
    rewrite (skipn_all2 (enc_field h x)) by (rewrite enc_len; lia). cbn [app].
    replace (r_off r - o - r_w x)%nat with (r_off r - (o + r_w x))%nat by lia.
    apply IH; assumption.
Qed.

(* ---- the other direction: serialising what was parsed gives the bytes back *)
Lemma deser_other : forall L bs h1 h f, deserialize_f L bs h1 = inl h -> ~ In f (map r_fld L) -> h f = h1 f.
Proof.
  induction L as [|r L IH]; intros bs h1 h f H Hn; cbn [deserialize_f] in H; [inversion H; reflexivity|].
  cbn [map In] in Hn. cbv zeta in H.
  destruct (Nat.ltb (length bs) (width (r_kind r))); [discriminate|].
  assert (Hupd: forall v, upd h1 (r_fld r) v f = h1 f).
  { intro v. unfold upd. destruct (Nat.eqb_spec f (r_fld r)); [exfalso; apply Hn; left; congruence|reflexivity]. }
  destruct (r_kind r) as [m|c| | | |].
  - destruct (list_eq_dec Z.eq_dec _ m); [|discriminate]. eapply IH; eauto.
  - destruct (c <? _); [discriminate|]. erewrite IH; eauto.
  - erewrite IH; eauto.
  - erewrite IH; eauto.
  - erewrite IH; eauto.
  - erewrite IH; eauto.
Qed.

Definition row_canon (r:row) (fb:list Z) : Prop :=
  match r_kind r with
  | KBool => fb = [0] \/ fb = [1]
  | KVersion c => fb = [c]
  | _ => True end.
Fixpoint canon (L:list row) (bs:list Z) : Prop :=
  match L with [] => True | r :: rest => row_canon r (firstn (width (r_kind r)) bs) /\ canon rest (skipn (width (r_kind r)) bs) end.

Theorem bytes_roundtrip_any_layout : forall L bs h0 h,
  NoDup (map r_fld L) -> Forall byte bs -> canon L bs ->
  deserialize_f L bs h0 = inl h ->
  serialize L h = firstn (fold_right (fun r a => (width (r_kind r) + a)%nat) 0%nat L) bs.
Proof.
  induction L as [|r L IH]; intros bs h0 h Hnd Hb Hcan H; [reflexivity|].
  cbn [map] in Hnd. inversion Hnd as [|? ? Hnotin Hnd']; subst.
  destruct Hcan as [Hrc Hcan]. cbn [deserialize_f] in H. cbv zeta in H.
  destruct (Nat.ltb_spec (length bs) (width (r_kind r))) as [|Hlen]; [discriminate|].
  set (w := width (r_kind r)) in *. set (fb := firstn w bs) in *. set (tl := skipn w bs) in *.
  assert (Hfb: Forall byte fb) by (apply Forall_forall; intros x Hx; rewrite Forall_forall in Hb; apply Hb; unfold fb in Hx; exact (firstn_In _ _ _ Hx)).
  assert (Htl: Forall byte tl) by (apply Forall_forall; intros x Hx; rewrite Forall_forall in Hb; apply Hb; unfold tl in Hx; exact (skipn_In _ _ _ Hx)).
  assert (Hfl: length fb = w) by (unfold fb; rewrite firstn_length; lia).
  unfold serialize. cbn [map concat fold_right]. fold (serialize L h).
  rewrite <- (firstn_skipn w bs) at 1. fold fb tl.
  set (F := fold_right (fun r a => (width (r_kind r) + a)%nat) 0%nat L) in *.
  rewrite firstn_app, Hfl. rewrite (firstn_all2 (n:=(width (r_kind r) + F)%nat)) by (fold w; lia).
  assert (EF: (width (r_kind r) + F - w = F)%nat) by (unfold w; lia). rewrite EF. clear EF.
  assert (Henc: forall h1, deserialize_f L tl h1 = inl h ->
            (forall m, r_kind r <> KMagic m) -> h (r_fld r) = h1 (r_fld r)).
  { intros h1 H1 _. eapply deser_other; eauto. }
  unfold enc_field, row_canon in *. unfold w in *.
  destruct (r_kind r) as [m|c| | | |] eqn:Ek.
  - destruct (list_eq_dec Z.eq_dec fb m) as [->|]; [|discriminate]. f_equal. eapply IH; eauto.
  - destruct (c <? of_le fb); [discriminate|]. f_equal; [symmetry; exact Hrc|eapply IH; eauto].
  - f_equal; [|eapply IH; eauto]. rewrite (Henc _ H) by congruence. unfold upd. rewrite Nat.eqb_refl.
    cbn [width] in Hfl. rewrite <- Hfl. apply le_of_le. assumption.
  - f_equal; [|eapply IH; eauto]. rewrite (Henc _ H) by congruence. unfold upd. rewrite Nat.eqb_refl.
    cbn [width] in Hfl. rewrite <- Hfl. apply le_of_le. assumption.
  - f_equal; [|eapply IH; eauto]. rewrite (Henc _ H) by congruence. unfold upd. rewrite Nat.eqb_refl.
    cbn [width] in Hfl. pose proof (of_le_range fb Hfb) as Hr. rewrite Hfl in Hr. change (256 ^ Z.of_nat 4) with (2^32) in Hr.
    rewrite signed32_fwd by exact Hr. rewrite <- Hfl. apply le_of_le. assumption.
  - f_equal; [|eapply IH; eauto]. rewrite (Henc _ H) by congruence. unfold upd. rewrite Nat.eqb_refl.
    destruct Hrc as [->| ->]; reflexivity.
Qed.

(* rejection: a wrong magic number or a version above the gate is an error whatever follows *)
Lemma reject_magic m f rest bs h0 : (7 <= length bs)%nat -> length m = 7%nat -> firstn 7 bs <> m ->
  deserialize_f ((0%nat,7%nat,KMagic m,f) :: rest) bs h0 = inr BadMagic.
Proof.
  intros Hl Hm Hne. cbn [deserialize_f r_kind fst snd width]. rewrite Hm.
  destruct (Nat.ltb_spec (length bs) 7); [lia|]. destruct (list_eq_dec Z.eq_dec (firstn 7 bs) m); [contradiction|reflexivity].
Qed.
