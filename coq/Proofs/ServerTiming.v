(* C08, timing of a 200: data is only ever answered by the final conditional read, executed at an instant at which the version
   that supplied header, directories and offsets is the CURRENT version of the archive. *)
From Coq Require Import NArith List Lia Bool Arith.
Import ListNotations.
From PM Require Import Model.Server Proofs.Server Proofs.ServerExec Proofs.ServerCache.
Open Scope N_scope.

Section Timing.
Context `{V:Version}.

Lemma some_eq {A} (a b:A) : Some a = Some b -> a = b.
Proof. intro H; inversion H; reflexivity. Qed.
Definition is200 (r:resp) : bool := match r with R200 _ _ _ => true | _ => false end.

Lemma retry_no_200 m q a hv : match retry m q a hv with HO _ _ (Some (_, r)) => is200 r = false | _ => True end.
Proof. unfold retry. destruct a; cbn; auto. Qed.
Lemma deliver_no_200 m h cv : match deliver m h cv with HO _ _ (Some (_, r)) => is200 r = false | _ => True end.
Proof.
  destruct h as [w q a|w q a hv o l d|q a hv o l]; cbn [deliver].
  - destruct (negb (cv_ok cv)); [reflexivity|]. destruct (cv_pay cv) as [[hv|v o l]|]; try reflexivity.
    destruct (negb (t_kind q =? 0)); [exact I|]. destruct (negb (zoom_ok hv (t_z q))); [reflexivity|]. destruct (negb (ext_ok hv (t_ext q))); [reflexivity|exact I].
  - destruct (cv_bad cv); [apply retry_no_200|]. destruct (negb (cv_ok cv)); [reflexivity|].
    destruct (cv_pay cv) as [[v|v' o' l']|]; try reflexivity. destruct (dir_lookup v' o' l' (t_id q)); try reflexivity; try exact I.
    destruct (Nat.leb 3 d); [reflexivity|exact I].
  - exact I.
Qed.

(* the 200s among the completed requests *)
Definition oks (s:sys) := filter (fun d => is200 (snd d)) (dones s).
Lemma oks_apply_out s r o : (match o with HO _ _ (Some (_, x)) => is200 x = false | _ => True end) -> oks (apply_out s r o) = oks s.
Proof. destruct o as [h rq [[q x]|]]; cbn; unfold oks; cbn; [intros ->; reflexivity|reflexivity]. Qed.
Lemma oks_deliver_to s mr cv : oks (deliver_to s mr cv) = oks s.
Proof.
  unfold deliver_to. destruct (get_handler _ _) as [h|]; [|reflexivity]. destruct (waiting h) as [w|]; [|reflexivity].
  destruct (Nat.eqb w (fst mr)); [|reflexivity]. apply oks_apply_out. apply deliver_no_200.
Qed.
Lemma oks_fold cv : forall ws s, oks (fold_left (fun st mr => deliver_to st mr cv) ws s) = oks s.
Proof. induction ws as [|mr ws IH]; intro s; cbn [fold_left]; [reflexivity|]. rewrite IH. apply oks_deliver_to. Qed.

Theorem ok_only_by_current_read s l s' : exec s l = Some s' ->
  oks s' = oks s \/
  exists rid q a hv o l0, l = LTileDo rid /\ get_handler rid (handlers s) = Some (HWaitTile q a hv o l0) /\
    exists v, cur s (t_name q) = Some v /\ vtag v = vtag hv /\ oks s' = (rid, q, R200 v (rbase hv q + o) l0) :: oks s.
Proof.
  intro Hex. destruct l as [r q|m|k|k|k|r|k bad|r kind|nm v|nm]; cbv beta iota zeta delta [exec] in Hex.
  - destruct (get_handler r (handlers s)); [discriminate|]. inversion Hex; subst. left. reflexivity.
  - destruct (split_req m (reqq s)) as [[[pre [[[m' r] k] p]] post]|]; [|discriminate]. inversion Hex; subst. left.
    destruct (lookup k _) as [cv|]; [rewrite oks_deliver_to; reflexivity|]. destruct (lookup k (inflight s)); reflexivity.
  - destruct (split_k k (fetches s)) as [[pre post]|]; [|discriminate]. inversion Hex; subst. left. reflexivity.
  - destruct (split_key k (respq s)) as [[[pre [k' cv]] post]|]; [|discriminate]. inversion Hex; subst. left. rewrite oks_fold. reflexivity.
  - inversion Hex; subst. left. reflexivity.
  - destruct (get_handler r (handlers s)) as [[| |q a hv o l0]|] eqn:Hg; try discriminate. apply some_eq in Hex. subst s'.
    destruct (cur s (t_name q)) as [v|] eqn:Ec.
    + destruct (N.eqb_spec (vtag v) (vtag hv)) as [Et|Et].
      * right. exists r, q, a, hv, o, l0. split; [reflexivity|]. split; [exact Hg|]. exists v. split; [exact Ec|]. split; [exact Et|]. reflexivity.
      * left. apply oks_apply_out. apply retry_no_200.
    + left. apply oks_apply_out. reflexivity.
  - destruct (split_k k (fetches s)) as [[pre post]|]; [|discriminate]. inversion Hex; subst. left. reflexivity.
  - destruct (get_handler r (handlers s)) as [[| |q a hv o l0]|]; try discriminate. apply some_eq in Hex. subst s'. left.
    apply oks_apply_out. destruct kind; try reflexivity. apply retry_no_200.
  - destruct (tag_fresh s nm v); [|discriminate]. inversion Hex; subst. left. reflexivity.
  - inversion Hex; subst. left. reflexivity.
Qed.
End Timing.

(* ---- the same over whole runs: every completed 200 was produced by a conditional read of that request, at a point of the run at which
   the version it answers was the bucket's current version of the archive *)
Section TimingRun.
Context `{V:Version}.

Lemma run_labels_none ls : fold_left (fun o l => match o with Some st => exec st l | None => None end) ls None = None.
Proof. induction ls as [|l ls IH]; cbn; auto. Qed.
Lemma run_labels_snoc ls l s : run_labels (ls ++ [l]) s = match run_labels ls s with Some s1 => exec s1 l | None => None end.
Proof. unfold run_labels. rewrite fold_left_app. cbn. reflexivity. Qed.
Lemma run_labels_nil s : run_labels [] s = Some s.
Proof. reflexivity. Qed.

Theorem ok_current_during : forall ls s, run_labels ls init = Some s ->
  forall rid q v o l0, In (rid, q, R200 v o l0) (dones s) ->
  exists ls1 ls2 s1 a hv o', ls = ls1 ++ LTileDo rid :: ls2 /\ run_labels ls1 init = Some s1 /\
    get_handler rid (handlers s1) = Some (HWaitTile q a hv o' l0) /\ cur s1 (t_name q) = Some v /\ vtag v = vtag hv /\ o = rbase hv q + o'.
Proof.
  intros ls. induction ls as [|l ls IH] using rev_ind; intros s Hrun rid q v o l0 Hin.
  - inversion Hrun; subst. contradiction.
  - rewrite run_labels_snoc in Hrun. destruct (run_labels ls init) as [s1|] eqn:E1; [|discriminate].
    assert (Hoks: In (rid, q, R200 v o l0) (oks s)) by (unfold oks; apply filter_In; split; [exact Hin|reflexivity]).
    assert (Hback: In (rid, q, R200 v o l0) (oks s1) -> exists ls1 ls2 s0 a hv o', ls ++ [l] = ls1 ++ LTileDo rid :: ls2 /\ run_labels ls1 init = Some s0 /\
      get_handler rid (handlers s0) = Some (HWaitTile q a hv o' l0) /\ cur s0 (t_name q) = Some v /\ vtag v = vtag hv /\ o = rbase hv q + o').
    { intro H1. unfold oks in H1. apply filter_In in H1. destruct H1 as [H1 _].
      destruct (IH s1 eq_refl rid q v o l0 H1) as (ls1 & ls2 & s0 & a & hv & o' & Els & R).
      exists ls1, (ls2 ++ [l]), s0, a, hv, o'. split; [rewrite Els, <- app_assoc; reflexivity|exact R]. }
    destruct (ok_only_by_current_read s1 l s Hrun) as [Eq|(rid' & q' & a & hv & o' & l1 & El & Hg & v' & Hc & Ht & Eq)].
    + rewrite Eq in Hoks. auto.
    + rewrite Eq in Hoks. destruct Hoks as [E|Hold]; [|auto]. inversion E; subst.
      exists ls, [], s1, a, hv, o'. repeat split; auto.
Qed.
End TimingRun.
