From Coq Require Import NArith ZArith List Lia ZifyN ZifyBool ZifyNat Arith Bool.
Import ListNotations.
From PM Require Import Model.Varint Model.Directory Model.Iterate Model.FindTile Proofs.FindTile.
Open Scope N_scope.

Section Walk.
Variable fetch : N -> N -> option (list entry).
Variable lb : N.

Definition within (lo hi:N) (fl:list entry) : Prop := Forall (fun e => lo <= tid e /\ tid e + run e <= hi /\ 0 < run e) fl.

Lemma within_weaken lo hi lo' hi' fl : lo' <= lo -> hi <= hi' -> within lo hi fl -> within lo' hi' fl.
Proof. intros H1 H2 H. eapply Forall_impl; [|exact H]. cbv beta. intros e (A & B & C). repeat split; lia. Qed.
Lemma within_app lo hi a b : within lo hi a -> within lo hi b -> within lo hi (a ++ b).
Proof. intros; apply Forall_app; auto. Qed.

Lemma cover_none_below lo hi fl id : within lo hi fl -> id < lo -> cover fl id = None.
Proof.
  intros H Hid. unfold cover. induction H as [|e r (A & B & C) Hr IH]; [reflexivity|]. cbn [find].
  unfold covers. assert ((tid e <=? id) = false) as -> by (apply N.leb_gt; lia). cbn [andb]. exact IH.
Qed.
Lemma cover_none_above lo hi fl id : within lo hi fl -> hi <= id -> cover fl id = None.
Proof.
  intros H Hid. unfold cover. induction H as [|e r (A & B & C) Hr IH]; [reflexivity|]. cbn [find].
  unfold covers. assert ((id <? tid e + run e) = false) as -> by (apply N.ltb_ge; lia). rewrite andb_false_r. exact IH.
Qed.
Lemma cover_app a b id : cover (a ++ b) id = match cover a id with Some e => Some e | None => cover b id end.
Proof. unfold cover. induction a as [|x a IH]; [reflexivity|]. cbn [app find]. destruct (covers id x); [reflexivity|exact IH]. Qed.

Lemma wfdir_lo_hi d : forall es lo hi, wfdir fetch lb d lo hi es -> lo <= hi.
Proof.
  induction es as [|e r IH]; intros lo hi H; destruct d; cbn in H; try exact H.
  - destruct H as (A & B & _ & Hr). specialize (IH _ _ Hr). lia.
  - destruct H as (A & B & _ & Hr). specialize (IH _ _ Hr). lia.
Qed.
Lemma wfdir_unfold d lo hi e r : wfdir fetch lb d lo hi (e :: r) =
  (let nxt := next_id hi r in
   lo <= tid e /\ tid e < nxt /\
   (if 0 <? run e then tid e + run e <= nxt
    else match d with O => False | S d' => exists sub, fetch (w64 (lb + off e)) (len e) = Some sub /\ wfdir fetch lb d' (tid e) nxt sub end) /\
   wfdir fetch lb d nxt hi r).
Proof. destruct d; reflexivity. Qed.
Lemma wfdir_nil d lo hi : wfdir fetch lb d lo hi [] = (lo <= hi).
Proof. destruct d; reflexivity. Qed.

Lemma next_id_le d : forall r nxt hi, wfdir fetch lb d nxt hi r -> next_id hi r = nxt \/ True.
Proof. auto. Qed.

(* the flattened tree exists, stays within the bounds, and the directory is ascending with ids < hi *)
Lemma wfdir_flat : forall d es lo hi, wfdir fetch lb d lo hi es ->
  exists fl, flat_dir lb (flatten fetch lb d) es = Some fl /\ within lo hi fl.
Proof.
  induction d as [|d IHd]; induction es as [|e r IHr]; intros lo hi H.
  - exists []. split; [reflexivity|constructor].
  - rewrite wfdir_unfold in H. cbv zeta in H. destruct H as (A & B & C & Hr).
    pose proof (wfdir_lo_hi _ _ _ _ Hr) as Hnh.
    destruct (IHr _ _ Hr) as (fr & Efr & Wr). cbn [flat_dir].
    destruct (0 <? run e) eqn:Erun; [|contradiction].
    rewrite Efr. cbn [option_map]. exists (e :: fr). split; [reflexivity|].
    constructor; [repeat split; try lia; apply N.ltb_lt; exact Erun|]. eapply within_weaken; [| |exact Wr]; lia.
  - exists []. split; [reflexivity|constructor].
  - rewrite wfdir_unfold in H. cbv zeta in H. destruct H as (A & B & C & Hr).
    pose proof (wfdir_lo_hi _ _ _ _ Hr) as Hnh.
    destruct (IHr _ _ Hr) as (fr & Efr & Wr). cbn [flat_dir].
    destruct (0 <? run e) eqn:Erun.
    + rewrite Efr. cbn [option_map]. exists (e :: fr). split; [reflexivity|].
      constructor; [repeat split; try lia; apply N.ltb_lt; exact Erun|]. eapply within_weaken; [| |exact Wr]; lia.
    + destruct C as (sub & Esub & Wsub). rewrite Efr. cbn [flatten]. rewrite Esub.
      destruct (IHd _ _ _ Wsub) as (fs & Efs & Ws). rewrite Efs.
      exists (fs ++ fr). split; [reflexivity|]. apply within_app; [eapply within_weaken; [| |exact Ws]; lia | eapply within_weaken; [| |exact Wr]; lia].
Qed.

Lemma wfdir_ascending d : forall es lo hi, wfdir fetch lb d lo hi es ->
  ascending es /\ (forall e, In e es -> lo <= tid e /\ tid e < hi).
Proof.
  induction es as [|e r IH]; intros lo hi H.
  - split; [intros i j a b _ Hi; destruct i; discriminate|intros e []].
  - rewrite wfdir_unfold in H. cbv zeta in H. destruct H as (A & B & C & Hr).
    pose proof (wfdir_lo_hi _ _ _ _ Hr) as Hnh.
    destruct (IH _ _ Hr) as (Hasc & Hin). split.
    + intros i j a b Hij Ha Hb. destruct i as [|i]; destruct j as [|j]; try lia.
      * cbn in Ha. inversion Ha; subst a. cbn in Hb. apply nth_error_In in Hb. destruct (Hin _ Hb). lia.
      * cbn in Ha, Hb. apply (Hasc i j a b); auto; lia.
    + intros x [<-|Hx]; [split; lia|]. destruct (Hin _ Hx). split; lia.
Qed.

(* what the walk does inside one directory *)
Definition step_dir (d:nat) (es:list entry) (id:N) : wres :=
  match find_tile es id with
  | None => WAbsent
  | Some e => if 0 <? run e then WFound e else walk fetch lb d (w64 (lb + off e)) (len e) id
  end.
Definition res_of (o:option entry) : wres := match o with Some e => WFound e | None => WAbsent end.

Lemma last_le_acc : forall r id acc, last_le r id acc = match last_le r id None with Some x => Some x | None => acc end.
Proof.
  induction r as [|y r IH]; intros id acc; [reflexivity|]. cbn [last_le].
  destruct (tid y <=? id); [|reflexivity]. rewrite (IH id (Some y)). destruct (last_le r id None); reflexivity.
Qed.
Lemma last_le_stop : forall r id acc, (forall x, In x r -> id < tid x) -> last_le r id acc = acc.
Proof.
  induction r as [|y r IH]; intros id acc H; [reflexivity|]. cbn [last_le].
  assert ((tid y <=? id) = false) as -> by (apply N.leb_gt; apply H; left; reflexivity). reflexivity.
Qed.

(* position of the predecessor in an ascending directory *)
Lemma pred_position : forall es id, ascending es ->
  ((forall x, In x es -> id < tid x) /\ last_le es id None = None) \/
  (exists pre e post, es = pre ++ e :: post /\ tid e <= id /\ (forall x, In x post -> id < tid x) /\ last_le es id None = Some e).
Proof.
  induction es as [|e r IH]; intros id Hasc.
  - left. split; [intros x []|reflexivity].
  - assert (Hr: ascending r) by (eapply ascending_tail; eauto).
    assert (Hgt: forall x, In x r -> tid e < tid x).
    { intros x Hx. apply In_nth_error in Hx. destruct Hx as [n Hn]. apply (Hasc 0%nat (S n) e x); [lia|reflexivity|exact Hn]. }
    destruct (N.lt_ge_cases id (tid e)) as [Hlt|Hge].
    + left. split.
      * intros x [<-|Hx]; [exact Hlt|]. specialize (Hgt x Hx). lia.
      * cbn [last_le]. assert ((tid e <=? id) = false) as -> by (apply N.leb_gt; lia). reflexivity.
    + right. cbn [last_le]. assert ((tid e <=? id) = true) as -> by (apply N.leb_le; lia).
      rewrite last_le_acc. destruct (IH id Hr) as [(Hall & ->)|(pre & e' & post & -> & Hle & Hpost & ->)].
      * exists [], e, r. repeat split; auto.
      * exists (e :: pre), e', post. repeat split; auto.
Qed.

Lemma next_id_app hi pre e post : next_id hi (pre ++ e :: post) = next_id (tid e) pre.
Proof. destruct pre; reflexivity. Qed.

Lemma wfdir_app d : forall pre lo hi e post, wfdir fetch lb d lo hi (pre ++ e :: post) ->
  wfdir fetch lb d lo (tid e) pre /\ wfdir fetch lb d (tid e) hi (e :: post).
Proof.
  induction pre as [|x pre IH]; intros lo hi e post H.
  - cbn [app] in H. split.
    + rewrite wfdir_nil. rewrite wfdir_unfold in H. cbv zeta in H. tauto.
    + rewrite wfdir_unfold in *. cbv zeta in *. destruct H as (A & B & C & D). repeat split; auto. lia.
  - cbn [app] in H. rewrite wfdir_unfold in H. cbv zeta in H. rewrite next_id_app in H.
    destruct H as (A & B & C & D). destruct (IH _ _ _ _ D) as (D1 & D2). split; [|exact D2].
    rewrite wfdir_unfold. cbv zeta. repeat split; auto.
Qed.

Lemma flat_dir_app rec : forall a b, flat_dir lb rec (a ++ b) =
  match flat_dir lb rec a, flat_dir lb rec b with Some x, Some y => Some (x ++ y) | _, _ => None end.
Proof.
  induction a as [|e a IH]; intro b; cbn [app flat_dir].
  - destruct (flat_dir lb rec b); reflexivity.
  - rewrite IH. destruct (0 <? run e).
    + destruct (flat_dir lb rec a), (flat_dir lb rec b); reflexivity.
    + destruct (rec (w64 (lb + off e)) (len e)), (flat_dir lb rec a), (flat_dir lb rec b); try reflexivity.
      rewrite app_assoc. reflexivity.
Qed.

Theorem step_dir_cover : forall d es lo hi id fl,
  hi <= 2^63 -> id < 2^63 ->
  wfdir fetch lb d lo hi es ->
  flat_dir lb (flatten fetch lb d) es = Some fl ->
  step_dir d es id = res_of (cover fl id).
Proof.
  induction d as [|d IHd]; intros es lo hi id fl Hhi Hid Hwf Hfl.
  all: unfold step_dir; destruct (wfdir_ascending _ _ _ _ Hwf) as (Hasc & Hin);
       (rewrite find_tile_spec; [|assumption|intros e He; destruct (Hin e He); lia|assumption]); unfold pred_spec;
       destruct (pred_position es id Hasc) as [(Hall & ->)|(pre & e & post & -> & Hle & Hpost & ->)].
  - (* d = 0, no predecessor *)
    destruct es as [|e r]; [cbn in Hfl; inversion Hfl; reflexivity|].
    destruct (wfdir_flat 0 (e :: r) (tid e) hi) as (fl' & Efl & W).
    { rewrite wfdir_unfold in *. cbv zeta in *. destruct Hwf as (A & B & C & D). repeat split; auto. lia. }
    rewrite Hfl in Efl. inversion Efl; subst fl'. rewrite (cover_none_below _ _ _ _ W); [reflexivity|]. apply Hall. left; reflexivity.
  - (* d = 0, predecessor e: a tile entry *)
    destruct (wfdir_app _ _ _ _ _ _ Hwf) as (Wpre & Wepost).
    rewrite flat_dir_app in Hfl.
    destruct (wfdir_flat _ _ _ _ Wpre) as (fpre & Epre & Wp). rewrite Epre in Hfl.
    rewrite wfdir_unfold in Wepost. cbv zeta in Wepost. destruct Wepost as (A & B & C & Wpost).
    destruct (wfdir_flat _ _ _ _ Wpost) as (fpost & Epost & Wq).
    cbn [flat_dir] in Hfl. destruct (0 <? run e) eqn:Erun; [|contradiction].
    rewrite Epost in Hfl. cbn [option_map] in Hfl. inversion Hfl; subst fl. clear Hfl.
    apply N.ltb_lt in Erun. destruct (N.eqb_spec (run e) 0); [lia|].
    rewrite cover_app, (cover_none_above _ _ _ _ Wp) by lia.
    change (e :: fpost) with ([e] ++ fpost). rewrite cover_app. unfold cover at 1. cbn [find]. unfold covers at 1.
    assert ((tid e <=? id) = true) as -> by (apply N.leb_le; lia). cbn [andb].
    destruct (N.ltb_spec (id - tid e) (run e)); destruct (N.ltb_spec id (tid e + run e)); try lia.
    + assert (0 <? run e = true) as -> by (apply N.ltb_lt; lia). reflexivity.
    + assert (Hq': cover fpost id = None).
      { destruct post as [|p post']; [cbn in Epost; inversion Epost; reflexivity|].
        apply (cover_none_below _ _ _ _ Wq). cbn [next_id]. apply Hpost. left; reflexivity. }
      rewrite Hq'. reflexivity.
  - (* d = S d, no predecessor *)
    destruct es as [|e r]; [cbn in Hfl; inversion Hfl; reflexivity|].
    destruct (wfdir_flat (S d) (e :: r) (tid e) hi) as (fl' & Efl & W).
    { rewrite wfdir_unfold in *. cbv zeta in *. destruct Hwf as (A & B & C & D). repeat split; auto. lia. }
    rewrite Hfl in Efl. inversion Efl; subst fl'. rewrite (cover_none_below _ _ _ _ W); [reflexivity|]. apply Hall. left; reflexivity.
  - destruct (wfdir_app _ _ _ _ _ _ Hwf) as (Wpre & Wepost).
    rewrite flat_dir_app in Hfl.
    destruct (wfdir_flat _ _ _ _ Wpre) as (fpre & Epre & Wp). rewrite Epre in Hfl.
    rewrite wfdir_unfold in Wepost. cbv zeta in Wepost. destruct Wepost as (A & B & C & Wpost).
    destruct (wfdir_flat _ _ _ _ Wpost) as (fpost & Epost & Wq).
    pose proof (wfdir_lo_hi _ _ _ _ Wpost) as Hnh.
    assert (Hcq: cover fpost id = None \/ True) by auto.
    assert (Hq: post <> [] -> cover fpost id = None).
    { intro Hne. apply (cover_none_below _ _ _ _ Wq). destruct post as [|p post']; [congruence|]. cbn [next_id]. apply Hpost. left; reflexivity. }
    assert (Hq': cover fpost id = None).
    { destruct post as [|p post']; [cbn in Epost; inversion Epost; reflexivity|apply Hq; discriminate]. }
    cbn [flat_dir] in Hfl. destruct (0 <? run e) eqn:Erun.
    + rewrite Epost in Hfl. cbn [option_map] in Hfl. inversion Hfl; subst fl. clear Hfl.
      apply N.ltb_lt in Erun. destruct (N.eqb_spec (run e) 0); [lia|].
      rewrite cover_app, (cover_none_above _ _ _ _ Wp) by lia.
      change (e :: fpost) with ([e] ++ fpost). rewrite cover_app. unfold cover at 1. cbn [find]. unfold covers at 1.
      assert ((tid e <=? id) = true) as -> by (apply N.leb_le; lia). cbn [andb].
      destruct (N.ltb_spec (id - tid e) (run e)); destruct (N.ltb_spec id (tid e + run e)); try lia.
      * assert (0 <? run e = true) as -> by (apply N.ltb_lt; lia). reflexivity.
      * rewrite Hq'. reflexivity.
    + destruct C as (sub & Esub & Wsub).
      assert (Er0: run e = 0) by (apply N.ltb_ge in Erun; lia). destruct (N.eqb_spec (run e) 0); [|lia]. rewrite Erun.
      rewrite Epost in Hfl. cbn [flatten] in Hfl. rewrite Esub in Hfl.
      destruct (wfdir_flat _ _ _ _ Wsub) as (fs & Efs & Ws). rewrite Efs in Hfl. inversion Hfl; subst fl. clear Hfl.
      cbn [walk]. rewrite Esub.
      change (match find_tile sub id with None => WAbsent | Some e0 => if 0 <? run e0 then WFound e0 else walk fetch lb d (w64 (lb + off e0)) (len e0) id end)
        with (step_dir d sub id).
      rewrite (IHd sub (tid e) (next_id hi post) id fs); [|lia|assumption|assumption|assumption].
      rewrite cover_app, (cover_none_above _ _ _ _ Wp) by lia. rewrite cover_app, Hq'. destruct (cover fs id); reflexivity.
Qed.

(* the whole walk from the root *)
Theorem walk_cover : forall d o l id, wftree fetch lb d o l -> id < 2^63 ->
  exists fl, flatten fetch lb (S d) o l = Some fl /\ walk fetch lb (S d) o l id = res_of (cover fl id).
Proof.
  intros d o l id (es & Ees & Wes) Hid.
  destruct (wfdir_flat _ _ _ _ Wes) as (fl & Efl & _). exists fl. cbn [flatten walk]. rewrite Ees. split; [exact Efl|].
  exact (step_dir_cover d es 0 (2^63) id fl ltac:(lia) Hid Wes Efl).
Qed.
End Walk.
