(* The executable stepper follows the relation: every run of labels is a reachable state. *)
From Coq Require Import NArith List Lia Bool Arith.
Import ListNotations.
From PM Require Import Model.Server Proofs.Server.
Open Scope N_scope.

Section Exec.
Context `{V:Version}.

Lemma split_req_spec m : forall l pre x post, split_req m l = Some (pre, x, post) -> l = pre ++ x :: post /\ fst (fst (fst x)) = m.
Proof.
  induction l as [|y r IH]; intros pre x post H; cbn in H; [discriminate|].
  destruct (Nat.eqb_spec (fst (fst (fst y))) m).
  - inversion H; subst. auto.
  - destruct (split_req m r) as [[[p y'] q]|]; [|discriminate]. inversion H; subst. destruct (IH _ _ _ eq_refl) as [-> E]. auto.
Qed.
Lemma split_key_spec {A} k : forall (l:list (key*A)) pre x post, split_key k l = Some (pre, x, post) -> l = pre ++ x :: post.
Proof.
  induction l as [|y r IH]; intros pre x post H; cbn in H; [discriminate|].
  destruct (key_eqb (fst y) k).
  - inversion H; subst. reflexivity.
  - destruct (split_key k r) as [[[p y'] q]|]; [|discriminate]. inversion H; subst. rewrite (IH _ _ _ eq_refl). reflexivity.
Qed.
Lemma split_k_spec k : forall l pre post, split_k k l = Some (pre, post) -> l = pre ++ k :: post.
Proof.
  induction l as [|y r IH]; intros pre post H; cbn in H; [discriminate|].
  destruct (key_eqb y k) eqn:E.
  - inversion H; subst. apply key_eqb_eq in E. subst. reflexivity.
  - destruct (split_k k r) as [[p q]|]; [|discriminate]. inversion H; subst. rewrite (IH _ _ eq_refl). reflexivity.
Qed.

Theorem exec_step s l s' : exec s l = Some s' -> step s s'.
Proof.
  destruct l as [rid q|m|k|k|k|rid|k bad|rid kind|n v|n]; cbn [exec]; intro H.
  - destruct (get_handler rid (handlers s)) eqn:E; [discriminate|]. inversion H; subst. apply SStart. exact E.
  - destruct (split_req m (reqq s)) as [[[pre [[[m' rid] k] p]] post]|] eqn:E; [|discriminate].
    apply split_req_spec in E. destruct E as [E _]. inversion H; subst. eapply SLoopReq. exact E.
  - destruct (split_k k (fetches s)) as [[pre post]|] eqn:E; [|discriminate].
    apply split_k_spec in E. inversion H; subst. eapply SFetchDo. exact E.
  - destruct (split_key k (respq s)) as [[[pre [k' cv]] post]|] eqn:E; [|discriminate].
    apply split_key_spec in E. inversion H; subst. eapply SLoopResp. exact E.
  - inversion H; subst. apply SEvict.
  - destruct (get_handler rid (handlers s)) as [[| |q a hv o l]|] eqn:E; try discriminate.
    inversion H; subst. eapply STileDo. exact E.
  - destruct (split_k k (fetches s)) as [[pre post]|] eqn:E; [|discriminate].
    apply split_k_spec in E. inversion H; subst. eapply SFetchFail. exact E.
  - destruct (get_handler rid (handlers s)) as [[| |q a hv o l]|] eqn:E; try discriminate.
    inversion H; subst. eapply STileFail. exact E.
  - destruct (tag_fresh s n v) eqn:E; [|discriminate]. inversion H; subst. unfold tag_fresh in E.
    apply andb_true_iff in E. destruct E as [E1 E2]. apply SReplace.
    + apply negb_true_iff in E1. apply N.eqb_neq in E1. exact E1.
    + intros v' Hin Ht. rewrite forallb_forall in E2. specialize (E2 (n, v') Hin). cbn [fst snd] in E2.
      rewrite N.eqb_refl in E2. cbn [andb] in E2. apply negb_true_iff in E2. apply N.eqb_neq in E2. congruence.
  - inversion H; subst. apply SDelete.
Qed.

Theorem run_reach : forall ls s s', reach s -> run_labels ls s = Some s' -> reach s'.
Proof.
  unfold run_labels. induction ls as [|l ls IH]; intros s s' R H; cbn [fold_left] in H.
  - inversion H; subst. exact R.
  - destruct (exec s l) as [s1|] eqn:E.
    + eapply IH; [|exact H]. eapply reach_step; [exact R|]. eapply exec_step. exact E.
    + exfalso. clear -H. induction ls as [|x xs IHx]; cbn in H; [discriminate|auto].
Qed.
End Exec.
