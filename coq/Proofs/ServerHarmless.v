(* C08, second sentence: a replacement that completed before a request began never makes it fail.
   Fix an archive name n whose current version is vc, and a request rid for n.  As long as n is neither replaced nor deleted and no
   fault is injected into reads of n or into this request, the request - whatever the cache holds of older versions, whatever other
   requests, evictions and replacements of other archives are interleaved - completes with the answer of one version of n, never 5xx:
   a stale cached header or directory costs exactly the one retry the handler has, because when the retry purges, every header of n
   left in the system is the current one.  Invariant and proof; the theorem is stated in Properties/C08.v. *)
From Coq Require Import NArith List Lia Bool Arith.
Import ListNotations.
From PM Require Import Model.Server Proofs.Server Proofs.ServerExec Proofs.ServerCoalesce Proofs.ServerCache Proofs.ServerProgress.
Open Scope N_scope.

Section Harmless.
Context `{V:Version}.
Hypothesis root_off_nz : forall v, fst (root v) <> 0.
Hypothesis leaf_base_nz : forall v lo, leaf_base v + lo <> 0.
Variable n : N.
Variable vc : ver.
Variable rid : nat.

(* the labels of the quiet phase *)
Definition allowed (l:label) : Prop :=
  match l with
  | LStart r _ => r <> rid
  | LTileFail r _ => r <> rid
  | LFetchFail k _ => kn k <> n
  | LReplace m _ => m <> n
  | LDelete m => m <> n
  | _ => True
  end.

Definition HC (P:ver -> Prop) (c:list (key*cval)) : Prop :=
  forall cv v, In (hdrkey n, cv) c -> cv_pay cv = Some (PHeader v) -> P v.
Definition HR (rs:list (key*cval)) : Prop :=
  forall cv v, In (hdrkey n, cv) rs -> cv_ok cv = true -> cv_pay cv = Some (PHeader v) -> v = vc.
(* a queued response for n is a success, or the refusal of a tag that is not the current one *)
Definition item_ok (k:key) (cv:cval) : Prop := cv_ok cv = true \/ (cv_bad cv = true /\ ke k <> 0 /\ ke k <> vtag vc).
Definition B2 (rs:list (key*cval)) : Prop := forall k cv, In (k,cv) rs -> kn k = n -> item_ok k cv.

Definition hinv (c rs:list (key*cval)) (rq:list (nat*nat*key*N)) (h:hstate) : Prop :=
  match h with
  | HWaitHdr w q O => t_name q = n
  | HWaitHdr w q (S _) => t_name q = n /\ HR rs /\
      (forall k p, In (w, rid, k, p) rq -> p <> 0 /\ p <> vtag vc /\ HC (fun v => v = vc \/ vtag v = p) c) /\
      ((forall k p, ~ In (w, rid, k, p) rq) -> HC (fun v => v = vc) c)
  | HWaitDir _ q O hv _ _ _ => t_name q = n /\ HR rs /\ HC (fun v => v = vc \/ v = hv) c
  | HWaitTile q O hv _ _ => t_name q = n /\ HR rs /\ HC (fun v => v = vc \/ v = hv) c
  | HWaitDir _ q (S _) hv _ _ _ => t_name q = n /\ hv = vc
  | HWaitTile q (S _) hv _ _ => t_name q = n /\ hv = vc
  end.

Record RI (s:sys) : Prop := {
  R_cur : cur s n = Some vc;
  R_b2 : B2 (respq s);
  R_h : forall h, get_handler rid (handlers s) = Some h -> hinv (cache s) (respq s) (reqq s) h;
  R_d : forall q r, In (rid,q,r) (dones s) -> t_name q = n -> exists v, In (n,v) (hist s) /\ r = answer v q
}.

(* ---- frames *)
Lemma HC_sub P c c' : (forall x, In x c' -> In x c) -> HC P c -> HC P c'.
Proof. intros Hs H cv v Hin. apply H. apply Hs. exact Hin. Qed.
Lemma HC_weaken (P Q:ver -> Prop) c : (forall v, P v -> Q v) -> HC P c -> HC Q c.
Proof. intros Hpq H cv v Hin Hp. apply Hpq. eapply H; eauto. Qed.
Lemma HR_sub rs rs' : (forall x, In x rs' -> In x rs) -> HR rs -> HR rs'.
Proof. intros Hs H cv v Hin. apply H. apply Hs. exact Hin. Qed.
Lemma B2_sub rs rs' : (forall x, In x rs' -> In x rs) -> B2 rs -> B2 rs'.
Proof. intros Hs H k cv Hin. apply H. apply Hs. exact Hin. Qed.

Lemma hinv_frame c rs rq c' rs' rq' h :
  (forall x, In x c' -> In x c) -> (HR rs -> HR rs') ->
  (forall w q a, h = HWaitHdr w q (S a) -> forall k p, In (w, rid, k, p) rq' <-> In (w, rid, k, p) rq) ->
  hinv c rs rq h -> hinv c' rs' rq' h.
Proof.
  intros Hc Hr Hq H. destruct h as [w q [|a]|w q [|a] hv o l d|q [|a] hv o l]; cbn in *; try exact H.
  - destruct H as (Hn & Hhr & H1 & H2). specialize (Hq w q a eq_refl). split; [exact Hn|]. split; [auto|]. split.
    + intros k p Hin. apply Hq in Hin. destruct (H1 k p Hin) as (A & B & C). repeat split; auto. eapply HC_sub; eauto.
    + intros Hno. eapply HC_sub; [exact Hc|]. apply H2. intros k p Hin. apply Hq in Hin. exact (Hno k p Hin).
  - destruct H as (Hn & Hhr & H1). repeat split; auto. eapply HC_sub; eauto.
  - destruct H as (Hn & Hhr & H1). repeat split; auto. eapply HC_sub; eauto.
Qed.
Lemma HC_cons (P:ver -> Prop) c k cv : HC P c -> (k = hdrkey n -> forall v, cv_pay cv = Some (PHeader v) -> P v) -> HC P ((k,cv) :: c).
Proof. intros H Hk cv' v [E|Hin] Ep; [inversion E; subst; eapply Hk; eauto|eapply H; eauto]. Qed.
(* a queued response moves into the cache *)
Lemma hinv_insert c rs rs' rq k cv h : In (k,cv) rs -> cv_ok cv = true -> (forall x, In x rs' -> In x rs) ->
  hinv c rs rq h -> hinv ((k,cv) :: c) rs' rq h.
Proof.
  intros Hin Hok Hsub H.
  assert (Hv: HR rs -> k = hdrkey n -> forall v, cv_pay cv = Some (PHeader v) -> v = vc).
  { intros Hhr -> v Ep. eapply Hhr; eauto. }
  destruct h as [w q [|a]|w q [|a] hv o l d|q [|a] hv o l]; cbn in *; try exact H.
  - destruct H as (Hn & Hhr & H1 & H2). split; [exact Hn|]. split; [eapply HR_sub; eauto|]. split.
    + intros k0 p Hin0. destruct (H1 k0 p Hin0) as (A & B & C). repeat split; auto. apply HC_cons; [exact C|]. intros E v Ep. left. eauto.
    + intro Hno. apply HC_cons; [auto|]. intros E v Ep. eauto.
  - destruct H as (Hn & Hhr & H1). split; [exact Hn|]. split; [eapply HR_sub; eauto|]. apply HC_cons; [exact H1|]. intros E v Ep. left. eauto.
  - destruct H as (Hn & Hhr & H1). split; [exact Hn|]. split; [eapply HR_sub; eauto|]. apply HC_cons; [exact H1|]. intros E v Ep. left. eauto.
Qed.

(* a step of another request leaves the invariant alone *)
Lemma ri_apply_other s r o : r <> rid -> RI s -> RI (apply_out s r o).
Proof.
  intros Hne [A B C D]. destruct o as [h rq dn]. constructor; cbn [apply_out cur respq handlers cache reqq dones hist].
  - exact A.
  - exact B.
  - intros h0 Hg. rewrite get_set_other in Hg by (intro E; apply Hne; symmetry; exact E).
    eapply hinv_frame; [| |  |exact (C h0 Hg)]; auto.
    intros w q0 a0 _ k p. destruct rq as [[k0 p0]|]; [|tauto]. rewrite in_app_iff. cbn. split; [intros [H|[H|[]]]; [exact H|inversion H; subst; contradiction]|auto].
  - intros q r0 Hin Hn. destruct dn as [[q0 r1]|]; [destruct Hin as [E|Hin]; [inversion E; subst; contradiction|]|]; eauto.
Qed.
Lemma ri_deliver_other s m r cv : r <> rid -> RI s -> RI (deliver_to s (m, r) cv).
Proof.
  intros Hne HR0. unfold deliver_to. cbn [fst snd]. destruct (get_handler r (handlers s)) as [h|]; [|exact HR0].
  destruct (waiting h) as [w|]; [|exact HR0]. destruct (Nat.eqb w m); [|exact HR0]. apply ri_apply_other; assumption.
Qed.

(* ---- this request receives a value *)
Lemma answer_meta v q : (t_kind q =? 0) = false -> answer v q = R200 v (meta_off v) (meta_len v).
Proof. intro E. unfold answer. rewrite E. reflexivity. Qed.

Lemma ri_deliver_self s m k cv :
  Inv s -> RI s -> wk (hist s) k cv -> pend_ok s m rid k ->
  (cv_ok cv = true -> cv_bad cv = false) ->
  (kn k = n -> item_ok k cv) ->
  (* the delivered header, if it is one, is the only header of n in the cache, and no other is queued *)
  (k = hdrkey n -> cv_ok cv = true -> (forall cv', In (hdrkey n, cv') (cache s) -> cv' = cv) /\ (forall cv', ~ In (hdrkey n, cv') (respq s))) ->
  (* on the retry the header handed over is the current version's *)
  (forall w q a v, get_handler rid (handlers s) = Some (HWaitHdr w q (S a)) -> w = m -> cv_ok cv = true -> cv_pay cv = Some (PHeader v) -> v = vc) ->
  RI (deliver_to s (m, rid) cv).
Proof.
  intros I R Hwk [Hm [Hs Hex]] Hc3 Hitem Huniq Hretry. unfold deliver_to. cbn [fst snd].
  destruct (get_handler rid (handlers s)) as [h|] eqn:Hg; [|exact R].
  destruct (waiting h) as [w|] eqn:Hw; [|exact R].
  destruct (Nat.eqb_spec w m) as [->|]; [|exact R].
  specialize (Hex h eq_refl Hw). pose proof (I_hand s I _ _ Hg) as Hgood. pose proof (R_h s R h Hg) as Hh.
  pose proof (R_cur s R) as Rc. pose proof (R_b2 s R) as Rb. pose proof (R_d s R) as Rd.
  pose proof (I_cur s I _ _ Rc) as Hvc.
  assert (Hold: forall m0 r0 k0 p0, In (m0, r0, k0, p0) (reqq s) -> (m0 < next s)%nat) by (intros m0 r0 k0 p0 Hin; exact (proj1 (I_req s I _ _ _ _ Hin))).
  (* the shape of the new state after an output of this request *)
  assert (Hout: forall h' rqo dn,
     (forall x, h' = Some x -> hinv (cache s) (respq s) (match rqo with Some (k0,p0) => reqq s ++ [(next s, rid, k0, p0)] | None => reqq s end) x) ->
     (forall q r, dn = Some (q, r) -> t_name q = n -> exists v, In (n, v) (hist s) /\ r = answer v q) ->
     RI (apply_out s rid (HO h' rqo dn))).
  { intros h' rqo dn H1 H2. constructor; cbn [apply_out cur respq handlers cache reqq dones hist]; auto.
    - intros h0 Hg0. destruct h' as [x|]; [rewrite get_set_same in Hg0; inversion Hg0; subst; apply H1; reflexivity|rewrite get_set_none in Hg0; discriminate].
    - intros q r Hin Hn. destruct dn as [[q0 r0]|]; [destruct Hin as [E|Hin]; [inversion E; subst; eapply H2; eauto|]|]; eauto. }
  destruct h as [w q a|w q a hv o l d|q a hv o l]; cbn in Hw; inversion Hw; subst w; cbn [expects] in Hex.
  - (* waiting for the header *)
    subst k. assert (Hn: t_name q = n) by (destruct a; cbn in Hh; tauto).
    assert (Hok: cv_ok cv = true).
    { destruct (Hitem (eq_sym (eq_sym Hn))) as [H|[_ [H _]]]; [exact H|]. cbn in H. congruence. }
    unfold deliver. rewrite Hok. cbn [negb]. specialize (Hwk Hok).
    destruct (cv_pay cv) as [[hv|v o l]|] eqn:Epay; [| |contradiction].
    2:{ destruct Hwk as (_ & _ & _ & _ & _ & Hko). cbn in Hko. destruct Hko; congruence. }
    destruct Hwk as (_ & Hin & Het). cbn [kn hdrkey] in Hin. rewrite Hn in Hin.
    rewrite Hn in Huniq. destruct (Huniq eq_refl Hok) as [Hu1 Hu2].
    (* what the new state knows about the headers of n *)
    assert (Hhdr: match a with O => HR (respq s) /\ HC (fun v => v = vc \/ v = hv) (cache s) | S _ => hv = vc end).
    { destruct a as [|a].
      - split.
        + intros cv' v' Hin' _ _. exfalso. exact (Hu2 cv' Hin').
        + intros cv' v' Hin' Ep. rewrite (Hu1 cv' Hin') in Ep. rewrite Epay in Ep. inversion Ep. right. reflexivity.
      - eapply Hretry; eauto. }
    destruct (t_kind q =? 0) eqn:Ek; cbn [negb].
    2:{ apply Hout; [|intros q0 r0 E; discriminate E]. intros x E. inversion E; subst x. destruct a; cbn; [destruct Hhdr; auto|auto]. }
    destruct (zoom_ok hv (t_z q)) eqn:Ez; cbn [negb].
    2:{ apply Hout; [intros x E; discriminate E|]. intros q0 r0 E _. inversion E; subst. exists hv. split; [exact Hin|].
        unfold answer. rewrite Ek, Ez. reflexivity. }
    destruct (ext_ok hv (t_ext q)) eqn:Ex; cbn [negb].
    2:{ apply Hout; [intros x E; discriminate E|]. intros q0 r0 E _. inversion E; subst. exists hv. split; [exact Hin|].
        unfold answer. rewrite Ek, Ez, Ex. reflexivity. }
    apply Hout; [|intros q0 r0 E; discriminate E]. intros x E. inversion E; subst x. destruct a; cbn; [destruct Hhdr; auto|auto].
  - (* waiting for a directory *)
    subst k. cbn [hgood] in Hgood. destruct Hgood as (Hkind & Hin & Hz & Hx & Hd & Hans & Ho).
    assert (Hn: t_name q = n) by (destruct a; cbn in Hh; tauto). rewrite Hn in Hin.
    assert (Hnz: vtag hv <> 0) by (eapply (I_nz s I); eauto).
    unfold deliver. destruct (cv_bad cv) eqn:Ebad.
    { (* a refusal: the tag of the header this attempt used is not the current one *)
      assert (Hstale: vtag hv <> vtag vc).
      { destruct (Hitem Hn) as [H|[_ [_ H]]]; [exfalso; pose proof (Hc3 H) as Hf; rewrite Ebad in Hf || idtac; discriminate Hf|exact H]. }
      destruct a as [|a]; [|cbn in Hh; destruct Hh as [_ E]; subst hv; contradiction].
      cbn in Hh. destruct Hh as (_ & Hhr & Hhc). unfold retry.
      apply Hout; [|intros q0 r0 E; discriminate E]. intros x E. inversion E; subst x. cbn. rewrite Hn.
      split; [reflexivity|]. split; [exact Hhr|]. split.
      - intros k p Hin'. apply in_app_or in Hin'. destruct Hin' as [Hin'|[E'|[]]]; [apply Hold in Hin'; lia|].
        inversion E'; subst. repeat split; auto.
        eapply HC_weaken; [|exact Hhc]. intros v [-> | ->]; auto.
      - intro Hno. exfalso. apply (Hno (hdrkey n) (vtag hv)). apply in_or_app. right. left. reflexivity. }
    assert (Hok: cv_ok cv = true).
    { destruct (Hitem Hn) as [H|[H _]]; [exact H|congruence]. }
    rewrite Hok. cbn [negb]. specialize (Hwk Hok).
    destruct (cv_pay cv) as [[v|v' o' l']|]; [| |contradiction].
    { destruct Hwk as (Hk & _ & _). cbn in Hk. inversion Hk as [Hke]. contradiction. }
    destruct Hwk as (-> & -> & Hin' & _ & Hke & _). cbn [kn ke ko kl] in Hin', Hke. rewrite Hn in Hin'.
    assert (v' = hv).
    { destruct Hke as [Hke|Hke]; [contradiction|]. symmetry. exact (I_uniq s I _ _ _ Hin Hin' Hke). }
    subst v'. cbn [ko kl].
    assert (E4: (4 - d = S (3 - d))%nat) by lia. rewrite E4, walk_step in Hans.
    destruct (dir_lookup hv o l (t_id q)) as [|to tl|lo ll] eqn:El.
    + apply Hout; [intros x E; discriminate E|]. intros q0 r0 E _. inversion E; subst. exists hv. auto.
    + apply Hout; [|intros q0 r0 E; discriminate E]. intros x E. inversion E; subst x. destruct a; cbn in *; tauto.
    + destruct (Nat.leb_spec 3 d) as [H3|H3].
      * apply Hout; [intros x E; discriminate E|]. intros q0 r0 E _. inversion E; subst. exists hv. split; [exact Hin|].
        assert (d = 3)%nat by lia. subst d. cbn in Hans. symmetry. exact Hans.
      * apply Hout; [|intros q0 r0 E; discriminate E]. intros x E. inversion E; subst x. destruct a; cbn in *; tauto.
Qed.

(* an output of this request *)
Lemma ri_apply_self s h' rqo dn : RI s ->
  (forall x, h' = Some x -> hinv (cache s) (respq s) (match rqo with Some (k0,p0) => reqq s ++ [(next s, rid, k0, p0)] | None => reqq s end) x) ->
  (forall q r, dn = Some (q, r) -> t_name q = n -> exists v, In (n, v) (hist s) /\ r = answer v q) ->
  RI (apply_out s rid (HO h' rqo dn)).
Proof.
  intros R H1 H2. constructor; cbn [apply_out cur respq handlers cache reqq dones hist]; try apply R.
  - intros h0 Hg0. destruct h' as [x|]; [rewrite get_set_same in Hg0; inversion Hg0; subst; apply H1; reflexivity|rewrite get_set_none in Hg0; discriminate].
  - intros q r Hin Hn. destruct dn as [[q0 r0]|]; [destruct Hin as [E|Hin]; [inversion E; subst; eapply H2; eauto|]|]; eapply (R_d s R); eauto.
Qed.
(* the one retry: the stale tag is purged *)
Lemma retry_hinv c rs rq nx q hv :
  t_name q = n -> HR rs -> HC (fun v => v = vc \/ v = hv) c -> vtag hv <> 0 -> vtag hv <> vtag vc ->
  (forall m0 r0 k0 p0, In (m0, r0, k0, p0) rq -> (m0 < nx)%nat) ->
  hinv c rs (rq ++ [(nx, rid, hdrkey (t_name q), vtag hv)]) (HWaitHdr nx q 1).
Proof.
  intros Hn Hhr Hhc Hnz Hst Hold. cbn. rewrite Hn. split; [reflexivity|]. split; [exact Hhr|]. split.
  - intros k p Hin'. apply in_app_or in Hin'. destruct Hin' as [Hin'|[E'|[]]]; [apply Hold in Hin'; lia|].
    inversion E'; subst. repeat split; auto. eapply HC_weaken; [|exact Hhc]. intros v [-> | ->]; auto.
  - intro Hno. exfalso. apply (Hno (hdrkey n) (vtag hv)). apply in_or_app. right. left. reflexivity.
Qed.

Lemma RI_ext s s' : cur s' = cur s -> respq s' = respq s -> handlers s' = handlers s -> cache s' = cache s -> reqq s' = reqq s ->
  dones s' = dones s -> hist s' = hist s -> RI s -> RI s'.
Proof. intros A B C D E F G [R1 R2 R3 R4]. constructor; rewrite ?A, ?B, ?C, ?D, ?E, ?F, ?G; assumption. Qed.

(* after a delivery this request's handler is what it was, or waits for a message with a fresh id *)
Lemma deliver_to_handler s m cv h' : get_handler rid (handlers (deliver_to s (m, rid) cv)) = Some h' ->
  get_handler rid (handlers s) = Some h' \/ (forall w, waiting h' = Some w -> w = next s).
Proof.
  unfold deliver_to. cbn [fst snd]. destruct (get_handler rid (handlers s)) as [h|] eqn:Hg; [|rewrite Hg; auto].
  destruct (waiting h) as [w0|]; [|rewrite Hg; auto]. destruct (Nat.eqb w0 m); [|rewrite Hg; auto].
  pose proof (deliver_shape (next s) h cv) as Hsh. destruct (deliver (next s) h cv) as [h2 rq dn]. cbn [apply_out handlers].
  intro H. right. intros w Hw. destruct h2 as [x|]; [rewrite get_set_same in H; inversion H; subst x|rewrite get_set_none in H; discriminate].
  destruct (Hsh h' w eq_refl Hw) as [E _]. exact E.
Qed.
Lemma deliver_to_other_handler s m r cv : r <> rid -> get_handler rid (handlers (deliver_to s (m, r) cv)) = get_handler rid (handlers s).
Proof.
  intro Hne. unfold deliver_to. cbn [fst snd]. destruct (get_handler r (handlers s)) as [h|]; [|reflexivity].
  destruct (waiting h) as [w0|]; [|reflexivity]. destruct (Nat.eqb w0 m); [|reflexivity].
  destruct (deliver (next s) h cv) as [h2 rq dn]. cbn [apply_out handlers]. apply get_set_other. intro E. apply Hne. symmetry. exact E.
Qed.

(* the waiters of a response, one after the other *)
Lemma ri_fold s0 k cv : forall ws s,
  cache s = cache s0 -> respq s = respq s0 -> hist s = hist s0 ->
  Inv s -> RI s -> wk (hist s) k cv -> (forall m r, In (m, r) ws -> pend_ok s m r k) ->
  (cv_ok cv = true -> cv_bad cv = false) -> (kn k = n -> item_ok k cv) ->
  (k = hdrkey n -> cv_ok cv = true -> (forall cv', In (hdrkey n, cv') (cache s0) -> cv' = cv) /\ (forall cv', ~ In (hdrkey n, cv') (respq s0))) ->
  (forall v w q a, cv_ok cv = true -> cv_pay cv = Some (PHeader v) ->
     get_handler rid (handlers s) = Some (HWaitHdr w q (S a)) -> In (w, rid) ws -> v = vc) ->
  RI (fold_left (fun st mr => deliver_to st mr cv) ws s).
Proof.
  induction ws as [|[m r] ws IH]; intros s Ec Er Eh I R Hwk Hp Hc3 Hitem Huniq Hretry; [exact R|].
  cbn [fold_left]. destruct (deliver_to_static s (m, r) cv) as (A1 & _ & A3 & _ & _ & A6).
  apply IH.
  - congruence. - congruence. - congruence.
  - eapply deliver_to_inv; eauto. apply Hp. left. reflexivity.
  - destruct (Nat.eq_dec r rid) as [->|Hne]; [|apply ri_deliver_other; assumption].
    apply (ri_deliver_self s m k cv); auto.
    + apply Hp. left. reflexivity.
    + rewrite Ec, Er. exact Huniq.
    + intros w q a v Hg Ew Hok Ep. subst w. eapply Hretry; eauto. left. reflexivity.
  - rewrite A6. exact Hwk.
  - intros m' r' Hin. apply deliver_to_pend; auto.
    + exists k. split; [exact Hwk|]. apply Hp. left. reflexivity.
    + apply Hp. right. exact Hin.
  - exact Hc3. - exact Hitem. - exact Huniq.
  - intros v w q a Hok Ep Hg Hin.
    destruct (Nat.eq_dec r rid) as [->|Hne].
    + destruct (deliver_to_handler s m cv _ Hg) as [Hg0|Hfresh].
      * eapply Hretry; eauto. right. exact Hin.
      * specialize (Hfresh w eq_refl). subst w. destruct (Hp (next s) rid (or_intror Hin)) as [Hlt _]. lia.
    + rewrite deliver_to_other_handler in Hg by exact Hne. eapply Hretry; eauto. right. exact Hin.
Qed.

(* what a fetch executed in the quiet phase puts into the response queue *)
Lemma fetch_result_item s k : cur s n = Some vc -> forall k' cv, In (k', cv) (fetch_result s k) -> kn k' = n ->
  item_ok k' cv /\ (cv_ok cv = true -> forall v, cv_pay cv = Some (PHeader v) -> v = vc).
Proof.
  intros Hc k' cv Hin Hn. unfold fetch_result in Hin.
  assert (Hkn: kn k' = kn k).
  { destruct (cur s (kn k)) as [v|]; [|destruct Hin as [E|[]]; inversion E; reflexivity].
    destruct (negb (ke k =? 0) && negb (ke k =? vtag v)); [destruct Hin as [E|[]]; inversion E; reflexivity|].
    destruct ((ko k =? 0) && (kl k =? 0)); [destruct Hin as [E|[E|[]]]|destruct Hin as [E|[]]]; inversion E; reflexivity. }
  rewrite Hn in Hkn. rewrite <- Hkn, Hc in Hin.
  destruct (negb (ke k =? 0) && negb (ke k =? vtag vc)) eqn:Est.
  - destruct Hin as [E|[]]. inversion E as [[Ek Ecv]]. subst k' cv. apply andb_true_iff in Est. destruct Est as [E1 E2].
    apply negb_true_iff in E1, E2. apply N.eqb_neq in E1, E2. split; [right; cbn; auto|]. cbn. discriminate.
  - destruct ((ko k =? 0) && (kl k =? 0)); [destruct Hin as [E|[E|[]]]|destruct Hin as [E|[]]]; inversion E as [[Ek Ecv]]; subst k' cv;
      (split; [left; reflexivity|]); cbn; intros _ v0 Ep; inversion Ep; reflexivity.
Qed.

Lemma purge_in m e c x : In x (purge m e c) -> In x c /\ ((kn (fst x) =? m) && ((ke (fst x) =? e) || (cv_etag (snd x) =? e))) = false.
Proof. unfold purge. intro H. apply filter_In in H. destruct H as [A B]. split; [exact A|]. apply negb_true_iff in B. exact B. Qed.

Lemma nodup_mid (l1 l2:list (key*cval)) k cv : NoDup (filter np (map fst (l1 ++ (k,cv) :: l2))) -> np k = true -> ~ In k (map fst (l1 ++ l2)).
Proof.
  rewrite !map_app. cbn [map fst]. unfold np. rewrite !filter_np_app. cbn [filter]. intros H Hk. change (negb (prepopb k)) with (np k) in H. unfold np in H. rewrite Hk in H.
  apply NoDup_remove_2 in H. intro Hin. apply H. apply in_app_or in Hin. apply in_or_app.
  destruct Hin as [Hin|Hin]; [left|right]; apply filter_In; split; auto.
Qed.

Lemma some_inj {A} (a b:A) : Some a = Some b -> a = b.
Proof. intro H; inversion H; reflexivity. Qed.

Theorem exec_ri s l s' : reach s -> RI s -> allowed l -> exec s l = Some s' -> RI s'.
Proof.
  intros Rch R Hal Hex.
  pose proof (reach_inv root_off_nz leaf_base_nz s Rch) as I.
  pose proof (reach_co root_off_nz s Rch) as Hco.
  pose proof (reach_ci root_off_nz s Rch) as Hci.
  pose proof (R_cur s R) as Rc.
  assert (Hhs: np (hdrkey n) = true) by (apply np_sane; apply hdrkey_sane).
  destruct l as [r q|m|k|k|k|r|k bad|r kind|nm v|nm]; cbv beta iota zeta delta [exec allowed] in Hal, Hex.
  - (* another request starts *)
    destruct (get_handler r (handlers s)); [discriminate|]. inversion Hex; subst s'.
    change (RI (apply_out s r (HO (Some (HWaitHdr (next s) q 0)) (Some (hdrkey (t_name q), 0)) None))).
    apply ri_apply_other; assumption.
  - (* the loop takes a request *)
    destruct (split_req m (reqq s)) as [[[pre [[[m' r] k] p]] post]|] eqn:Es; [|discriminate].
    apply split_req_spec in Es. destruct Es as [Erq Em]. cbn in Em. subst m'. inversion Hex; subst s'; clear Hex.
    set (c1 := if p =? 0 then cache s else purge (kn k) p (cache s)).
    assert (Hitem: pend_ok s m r k) by (eapply (I_req s I); rewrite Erq; apply in_elt).
    assert (Hc1: forall x, In x c1 -> In x (cache s)).
    { unfold c1. destruct (p =? 0); [auto|]. intros x Hx. eapply In_purge; eauto. }
    assert (Hnd: NoDup (filter np (map fst c1))).
    { unfold c1. destruct (p =? 0); [exact (C1 s Hci)|]. unfold purge. apply filter_keys_nodup. exact (C1 s Hci). }
    assert (Hrq: forall m0 rid0 k0 p0, In (m0,rid0,k0,p0) (pre ++ post) -> In (m0,rid0,k0,p0) (reqq s)).
    { intros m0 rid0 k0 p0 Hin. rewrite Erq. apply in_app_or in Hin. apply in_or_app. destruct Hin; [left|right; right]; auto. }
    (* when the message is this request's retry, the purge leaves only the current header of n *)
    assert (Hpurged: r = rid -> forall w q a, get_handler rid (handlers s) = Some (HWaitHdr w q (S a)) -> w = m -> HC (fun v => v = vc) c1).
    { intros -> w q a Hg ->. pose proof (R_h s R _ Hg) as Hh. cbn in Hh. destruct Hh as (Hn & _ & H1 & _).
      destruct Hitem as (_ & _ & Hexp). specialize (Hexp _ Hg eq_refl). cbn in Hexp. rewrite Hn in Hexp. subst k.
      destruct (H1 (hdrkey n) p) as (Hp0 & _ & Hhc); [rewrite Erq; apply in_elt|].
      unfold c1. apply N.eqb_neq in Hp0. rewrite Hp0. cbn [kn hdrkey].
      intros cv v Hin Ep. apply purge_in in Hin. destruct Hin as [Hin Hf]. cbn [fst snd kn ke hdrkey] in Hf.
      rewrite N.eqb_refl in Hf. cbn in Hf. apply orb_false_iff in Hf. destruct Hf as [_ Hf]. apply N.eqb_neq in Hf.
      destruct (Hhc cv v Hin Ep) as [E|E]; [exact E|].
      pose proof (I_cache s I _ _ Hin (E12 s Hco _ _ Hin)) as Hwk. rewrite Ep in Hwk. destruct Hwk as (_ & _ & Het). congruence. }
    set (s1 := upd s c1 (inflight s) (pre ++ post) (respq s) (fetches s)).
    assert (R1: RI s1).
    { constructor; cbn [s1 upd cur respq handlers cache reqq dones hist]; try apply R.
      intros h Hg. pose proof (R_h s R h Hg) as Hh.
      destruct h as [w q [|a]|w q [|a] hv o l d|q [|a] hv o l]; cbn in Hh |- *; try exact Hh.
      - destruct Hh as (Hn & Hhr & H1 & H2). split; [exact Hn|]. split; [exact Hhr|]. split.
        + intros k0 p0 Hin. destruct (H1 k0 p0 (Hrq _ _ _ _ Hin)) as (A & B & C). repeat split; auto. eapply HC_sub; eauto.
        + intro Hno. destruct (Nat.eq_dec r rid) as [Er|Er]; [destruct (Nat.eq_dec w m) as [Ew|Ew]|].
          * eapply Hpurged; eauto.
          * eapply HC_sub; [exact Hc1|]. apply H2. intros k0 p0 Hin. rewrite Erq in Hin. apply in_app_or in Hin.
            destruct Hin as [Hin|[E|Hin]]; [apply (Hno k0 p0); apply in_or_app; auto|inversion E; congruence|apply (Hno k0 p0); apply in_or_app; auto].
          * eapply HC_sub; [exact Hc1|]. apply H2. intros k0 p0 Hin. rewrite Erq in Hin. apply in_app_or in Hin.
            destruct Hin as [Hin|[E|Hin]]; [apply (Hno k0 p0); apply in_or_app; auto|inversion E; congruence|apply (Hno k0 p0); apply in_or_app; auto].
      - destruct Hh as (Hn & Hhr & H1). repeat split; auto. eapply HC_sub; eauto.
      - destruct Hh as (Hn & Hhr & H1). repeat split; auto. eapply HC_sub; eauto. }
    fold c1. fold s1.
    destruct (lookup k c1) as [cv|] eqn:El.
    + destruct (Nat.eq_dec r rid) as [->|Hne]; [|apply ri_deliver_other; assumption].
      assert (Hin1: In (k, cv) c1) by (eapply lookup_In; eauto).
      assert (Hok: cv_ok cv = true) by (eapply (E12 s Hco); eauto).
      apply (ri_deliver_self s1 m k cv).
      * unfold s1. apply Inv_upd; eauto using (I_infl s I), (I_resp s I), (I_fetch s I).
        intros m0 rid0 k0 p0 Hin. eapply (I_req s I); eauto.
      * exact R1.
      * cbn. eapply (I_cache s I); eauto.
      * destruct Hitem as [Hm [Hs Hex]]. split; [exact Hm|]. split; [exact Hs|exact Hex].
      * intros _. eapply (C3 s Hci); eauto.
      * intros _. left. exact Hok.
      * intros Ek _. subst k. split.
        -- intros cv' Hin'. eapply (nodup_entry c1 (hdrkey n)); eauto.
        -- intros cv' Hin'. cbn [s1 upd respq] in Hin'.
           assert (Hck: In (hdrkey n) (ckeys s)) by (unfold ckeys; exact (in_map fst _ _ (Hc1 _ Hin1))).
           apply (C2 s Hci _ Hck (hdrkey_sane n)).
           destruct (E4 s Hco (hdrkey n)) as [Hik|Hpp]; [unfold rkeys; exact (in_map fst _ _ Hin')|exact Hik|exfalso; exact (hdrkey_sane n Hpp)].
      * intros w q a v Hg Ew _ Ep.
        assert (Ek: k = hdrkey n).
        { destruct Hitem as (_ & _ & Hexp). specialize (Hexp _ Hg). subst w. specialize (Hexp eq_refl). cbn in Hexp.
          pose proof (R_h s R _ Hg) as Hh. cbn in Hh. destruct Hh as [Hn _]. rewrite Hn in Hexp. exact Hexp. }
        subst k. eapply (Hpurged eq_refl w q a Hg Ew); eauto.
    + destruct (lookup k (inflight s)) as [ws|] eqn:Ei; (eapply RI_ext; [| | | | | | |exact R1]; reflexivity).
  - (* a fetch reads the bucket *)
    destruct (split_k k (fetches s)) as [[pre post]|] eqn:Es; [|discriminate]. inversion Hex; subst s'; clear Hex.
    constructor; cbn [upd cur respq handlers cache reqq dones hist]; try apply R.
    + intros k' cv Hin Hn. apply in_app_or in Hin. destruct Hin as [Hin|Hin]; [eapply (R_b2 s R); eauto|].
      exact (proj1 (fetch_result_item s k Rc k' cv Hin Hn)).
    + intros h Hg. eapply hinv_frame; [| | |exact (R_h s R h Hg)]; auto; [|tauto].
      intros Hhr cv v Hin Hok Ep. apply in_app_or in Hin. destruct Hin as [Hin|Hin]; [eapply Hhr; eauto|].
      exact (proj2 (fetch_result_item s k Rc _ cv Hin eq_refl) Hok v Ep).
  - (* the loop takes a response *)
    destruct (split_key k (respq s)) as [[[pre [k' cv]] post]|] eqn:Es; [|discriminate].
    apply split_key_spec in Es. inversion Hex; subst s'; clear Hex.
    set (ws := match lookup k' (inflight s) with Some ws => ws | None => [] end).
    set (s1 := upd s (if cv_ok cv then (k', cv) :: cache s else cache s) (remove_key k' (inflight s)) (reqq s) (pre ++ post) (fetches s)).
    assert (Hinr: In (k', cv) (respq s)) by (rewrite Es; apply in_elt).
    assert (Hsub: forall x, In x (pre ++ post) -> In x (respq s)).
    { intros x Hx. rewrite Es. apply in_app_or in Hx. apply in_or_app. destruct Hx; [left|right; right]; auto. }
    assert (Hwk: wk (hist s) k' cv) by (eapply (I_resp s I); eauto).
    assert (R1: RI s1).
    { constructor; cbn [s1 upd cur respq handlers cache reqq dones hist]; try apply R.
      - eapply B2_sub; [exact Hsub|apply R].
      - intros h Hg. pose proof (R_h s R h Hg) as Hh. destruct (cv_ok cv) eqn:Eok.
        + eapply hinv_insert; eauto.
        + eapply hinv_frame; [| | |exact Hh]; auto; [|tauto]. intro Hhr. eapply HR_sub; eauto. }
    apply (ri_fold s1 k' cv ws s1); try reflexivity.
    + unfold s1. apply Inv_upd; eauto using (I_req s I), (I_fetch s I).
      * intros x Hx. destruct (cv_ok cv); [destruct Hx as [<-|Hx]; [right; eauto|left; exact Hx]|left; exact Hx].
      * intros k0 ws0 m0 rid0 Hin Hin2. eapply (I_infl s I); eauto. eapply In_remove_key; eauto.
      * intros k0 cv0 Hin. eapply (I_resp s I). apply Hsub. exact Hin.
    + exact R1.
    + exact Hwk.
    + intros m0 rid0 Hin. unfold ws in Hin. destruct (lookup k' (inflight s)) as [ws0|] eqn:Ei; [|contradiction].
      destruct (I_infl s I k' ws0 m0 rid0 (lookup_In _ _ _ Ei) Hin) as [Hm [Hs Hexp]]. split; [exact Hm|]. split; [exact Hs|exact Hexp].
    + eapply (C3 s Hci); eauto.
    + intro Hn. eapply (R_b2 s R); eauto.
    + intros Ek Hok. subst k'. cbn [s1 upd cache respq]. rewrite Hok.
      assert (Hrk: In (hdrkey n) (rkeys s)) by (unfold rkeys; exact (in_map fst _ _ Hinr)).
      split.
      * intros cv' [E|Hin']; [inversion E; reflexivity|exfalso].
        assert (Hck: In (hdrkey n) (ckeys s)) by (unfold ckeys; exact (in_map fst _ _ Hin')).
        apply (C2 s Hci _ Hck (hdrkey_sane n)). destruct (E4 s Hco _ Hrk) as [Hik|Hpp]; [exact Hik|exfalso; exact (hdrkey_sane n Hpp)].
      * intros cv' Hin'. pose proof (E5 s Hco) as Hnd. unfold rkeys in Hnd. rewrite Es in Hnd.
        apply (nodup_mid pre post (hdrkey n) cv Hnd Hhs). exact (in_map fst _ _ Hin').
    + intros v w q a Hok Ep Hg Hin. cbn [s1 upd handlers] in Hg.
      pose proof (R_h s R _ Hg) as Hh. cbn in Hh. destruct Hh as (Hn & Hhr & _).
      assert (Ek: k' = hdrkey n).
      { unfold ws in Hin. destruct (lookup k' (inflight s)) as [ws0|] eqn:Ei; [|contradiction].
        destruct (I_infl s I k' ws0 w rid (lookup_In _ _ _ Ei) Hin) as (_ & _ & Hexp). specialize (Hexp _ Hg eq_refl). cbn in Hexp. rewrite Hn in Hexp. exact Hexp. }
      subst k'. eapply Hhr; eauto.
  - (* eviction *)
    inversion Hex; subst s'; clear Hex.
    constructor; cbn [upd cur respq handlers cache reqq dones hist]; try apply R.
    intros h Hg. eapply hinv_frame; [| | |exact (R_h s R h Hg)]; auto; [|tauto]. intros x Hx. eapply In_remove_key; eauto.
  - (* a tile read *)
    destruct (get_handler r (handlers s)) as [[| |q a hv o l]|] eqn:Hg; try discriminate. apply some_inj in Hex; subst s'.
    destruct (Nat.eq_dec r rid) as [->|Hne].
    2:{ destruct (cur s (t_name q)) as [v|]; [destruct (vtag v =? vtag hv)|]; apply ri_apply_other; assumption. }
    pose proof (R_h s R _ Hg) as Hh. pose proof (I_hand s I _ _ Hg) as Hgood. cbn in Hgood. destruct Hgood as [Hin Hans].
    assert (Hn: t_name q = n) by (destruct a; cbn in Hh; tauto). rewrite Hn in *. rewrite Rc.
    destruct (N.eqb_spec (vtag vc) (vtag hv)) as [Et|Et].
    + assert (vc = hv) by (eapply (I_uniq s I); eauto using (I_cur s I)). subst hv.
      apply ri_apply_self; [exact R|intros x E; discriminate E|]. intros q0 r0 E _. inversion E; subst. exists vc. split; [exact Hin|]. symmetry. exact Hans.
    + destruct a as [|a]; [|cbn in Hh; destruct Hh as [_ E]; subst hv; contradiction].
      cbn in Hh. destruct Hh as (_ & Hhr & Hhc). unfold retry.
      apply ri_apply_self; [exact R| |intros q0 r0 E; discriminate E].
      intros x E. inversion E; subst x. apply retry_hinv; auto.
      * eapply (I_nz s I); eauto.
      * intros m0 r0 k0 p0 Hin0. exact (proj1 (I_req s I _ _ _ _ Hin0)).
  - (* a fetch for another archive fails *)
    destruct (split_k k (fetches s)) as [[pre post]|] eqn:Es; [|discriminate]. inversion Hex; subst s'; clear Hex.
    constructor; cbn [upd cur respq handlers cache reqq dones hist]; try apply R.
    + intros k' cv Hin Hn. apply in_app_or in Hin. destruct Hin as [Hin|[E|[]]]; [eapply (R_b2 s R); eauto|]. inversion E; subst. contradiction.
    + intros h Hg. eapply hinv_frame; [| | |exact (R_h s R h Hg)]; auto; [|tauto].
      intros Hhr cv v Hin Hok Ep. apply in_app_or in Hin. destruct Hin as [Hin|[E|[]]]; [eapply Hhr; eauto|]. inversion E; subst. cbn in Hal. contradiction.
  - (* the tile read of another request fails *)
    destruct (get_handler r (handlers s)) as [[| |q a hv o l]|] eqn:Hg; try discriminate. apply some_inj in Hex; subst s'.
    apply ri_apply_other; assumption.
  - (* another archive is replaced *)
    destruct (tag_fresh s nm v); [|discriminate]. inversion Hex; subst s'; clear Hex.
    constructor; cbn [cur respq handlers cache reqq dones hist]; try apply R.
    + destruct (N.eqb_spec n nm); [congruence|exact Rc].
    + intros q r Hin Hn. destruct (R_d s R q r Hin Hn) as [v0 [Hv Ha]]. exists v0. split; [right; exact Hv|exact Ha].
  - (* another archive is deleted *)
    inversion Hex; subst s'; clear Hex.
    constructor; cbn [cur respq handlers cache reqq dones hist]; try apply R.
    destruct (N.eqb_spec n nm); [congruence|exact Rc].
Qed.

(* the whole quiet phase *)
Lemma run_ri : forall ls s s', reach s -> RI s -> Forall allowed ls -> run_labels ls s = Some s' -> RI s'.
Proof.
  unfold run_labels. induction ls as [|l ls IH]; intros s s' Rch R Hal H; cbn [fold_left] in H.
  - inversion H; subst. exact R.
  - inversion Hal as [|x xs Hl Hls]; subst. destruct (exec s l) as [s1|] eqn:E.
    + eapply (IH s1); [| |exact Hls|exact H].
      * eapply reach_step; [exact Rch|]. eapply exec_step. exact E.
      * eapply exec_ri; eauto.
    + exfalso. clear -H. induction ls as [|x xs IHx]; cbn in H; [discriminate|auto].
Qed.

Lemma walk_not_500 v : forall f o l id, walk v o l id f <> R500.
Proof. induction f as [|f IH]; intros o l id; cbn; [discriminate|]. destruct (dir_lookup v o l id); try discriminate. apply IH. Qed.
Lemma answer_not_500 v q : answer v q <> R500.
Proof.
  unfold answer. destruct (negb (t_kind q =? 0)); [discriminate|]. destruct (negb (zoom_ok v (t_z q))); [discriminate|].
  destruct (negb (ext_ok v (t_ext q))); [discriminate|]. apply walk_not_500.
Qed.

(* the request starts in a state where n is at version vc and nothing but successes and stale-tag refusals is queued for n;
   from there on n is not replaced or deleted and no fault is injected into reads of n or into this request *)
Theorem harmless s0 q ls s :
  reach s0 -> cur s0 n = Some vc -> B2 (respq s0) -> (forall q' r', ~ In (rid, q', r') (dones s0)) -> t_name q = n ->
  run_labels (LStart rid q :: ls) s0 = Some s -> Forall allowed ls ->
  forall q' r, In (rid, q', r) (dones s) -> t_name q' = n -> (exists v, In (n, v) (hist s) /\ r = answer v q') /\ r <> R500.
Proof.
  intros Rch Hc Hb Hfresh Hn Hrun Hal q' r Hin Hn'.
  unfold run_labels in Hrun. cbn [fold_left] in Hrun. destruct (exec s0 (LStart rid q)) as [s1|] eqn:E.
  2:{ exfalso. clear -Hrun. induction ls as [|x xs IHx]; cbn in Hrun; [discriminate|auto]. }
  assert (R1: RI s1).
  { cbn [exec] in E. destruct (get_handler rid (handlers s0)) eqn:Hg; [discriminate|]. apply some_inj in E. subst s1.
    constructor; cbn [cur respq handlers cache reqq dones hist]; auto.
    - intros h Hg'. rewrite get_set_same in Hg'. inversion Hg'; subst h. cbn. exact Hn.
    - intros q0 r0 Hin0 _. exfalso. exact (Hfresh _ _ Hin0). }
  assert (Rch1: reach s1) by (eapply reach_step; [exact Rch|eapply exec_step; exact E]).
  pose proof (run_ri ls s1 s Rch1 R1 Hal Hrun) as R.
  destruct (R_d s R q' r Hin Hn') as [v [Hv Ha]]. split; [exists v; auto|]. rewrite Ha. apply answer_not_500.
Qed.
End Harmless.
