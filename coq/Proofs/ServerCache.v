(* The cache of the event loop behaves like a map, and a cached key is never in flight: in every reachable state of the server LTS
   (Model/Server.v) the keys of the cache are pairwise distinct, a cached key has no outstanding fetch or queued response, and a
   successful value never carries the refresh-required flag.  (The key under which a header fetch pre-populates the root
   directory - no tag, not the header key - is outside these statements: it is written without a lookup and never asked for.) *)
From Coq Require Import NArith List Lia Bool Arith.
Import ListNotations.
From PM Require Import Model.Server Proofs.Server Proofs.ServerCoalesce.
Open Scope N_scope.

Section Cache.
Context `{V:Version}.
Hypothesis root_off_nz : forall v, fst (root v) <> 0.
Hypothesis leaf_base_nz : forall v lo, leaf_base v + lo <> 0.

Definition np (k:key) : bool := negb (prepopb k).
Definition ckeys (s:sys) : list key := map fst (cache s).
Record CI (s:sys) : Prop := {
  C1 : NoDup (filter np (ckeys s));
  C2 : forall k, In k (ckeys s) -> sane k -> ~ In k (ikeys s);
  C3 : forall k cv, (In (k,cv) (cache s) \/ In (k,cv) (respq s)) -> cv_ok cv = true -> cv_bad cv = false
}.

Lemma np_sane k : np k = true <-> sane k.
Proof.
  unfold np, sane. rewrite negb_true_iff. split.
  - intros H Hp. apply prepopb_spec in Hp. congruence.
  - intro H. destruct (prepopb k) eqn:E; [exfalso; apply H; apply prepopb_spec; exact E|reflexivity].
Qed.

Lemma filter_keys_sub {A} (f:key * A -> bool) (m:list (key*A)) k : In k (map fst (filter f m)) -> In k (map fst m).
Proof. rewrite !in_map_iff. intros [x [E H]]. apply filter_In in H. exists x. tauto. Qed.
Lemma filter_keys_nodup {A} (f:key * A -> bool) : forall (m:list (key*A)), NoDup (filter np (map fst m)) -> NoDup (filter np (map fst (filter f m))).
Proof.
  induction m as [|[k a] r IH]; intro H; [exact H|]. cbn [map fst filter] in *.
  destruct (f (k, a)); cbn [map fst filter].
  - destruct (np k) eqn:E.
    + inversion H; subst. constructor; [|apply IH; assumption].
      intro Hin. apply H2. apply filter_In in Hin. apply filter_In. split; [|tauto]. eapply filter_keys_sub. exact (proj1 Hin).
    + apply IH. exact H.
  - apply IH. destruct (np k); [inversion H; assumption|exact H].
Qed.
(* two entries under one (non-pre-populated) key are the same entry *)
Lemma nodup_entry {A} : forall (m:list (key*A)) k a b, NoDup (filter np (map fst m)) -> np k = true -> In (k,a) m -> In (k,b) m -> a = b.
Proof.
  induction m as [|[k' a'] r IH]; intros k a b H Hk Ha Hb; [contradiction|]. cbn [map fst filter] in H.
  destruct Ha as [Ea|Ha], Hb as [Eb|Hb].
  - congruence.
  - inversion Ea; subst. rewrite Hk in H. inversion H; subst. exfalso. apply H2. apply filter_In. split; [|exact Hk]. apply (in_map fst) in Hb. exact Hb.
  - inversion Eb; subst. rewrite Hk in H. inversion H; subst. exfalso. apply H2. apply filter_In. split; [|exact Hk]. apply (in_map fst) in Ha. exact Ha.
  - apply (IH k a b); auto. destruct (np k'); [inversion H; assumption|exact H].
Qed.

Lemma deliver_to_static s mr cv :
  cache (deliver_to s mr cv) = cache s /\ inflight (deliver_to s mr cv) = inflight s /\ respq (deliver_to s mr cv) = respq s /\
  fetches (deliver_to s mr cv) = fetches s /\ cur (deliver_to s mr cv) = cur s /\ hist (deliver_to s mr cv) = hist s.
Proof.
  unfold deliver_to. destruct (get_handler _ _) as [h|]; [|repeat split].
  destruct (waiting h) as [w|]; [|repeat split]. destruct (Nat.eqb w (fst mr)); [|repeat split].
  destruct (deliver (next s) h cv). cbn. repeat split.
Qed.
Lemma fold_deliver_static cv : forall ws s, let s' := fold_left (fun st mr => deliver_to st mr cv) ws s in
  cache s' = cache s /\ inflight s' = inflight s /\ respq s' = respq s /\ fetches s' = fetches s /\ cur s' = cur s /\ hist s' = hist s.
Proof.
  induction ws as [|mr ws IH]; intro s; cbn [fold_left]; [repeat split|].
  destruct (IH (deliver_to s mr cv)) as (A & B & C & D & E & F). destruct (deliver_to_static s mr cv) as (A' & B' & C' & D' & E' & F').
  cbv zeta. rewrite A, B, C, D, E, F. auto 10.
Qed.
Lemma apply_out_static s rid o :
  cache (apply_out s rid o) = cache s /\ inflight (apply_out s rid o) = inflight s /\ respq (apply_out s rid o) = respq s /\
  fetches (apply_out s rid o) = fetches s /\ cur (apply_out s rid o) = cur s /\ hist (apply_out s rid o) = hist s.
Proof. destruct o. cbn. repeat split. Qed.

Lemma CI_static s s' : cache s' = cache s -> inflight s' = inflight s -> respq s' = respq s -> CI s -> CI s'.
Proof.
  intros Hc Hi Hr [A B C]. constructor; unfold ckeys, ikeys in *; rewrite ?Hc, ?Hi, ?Hr; auto.
Qed.
Lemma CI_init : CI init.
Proof. constructor; cbn; [constructor|intros k []|intros k cv [[]|[]]]. Qed.

Lemma fetch_result_c3 s k k' cv : In (k',cv) (fetch_result s k) -> cv_ok cv = true -> cv_bad cv = false.
Proof.
  unfold fetch_result. destruct (cur s (kn k)) as [v|]; [|intros [E|[]]; inversion E; subst; discriminate].
  destruct (negb (ke k =? 0) && negb (ke k =? vtag v)); [intros [E|[]]; inversion E; subst; discriminate|].
  destruct ((ko k =? 0) && (kl k =? 0)); [intros [E|[E|[]]]|intros [E|[]]]; inversion E; subst; reflexivity.
Qed.

Theorem step_ci s s' : Co s -> CI s -> step s s' -> CI s'.
Proof.
  intros Hco [A B C] St. destruct St.
  - (* start *) constructor; cbn; auto.
  - (* the loop takes a request *)
    assert (Hsub: forall x, In x (map fst c1) -> In x (ckeys s)).
    { unfold c1. destruct (p =? 0); [auto|]. unfold purge. intros x Hx. eapply filter_keys_sub; eauto. }
    assert (Hnd: NoDup (filter np (map fst c1))).
    { unfold c1. destruct (p =? 0); [exact A|]. unfold purge. apply filter_keys_nodup. exact A. }
    assert (Hin1: forall x, In x c1 -> In x (cache s)).
    { unfold c1. destruct (p =? 0); [auto|]. intros x Hx. eapply purge_sub; eauto. }
    assert (Hbase: CI (upd s c1 (inflight s) (pre ++ post) (respq s) (fetches s))).
    { constructor; cbn; auto. intros k0 cv0 [Hx|Hx]; apply (C k0 cv0); auto. }
    destruct (lookup k c1) as [cv|] eqn:El.
    + destruct (deliver_to_static (upd s c1 (inflight s) (pre ++ post) (respq s) (fetches s)) (m,rid) cv) as (E1 & E2 & E3 & _).
      eapply CI_static; eauto.
    + assert (Hk: ~ In k (map fst c1)) by (apply lookup_none; exact El).
      destruct (lookup k (inflight s)) as [ws|] eqn:Ei.
      * constructor; cbn; auto.
        -- intros x Hx Hs [E|Hin]; [subst; exact (Hk Hx)|].
           unfold ikeys in *. apply (B x (Hsub _ Hx) Hs). apply remove_key_keys in Hin. tauto.
        -- intros k0 cv0 [Hx|Hx]; apply (C k0 cv0); auto.
      * constructor; cbn; auto.
        -- intros x Hx Hs [E|Hin]; [subst; exact (Hk Hx)|]. exact (B x (Hsub _ Hx) Hs Hin).
        -- intros k0 cv0 [Hx|Hx]; apply (C k0 cv0); auto.
  - (* a fetch reads the bucket *)
    constructor; cbn; auto. intros k0 cv0 [Hx|Hx]; [apply (C k0 cv0); auto|].
    apply in_app_or in Hx. destruct Hx as [Hx|Hx]; [apply (C k0 cv0); auto|]. eapply fetch_result_c3; eauto.
  - (* the loop takes a response *)
    destruct (fold_deliver_static cv ws (upd s (if cv_ok cv then (k,cv) :: cache s else cache s) (remove_key k (inflight s)) (reqq s) (pre ++ post) (fetches s))) as (E1 & E2 & E3 & _).
    eapply CI_static; eauto. cbn [upd cache inflight respq].
    assert (Hrk: In k (rkeys s)) by (unfold rkeys; rewrite H, map_app; apply in_or_app; right; left; reflexivity).
    assert (Hresp: forall k0 cv0, In (k0,cv0) (pre ++ post) -> In (k0,cv0) (respq s)).
    { intros k0 cv0 Hx. rewrite H. apply in_app_or in Hx. apply in_or_app. destruct Hx; [left|right; right]; auto. }
    constructor; cbn.
    + unfold ckeys. cbn. destruct (cv_ok cv); [|exact A]. cbn [map fst filter].
      destruct (np k) eqn:Enp; [|exact A]. constructor; [|exact A].
      intro Hin. apply filter_In in Hin. destruct Hin as [Hin _]. apply np_sane in Enp.
      destruct (E4 s Hco k Hrk) as [Hik|Hpp]; [exact (B k Hin Enp Hik)|exact (Enp Hpp)].
    + intros x Hx Hs Hin. unfold ikeys in Hin. apply remove_key_keys in Hin. destruct Hin as [Hin Hne].
      unfold ckeys in Hx. cbn in Hx. destruct (cv_ok cv); [destruct Hx as [E|Hx]; [cbn in E; congruence|]|]; exact (B x Hx Hs Hin).
    + intros k0 cv0 [Hx|Hx] Hok.
      * destruct (cv_ok cv) eqn:Eok; [destruct Hx as [E|Hx]; [inversion E; subst; apply (C k0 cv0); [right; rewrite H; apply in_elt|exact Hok]|]|]; apply (C k0 cv0); auto.
      * apply (C k0 cv0); auto.
  - (* eviction *)
    constructor; cbn.
    + unfold ckeys. cbn. unfold remove_key. apply filter_keys_nodup. exact A.
    + intros x Hx Hs. apply (B x); [|exact Hs]. unfold ckeys in *. cbn in Hx. apply remove_key_keys in Hx. tauto.
    + intros k0 cv0 [Hx|Hx]; apply (C k0 cv0); auto. left. eapply In_remove_key; eauto.
  - (* the tile read *)
    destruct (cur s (t_name q)) as [v|]; [destruct (vtag v =? vtag hv)|];
      match goal with |- CI (apply_out s rid ?o) => destruct (apply_out_static s rid o) as (E1 & E2 & E3 & _) end;
      eapply CI_static; eauto; constructor; auto.
  - (* a fetch fails *)
    constructor; cbn; auto. intros k0 cv0 [Hx|Hx]; [apply (C k0 cv0); auto|].
    apply in_app_or in Hx. destruct Hx as [Hx|[E|[]]]; [apply (C k0 cv0); auto|]. inversion E; subst. intro Hok; discriminate Hok.
  - (* the tile read fails *)
    match goal with |- CI (apply_out s rid ?o) => destruct (apply_out_static s rid o) as (E1 & E2 & E3 & _) end.
    eapply CI_static; eauto. constructor; auto.
  - constructor; cbn; auto.
  - constructor; cbn; auto.
Qed.

Theorem reach_ci s : reach s -> CI s.
Proof. induction 1 as [|s s' R IH St]; [apply CI_init|]. eapply step_ci; eauto. apply (reach_co root_off_nz). exact R. Qed.
End Cache.
