From Coq Require Import NArith ZArith List Lia ZifyN ZifyBool.
From PM Require Import Base.Wrap Model.Hilbert Model.TileId Proofs.Hil.
Ltac Zify.zify_post_hook ::= Z.div_mod_to_equations.
Open Scope N_scope.

(* ---- bit facts *)
Lemma land_pow2 k X : N.land (2^k) X = (X / 2^k) mod 2 * 2^k.
Proof.
  rewrite <- N.testbit_spec'.
  apply N.bits_inj; intro i. rewrite N.land_spec, N.pow2_bits_eqb.
  destruct (N.testbit X k) eqn:E; cbn [N.b2n].
  - rewrite N.mul_1_l, N.pow2_bits_eqb. destruct (N.eqb_spec k i) as [->|]; [rewrite E|]; reflexivity.
  - rewrite N.mul_0_l, N.bits_0. destruct (N.eqb_spec k i) as [->|]; [rewrite E|]; reflexivity.
Qed.

Lemma lxor_3s_s k : N.lxor (3 * 2^k) (2^k) = 2 * 2^k.
Proof.
  rewrite <- !N.shiftl_mul_pow2. replace (2^k) with (N.shiftl 1 k) by (rewrite N.shiftl_mul_pow2; lia).
  rewrite <- N.shiftl_lxor. reflexivity.
Qed.

Lemma mod_mod_pow a j k : j <= k -> (a mod 2^k) mod 2^j = a mod 2^j.
Proof.
  intro H. replace k with (j + (k-j)) by lia. rewrite N.pow_add_r.
  rewrite N.mod_mul_r by (apply N.pow_nonzero; lia).
  rewrite N.mul_comm, N.mod_add by (apply N.pow_nonzero; lia). apply N.mod_mod. apply N.pow_nonzero; lia.
Qed.

Lemma sub32_small a b : b <= a -> a < 2^32 -> sub32 a b = a - b.
Proof.
  intros. unfold sub32, w32. change (2^32) with 4294967296 in *.
  rewrite (N.mod_small b) by lia.
  replace (a + 4294967296 - b) with ((a - b) + 1 * 4294967296) by lia.
  rewrite N.mod_add by lia. apply N.mod_small; lia.
Qed.

Lemma sub32_mod k X : k <= 31 -> X < 2^32 -> (sub32 (sub32 (2^k) 1) X) mod 2^k = 2^k - 1 - X mod 2^k.
Proof.
  intros Hk HX.
  assert (Hs: 0 < 2^k) by (apply N.neq_0_lt_0, N.pow_nonzero; lia).
  assert (Hle: 2^k <= 2^31) by (apply N.pow_le_mono_r; lia).
  change (2^31) with 2147483648 in Hle.
  rewrite (sub32_small (2^k) 1) by (change (2^32) with 4294967296; lia).
  unfold sub32, w32.
  rewrite (N.mod_small X) by lia.
  rewrite mod_mod_pow by lia. change (2^32) with 4294967296 in *.
  assert (E: 4294967296 = 2^k * 2^(32-k)) by (change 4294967296 with (2^32); rewrite <- N.pow_add_r; f_equal; lia).
  set (c := 2^(32-k)) in *. set (s := 2^k) in *.
  pose proof (N.div_mod X s ltac:(lia)) as DX. pose proof (N.mod_lt X s ltac:(lia)).
  assert (X / s < c) by (apply N.div_lt_upper_bound; lia).
  replace (s - 1 + 4294967296 - X) with ((s - 1 - X mod s) + (c - X / s) * s) by nia.
  rewrite N.mod_add by lia. apply N.mod_small. lia.
Qed.

Lemma bit01 a : a mod 2 = 0 \/ a mod 2 = 1.
Proof. pose proof (N.mod_lt a 2); lia. Qed.

Lemma w32_lt a : w32 a < 2^32. Proof. apply N.mod_lt. discriminate. Qed.
Lemma sub32_lt a b : sub32 a b < 2^32. Proof. apply w32_lt. Qed.

Lemma term_eq k bx by_ : k <= 30 -> bx < 2 -> by_ < 2 ->
  N.lxor (w32 (3 * (bx * 2^k))) (by_ * 2^k) = quad bx by_ * 2^k.
Proof.
  intros Hk Hx Hy.
  assert (Hle: 2^k <= 2^30) by (apply N.pow_le_mono_r; lia). change (2^30) with 1073741824 in Hle.
  assert (bx = 0 \/ bx = 1) as [->| ->] by lia; assert (by_ = 0 \/ by_ = 1) as [->| ->] by lia;
    unfold w32; change (2^32) with 4294967296; cbn [quad].
  - reflexivity.
  - rewrite !N.mul_0_l, N.mul_0_r, N.mod_0_l by lia. apply N.lxor_0_l.
  - rewrite N.mul_0_l, N.lxor_0_r, N.mod_small by lia. lia.
  - rewrite N.mod_small by lia. rewrite !N.mul_1_l. rewrite lxor_3s_s. reflexivity.
Qed.

Lemma rotate_facts k X Y : k <= 30 -> X < 2^32 -> Y < 2^32 ->
  let s := 2^k in let bx := (X / s) mod 2 in let by_ := (Y / s) mod 2 in
  let r := rotate s X Y (bx * s) (by_ * s) in
  fst r < 2^32 /\ snd r < 2^32 /\ (fst r mod s, snd r mod s) = rot s (X mod s) (Y mod s) (quad bx by_).
Proof.
  intros Hk HX HY s bx by_ r. subst r.
  assert (Hs: 0 < s) by (apply N.neq_0_lt_0, N.pow_nonzero; lia).
  unfold rotate.
  destruct (bit01 (X / s)) as [Ex|Ex]; destruct (bit01 (Y / s)) as [Ey|Ey]; subst bx by_; rewrite Ex, Ey; cbn [quad rot].
  - rewrite N.mul_0_l. cbn. repeat split; assumption.
  - rewrite N.mul_1_l. destruct (N.eqb_spec s 0); [lia|]. cbn [fst snd]. repeat split; assumption.
  - rewrite N.mul_0_l, N.mul_1_l. change (0 =? 0) with true. cbv iota.
    destruct (N.eqb_spec s 0); [lia|]. cbn [negb fst snd].
    split; [apply sub32_lt|]. split; [apply sub32_lt|].
    unfold s. rewrite !sub32_mod by lia. reflexivity.
  - rewrite N.mul_1_l. destruct (N.eqb_spec s 0); [lia|]. cbn [fst snd]. repeat split; assumption.
Qed.

Lemma div_mod_2s X s : 0 < s -> (X mod (2*s)) / s = (X / s) mod 2 /\ (X mod (2*s)) mod s = X mod s.
Proof.
  intro Hs. rewrite (N.mul_comm 2 s). rewrite N.mod_mul_r by lia.
  split.
  - rewrite N.mul_comm, N.div_add by lia. rewrite N.div_small by (apply N.mod_lt; lia). lia.
  - rewrite N.mul_comm, N.mod_add by lia. apply N.mod_mod; lia.
Qed.

Lemma term_eq' s k bx by_ : s = 2^k -> k <= 30 -> bx < 2 -> by_ < 2 ->
  N.lxor (w32 (3 * (bx * s))) (by_ * s) = quad bx by_ * s.
Proof. intros ->. apply term_eq. Qed.
Lemma land_pow2' s k X : s = 2^k -> N.land s X = (X / s) mod 2 * s.
Proof. intros ->. apply land_pow2. Qed.

Lemma zxy_loop_spec : forall k fuel X Y acc,
  (k <= 30)%nat -> (k < fuel)%nat -> X < 2^32 -> Y < 2^32 -> acc + 4^(N.of_nat (S k)) <= 2^64 ->
  zxy_loop fuel (2^(N.of_nat k)) (N.of_nat k) X Y acc
   = acc + hidx (S k) (X mod 2^(N.of_nat (S k))) (Y mod 2^(N.of_nat (S k))).
Proof.
  induction k as [|j IH]; intros fuel X Y acc Hk Hf HX HY Hacc.
  - destruct fuel as [|f]; [lia|]. cbn [zxy_loop N.of_nat]. change (2^0) with 1.
    change (1 =? 0) with false. cbv iota.
    pose proof (land_pow2 0 X) as LX. pose proof (land_pow2 0 Y) as LY. change (2^0) with 1 in LX, LY.
    rewrite LX, LY.
    pose proof (term_eq 0 ((X/1) mod 2) ((Y/1) mod 2) ltac:(lia) ltac:(apply N.mod_lt; lia) ltac:(apply N.mod_lt; lia)) as T.
    change (2^0) with 1 in T. rewrite T.
    set (q := quad ((X/1) mod 2) ((Y/1) mod 2)).
    assert (Hq: q < 4) by (unfold q; destruct (bit01 (X/1)) as [->| ->], (bit01 (Y/1)) as [->| ->]; cbn; lia).
    unfold shl64. change (0 <? 64) with true. cbv iota. rewrite N.shiftl_0_r.
    change (4 ^ N.of_nat 1) with 4 in Hacc. change (2^64) with 18446744073709551616 in *.
    unfold w64. change (2^64) with 18446744073709551616.
    rewrite (N.mod_small (q*1)) by lia. rewrite (N.mod_small (acc + q*1)) by lia.
    destruct (rotate 1 X Y _ _) as [X1 Y1].
    assert (Hend: forall a b, zxy_loop f (N.shiftr 1 1) (sub32 0 1) a b (acc + q*1) = acc + q*1).
    { intros; destruct f; reflexivity. }
    rewrite Hend.
    cbn [hidx N.of_nat]. change (2^0) with 1. change (4^0) with 1. change (2 ^ N.of_nat 1) with 2.
    destruct (div_mod_2s X 1 ltac:(lia)) as [D1 _]. destruct (div_mod_2s Y 1 ltac:(lia)) as [D2 _].
    change (2*1) with 2 in D1, D2. change (2 ^ N.pos (Pos.of_succ_nat 0)) with 2. rewrite D1, D2. fold q.
    destruct (rot 1 _ _ q). lia.
  - destruct fuel as [|f]; [lia|]. cbn [zxy_loop].
    set (k := N.of_nat (S j)). set (s := 2^k).
    assert (Hk30: k <= 30) by (unfold k; lia).
    assert (Hs: 0 < s) by (apply N.neq_0_lt_0, N.pow_nonzero; lia).
    destruct (N.eqb_spec s 0); [lia|].
    rewrite !(land_pow2' s k) by reflexivity.
    set (bx := (X/s) mod 2). set (by_ := (Y/s) mod 2).
    assert (Hbx: bx < 2) by (apply N.mod_lt; lia). assert (Hby: by_ < 2) by (apply N.mod_lt; lia).
    rewrite (term_eq' s k) by (try reflexivity; assumption).
    set (q := quad bx by_).
    assert (Hq: q < 4) by (unfold q; destruct (bit01 (X/s)) as [E1|E1], (bit01 (Y/s)) as [E2|E2]; subst bx by_; rewrite E1, E2; cbn; lia).
    pose proof (rotate_facts k X Y Hk30 HX HY) as RF. cbv zeta in RF. fold s bx by_ q in RF.
    destruct (rotate s X Y (bx*s) (by_*s)) as [X1 Y1]. cbn [fst snd] in RF. destruct RF as (HX1 & HY1 & Hrot).
    (* the added term *)
    assert (Hk64: k <? 64 = true) by (apply N.ltb_lt; lia).
    unfold shl64. rewrite Hk64. rewrite N.shiftl_mul_pow2. fold s.
    assert (H4: 4^k = s * s) by (unfold s; rewrite <- N.pow_mul_l; reflexivity).
    assert (Hacc': acc + 4 * (s*s) <= 2^64).
    { unfold k in H4. rewrite <- H4. replace (4 * 4 ^ N.of_nat (S j)) with (4 ^ N.of_nat (S (S j))); [assumption|].
      rewrite (pow4 (S j)). reflexivity. }
    assert (Hqss: q*s*s <= 3*(s*s)) by (rewrite <- N.mul_assoc; apply N.mul_le_mono_r; lia).
    unfold w64.
    rewrite (N.mod_small (q*s*s)) by lia. rewrite (N.mod_small (acc + q*s*s)) by lia.
    (* next iteration parameters *)
    assert (Esh: N.shiftr s 1 = 2^(N.of_nat j)).
    { unfold s, k. rewrite N.shiftr_div_pow2. rewrite Nat2N.inj_succ, N.pow_succ_r'. change (2^1) with 2.
      rewrite N.mul_comm, N.div_mul by lia. reflexivity. }
    assert (Esub: sub32 k 1 = N.of_nat j).
    { rewrite sub32_small; [unfold k; lia | unfold k; lia | change (2^32) with 4294967296; lia]. }
    rewrite Esh, Esub.
    rewrite IH; try lia; try assumption.
    2:{ fold k. rewrite H4. lia. }
    (* unfold the spec one level *)
    cbn [hidx]. fold k. fold s.
    assert (E2s: 2 ^ N.of_nat (S (S j)) = 2 * s) by (rewrite (pow2 (S j)); reflexivity).
    rewrite E2s.
    destruct (div_mod_2s X s Hs) as [DX MX]. destruct (div_mod_2s Y s Hs) as [DY MY].
    rewrite DX, DY, MX, MY. fold bx by_ q.
    rewrite <- Hrot. rewrite H4. lia.
Qed.
