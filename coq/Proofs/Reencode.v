(* reencodeEntries: copying the listed source ranges to their destinations puts every tile's source bytes where its
   re-encoded entry points; tile ids, lengths and run lengths are unchanged. *)
From Coq Require Import NArith ZArith List Lia Bool.
Import ListNotations.
From PM Require Import Model.Varint Model.Directory Model.Extract Proofs.Extract.
Open Scope N_scope.

(* ranges as stored in the state (newest first) executed one request per range *)
Definition E (S:mem) (rs:list srange) (D:mem) : mem := exec_all S (map trivial_plan (rev rs)) D.
Lemma E_cons S r rs D : E S (r :: rs) D = copy S (r_src r) (r_dst r) (r_len r) (E S rs D).
Proof. unfold E. cbn [rev]. rewrite map_app, exec_all_app. reflexivity. Qed.
Lemma copy_join S sp dp w1 w2 D : peq (copy S sp dp (w1 + w2) D) (copy S (sp + w1) (dp + w1) w2 (copy S sp dp w1 D)).
Proof.
  intro a. unfold copy.
  destruct (N.leb_spec dp a); destruct (N.ltb_spec a (dp + (w1 + w2))); destruct (N.leb_spec (dp + w1) a);
    destruct (N.ltb_spec a (dp + w1 + w2)); destruct (N.ltb_spec a (dp + w1)); cbn [andb]; try lia; try reflexivity.
  f_equal. lia.
Qed.

Lemma olookup_in o : forall m v, olookup o m = Some v -> In (o, v) m.
Proof.
  induction m as [|[k v'] r IH]; intros v H; cbn in H; [discriminate|].
  destruct (N.eqb_spec o k) as [->|_]; [inversion H; left; reflexivity|right; apply IH; exact H].
Qed.
Lemma olookup_cons_other o k v m d : olookup o m = Some d -> olookup k m = None -> olookup o ((k, v) :: m) = Some d.
Proof. intros H1 H2. cbn. destruct (N.eqb_spec o k) as [->|_]; [congruence|exact H1]. Qed.

Fixpoint rcontig (rs:list srange) (e:N) : Prop :=
  match rs with [] => e = 0 | r :: t => r_dst r + r_len r = e /\ rcontig t (r_dst r) end.

Section R.
Variable S D0 : mem.
Variable bound : N.
Variable dir : list entry.
(* entries that share an offset share the length (one content) *)
Hypothesis same_len : forall e1 e2, In e1 dir -> In e2 dir -> off e1 = off e2 -> len e1 = len e2.
(* every entry lies inside the source's tile data *)
Hypothesis in_bound : forall e, In e dir -> off e + len e <= bound.

Definition rel (seen:list (N * N)) (e e':entry) : Prop :=
  tid e' = tid e /\ len e' = len e /\ run e' = run e /\ olookup (off e) seen = Some (off e').

Record RInv (pre:list entry) (st:rstate) : Prop := {
  R_content : forall o d e0 k, In (o, d) (rs_seen st) -> In e0 pre -> off e0 = o -> k < len e0 ->
                E S (rs_ranges st) D0 (d + k) = S (o + k) /\ d + len e0 <= rs_dst st;
  R_last : match rs_ranges st with last :: _ => r_dst last + r_len last = rs_dst st | [] => rs_dst st = 0 end;
  R_out : Forall2 (rel (rs_seen st)) pre (rev (rs_out st));
  R_keys : forall o d, In (o, d) (rs_seen st) -> exists e1, In e1 pre /\ off e1 = o;
  R_all : forall e0, In e0 pre -> olookup (off e0) (rs_seen st) <> None;
  R_contig : rcontig (rs_ranges st) (rs_dst st);
  R_in : forall r, In r (rs_ranges st) -> r_src r + r_len r <= bound
}.

Lemma RInv_init : RInv [] (mkRS [] [] [] 0 0).
Proof. constructor; cbn; intros; try contradiction; auto. Qed.

Lemma Forall2_rel_mono seen seen' l l' : (forall o d, olookup o seen = Some d -> olookup o seen' = Some d) ->
  Forall2 (rel seen) l l' -> Forall2 (rel seen') l l'.
Proof. intros Hm H. induction H as [|e e' l l' Hr H IH]; constructor; [|exact IH]. destruct Hr as (A & B & C & D). repeat split; auto. Qed.

Lemma step_inv pre st e : (forall x, In x (pre ++ [e]) -> In x dir) -> RInv pre st -> RInv (pre ++ [e]) (reencode_step st e).
Proof.
  intros Hsub [Hc Hl Ho Hk Ha Hct Hrin]. unfold reencode_step. destruct (olookup (off e) (rs_seen st)) as [v|] eqn:Ef.
  - (* content already copied *)
    constructor; cbn [rs_seen rs_ranges rs_dst rs_out].
    + intros o d e0 k Hin He0 Ho0 Hk0. apply in_app_or in He0. destruct He0 as [He0|[<-|[]]]; [apply (Hc o d e0 k); assumption|].
      destruct (Hk o d Hin) as [e1 [He1 Ho1]].
      assert (Hlen : len e1 = len e) by (apply same_len; [apply Hsub; apply in_or_app; left; exact He1|apply Hsub; apply in_or_app; right; left; reflexivity|congruence]).
      rewrite <- Hlen in *. apply (Hc o d e1 k); auto.
    + exact Hl.
    + cbn [rev]. apply Forall2_app; [exact Ho|]. constructor; [|constructor]. repeat split; auto.
    + intros o d Hin. destruct (Hk o d Hin) as [e1 [He1 Ho1]]. exists e1. split; [apply in_or_app; left; exact He1|exact Ho1].
    + intros e0 He0. apply in_app_or in He0. destruct He0 as [He0|[<-|[]]]; [apply Ha; exact He0|congruence].
    + exact Hct.
    + exact Hrin.
  - (* first use: the bytes go to the current end of the destination *)
    set (dst := rs_dst st) in *.
    set (ranges := match rs_ranges st with
                   | last :: rest => if r_src last + r_len last =? off e then mkSR (r_src last) (r_dst last) (r_len last + len e) :: rest
                                     else mkSR (off e) dst (len e) :: rs_ranges st
                   | [] => [mkSR (off e) dst (len e)] end).
    assert (Heff : peq (E S ranges D0) (copy S (off e) dst (len e) (E S (rs_ranges st) D0))).
    { unfold ranges. destruct (rs_ranges st) as [|last rest] eqn:Er.
      - rewrite E_cons. intro a. reflexivity.
      - destruct (N.eqb_spec (r_src last + r_len last) (off e)) as [Hs|_].
        + rewrite !E_cons. cbn [r_src r_dst r_len]. intro a. rewrite (copy_join S (r_src last) (r_dst last) (r_len last) (len e) _ a).
          rewrite Hs, Hl. reflexivity.
        + rewrite E_cons. intro a. reflexivity. }
    assert (Hnone : forall e0, In e0 pre -> off e0 <> off e).
    { intros e0 He0 Heq. apply (Ha e0 He0). rewrite Heq. exact Ef. }
    constructor; cbn [rs_seen rs_ranges rs_dst rs_out]; fold ranges.
    + intros o d e0 k Hin He0 Ho0 Hk0. rewrite (Heff (d + k)). unfold copy. destruct Hin as [Hin|Hin].
      * inversion Hin; subst o d. apply in_app_or in He0. destruct He0 as [He0|[<-|[]]]; [exfalso; apply (Hnone e0 He0); congruence|].
        destruct (N.leb_spec dst (dst + k)); destruct (N.ltb_spec (dst + k) (dst + len e)); cbn [andb]; try lia. split; [f_equal; lia|lia].
      * assert (He0' : exists e1, In e1 pre /\ off e1 = o /\ len e1 = len e0).
        { apply in_app_or in He0. destruct He0 as [He0|[<-|[]]]; [exists e0; auto|].
          destruct (Hk o d Hin) as [e1 [He1 Ho1]]. exfalso. apply (Hnone e1 He1). congruence. }
        destruct He0' as [e1 [He1 [Ho1 Hl1]]]. destruct (Hc o d e1 k Hin He1 Ho1 ltac:(lia)) as [Hv Hb].
        destruct (N.leb_spec dst (d + k)); destruct (N.ltb_spec (d + k) (dst + len e)); cbn [andb]; try (fold dst in Hb; lia).
        all: split; [exact Hv|fold dst in Hb; lia].
    + unfold ranges. destruct (rs_ranges st) as [|last rest]; [cbn; lia|]. destruct (r_src last + r_len last =? off e); cbn [r_dst r_len]; fold dst in Hl; lia.
    + cbn [rev]. apply Forall2_app.
      * apply (Forall2_rel_mono (rs_seen st)); [|exact Ho]. intros o d Hod. apply olookup_cons_other; assumption.
      * constructor; [|constructor]. repeat split; auto. cbn. rewrite N.eqb_refl. reflexivity.
    + intros o d [Hin|Hin]; [inversion Hin; subst; exists e; split; [apply in_or_app; right; left; reflexivity|reflexivity]|].
      destruct (Hk o d Hin) as [e1 [He1 Ho1]]. exists e1. split; [apply in_or_app; left; exact He1|exact Ho1].
    + intros e0 He0. cbn. destruct (N.eqb_spec (off e0) (off e)); [discriminate|]. apply in_app_or in He0. destruct He0 as [He0|[<-|[]]]; [apply Ha; exact He0|congruence].
    + unfold ranges. destruct (rs_ranges st) as [|last rest] eqn:Er; [cbn; fold dst in Hct; cbn in Hct; split; [lia|exact Hct]|].
      cbn [rcontig] in Hct. destruct Hct as [Hc1 Hc2]. destruct (r_src last + r_len last =? off e); cbn [rcontig r_dst r_len]; fold dst in Hc1.
      * split; [lia|exact Hc2].
      * split; [lia|]. split; [exact Hc1|exact Hc2].
    + assert (Hbe : off e + len e <= bound) by (apply in_bound; apply Hsub; apply in_or_app; right; left; reflexivity).
      unfold ranges. intros r Hr. destruct (rs_ranges st) as [|last rest] eqn:Er.
      * destruct Hr as [<-|[]]. cbn. exact Hbe.
      * destruct (N.eqb_spec (r_src last + r_len last) (off e)) as [Hs|_].
        -- destruct Hr as [<-|Hr]; [cbn; lia|apply Hrin; right; exact Hr].
        -- destruct Hr as [<-|Hr]; [cbn; exact Hbe|apply Hrin; exact Hr].
Qed.

Lemma fold_inv : forall l pre st, (forall x, In x (pre ++ l) -> In x dir) -> RInv pre st -> RInv (pre ++ l) (fold_left reencode_step l st).
Proof.
  induction l as [|e r IH]; intros pre st Hsub Hi; cbn [fold_left]; [rewrite app_nil_r; exact Hi|].
  replace (pre ++ e :: r) with ((pre ++ [e]) ++ r) by (rewrite <- app_assoc; reflexivity). apply IH.
  - intros x Hx. apply Hsub. rewrite <- app_assoc in Hx. exact Hx.
  - apply step_inv; [|exact Hi]. intros x Hx. apply Hsub. apply in_app_or in Hx. apply in_or_app. destruct Hx as [Hx|[<-|[]]]; [left; exact Hx|right; left; reflexivity].
Qed.

Theorem reencode_content : forall out ranges total addr cont, reencode dir = (out, ranges, total, addr, cont) ->
  Forall2 (fun e e' => tid e' = tid e /\ len e' = len e /\ run e' = run e /\
                       forall k, k < len e -> exec_all S (map trivial_plan ranges) D0 (off e' + k) = S (off e + k) /\ off e' + len e <= total) dir out.
Proof.
  intros out ranges total addr cont H. unfold reencode in H. inversion H; subst; clear H.
  pose proof (fold_inv dir [] _ (fun x Hx => Hx) RInv_init) as Hi. cbn [app] in Hi. destruct Hi as [Hc Hl Ho Hk Ha _ _].
  set (st := fold_left reencode_step dir (mkRS [] [] [] 0 0)) in *.
  assert (G : forall l l', Forall2 (rel (rs_seen st)) l l' -> (forall x, In x l -> In x dir) ->
     Forall2 (fun e e' => tid e' = tid e /\ len e' = len e /\ run e' = run e /\
                       forall k, k < len e -> E S (rs_ranges st) D0 (off e' + k) = S (off e + k) /\ off e' + len e <= rs_dst st) l l').
  { intros l l' HF. induction HF as [|e e' l l' Hr HF IH]; intro Hin; constructor.
    - destruct Hr as (A & B & C & Dq). repeat split; auto; apply olookup_in in Dq;
        destruct (Hc (off e) (off e') e k Dq (Hin e (or_introl eq_refl)) eq_refl H); assumption.
    - apply IH. intros x Hx. apply Hin. right. exact Hx. }
  exact (G _ _ Ho (fun x Hx => Hx)).
Qed.

(* the ranges are contiguous in the destination from 0 and lie inside the source *)
Theorem reencode_ranges : forall out ranges total addr cont, reencode dir = (out, ranges, total, addr, cont) ->
  rcontig (rev ranges) total /\ (forall r, In r ranges -> r_src r + r_len r <= bound).
Proof.
  intros out ranges total addr cont H. unfold reencode in H. inversion H; subst; clear H.
  pose proof (fold_inv dir [] _ (fun x Hx => Hx) RInv_init) as Hi. cbn [app] in Hi. destruct Hi as [_ _ _ _ _ Hct Hin].
  rewrite rev_involutive. split; [exact Hct|]. intros r Hr. apply Hin. apply in_rev. exact Hr.
Qed.
End R.
