(* Characterisation of the verify model by a declarative consistency predicate. *)
From Coq Require Import NArith ZArith List Lia Arith Bool Permutation.
Import ListNotations.
From PM Require Import Model.Varint Model.Directory Model.Header Model.TileId Model.Archive Model.Verify.
Open Scope N_scope.

(* ---- declarative vocabulary, independent of the accumulator *)
Definition sum_run (es:list entry) : N := fold_right (fun e a => run e + a) 0 es.
Definition min_id (es:list entry) : N := fold_left (fun m e => N.min m (tid e)) es (2^64-1).
Definition max_id (es:list entry) : N := fold_left (fun m e => N.max m (tid e)) es 0.
Definition distinct_offsets (es:list entry) : nat := length (nodup N.eq_dec (map off es)).
Definition inside (dl:N) (e:entry) : Prop := off e + len e <= dl.
(* the entries that use an offset for the first time, in entry order *)
Fixpoint firsts (seen0:list N) (es:list entry) : list entry :=
  match es with [] => [] | e :: r => if seen (off e) seen0 then firsts seen0 r else e :: firsts (off e :: seen0) r end.
(* tile data laid out in tile-ID order: first uses are back to back from the start of the section *)
Fixpoint contig (cur:N) (fs:list entry) : Prop :=
  match fs with [] => True | e :: r => off e = cur /\ contig (cur + len e) r end.

Lemma seen_in o s : seen o s = true <-> In o s.
Proof.
  unfold seen. rewrite existsb_exists. split.
  - intros (x & Hx & E). apply N.eqb_eq in E. subst. exact Hx.
  - intro H. exists o. split; [exact H|apply N.eqb_refl].
Qed.

Section Char.
Variable c : bool.
Variable dl : N.

Lemma fold_addr : forall es a, v_addr (fold_left (vstep c dl) es a) = v_addr a + sum_run es.
Proof. induction es as [|e es IH]; intro a; cbn [fold_left sum_run fold_right]; [lia|]. rewrite IH. unfold vstep. cbn [v_addr]. fold (sum_run es). lia. Qed.
Lemma fold_cnt : forall es a, v_cnt (fold_left (vstep c dl) es a) = v_cnt a + N.of_nat (length es).
Proof. induction es as [|e es IH]; intro a; cbn [fold_left length]; [lia|]. rewrite IH. unfold vstep. cbn [v_cnt]. lia. Qed.
Lemma fold_min : forall es a, v_min (fold_left (vstep c dl) es a) = fold_left (fun m e => N.min m (tid e)) es (v_min a).
Proof.
  induction es as [|e es IH]; intro a; cbn [fold_left]; [reflexivity|]. rewrite IH. f_equal. unfold vstep. cbn [v_min].
  destruct (N.ltb_spec (tid e) (v_min a)); lia.
Qed.
Lemma fold_max : forall es a, v_max (fold_left (vstep c dl) es a) = fold_left (fun m e => N.max m (tid e)) es (v_max a).
Proof.
  induction es as [|e es IH]; intro a; cbn [fold_left]; [reflexivity|]. rewrite IH. f_equal. unfold vstep. cbn [v_max].
  destruct (N.ltb_spec (v_max a) (tid e)); lia.
Qed.
Lemma fold_seen : forall es a, v_seen (fold_left (vstep c dl) es a) = rev (map off (firsts (v_seen a) es)) ++ v_seen a.
Proof.
  induction es as [|e es IH]; intro a; cbn [fold_left firsts]; [reflexivity|]. rewrite IH.
  assert (Es: v_seen (vstep c dl a e) = if seen (off e) (v_seen a) then v_seen a else off e :: v_seen a)
    by (unfold vstep; cbn [v_seen]; destruct (seen (off e) (v_seen a)); reflexivity).
  rewrite Es. destruct (seen (off e) (v_seen a)); [reflexivity|]. cbn [map rev]. rewrite <- app_assoc. reflexivity.
Qed.

Lemma fold_err : forall es a,
  Forall (fun e => off e + len e < 2^64) es ->
  (v_err (fold_left (vstep c dl) es a) = None <->
   v_err a = None /\ Forall (inside dl) es /\ (c = true -> contig (v_cur a) (firsts (v_seen a) es))).
Proof.
  induction es as [|e es IH]; intros a Hfit; cbn [fold_left firsts].
  - split; [intro H; repeat split; auto; constructor|tauto].
  - inversion Hfit as [|? ? He Hes]; subst.
    assert (Hw: w64 (off e + len e) = off e + len e) by (unfold w64; apply N.mod_small; exact He).
    rewrite (IH (vstep c dl a e) Hes).
    assert (X1: v_err (vstep c dl a e) = match v_err a with Some x => Some x | None =>
                 if dl <? off e + len e then Some VOutside else
                 if c && negb (seen (off e) (v_seen a)) && negb (off e =? v_cur a) then Some VOrder else None end).
    { unfold vstep. cbn [v_err]. rewrite Hw. destruct (v_err a); [reflexivity|]. destruct (dl <? off e + len e); reflexivity. }
    assert (X2: v_seen (vstep c dl a e) = if seen (off e) (v_seen a) then v_seen a else off e :: v_seen a)
      by (unfold vstep; cbn [v_seen]; destruct (seen (off e) (v_seen a)); reflexivity).
    assert (X3: v_cur (vstep c dl a e) = if c && negb (seen (off e) (v_seen a)) then w64 (v_cur a + len e) else v_cur a)
      by (unfold vstep; cbn [v_cur]; reflexivity).
    rewrite X1, X2, X3. clear X1 X2 X3.
    destruct (v_err a) as [x|] eqn:Ea.
    { split; [intros (H & _); discriminate|intros (H & _); discriminate]. }
    destruct (N.ltb_spec dl (off e + len e)) as [Hout|Hin].
    { split; [intros (H & _); discriminate|]. intros (_ & Hf & _). inversion Hf as [|? ? Hi _]; subst. unfold inside in Hi. lia. }
    assert (Hcons: forall (P:Prop), Forall (inside dl) es -> Forall (inside dl) (e :: es)) by (intros _ Hf; constructor; [exact Hin|exact Hf]).
    destruct (seen (off e) (v_seen a)) eqn:Es; cbn [negb andb].
    + rewrite andb_false_r. cbn [andb]. split.
      * intros (_ & Hf & Hc). split; [reflexivity|split; [apply (Hcons True Hf)|exact Hc]].
      * intros (_ & Hf & Hc). inversion Hf; subst. split; [reflexivity|split; [assumption|exact Hc]].
    + rewrite andb_true_r. destruct c eqn:Ec; cbn [andb].
      * destruct (N.eqb_spec (off e) (v_cur a)) as [Eo|Eo]; cbn [negb].
        -- split.
           ++ intros (_ & Hf & Hc). split; [reflexivity|split; [apply (Hcons True Hf)|]].
              intros _. cbn [contig]. split; [exact Eo|]. specialize (Hc eq_refl). rewrite <- Eo in *. rewrite Hw in Hc. exact Hc.
           ++ intros (_ & Hf & Hc). inversion Hf; subst. split; [reflexivity|split; [assumption|]]. intros _. specialize (Hc eq_refl). cbn [contig] in Hc.
              destruct Hc as [_ Hc]. rewrite <- Eo in *. rewrite Hw. exact Hc.
        -- split; [intros (H & _); discriminate|]. intros (_ & _ & Hc). specialize (Hc eq_refl). cbn [contig] in Hc. tauto.
      * split.
        -- intros (_ & Hf & _). split; [reflexivity|split; [apply (Hcons True Hf)|discriminate]].
        -- intros (_ & Hf & _). inversion Hf; subst. split; [reflexivity|split; [assumption|discriminate]].
Qed.
End Char.

(* the number of first uses is the number of distinct offsets *)
Lemma firsts_spec : forall es s0, NoDup (map off (firsts s0 es)) /\
  (forall o, In o (map off (firsts s0 es)) <-> In o (map off es) /\ ~ In o s0).
Proof.
  induction es as [|e es IH]; intro s0; cbn [firsts map].
  - split; [constructor|]. intro o. cbn. tauto.
  - destruct (seen (off e) s0) eqn:Es.
    + destruct (IH s0) as (A & B). split; [exact A|]. intro o. rewrite B. apply seen_in in Es. cbn [In]. split; [tauto|].
      intros ([E|H] & Hn); [subst o; contradiction|tauto].
    + destruct (IH (off e :: s0)) as (A & B). assert (Hn: ~ In (off e) s0) by (intro H; apply seen_in in H; congruence).
      cbn [map]. split.
      * constructor; [|exact A]. intro H. apply B in H. destruct H as [_ H]. apply H. left; reflexivity.
      * intro o. cbn [In]. rewrite B. cbn [In]. split.
        -- intros [E|(H1 & H2)]; [subst o; tauto|]. split; [tauto|]. intro H. apply H2. right; exact H.
        -- intros ([E|H1] & H2); [left; exact E|]. destruct (N.eq_dec (off e) o) as [E|Hne]; [left; exact E|]. right. split; [exact H1|]. intros [E|H]; [contradiction|contradiction].
Qed.
Lemma firsts_count es : length (firsts [] es) = distinct_offsets es.
Proof.
  unfold distinct_offsets. destruct (firsts_spec es []) as (A & B).
  rewrite <- (map_length off (firsts [] es)). apply Permutation_length. apply NoDup_Permutation; [exact A|apply NoDup_nodup|].
  intro o. rewrite B, nodup_In. cbn. tauto.
Qed.

(* ---- the declarative consistency predicate and the two directions *)
Record consistent (h:header) (es:list entry) (fsize:Z) : Prop := {
  c_offsets : hN h F_root_off <> 0 /\ hN h F_meta_off <> 0 /\ hN h F_leaf_off <> 0 /\ hN h F_data_off <> 0;
  c_lengths : hN h F_root_len <= Z.to_N fsize /\ hN h F_meta_len <= Z.to_N fsize /\ hN h F_leaf_len <= Z.to_N fsize /\ hN h F_data_len <= Z.to_N fsize;
  c_total : fsize = int64_of (127 + hN h F_root_len + hN h F_meta_len + hN h F_leaf_len + hN h F_data_len) \/
            fsize = int64_of (16384 + hN h F_meta_len + hN h F_leaf_len + hN h F_data_len);
  c_inside : Forall (inside (hN h F_data_len)) es;
  c_order : h F_clustered = 1%Z -> contig 0 (firsts [] es);
  c_addressed : hN h F_addressed = w64 (sum_run es);
  c_entries : hN h F_entries = w64 (N.of_nat (length es));
  c_contents : hN h F_contents = N.of_nat (distinct_offsets es);
  c_minzoom : hN h F_min_zoom = zoom_of (min_id es);
  c_maxzoom : hN h F_max_zoom = zoom_of (max_id es);
  c_center : hN h F_min_zoom <= hN h F_center_zoom <= hN h F_max_zoom;
  c_bounds : (h F_min_lon < h F_max_lon)%Z /\ (h F_min_lat < h F_max_lat)%Z
}.

Theorem verify_iff_consistent h es fsize :
  Forall (fun e => off e + len e < 2^64) es ->
  (verify h (Some es) fsize = None <-> consistent h es fsize).
Proof.
  intro Hfit. unfold verify.
  set (u := hN h). set (cl := (h F_clustered =? 1)%Z). set (a := fold_left (vstep cl (u F_data_len)) es vinit).
  pose proof (fold_addr cl (u F_data_len) es vinit) as E1. pose proof (fold_cnt cl (u F_data_len) es vinit) as E2.
  pose proof (fold_min cl (u F_data_len) es vinit) as E3. pose proof (fold_max cl (u F_data_len) es vinit) as E4.
  pose proof (fold_seen cl (u F_data_len) es vinit) as E5. pose proof (fold_err cl (u F_data_len) es vinit Hfit) as E6.
  fold a in E1, E2, E3, E4, E5, E6. cbn [vinit v_addr v_cnt v_min v_max v_seen v_cur v_err] in *.
  rewrite app_nil_r in E5. rewrite N.add_0_l in E1, E2.
  assert (Elen: N.of_nat (length (v_seen a)) = N.of_nat (distinct_offsets es)).
  { rewrite E5, rev_length, map_length, firsts_count. reflexivity. }
  fold (min_id es) in E3. fold (max_id es) in E4.
  split.
  - intro H.
    destruct (N.eqb_spec (u F_root_off) 0); [discriminate|]. destruct (N.eqb_spec (u F_meta_off) 0); [discriminate|].
    destruct (N.eqb_spec (u F_leaf_off) 0); [discriminate|]. destruct (N.eqb_spec (u F_data_off) 0); [discriminate|].
    destruct (N.ltb_spec (Z.to_N fsize) (u F_root_len)); [discriminate|]. destruct (N.ltb_spec (Z.to_N fsize) (u F_meta_len)); [discriminate|].
    destruct (N.ltb_spec (Z.to_N fsize) (u F_leaf_len)); [discriminate|]. destruct (N.ltb_spec (Z.to_N fsize) (u F_data_len)); [discriminate|].
    destruct ((fsize =? int64_of (127 + u F_root_len + u F_meta_len + u F_leaf_len + u F_data_len))%Z
              || (fsize =? int64_of (16384 + u F_meta_len + u F_leaf_len + u F_data_len))%Z) eqn:Et; [|discriminate]. cbn [negb] in H.
    destruct (v_err a) eqn:Eerr; [discriminate|].
    destruct (N.eqb_spec (w64 (v_addr a)) (u F_addressed)) as [Qa|]; [|discriminate]. cbn [negb] in H.
    destruct (N.eqb_spec (w64 (v_cnt a)) (u F_entries)) as [Qe|]; [|discriminate]. cbn [negb] in H.
    destruct (N.eqb_spec (N.of_nat (length (v_seen a))) (u F_contents)) as [Qc|]; [|discriminate]. cbn [negb] in H.
    destruct (N.eqb_spec (zoom_of (v_min a)) (u F_min_zoom)) as [Qmi|]; [|discriminate]. cbn [negb] in H.
    destruct (N.eqb_spec (zoom_of (v_max a)) (u F_max_zoom)) as [Qma|]; [|discriminate]. cbn [negb] in H.
    destruct ((u F_min_zoom <=? u F_center_zoom) && (u F_center_zoom <=? u F_max_zoom)) eqn:Ec; [|discriminate]. cbn [negb] in H.
    destruct ((h F_max_lon <=? h F_min_lon)%Z || (h F_max_lat <=? h F_min_lat)%Z) eqn:Eb; [discriminate|].
    destruct (proj1 E6 eq_refl) as (_ & Hin & Hord).
    apply orb_true_iff in Et. apply andb_true_iff in Ec. apply orb_false_iff in Eb.
    destruct Ec as [Ce1 Ce2]. apply N.leb_le in Ce1, Ce2. destruct Eb as [Bo1 Bo2]. apply Z.leb_gt in Bo1, Bo2.
    constructor; fold u.
    + tauto.
    + tauto.
    + destruct Et as [Et|Et]; apply Z.eqb_eq in Et; auto.
    + exact Hin.
    + intro Hc. apply Hord. unfold cl. apply Z.eqb_eq. exact Hc.
    + rewrite <- Qa, E1. reflexivity.
    + rewrite <- Qe, E2. reflexivity.
    + rewrite <- Qc, Elen. reflexivity.
    + rewrite <- Qmi, E3. reflexivity.
    + rewrite <- Qma, E4. reflexivity.
    + split; assumption.
    + split; assumption.
  - intros [(O1 & O2 & O3 & O4) (L1 & L2 & L3 & L4) T In Ord Ad En Co Mi Ma Ce (B1 & B2)].
    fold u in O1, O2, O3, O4, L1, L2, L3, L4, T, In, Ad, En, Co, Mi, Ma, Ce.
    destruct (N.eqb_spec (u F_root_off) 0); [contradiction|]. destruct (N.eqb_spec (u F_meta_off) 0); [contradiction|].
    destruct (N.eqb_spec (u F_leaf_off) 0); [contradiction|]. destruct (N.eqb_spec (u F_data_off) 0); [contradiction|].
    destruct (N.ltb_spec (Z.to_N fsize) (u F_root_len)); [lia|]. destruct (N.ltb_spec (Z.to_N fsize) (u F_meta_len)); [lia|].
    destruct (N.ltb_spec (Z.to_N fsize) (u F_leaf_len)); [lia|]. destruct (N.ltb_spec (Z.to_N fsize) (u F_data_len)); [lia|].
    assert (((fsize =? int64_of (127 + u F_root_len + u F_meta_len + u F_leaf_len + u F_data_len))%Z
              || (fsize =? int64_of (16384 + u F_meta_len + u F_leaf_len + u F_data_len))%Z) = true) as ->.
    { apply orb_true_iff. destruct T as [T|T]; [left|right]; apply Z.eqb_eq; exact T. }
    cbn [negb].
    assert (v_err a = None) as ->.
    { apply E6. repeat split; auto. intro Hc. apply Ord. unfold cl in Hc. apply Z.eqb_eq in Hc. exact Hc. }
    rewrite E1, <- Ad, N.eqb_refl. cbn [negb]. rewrite E2, <- En, N.eqb_refl. cbn [negb].
    rewrite Elen, <- Co, N.eqb_refl. cbn [negb]. rewrite E3, <- Mi, N.eqb_refl. cbn [negb]. rewrite E4, <- Ma, N.eqb_refl. cbn [negb].
    assert (((u F_min_zoom <=? u F_center_zoom) && (u F_center_zoom <=? u F_max_zoom)) = true) as ->.
    { apply andb_true_iff. split; apply N.leb_le; lia. }
    cbn [negb].
    assert (((h F_max_lon <=? h F_min_lon)%Z || (h F_max_lat <=? h F_min_lat)%Z) = false) as ->.
    { apply orb_false_iff. split; apply Z.leb_gt; assumption. }
    reflexivity.
Qed.
