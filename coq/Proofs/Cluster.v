(* Second resolver invariant: layout of the written data, what verify's per-entry accumulation computes on the
   resolver's entries, counts, ordering.  Used by C13 (cluster) and C06 (convert). *)
From Coq Require Import NArith ZArith List Lia Arith Bool.
Import ListNotations.
From PM Require Import Model.Varint Model.Directory Model.Header Model.TileId Model.FindTile Model.Resolver Model.Archive
  Model.Verify Model.Cluster Proofs.Resolver.
Open Scope N_scope.

(* ---- layout of the store: contents are written back to back *)
Fixpoint store_ok (s:list (N*bytes)) (total:N) : Prop :=
  match s with [] => total = 0 | (o,b) :: r => o + blen b = total /\ 0 < blen b /\ store_ok r o end.

Lemma store_in_bound : forall s total o b, store_ok s total -> In (o,b) s -> o + blen b <= total /\ 0 < blen b.
Proof.
  induction s as [|[o1 b1] r IH]; intros total o b H Hin; [contradiction|].
  cbn in H. destruct H as (A & B & C). destruct Hin as [E|Hin].
  - inversion E; subst. split; [lia|assumption].
  - destruct (IH _ _ _ C Hin). split; [lia|assumption].
Qed.
Lemma blen_app (a b:bytes) : blen (a ++ b) = blen a + blen b.
Proof. unfold blen. rewrite app_length. lia. Qed.
Lemma store_len : forall s total, store_ok s total -> blen (concat (map snd (rev s))) = total.
Proof.
  induction s as [|[o1 b1] r IH]; intros total H; cbn in H.
  - subst. reflexivity.
  - destruct H as (A & B & C). cbn [rev]. rewrite map_app, concat_app. cbn [map snd concat]. rewrite app_nil_r.
    rewrite blen_app, (IH _ C). exact A.
Qed.
Lemma slice_app_l (a b:bytes) o l : o + l <= blen a -> slice (a ++ b) o l = slice a o l.
Proof.
  intro H. unfold slice, blen in *. rewrite skipn_app. rewrite firstn_app.
  rewrite skipn_length. replace (N.to_nat l - (length a - N.to_nat o))%nat with 0%nat by lia. cbn [firstn]. apply app_nil_r.
Qed.
Lemma slice_app_r (a b:bytes) : slice (a ++ b) (blen a) (blen b) = b.
Proof.
  unfold slice, blen. rewrite !Nat2N.id. rewrite skipn_app, skipn_all, Nat.sub_diag. cbn [skipn app]. apply firstn_all.
Qed.
Lemma data_slice : forall s total o b, store_ok s total -> In (o,b) s ->
  slice (concat (map snd (rev s))) o (blen b) = b.
Proof.
  induction s as [|[o1 b1] r IH]; intros total o b H Hin; [contradiction|].
  cbn in H. destruct H as (A & B & C). cbn [rev]. rewrite map_app, concat_app. cbn [map snd concat]. rewrite app_nil_r.
  destruct Hin as [E|Hin].
  - inversion E; subst. rewrite <- (store_len _ _ C). apply slice_app_r.
  - destruct (store_in_bound _ _ _ _ C Hin). rewrite slice_app_l by (rewrite (store_len _ _ C); lia). eapply IH; eauto.
Qed.

(* ---- verify's per-entry accumulation, written as a fold over the newest-first entry list *)
Definition vfold (dl:N) (l:list entry) : vacc := fold_right (fun e a => vstep true dl a e) vinit l.
Lemma vfold_entries dl l : fold_left (vstep true dl) (rev l) vinit = vfold dl l.
Proof. unfold vfold. rewrite <- fold_left_rev_right. rewrite rev_involutive. reflexivity. Qed.

Fixpoint rchain (hi:N) (l:list entry) : Prop :=
  match l with [] => True | e :: r => tid e + run e <= hi /\ 0 < run e /\ rchain (tid e) r end.
Lemma rchain_mono hi hi' l : rchain hi l -> hi <= hi' -> rchain hi' l.
Proof. destruct l as [|e r]; cbn; [auto|]. intros (A & B & C) H. repeat split; auto; lia. Qed.

Section Inv2.
Variable enc : bytes -> bytes.
Variable hash : bytes -> bytes.
Hypothesis no_collision : forall d1 d2, hash d1 = hash d2 -> d1 = d2.

Definition in_store (st:rst) (o:N) : Prop := exists b, In (o,b) (r_store st).

Record Inv2 (dedup:bool) (st:rst) : Prop := {
  I_store : store_ok (r_store st) (r_off st);
  I_count : if dedup then length (r_map st) = length (r_store st) else length (r_rev st) = length (r_store st);
  I_ptr : forall e, In e (r_rev st) -> exists b, In (off e, b) (r_store st) /\ len e = blen b;
  I_acc : forall dl, r_off st <= dl -> dl < 2^64 ->
          let a := vfold dl (r_rev st) in
          v_err a = None /\ v_cur a = r_off st /\ (forall o, seen o (v_seen a) = true <-> in_store st o) /\
          length (v_seen a) = length (r_store st) /\ v_addr a = r_addr st /\ v_cnt a = N.of_nat (length (r_rev st))
}.

Lemma Inv2_init dedup : Inv2 dedup rinit.
Proof.
  constructor; cbn; auto.
  - destruct dedup; reflexivity.
  - intros e [].
  - intros dl _ _. repeat split; auto; try discriminate. intros (b & []).
Qed.

Lemma seen_cons o x s : seen o (x :: s) = (o =? x) || seen o s.
Proof. reflexivity. Qed.

(* changing only the run length of an entry changes only the addressed counter *)
Lemma vstep_run dl a e r' :
  vstep true dl a (mkE (tid e) (off e) (len e) r') =
  let b := vstep true dl a e in mkV (v_seen b) (v_cur b) (v_addr a + r') (v_cnt b) (v_min b) (v_max b) (v_err b).
Proof. unfold vstep. cbn [tid off len run v_seen v_cur v_addr v_cnt v_min v_max v_err]. reflexivity. Qed.

Lemma slookup_in o s c : slookup o s = Some c -> In (o,c) s.
Proof.
  induction s as [|[o' b] r IH]; cbn; [discriminate|].
  destruct (N.eqb_spec o o') as [->|]; [intro E; inversion E; now left|intro; right; auto].
Qed.

Theorem add_tile_inv2 dedup inputs st id d rl :
  0 < blen (enc d) ->
  RInv enc hash inputs st -> Inv2 dedup st -> Inv2 dedup (add_tile enc hash dedup st id d rl).
Proof.
  intros Hne R I. unfold add_tile.
  set (found := if dedup then mlookup (hash d) (r_map st) else None).
  destruct found as [[o l]|] eqn:Ef.
  - assert (Hd: dedup = true) by (unfold found in Ef; destruct dedup; [reflexivity|discriminate]).
    assert (Hm: mlookup (hash d) (r_map st) = Some (o,l)) by (unfold found in Ef; rewrite Hd in Ef; exact Ef).
    destruct (R_map _ _ _ _ R _ _ _ Hm) as [d0 [Hh [Hst [Hl [e0 [He0 Hoff0]]]]]].
    apply no_collision in Hh. subst d0. apply slookup_in in Hst.
    destruct (r_rev st) as [|lst rest] eqn:Erev; [contradiction|].
    destruct ((id =? tid lst + run lst) && (off lst =? o)) eqn:Ecase.
    + (* run-length merge *)
      constructor; cbn [r_rev r_off r_map r_store r_addr].
      * apply (I_store _ _ I).
      * pose proof (I_count _ _ I) as C. rewrite Hd in *. exact C.
      * intros e [<-|Hin]; cbn [off len].
        -- apply (I_ptr _ _ I). rewrite Erev. left; reflexivity.
        -- apply (I_ptr _ _ I). rewrite Erev. right; exact Hin.
      * intros dl Hdl Hdl2. pose proof (I_acc _ _ I dl Hdl Hdl2) as A. rewrite Erev in A. cbv zeta in *.
        unfold vfold in *. cbn [fold_right] in *. fold (vfold dl rest) in *.
        rewrite vstep_run. cbv zeta. cbn [v_seen v_cur v_addr v_cnt v_err].
        destruct A as (A1 & A2 & A3 & A4 & A5 & A6). repeat split; auto; try apply A3.
        all: unfold vstep in *; cbn [v_addr v_cnt length] in *; lia.
    + (* new entry pointing at stored content *)
      constructor; cbn [r_rev r_off r_map r_store r_addr].
      * apply (I_store _ _ I).
      * pose proof (I_count _ _ I) as C. rewrite Hd in *. exact C.
      * intros e [<-|Hin]; cbn [off len].
        -- exists (enc d). split; [exact Hst|exact Hl].
        -- apply (I_ptr _ _ I). rewrite Erev. exact Hin.
      * intros dl Hdl Hdl2. pose proof (I_acc _ _ I dl Hdl Hdl2) as A. rewrite Erev in A. cbv zeta in *.
        unfold vfold in *. cbn [fold_right] in *. fold (vfold dl rest) in *.
        set (a := vstep true dl (vfold dl rest) lst) in *.
        destruct A as (A1 & A2 & A3 & A4 & A5 & A6).
        destruct (store_in_bound _ _ _ _ (I_store _ _ I) Hst) as [Hb1 Hb2].
        unfold vstep. cbn [tid off len run]. rewrite A1.
        assert (Hseen: seen o (v_seen a) = true) by (apply A3; exists (enc d); exact Hst).
        rewrite Hseen. cbn [negb andb].
        assert (Hin: dl <? w64 (o + l) = false).
        { apply N.ltb_ge. unfold w64. rewrite N.mod_small by lia. lia. }
        rewrite Hin. cbn [v_seen v_cur v_addr v_cnt v_err]. repeat split; auto; try apply A3.
        all: cbn [length] in *; lia.
  - (* new content *)
    assert (Hnot: forall b, ~ In (r_off st, b) (r_store st)).
    { intros b Hb. destruct (store_in_bound _ _ _ _ (I_store _ _ I) Hb). lia. }
    constructor; cbn [r_rev r_off r_map r_store r_addr].
    + cbn [store_ok]. repeat split; auto. apply (I_store _ _ I).
    + pose proof (I_count _ _ I) as C. destruct dedup; cbn [length]; lia.
    + intros e [<-|Hin]; cbn [off len].
      * exists (enc d). split; [left; reflexivity|reflexivity].
      * destruct (I_ptr _ _ I e Hin) as (b & Hb & Hl). exists b. split; [right; exact Hb|exact Hl].
    + intros dl Hdl Hdl2. pose proof (I_acc _ _ I dl ltac:(lia) Hdl2) as A. cbv zeta in *.
      unfold vfold in *. cbn [fold_right] in *. fold (vfold dl (r_rev st)) in *.
      set (a := vfold dl (r_rev st)) in *.
      destruct A as (A1 & A2 & A3 & A4 & A5 & A6).
      unfold vstep. cbn [tid off len run]. rewrite A1.
      assert (Hseen: seen (r_off st) (v_seen a) = false).
      { destruct (seen (r_off st) (v_seen a)) eqn:E; [|reflexivity]. apply A3 in E. destruct E as (b & Hb). exfalso. eapply Hnot; eauto. }
      rewrite Hseen. cbn [negb andb].
      assert (Hin: dl <? w64 (r_off st + blen (enc d)) = false).
      { apply N.ltb_ge. unfold w64. rewrite N.mod_small by lia. lia. }
      rewrite Hin. rewrite A2, N.eqb_refl. cbn [negb]. cbn [v_seen v_cur v_addr v_cnt v_err].
      repeat split; auto.
      * unfold w64. apply N.mod_small. lia.
      * rewrite seen_cons. intro H. apply orb_prop in H. destruct H as [H|H].
        -- apply N.eqb_eq in H. subst o. exists (enc d). left; reflexivity.
        -- apply A3 in H. destruct H as (b & Hb). exists b. right; exact Hb.
      * intros (b & [E|Hb]); rewrite seen_cons.
        -- inversion E; subst. rewrite N.eqb_refl. reflexivity.
        -- apply orb_true_iff. right. apply A3. exists b; exact Hb.
      * cbn [length]. lia.
      * lia.
      * cbn [length]. lia.
Qed.

Theorem add_all_inv2 dedup : forall inputs,
  Forall (fun x => 0 < blen (enc (snd (fst x)))) inputs -> Inv2 dedup (add_all enc hash dedup inputs).
Proof.
  intro inputs. induction inputs as [|x inputs IH] using rev_ind; intro H.
  - apply Inv2_init.
  - apply Forall_app in H. destruct H as [H1 H2]. inversion H2 as [|? ? Hx _]; subst.
    rewrite add_all_snoc. destruct x as [[id d] rl]. eapply add_tile_inv2; [exact Hx|apply add_all_inv; eauto|apply IH; exact H1].
Qed.

(* ---- ordering: inputs in ascending, non-overlapping order give entries in ascending, non-overlapping order *)
Fixpoint ichain (lo:N) (inputs:list (N*bytes*N)) : Prop :=
  match inputs with [] => True | (id,_,rl) :: r => lo <= id /\ 0 < rl /\ ichain (id + rl) r end.
Definition iend (lo:N) (inputs:list (N*bytes*N)) : N := fold_left (fun _ '(id,_,rl) => id + rl) inputs lo.

Lemma ichain_snoc : forall inputs lo id d rl, ichain lo (inputs ++ [(id,d,rl)]) <-> ichain lo inputs /\ iend lo inputs <= id /\ 0 < rl.
Proof.
  induction inputs as [|[[i0 d0] r0] inputs IH]; intros lo id d rl; cbn [app ichain].
  - unfold iend. cbn. tauto.
  - rewrite IH. unfold iend. cbn [fold_left]. tauto.
Qed.

Lemma add_tile_chain dedup st hi id d rl : rchain hi (r_rev st) -> hi <= id -> 0 < rl ->
  rchain (id + rl) (r_rev (add_tile enc hash dedup st id d rl)).
Proof.
  intros H Hhi Hrl. unfold add_tile.
  destruct (if dedup then mlookup (hash d) (r_map st) else None) as [[o l]|].
  - destruct (r_rev st) as [|lst rest] eqn:Erev; [rewrite Erev; exact I|].
    destruct ((id =? tid lst + run lst) && (off lst =? o)) eqn:Ecase; cbn [r_rev].
    + apply andb_true_iff in Ecase. destruct Ecase as [E1 _]. apply N.eqb_eq in E1.
      cbn [rchain] in *. cbn [tid run]. destruct H as (A & B & C). split; [lia|split; [lia|exact C]].
    + cbn [rchain tid run] in *. destruct H as (A & B & C). split; [lia|split; [exact Hrl|]]. split; [lia|split; [exact B|exact C]].
  - cbn [r_rev]. change (rchain (id + rl) (mkE id (r_off st) (blen (enc d)) rl :: r_rev st)) with
      (id + rl <= id + rl /\ 0 < rl /\ rchain id (r_rev st)). split; [lia|split; [exact Hrl|]]. eapply rchain_mono; [exact H|exact Hhi].
Qed.

Theorem add_all_chain dedup : forall inputs lo, ichain lo inputs -> rchain (iend lo inputs) (r_rev (add_all enc hash dedup inputs)).
Proof.
  intro inputs. induction inputs as [|x inputs IH] using rev_ind; intros lo H.
  - exact I.
  - destruct x as [[id d] rl]. apply ichain_snoc in H. destruct H as (H1 & H2 & H3).
    rewrite add_all_snoc. unfold iend. rewrite fold_left_app. cbn [fold_left].
    eapply add_tile_chain; eauto.
Qed.
End Inv2.

Lemma last_cons {A} : forall (l:list A) x d, last (x :: l) d = last l x.
Proof. induction l as [|y l IH]; intros x d; [reflexivity|]. change (last (x :: y :: l) d) with (last (y :: l) d). rewrite (IH y d), (IH y x). reflexivity. Qed.

(* min / max tile id as verify accumulates them, on an ordered entry list *)
Lemma vfold_minmax dl : forall l e hi, rchain hi (e :: l) -> tid e < 2^64 - 1 ->
  v_max (vfold dl (e :: l)) = tid e /\ v_min (vfold dl (e :: l)) = tid (last l e) /\ tid (last l e) <= tid e.
Proof.
  induction l as [|e' r IH]; intros e hi H Hlt.
  - unfold vfold. cbn [fold_right]. unfold vstep, vinit. cbn [v_min v_max last].
    assert ((tid e <? 2^64 - 1) = true) as -> by (apply N.ltb_lt; exact Hlt).
    destruct (N.ltb_spec 0 (tid e)); repeat split; lia.
  - cbn [rchain] in H. destruct H as (A & B & C).
    assert (Hlt': tid e' < 2^64 - 1) by (cbn [rchain] in C; destruct C as (C1 & C2 & _); lia).
    destruct (IH e' (tid e) C Hlt') as (M1 & M2 & M3).
    unfold vfold in *. cbn [fold_right] in *. fold (vfold dl r) in *.
    set (a := vstep true dl (vfold dl r) e') in *.
    unfold vstep at 1 2. cbn [v_min v_max]. rewrite M1, M2.
    cbn [rchain] in C. destruct C as (C1 & C2 & _).
    assert ((tid e' <? tid e) = true) as -> by (apply N.ltb_lt; lia).
    assert ((tid e <? tid (last r e')) = false) as -> by (apply N.ltb_ge; lia).
    rewrite last_cons. repeat split; lia.
Qed.
