From Coq Require Import NArith List Lia Bool.
Import ListNotations.
From PM Require Import Model.PathSafe.
Open Scope N_scope.

Lemma clean_abs_root : forall root st, Forall clean_seg root -> forall p, clean_abs st (root ++ p) = clean_abs (rev root ++ st) p.
Proof.
  induction root as [|s r IH]; intros st Hc p; [reflexivity|].
  inversion Hc as [|? ? [H1 H2] Hr]; subst. cbn [app clean_abs]. rewrite H1, H2.
  rewrite IH by assumption. cbn [rev]. now rewrite <- app_assoc.
Qed.

Lemma local_keeps_base : forall key st base st', local_stack st key = Some st' ->
  clean_abs (st ++ base) key = st' ++ base.
Proof.
  induction key as [|s r IH]; intros st base st' H; cbn in *.
  - inversion H; reflexivity.
  - destruct (skip s); [apply IH; exact H|].
    destruct (is_dd s).
    + destruct st as [|t st0]; [discriminate|]. cbn [tl app]. apply IH; exact H.
    + apply (IH (s :: st) base st'); exact H.
Qed.

(* a local key joined to a clean root stays under the root *)
Theorem confined root key : Forall clean_seg root -> is_local key = true ->
  exists rest, join root key = root ++ rest.
Proof.
  intros Hr Hl. unfold is_local in Hl. destruct key as [|c k]; [discriminate|].
  destruct (c =? 47); [discriminate|].
  destruct (local_stack [] (segments (c :: k))) as [st'|] eqn:E; [|discriminate].
  unfold join. rewrite clean_abs_root by assumption. rewrite app_nil_r.
  pose proof (local_keeps_base (segments (c :: k)) [] (rev root) st' E) as K. cbn [app] in K. rewrite K.
  exists (rev st'). rewrite rev_app_distr, rev_involutive. reflexivity.
Qed.

(* keys made of plain segments are neither refused nor rewritten *)
Lemma local_stack_plain : forall p st, Forall clean_seg p -> local_stack st p = Some (rev p ++ st).
Proof.
  induction p as [|s r IH]; intros st Hc; [reflexivity|].
  inversion Hc as [|? ? [H1 H2] Hr]; subst. cbn [local_stack]. rewrite H1, H2.
  rewrite IH by assumption. cbn [rev]. now rewrite <- app_assoc.
Qed.
Lemma segments_head_slash : forall k, exists t, segments (47 :: k) = [] :: t.
Proof. intros k. unfold segments. cbn [split_slash]. rewrite N.eqb_refl. eexists. reflexivity. Qed.
Theorem plain_served root key : Forall clean_seg root -> Forall clean_seg (segments key) ->
  file_for_key root key = Some (root ++ segments key).
Proof.
  intros Hr Hk. unfold file_for_key.
  assert (L: is_local key = true).
  { unfold is_local. destruct key as [|c k].
    - cbn in Hk. inversion Hk as [|? ? [H1 _] _]; subst. discriminate H1.
    - destruct (c =? 47) eqn:E.
      + apply N.eqb_eq in E. subst c. destruct (segments_head_slash k) as [t Et]. rewrite Et in Hk.
        inversion Hk as [|? ? [H1 _] _]; subst. discriminate H1.
      + rewrite (local_stack_plain _ [] Hk). reflexivity. }
  rewrite L. f_equal. unfold join. rewrite clean_abs_root by assumption. rewrite app_nil_r.
  pose proof (local_keeps_base (segments key) [] (rev root) _ (local_stack_plain _ [] Hk)) as K. cbn [app] in K.
  rewrite K. rewrite app_nil_r, rev_app_distr, !rev_involutive. reflexivity.
Qed.
