From Coq Require Import NArith ZArith List Lia ZifyN ZifyBool ZifyNat Arith.
Import ListNotations.
From PM Require Import Model.Varint Model.Directory Model.Iterate Model.FindTile.
Open Scope bool_scope.

(* for ids below 2^63 the int64 comparison of the Go code is the comparison of the numbers *)
Lemma cmp64_spec a b : (a < 2^63)%N -> (b < 2^63)%N -> cmp64 a b = (a ?= b)%N.
Proof.
  intros Ha Hb. unfold cmp64, w64. change (2^64)%N with 18446744073709551616%N. change (2^63)%N with 9223372036854775808%N in *.
  destruct (N.compare_spec a b) as [E|L|G].
  - subst. replace (b + 18446744073709551616 - b)%N with (0 + 1 * 18446744073709551616)%N by lia. rewrite N.mod_add by lia. reflexivity.
  - rewrite N.mod_small by lia. destruct (N.eqb_spec (a + 18446744073709551616 - b) 0)%N; [lia|].
    destruct (N.ltb_spec (a + 18446744073709551616 - b) 9223372036854775808)%N; [lia|reflexivity].
  - replace (a + 18446744073709551616 - b)%N with ((a - b) + 1 * 18446744073709551616)%N by lia. rewrite N.mod_add by lia.
    rewrite N.mod_small by lia. destruct (N.eqb_spec (a - b) 0)%N; [lia|].
    destruct (N.ltb_spec (a - b) 9223372036854775808)%N; [reflexivity|lia].
Qed.

Lemma ascending_tail e r : ascending (e :: r) -> ascending r.
Proof. intros H i j a b Hij Ha Hb. apply (H (S i) (S j) a b); auto; lia. Qed.

(* last_le on an ascending list = the entry at the last index whose tid <= id *)
Lemma last_le_split : forall es id acc n e,
  ascending es -> nth_error es n = Some e -> (tid e <= id)%N ->
  (forall j b, (n < j)%nat -> nth_error es j = Some b -> (id < tid b)%N) ->
  last_le es id acc = Some e.
Proof.
  induction es as [|x r IH]; intros id acc n e Hasc Hn Hle Habove.
  - destruct n; discriminate.
  - cbn [last_le]. destruct n as [|n].
    + cbn in Hn. inversion Hn; subst x. assert ((tid e <=? id)%N = true) as -> by (apply N.leb_le; lia).
      (* everything in r is above id *)
      clear IH. revert Habove. generalize (Some e) as acc'. clear Hn.
      assert (G: forall r', (forall j b, nth_error r' j = Some b -> (id < tid b)%N) -> forall acc', last_le r' id acc' = acc').
      { induction r' as [|y r' IHr]; intros Hall acc'; [reflexivity|]. cbn [last_le].
        assert ((tid y <=? id)%N = false) as ->; [|reflexivity].
        apply N.leb_gt. apply (Hall 0%nat y). reflexivity. }
      intros acc' Habove. apply G. intros j b Hb. apply (Habove (S j) b); [lia|exact Hb].
    + cbn in Hn. assert ((tid x <=? id)%N = true) as ->.
      { apply N.leb_le. assert (tid x < tid e)%N by (apply (Hasc 0%nat (S n) x e); [lia|reflexivity|exact Hn]). lia. }
      apply (IH id (Some x) n e); auto.
      * eapply ascending_tail; eauto.
      * intros j b Hj Hb. apply (Habove (S j) b); [lia|exact Hb].
Qed.

Lemma last_le_none : forall es id, (forall j b, nth_error es j = Some b -> (id < tid b)%N) -> last_le es id None = None.
Proof.
  induction es as [|y r IH]; intros id Hall; [reflexivity|]. cbn [last_le].
  assert ((tid y <=? id)%N = false) as -> by (apply N.leb_gt; apply (Hall 0%nat y); reflexivity). reflexivity.
Qed.

(* binary search invariant *)
Lemma bsearch_spec : forall fuel es id m hi,
  (forall e, In e es -> (tid e < 2^63)%N) -> (id < 2^63)%N ->
  ascending es -> (m <= hi)%nat -> (hi <= length es)%nat -> (hi - m < fuel)%nat ->
  (forall j b, (j < m)%nat -> nth_error es j = Some b -> (tid b < id)%N) ->
  (forall j b, (hi <= j)%nat -> nth_error es j = Some b -> (id < tid b)%N) ->
  match bsearch fuel es id m hi with
  | (Some e, _) => exists k, nth_error es k = Some e /\ tid e = id
  | (None, h) => (h <= length es)%nat /\
                 (forall j b, (j < h)%nat -> nth_error es j = Some b -> (tid b < id)%N) /\
                 (forall j b, (h <= j)%nat -> nth_error es j = Some b -> (id < tid b)%N)
  end.
Proof.
  induction fuel as [|f IH]; intros es id m hi Hsm Hidsm Hasc Hmh Hhl Hf Hlow Hhigh; [lia|].
  cbn [bsearch]. destruct (Nat.ltb_spec m hi) as [Hlt|Hge].
  - set (k := ((hi - 1 + m) / 2)%nat).
    assert (Hk: (m <= k < hi)%nat).
    { unfold k. split.
      - apply Nat.div_le_lower_bound; lia.
      - apply Nat.div_lt_upper_bound; lia. }
    destruct (nth_error es k) as [e|] eqn:Ek.
    2:{ apply nth_error_None in Ek. lia. }
    rewrite cmp64_spec by (try assumption; apply Hsm; eapply nth_error_In; eauto).
    destruct (N.compare_spec id (tid e)) as [Hc|Hc|Hc].
    + exists k. split; [exact Ek|lia].
    + apply IH; auto; try lia.
      intros j b Hj Hb. destruct (Nat.eq_dec j k) as [->|Hne].
      * rewrite Ek in Hb. inversion Hb; subst; assumption.
      * destruct (Nat.lt_ge_cases j hi); [|eapply Hhigh; eauto].
        assert (tid e < tid b)%N by (apply (Hasc k j e b); [lia|exact Ek|exact Hb]). lia.
    + apply IH; auto; try lia.
      intros j b Hj Hb. destruct (Nat.eq_dec j k) as [->|Hne].
      * rewrite Ek in Hb. inversion Hb; subst; assumption.
      * destruct (Nat.lt_ge_cases j m); [eapply Hlow; eauto|].
        assert (tid b < tid e)%N by (apply (Hasc j k b e); [lia|exact Hb|exact Ek]). lia.
  - assert (m = hi) by lia. subst m. repeat split; auto.
Qed.

Theorem find_tile_spec es id :
  ascending es -> (forall e, In e es -> (tid e < 2^63)%N) -> (id < 2^63)%N ->
  find_tile es id = pred_spec es id.
Proof.
  intros Hasc Hids Hid. unfold find_tile, pred_spec.
  pose proof (bsearch_spec (S (length es)) es id 0 (length es) Hids Hid Hasc ltac:(lia) ltac:(lia) ltac:(lia)) as B.
  specialize (B ltac:(intros; lia)).
  specialize (B ltac:(intros j b Hj Hb; assert (nth_error es j = None) by (apply nth_error_None; lia); congruence)).
  destruct (bsearch (S (length es)) es id 0 (length es)) as [[e|] h].
  - destruct B as [k [Hk He]].
    assert (HL: last_le es id None = Some e).
    { apply (last_le_split es id None k e); auto; try lia.
      all: try (intros j b Hj Hb; assert (tid e < tid b)%N by (apply (Hasc k j e b); auto); lia). }
    rewrite HL.
    destruct (N.eqb_spec (run e) 0); [reflexivity|].
    assert ((id - tid e <? run e)%N = true) as -> by (apply N.ltb_lt; lia). reflexivity.
  - destruct B as (Hh & Hlow & Hhigh). destruct h as [|n].
    + rewrite last_le_none; [reflexivity|]. intros j b Hb. apply (Hhigh j b); [lia|exact Hb].
    + destruct (nth_error es n) as [e|] eqn:En.
      2:{ apply nth_error_None in En. lia. }
      assert (Hlt: (tid e < id)%N) by (apply (Hlow n e); [lia|exact En]).
      assert (HL: last_le es id None = Some e).
      { apply (last_le_split es id None n e); auto; try lia.
        all: try (intros j b Hj Hb; apply (Hhigh j b); [lia|exact Hb]). }
      rewrite HL.
      assert (Et: (tid e < 2^64)%N) by (assert (tid e < 2^63)%N by (apply Hids; eapply nth_error_In; eauto); change (2^63)%N with 9223372036854775808%N in *; change (2^64)%N with 18446744073709551616%N; lia).
      assert (Ew: w64 (id + 2^64 - tid e) = (id - tid e)%N).
      { unfold w64. change (2^64)%N with 18446744073709551616%N in *.
        replace (id + 18446744073709551616 - tid e)%N with ((id - tid e) + 1 * 18446744073709551616)%N by lia.
        rewrite N.mod_add by lia. apply N.mod_small. lia. }
      rewrite Ew. reflexivity.
Qed.
