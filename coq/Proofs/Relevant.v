(* RelevantEntries: the tile entries kept are exactly the source tiles whose id is in the bitmap, with the source's offset and length. *)
From Coq Require Import NArith ZArith List Lia Bool.
Import ListNotations.
From PM Require Import Model.Varint Model.Directory Model.Extract.
Open Scope N_scope.

(* tile id is addressed by an entry of the list, with this offset and length *)
Definition addressed (l:list entry) (id o n:N) : Prop := exists e, In e l /\ tid e <= id /\ id < tid e + run e /\ off e = o /\ len e = n.

Lemma trim_run_spec b e : forall fuel y cur_id cur_len, (cur_len = 0 \/ cur_id + cur_len = y) ->
  forall id o n, addressed (trim_run fuel b e y cur_id cur_len) id o n <->
    (o = off e /\ n = len e /\ ((0 < cur_len /\ cur_id <= id /\ id < y) \/ (y <= id /\ id < y + N.of_nat fuel /\ bm_mem b id = true))).
Proof.
  induction fuel as [|f IH]; intros y cur_id cur_len Hc id o n; cbn [trim_run].
  - destruct (N.ltb_spec 0 cur_len) as [Hp|Hz].
    + unfold addressed. split.
      * intros [e' [[<-|[]] (A & B & C & D)]]. cbn in *. split; [auto|]. split; [auto|]. left. lia.
      * intros (-> & -> & [(A & B & C)|(A & B & _)]); [|lia]. eexists. split; [left; reflexivity|]. cbn. repeat split; auto; lia.
    + unfold addressed. split; [intros [e' [[] _]]|]. intros (_ & _ & [H|H]); lia.
  - destruct (bm_mem b y) eqn:Em.
    + destruct (N.eqb_spec cur_len 0) as [Hz|Hnz].
      * rewrite (IH (y + 1) y 1 ltac:(right; reflexivity)). split; intros (A & B & C); (split; [exact A|]); (split; [exact B|]).
        -- destruct C as [C|C]; [right; split; [lia|]; split; [lia|]; assert (id = y) by lia; subst; exact Em|right; split; [lia|]; split; [lia|tauto]].
        -- destruct C as [C|(C1 & C2 & C3)]; [lia|]. destruct (N.eq_dec id y) as [->|Hne]; [left; lia|right; split; [lia|]; split; [lia|exact C3]].
      * rewrite (IH (y + 1) cur_id (cur_len + 1) ltac:(right; lia)). split; intros (A & B & C); (split; [exact A|]); (split; [exact B|]).
        -- destruct C as [(C1 & C2 & C3)|(C1 & C2 & C3)].
           ++ destruct (N.eq_dec id y) as [->|Hne]; [right; split; [lia|]; split; [lia|exact Em]|left; lia].
           ++ right. split; [lia|]. split; [lia|exact C3].
        -- destruct C as [C|(C1 & C2 & C3)]; [left; lia|]. destruct (N.eq_dec id y) as [->|Hne]; [left; lia|right; split; [lia|]; split; [lia|exact C3]].
    + destruct (N.ltb_spec 0 cur_len) as [Hp|Hz].
      * assert (Hsplit : forall P Q R, (P \/ Q <-> R) -> (P \/ Q <-> R)) by auto. unfold addressed at 1.
        split.
        -- intros [e' [[<-|Hin] (A & B & C & D)]].
           ++ cbn in *. split; [auto|]. split; [auto|]. left. destruct Hc; lia.
           ++ assert (Ha : addressed (trim_run f b e (y + 1) (tid e) 0) id o n) by (exists e'; auto).
              apply (IH (y + 1) (tid e) 0 ltac:(left; reflexivity)) in Ha. destruct Ha as (A' & B' & [C'|C']); [lia|].
              destruct C' as (C1 & C2 & C3). split; [exact A'|]. split; [exact B'|]. right. split; [lia|]. split; [lia|exact C3].
        -- intros (-> & -> & [(A & B & C)|(A & B & C)]).
           ++ eexists. split; [left; reflexivity|]. cbn. destruct Hc; [lia|]. repeat split; auto; lia.
           ++ assert (id <> y) by (intro; subst; congruence).
              destruct (proj2 (IH (y + 1) (tid e) 0 ltac:(left; reflexivity) id (off e) (len e))) as [e' [Hin He']].
              { split; [reflexivity|]. split; [reflexivity|]. right. split; [lia|]. split; [lia|exact C]. }
              exists e'. split; [right; exact Hin|exact He'].
      * rewrite (IH (y + 1) (tid e) 0 ltac:(left; reflexivity)). split; intros (A & B & C); (split; [exact A|]); (split; [exact B|]).
        -- destruct C as [C|(C1 & C2 & C3)]; [lia|]. right. split; [lia|]. split; [lia|exact C3].
        -- destruct C as [C|(C1 & C2 & C3)]; [lia|]. assert (id <> y) by (intro; subst; congruence). right. split; [lia|]. split; [lia|exact C3].
Qed.

Lemma addressed_app l1 l2 id o n : addressed (l1 ++ l2) id o n <-> addressed l1 id o n \/ addressed l2 id o n.
Proof.
  unfold addressed. split.
  - intros [e [Hin H]]. apply in_app_or in Hin. destruct Hin; [left|right]; exists e; auto.
  - intros [[e [Hin H]]|[e [Hin H]]]; exists e; (split; [apply in_or_app; auto|exact H]).
Qed.

(* the tile entries of the restriction address exactly the source's tiles that are in the bitmap, with the source's offset and length *)
Theorem relevant_tiles_spec b last : forall dir id o n,
  addressed (fst (relevant b last dir)) id o n <-> (addressed dir id o n /\ bm_mem b id = true).
Proof.
  induction dir as [|e r IH]; intros id o n; cbn [relevant].
  - unfold addressed. cbn. split; [intros [e [[] _]]|intros [[e [[] _]] _]].
  - destruct (relevant b last r) as [tiles leaves] eqn:Er. cbn [fst] in IH.
    assert (Hcons : addressed (e :: r) id o n <-> (tid e <= id /\ id < tid e + run e /\ off e = o /\ len e = n) \/ addressed r id o n).
    { unfold addressed. split.
      - intros [x [[<-|Hin] H]]; [left; exact H|right; exists x; auto].
      - intros [H|[x [Hin H]]]; [exists e; split; [left; reflexivity|exact H]|exists x; split; [right; exact Hin|exact H]]. }
    destruct (N.eqb_spec (run e) 0) as [H0|H0].
    + destruct (bm_intersects b (tid e) _); cbn [fst]; rewrite IH, Hcons; split; try tauto; intros [[H|H] Hm]; try lia; tauto.
    + destruct (N.eqb_spec (run e) 1) as [H1|H1].
      * destruct (bm_mem b (tid e)) eqn:Em; cbn [fst].
        -- assert (Hc2 : addressed (e :: tiles) id o n <-> (tid e <= id /\ id < tid e + run e /\ off e = o /\ len e = n) \/ addressed tiles id o n).
           { unfold addressed. split.
             - intros [x [[<-|Hin] H]]; [left; exact H|right; exists x; auto].
             - intros [H|[x [Hin H]]]; [exists e; split; [left; reflexivity|exact H]|exists x; split; [right; exact Hin|exact H]]. }
           rewrite Hc2, IH, Hcons. split.
           ++ intros [H|[H Hm]]; [split; [left; exact H|]; assert (id = tid e) by lia; subst; exact Em|split; [right; exact H|exact Hm]].
           ++ intros [[H|H] Hm]; [left; exact H|right; split; assumption].
        -- rewrite IH, Hcons. split; [intros [H Hm]; split; [right; exact H|exact Hm]|].
           intros [[H|H] Hm]; [assert (id = tid e) by lia; subst; congruence|split; assumption].
      * cbn [fst]. rewrite addressed_app, IH, Hcons.
        rewrite (trim_run_spec b e (N.to_nat (run e)) (tid e) (tid e) 0 ltac:(left; reflexivity)). rewrite N2Nat.id. split.
        -- intros [(A & B & [C|(C1 & C2 & C3)])|[H Hm]]; [lia|split; [left; repeat split; auto|exact C3]|split; [right; exact H|exact Hm]].
        -- intros [[(A & B & C & D)|H] Hm]; [left; split; [auto|]; split; [auto|]; right; repeat split; auto|right; split; assumption].
Qed.
