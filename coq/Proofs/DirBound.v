(* The checked directory decoder never returns more entries than the input has bytes: the allocation it makes
   is bounded by the input, whatever count the input declares. *)
From Coq Require Import NArith List Lia ZifyN ZifyNat ZifyBool Bool.
Import ListNotations.
From PM Require Import Model.Varint Model.Directory.
Open Scope N_scope.

Lemma read_rest_len : forall fuel i x s bs v r e, read_uvarint_f fuel i x s bs = (v, r, e) -> (length r <= length bs)%nat.
Proof.
  induction fuel as [|f IH]; intros i x s bs v r e H; cbn [read_uvarint_f] in H.
  - inversion H; subst. lia.
  - destruct bs as [|b t]; [inversion H; subst; cbn; lia|].
    destruct (b <? 128).
    + destruct ((i =? 9) && (1 <? b)); inversion H; subst; cbn [length]; lia.
    + apply IH in H. cbn [length]. lia.
Qed.

Lemma read_n_length : forall n bs vs r, read_n n bs = Some (vs, r) -> length vs = n.
Proof.
  induction n as [|k IH]; intros bs vs r H; cbn [read_n] in H.
  - inversion H; reflexivity.
  - destruct (read_uvarint bs) as [[v r0] e]. destruct e; try discriminate.
    destruct (read_n k r0) as [[vs' r']|] eqn:E; [|discriminate]. inversion H; subst. cbn [length]. f_equal. eapply IH; eassumption.
Qed.

Lemma build_length_le : forall ds last prev rs ls os, (length (build last prev ds rs ls os) <= length ds)%nat.
Proof.
  induction ds as [|d ds IH]; intros last prev rs ls os; [cbn; lia|].
  destruct rs as [|r rs]; [cbn; lia|]. destruct ls as [|l ls]; [cbn; lia|]. destruct os as [|o os]; [cbn; lia|].
  cbn [build length]. specialize (IH (w64 (last + d))). cbv zeta. apply le_n_S. apply IH.
Qed.

Theorem decoded_count_bounded : forall bs es, deserialize_res bs = Some es -> (length es <= length bs)%nat.
Proof.
  intros bs es H. unfold deserialize_res in H.
  destruct (read_uvarint bs) as [[n r0] e] eqn:R. destruct e; try discriminate.
  destruct (N.of_nat (length r0) <? n) eqn:C; [discriminate|].
  destruct (read_n (N.to_nat n) r0) as [[ds r1]|] eqn:E1; [|discriminate].
  destruct (read_n (N.to_nat n) r1) as [[rs r2]|]; [|discriminate].
  destruct (read_n (N.to_nat n) r2) as [[ls r3]|]; [|discriminate].
  destruct (read_n (N.to_nat n) r3) as [[os r4]|]; [|discriminate].
  inversion H; subst es. pose proof (build_length_le ds 0 None rs ls os) as B.
  apply read_n_length in E1. unfold read_uvarint in R. apply read_rest_len in R.
  apply N.ltb_ge in C. lia.
Qed.
