(* Proofs about the directory codec model. *)
From Coq Require Import NArith ZArith List Lia ZifyN ZifyBool.
Import ListNotations.
From PM Require Import Model.Varint Model.Directory Proofs.Varint.
Ltac Zify.zify_post_hook ::= Z.div_mod_to_equations.
Open Scope bool_scope. Open Scope N_scope.

Lemma read_n_puts : forall (vs:list N) r, Forall (fun v => v < 2^64) vs ->
  read_n (length vs) (concat (map put_uvarint vs) ++ r) = Some (vs, r).
Proof.
  induction vs as [|v vs IH]; intros r H; [reflexivity|].
  inversion H as [|? ? Hv Hvs]; subst. cbn [length map concat read_n].
  rewrite <- app_assoc. rewrite read_put_uvarint by assumption. rewrite IH by assumption. reflexivity.
Qed.

Lemma put_uvarint_nonempty v : (1 <= length (put_uvarint v))%nat.
Proof. unfold put_uvarint. cbn [put_uvarint_f]. destruct (v <? 128); cbn [length]; lia. Qed.
Lemma puts_len vs : (length vs <= length (concat (map put_uvarint vs)))%nat.
Proof.
  induction vs as [|v vs IH]; [cbn; lia|]. cbn [map concat length]. rewrite app_length.
  pose proof (put_uvarint_nonempty v). lia.
Qed.
(* the count test of the decoder passes on anything that starts with a full first column *)
Lemma count_fits vs r : N.of_nat (length (concat (map put_uvarint vs) ++ r)) <? N.of_nat (length vs) = false.
Proof. apply N.ltb_ge. rewrite app_length. pose proof (puts_len vs). lia. Qed.

Lemma w64_lt x : w64 x < 2^64. Proof. apply N.mod_lt. discriminate. Qed.

Lemma ids_col_as_puts : forall es last, ids_col last es =
  concat (map put_uvarint ((fix deltas last es := match es with [] => [] | e :: r => w64 (tid e + 2^64 - last) :: deltas (tid e) r end) last es)).
Proof. induction es as [|e r IH]; intro last; [reflexivity|]. cbn [ids_col map concat]. now rewrite IH. Qed.

Fixpoint deltas (last:N) (es:list entry) : list N :=
  match es with [] => [] | e :: r => w64 (tid e + 2^64 - last) :: deltas (tid e) r end.
Fixpoint codes (prev:option entry) (es:list entry) : list N :=
  match es with [] => [] | e :: r => off_code prev e :: codes (Some e) r end.

Lemma ids_col_puts es last : ids_col last es = concat (map put_uvarint (deltas last es)).
Proof. revert last; induction es as [|e r IH]; intro last; [reflexivity|]. cbn [ids_col deltas map concat]. now rewrite IH. Qed.
Lemma offs_col_puts es prev : offs_col prev es = concat (map put_uvarint (codes prev es)).
Proof. revert prev; induction es as [|e r IH]; intro prev; [reflexivity|]. cbn [offs_col codes map concat]. now rewrite IH. Qed.
Lemma col_puts f es : col f es = concat (map put_uvarint (map f es)).
Proof. unfold col. now rewrite map_map. Qed.

Lemma deltas_len es last : length (deltas last es) = length es.
Proof. revert last; induction es; intro; cbn; auto. Qed.
Lemma codes_len es prev : length (codes prev es) = length es.
Proof. revert prev; induction es; intro; cbn; auto. Qed.
Lemma deltas_ok es last : Forall (fun v => v < 2^64) (deltas last es).
Proof. revert last; induction es; intro; cbn; constructor; auto using w64_lt. Qed.
Lemma codes_lt es prev : Forall (fun v => v < 2^64) (codes prev es).
Proof.
  revert prev; induction es as [|e r IH]; intro prev; cbn; constructor; auto.
  unfold off_code. destruct prev as [p|]; [destruct (off e =? w64 (off p + len p))|]; try apply w64_lt. change (2^64) with 18446744073709551616; lia.
Qed.

Lemma w64_id_delta last t : last < 2^64 -> t < 2^64 -> w64 (last + w64 (t + 2^64 - last)) = t.
Proof.
  intros Hl Ht. unfold w64. change (2^64) with 18446744073709551616 in *.
  destruct (N.le_gt_cases last t).
  - replace (t + 18446744073709551616 - last) with ((t - last) + 1 * 18446744073709551616) by lia.
    rewrite N.mod_add by lia. rewrite (N.mod_small (t - last)) by lia.
    replace (last + (t - last)) with t by lia. apply N.mod_small; lia.
  - rewrite (N.mod_small (t + 18446744073709551616 - last)) by lia.
    replace (last + (t + 18446744073709551616 - last)) with (t + 1 * 18446744073709551616) by lia.
    rewrite N.mod_add by lia. apply N.mod_small; lia.
Qed.

(* what the decoder makes of an offset code: either form of the spec is read back to the offset *)
Definition code_reads (prev:option entry) (e:entry) (c:N) : Prop :=
  match prev with
  | Some p => (if c =? 0 then w64 (off p + len p) else w64 (c + 2^64 - 1)) = off e
  | None => w64 (c + 2^64 - 1) = off e end.
Inductive codes_read : option entry -> list entry -> list N -> Prop :=
| cr_nil p : codes_read p [] []
| cr_cons p e r c cs : code_reads p e c -> codes_read (Some e) r cs -> codes_read p (e :: r) (c :: cs).

Lemma build_general : forall es last prev cs,
  Forall entry_ok es -> last < 2^64 -> codes_read prev es cs ->
  build last prev (deltas last es) (map run es) (map len es) cs = es.
Proof.
  induction es as [|e r IH]; intros last prev cs Hok Hlast Hc.
  - inversion Hc; reflexivity.
  - inversion Hok as [|? ? He Hr]; subst. destruct He as (Ht & Ho & Hl & Hrn).
    inversion Hc as [|? ? ? c cs' Hcr Hrest]; subst.
    cbn [deltas map build].
    rewrite (w64_id_delta last (tid e)) by assumption.
    assert (El: w32 (len e) = len e) by (apply N.mod_small; assumption).
    assert (Er: w32 (run e) = run e) by (apply N.mod_small; assumption).
    rewrite El, Er.
    assert (Eoff: match prev with
                  | Some p => if c =? 0 then w64 (off p + len p) else w64 (c + 2^64 - 1)
                  | None => w64 (c + 2^64 - 1) end = off e).
    { unfold code_reads in Hcr. destruct prev; exact Hcr. }
    rewrite Eoff.
    destruct e as [t o l rn]. cbn [tid off len run] in *. f_equal.
    apply (IH t (Some (mkE t o l rn))); assumption.
Qed.

Lemma plain_code_reads prev e : off e < 2^64 - 1 -> code_reads prev e (w64 (off e + 1)).
Proof.
  intro Ho.
  assert (Hplus: w64 (off e + 1) = off e + 1) by (unfold w64; apply N.mod_small; change (2^64) with 18446744073709551616 in *; lia).
  assert (Hback: w64 (off e + 1 + 2^64 - 1) = off e).
  { unfold w64. change (2^64) with 18446744073709551616 in *. replace (off e + 1 + 18446744073709551616 - 1) with (off e + 1 * 18446744073709551616) by lia.
    rewrite N.mod_add by lia. apply N.mod_small; lia. }
  unfold code_reads. rewrite Hplus. destruct prev as [p|]; [|exact Hback].
  destruct (N.eqb_spec (off e + 1) 0); [lia|exact Hback].
Qed.

Lemma codes_codes_read : forall es prev, Forall entry_ok es -> codes_read prev es (codes prev es).
Proof.
  induction es as [|e r IH]; intros prev Hok; cbn [codes]; [constructor|].
  inversion Hok as [|? ? He Hr]; subst. destruct He as (Ht & Ho & Hl & Hrn).
  constructor; [|apply IH; assumption].
  unfold off_code. destruct prev as [p|].
  - destruct (N.eqb_spec (off e) (w64 (off p + len p))) as [E|NE].
    + unfold code_reads. rewrite N.eqb_refl. symmetry. exact E.
    + apply plain_code_reads. exact Ho.
  - apply plain_code_reads. exact Ho.
Qed.

Lemma build_roundtrip : forall es last prev,
  Forall entry_ok es -> last < 2^64 ->
  build last prev (deltas last es) (map run es) (map len es) (codes prev es) = es.
Proof. intros. apply build_general; auto using codes_codes_read. Qed.

Lemma deserialize_res_columns ds rs ls cs r n :
  n = length ds -> length rs = n -> length ls = n -> length cs = n -> N.of_nat n < 2^64 ->
  Forall (fun v => v < 2^64) ds -> Forall (fun v => v < 2^64) rs -> Forall (fun v => v < 2^64) ls -> Forall (fun v => v < 2^64) cs ->
  deserialize_res (put_uvarint (N.of_nat n) ++ concat (map put_uvarint ds) ++ concat (map put_uvarint rs)
                   ++ concat (map put_uvarint ls) ++ concat (map put_uvarint cs) ++ r)
  = Some (build 0 None ds rs ls cs).
Proof.
  intros -> Er El Ec Hn Hd Hr Hl Hc. unfold deserialize_res.
  rewrite read_put_uvarint by assumption. rewrite Nat2N.id.
  rewrite count_fits.
  rewrite read_n_puts by assumption.
  rewrite <- Er. rewrite read_n_puts by assumption.
  rewrite Er, <- El. rewrite read_n_puts by assumption.
  rewrite El, <- Ec. rewrite read_n_puts by assumption. reflexivity.
Qed.

Lemma runs_lt es : Forall entry_ok es -> Forall (fun v => v < 2^64) (map run es).
Proof.
  intro Hok. apply Forall_forall. intros v Hv. apply in_map_iff in Hv. destruct Hv as [e [<- He]].
  rewrite Forall_forall in Hok. destruct (Hok e He) as (_ & _ & _ & Hrn). change (2^32) with 4294967296 in *. change (2^64) with 18446744073709551616. lia.
Qed.
Lemma lens_lt es : Forall entry_ok es -> Forall (fun v => v < 2^64) (map len es).
Proof.
  intro Hok. apply Forall_forall. intros v Hv. apply in_map_iff in Hv. destruct Hv as [e [<- He]].
  rewrite Forall_forall in Hok. destruct (Hok e He) as (_ & _ & Hl & _). change (2^32) with 4294967296 in *. change (2^64) with 18446744073709551616. lia.
Qed.

Theorem roundtrip_res es r : Forall entry_ok es -> N.of_nat (length es) < 2^64 ->
  deserialize_res (serialize_entries es ++ r) = Some es.
Proof.
  intros Hok Hn. unfold serialize_entries.
  rewrite ids_col_puts, !col_puts, offs_col_puts. rewrite <- !app_assoc.
  rewrite (deserialize_res_columns (deltas 0 es) (map run es) (map len es) (codes None es) r (length es));
    auto using deltas_len, map_length, codes_len, deltas_ok, codes_lt, runs_lt, lens_lt.
  f_equal. apply build_roundtrip; [assumption|change (2^64) with 18446744073709551616; lia].
Qed.

Theorem C03_roundtrip_raw es r : Forall entry_ok es -> N.of_nat (length es) < 2^64 ->
  deserialize_entries (serialize_entries es ++ r) = es.
Proof. intros Hok Hn. unfold deserialize_entries. rewrite roundtrip_res by assumption. reflexivity. Qed.

(* ---- the declarative wire format *)
Definition entry_fits (e:entry) : Prop := off e + len e < 2^64.
Lemma codes_ok_read : forall prev es cs, codes_ok prev es cs -> Forall entry_ok es -> Forall entry_fits es ->
  match prev with Some p => off p + len p < 2^64 | None => True end ->
  Forall (fun v => v < 2^64) cs /\ codes_read prev es cs.
Proof.
  intros prev es cs Hc. induction Hc as [p|p e r cs Hc IH|p e r cs Heq Hc IH]; intros Hok Hf Hp.
  - split; constructor.
  - inversion Hok as [|? ? He Hr]; subst. destruct He as (Ht & Ho & Hl & Hrn).
    inversion Hf as [|? ? Hfe Hfr]; subst.
    destruct IH as [IH1 IH2]; [assumption|assumption|exact Hfe|].
    split.
    + constructor; [change (2^64) with 18446744073709551616 in *; lia|assumption].
    + constructor; [|assumption].
      replace (off e + 1) with (w64 (off e + 1)).
      * apply plain_code_reads. exact Ho.
      * unfold w64. apply N.mod_small. change (2^64) with 18446744073709551616 in *. lia.
  - inversion Hok as [|? ? He Hr]; subst. destruct He as (Ht & Ho & Hl & Hrn).
    inversion Hf as [|? ? Hfe Hfr]; subst.
    destruct IH as [IH1 IH2]; [assumption|assumption|exact Hfe|].
    split.
    + constructor; [change (2^64) with 18446744073709551616; lia|assumption].
    + constructor; [|assumption]. unfold code_reads. cbn [N.eqb]. unfold w64. rewrite N.mod_small by exact Hp. symmetry; exact Heq.
Qed.

Lemma sdeltas_deltas : forall es last, ascending_from last es -> Forall entry_ok es -> sdeltas last es = deltas last es.
Proof.
  induction es as [|e r IH]; intros last Ha Hok; [reflexivity|].
  destruct Ha as [Hle Ha]. inversion Hok as [|? ? He Hr]; subst. destruct He as (Ht & _).
  cbn [sdeltas deltas]. rewrite IH by assumption. f_equal.
  unfold w64. change (2^64) with 18446744073709551616 in *.
  replace (tid e + 18446744073709551616 - last) with ((tid e - last) + 1 * 18446744073709551616) by lia.
  rewrite N.mod_add by lia. symmetry. apply N.mod_small. lia.
Qed.

Lemma codes_codes_ok : forall es prev, Forall entry_ok es -> Forall entry_fits es ->
  match prev with Some p => off p + len p < 2^64 | None => True end ->
  codes_ok prev es (codes prev es).
Proof.
  induction es as [|e r IH]; intros prev Hok Hf Hp; cbn [codes]; [constructor|].
  inversion Hok as [|? ? He Hr]; subst. destruct He as (Ht & Ho & Hl & Hrn).
  inversion Hf as [|? ? Hn Hfr]; subst. unfold entry_fits in Hn.
  assert (Hplus: w64 (off e + 1) = off e + 1) by (unfold w64; apply N.mod_small; change (2^64) with 18446744073709551616 in *; lia).
  unfold off_code. destruct prev as [p|].
  - destruct (N.eqb_spec (off e) (w64 (off p + len p))) as [E|NE].
    + apply co_short; [|apply IH; assumption]. unfold w64 in E. rewrite N.mod_small in E by exact Hp. exact E.
    + rewrite Hplus. apply co_plain. apply IH; assumption.
  - rewrite Hplus. apply co_plain. apply IH; assumption.
Qed.

Theorem encoder_is_spec es : Forall entry_ok es -> Forall entry_fits es -> ascending_from 0 es -> wire_repr (serialize_entries es) es.
Proof.
  intros Hok Hf Ha. exists (codes None es). split; [apply codes_codes_ok; auto|].
  unfold serialize_entries, puts. rewrite ids_col_puts, !col_puts, offs_col_puts, sdeltas_deltas by assumption. reflexivity.
Qed.

Theorem decoder_reads_spec_res b es r : wire_repr b es -> Forall entry_ok es -> Forall entry_fits es -> ascending_from 0 es ->
  N.of_nat (length es) < 2^64 -> deserialize_res (b ++ r) = Some es.
Proof.
  intros (cs & Hc & ->) Hok Hf Ha Hn.
  destruct (codes_ok_read None es cs Hc Hok Hf I) as [Hcs Hread].
  assert (Hlen: length cs = length es).
  { clear -Hc. induction Hc; cbn; auto. }
  unfold puts. rewrite sdeltas_deltas by assumption. rewrite <- !app_assoc.
  rewrite (deserialize_res_columns (deltas 0 es) (map run es) (map len es) cs r (length es));
    auto using deltas_len, map_length, deltas_ok, runs_lt, lens_lt.
  f_equal. apply build_general; [assumption|change (2^64) with 18446744073709551616; lia|assumption].
Qed.
Theorem decoder_reads_spec b es r : wire_repr b es -> Forall entry_ok es -> Forall entry_fits es -> ascending_from 0 es ->
  N.of_nat (length es) < 2^64 -> deserialize_entries (b ++ r) = es.
Proof. intros. unfold deserialize_entries. erewrite decoder_reads_spec_res; eauto. Qed.
