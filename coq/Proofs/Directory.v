(* Proofs about the directory codec model. *)
From Coq Require Import NArith ZArith List Lia ZifyN ZifyBool.
Import ListNotations.
From PM Require Import Model.Varint Model.Directory Proofs.Varint.
Ltac Zify.zify_post_hook ::= Z.div_mod_to_equations.
Open Scope bool_scope. Open Scope N_scope.

Lemma read_n_puts : forall (vs:list N) r, Forall (fun v => v < 2^64) vs ->
  read_n (length vs) (concat (map put_uvarint vs) ++ r) = (vs, r).
Proof.
  induction vs as [|v vs IH]; intros r H; [reflexivity|].
  inversion H as [|? ? Hv Hvs]; subst. cbn [length map concat read_n].
  rewrite <- app_assoc. rewrite read_put_uvarint by assumption. rewrite IH by assumption. reflexivity.
Qed.

Lemma w64_lt x : w64 x < 2^64. Proof. apply N.mod_lt. discriminate. Qed.

Lemma ids_col_as_puts : forall es last, ids_col last es =
  concat (map put_uvarint ((fix deltas last es := match es with [] => [] | e :: r => w64 (tid e + 2^64 - last) :: deltas (tid e) r end) last es)).
Proof. induction es as [|e r IH]; intro last; [reflexivity|]. cbn [ids_col map concat]. now rewrite IH. Qed.

Fixpoint deltas (last:N) (es:list entry) : list N :=
  match es with [] => [] | e :: r => w64 (tid e + 2^64 - last) :: deltas (tid e) r end.
Fixpoint codes (prev:option entry) (es:list entry) : list N :=
  match es with [] => [] | e :: r => off_code prev e :: codes (Some e) r end.

Lemma ids_col_puts es last : ids_col last es = concat (map put_uvarint (deltas last es)).
Proof. revert last; induction es as [|e r IH]; intro last; [reflexivity|]. cbn [ids_col deltas map concat]. now rewrite IH. Qed.
Lemma offs_col_puts es prev : offs_col prev es = concat (map put_uvarint (codes prev es)).
Proof. revert prev; induction es as [|e r IH]; intro prev; [reflexivity|]. cbn [offs_col codes map concat]. now rewrite IH. Qed.
Lemma col_puts f es : col f es = concat (map put_uvarint (map f es)).
Proof. unfold col. now rewrite map_map. Qed.

Lemma deltas_len es last : length (deltas last es) = length es.
Proof. revert last; induction es; intro; cbn; auto. Qed.
Lemma codes_len es prev : length (codes prev es) = length es.
Proof. revert prev; induction es; intro; cbn; auto. Qed.
Lemma deltas_ok es last : Forall (fun v => v < 2^64) (deltas last es).
Proof. revert last; induction es; intro; cbn; constructor; auto using w64_lt. Qed.
Lemma codes_ok es prev : Forall (fun v => v < 2^64) (codes prev es).
Proof.
  revert prev; induction es as [|e r IH]; intro prev; cbn; constructor; auto.
  unfold off_code. destruct prev as [p|]; [destruct (off e =? w64 (off p + len p))|]; try apply w64_lt. change (2^64) with 18446744073709551616; lia.
Qed.

Lemma build_roundtrip : forall es last prev,
  Forall entry_ok es -> last < 2^64 ->
  build last prev (deltas last es) (map run es) (map len es) (codes prev es) = es.
Proof.
  induction es as [|e r IH]; intros last prev Hok Hlast; [reflexivity|].
  inversion Hok as [|? ? He Hr]; subst. destruct He as (Ht & Ho & Hl & Hrn).
  cbn [deltas map codes build].
  assert (Eid: w64 (last + w64 (tid e + 2^64 - last)) = tid e).
  { unfold w64. change (2^64) with 18446744073709551616 in *.
    destruct (N.le_gt_cases last (tid e)).
    - replace (tid e + 18446744073709551616 - last) with ((tid e - last) + 1 * 18446744073709551616) by lia.
      rewrite N.mod_add by lia. rewrite (N.mod_small (tid e - last)) by lia.
      replace (last + (tid e - last)) with (tid e) by lia. apply N.mod_small; lia.
    - rewrite (N.mod_small (tid e + 18446744073709551616 - last)) by lia.
      replace (last + (tid e + 18446744073709551616 - last)) with (tid e + 1 * 18446744073709551616) by lia.
      rewrite N.mod_add by lia. apply N.mod_small; lia. }
  rewrite Eid.
  assert (El: w32 (len e) = len e) by (apply N.mod_small; assumption).
  assert (Er: w32 (run e) = run e) by (apply N.mod_small; assumption).
  rewrite El, Er.
  assert (Eoff: match prev with
                | Some p => if off_code prev e =? 0 then w64 (off p + len p) else w64 (off_code prev e + 2^64 - 1)
                | None => w64 (off_code prev e + 2^64 - 1) end = off e).
  { assert (Hplus: w64 (off e + 1) = off e + 1) by (unfold w64; apply N.mod_small; change (2^64) with 18446744073709551616 in *; lia).
    assert (Hback: w64 (off e + 1 + 2^64 - 1) = off e).
    { unfold w64. change (2^64) with 18446744073709551616 in *. replace (off e + 1 + 18446744073709551616 - 1) with (off e + 1 * 18446744073709551616) by lia.
      rewrite N.mod_add by lia. apply N.mod_small; lia. }
    unfold off_code. destruct prev as [p|].
    - destruct (N.eqb_spec (off e) (w64 (off p + len p))) as [E|NE].
      + rewrite N.eqb_refl. symmetry. exact E.
      + rewrite Hplus. destruct (N.eqb_spec (off e + 1) 0); [lia|]. exact Hback.
    - rewrite Hplus. exact Hback. }
  rewrite Eoff.
  destruct e as [t o l rn]. cbn [tid off len run] in *. f_equal.
  apply (IH t (Some (mkE t o l rn))); assumption.
Qed.

Theorem C03_roundtrip_raw es r : Forall entry_ok es -> N.of_nat (length es) < 2^64 ->
  deserialize_entries (serialize_entries es ++ r) = es.
Proof.
  intros Hok Hn. unfold deserialize_entries, serialize_entries.
  rewrite <- !app_assoc. rewrite read_put_uvarint by assumption. rewrite Nat2N.id.
  rewrite ids_col_puts, !col_puts, offs_col_puts.
  rewrite <- (deltas_len es 0) at 1. rewrite read_n_puts by apply deltas_ok.
  rewrite <- (map_length run es) at 1. rewrite read_n_puts.
  2:{ apply Forall_forall. intros v Hv. apply in_map_iff in Hv. destruct Hv as [e [<- He]].
      rewrite Forall_forall in Hok. destruct (Hok e He) as (_ & _ & _ & Hrn). change (2^32) with 4294967296 in *. change (2^64) with 18446744073709551616. lia. }
  rewrite <- (map_length len es) at 1. rewrite read_n_puts.
  2:{ apply Forall_forall. intros v Hv. apply in_map_iff in Hv. destruct Hv as [e [<- He]].
      rewrite Forall_forall in Hok. destruct (Hok e He) as (_ & _ & Hl & _). change (2^32) with 4294967296 in *. change (2^64) with 18446744073709551616. lia. }
  rewrite <- (codes_len es None) at 1. rewrite read_n_puts by apply codes_ok.
  apply build_roundtrip; [assumption|]. change (2^64) with 18446744073709551616; lia.
Qed.
