From Coq Require Import NArith ZArith List Lia ZifyN ZifyBool.
From PM Require Import Base.Wrap Model.Hilbert Model.TileId Proofs.Hil Proofs.HilRef.
Ltac Zify.zify_post_hook ::= Z.div_mod_to_equations.
Open Scope N_scope.

Lemma land1 X : N.land 1 X = X mod 2.
Proof. rewrite N.land_comm. change 1 with (N.ones 1). rewrite N.land_ones. reflexivity. Qed.

Lemma w32_mod4 t : w32 t mod 4 = t mod 4.
Proof. unfold w32. change (2^32) with (4 * 1073741824). rewrite N.mod_mul_r by lia.
  rewrite N.mul_comm, N.mod_add by lia. apply N.mod_mod; lia. Qed.

Lemma digit_bits t : let q := t mod 4 in
  N.land 1 (N.shiftr (w32 t) 1) = qx q /\
  N.land 1 (N.lxor (w32 t) (qx q)) = qy q.
Proof.
  cbv zeta. pose proof (w32_mod4 t) as W. set (u := w32 t) in *.
  rewrite !land1. rewrite N.shiftr_div_pow2. change (2^1) with 2.
  assert (Hq: t mod 4 < 4) by (apply N.mod_lt; lia).
  assert (E1: (u / 2) mod 2 = qx (t mod 4)).
  { unfold qx. rewrite <- W. lia. }
  split; [exact E1|].
  (* low bit of xor *)
  rewrite <- N.bit0_mod. rewrite N.lxor_spec.
  assert (Eu: N.b2n (N.testbit u 0) = (t mod 4) mod 2) by (rewrite N.bit0_mod, <- W; lia).
  assert (t mod 4 = 0 \/ t mod 4 = 1 \/ t mod 4 = 2 \/ t mod 4 = 3) as [E|[E|[E|E]]] by lia;
    rewrite E in *; destruct (N.testbit u 0); cbn in Eu |- *; try reflexivity; try discriminate Eu.
Qed.

Lemma rotate_clean k X Y q : k <= 30 -> X < 2^k -> Y < 2^k -> q < 4 ->
  rotate (2^k) X Y (qx q) (qy q) = rot (2^k) X Y q.
Proof.
  intros Hk HX HY Hq.
  assert (Hs: 0 < 2^k) by (apply N.neq_0_lt_0, N.pow_nonzero; lia).
  assert (Hle: 2^k <= 2^30) by (apply N.pow_le_mono_r; lia). change (2^30) with 1073741824 in Hle.
  unfold rotate, rot.
  assert (q = 0 \/ q = 1 \/ q = 2 \/ q = 3) as [E|[E|[E|E]]] by lia; subst q; cbn [qy]; change (qx 0) with 0; change (qx 1) with 0; change (qx 2) with 1; change (qx 3) with 1; cbn; try reflexivity.
  rewrite (sub32_small (2^k) 1) by (change (2^32) with 4294967296; lia).
  rewrite !sub32_small by (change (2^32) with 4294967296; lia). reflexivity.
Qed.

Lemma shl32_bit b a : b < 2 -> a <= 30 -> shl32 b a = b * 2^a.
Proof.
  intros Hb Ha. unfold shl32. assert (a <? 32 = true) as -> by (apply N.ltb_lt; lia).
  rewrite N.shiftl_mul_pow2. unfold w32. apply N.mod_small.
  assert (2^a <= 2^30) by (apply N.pow_le_mono_r; lia). change (2^30) with 1073741824 in *. change (2^32) with 4294967296. nia.
Qed.

Lemma id_loop_spec : forall (j a:nat) (zn:nat) T fuel tx ty,
  (a + j = zn)%nat -> (zn <= 31)%nat -> T < 4^(N.of_nat zn) -> (j < fuel)%nat ->
  (tx,ty) = hxy a (T mod 4^(N.of_nat a)) ->
  id_loop fuel (N.of_nat a) (N.of_nat zn) (T / 4^(N.of_nat a)) tx ty = hxy zn T.
Proof.
  induction j as [|j IH]; intros a zn T fuel tx ty Haz Hz HT Hf Hxy.
  - assert (a = zn) by lia. subst a. destruct fuel as [|f]; [lia|]. cbn [id_loop].
    rewrite N.ltb_irrefl. rewrite Hxy. rewrite N.mod_small by assumption. reflexivity.
  - destruct fuel as [|f]; [lia|]. cbn [id_loop].
    assert (Hlt: N.of_nat a <? N.of_nat zn = true) by (apply N.ltb_lt; lia). rewrite Hlt.
    pose proof (pow4_pos a) as H4. pose proof (pow2_pos a) as H2.
    set (t := T / 4^(N.of_nat a)).
    destruct (digit_bits t) as [Erx Ery]. cbv zeta in Erx, Ery.
    set (q := t mod 4) in *. assert (Hq: q < 4) by (apply N.mod_lt; lia).
    rewrite Erx, Ery.
    assert (Ha30: N.of_nat a <= 30) by lia.
    rewrite (shl32_bit 1 (N.of_nat a)) by lia. rewrite N.mul_1_l.
    assert (Hm: T mod 4^(N.of_nat a) < 4^(N.of_nat a)) by (apply N.mod_lt; lia).
    pose proof (hxy_bound a _ Hm) as HB. rewrite <- Hxy in HB. cbn [fst snd] in HB. destruct HB as [HB1 HB2].
    rewrite rotate_clean by assumption.
    pose proof (rot_bound (2^(N.of_nat a)) tx ty q HB1 HB2) as RB.
    destruct (rot (2 ^ N.of_nat a) tx ty q) as [x' y'] eqn:Erot. cbn [fst snd] in RB. destruct RB as [RB1 RB2].
    assert (Hqx: qx q < 2) by (unfold qx; apply N.div_lt_upper_bound; lia).
    assert (Hqy: qy q < 2) by (unfold qy; destruct q as [|[[]|[]|]]; lia).
    rewrite !shl32_bit by assumption.
    assert (Hle: 2^(N.of_nat a) <= 2^30) by (apply N.pow_le_mono_r; lia). change (2^30) with 1073741824 in Hle.
    assert (Hx1: qx q * 2^(N.of_nat a) <= 1 * 2^(N.of_nat a)) by (apply N.mul_le_mono_r; lia).
    assert (Hy1: qy q * 2^(N.of_nat a) <= 1 * 2^(N.of_nat a)) by (apply N.mul_le_mono_r; lia).
    unfold w32. change (2^32) with 4294967296. rewrite !N.mod_small by lia.
    replace (N.of_nat a + 1) with (N.of_nat (S a)) by lia.
    assert (Et: N.shiftr t 2 = T / 4^(N.of_nat (S a))).
    { rewrite N.shiftr_div_pow2. change (2^2) with 4. unfold t. rewrite N.div_div by lia. rewrite (pow4 a). f_equal; lia. }
    rewrite Et.
    apply IH; try lia; try assumption.
    (* invariant re-established *)
    cbn [hxy].
    assert (Ed: (T mod 4^(N.of_nat (S a))) / 4^(N.of_nat a) = q).
    { rewrite (pow4 a). unfold q, t. rewrite (N.mul_comm 4). rewrite N.mod_mul_r by lia.
      rewrite N.mul_comm, N.div_add by lia. rewrite N.div_small by (apply N.mod_lt; lia). lia. }
    assert (Em: (T mod 4^(N.of_nat (S a))) mod 4^(N.of_nat a) = T mod 4^(N.of_nat a)).
    { rewrite (pow4 a). rewrite (N.mul_comm 4). rewrite N.mod_mul_r by lia.
      rewrite N.mul_comm, N.mod_add by lia. apply N.mod_mod; lia. }
    rewrite Ed, Em, <- Hxy, Erot. reflexivity.
Qed.
