(* The global invariant of the server LTS and its preservation by every step (any interleaving). *)
From Coq Require Import NArith List Lia Bool Arith.
Import ListNotations.
From PM Require Import Model.Server.
Open Scope N_scope.

Section Server.
Context `{V:Version}.
(* well-formedness of every version's header: the root directory and the leaf section do not start at byte 0 *)
Hypothesis root_off_nz : forall v, fst (root v) <> 0.
Hypothesis leaf_base_nz : forall v lo, leaf_base v + lo <> 0.

Lemma key_eqb_eq a b : key_eqb a b = true <-> a = b.
Proof.
  unfold key_eqb. destruct a, b; cbn. rewrite !andb_true_iff, !N.eqb_eq. split.
  - intros [[[-> ->] ->] ->]; reflexivity.
  - intro H; inversion H; auto.
Qed.

(* ================= invariant ================= *)
Definition wk (h:list (N*ver)) (k:key) (cv:cval) : Prop :=
  cv_ok cv = true ->
  match cv_pay cv with
  | Some (PHeader v) => k = hdrkey (kn k) /\ In (kn k, v) h /\ cv_etag cv = vtag v
  | Some (PDir v o l) => o = ko k /\ l = kl k /\ In (kn k, v) h /\ cv_etag cv = vtag v /\ (ke k = 0 \/ ke k = vtag v) /\ (ko k <> 0 \/ kl k <> 0)
  | None => False
  end.

Definition expects (h:hstate) (k:key) : Prop :=
  match h with
  | HWaitHdr _ q _ => k = hdrkey (t_name q)
  | HWaitDir _ q _ hv o l _ => k = mkK (t_name q) (vtag hv) o l
  | HWaitTile _ _ _ _ _ => False
  end.

Definition hgood (hi:list (N*ver)) (h:hstate) : Prop :=
  match h with
  | HWaitHdr _ _ _ => True
  | HWaitDir _ q _ hv o l d =>
      t_kind q = 0 /\ In (t_name q, hv) hi /\ zoom_ok hv (t_z q) = true /\ ext_ok hv (t_ext q) = true /\ (d <= 3)%nat /\
      answer hv q = walk hv o l (t_id q) (4 - d) /\ o <> 0
  | HWaitTile q _ hv o l => In (t_name q, hv) hi /\ answer hv q = R200 hv (rbase hv q + o) l
  end.

Definition good_done (hi:list (N*ver)) (q:treq) (r:resp) : Prop :=
  match r with
  | R200 v o l => In (t_name q, v) hi /\ answer v q = R200 v o l
  | R204 | R400 => exists v, In (t_name q, v) hi /\ answer v q = r
  | R404 | R500 => True
  end.

Definition ksane (k:key) : Prop := ko k = 0 -> kl k = 0 -> ke k = 0.
Definition pend_ok (s:sys) (m rid:nat) (k:key) : Prop :=
  (m < next s)%nat /\ ksane k /\ forall h, get_handler rid (handlers s) = Some h -> waiting h = Some m -> expects h k.

Record Inv (s:sys) : Prop := {
  I_uniq : forall n v1 v2, In (n,v1) (hist s) -> In (n,v2) (hist s) -> vtag v1 = vtag v2 -> v1 = v2;
  I_nz : forall n v, In (n,v) (hist s) -> vtag v <> 0;
  I_cur : forall n v, cur s n = Some v -> In (n,v) (hist s);
  I_cache : forall k cv, In (k,cv) (cache s) -> wk (hist s) k cv;
  I_resp : forall k cv, In (k,cv) (respq s) -> wk (hist s) k cv;
  I_hand : forall rid h, get_handler rid (handlers s) = Some h -> hgood (hist s) h;
  I_wait : forall rid h m, get_handler rid (handlers s) = Some h -> waiting h = Some m -> (m < next s)%nat;
  I_req : forall m rid k p, In (m,rid,k,p) (reqq s) -> pend_ok s m rid k;
  I_infl : forall k ws m rid, In (k,ws) (inflight s) -> In (m,rid) ws -> pend_ok s m rid k;
  I_done : forall rid q r, In (rid,q,r) (dones s) -> good_done (hist s) q r;
  I_fetch : forall k, In k (fetches s) -> ksane k
}.

(* ================= proofs ================= *)
Lemma get_set_same rid x hs : get_handler rid (set_handler rid (Some x) hs) = Some x.
Proof. unfold set_handler. cbn. now rewrite Nat.eqb_refl. Qed.
Lemma get_filter_other rid rid' hs : rid' <> rid ->
  get_handler rid' (filter (fun p => negb (Nat.eqb (fst p) rid)) hs) = get_handler rid' hs.
Proof.
  intro H. induction hs as [|[r x] t IH]; [reflexivity|]. cbn.
  destruct (Nat.eqb_spec r rid) as [->|Hne]; cbn.
  - destruct (Nat.eqb_spec rid rid'); [congruence|]. exact IH.
  - destruct (Nat.eqb_spec r rid'); [reflexivity|exact IH].
Qed.
Lemma get_filter_same rid hs : get_handler rid (filter (fun p => negb (Nat.eqb (fst p) rid)) hs) = None.
Proof.
  induction hs as [|[r x] t IH]; [reflexivity|]. cbn.
  destruct (Nat.eqb_spec r rid) as [->|Hne]; cbn; [exact IH|].
  destruct (Nat.eqb_spec r rid); [congruence|exact IH].
Qed.
Lemma get_set_other rid rid' h hs : rid' <> rid -> get_handler rid' (set_handler rid h hs) = get_handler rid' hs.
Proof.
  intro H. unfold set_handler. destruct h; cbn.
  - destruct (Nat.eqb_spec rid rid'); [congruence|]. now apply get_filter_other.
  - now apply get_filter_other.
Qed.
Lemma get_set_none rid hs : get_handler rid (set_handler rid None hs) = None.
Proof. unfold set_handler. apply get_filter_same. Qed.

Lemma wk_mono h h' k cv : incl h h' -> wk h k cv -> wk h' k cv.
Proof. unfold wk. intros Hi H Hok. specialize (H Hok). destruct (cv_pay cv) as [[v|v o l]|]; intuition. Qed.
Lemma hgood_mono h h' x : incl h h' -> hgood h x -> hgood h' x.
Proof. intros Hi H. destruct x; cbn in *; intuition. Qed.
Lemma good_done_mono h h' q r : incl h h' -> good_done h q r -> good_done h' q r.
Proof. intros Hi H. destruct r; cbn in *; intuition; destruct H as [v [Hv Ha]]; exists v; auto. Qed.

Lemma walk_step v o l id f : walk v o l id (S f) =
  match dir_lookup v o l id with LNone => R204 | LTile to tl => R200 v (tile_base v + to) tl | LLeaf lo ll => walk v (leaf_base v + lo) ll id f end.
Proof. reflexivity. Qed.

(* what [deliver] guarantees *)
Definition out_ok (hi:list (N*ver)) (m:nat) (o:hout) : Prop :=
  match o with HO h rq dn =>
    (forall x, h = Some x -> hgood hi x /\
       match waiting x with
       | Some w => w = m /\ exists k p, rq = Some (k,p) /\ expects x k /\ ksane k
       | None => rq = None end) /\
    (h = None -> rq = None) /\
    (forall q r, dn = Some (q,r) -> good_done hi q r)
  end.

Ltac out3 :=
  cbn; split;
  [ let x := fresh "x" in let E := fresh "E" in intros x E; try discriminate E; inversion E; subst x
  | split;
    [ let E := fresh "E" in intro E; try discriminate E; auto
    | let q0 := fresh "q0" in let r0 := fresh "r0" in let E := fresh "E" in
      intros q0 r0 E; try discriminate E; inversion E; subst ] ].

Lemma deliver_ok hi m h k cv :
  (forall n v1 v2, In (n,v1) hi -> In (n,v2) hi -> vtag v1 = vtag v2 -> v1 = v2) ->
  (forall n v, In (n,v) hi -> vtag v <> 0) ->
  hgood hi h -> expects h k -> wk hi k cv -> out_ok hi m (deliver m h cv).
Proof.
  intros Huniq Hnz Hg He Hwk. destruct h as [w q a|w q a hv o l d|q a hv o l]; cbn in He; [| |contradiction].
  - (* waiting for the header *)
    subst k. unfold deliver. destruct (cv_ok cv) eqn:Eok; cbn [negb].
    2:{ out3. exact I. }
    specialize (Hwk Eok). destruct (cv_pay cv) as [[hv|v o l]|]; [| |contradiction].
    + destruct Hwk as (_ & Hin & _). cbn [kn hdrkey] in Hin.
      destruct (t_kind q =? 0) eqn:Ek; cbn [negb].
      2:{ (* metadata / TileJSON: straight to the conditional read of the metadata section *)
          out3. split; [|reflexivity]. cbn. split; [exact Hin|]. unfold answer, rbase. rewrite Ek. cbn [negb]. rewrite N.add_0_l. reflexivity. }
      apply N.eqb_eq in Ek.
      destruct (zoom_ok hv (t_z q)) eqn:Ez; cbn [negb].
      2:{ out3. exact I. }
      destruct (ext_ok hv (t_ext q)) eqn:Ex; cbn [negb].
      2:{ out3. exists hv. split; [assumption|]. unfold answer. rewrite Ek, Ez, Ex. reflexivity. }
      out3. split.
      * cbn. repeat split; auto; try lia. unfold answer. rewrite Ek, Ez, Ex. reflexivity.
      * cbn. split; [reflexivity|]. eexists _, _. split; [reflexivity|]. split; [reflexivity|]. intros E0 _. cbn in E0. exfalso. exact (root_off_nz _ E0).
    + destruct Hwk as (_ & _ & _ & _ & _ & Hko). cbn in Hko. destruct Hko; congruence.
  - (* waiting for a directory *)
    subst k. cbn [hgood] in Hg. destruct Hg as (Hkind & Hin & Hz & Hx & Hd & Hans & Ho).
    unfold deliver. destruct (cv_bad cv).
    { unfold retry. destruct a.
      - out3. cbn. repeat split; auto. eexists _, _. split; [reflexivity|]. split; [reflexivity|]. intros _ _. reflexivity.
      - out3. exact I. }
    destruct (cv_ok cv) eqn:Eok; cbn [negb].
    2:{ out3. exact I. }
    specialize (Hwk Eok). destruct (cv_pay cv) as [[v|v' o' l']|]; [| |contradiction].
    + destruct Hwk as (Hk & _ & _). cbn in Hk. inversion Hk as [Hke]. exfalso. exact (Hnz _ _ Hin Hke).
    + destruct Hwk as (-> & -> & Hin' & _ & Hke & _). cbn in Hin', Hke.
      assert (v' = hv).
      { destruct Hke as [Hke|Hke]; [exfalso; exact (Hnz _ _ Hin Hke)|]. symmetry. exact (Huniq _ _ _ Hin Hin' Hke). }
      subst v'. cbn [ko kl].
      assert (E4: (4 - d = S (3 - d))%nat) by lia. rewrite E4, walk_step in Hans.
      destruct (dir_lookup hv o l (t_id q)) as [|to tl|lo ll] eqn:El.
      * out3. exists hv. auto.
      * out3. cbn. split; [split; [exact Hin|]|reflexivity]. unfold rbase. rewrite Hkind. exact Hans.
      * destruct (Nat.leb_spec 3 d) as [H3|H3].
        -- out3. exists hv. split; [assumption|].
           assert (d = 3)%nat by lia. subst d. cbn in Hans. exact Hans.
        -- out3. split.
           ++ cbn. repeat split; auto; try lia.
           ++ cbn. split; [reflexivity|]. eexists _, _. split; [reflexivity|]. split; [reflexivity|]. intros E0 _. cbn in E0. exfalso. exact (leaf_base_nz _ _ E0).
Qed.

Lemma lookup_In {A} k (m:list (key*A)) a : lookup k m = Some a -> In (k,a) m.
Proof.
  induction m as [|[k' a'] r IH]; cbn; [discriminate|].
  destruct (key_eqb k k') eqn:E.
  - apply key_eqb_eq in E. subst k'. intro H; inversion H; subst. now left.
  - intro H. right. auto.
Qed.
Lemma In_remove_key {A} k (m:list (key*A)) x : In x (remove_key k m) -> In x m.
Proof. unfold remove_key. intro H. apply filter_In in H. tauto. Qed.
Lemma In_purge n e m x : In x (purge n e m) -> In x m.
Proof. unfold purge. intro H. apply filter_In in H. tauto. Qed.

Lemma out_ok_mono hi hi' m o : incl hi hi' -> out_ok hi m o -> out_ok hi' m o.
Proof.
  intros Hi H. destruct o as [h rq dn]. cbn in *. destruct H as (H1 & H2 & H3). repeat split; auto.
  - destruct (H1 x H) as [Hg _]. eapply hgood_mono; eauto.
  - destruct (H1 x H) as [_ Hw]. exact Hw.
  - intros q r E. eapply good_done_mono; eauto.
Qed.

Lemma apply_out_inv s rid o : Inv s -> out_ok (hist s) (next s) o -> Inv (apply_out s rid o).
Proof.
  intros I Ho. destruct o as [h rq dn]. cbn in Ho. destruct Ho as (Hh & Hn & Hd).
  constructor; cbn [apply_out cur hist cache inflight reqq respq fetches handlers dones next].
  - apply (I_uniq s I).
  - apply (I_nz s I).
  - apply (I_cur s I).
  - apply (I_cache s I).
  - apply (I_resp s I).
  - intros rid' h' Hg. destruct (Nat.eq_dec rid' rid) as [->|Hne].
    + destruct h as [x|]; [rewrite get_set_same in Hg; inversion Hg; subst; apply (Hh _ eq_refl)|rewrite get_set_none in Hg; discriminate].
    + rewrite get_set_other in Hg by assumption. eapply (I_hand s I); eauto.
  - intros rid' h' m Hg Hw. destruct (Nat.eq_dec rid' rid) as [->|Hne].
    + destruct h as [x|]; [|rewrite get_set_none in Hg; discriminate].
      rewrite get_set_same in Hg; inversion Hg; subst h'. destruct (Hh _ eq_refl) as [_ Hx]. rewrite Hw in Hx. destruct Hx as [-> _]. lia.
    + rewrite get_set_other in Hg by assumption. pose proof (I_wait s I _ _ _ Hg Hw). lia.
  - intros m rid' k p Hin.
    assert (Hold: forall m rid' k, pend_ok s m rid' k -> pend_ok (apply_out s rid (HO h rq dn)) m rid' k).
    { intros m0 r0 k0 [Hm [Hs Hex]]. split; [cbn; lia|]. split; [exact Hs|]. cbn. intros h0 Hg Hw.
      destruct (Nat.eq_dec r0 rid) as [->|Hne].
      - destruct h as [x|]; [|rewrite get_set_none in Hg; discriminate].
        rewrite get_set_same in Hg; inversion Hg; subst h0. destruct (Hh _ eq_refl) as [_ Hx]. rewrite Hw in Hx. destruct Hx as [-> _]. lia.
      - rewrite get_set_other in Hg by assumption. auto. }
    destruct rq as [[k' p']|].
    + apply in_app_or in Hin. destruct Hin as [Hin|Hin].
      * apply Hold. eapply (I_req s I); eauto.
      * destruct Hin as [E|[]]. inversion E; subst.
        destruct h as [x|]; [|specialize (Hn eq_refl); discriminate].
        destruct (Hh _ eq_refl) as [_ Hx].
        split; [cbn; lia|]. split.
        { destruct (waiting x); [destruct Hx as [_ [k0 [p0 [E0 [_ Hs]]]]]; inversion E0; subst; exact Hs|discriminate]. }
        cbn [apply_out handlers]. intros h0 Hg Hw.
        rewrite get_set_same in Hg; inversion Hg; subst h0. rewrite Hw in Hx.
        destruct Hx as [_ [k0 [p0 [E0 [Hex _]]]]]. inversion E0; subst. exact Hex.
    + apply Hold. eapply (I_req s I); eauto.
  - intros k ws m rid' Hin Hin2. pose proof (I_infl s I _ _ _ _ Hin Hin2) as [Hm [Hs Hex]]. split; [cbn; lia|]. split; [exact Hs|]. cbn. intros h0 Hg Hw.
    destruct (Nat.eq_dec rid' rid) as [->|Hne].
    + destruct h as [x|]; [|rewrite get_set_none in Hg; discriminate].
      rewrite get_set_same in Hg; inversion Hg; subst h0. destruct (Hh _ eq_refl) as [_ Hx]. rewrite Hw in Hx. destruct Hx as [-> _]. lia.
    + rewrite get_set_other in Hg by assumption. auto.
  - intros rid' q r Hin. destruct dn as [[q0 r0]|].
    + destruct Hin as [E|Hin]; [inversion E; subst; apply Hd; reflexivity|eapply (I_done s I); eauto].
    + eapply (I_done s I); eauto.
  - apply (I_fetch s I).
Qed.

Lemma deliver_to_inv s m rid k cv : Inv s -> wk (hist s) k cv -> pend_ok s m rid k -> Inv (deliver_to s (m,rid) cv).
Proof.
  intros I Hwk [Hm [Hs Hex]]. unfold deliver_to. cbn [fst snd].
  destruct (get_handler rid (handlers s)) as [h|] eqn:Hg; [|exact I].
  destruct (waiting h) as [w|] eqn:Hw; [|exact I].
  destruct (Nat.eqb_spec w m) as [->|]; [|exact I].
  apply apply_out_inv; [exact I|].
  eapply deliver_ok; eauto using (I_uniq s I), (I_nz s I), (I_hand s I).
Qed.

Lemma deliver_to_frame s mr cv : hist (deliver_to s mr cv) = hist s /\ (next s <= next (deliver_to s mr cv))%nat.
Proof.
  unfold deliver_to. destruct (get_handler _ _) as [h|]; [|split; auto].
  destruct (waiting h) as [w|]; [|split; auto]. destruct (Nat.eqb w (fst mr)); [|split; auto].
  destruct (deliver (next s) h cv). cbn. split; auto.
Qed.

Lemma deliver_to_pend s mr cv m' rid' k' : Inv s -> (exists k, wk (hist s) k cv /\ pend_ok s (fst mr) (snd mr) k) ->
  pend_ok s m' rid' k' -> pend_ok (deliver_to s mr cv) m' rid' k'.
Proof.
  intros I [k [Hwk [Hm [Hs Hex]]]] [Hm' [Hs' Hex']]. unfold deliver_to.
  destruct (get_handler (snd mr) (handlers s)) as [h|] eqn:Hg; [|split; auto].
  destruct (waiting h) as [w|] eqn:Hw; [|split; auto].
  destruct (Nat.eqb_spec w (fst mr)) as [->|]; [|split; auto].
  assert (Ho: out_ok (hist s) (next s) (deliver (next s) h cv)).
  { eapply deliver_ok; eauto using (I_uniq s I), (I_nz s I), (I_hand s I). }
  destruct (deliver (next s) h cv) as [h2 rq dn]. cbn in Ho. destruct Ho as (Hh & _ & _).
  split; [cbn; lia|]. split; [exact Hs'|]. cbn. intros h0 Hg0 Hw0.
  destruct (Nat.eq_dec rid' (snd mr)) as [->|Hne].
  - destruct h2 as [x|]; [|rewrite get_set_none in Hg0; discriminate].
    rewrite get_set_same in Hg0; inversion Hg0; subst h0. destruct (Hh _ eq_refl) as [_ Hx]. rewrite Hw0 in Hx. destruct Hx as [-> _]. lia.
  - rewrite get_set_other in Hg0 by assumption. auto.
Qed.

Lemma fold_deliver_inv k cv : forall ws s, Inv s -> wk (hist s) k cv ->
  (forall m rid, In (m,rid) ws -> pend_ok s m rid k) ->
  Inv (fold_left (fun st mr => deliver_to st mr cv) ws s).
Proof.
  induction ws as [|[m rid] ws IH]; intros s I Hwk Hp; [exact I|].
  cbn [fold_left]. apply IH.
  - eapply deliver_to_inv; eauto. apply Hp. now left.
  - destruct (deliver_to_frame s (m,rid) cv) as [-> _]. exact Hwk.
  - intros m' rid' Hin. apply deliver_to_pend; auto.
    + exists k. split; [exact Hwk|]. apply Hp. now left.
    + apply Hp. now right.
Qed.

Lemma Inv_init : Inv init.
Proof. constructor; cbn; intros; try contradiction; try discriminate. Qed.

(* shrinking / reshuffling the loop-side collections keeps the invariant *)
Lemma Inv_upd s c i rq rs f :
  Inv s ->
  (forall x, In x c -> In x (cache s) \/ (exists k cv, x = (k,cv) /\ wk (hist s) k cv)) ->
  (forall k ws m rid, In (k,ws) i -> In (m,rid) ws -> pend_ok s m rid k) ->
  (forall m rid k p, In (m,rid,k,p) rq -> pend_ok s m rid k) ->
  (forall k cv, In (k,cv) rs -> wk (hist s) k cv) ->
  (forall k, In k f -> ksane k) ->
  Inv (upd s c i rq rs f).
Proof.
  intros I Hc Hi Hrq Hrs Hf. constructor; cbn [upd cur hist cache inflight reqq respq fetches handlers dones next].
  - apply (I_uniq s I). - apply (I_nz s I). - apply (I_cur s I).
  - intros k cv Hin. destruct (Hc _ Hin) as [H|[k' [cv' [E H]]]]; [eapply (I_cache s I); eauto|inversion E; subst; exact H].
  - exact Hrs.
  - apply (I_hand s I). - apply (I_wait s I).
  - intros m rid k p Hin. exact (Hrq _ _ _ _ Hin).
  - intros k ws m rid H1 H2. exact (Hi _ _ _ _ H1 H2).
  - apply (I_done s I).
  - exact Hf.
Qed.


Lemma fetch_result_wk s k : Inv s -> ksane k -> forall k' cv, In (k',cv) (fetch_result s k) -> wk (hist s) k' cv.
Proof.
  intros I Hsane k' cv Hin. unfold fetch_result in Hin.
  destruct (cur s (kn k)) as [v|] eqn:Ec.
  2:{ destruct Hin as [E|[]]. inversion E; subst. intro H; discriminate H. }
  pose proof (I_cur s I _ _ Ec) as Hh.
  destruct (negb (ke k =? 0) && negb (ke k =? vtag v)) eqn:Econd.
  { destruct Hin as [E|[]]. inversion E; subst. intro H; discriminate H. }
  assert (Hke: ke k = 0 \/ ke k = vtag v).
  { apply andb_false_iff in Econd. destruct Econd as [E|E]; apply negb_false_iff in E; apply N.eqb_eq in E; auto. }
  destruct ((ko k =? 0) && (kl k =? 0)) eqn:Eroot.
  - apply andb_true_iff in Eroot. destruct Eroot as [E1 E2]. apply N.eqb_eq in E1, E2.
    destruct Hin as [E|[E|[]]]; inversion E; subst; intros _; cbn.
    + repeat split; auto.
    + repeat split; auto. destruct k' as [n e o l]; cbn in *. subst o l. pose proof (Hsane eq_refl eq_refl) as He0. cbn in He0. subst e. reflexivity.
  - destruct Hin as [E|[]]. inversion E; subst. intros _. cbn. repeat split; auto.
    apply andb_false_iff in Eroot. destruct Eroot as [E0|E0]; apply N.eqb_neq in E0; auto.
Qed.

Lemma retry_ok hi m q a hv : In (t_name q, hv) hi -> out_ok hi m (retry m q a hv).
Proof.
  intro Hin. unfold retry. destruct a.
  - out3. cbn. repeat split; auto. eexists _, _. split; [reflexivity|]. split; [reflexivity|]. intros _ _. reflexivity.
  - out3. exact I.
Qed.

Theorem step_inv s s' : Inv s -> step s s' -> Inv s'.
Proof.
  intros I St. destruct St.
  - (* start *)
    change (Inv (apply_out s rid (HO (Some (HWaitHdr (next s) q 0)) (Some (hdrkey (t_name q), 0)) None))).
    apply apply_out_inv; [exact I|]. out3. cbn. repeat split; auto.
    eexists _, _. split; [reflexivity|]. split; [reflexivity|]. intros _ _. reflexivity.
  - (* loop takes a request *)
    assert (Hitem: pend_ok s m rid k) by (eapply (I_req s I); rewrite H; apply in_elt).
    assert (Hc1: forall x, In x c1 -> In x (cache s)).
    { unfold c1. destruct (p =? 0); [auto|]. intros x Hx. eapply In_purge; eauto. }
    assert (Hrq: forall m0 rid0 k0 p0, In (m0,rid0,k0,p0) (pre ++ post) -> pend_ok s m0 rid0 k0).
    { intros m0 rid0 k0 p0 Hin. eapply (I_req s I). rewrite H. apply in_app_or in Hin. apply in_or_app. destruct Hin; [left|right; right]; eauto. }
    destruct (lookup k c1) as [cv|] eqn:El.
    + apply (deliver_to_inv _ m rid k cv).
      * apply Inv_upd; eauto using (I_infl s I), (I_resp s I), (I_fetch s I).
      * cbn. eapply (I_cache s I). apply Hc1. eapply lookup_In; eauto.
      * destruct Hitem as [Hm [Hs Hex]]. split; [exact Hm|]. split; [exact Hs|exact Hex].
    + destruct (lookup k (inflight s)) as [ws|] eqn:Ei.
      * apply Inv_upd; eauto using (I_resp s I), (I_fetch s I).
        intros k0 ws0 m0 rid0 Hin Hin2. destruct Hin as [E|Hin].
        -- inversion E; subst. apply in_app_or in Hin2. destruct Hin2 as [Hin2|[E2|[]]].
           ++ eapply (I_infl s I); eauto. eapply lookup_In; eauto.
           ++ inversion E2; subst. exact Hitem.
        -- eapply (I_infl s I); eauto. eapply In_remove_key; eauto.
      * apply Inv_upd; eauto using (I_resp s I).
        -- intros k0 ws0 m0 rid0 Hin Hin2. destruct Hin as [E|Hin].
           ++ inversion E; subst. destruct Hin2 as [E2|[]]. inversion E2; subst. exact Hitem.
           ++ eapply (I_infl s I); eauto.
        -- intros k0 [<-|Hin]; [destruct Hitem as [_ [Hs _]]; exact Hs|eapply (I_fetch s I); eauto].
  - (* a fetch goroutine reads the bucket *)
    apply Inv_upd; eauto using (I_infl s I), (I_req s I).
    + intros k0 cv Hin. apply in_app_or in Hin. destruct Hin as [Hin|Hin]; [eapply (I_resp s I); eauto|].
      eapply fetch_result_wk; eauto. eapply (I_fetch s I). rewrite H. apply in_elt.
    + intros k0 Hin. eapply (I_fetch s I). rewrite H. apply in_app_or in Hin. apply in_or_app. destruct Hin; [left|right; right]; auto.
  - (* loop takes a response *)
    assert (Hwk: wk (hist s) k cv) by (eapply (I_resp s I); rewrite H; apply in_elt).
    apply (fold_deliver_inv k cv).
    + apply Inv_upd; eauto using (I_req s I), (I_fetch s I).
      * intros x Hx. destruct (cv_ok cv); [destruct Hx as [<-|Hx]; [right; eauto|left; exact Hx]|left; exact Hx].
      * intros k0 ws0 m0 rid0 Hin Hin2. eapply (I_infl s I); eauto. eapply In_remove_key; eauto.
      * intros k0 cv0 Hin. eapply (I_resp s I). rewrite H. apply in_app_or in Hin. apply in_or_app. destruct Hin; [left|right; right]; eauto.
    + exact Hwk.
    + intros m0 rid0 Hin. unfold ws in Hin. destruct (lookup k (inflight s)) as [ws0|] eqn:Ei; [|contradiction].
      destruct (I_infl s I k ws0 m0 rid0 (lookup_In _ _ _ Ei) Hin) as [Hm [Hs Hex]]. split; [exact Hm|]. split; [exact Hs|exact Hex].
  - (* eviction *)
    apply Inv_upd; eauto using (I_infl s I), (I_req s I), (I_resp s I), (I_fetch s I).
    intros x Hx. left. eapply In_remove_key; eauto.
  - (* the tile read *)
    pose proof (I_hand s I _ _ H) as Hg. cbn in Hg. destruct Hg as [Hin Hans].
    destruct (cur s (t_name q)) as [v|] eqn:Ec.
    + destruct (N.eqb_spec (vtag v) (vtag hv)) as [Et|Et].
      * assert (v = hv) by (eapply (I_uniq s I); eauto using (I_cur s I)). subst v.
        apply apply_out_inv; [exact I|]. out3. split; assumption.
      * apply apply_out_inv; [exact I|]. apply retry_ok. exact Hin.
    + apply apply_out_inv; [exact I|]. out3. constructor.
  - (* a fetch fails *)
    apply Inv_upd; eauto using (I_infl s I), (I_req s I).
    + intros k0 cv Hin. apply in_app_or in Hin. destruct Hin as [Hin|[E|[]]]; [eapply (I_resp s I); eauto|].
      inversion E; subst. intro Hok. discriminate Hok.
    + intros k0 Hin. eapply (I_fetch s I). rewrite H. apply in_app_or in Hin. apply in_or_app. destruct Hin; [left|right; right]; auto.
  - (* the tile read fails *)
    pose proof (I_hand s I _ _ H) as Hg. cbn in Hg. destruct Hg as [Hin Hans].
    apply apply_out_inv; [exact I|]. destruct kind.
    + apply retry_ok. exact Hin.
    + out3. constructor.
    + out3. constructor.
  - (* replacement *)
    assert (Hincl: incl (hist s) ((n,v) :: hist s)) by (intros x Hx; now right).
    constructor; cbn.
    + intros n0 v1 v2 [E1|H1] [E2|H2] Et.
      * inversion E1; inversion E2; subst; reflexivity.
      * inversion E1; subst. exfalso. eapply H0; eauto.
      * inversion E2; subst. exfalso. eapply H0; eauto.
      * eapply (I_uniq s I); eauto.
    + intros n0 v0 [E|Hin]; [inversion E; subst; assumption|eapply (I_nz s I); eauto].
    + intros n0 v0. destruct (N.eqb_spec n0 n) as [->|Hne]; [intro E; inversion E; now left|intro E; right; eapply (I_cur s I); eauto].
    + intros k cv Hin. eapply wk_mono; [exact Hincl|eapply (I_cache s I); eauto].
    + intros k cv Hin. eapply wk_mono; [exact Hincl|eapply (I_resp s I); eauto].
    + intros rid h Hg. eapply hgood_mono; [exact Hincl|eapply (I_hand s I); eauto].
    + apply (I_wait s I).
    + intros m rid k p Hin. exact (I_req s I _ _ _ _ Hin).
    + intros k ws m rid H1 H2. exact (I_infl s I _ _ _ _ H1 H2).
    + intros rid q r Hin. eapply good_done_mono; [exact Hincl|eapply (I_done s I); eauto].
    + apply (I_fetch s I).
  - (* deletion *)
    constructor; cbn; try apply I.
    intros n0 v0. destruct (N.eqb_spec n0 n); [discriminate|apply (I_cur s I)].
Qed.

Theorem reach_inv s : reach s -> Inv s.
Proof. induction 1; [apply Inv_init|eapply step_inv; eauto]. Qed.

(* C08, tile path, single-version clause: whatever the interleaving of requests, loop messages,
   fetches, evictions and replacements, a completed 200 is exactly the answer of ONE version that
   was current (it is in the history), and a 204/400 is the answer of one version of the history. *)
Theorem C08_single_version_tile s rid q r : reach s -> In (rid,q,r) (dones s) -> good_done (hist s) q r.
Proof. intros R Hin. exact (I_done s (reach_inv s R) _ _ _ Hin). Qed.
End Server.
