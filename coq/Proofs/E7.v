(* Analytic core of the E7 round trip: with binary64 round-to-nearest-even, dividing an int32 by 10^7 and multiplying
   the rounded quotient by 10^7 lands within 1/4 of the integer, so rounding to the nearest integer recovers it
   (while truncation does not: Properties/C14.v has the witness). *)
From Flocq Require Import Core Relative.
From Coq Require Import Reals Lra Lia ZArith Psatz.
Open Scope R_scope.

Definition fexp := FLT_exp (-1074) 53.
Definition rnd := round radix2 fexp (Znearest (fun x => negb (Z.even x))).
#[local] Instance prec53 : Prec_gt_0 53. Proof. unfold Prec_gt_0; lia. Qed.

Lemma rel (x:R) : bpow radix2 (-1022) <= Rabs x ->
  exists eps, Rabs eps <= bpow radix2 (-53) /\ rnd x = x * (1 + eps).
Proof.
  intro H. destruct (relative_error_N_FLT_ex radix2 (-1074) 53 prec53 (fun x => negb (Z.even x)) x) as [e [He Hr]].
  - replace (-1074 + 53 - 1)%Z with (-1022)%Z by lia. exact H.
  - exists e. split; [|exact Hr].
    apply Rle_trans with (1 := He). right.
    change (- (53) + 1)%Z with (-52)%Z.
    change (bpow radix2 (-52)) with (/ IZR (Z.pow_pos 2 52)). change (bpow radix2 (-53)) with (/ IZR (Z.pow_pos 2 53)).
    change (Z.pow_pos 2 52) with 4503599627370496%Z. change (Z.pow_pos 2 53) with 9007199254740992%Z. lra.
Qed.

Theorem e7_core (n:Z) : (0 < Z.abs n < 2^31)%Z ->
  Rabs (rnd (rnd (IZR n / 10000000) * 10000000) - IZR n) < / 4.
Proof.
  intros Hn.
  assert (Hn1: 1 <= Rabs (IZR n)).
  { rewrite <- abs_IZR. apply IZR_le. lia. }
  assert (Hn2: Rabs (IZR n) <= 2147483648).
  { rewrite <- abs_IZR. apply IZR_le. change (2^31)%Z with 2147483648%Z in Hn. lia. }
  assert (Hb: bpow radix2 (-1022) <= / 100000000000).
  { apply Rle_trans with (bpow radix2 (-40)). apply bpow_le; lia. simpl. unfold Z.pow_pos; simpl. lra. }
  set (x := IZR n / 10000000).
  assert (Hx: / 10000000 <= Rabs x <= 215).
  { unfold x. unfold Rdiv. rewrite Rabs_mult, (Rabs_pos_eq (/10000000)) by lra. split; nra. }
  destruct (rel x) as [e1 [He1 Hq]]; [lra|].
  rewrite Hq.
  assert (Hp53: bpow radix2 (-53) <= / 9000000000000000).
  { simpl. unfold Z.pow_pos; simpl. lra. }
  assert (He1': -/9000000000000000 <= e1 <= /9000000000000000) by (apply Rabs_le_inv; lra).
  set (y := x * (1 + e1) * 10000000).
  assert (Hy: y = IZR n * (1 + e1)) by (unfold y, x; field).
  assert (Hy2: /2 <= Rabs y).
  { rewrite Hy, Rabs_mult. rewrite (Rabs_pos_eq (1+e1)) by lra. nra. }
  destruct (rel y) as [e2 [He2 Hp]]; [lra|].
  rewrite Hp.
  assert (He2': -/9000000000000000 <= e2 <= /9000000000000000) by (apply Rabs_le_inv; lra).
  rewrite Hy.
  replace (IZR n * (1 + e1) * (1 + e2) - IZR n) with (IZR n * (e1 + e2 + e1*e2)) by ring.
  rewrite Rabs_mult.
  assert (Rabs (e1 + e2 + e1*e2) <= /4000000000000000).
  { apply Rabs_le. split; nra. }
  assert (0 <= Rabs (e1 + e2 + e1*e2)) by apply Rabs_pos.
  nra.
Qed.
