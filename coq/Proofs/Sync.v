(* makesync: the blocks tile the tile data of a clustered archive; sync: the assembled file is the remote file. *)
From Coq Require Import NArith List Bool Lia Arith.
Import ListNotations.
From PM Require Import Model.Varint Model.Directory Model.FindTile Model.Resolver Model.Sync.
Open Scope N_scope.

(* ---- clustered entry streams: every entry is new content at the current end of the data, or points back *)
Fixpoint clustered (o:N) (es:list entry) : Prop :=
  match es with
  | [] => True
  | e :: r => 0 < len e /\ off e <= o /\ clustered (if off e =? o then o + len e else o) r
  end.
Fixpoint cl_end (o:N) (es:list entry) : N :=
  match es with [] => o | e :: r => cl_end (if off e =? o then o + len e else o) r end.

(* blocks newest first, ending at [e] *)
Fixpoint rchain (out:list block) (e:N) : Prop :=
  match out with [] => e = 0 | b :: r => b_off b + b_len b = e /\ 0 < b_len b /\ rchain r (b_off b) end.
Fixpoint chain (o:N) (bl:list block) : Prop :=
  match bl with [] => True | b :: r => b_off b = o /\ 0 < b_len b /\ chain (o + b_len b) r end.
Fixpoint total (bl:list block) : N := match bl with [] => 0 | b :: r => b_len b + total r end.

Lemma chain_app o l1 l2 : chain o (l1 ++ l2) <-> chain o l1 /\ chain (o + total l1) l2.
Proof.
  revert o. induction l1 as [|b r IH]; intro o; cbn [app chain total].
  - rewrite N.add_0_r. tauto.
  - rewrite IH. rewrite N.add_assoc. tauto.
Qed.
Lemma total_app l1 l2 : total (l1 ++ l2) = total l1 + total l2.
Proof. induction l1 as [|b r IH]; cbn [app total]; [reflexivity|rewrite IH; lia]. Qed.
Lemma rchain_chain : forall out e, rchain out e -> chain 0 (rev out) /\ total (rev out) = e.
Proof.
  induction out as [|b r IH]; intros e H; cbn [rchain] in H.
  - subst. cbn. auto.
  - destruct H as [H1 [H2 H3]]. destruct (IH _ H3) as [Hc Ht]. cbn [rev]. split.
    + apply chain_app. split; [exact Hc|]. cbn [chain]. rewrite Ht. repeat split; auto.
    + rewrite total_app, Ht. cbn [total]. lia.
Qed.

(* the fold's invariant after at least one entry: current block open at the end of the data *)
Definition ms_inv (o:N) (st:option (block * list block)) : Prop :=
  match st with
  | None => False
  | Some (cur, out) => 0 < b_len cur /\ b_off cur + b_len cur = o /\ rchain out (b_off cur)
  end.
Lemma ms_step_inv bs o st e : ms_inv o st -> 0 < len e -> off e <= o ->
  ms_inv (if off e =? o then o + len e else o) (ms_step bs st e).
Proof.
  destruct st as [[cur out]|]; [|intros []]. intros [Hl [Ho Hr]] He Hle. unfold ms_step.
  destruct (N.eqb_spec (b_len cur) 0) as [Hz|_]; [lia|].
  destruct (N.ltb_spec (b_off cur + b_len cur) (off e)) as [Hlt|_]; [lia|].
  rewrite Ho. destruct (N.eqb_spec (off e) o) as [Heq|Hne].
  - destruct (N.ltb_spec bs (b_len cur + len e)).
    + cbn [ms_inv b_len b_off]. repeat split; try lia. cbn [rchain]. repeat split; try lia. rewrite Heq, <- Ho in *. exact Hr.
    + cbn [ms_inv b_len b_off]. repeat split; try lia. exact Hr.
  - cbn [ms_inv]. repeat split; auto.
Qed.
Lemma ms_fold_inv bs : forall es o st, ms_inv o st -> clustered o es -> ms_inv (cl_end o es) (fold_left (ms_step bs) es st).
Proof.
  induction es as [|e r IH]; intros o st Hi Hc; cbn [fold_left cl_end]; [exact Hi|].
  cbn [clustered] in Hc. destruct Hc as [He [Hle Hc]]. apply IH; [|exact Hc]. apply ms_step_inv; assumption.
Qed.

Theorem blocks_partition bs e0 es : off e0 = 0 -> clustered 0 (e0 :: es) ->
  exists bl, makesync_blocks bs (e0 :: es) = MSOk bl /\ chain 0 bl /\ total bl = cl_end 0 (e0 :: es).
Proof.
  intros H0 Hc. unfold makesync_blocks. cbn [fold_left]. cbn [clustered] in Hc. destruct Hc as [He [_ Hc]].
  rewrite H0 in Hc. cbn [cl_end]. rewrite H0. change (0 =? 0) with true in *. cbv iota in Hc |- *. rewrite N.add_0_l in *.
  assert (Hi : ms_inv (len e0) (ms_step bs (Some (mkB 0 0 0, [])) e0)).
  { unfold ms_step. cbn. repeat split; auto. rewrite H0. lia. }
  pose proof (ms_fold_inv bs es _ _ Hi Hc) as Hf.
  destruct (fold_left (ms_step bs) es (ms_step bs (Some (mkB 0 0 0, [])) e0)) as [[cur out]|]; [|destruct Hf].
  destruct Hf as [Hl [Ho Hr]]. eexists. split; [reflexivity|].
  assert (Hrc : rchain (cur :: out) (cl_end (len e0) es)) by (cbn [rchain]; repeat split; auto).
  apply rchain_chain in Hrc. exact Hrc.
Qed.

(* the running-sum offsets sync reconstructs are the real offsets *)
Section H.
Variable hash : bytes -> N.
Lemma with_offsets_chain data : forall bl o, chain o bl ->
  with_offsets o (sync_entries hash data bl) = map (fun b => mkRB (b_start b) (b_off b) (b_len b) (hash (slice data (b_off b) (b_len b)))) bl.
Proof.
  induction bl as [|b r IH]; intros o Hc; cbn [sync_entries map with_offsets]; [reflexivity|].
  cbn [chain] in Hc. destruct Hc as [Ho [_ Hc]]. subst o. f_equal. apply IH. exact Hc.
Qed.
End H.

(* ---- writes into the new file *)
Close Scope N_scope.
Open Scope nat_scope.
Lemma nth_firstn_lt {A} (d:A) : forall n i (l:list A), i < n -> nth i (firstn n l) d = nth i l d.
Proof. induction n as [|n IH]; intros i l H; [lia|]. destruct l as [|x l]; [destruct i; reflexivity|]. destruct i as [|i]; [reflexivity|]. cbn. apply IH. lia. Qed.
Lemma nth_skipn {A} (d:A) : forall n i (l:list A), nth i (skipn n l) d = nth (n + i) l d.
Proof. induction n as [|n IH]; intros i l; [reflexivity|]. destruct l as [|x l]; [destruct i; reflexivity|]. cbn. apply IH. Qed.
Lemma write_at_length o bs f : N.to_nat o + length bs <= length f -> length (write_at o bs f) = length f.
Proof. intro H. unfold write_at. rewrite !app_length, firstn_length, skipn_length. lia. Qed.
Lemma write_at_nth_in o bs f i d : N.to_nat o + length bs <= length f -> N.to_nat o <= i < N.to_nat o + length bs ->
  nth i (write_at o bs f) d = nth (i - N.to_nat o) bs d.
Proof.
  intros Hf Hi. unfold write_at. rewrite app_nth2; rewrite firstn_length; [|lia].
  replace (Nat.min (N.to_nat o) (length f)) with (N.to_nat o) by lia. rewrite app_nth1 by lia. reflexivity.
Qed.
Lemma write_at_nth_out o bs f i d : N.to_nat o + length bs <= length f -> ~ (N.to_nat o <= i < N.to_nat o + length bs) ->
  nth i (write_at o bs f) d = nth i f d.
Proof.
  intros Hf Hi. unfold write_at. destruct (Compare_dec.lt_dec i (N.to_nat o)) as [Hlt|Hge].
  - rewrite app_nth1 by (rewrite firstn_length; lia). apply nth_firstn_lt. exact Hlt.
  - rewrite app_nth2; rewrite firstn_length; [|lia]. replace (Nat.min (N.to_nat o) (length f)) with (N.to_nat o) by lia.
    rewrite app_nth2 by lia. rewrite nth_skipn. f_equal. lia.
Qed.

(* a write agrees with the reference file R when its bytes are R's bytes at that place *)
Definition agrees (R:bytes) (w:N * bytes) : Prop :=
  N.to_nat (fst w) + length (snd w) <= length R /\ forall j, j < length (snd w) -> nth j (snd w) 0%N = nth (N.to_nat (fst w) + j) R 0%N.
Definition covers (w:N * bytes) (i:nat) : Prop := N.to_nat (fst w) <= i < N.to_nat (fst w) + length (snd w).
Definition apply_w (f:bytes) (w:N * bytes) : bytes := write_at (fst w) (snd w) f.

Lemma apply_w_length R f w : length f = length R -> agrees R w -> length (apply_w f w) = length R.
Proof. intros Hl [Hb _]. unfold apply_w. rewrite write_at_length; lia. Qed.
Lemma apply_w_point R f w i : length f = length R -> agrees R w -> (covers w i \/ nth i f 0%N = nth i R 0%N) -> nth i (apply_w f w) 0%N = nth i R 0%N.
Proof.
  intros Hl [Hb Ha] H. unfold apply_w. destruct (Compare_dec.le_lt_dec (N.to_nat (fst w)) i) as [H1|H1].
  - destruct (Compare_dec.lt_dec i (N.to_nat (fst w) + length (snd w))) as [H2|H2].
    + rewrite write_at_nth_in by lia. rewrite Ha by lia. f_equal. lia.
    + rewrite write_at_nth_out by (unfold covers in *; lia). destruct H as [[_ H]|H]; [lia|exact H].
  - rewrite write_at_nth_out by lia. destruct H as [[H _]|H]; [lia|exact H].
Qed.
Lemma writes_point R : forall ws f i, length f = length R -> Forall (agrees R) ws ->
  ((exists w, In w ws /\ covers w i) \/ nth i f 0%N = nth i R 0%N) -> nth i (fold_left apply_w ws f) 0%N = nth i R 0%N.
Proof.
  induction ws as [|w r IH]; intros f i Hl Hall H; cbn [fold_left].
  - destruct H as [[w [[] _]]|H]. exact H.
  - inversion Hall as [|w' r' Hw Hr]; subst. apply IH; [apply (apply_w_length R); assumption|exact Hr|].
    destruct H as [[w' [[<-|Hin] Hc]]|H].
    + right. apply (apply_w_point R); auto.
    + left. exists w'. auto.
    + right. apply (apply_w_point R); auto.
Qed.
Lemma writes_length R : forall ws f, length f = length R -> Forall (agrees R) ws -> length (fold_left apply_w ws f) = length R.
Proof.
  induction ws as [|w r IH]; intros f Hl Hall; cbn [fold_left]; [exact Hl|].
  inversion Hall; subst. apply IH; [apply (apply_w_length R); assumption|assumption].
Qed.
(* every position written by a write that agrees with R, every position covered: the result is R *)
Theorem writes_give R ws f : length f = length R -> Forall (agrees R) ws ->
  (forall i, i < length R -> exists w, In w ws /\ covers w i) -> fold_left apply_w ws f = R.
Proof.
  intros Hl Hall Hcov. apply (nth_ext _ _ 0%N 0%N); [apply writes_length; assumption|].
  intros i Hi. rewrite (writes_length R) in Hi by assumption. apply writes_point; auto.
Qed.

Lemma firstn_add {A} : forall n m (l:list A), firstn (n + m) l = firstn n l ++ firstn m (skipn n l).
Proof. induction n as [|n IH]; intros m l; [reflexivity|]. destruct l as [|x l]; [cbn; rewrite firstn_nil; reflexivity|]. cbn. f_equal. apply IH. Qed.
Lemma skipn_add {A} : forall a b (l:list A), skipn b (skipn a l) = skipn (a + b) l.
Proof. induction a as [|a IH]; intros b l; [reflexivity|]. destruct l as [|x l]; [destruct b; reflexivity|]. cbn [skipn plus]. apply IH. Qed.
Lemma slice_split (S:bytes) (a l1 l2:N) : length (slice S a l1) = N.to_nat l1 ->
  slice S a (l1 + l2) = slice S a l1 ++ slice S (a + l1) l2.
Proof.
  intro H. unfold slice in *. rewrite !N2Nat.inj_add, firstn_add, skipn_add. reflexivity.
Qed.
Lemma slice_length_le (S:bytes) a l : length (slice S a l) <= N.to_nat l.
Proof. unfold slice. rewrite firstn_length. lia. Qed.
Lemma slice_nth (S:bytes) a l j : j < length (slice S a l) -> nth j (slice S a l) 0%N = nth (N.to_nat a + j) S 0%N.
Proof. intro H. unfold slice in *. rewrite firstn_length in H. rewrite nth_firstn_lt by lia. apply nth_skipn. Qed.

(* ---- copies as writes: source file S read at base sb, written at the remote tile-data offset *)
Section Copies.
Variables (R S:bytes) (dof sb:N).
Definition W (c:copy) : N * bytes := ((dof + c_dst c)%N, slice S (sb + c_src c) (c_len c)).
Definition good (c:copy) : Prop := length (slice S (sb + c_src c) (c_len c)) = N.to_nat (c_len c) /\ agrees R (W c).
Definition contig (a b:copy) : bool := ((c_src a + c_len a =? c_src b) && (c_dst a + c_len a =? c_dst b))%N.
Definition join (a b:copy) : copy := mkC (c_src a) (c_dst a) (c_len a + c_len b).

Lemma join_good a b : contig a b = true -> good a -> good b -> good (join a b).
Proof.
  unfold contig. intros Hc [La [Ba Pa]] [Lb [Bb Pb]]. apply andb_true_iff in Hc. destruct Hc as [Hs Hd].
  apply N.eqb_eq in Hs, Hd. unfold good, W, join in *. cbn [c_src c_dst c_len fst snd] in *.
  assert (Hsp : slice S (sb + c_src a) (c_len a + c_len b) = slice S (sb + c_src a) (c_len a) ++ slice S (sb + c_src b) (c_len b)).
  { rewrite slice_split by exact La. f_equal. f_equal. lia. }
  split; [rewrite Hsp, app_length, La, Lb; lia|]. split; cbn [fst snd].
  - rewrite Hsp, app_length, La, Lb. rewrite Lb in Bb. lia.
  - intros j Hj. rewrite Hsp in *. rewrite app_length in Hj. destruct (Compare_dec.lt_dec j (length (slice S (sb + c_src a) (c_len a)))) as [H1|H1].
    + rewrite app_nth1 by exact H1. apply Pa. exact H1.
    + rewrite app_nth2 by lia. rewrite Pb by lia. f_equal. rewrite La in *. lia.
Qed.
Lemma join_covers a b i : contig a b = true -> good a -> good b -> (covers (W (join a b)) i <-> covers (W a) i \/ covers (W b) i).
Proof.
  unfold contig. intros Hc [La _] [Lb _]. apply andb_true_iff in Hc. destruct Hc as [Hs Hd]. apply N.eqb_eq in Hs, Hd.
  assert (Lj : length (slice S (sb + c_src a) (c_len a + c_len b)) = N.to_nat (c_len a + c_len b)).
  { rewrite slice_split by exact La. rewrite app_length, La. replace (sb + c_src a + c_len a)%N with (sb + c_src b)%N by lia. rewrite Lb. lia. }
  unfold covers, W, join. cbn [fst snd c_src c_dst c_len]. rewrite Lj, La, Lb. lia.
Qed.

Lemma merge_have_good : forall l acc, Forall good acc -> Forall good l -> Forall good (merge_have acc l).
Proof.
  induction l as [|v r IH]; intros acc Ha Hl; cbn [merge_have].
  - apply Forall_rev. exact Ha.
  - inversion Hl as [|v' r' Hv Hr]; subst. destruct acc as [|last acc'].
    + apply IH; [constructor; [exact Hv|constructor]|exact Hr].
    + inversion Ha as [|x y Hlast Hacc]; subst. fold (contig last v). destruct (contig last v) eqn:Hc.
      * apply IH; [|exact Hr]. constructor; [|exact Hacc]. apply (join_good last v Hc Hlast Hv).
      * apply IH; [|exact Hr]. constructor; [exact Hv|exact Ha].
Qed.
Lemma merge_have_covers i : forall l acc, Forall good acc -> Forall good l ->
  (exists c, In c (acc ++ l) /\ covers (W c) i) -> exists c, In c (merge_have acc l) /\ covers (W c) i.
Proof.
  induction l as [|v r IH]; intros acc Ha Hl [c [Hin Hc]]; cbn [merge_have].
  - rewrite app_nil_r in Hin. exists c. split; [apply -> in_rev; exact Hin|exact Hc].
  - inversion Hl as [|v' r' Hv Hr]; subst. destruct acc as [|last acc'].
    + apply IH; [constructor; [exact Hv|constructor]|exact Hr|]. exists c. split; [|exact Hc]. cbn in Hin |- *. exact Hin.
    + inversion Ha as [|x y Hlast Hacc]; subst. fold (contig last v). destruct (contig last v) eqn:Hct.
      * apply IH; [constructor; [apply (join_good last v Hct Hlast Hv)|exact Hacc]|exact Hr|].
        apply in_app_or in Hin. destruct Hin as [[<-|Hin]|[<-|Hin]].
        -- exists (join last v). split; [left; reflexivity|]. apply (join_covers last v i Hct Hlast Hv). left. exact Hc.
        -- exists c. split; [right; apply in_or_app; left; exact Hin|exact Hc].
        -- exists (join last v). split; [left; reflexivity|]. apply (join_covers last v i Hct Hlast Hv). right. exact Hc.
        -- exists c. split; [right; apply in_or_app; right; exact Hin|exact Hc].
      * apply IH; [constructor; [exact Hv|exact Ha]|exact Hr|]. exists c. split; [|exact Hc].
        apply in_app_or in Hin. destruct Hin as [Hin|[<-|Hin]].
        -- right. apply in_or_app. left. exact Hin.
        -- left. reflexivity.
        -- right. apply in_or_app. right. exact Hin.
Qed.
End Copies.

Close Scope nat_scope.
Open Scope N_scope.
(* ---- the diff: every remote block ends up wanted, or as a local copy whose bytes hash to the block's hash *)
Section Diff.
Variable hash : bytes -> N.
Variable ldata : bytes.
Lemma skip_lt_spec t : forall bl w rest, skip_lt t bl = (w, rest) -> bl = w ++ rest.
Proof.
  induction bl as [|b r IH]; intros w rest H; cbn [skip_lt] in H.
  - inversion H. reflexivity.
  - destruct (rb_start b <? t).
    + destruct (skip_lt t r) as [w' rest'] eqn:E. inversion H; subst. cbn. f_equal. apply IH. reflexivity.
    + inversion H. reflexivity.
Qed.
Definition matched (es:list entry) (b:rblock) (c:copy) : Prop :=
  exists e, In e es /\ c = mkC (off e) (rb_off b) (rb_len b) /\ hash (slice ldata (off e) (rb_len b)) = rb_hash b.
Lemma diff_spec : forall es bl have wanted have' wanted', diff hash ldata es bl have wanted = (have', wanted') ->
  (forall c, In c have' -> In c have \/ exists b, In b bl /\ matched es b c) /\
  (forall b, In b wanted' -> In b wanted \/ In b bl) /\
  (forall b, In b bl -> In b wanted' \/ exists c, In c have' /\ matched es b c) /\
  incl have have' /\ incl wanted wanted'.
Proof.
  induction es as [|e r IH]; intros bl have wanted have' wanted' H; cbn [diff] in H.
  - inversion H; subst. repeat split.
    + auto.
    + intros b Hb. apply in_app_or in Hb. exact Hb.
    + intros b Hb. left. apply in_or_app. right. exact Hb.
    + apply incl_refl.
    + apply incl_appl, incl_refl.
  - destruct (skip_lt (tid e) bl) as [w rest] eqn:Es. apply skip_lt_spec in Es. subst bl.
    assert (Hlift : forall b c, matched r b c -> matched (e :: r) b c).
    { intros b c [e' [Hi Hm]]. exists e'. split; [right; exact Hi|exact Hm]. }
    destruct rest as [|b rest'].
    + destruct (IH _ _ _ _ _ H) as [A [B [C [D E]]]]. repeat split.
      * intros c Hc. destruct (A c Hc) as [?|[b [[] _]]]. left. assumption.
      * intros b Hb. destruct (B b Hb) as [Hb'|[]]. apply in_app_or in Hb'. destruct Hb' as [?|?]; [left; assumption|right; rewrite app_nil_r; assumption].
      * intros b Hb. rewrite app_nil_r in Hb. left. apply E. apply in_or_app. right. exact Hb.
      * exact D.
      * intros x Hx. apply E. apply in_or_app. left. exact Hx.
    + destruct (rb_start b =? tid e) eqn:Eq.
      * destruct (hash (slice ldata (off e) (rb_len b)) =? rb_hash b) eqn:Eh.
        -- apply N.eqb_eq in Eh. destruct (IH _ _ _ _ _ H) as [A [B [C [D E]]]]. repeat split.
           ++ intros c Hc. destruct (A c Hc) as [Hc'|[b' [Hb' Hm]]].
              ** apply in_app_or in Hc'. destruct Hc' as [?|[<-|[]]]; [left; assumption|].
                 right. exists b. split; [apply in_or_app; right; left; reflexivity|]. exists e. split; [left; reflexivity|split; [reflexivity|exact Eh]].
              ** right. exists b'. split; [apply in_or_app; right; right; exact Hb'|apply Hlift; exact Hm].
           ++ intros x Hx. destruct (B x Hx) as [Hx'|Hx'].
              ** apply in_app_or in Hx'. destruct Hx' as [?|?]; [left; assumption|right; apply in_or_app; left; assumption].
              ** right. apply in_or_app. right. right. exact Hx'.
           ++ intros x Hx. apply in_app_or in Hx. destruct Hx as [Hx|[<-|Hx]].
              ** left. apply E. apply in_or_app. right. exact Hx.
              ** right. exists (mkC (off e) (rb_off b) (rb_len b)). split; [apply D; apply in_or_app; right; left; reflexivity|].
                 exists e. split; [left; reflexivity|split; [reflexivity|exact Eh]].
              ** destruct (C x Hx) as [?|[c [Hc Hm]]]; [left; assumption|right; exists c; split; [exact Hc|apply Hlift; exact Hm]].
           ++ intros x Hx. apply D. apply in_or_app. left. exact Hx.
           ++ intros x Hx. apply E. apply in_or_app. left. exact Hx.
        -- destruct (IH _ _ _ _ _ H) as [A [B [C [D E]]]]. repeat split.
           ++ intros c Hc. destruct (A c Hc) as [?|[b' [Hb' Hm]]]; [left; assumption|].
              right. exists b'. split; [apply in_or_app; right; right; exact Hb'|apply Hlift; exact Hm].
           ++ intros x Hx. destruct (B x Hx) as [Hx'|Hx'].
              ** apply in_app_or in Hx'. destruct Hx' as [?|Hx']; [left; assumption|]. apply in_app_or in Hx'.
                 destruct Hx' as [?|[<-|[]]]; right; apply in_or_app; [left; assumption|right; left; reflexivity].
              ** right. apply in_or_app. right. right. exact Hx'.
           ++ intros x Hx. apply in_app_or in Hx. destruct Hx as [Hx|[<-|Hx]].
              ** left. apply E. apply in_or_app. right. apply in_or_app. left. exact Hx.
              ** left. apply E. apply in_or_app. right. apply in_or_app. right. left. reflexivity.
              ** destruct (C x Hx) as [?|[c [Hc Hm]]]; [left; assumption|right; exists c; split; [exact Hc|apply Hlift; exact Hm]].
           ++ exact D.
           ++ intros x Hx. apply E. apply in_or_app. left. exact Hx.
      * destruct (IH _ _ _ _ _ H) as [A [B [C [D E]]]]. repeat split.
        -- intros c Hc. destruct (A c Hc) as [?|[b' [Hb' Hm]]]; [left; assumption|].
           right. exists b'. split; [apply in_or_app; right; exact Hb'|apply Hlift; exact Hm].
        -- intros x Hx. destruct (B x Hx) as [Hx'|Hx'].
           ++ apply in_app_or in Hx'. destruct Hx' as [?|?]; [left; assumption|right; apply in_or_app; left; assumption].
           ++ right. apply in_or_app. right. exact Hx'.
        -- intros x Hx. apply in_app_or in Hx. destruct Hx as [Hx|Hx].
           ++ left. apply E. apply in_or_app. right. exact Hx.
           ++ destruct (C x Hx) as [?|[c [Hc Hm]]]; [left; assumption|right; exists c; split; [exact Hc|apply Hlift; exact Hm]].
        -- exact D.
        -- intros x Hx. apply E. apply in_or_app. left. exact Hx.
Qed.
End Diff.

Lemma insert_copy_in c x : forall l, In x (insert_copy c l) <-> x = c \/ In x l.
Proof.
  induction l as [|y r IH]; cbn [insert_copy].
  - cbn. intuition.
  - destruct (c_src c <? c_src y); cbn [In]; [intuition|]. rewrite IH. intuition.
Qed.
Lemma sort_have_in x : forall l, In x (sort_have l) <-> In x l.
Proof.
  unfold sort_have. intro l. assert (G : forall acc, In x (fold_left (fun acc c => insert_copy c acc) l acc) <-> In x acc \/ In x l).
  { induction l as [|c r IH]; intro acc; cbn [fold_left]; [cbn; intuition|]. rewrite IH, insert_copy_in. cbn [In]. intuition. }
  rewrite G. cbn. intuition.
Qed.
Definition cp (v:rblock) : copy := mkC (rb_off v) (rb_off v) (rb_len v).
Lemma merge_wanted_as_have : forall l acc, Forall (fun c => c_src c = c_dst c) acc -> merge_wanted acc l = merge_have acc (map cp l).
Proof.
  induction l as [|v r IH]; intros acc Ha; cbn [merge_wanted map merge_have]; [reflexivity|].
  destruct acc as [|last acc']; [apply IH; repeat constructor|].
  inversion Ha as [|x y Hl Hacc]; subst. cbn [cp c_src c_dst c_len].
  assert (Hd : (c_dst last + c_len last =? rb_off v) = (c_src last + c_len last =? rb_off v)) by (rewrite Hl; reflexivity).
  rewrite Hd. destruct (c_src last + c_len last =? rb_off v) eqn:E; cbn [andb].
  - apply IH. constructor; [cbn; exact Hl|exact Hacc].
  - apply IH. constructor; [reflexivity|exact Ha].
Qed.

(* ---- convergence *)
Lemma chain_bound : forall bl o b, chain o bl -> In b bl -> o <= b_off b /\ b_off b + b_len b <= o + total bl.
Proof.
  induction bl as [|x r IH]; intros o b Hc Hin; [destruct Hin|]. cbn [chain total] in *. destruct Hc as [Ho [Hl Hc]].
  destruct Hin as [<-|Hin]; [lia|]. destruct (IH _ _ Hc Hin). lia.
Qed.
Lemma chain_cover : forall bl o i, chain o bl -> o <= i < o + total bl -> exists b, In b bl /\ b_off b <= i < b_off b + b_len b.
Proof.
  induction bl as [|x r IH]; intros o i Hc Hi; cbn [chain total] in *; [lia|]. destruct Hc as [Ho [Hl Hc]].
  destruct (N.lt_ge_cases i (o + b_len x)) as [H|H].
  - exists x. split; [left; reflexivity|lia].
  - destruct (IH (o + b_len x) i Hc) as [b [Hin Hb]]; [lia|]. exists b. split; [right; exact Hin|exact Hb].
Qed.
Lemma slice_full (S:bytes) a l : (N.to_nat a + N.to_nat l <= length S)%nat -> length (slice S a l) = N.to_nat l.
Proof. intro H. unfold slice. rewrite firstn_length, skipn_length. lia. Qed.
Lemma slice_agrees (R:bytes) o l : (N.to_nat o <= length R)%nat -> agrees R (o, slice R o l).
Proof.
  intro H. unfold agrees. cbn [fst snd]. split.
  - unfold slice. rewrite firstn_length, skipn_length. lia.
  - intros j Hj. apply slice_nth. exact Hj.
Qed.
Lemma slice_skipn (S:bytes) a o l : slice (skipn (N.to_nat a) S) o l = slice S (a + o) l.
Proof. unfold slice. rewrite skipn_add, N2Nat.inj_add. reflexivity. Qed.
Lemma fold_left_map_w {A} (g:A -> N * bytes) : forall l f, fold_left (fun f c => write_at (fst (g c)) (snd (g c)) f) l f = fold_left apply_w (map g l) f.
Proof. induction l as [|c r IH]; intro f; cbn [fold_left map]; [reflexivity|]. apply IH. Qed.

Section Converge.
Variable hash : bytes -> N.
Variables (lfile rfile:bytes) (ldoff:N) (rh:shdr) (les:list entry) (bl:list block).
Let dof := s_data_off rh.
Let ldata := skipn (N.to_nat ldoff) lfile.
Let rdata := skipn (N.to_nat dof) rfile.
(* the remote archive: header and root inside the first 16384 bytes, sections chained (overlap allowed), tile data last *)
Hypothesis Hmeta : s_meta_off rh <= 16384 /\ s_meta_off rh + s_meta_len rh <= blen rfile.
Hypothesis Hleaf : s_leaf_off rh <= s_meta_off rh + s_meta_len rh /\ s_leaf_off rh + s_leaf_len rh <= blen rfile.
Hypothesis Hdata : dof <= s_leaf_off rh + s_leaf_len rh /\ dof + total bl = blen rfile.
Hypothesis Hchain : chain 0 bl.
(* xxhash64 does not collide on the byte strings sync compares *)
Hypothesis Hnc : forall b e, In b bl -> In e les -> hash (slice ldata (off e) (b_len b)) = hash (slice rdata (b_off b) (b_len b)) ->
  slice ldata (off e) (b_len b) = slice rdata (b_off b) (b_len b).

Lemma blen_nat (b:bytes) : N.to_nat (blen b) = length b. Proof. unfold blen. lia. Qed.

Theorem sync_converges : so_file (sync hash false lfile ldoff les rfile rh (sync_entries hash rdata bl)) = Some rfile.
Proof.
  unfold sync. rewrite (with_offsets_chain hash rdata bl 0 Hchain).
  set (RB := map (fun b => mkRB (b_start b) (b_off b) (b_len b) (hash (slice rdata (b_off b) (b_len b)))) bl).
  fold ldata. destruct (diff hash ldata les RB [] []) as [have wanted] eqn:D. cbn [so_file]. f_equal.
  destruct (diff_spec hash ldata _ _ _ _ _ _ D) as [A [B [C _]]].
  pose proof (blen_nat rfile) as HbR.
  (* blocks of RB come from blocks of bl *)
  assert (HRB : forall b', In b' RB -> exists b, In b bl /\ rb_off b' = b_off b /\ rb_len b' = b_len b /\ rb_hash b' = hash (slice rdata (b_off b) (b_len b))).
  { intros b' Hb'. apply in_map_iff in Hb'. destruct Hb' as [b [<- Hb]]. exists b. cbn. auto. }
  assert (Hin_data : forall b, In b bl -> (N.to_nat (dof + b_off b) + N.to_nat (b_len b) <= length rfile)%nat).
  { intros b Hb. destruct (chain_bound _ _ _ Hchain Hb). lia. }
  (* the writes *)
  unfold assemble. fold dof.
  rewrite (fold_left_map_w (W rfile dof dof)), (fold_left_map_w (W lfile dof ldoff)).
  change (write_at 0 (slice rfile 0 16384) (zeros (blen rfile))) with (apply_w (zeros (blen rfile)) (0, slice rfile 0 16384)).
  match goal with |- context [write_at (s_meta_off rh) ?b ?f] => change (write_at (s_meta_off rh) b f) with (apply_w f (s_meta_off rh, b)) end.
  match goal with |- context [write_at (s_leaf_off rh) ?b ?f] => change (write_at (s_leaf_off rh) b f) with (apply_w f (s_leaf_off rh, b)) end.
  set (haves := merge_have [] (sort_have have)). set (wants := merge_wanted [] wanted).
  set (ws := [(0, slice rfile 0 16384); (s_meta_off rh, slice rfile (s_meta_off rh) (s_meta_len rh)); (s_leaf_off rh, slice rfile (s_leaf_off rh) (s_leaf_len rh))]
             ++ map (W lfile dof ldoff) haves ++ map (W rfile dof dof) wants).
  match goal with |- ?lhs = _ => assert (Hws : lhs = fold_left apply_w ws (zeros (blen rfile))) by (unfold ws; rewrite !fold_left_app; reflexivity) end.
  rewrite Hws. clear Hws.
  (* have copies are good *)
  assert (Ghave : Forall (good rfile lfile dof ldoff) have).
  { apply Forall_forall. intros c Hc. destruct (A c Hc) as [[]|[b' [Hb' [e [He [-> Hh]]]]]].
    destruct (HRB b' Hb') as [b [Hb [Eo [El Eh]]]]. rewrite Eh, El in Hh. pose proof (Hnc b e Hb He Hh) as Heq.
    unfold good, W. cbn [c_src c_dst c_len]. rewrite Eo, El.
    unfold ldata, rdata in Heq. rewrite !slice_skipn in Heq. rewrite Heq.
    split; [apply slice_full; apply Hin_data; exact Hb|]. apply slice_agrees. specialize (Hin_data b Hb). lia. }
  assert (Gwant : Forall (good rfile rfile dof dof) (map cp wanted)).
  { apply Forall_forall. intros c Hc. apply in_map_iff in Hc. destruct Hc as [b' [<- Hb']].
    destruct (B b' Hb') as [[]|Hb'']. destruct (HRB b' Hb'') as [b [Hb [Eo [El _]]]].
    unfold good, W, cp. cbn [c_src c_dst c_len]. rewrite Eo, El.
    split; [apply slice_full; apply Hin_data; exact Hb|]. apply slice_agrees. specialize (Hin_data b Hb). lia. }
  assert (Ghaves : Forall (good rfile lfile dof ldoff) haves).
  { apply merge_have_good; [constructor|]. apply Forall_forall. intros c Hc. apply -> sort_have_in in Hc. rewrite Forall_forall in Ghave. apply Ghave. exact Hc. }
  assert (Ewants : wants = merge_have [] (map cp wanted)) by (apply merge_wanted_as_have; constructor).
  assert (Gwants : Forall (good rfile rfile dof dof) wants) by (rewrite Ewants; apply merge_have_good; [constructor|exact Gwant]).
  apply writes_give.
  - unfold zeros. rewrite repeat_length. exact HbR.
  - unfold ws. repeat (apply Forall_app; split).
    + repeat constructor; apply slice_agrees; lia.
    + apply Forall_forall. intros w Hw. apply in_map_iff in Hw. destruct Hw as [c [<- Hc]]. rewrite Forall_forall in Ghaves. apply Ghaves. exact Hc.
    + apply Forall_forall. intros w Hw. apply in_map_iff in Hw. destruct Hw as [c [<- Hc]]. rewrite Forall_forall in Gwants. apply Gwants. exact Hc.
  - intros i Hi. unfold ws.
    destruct (Compare_dec.lt_dec i (N.to_nat 16384)) as [H1|H1].
    { exists (0, slice rfile 0 16384). split; [left; reflexivity|]. unfold covers. cbn [fst snd]. unfold slice. rewrite firstn_length, skipn_length.
      change (N.to_nat 0) with 0%nat. lia. }
    destruct (Compare_dec.lt_dec i (N.to_nat (s_meta_off rh + s_meta_len rh))) as [H2|H2].
    { exists (s_meta_off rh, slice rfile (s_meta_off rh) (s_meta_len rh)). split; [right; left; reflexivity|]. unfold covers. cbn [fst snd].
      rewrite slice_full by lia. lia. }
    destruct (Compare_dec.lt_dec i (N.to_nat (s_leaf_off rh + s_leaf_len rh))) as [H3|H3].
    { exists (s_leaf_off rh, slice rfile (s_leaf_off rh) (s_leaf_len rh)). split; [right; right; left; reflexivity|]. unfold covers. cbn [fst snd].
      rewrite slice_full by lia. lia. }
    (* tile data: some block covers i *)
    destruct (chain_cover bl 0 (N.of_nat i - dof) Hchain) as [b [Hb Hbi]]; [lia|].
    assert (Hb' : In (mkRB (b_start b) (b_off b) (b_len b) (hash (slice rdata (b_off b) (b_len b)))) RB) by (apply in_map_iff; exists b; auto).
    destruct (C _ Hb') as [Hw|[c [Hc [e [He [-> Hh]]]]]].
    + (* fetched from the remote archive *)
      destruct (merge_have_covers rfile rfile dof dof i (map cp wanted) [] ltac:(constructor) Gwant) as [c [Hc Hcov]].
      { eexists. split; [apply in_map; exact Hw|]. unfold covers, W, cp. cbn [fst snd c_src c_dst c_len rb_off rb_len].
        rewrite slice_full by (apply Hin_data; exact Hb). lia. }
      exists (W rfile dof dof c). split; [|exact Hcov]. right. right. right. cbn [app]. apply in_or_app. right. apply in_map. rewrite Ewants. exact Hc.
    + (* copied from the local archive *)
      cbn [rb_off rb_len] in *.
      destruct (merge_have_covers rfile lfile dof ldoff i (sort_have have) [] ltac:(constructor)) as [c [Hc' Hcov]].
      { apply Forall_forall. intros c0 Hc0. apply -> sort_have_in in Hc0. rewrite Forall_forall in Ghave. apply Ghave. exact Hc0. }
      { eexists. split; [apply sort_have_in; exact Hc|]. rewrite Forall_forall in Ghave. destruct (Ghave _ Hc) as [Lc _].
        unfold covers, W. cbn [fst snd c_src c_dst c_len] in *. rewrite Lc. lia. }
      exists (W lfile dof ldoff c). split; [|exact Hcov]. right. right. right. cbn [app]. apply in_or_app. left. apply in_map. exact Hc'.
Qed.
End Converge.

(* ---- local = remote: nothing is wanted *)
(* makesync without the accumulator *)
Fixpoint blocks_from (bs:N) (cur:block) (es:list entry) : option (list block) :=
  match es with
  | [] => Some [cur]
  | e :: r =>
    if b_off cur + b_len cur <? off e then None
    else if off e =? b_off cur + b_len cur then
      if bs <? b_len cur + len e then option_map (cons cur) (blocks_from bs (mkB (tid e) (off e) (len e)) r)
      else blocks_from bs (mkB (b_start cur) (b_off cur) (b_len cur + len e)) r
    else blocks_from bs cur r
  end.
Lemma fold_blocks_from bs : forall es cur out, 0 < b_len cur -> Forall (fun e => 0 < len e) es ->
  match fold_left (ms_step bs) es (Some (cur, out)) with
  | Some (c, o) => option_map (fun l => rev out ++ l) (blocks_from bs cur es) = Some (rev (c :: o))
  | None => blocks_from bs cur es = None
  end.
Proof.
  induction es as [|e r IH]; intros cur out Hl Hes; cbn [fold_left blocks_from].
  - cbn. reflexivity.
  - inversion Hes as [|e' r' He Hr]; subst. unfold ms_step at 2.
    destruct (N.eqb_spec (b_len cur) 0) as [Hz|_]; [lia|].
    destruct (b_off cur + b_len cur <? off e).
    + clear. induction r as [|x r IHr]; [reflexivity|exact IHr].
    + destruct (off e =? b_off cur + b_len cur).
      * destruct (bs <? b_len cur + len e).
        -- specialize (IH (mkB (tid e) (off e) (len e)) (cur :: out) He Hr).
           destruct (fold_left (ms_step bs) r (Some (mkB (tid e) (off e) (len e), cur :: out))) as [[c o]|].
           ++ destruct (blocks_from bs (mkB (tid e) (off e) (len e)) r) as [l|]; cbn [option_map] in *; [|discriminate].
              rewrite <- IH. cbn [rev]. rewrite <- app_assoc. reflexivity.
           ++ rewrite IH. reflexivity.
        -- apply IH; [cbn; lia|exact Hr].
      * apply IH; assumption.
Qed.

Inductive subseq : list block -> list entry -> Prop :=
| sub_nil es : subseq [] es
| sub_skip b bl e es : subseq (b :: bl) es -> subseq (b :: bl) (e :: es)
| sub_take b bl e es : b_start b = tid e -> b_off b = off e -> subseq bl es -> subseq (b :: bl) (e :: es).
Lemma subseq_skip bl e es : subseq bl es -> subseq bl (e :: es).
Proof. destruct bl; [constructor|apply sub_skip]. Qed.
Lemma blocks_from_tail bs : forall es cur l, blocks_from bs cur es = Some l ->
  exists c l', l = c :: l' /\ b_start c = b_start cur /\ b_off c = b_off cur /\ subseq l' es.
Proof.
  induction es as [|e r IH]; intros cur l H; cbn [blocks_from] in H.
  - inversion H. exists cur, []. repeat split. constructor.
  - destruct (b_off cur + b_len cur <? off e); [discriminate|].
    destruct (off e =? b_off cur + b_len cur).
    + destruct (bs <? b_len cur + len e).
      * destruct (blocks_from bs (mkB (tid e) (off e) (len e)) r) as [l0|] eqn:E; [|discriminate]. inversion H; subst.
        destruct (IH _ _ E) as [c [l' [-> [Hs [Ho Hsub]]]]]. exists cur, (c :: l'). repeat split. apply sub_take; assumption.
      * destruct (IH _ _ H) as [c [l' [-> [Hs [Ho Hsub]]]]]. exists c, l'. repeat split; auto. apply subseq_skip. exact Hsub.
    + destruct (IH _ _ H) as [c [l' [-> [Hs [Ho Hsub]]]]]. exists c, l'. repeat split; auto. apply subseq_skip. exact Hsub.
Qed.

Fixpoint asc_tids (lo:N) (es:list entry) : Prop := match es with [] => True | e :: r => lo <= tid e /\ asc_tids (tid e + 1) r end.
Lemma subseq_lb : forall bl es lo b, subseq bl es -> asc_tids lo es -> In b bl -> lo <= b_start b.
Proof.
  intros bl es lo b Hs. revert lo. induction Hs as [es|b0 bl e es Hs IH|b0 bl e es H1 H2 Hs IH]; intros lo Ha Hin.
  - destruct Hin.
  - cbn in Ha. destruct Ha as [Hl Ha]. specialize (IH _ Ha Hin). lia.
  - cbn in Ha. destruct Ha as [Hl Ha]. destruct Hin as [<-|Hin]; [lia|]. specialize (IH _ Ha Hin). lia.
Qed.
Section NoDownload.
Variable hash : bytes -> N.
Variable data : bytes.
Definition rb_of (b:block) : rblock := mkRB (b_start b) (b_off b) (b_len b) (hash (slice data (b_off b) (b_len b))).
Lemma skip_lt_none t : forall bl, (forall b, In b bl -> t <= rb_start b) -> skip_lt t bl = ([], bl).
Proof.
  destruct bl as [|b r]; intro H; cbn [skip_lt]; [reflexivity|].
  destruct (N.ltb_spec (rb_start b) t) as [Hlt|_]; [|reflexivity]. specialize (H b (or_introl eq_refl)). lia.
Qed.
Lemma diff_all_have : forall es bl lo have wanted, subseq bl es -> asc_tids lo es ->
  exists have', diff hash data es (map rb_of bl) have wanted = (have', wanted).
Proof.
  induction es as [|e r IH]; intros bl lo have wanted Hs Ha; cbn [diff].
  - inversion Hs; subst. cbn. rewrite app_nil_r. eauto.
  - cbn in Ha. destruct Ha as [Hlo Ha].
    rewrite skip_lt_none.
    2:{ intros b' Hb'. apply in_map_iff in Hb'. destruct Hb' as [b [<- Hb]]. cbn. apply (subseq_lb bl (e :: r) (tid e) b Hs); [cbn; split; [lia|exact Ha]|exact Hb]. }
    inversion Hs as [es'|b bl' e' es' Hs'|b bl' e' es' H1 H2 Hs']; subst.
    + cbn [map]. destruct (IH [] _ have (wanted ++ []) (sub_nil _) Ha) as [h' Hd]. cbn [map] in Hd. rewrite app_nil_r in Hd. rewrite app_nil_r. eauto.
    + cbn [map]. destruct (N.eqb_spec (rb_start (rb_of b)) (tid e)) as [Heq|Hne].
      * (* the block starts at a later entry with a larger tile id *)
        exfalso. cbn in Heq. pose proof (subseq_lb _ _ _ b Hs' Ha (or_introl eq_refl)). lia.
      * rewrite app_nil_r. apply (IH (b :: bl') _ have wanted Hs' Ha).
    + cbn [map]. cbn [rb_of rb_start rb_len rb_off rb_hash]. rewrite H1, N.eqb_refl. rewrite <- H2, N.eqb_refl. rewrite app_nil_r.
      apply (IH bl' _ _ wanted Hs' Ha).
Qed.
End NoDownload.

(* ---- batching of the Range header: nothing lost, nothing reordered *)
Definition mr_flat (st:list (list N * list copy) * list N * list copy) : list copy :=
  let '(done, cur, rs) := st in concat (map snd (rev done)) ++ rev rs.
Lemma range_str_nonempty base c : blen (range_str base c) =? 0 = false.
Proof. unfold range_str, blen. rewrite !app_length. cbn [length]. apply N.eqb_neq. lia. Qed.
Lemma mr_step_flat base maxb st c : (let '(_, cur, rs) := st in blen cur = 0 -> rs = []) ->
  mr_flat (mr_step base maxb st c) = mr_flat st ++ [c] /\ (let '(_, cur, rs) := mr_step base maxb st c in blen cur <> 0).
Proof.
  destruct st as [[done cur] rs]. intro Hinv. unfold mr_step.
  pose proof (range_str_nonempty base c) as Hne.
  destruct ((maxb <? blen cur + blen (range_str base c) + 1) && negb (blen cur =? 0)) eqn:E.
  - change (blen [] =? 0) with true. cbv iota. split.
    + unfold mr_flat. cbn [rev map concat app]. rewrite map_app, concat_app. cbn [map snd concat]. rewrite app_nil_r, <- app_assoc. reflexivity.
    + apply N.eqb_neq. exact Hne.
  - split.
    + unfold mr_flat. cbn [rev]. rewrite app_assoc. reflexivity.
    + destruct (blen cur =? 0) eqn:Ec; [apply N.eqb_neq; exact Hne|].
      unfold blen. rewrite !app_length. cbn [length]. lia.
Qed.
Theorem multi_ranges_partition base maxb : forall l, concat (map snd (multi_ranges base maxb l)) = l.
Proof.
  intro l. unfold multi_ranges.
  assert (G : forall l st, (let '(_, cur, rs) := st in blen cur = 0 -> rs = []) ->
    mr_flat (fold_left (mr_step base maxb) l st) = mr_flat st ++ l /\ (let '(_, cur, rs) := fold_left (mr_step base maxb) l st in blen cur = 0 -> rs = [])).
  { clear l. induction l as [|c r IH]; intros st Hinv; cbn [fold_left].
    - rewrite app_nil_r. split; [reflexivity|exact Hinv].
    - destruct (mr_step_flat base maxb st c Hinv) as [Hf Hn]. destruct (IH (mr_step base maxb st c)) as [H1 H2].
      + destruct (mr_step base maxb st c) as [[d cu] rs]. intro Hz. contradiction.
      + split; [rewrite H1, Hf, <- app_assoc; reflexivity|exact H2]. }
  destruct (G l ([], [], [])) as [H1 H2]; [intros _; reflexivity|].
  destruct (fold_left (mr_step base maxb) l ([], [], [])) as [[done cur] rs]. unfold mr_flat in H1. cbn [app rev map concat] in H1.
  destruct (N.eqb_spec (blen cur) 0) as [Hz|Hnz].
  - rewrite (H2 Hz) in H1. cbn [rev] in H1. rewrite app_nil_r in H1. exact H1.
  - cbn [rev]. rewrite map_app, concat_app. cbn [map snd concat]. rewrite app_nil_r. exact H1.
Qed.
