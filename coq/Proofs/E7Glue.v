(* From the analytic core (Proofs/E7.v) to the executable binary64 model (Model/F64.v):  to_e7 (of_e7 n) = n  for every int32 n. *)
From Flocq Require Import Core IEEE754.BinarySingleNaN IEEE754.Binary IEEE754.Bits.
From Coq Require Import Reals Lra Lia ZArith Psatz.
From PM Require Import Model.F64 Proofs.E7.
Open Scope R_scope.

Notation R64 := (B2R 53 1024).
Notation fin := (is_finite 53 1024).
Lemma round_is_rnd x : round radix2 (SpecFloat.fexp 53 1024) (round_mode mode_NE) x = rnd x.
Proof. reflexivity. Qed.
#[local] Instance vexp : Valid_exp fexp. Proof. apply FLT_exp_valid. exact prec53. Qed.

Lemma rnd_int (n:Z) : (Z.abs n < 2^53)%Z -> rnd (IZR n) = IZR n.
Proof.
  intro H. unfold rnd. apply round_generic; [apply valid_rnd_N|].
  apply generic_format_FLT. apply (FLT_spec radix2 (-1074) 53 (IZR n) (Float radix2 n 0)).
  - unfold F2R. cbn. lra.
  - cbn. exact H.
  - cbn. lia.
Qed.
Lemma rnd_le_pow (x:R) (k:Z) : (-1074 < k)%Z -> Rabs x <= bpow radix2 k -> Rabs (rnd x) <= bpow radix2 k.
Proof.
  intros Hk H. unfold rnd. apply abs_round_le_generic; [exact vexp|apply valid_rnd_N| |exact H].
  apply generic_format_bpow. unfold fexp, FLT_exp. lia.
Qed.
Lemma lt_emax (x:R) (k:Z) : (k < 1024)%Z -> Rabs x <= bpow radix2 k -> Rlt_bool (Rabs x) (bpow radix2 1024) = true.
Proof. intros Hk H. apply Rlt_bool_true. apply Rle_lt_trans with (1 := H). apply bpow_lt. exact Hk. Qed.

Lemma of_Z_correct (n:Z) : (Z.abs n < 2^53)%Z -> R64 (f64_of_Z n) = IZR n /\ fin (f64_of_Z n) = true.
Proof.
  intro H. unfold f64_of_Z.
  pose proof (binary_normalize_correct 53 1024 eq_refl eq_refl mode_NE n 0 false) as C.
  assert (E: F2R (Float radix2 n 0) = IZR n) by (unfold F2R; cbn; lra).
  rewrite E, round_is_rnd, (rnd_int n H) in C.
  rewrite (lt_emax (IZR n) 53) in C.
  - destruct C as [C1 [C2 _]]. split; assumption.
  - lia.
  - rewrite <- abs_IZR. change (bpow radix2 53) with (IZR (2^53)). apply IZR_le. lia.
Qed.

Lemma c1e7 : R64 f64_1e7 = 10000000 /\ fin f64_1e7 = true.
Proof. unfold f64_1e7. apply (of_Z_correct 10000000). cbn. lia. Qed.

Lemma div_correct (x:f64) (r:R) : R64 x = r -> fin x = true -> Rabs (r / 10000000) <= bpow radix2 8 ->
  R64 (f64_div x f64_1e7) = rnd (r / 10000000) /\ fin (f64_div x f64_1e7) = true.
Proof.
  intros Hx Hf Hb. destruct c1e7 as [Hc Hcf]. unfold f64_div, b64_div.
  match goal with |- context [Bdiv 53 1024 ?a ?b ?c ?m x f64_1e7] =>
    pose proof (Bdiv_correct 53 1024 a b c m x f64_1e7) as C end.
  rewrite Hc, Hx in C. specialize (C ltac:(lra)). rewrite round_is_rnd in C.
  rewrite (lt_emax (rnd (r / 10000000)) 8) in C; [|lia|apply rnd_le_pow; [lia|exact Hb]].
  destruct C as [C1 [C2 _]]. split; [exact C1|]. rewrite C2. exact Hf.
Qed.
Lemma mul_correct (x:f64) (r:R) : R64 x = r -> fin x = true -> Rabs (r * 10000000) <= bpow radix2 40 ->
  R64 (f64_mul x f64_1e7) = rnd (r * 10000000) /\ fin (f64_mul x f64_1e7) = true.
Proof.
  intros Hx Hf Hb. destruct c1e7 as [Hc Hcf]. unfold f64_mul, b64_mult.
  match goal with |- context [Bmult 53 1024 ?a ?b ?c ?m x f64_1e7] =>
    pose proof (Bmult_correct 53 1024 a b c m x f64_1e7) as C end.
  rewrite Hc, Hx, round_is_rnd in C.
  rewrite (lt_emax (rnd (r * 10000000)) 40) in C; [|lia|apply rnd_le_pow; [lia|exact Hb]].
  destruct C as [C1 [C2 _]]. split; [exact C1|]. rewrite C2, Hf, Hcf. reflexivity.
Qed.

(* go_round is rounding to the nearest integer: anything within 1/2 of an integer goes to it *)
Lemma go_round_spec (f:f64) (n:Z) : fin f = true -> Rabs (R64 f - IZR n) < / 2 -> go_round f = n.
Proof.
  destruct f as [s|s|s pl Hpl|s m e He]; cbn [is_finite]; try discriminate; intros _ H.
  - cbn in H. unfold go_round. rewrite Rminus_0_l, Rabs_Ropp, <- abs_IZR in H.
    assert (IZR (Z.abs n) < 1) as H1 by lra. apply lt_IZR in H1. lia.
  - unfold go_round. cbn [B2R] in H. unfold F2R in H. cbn [Fnum Fexp] in H.
    destruct (Z.leb_spec 0 e) as [Hee|Hee].
    + (* integral value *)
      rewrite <- IZR_Zpower in H by exact Hee. rewrite <- mult_IZR, <- minus_IZR, <- abs_IZR in H.
      assert (IZR (Z.abs (cond_Zopp s (Z.pos m) * 2 ^ e - n)) < 1) as H1 by (eapply Rlt_trans; [exact H|lra]). apply lt_IZR in H1.
      destruct s; cbn [cond_Zopp] in H1; cbn [radix_val radix2] in *; lia.
    + set (d := (2 ^ (- e))%Z).
      assert (Hd : (0 < d)%Z) by (apply Z.pow_pos_nonneg; lia).
      assert (Hb : bpow radix2 e = / IZR d).
      { replace e with (- - e)%Z at 1 by lia. rewrite bpow_opp. f_equal. unfold d. rewrite <- IZR_Zpower by lia. reflexivity. }
      rewrite Hb in H.
      assert (HdR : 0 < IZR d) by (apply IZR_lt; exact Hd).
      assert (H2 : Rabs (IZR (cond_Zopp s (Z.pos m)) - IZR n * IZR d) < IZR d / 2).
      { replace (IZR (cond_Zopp s (Z.pos m)) - IZR n * IZR d) with ((IZR (cond_Zopp s (Z.pos m)) * / IZR d - IZR n) * IZR d) by (field; lra).
        rewrite Rabs_mult, (Rabs_pos_eq (IZR d)) by lra. nra. }
      rewrite <- mult_IZR, <- minus_IZR, <- abs_IZR in H2.
      assert (H3 : (2 * Z.abs (cond_Zopp s (Z.pos m) - n * d) < d)%Z).
      { apply lt_IZR. rewrite mult_IZR. lra. }
      fold d. pose proof (Z.div_mod (Z.pos m) d ltac:(lia)) as Hdm. pose proof (Z.mod_pos_bound (Z.pos m) d Hd) as Hr.
      set (q := (Z.pos m / d)%Z) in *. set (r := (Z.pos m mod d)%Z) in *.
      destruct s; cbn [cond_Zopp] in H3; destruct (Z.leb_spec d (2 * r)); nia.
Qed.

Lemma abs_lt_pow (n:Z) (k:Z) : (0 <= k)%Z -> (Z.abs n <= 2^k)%Z -> Rabs (IZR n) <= bpow radix2 k.
Proof. intros Hk H. rewrite <- abs_IZR. rewrite <- IZR_Zpower by exact Hk. apply IZR_le. exact H. Qed.

(* show then edit: every int32 survives  n -> float64(n)/1e7 -> int32(math.Round(f*1e7)) *)
Theorem e7_roundtrip (n:Z) : (- 2^31 <= n < 2^31)%Z -> to_e7 (of_e7 n) = n.
Proof.
  intro Hn. destruct (Z.eq_dec n 0) as [->|Hnz]; [vm_compute; reflexivity|].
  destruct (Z.eq_dec n (-2^31)) as [->|Hmin]; [vm_compute; reflexivity|].
  assert (Habs : (0 < Z.abs n < 2^31)%Z) by lia.
  destruct (of_Z_correct n) as [Hx Hxf]; [lia|].
  assert (HnR : Rabs (IZR n) <= 2147483648).
  { rewrite <- abs_IZR. apply IZR_le. change (2^31)%Z with 2147483648%Z in Habs. lia. }
  destruct (div_correct (f64_of_Z n) (IZR n) Hx Hxf) as [Hq Hqf].
  { unfold Rdiv. rewrite Rabs_mult, (Rabs_pos_eq (/10000000)) by lra. change (bpow radix2 8) with 256. lra. }
  fold (of_e7 n) in Hq, Hqf.
  pose proof (e7_core n Habs) as Hcore.
  assert (Hqb : Rabs (rnd (IZR n / 10000000)) <= bpow radix2 8).
  { apply rnd_le_pow; [lia|]. unfold Rdiv. rewrite Rabs_mult, (Rabs_pos_eq (/10000000)) by lra. change (bpow radix2 8) with 256. lra. }
  destruct (mul_correct (of_e7 n) _ Hq Hqf) as [Hp Hpf].
  { rewrite Rabs_mult, (Rabs_pos_eq 10000000) by lra. change (bpow radix2 8) with 256 in Hqb. change (bpow radix2 40) with 1099511627776. lra. }
  unfold to_e7. rewrite (go_round_spec _ n Hpf).
  - unfold wrap_int32. change (2^32)%Z with 4294967296%Z. change (2^31)%Z with 2147483648%Z in *.
    destruct (Z_lt_le_dec n 0) as [Hneg|Hpos].
    + assert (Hm : (n mod 4294967296 = n + 4294967296)%Z) by (symmetry; apply Z.mod_unique with (-1)%Z; lia).
      rewrite Hm. destruct (Z.ltb_spec (n + 4294967296) 2147483648); lia.
    + rewrite Z.mod_small by lia. destruct (Z.ltb_spec n 2147483648); lia.
  - rewrite Hp. lra.
Qed.

(* a coordinate typed with up to seven decimals, m / 10^k degrees with |m| * 10^(7-k) an int32: the conversion of edit
   (strconv's correctly rounded parse, then int32(math.Round(f * 1e7))) stores exactly m * 10^(7-k) *)
Lemma rnd_close (x:R) : bpow radix2 (-1022) <= Rabs x -> Rabs (rnd x - x) <= bpow radix2 (-53) * Rabs x.
Proof. intro H. destruct (rel x H) as [e [He Hr]]. rewrite Hr. replace (x * (1 + e) - x) with (e * x) by ring. rewrite Rabs_mult. apply Rmult_le_compat_r; [apply Rabs_pos|exact He]. Qed.

Lemma div_correct_gen (x y:f64) (rx ry:R) : R64 x = rx -> R64 y = ry -> ry <> 0 -> fin x = true -> Rabs (rx / ry) <= bpow radix2 8 ->
  R64 (f64_div x y) = rnd (rx / ry) /\ fin (f64_div x y) = true.
Proof.
  intros Hx Hy Hnz Hf Hb. unfold f64_div, b64_div.
  match goal with |- context [Bdiv 53 1024 ?a ?b ?c ?m x y] =>
    pose proof (Bdiv_correct 53 1024 a b c m x y) as C end.
  rewrite Hy, Hx in C. specialize (C Hnz). rewrite round_is_rnd in C.
  rewrite (lt_emax (rnd (rx / ry)) 8) in C; [|lia|apply rnd_le_pow; [lia|exact Hb]].
  destruct C as [C1 [C2 _]]. split; [exact C1|]. rewrite C2. exact Hf.
Qed.
Lemma rnd_0 : rnd 0 = 0. Proof. unfold rnd. apply round_0. apply valid_rnd_N. Qed.

Theorem e7_decimal (m:Z) (k:nat) : (k <= 7)%nat -> let N := (m * 10 ^ (7 - Z.of_nat k))%Z in
  (- 2^31 <= N < 2^31)%Z -> to_e7 (dec_to_f64 m k) = N.
Proof.
  intros Hk N HN.
  set (P := (10 ^ Z.of_nat k)%Z).
  assert (HP : (1 <= P <= 10000000)%Z).
  { unfold P. split; [pose proof (Z.pow_pos_nonneg 10 (Z.of_nat k)); lia|]. change 10000000%Z with (10^7)%Z. apply Z.pow_le_mono_r; lia. }
  assert (HPN : (P * 10 ^ (7 - Z.of_nat k) = 10000000)%Z).
  { unfold P. rewrite <- Z.pow_add_r by lia. replace (Z.of_nat k + (7 - Z.of_nat k))%Z with 7%Z by lia. reflexivity. }
  assert (HQ : (1 <= 10 ^ (7 - Z.of_nat k))%Z) by (pose proof (Z.pow_pos_nonneg 10 (7 - Z.of_nat k)); lia).
  destruct (Z.eq_dec N (-2^31)) as [Hmin|Hmin].
  { (* only k = 7 divides: 2^31 is not a multiple of 10 *)
    assert (k = 7%nat) as ->.
    { destruct (Nat.eq_dec k 7) as [|Hne]; [assumption|exfalso].
      assert (exists j, (10 ^ (7 - Z.of_nat k) = 10 * 10^j)%Z /\ (0 <= j)%Z) as [j [Hj Hj0]].
      { exists (6 - Z.of_nat k)%Z. split; [|lia]. rewrite <- Z.pow_succ_r by lia. f_equal. lia. }
      unfold N in Hmin. rewrite Hj in Hmin. change (-2^31)%Z with (-2147483648)%Z in Hmin.
      assert ((m * (10 * 10 ^ j)) mod 10 = 0)%Z as Hz by (replace (m * (10 * 10 ^ j))%Z with ((m * 10^j) * 10)%Z by ring; apply Z.mod_mul; lia).
      rewrite Hmin in Hz. vm_compute in Hz. discriminate. }
    unfold N in Hmin |- *. change (7 - Z.of_nat 7)%Z with 0%Z in *. rewrite Z.pow_0_r, Z.mul_1_r in *. subst m. vm_compute. reflexivity. }
  assert (HmP : (Z.abs m < 2^53)%Z).
  { assert (Z.abs m <= Z.abs N)%Z; [|lia]. unfold N. rewrite Z.abs_mul, (Z.abs_eq (10 ^ _)) by lia. nia. }
  destruct (of_Z_correct m HmP) as [Hx Hxf].
  destruct (of_Z_correct P) as [Hy _]; [lia|].
  assert (HPR : 1 <= IZR P) by (apply IZR_le; lia).
  assert (Heq : IZR m / IZR P = IZR N / 10000000).
  { unfold N. rewrite mult_IZR. change 10000000 with (IZR 10000000). rewrite <- HPN, mult_IZR.
    assert (1 <= IZR (10 ^ (7 - Z.of_nat k))) by (apply IZR_le; exact HQ). field. lra. }
  assert (HNR : Rabs (IZR N) <= 2147483648).
  { rewrite <- abs_IZR. apply IZR_le. change (2^31)%Z with 2147483648%Z in HN. lia. }
  destruct (div_correct_gen (f64_of_Z m) (f64_of_Z P) _ _ Hx Hy) as [Hq Hqf]; [lra|exact Hxf| |].
  { rewrite Heq. unfold Rdiv. rewrite Rabs_mult, (Rabs_pos_eq (/10000000)) by lra. change (bpow radix2 8) with 256. lra. }
  fold (dec_to_f64 m k) in Hq, Hqf. rewrite Heq in Hq.
  assert (Hqb : Rabs (rnd (IZR N / 10000000)) <= bpow radix2 8).
  { apply rnd_le_pow; [lia|]. unfold Rdiv. rewrite Rabs_mult, (Rabs_pos_eq (/10000000)) by lra. change (bpow radix2 8) with 256. lra. }
  destruct (mul_correct (dec_to_f64 m k) _ Hq Hqf) as [Hp Hpf].
  { rewrite Rabs_mult, (Rabs_pos_eq 10000000) by lra. change (bpow radix2 8) with 256 in Hqb. change (bpow radix2 40) with 1099511627776. lra. }
  unfold to_e7. rewrite (go_round_spec _ N Hpf).
  - unfold wrap_int32. change (2^32)%Z with 4294967296%Z. change (2^31)%Z with 2147483648%Z in *.
    destruct (Z_lt_le_dec N 0) as [Hneg|Hpos].
    + assert (Hm : (N mod 4294967296 = N + 4294967296)%Z) by (symmetry; apply Z.mod_unique with (-1)%Z; lia).
      rewrite Hm. destruct (Z.ltb_spec (N + 4294967296) 2147483648); lia.
    + rewrite Z.mod_small by lia. destruct (Z.ltb_spec N 2147483648); lia.
  - rewrite Hp. destruct (Z.eq_dec N 0) as [Hz|Hnz].
    + rewrite Hz. unfold Rdiv. rewrite Rmult_0_l, rnd_0, Rmult_0_l, rnd_0. rewrite Rminus_0_r, Rabs_R0. lra.
    + pose proof (e7_core N ltac:(lia)). lra.
Qed.

(* ---- truncation (Convert, Extract): int32(f * 1e7) is within one unit of the exact value *)
Lemma go_trunc_close (f:f64) : fin f = true -> Rabs (IZR (go_trunc f) - R64 f) < 1.
Proof.
  destruct f as [s|s|s pl Hpl|s m e He]; cbn [is_finite]; try discriminate; intros _.
  - cbn. rewrite Rminus_0_r, Rabs_R0. lra.
  - unfold go_trunc. cbn [B2R]. unfold F2R. cbn [Fnum Fexp].
    destruct (Z.leb_spec 0 e) as [Hee|Hee].
    + rewrite <- IZR_Zpower by exact Hee. rewrite <- mult_IZR.
      replace (IZR (if s then - (Z.pos m * 2 ^ e) else Z.pos m * 2 ^ e) - IZR (cond_Zopp s (Z.pos m) * radix2 ^ e)) with 0; [rewrite Rabs_R0; lra|].
      destruct s; cbn [cond_Zopp]; change (radix_val radix2) with 2%Z; rewrite <- minus_IZR; f_equal; lia.
    + set (d := (2 ^ (- e))%Z).
      assert (Hd : (0 < d)%Z) by (apply Z.pow_pos_nonneg; lia).
      assert (Hb : bpow radix2 e = / IZR d).
      { replace e with (- - e)%Z at 1 by lia. rewrite bpow_opp. f_equal. unfold d. rewrite <- IZR_Zpower by lia. reflexivity. }
      rewrite Hb. assert (HdR : 0 < IZR d) by (apply IZR_lt; exact Hd).
      pose proof (Z.div_mod (Z.pos m) d ltac:(lia)) as Hdm. pose proof (Z.mod_pos_bound (Z.pos m) d Hd) as Hr.
      set (q := (Z.pos m / d)%Z) in *. set (r := (Z.pos m mod d)%Z) in *.
      assert (Hm : IZR (Z.pos m) = IZR d * IZR q + IZR r) by (rewrite <- mult_IZR, <- plus_IZR; f_equal; exact Hdm).
      assert (Hr1 : 0 <= IZR r < IZR d) by (split; [apply IZR_le|apply IZR_lt]; lia).
      assert (Hfrac : IZR (Z.pos m) * / IZR d = IZR q + IZR r * / IZR d) by (rewrite Hm; field; lra).
      assert (Hf1 : 0 <= IZR r * / IZR d < 1).
      { split; [apply Rmult_le_pos; [lra|left; apply Rinv_0_lt_compat; lra]|]. apply Rmult_lt_reg_r with (IZR d); [lra|]. rewrite Rmult_assoc, Rinv_l by lra. lra. }
      assert (Hgen : Rabs (IZR q - IZR (Z.pos m) * / IZR d) < 1).
      { rewrite Hfrac. replace (IZR q - (IZR q + IZR r * / IZR d)) with (- (IZR r * / IZR d)) by ring. rewrite Rabs_Ropp, Rabs_pos_eq; lra. }
      destruct s; cbn [cond_Zopp].
      * match goal with |- Rabs ?t < 1 => replace t with (- (IZR q - IZR (Z.pos m) * / IZR d)) end; [rewrite Rabs_Ropp; exact Hgen|].
        rewrite opp_IZR. change (Z.neg m) with (- Z.pos m)%Z. rewrite opp_IZR. ring.
      * exact Hgen.
Qed.

Theorem e7_trunc_decimal (m:Z) (k:nat) : (k <= 7)%nat -> let N := (m * 10 ^ (7 - Z.of_nat k))%Z in
  (- 2^31 + 1 < N < 2^31 - 1)%Z -> (Z.abs (to_e7_pinned (dec_to_f64 m k) - N) <= 1)%Z.
Proof.
  intros Hk N HN.
  set (P := (10 ^ Z.of_nat k)%Z).
  assert (HP : (1 <= P <= 10000000)%Z).
  { unfold P. split; [pose proof (Z.pow_pos_nonneg 10 (Z.of_nat k)); lia|]. change 10000000%Z with (10^7)%Z. apply Z.pow_le_mono_r; lia. }
  assert (HPN : (P * 10 ^ (7 - Z.of_nat k) = 10000000)%Z).
  { unfold P. rewrite <- Z.pow_add_r by lia. replace (Z.of_nat k + (7 - Z.of_nat k))%Z with 7%Z by lia. reflexivity. }
  assert (HQ : (1 <= 10 ^ (7 - Z.of_nat k))%Z) by (pose proof (Z.pow_pos_nonneg 10 (7 - Z.of_nat k)); lia).
  assert (HmP : (Z.abs m < 2^53)%Z).
  { assert (Z.abs m <= Z.abs N)%Z; [|lia]. unfold N. rewrite Z.abs_mul, (Z.abs_eq (10 ^ _)) by lia. nia. }
  destruct (of_Z_correct m HmP) as [Hx Hxf].
  destruct (of_Z_correct P) as [Hy _]; [lia|].
  assert (HPR : 1 <= IZR P) by (apply IZR_le; lia).
  assert (Heq : IZR m / IZR P = IZR N / 10000000).
  { unfold N. rewrite mult_IZR. change 10000000 with (IZR 10000000). rewrite <- HPN, mult_IZR.
    assert (1 <= IZR (10 ^ (7 - Z.of_nat k))) by (apply IZR_le; exact HQ). field. lra. }
  assert (HNR : Rabs (IZR N) <= 2147483648).
  { rewrite <- abs_IZR. apply IZR_le. change (2^31)%Z with 2147483648%Z in HN. lia. }
  destruct (div_correct_gen (f64_of_Z m) (f64_of_Z P) _ _ Hx Hy) as [Hq Hqf]; [lra|exact Hxf| |].
  { rewrite Heq. unfold Rdiv. rewrite Rabs_mult, (Rabs_pos_eq (/10000000)) by lra. change (bpow radix2 8) with 256. lra. }
  fold (dec_to_f64 m k) in Hq, Hqf. rewrite Heq in Hq.
  assert (Hqb : Rabs (rnd (IZR N / 10000000)) <= bpow radix2 8).
  { apply rnd_le_pow; [lia|]. unfold Rdiv. rewrite Rabs_mult, (Rabs_pos_eq (/10000000)) by lra. change (bpow radix2 8) with 256. lra. }
  destruct (mul_correct (dec_to_f64 m k) _ Hq Hqf) as [Hp Hpf].
  { rewrite Rabs_mult, (Rabs_pos_eq 10000000) by lra. change (bpow radix2 8) with 256 in Hqb. change (bpow radix2 40) with 1099511627776. lra. }
  pose proof (go_trunc_close _ Hpf) as Ht. rewrite Hp in Ht.
  assert (Hcore : Rabs (rnd (rnd (IZR N / 10000000) * 10000000) - IZR N) < / 4).
  { destruct (Z.eq_dec N 0) as [Hz|Hnz].
    - rewrite Hz. unfold Rdiv. rewrite Rmult_0_l, rnd_0, Rmult_0_l, rnd_0. rewrite Rminus_0_r, Rabs_R0. lra.
    - apply e7_core. lia. }
  set (T := go_trunc (f64_mul (dec_to_f64 m k) f64_1e7)) in *.
  assert (Hd : Rabs (IZR T - IZR N) < 2).
  { replace (IZR T - IZR N) with ((IZR T - rnd (rnd (IZR N / 10000000) * 10000000)) + (rnd (rnd (IZR N / 10000000) * 10000000) - IZR N)) by ring.
    eapply Rle_lt_trans; [apply Rabs_triang|]. lra. }
  rewrite <- minus_IZR, <- abs_IZR in Hd. apply lt_IZR in Hd.
  (* T is within one of N and N is an int32: wrapping is the identity *)
  unfold to_e7_pinned. fold T. unfold wrap_int32. change (2^32)%Z with 4294967296%Z. change (2^31)%Z with 2147483648%Z in *.
  clearbody N T. assert (HT : (- 2147483648 <= T < 2147483648)%Z) by lia.
  destruct (Z_lt_le_dec T 0) as [Hneg|Hpos].
  - assert (Hm : (T mod 4294967296 = T + 4294967296)%Z) by (symmetry; apply Z.mod_unique with (-1)%Z; lia).
    rewrite Hm. destruct (Z.ltb_spec (T + 4294967296) 2147483648); lia.
  - rewrite Z.mod_small by lia. destruct (Z.ltb_spec T 2147483648); lia.
Qed.
